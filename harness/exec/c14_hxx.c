/* c14_hxx.c -- echsx.c in a TU of its own, main renamed; alarm() recorded
 * instead of armed, time() owned by the driver, job spawns counted */
#include <stdlib.h>
#include <stdio.h>
#include <string.h>
#include <unistd.h>
#include <time.h>
#include <spawn.h>
#include <sys/wait.h>
#include <sys/mman.h>
#include "c14_hx.h"

static unsigned int hxx_alarm(unsigned int);
static time_t hxx_time(time_t*);
static int hxx_spawn(pid_t*, const char*, const posix_spawn_file_actions_t*,
		     const posix_spawnattr_t*, char *const[], char *const[]);

#define alarm		hxx_alarm
#define time		hxx_time
#define posix_spawn	hxx_spawn
#define main		echsx_main
#include "echsx.c"
#undef main
#undef posix_spawn
#undef time
#undef alarm

static struct hx_xres *hxx_res;
static time_t hxx_now;

static unsigned int
hxx_alarm(unsigned int s)
{
	if (s) {
		hxx_res->n_alarm++;
		hxx_res->alarm_arg = s;
	}
	return 0;
}

static time_t
hxx_time(time_t *t)
{
	time_t r = hxx_now ? hxx_now : time(NULL);

	hxx_res->n_time++;
	if (t) {
		*t = r;
	}
	return r;
}

static int
hxx_spawn(pid_t *pid, const char *path, const posix_spawn_file_actions_t *fa,
	  const posix_spawnattr_t *at, char *const argv[], char *const envp[])
{
	hxx_res->n_spawn++;
	return posix_spawn(pid, path, fa, at, argv, envp);
}

int
hxx_run(const char *req, size_t len, time_t now, struct hx_xres *res, int jfd, int lfd)
{
/* echsx keeps state in statics (and is a process of its own in real life):
 * run it in a child; RES must be in shared memory */
	pid_t p;
	int st = -1;
	int ip[2];

	if (pipe(ip) < 0) {
		return -1;
	}
	if ((p = fork()) < 0) {
		return -1;
	} else if (p == 0) {
		char *av[] = {"echsx", "-v", NULL};

		close(ip[1]);
		dup2(ip[0], 0), close(ip[0]);
		dup2(jfd, 1);
		dup2(lfd, 2);
		hxx_res = res;
		hxx_now = now;
		_exit(echsx_main(2, av));
	}
	close(ip[0]);
	for (size_t o = 0; o < len;) {
		ssize_t n = write(ip[1], req + o, len - o);
		if (n <= 0) {
			break;
		}
		o += n;
	}
	close(ip[1]);
	while (waitpid(p, &st, 0) < 0 && errno == EINTR);
	return st;
}
