#!/usr/bin/env python3
"""C12 / C13 / C14, real-process layer: several executors of one user report into ONE journal.

echsd's run_task() opens the owner's journal afresh for every start (O_RDWR|O_CREAT, no O_APPEND), moves to
its end and hands that descriptor to echsx as stdout.  The not-run report of C12 (`echsx -v -nd', an entry with
STATUS:CANCELLED) and the termination record of C14 (X-SIGNAL of the run killed at its limit) are entries in
that file; they only exist for the user if they survive the reports of the other executions of the same user
that are around at the same time.  This driver starts the unmodified echsx binary exactly that way and places
the reports of 2-3 executions relative to each other:

  family `overlap'  A is started (its descriptor stands at the end of the journal as it is then), B is started
                    while A's job is running and reports at once, then A reports (released by the driver, or
                    killed by its limit)
  family `queue'    another writer (a stand-in that takes the fcntl lock on the journal the way an echsx that
                    is just writing holds it) has the lock when 1 or 2 executors want to report; once they are
                    seen waiting for the lock (/proc/locks) the stand-in appends its own record and lets go

over the kinds of execution {exit (exit status 3), killed (outlives DURATION, SIGXCPU), notrun (-nd)}.
Oracle: the journal afterwards is the older content, untouched, followed by nothing but complete
BEGIN:VTODO..END:VTODO entries, exactly one per execution (and one of the stand-in), each with the right outcome:
X-EXIT-STATUS:3 without X-SIGNAL / X-SIGNAL:24 / STATUS:CANCELLED.

options (--opt k=v):
  set=all|notrun|killed|exit
                          all placements, or those with a not-run report (C12) / a run killed at its limit (C14) /
                          a job that simply exits with status 3 (C13: "records the job's true exit status ... in the
                          journal entry" -- also when the journal is busy at the moment the job ends)
  echsx=PATH              binary under test (default /repo/src/echsx)
  bdir=DIR                accepted for symmetry with the other E3 drivers (nothing is needed from it)
  keep=1                  keep the case directories
"""
import os, sys, subprocess, tempfile, shutil, time, signal
sys.path.insert(0, os.path.dirname(os.path.abspath(__file__)))
import e3lib
from e3lib import Drv, rows, vtodo, rd

# (family, kinds): overlap = (A, B) with A started first and reporting last; queue = executors waiting for the lock
CASES = [
    ('overlap', ('exit', 'notrun')),
    ('overlap', ('killed', 'notrun')),
    ('overlap', ('exit', 'exit')),
    ('overlap', ('killed', 'exit')),
    ('overlap', ('exit', 'killed')),
    ('queue', ('exit',)),
    ('queue', ('killed',)),
    ('queue', ('notrun',)),
    ('queue', ('killed', 'killed')),
    ('queue', ('exit', 'notrun')),
    ('queue', ('killed', 'notrun')),
    # added for C13 (set=exit): nothing but plain exits queueing for the lock, two and three of them
    ('queue', ('exit', 'exit')),
    ('queue', ('exit', 'exit', 'exit')),
]

OLDER = ('BEGIN:VTODO\nDTSTAMP:20260101T000001Z\nUID:c12j-older\nDTSTART:20260101T000000Z\nCOMPLETED:20260101T000001Z\n'
         'SUMMARY:true\nX-EXIT-STATUS:0\nEND:VTODO\n')
OTHER = ('BEGIN:VTODO\nDTSTAMP:20260101T000003Z\nUID:c12j-other\nDTSTART:20260101T000002Z\nCOMPLETED:20260101T000003Z\n'
         'SUMMARY:sleep 7\nX-EXIT-STATUS:152\nX-SIGNAL:24\nX-SIGNAL-STRING:CPU time limit exceeded\nEND:VTODO\n')

# the stand-in for an executor that is writing its entry: lock (whole file, which is what conflicts with any
# executor's lock wherever that starts), wait for the word, append at the end, unlock
HOLDER = r'''
import fcntl, os, sys
fd = os.open(sys.argv[1], os.O_RDWR)
fcntl.lockf(fd, fcntl.LOCK_EX, 0, 0, os.SEEK_SET)
sys.stdout.write("locked\n"); sys.stdout.flush()
sys.stdin.readline()
os.lseek(fd, 0, os.SEEK_END)
os.write(fd, sys.argv[2].encode("latin-1"))
fcntl.lockf(fd, fcntl.LOCK_UN, 0, 0, os.SEEK_SET)
sys.stdout.write("unlocked\n"); sys.stdout.flush()
'''


def strict_journal(b):
    """(entries, junk): entries = list of dicts (all values per property), junk = lines that are not part of a
    complete BEGIN:VTODO..END:VTODO entry"""
    ents, junk, cur, curl = [], [], None, []
    txt = (b or b'').decode('latin-1')
    lines = txt.split('\n')
    if lines and lines[-1] == '':
        lines.pop()
    else:
        junk.append('<no newline at the end>')
    for ln in lines:
        if ln == 'BEGIN:VTODO':
            if cur is not None:
                junk += curl
            cur, curl = {}, [ln]
        elif ln == 'END:VTODO':
            if cur is None:
                junk.append(ln)
            else:
                ents.append(cur)
            cur, curl = None, []
        elif cur is None:
            junk.append(ln)
        else:
            curl.append(ln)
            if ln.startswith(' '):
                continue
            k, sep, v = ln.partition(':')
            if not sep or not k or not all(c.isalnum() or c == '-' for c in k):
                junk.append(ln)
            else:
                cur.setdefault(k, []).append(v)
    if cur is not None:
        junk += curl
    return ents, junk


def outcome(e):
    """what an entry says about its execution"""
    def one(k):
        v = e.get(k)
        return v[0] if v and len(v) == 1 else None if not v else 'twice'
    uid = one('UID')
    if any(len(v) > 1 for k, v in e.items() if k != 'DESCRIPTION'):
        return (uid, 'garbled')
    if one('STATUS') == 'CANCELLED':
        return (uid, 'notrun' if 'X-EXIT-STATUS' not in e and 'X-SIGNAL' not in e else 'garbled')
    if 'X-SIGNAL' in e:
        return (uid, 'signal:%s' % one('X-SIGNAL'))
    if 'X-EXIT-STATUS' in e:
        return (uid, 'exit:%s' % one('X-EXIT-STATUS'))
    return (uid, 'nothing')


WANT = {'exit': 'exit:3', 'killed': 'signal:24', 'notrun': 'notrun'}


def n_entries(jn):
    return (rd(jn) or b'').count(b'\nEND:VTODO\n')


def waiters(jn):
    """number of processes blocked on a lock of the journal"""
    try:
        ino = os.stat(jn).st_ino
        with open('/proc/locks') as f:
            return sum(1 for ln in f if ' -> ' in ln and ln.split()[-3].endswith(':%d' % ino))
    except (OSError, IndexError):
        return -1


def wait_for(cond, secs):
    t = time.monotonic() + secs
    while time.monotonic() < t:
        if cond():
            return True
        time.sleep(0.02)
    return cond()


class Exec:
    """one executor, started the way echsd's run_task() starts it"""

    def __init__(self, d, tag, kind, uidtxt, limit, echsx, uid, gated):
        self.d, self.tag, self.kind, self.uid = d, tag, kind, uidtxt
        self.started = os.path.join(d, tag + '.started')
        self.go = os.path.join(d, tag + '.go')
        if kind == 'killed':
            self.cmd = 'echo > %s; exec sleep 8' % self.started
        elif gated:
            # finishes when the driver says so
            self.cmd = 'echo > %s; while test ! -e %s; do sleep 0.05; done; exit 3' % (self.started, self.go)
        else:
            self.cmd = 'echo > %s; exit 3' % self.started
        row = [r for r in rows() if r['name'] == 'R4'][0]    # no files, no mail: the journal is all there is
        extra = ('DURATION:PT%dS' % limit,) if kind == 'killed' else ()
        self.txt = vtodo(uidtxt, self.cmd, row, d, uid, {'noorg': 1, 'noatt': 1}, extra)
        self.rq = os.path.join(d, 'req%s.ics' % tag)
        with open(self.rq, 'w') as f:
            f.write(self.txt)
        self.argv = [echsx, '-v'] + (['-nd'] if kind == 'notrun' else [])
        self.p = None

    def start(self, jn):
        fd = os.open(jn, os.O_RDWR | os.O_CREAT, 0o600)
        os.lseek(fd, 0, os.SEEK_END)
        with open(self.rq, 'rb') as fi, open(os.path.join(self.d, 'echsx%s.err' % self.tag), 'wb') as fe:
            self.p = subprocess.Popen(self.argv, stdin=fi, stdout=fd, stderr=fe, cwd=os.path.join(self.d, 'run'),
                                      env={'PATH': '/usr/bin:/bin'}, start_new_session=True)
        os.close(fd)

    def finish(self, secs):
        """False if the process we started is still there after SECS"""
        try:
            self.p.wait(timeout=secs)
            return True
        except subprocess.TimeoutExpired:
            try:
                os.killpg(self.p.pid, signal.SIGKILL)
            except OSError:
                pass
            self.p.wait()
            return False


def run_case(D, d, fam, kinds, echsx, uid):
    jn = os.path.join(d, 'journal')
    with open(jn, 'w') as f:
        f.write(OLDER)
    shape = '%s/%s' % (fam, '+'.join(kinds))
    want = [('c12j-older', 'exit:0')]
    missed = 0
    if fam == 'overlap':
        ka, kb = kinds
        # the not-run report belongs to the very task that is running (echsd at MAX-SIMUL:1): same UID
        ua = 'c12j-task' if kb == 'notrun' else 'c12j-A'
        ub = 'c12j-task' if kb == 'notrun' else 'c12j-B'
        A = Exec(d, 'A', ka, ua, 2, echsx, uid, gated=True)
        B = Exec(d, 'B', kb, ub, 1, echsx, uid, gated=False)
        D.desc('one journal (holding one older entry), descriptors positioned at its end at start time like echsd does: '
               'A (%s) is started: %s; while its job runs B (%s) is started: %s; B reports, then A %s and reports'
               % (ka, ' '.join(A.argv[1:]) + ' < ' + A.txt.replace(d, '$D').replace('\n', '|'),
                  kb, ' '.join(B.argv[1:]) + ' < ' + B.txt.replace(d, '$D').replace('\n', '|'),
                  'is killed at its 2 s limit' if ka == 'killed' else 'is let go'))
        A.start(jn)
        if not wait_for(lambda: os.path.exists(A.started), 20):
            missed += 1
        B.start(jn)
        # B's entry is in before A ends (A waits for the word; a killed A has 2 s)
        if not wait_for(lambda: n_entries(jn) >= 2, 8 if ka != 'killed' else 1.5):
            missed += 1
        with open(A.go, 'w'):
            pass
        execs = [A, B]
        want += [(ua, WANT[ka]), (ub, WANT[kb])]
    else:
        execs = [Exec(d, chr(65 + i), k, 'c12j-%s' % chr(65 + i), 1, echsx, uid, gated=False) for i, k in enumerate(kinds)]
        D.desc('one journal (holding one older entry); another writer holds the fcntl lock on it while %s; once they wait for the '
               'lock the other writer appends its entry at the end and unlocks'
               % ' and '.join('%s (%s) is started: %s' % (x.tag, x.kind, ' '.join(x.argv[1:]) + ' < ' +
                                                           x.txt.replace(d, '$D').replace('\n', '|')) for x in execs))
        h = subprocess.Popen([sys.executable, '-c', HOLDER, jn, OTHER], stdin=subprocess.PIPE, stdout=subprocess.PIPE)
        if h.stdout.readline() != b'locked\n':
            D.viol('harness/holder', 'the stand-in writer could not lock the journal')
            h.kill()
            h.wait()
            return
        for x in execs:
            x.start(jn)
        # all of them in the queue for the lock (or, should one not care for the lock, through with its entry)
        if not wait_for(lambda: waiters(jn) >= len(execs), 10):
            missed += 1
        try:
            h.stdin.write(b'\n')
            h.stdin.flush()
            h.stdout.readline()
            h.stdin.close()
        except OSError:
            pass
        h.wait()
        want += [('c12j-other', 'signal:24')] + [(x.uid, WANT[x.kind]) for x in execs]
    for x in execs:
        if not x.finish(D.case_timeout):
            D.viol('hang/' + shape, 'echsx %s did not finish within %.0f s' % (x.tag, D.case_timeout))
            return
    # the daemonised ones (-nd) are not ours to wait for: give their entry a moment
    wait_for(lambda: n_entries(jn) >= len(want), 4)
    raw = rd(jn) or b''
    ents, junk = strict_journal(raw)
    got = [outcome(e) for e in ents]
    # one verdict per case, the gravest first: which of two waiting executors gets the lock first is not ours to
    # say, so `what else is wrong' may differ from run to run where `something is lost' does not
    lost = [w for w in sorted(set(want)) if got.count(w) < want.count(w)]
    extra = [g for g in sorted(set(got), key=repr) if got.count(g) > want.count(g)]
    bad = 1
    if not raw.startswith(OLDER.encode('latin-1')):
        D.viol('journal-older-touched/' + shape, 'the entry that was in the journal before is no longer at its head, journal: %r' % raw[:600])
    elif lost:
        D.viol('journal-lost/' + shape, 'no entry (UID, outcome) = %s; the journal holds %r%s' % (
            ' nor '.join(repr(w) for w in lost), got, ' and %d line(s) outside a complete entry' % len(junk) if junk else ''))
    elif extra:
        D.viol('journal-extra/' + shape, 'entries nobody is to account for: %r; the journal holds %r' % (extra, got))
    elif junk:
        D.viol('journal-mangled/' + shape, '%d line(s) outside a complete entry, first: %r' % (len(junk), junk[:4]))
    else:
        bad = 0
    D.nontrivial()
    D.count('executors', len(execs))
    D.count('entries_read', len(ents))
    D.count('placement_missed', missed)
    if not bad:
        D.sample('%s %s: journal holds %r' % (fam, '+'.join(kinds), got))


def main():
    D = Drv()
    echsx = D.opt('echsx', '/repo/src/echsx')
    which = D.opt('set', 'all')
    if which not in ('all', 'notrun', 'killed', 'exit'):
        sys.stderr.write('c12_journal: unknown set %s\n' % which)
        return 2
    if not os.path.exists(echsx):
        sys.stderr.write('c12_journal: %s missing\n' % echsx)
        return 2
    base = tempfile.mkdtemp(prefix='e3j_', dir='/tmp')
    uid = os.getuid()
    try:
        for fam, kinds in CASES:
            if which != 'all' and which not in kinds:
                continue
            if not D.next():
                continue
            d = os.path.join(base, '%d' % D.idx)
            os.makedirs(os.path.join(d, 'run'))
            run_case(D, d, fam, kinds, echsx, uid)
            if not D.opt('keep'):
                shutil.rmtree(d, ignore_errors=True)
            if D.stop():
                break
    finally:
        if not D.opt('keep'):
            shutil.rmtree(base, ignore_errors=True)
    D.summary()
    return 0


if __name__ == '__main__':
    sys.exit(main())
