/* c14_hx.h -- interface between the C14 chain driver and the three TUs that
 * hold the unmodified echsq.c, echsd.c and echsx.c */
#if !defined INCLUDED_c14_hx_h_
#define INCLUDED_c14_hx_h_
#include <stddef.h>
#include <time.h>

/* echsq: what `echsq add FILE' does between opening FILE and the socket:
 * echs_icalify_init(), add_fd() (parse, massage(), echs_task_icalify()), echs_icalify_fini() */
extern int hxq_add(int tgt_fd, int src_fd);

/* echsd: make_echsd(); returns 0 if ok */
extern int hxd_setup(void);
/* feed_cmd() + cmd_ical() + shut_cmd() on BUF the way sock_data_cb() does; returns number of tasks now held */
extern int hxd_submit(const char *buf, size_t len);
/* duration (ms) the daemon holds for the next run of the (only) task, start instant as epoch seconds */
extern long long hxd_dur_ms(void);
/* what libev does when the task's periodic expires: reschedule_cb (at the
 * scheduled time + 0.25 s) and then task_cb; the posix_spawn of echsx is
 * intercepted, the VTODO echsd writes into echsx's stdin is returned in OUT;
 * returns length, -1 if nothing was spawned; ARGS receives the argv */
extern long hxd_fire(char *out, size_t outsz, char *args, size_t argsz);

/* the same over a connection that delivers BUF in pieces of CHUNK bytes: per piece what sock_data_cb() does after its
 * recv() (feed_cmd() + cmd_ical()), then the empty read of the closed connection and shut_cmd(); returns number of tasks held */
extern int hxd_submit_chunked(const char *buf, size_t len, size_t chunk);
/* make the task with this UID the one hxd_dur_ms()/hxd_fire() talk about; 0 if the daemon holds it, -1 if not */
extern int hxd_select(const char *uid);
/* chkpnt1() of the invoking user's queue into directory DIR (the daemon's queue directory from now on); the text of
 * the queue file goes to OUT; returns its length, -1 on failure */
extern long hxd_chkpnt(const char *dir, char *out, size_t outsz);
/* write TEXT as the invoking user's queue file into DIR and load it with _inject_file() the way a starting daemon does;
 * returns number of tasks held, -1 on failure */
extern int hxd_reload(const char *dir, const char *text, size_t len);

struct hx_xres {
	int n_alarm;		/* calls of alarm() with a non-zero argument */
	unsigned int alarm_arg;	/* the last of them */
	int n_spawn;		/* jobs started */
	int n_time;		/* calls of time() */
};
/* echsx: main() of echsx.c with REQ on stdin, `-v' journal into JFD, log into
 * LFD; alarm() is recorded, not armed; time() answers NOW if non-zero; the
 * job is really run (posix_spawn goes through) */
extern int hxx_run(const char *req, size_t len, time_t now, struct hx_xres *res, int jfd, int lfd);
#endif
