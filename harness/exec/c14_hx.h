/* c14_hx.h -- interface between the C14 chain driver and the three TUs that
 * hold the unmodified echsq.c, echsd.c and echsx.c */
#if !defined INCLUDED_c14_hx_h_
#define INCLUDED_c14_hx_h_
#include <stddef.h>
#include <time.h>

/* echsq: what `echsq add FILE' does between opening FILE and the socket:
 * echs_icalify_init(), add_fd() (parse, massage(), echs_task_icalify()), echs_icalify_fini() */
extern int hxq_add(int tgt_fd, int src_fd);

/* echsd: make_echsd(); returns 0 if ok */
extern int hxd_setup(void);
/* feed_cmd() + cmd_ical() + shut_cmd() on BUF the way sock_data_cb() does; returns number of tasks now held */
extern int hxd_submit(const char *buf, size_t len);
/* duration (ms) the daemon holds for the next run of the (only) task, start instant as epoch seconds */
extern long long hxd_dur_ms(void);
/* what libev does when the task's periodic expires: reschedule_cb (at the
 * scheduled time + 0.25 s) and then task_cb; the posix_spawn of echsx is
 * intercepted, the VTODO echsd writes into echsx's stdin is returned in OUT;
 * returns length, -1 if nothing was spawned; ARGS receives the argv */
extern long hxd_fire(char *out, size_t outsz, char *args, size_t argsz);

struct hx_xres {
	int n_alarm;		/* calls of alarm() with a non-zero argument */
	unsigned int alarm_arg;	/* the last of them */
	int n_spawn;		/* jobs started */
	int n_time;		/* calls of time() */
};
/* echsx: main() of echsx.c with REQ on stdin, `-v' journal into JFD, log into
 * LFD; alarm() is recorded, not armed; time() answers NOW if non-zero; the
 * job is really run (posix_spawn goes through) */
extern int hxx_run(const char *req, size_t len, time_t now, struct hx_xres *res, int jfd, int lfd);
#endif
