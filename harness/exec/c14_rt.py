#!/usr/bin/env python3
"""C14, real-time part (thorough tier): a handful of real runs of the echsx binary.

The execution request is the one the real chain produces for the user's event (c14_chain
--opt mode=dump: echsq add_fd -> echsd parse/resched/vtodoify), the job is a real `sleep`.
Judged from echsx's own journal (X-REAL-TIME, X-SIGNAL): a job outliving its limit dies no
earlier than the limit and no later than limit + SLACK; a job that finishes earlier is unaffected.
SLACK is deliberately generous (the machine is shared, load 40+): the property allows `about a
second' of jitter, the check only raises an alarm beyond 4 s -- the unlimited job would sleep 8 s.

options: echsx=PATH (default /repo/src/echsx)  bdir=DIR (echsx_shim.so, c14_chain; default <V>/build/plain/exec)
"""
import os, sys, subprocess, tempfile, shutil, re, concurrent.futures as cf
sys.path.insert(0, os.path.dirname(os.path.abspath(__file__)))
import e3lib
from e3lib import Drv, rd, parse_journal

SLACK = 4.0
# a case is one echsx request stream: a list of (limit, kind, command, must be killed)
CASES = [
    [(1, 'DURATION', 'sleep 8', True)],
    [(2, 'DURATION', 'sleep 8', True)],
    [(1, 'DTEND', 'sleep 8', True)],
    [(2, 'DTEND', 'sleep 8', True)],
    [(2, 'DURATION', 'sleep 0', False)],
    [(2, 'DTEND', 'sleep 0', False)],
    # several requests in one stream: what one request leaves behind (handler, pending alarm) meets the next
    [(1, 'DURATION', 'sleep 8', True), (1, 'DURATION', 'sleep 8', True)],
    [(1, 'DTEND', 'sleep 8', True), (2, 'DURATION', 'sleep 0', False), (1, 'DURATION', 'sleep 8', True)],
    [(2, 'DURATION', 'sleep 0', False), (1, 'DTEND', 'sleep 8', True), (1, 'DTEND', 'sleep 8', True)],
]
QUICK = (0, 4, 6, 7)


def run(base, idx, case, echsx, shim, chain):
    d = os.path.join(base, '%d' % idx)
    os.makedirs(d)
    head, blocks, tail = None, [], None
    for n, (L, kind, cmd, _) in enumerate(case):
        p = subprocess.run([chain, '--opt', 'mode=dump', '--opt', 'limit=%d' % L, '--opt', 'kind=' + kind, '--opt', 'cmd=' + cmd],
                           stdout=subprocess.PIPE, stderr=subprocess.PIPE, cwd=d)
        if p.returncode:
            return {'err': 'c14_chain dump failed: %s' % p.stderr.decode('latin-1')[-300:]}
        txt = p.stdout.decode('latin-1')
        i, j = txt.find('BEGIN:VTODO'), txt.find('END:VTODO')
        if i < 0 or j < 0:
            return {'err': 'c14_chain dump holds no VTODO'}
        j += len('END:VTODO\n')
        head, tail = head or txt[:i], txt[j:]
        blocks.append(txt[i:j].replace('UID:c14-limit', 'UID:c14-limit-%d' % n))
    req = (head + ''.join(blocks) + tail).encode('latin-1')
    env = {'LD_PRELOAD': shim, 'E3_LOG': os.path.join(d, 'shim.log'), 'PATH': '/usr/bin:/bin'}
    with open(os.path.join(d, 'journal'), 'wb') as fo, open(os.path.join(d, 'echsx.err'), 'wb') as fe:
        try:
            q = subprocess.run([echsx, '-v'], input=req, stdout=fo, stderr=fe, cwd=d, env=env, timeout=90)
        except subprocess.TimeoutExpired:
            return {'err': 'echsx did not finish within 90 s', 'req': req}
    j = parse_journal(rd(os.path.join(d, 'journal')))
    return {'req': req, 'rc': q.returncode, 'journal': j, 'shim': (rd(os.path.join(d, 'shim.log')) or b'').decode('latin-1')}


def main():
    D = Drv()
    echsx = D.opt('echsx', '/repo/src/echsx')
    bdir = D.opt('bdir', os.path.join(e3lib.V, 'build', 'plain', 'exec'))
    quick = D.opt('set', 'all') == 'quick'
    shim, chain = os.path.join(bdir, 'echsx_shim.so'), os.path.join(bdir, 'c14_chain')
    for f in (echsx, shim, chain):
        if not os.path.exists(f):
            sys.stderr.write('c14_rt: %s missing\n' % f)
            return 2
    base = tempfile.mkdtemp(prefix='e3t_', dir='/tmp')
    todo = []
    for i, c in enumerate(CASES):
        if D.next() and (not quick or i in QUICK or D.only >= 0):
            todo.append((D.idx, c))
    try:
        with cf.ThreadPoolExecutor(max_workers=len(CASES)) as ex:
            futs = [(idx, c, ex.submit(run, base, idx, c, echsx, shim, chain)) for idx, c in todo]
            for idx, c, f in futs:
                D.idx = idx
                judge(D, c, f.result())
    finally:
        shutil.rmtree(base, ignore_errors=True)
    D.summary()
    return 0


def judge(D, case, r):
    lim = [l for l in (r.get('req') or b'').decode('latin-1').split('\n') if l.startswith(('DURATION', 'DUE'))]
    D.desc('real run of one echsx request stream: %s; echsd hands echsx %s' % (
        ', then '.join("`%s' under a %d s limit given as %s" % (cmd, L, kind) for L, kind, cmd, _ in case), lim or 'no limit line'))
    pos = 'single' if len(case) == 1 else 'stream'
    if r.get('err'):
        D.viol('rt/harness', r['err'])
        return
    js = r['journal']
    alarms = re.findall(r'^alarm (\d+)$', r['shim'], re.M)
    if len(js) != len(case):
        D.viol('rt/journal/%s' % pos, '%d journal entries for %d requests, echsx exit status %s' % (len(js), len(case), r.get('rc')))
        return
    for n, ((L, kind, cmd, must), j) in enumerate(zip(case, js)):
        m = re.match(r'^(\d+\.\d+)s$', j.get('X-REAL-TIME', ''))
        real = float(m.group(1)) if m else None
        sig = j.get('X-SIGNAL')
        where = pos if n == 0 else 'later-request'
        # no measured numbers in `what': the detail of a violation must be the same on every replay
        what = 'request %d: X-EXIT-STATUS:%s X-SIGNAL:%s, alarm() calls %s' % (n + 1, j.get('X-EXIT-STATUS'), sig, alarms)
        if real is None:
            D.viol('rt/journal/%s' % where, 'no X-REAL-TIME in journal: %r' % j)
        elif must:
            if sig is None:
                D.viol('rt/not-killed/%s/%s' % (kind, where), 'job outlived its %d s limit and ran to its own end (%s s): %s' % (
                    L, 'about 8' if real >= 7.5 else 'less than 7.5', what))
            elif real < L - 0.1:
                D.viol('rt/early/%s/%s' % (kind, where), 'job killed before its %d s limit: %s' % (L, what))
            elif real > L + SLACK:
                D.viol('rt/late/%s/%s' % (kind, where), 'job killed more than %.0f s after its %d s limit: %s' % (SLACK, L, what))
        else:
            if sig is not None or j.get('X-EXIT-STATUS') != '0':
                D.viol('rt/harmed/%s/%s' % (kind, where), 'job finishing before its %d s limit did not end normally: %s' % (L, what))
        D.sample('`%s\' under %d s as %s (request %d of %d): ran %s s' % (cmd, L, kind, n + 1, len(case), real))
    D.nontrivial()
    D.count('rt_runs')


if __name__ == '__main__':
    sys.exit(main())
