#!/usr/bin/env python3
"""C14, real-time part (thorough tier): a handful of real runs of the echsx binary.

The execution request is the one the real chain produces for the user's event (c14_chain
--opt mode=dump: echsq add_fd -> echsd parse/resched/vtodoify), the job is a real `sleep`.
Judged from echsx's own journal (X-REAL-TIME, X-SIGNAL): a job outliving its limit dies no
earlier than the limit and no later than limit + SLACK; a job that finishes earlier is unaffected.
SLACK is deliberately generous (the machine is shared, load 40+): the property allows `about a
second' of jitter, the check only raises an alarm beyond 4 s -- the unlimited job would sleep 8 s.

options: echsx=PATH (default /repo/src/echsx)  bdir=DIR (echsx_shim.so, c14_chain; default <V>/build/plain/exec)
"""
import os, sys, subprocess, tempfile, shutil, re, concurrent.futures as cf
sys.path.insert(0, os.path.dirname(os.path.abspath(__file__)))
import e3lib
from e3lib import Drv, rd, parse_journal

SLACK = 4.0
CASES = [  # (limit, kind, command, must be killed)
    (1, 'DURATION', 'sleep 8', True),
    (2, 'DURATION', 'sleep 8', True),
    (1, 'DTEND', 'sleep 8', True),
    (2, 'DTEND', 'sleep 8', True),
    (2, 'DURATION', 'sleep 0', False),
    (2, 'DTEND', 'sleep 0', False),
]


def run(base, idx, case, echsx, shim, chain):
    L, kind, cmd, _ = case
    d = os.path.join(base, '%d' % idx)
    os.makedirs(d)
    p = subprocess.run([chain, '--opt', 'mode=dump', '--opt', 'limit=%d' % L, '--opt', 'kind=' + kind, '--opt', 'cmd=' + cmd],
                       stdout=subprocess.PIPE, stderr=subprocess.PIPE, cwd=d)
    if p.returncode:
        return {'err': 'c14_chain dump failed: %s' % p.stderr.decode('latin-1')[-300:]}
    req = p.stdout
    env = {'LD_PRELOAD': shim, 'E3_LOG': os.path.join(d, 'shim.log'), 'PATH': '/usr/bin:/bin'}
    with open(os.path.join(d, 'journal'), 'wb') as fo, open(os.path.join(d, 'echsx.err'), 'wb') as fe:
        try:
            q = subprocess.run([echsx, '-v'], input=req, stdout=fo, stderr=fe, cwd=d, env=env, timeout=60)
        except subprocess.TimeoutExpired:
            return {'err': 'echsx did not finish within 60 s', 'req': req}
    j = parse_journal(rd(os.path.join(d, 'journal')))
    return {'req': req, 'rc': q.returncode, 'journal': j, 'shim': (rd(os.path.join(d, 'shim.log')) or b'').decode('latin-1')}


def main():
    D = Drv()
    echsx = D.opt('echsx', '/repo/src/echsx')
    bdir = D.opt('bdir', os.path.join(e3lib.V, 'build', 'plain', 'exec'))
    shim, chain = os.path.join(bdir, 'echsx_shim.so'), os.path.join(bdir, 'c14_chain')
    for f in (echsx, shim, chain):
        if not os.path.exists(f):
            sys.stderr.write('c14_rt: %s missing\n' % f)
            return 2
    base = tempfile.mkdtemp(prefix='e3t_', dir='/tmp')
    todo = []
    for i, c in enumerate(CASES):
        if D.next():
            todo.append((D.idx, c))
    try:
        with cf.ThreadPoolExecutor(max_workers=len(CASES)) as ex:
            futs = [(idx, c, ex.submit(run, base, idx, c, echsx, shim, chain)) for idx, c in todo]
            for idx, c, f in futs:
                D.idx = idx
                judge(D, c, f.result())
    finally:
        shutil.rmtree(base, ignore_errors=True)
    D.summary()
    return 0


def judge(D, case, r):
    L, kind, cmd, must = case
    lim = [l for l in (r.get('req') or b'').decode('latin-1').split('\n') if l.startswith(('DURATION', 'DUE'))]
    D.desc('real run: `%s\' under a %d s limit given as %s; echsd hands echsx %s' % (cmd, L, kind, lim or 'no limit line'))
    if r.get('err'):
        D.viol('rt/harness', r['err'])
        return
    j = r['journal']
    alarms = re.findall(r'^alarm (\d+)$', r['shim'], re.M)
    if len(j) != 1:
        D.viol('rt/journal', '%d journal entries' % len(j))
        return
    j = j[0]
    m = re.match(r'^(\d+\.\d+)s$', j.get('X-REAL-TIME', ''))
    real = float(m.group(1)) if m else None
    sig = j.get('X-SIGNAL')
    # no measured numbers in `what': the detail of a violation must be the same on every replay
    what = 'X-EXIT-STATUS:%s X-SIGNAL:%s, alarm() calls %s' % (j.get('X-EXIT-STATUS'), sig, alarms)
    if real is None:
        D.viol('rt/journal', 'no X-REAL-TIME in journal: %r' % j)
    elif must:
        if sig is None:
            D.viol('rt/not-killed/%s' % kind, 'job outlived its %d s limit and ran to its own end (%s s): %s' % (
                L, 'about 8' if real >= 7.5 else 'less than 7.5', what))
        elif real < L - 0.1:
            D.viol('rt/early/%s' % kind, 'job killed before its %d s limit: %s' % (L, what))
        elif real > L + SLACK:
            D.viol('rt/late/%s' % kind, 'job killed more than %.0f s after its %d s limit: %s' % (SLACK, L, what))
    else:
        if sig is not None or j.get('X-EXIT-STATUS') != '0':
            D.viol('rt/harmed/%s' % kind, 'job finishing before its %d s limit did not end normally: %s' % (L, what))
    D.nontrivial()
    D.count('rt_runs')
    D.sample('`%s\' under %d s as %s: ran %s s, %s' % (cmd, L, kind, real, what))


if __name__ == '__main__':
    sys.exit(main())
