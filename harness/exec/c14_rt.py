#!/usr/bin/env python3
"""C14, real-time part (thorough tier): a handful of real runs of the echsx binary.

The execution request is the one the real chain produces for the user's event (c14_chain
--opt mode=dump: echsq add_fd -> echsd parse/resched/vtodoify), the job is a real `sleep`.
Judged from echsx's own journal (X-REAL-TIME, X-SIGNAL): a job outliving its limit dies no
earlier than the limit (read off the seconds echsx armed, which the shim logs; off the run time only when that is
not on record) and no later than limit + SLACK; a job that finishes earlier is unaffected.
SLACK is deliberately generous (the machine is shared, load 40+): the property allows `about a
second' of jitter, the check only raises an alarm beyond 4 s -- the unlimited job would sleep 8 s.

Request streams added later (cases 9..): what a REFUSED request (DUE long past, unknown user) leaves behind in the
process meets a limited job run by a shell that keeps the signal mask it inherits (bash); several DUE requests in one
stream, each to be measured against the clock at the moment its turn comes (DUE times are laid relative to the second
T0 in which echsx is started); echsx started with SIGALRM and SIGXCPU blocked by its parent.

options: echsx=PATH (default /repo/src/echsx)  bdir=DIR (echsx_shim.so, c14_chain; default <V>/build/plain/exec)
"""
import os, sys, subprocess, tempfile, shutil, re, time, concurrent.futures as cf
sys.path.insert(0, os.path.dirname(os.path.abspath(__file__)))
import e3lib
from e3lib import Drv, rd, parse_journal

SLACK = 4.0
# a case is one echsx request stream: a list of (limit, kind, command, must be killed)
CASES = [
    [(1, 'DURATION', 'sleep 8', True)],
    [(2, 'DURATION', 'sleep 8', True)],
    [(1, 'DTEND', 'sleep 8', True)],
    [(2, 'DTEND', 'sleep 8', True)],
    [(2, 'DURATION', 'sleep 0', False)],
    [(2, 'DTEND', 'sleep 0', False)],
    # several requests in one stream: what one request leaves behind (handler, pending alarm) meets the next
    [(1, 'DURATION', 'sleep 8', True), (1, 'DURATION', 'sleep 8', True)],
    [(1, 'DTEND', 'sleep 8', True), (2, 'DURATION', 'sleep 0', False), (1, 'DURATION', 'sleep 8', True)],
    [(2, 'DURATION', 'sleep 0', False), (1, 'DTEND', 'sleep 8', True), (1, 'DTEND', 'sleep 8', True)],
]
# a shell that leaves the signal mask it inherits alone (dash resets it when it forks); failing that a program
# that is exec'd directly as `SHELL -c COMMAND'
if os.path.exists('/bin/bash'):
    JSH, JSLEEP = '/bin/bash', 'sleep %d'
else:
    JSH, JSLEEP = '/usr/bin/python3', '__import__("time").sleep(%d)'
NOUSER = 'c14nosuchuser'


def K(L, kind='DURATION', secs=8):
    """a job that outlives its limit, under JSH"""
    return {'L': L, 'kind': kind, 'cmd': JSLEEP % secs, 'must': True, 'shell': JSH}


def DUE(off, secs, shell=None):
    """DUE = T0 + off (T0: the second in which echsx is started); what is to happen to the job follows from the
    journal: refused iff overdue when its turn comes, else killed at DUE unless it ends earlier"""
    return {'L': off, 'kind': 'DUE', 'cmd': (JSLEEP if shell else 'sleep %d') % secs, 'must': None, 'shell': shell}


NEWCASES = [
    # a refused request, then a job that outlives its limit
    {'reqs': [DUE(-3600, 1, JSH), K(1)]},
    {'reqs': [{'L': 0, 'kind': 'BADUSER', 'cmd': JSLEEP % 1, 'must': None, 'shell': JSH}, K(1)]},
    {'reqs': [DUE(-3600, 1, JSH), DUE(2, 8, JSH)]},
    # A ends long before its DUE; B's turn comes 2 s before its DUE, it wants 8 s; C's DUE has passed when its turn comes
    {'reqs': [DUE(30, 3), DUE(5, 8), DUE(1, 1)]},
    # A ends early; B is overdue when its turn comes; then a job that outlives its 1 s
    {'reqs': [DUE(30, 2, JSH), DUE(1, 1, JSH), K(1)]},
    # echsx inherits a mask with SIGALRM and SIGXCPU blocked
    {'reqs': [K(1)], 'blocked': ('SIGALRM', 'SIGXCPU')},
]
CASES += NEWCASES
QUICK = (0, 4, 6, 7, 9, 10, 11, 12, 13, 14)

# exec echsx with some signals blocked (the mask survives the exec)
MASKED = ('import os, signal, sys\n'
          'signal.pthread_sigmask(signal.SIG_BLOCK, [getattr(signal, s) for s in sys.argv[1].split(",")])\n'
          'os.execv(sys.argv[2], sys.argv[2:])\n')


def norm(case):
    """(requests as dicts, names of the signals echsx finds blocked, old-style case)"""
    if isinstance(case, dict):
        return case['reqs'], case.get('blocked', ()), False
    return [{'L': L, 'kind': kind, 'cmd': cmd, 'must': must, 'shell': None} for L, kind, cmd, must in case], (), True


def ical_utc(t):
    return time.strftime('%Y%m%dT%H%M%SZ', time.gmtime(t))


def run(base, idx, case, echsx, shim, chain):
    d = os.path.join(base, '%d' % idx)
    os.makedirs(d)
    reqs, blocked, _ = norm(case)
    head, blocks, tail = None, [], None
    for n, q in enumerate(reqs):
        L, kind, cmd = q['L'], q['kind'], q['cmd']
        ckind = kind if kind in ('DURATION', 'DTEND') else 'NONE'
        p = subprocess.run([chain, '--opt', 'mode=dump', '--opt', 'limit=%d' % L, '--opt', 'kind=' + ckind, '--opt', 'cmd=' + cmd],
                           stdout=subprocess.PIPE, stderr=subprocess.PIPE, cwd=d)
        if p.returncode:
            return {'err': 'c14_chain dump failed: %s' % p.stderr.decode('latin-1')[-300:]}
        txt = p.stdout.decode('latin-1')
        i, j = txt.find('BEGIN:VTODO'), txt.find('END:VTODO')
        if i < 0 or j < 0:
            return {'err': 'c14_chain dump holds no VTODO'}
        j += len('END:VTODO\n')
        head, tail = head or txt[:i], txt[j:]
        blk = txt[i:j].replace('UID:c14-limit', 'UID:c14-limit-%d' % n)
        # the requests echsd does not write itself: the driver's edits of the request echsd wrote for the same job
        if q['shell']:
            blk, k = re.subn(r'(?m)^X-ECHS-SHELL:.*$', 'X-ECHS-SHELL:' + q['shell'], blk)
            if k != 1:
                return {'err': 'no X-ECHS-SHELL line in the request'}
        if kind == 'DUE':
            blk, k = re.subn(r'(?m)^(LOCATION:.*\n)', r'\1DUE:@T0%+d@\n' % L, blk)
            if k != 1:
                return {'err': 'no LOCATION line in the request'}
        elif kind == 'BADUSER':
            blk, k = re.subn(r'(?m)^X-ECHS-SETUID:.*$', 'X-ECHS-SETUID:' + NOUSER, blk)
            if k != 1:
                return {'err': 'no X-ECHS-SETUID line in the request'}
        blocks.append(blk)
    tmpl = head + ''.join(blocks) + tail
    T0 = 0
    if '@T0' in tmpl:
        # start echsx shortly after the beginning of a second (not on it: time(2) may lag a tick behind)
        t = time.time()
        T0 = int(t) + 1
        time.sleep(T0 + 0.02 - t)
    req = re.sub(r'@T0([+-]\d+)@', lambda m: ical_utc(T0 + int(m.group(1))), tmpl).encode('latin-1')
    env = {'LD_PRELOAD': shim, 'E3_LOG': os.path.join(d, 'shim.log'), 'PATH': '/usr/bin:/bin'}
    argv = [echsx, '-v']
    if blocked:
        argv = [sys.executable, '-c', MASKED, ','.join(blocked)] + argv
    launch = int(time.time())
    with open(os.path.join(d, 'journal'), 'wb') as fo, open(os.path.join(d, 'echsx.err'), 'wb') as fe:
        try:
            q = subprocess.run(argv, input=req, stdout=fo, stderr=fe, cwd=d, env=env, timeout=90)
        except subprocess.TimeoutExpired:
            return {'err': 'echsx did not finish within 90 s', 'req': req, 'tmpl': tmpl}
    raw = rd(os.path.join(d, 'journal')) or b''
    j = parse_journal(raw)
    # every entry is BEGIN:VTODO, then its DTSTAMP line: which entry of the stream is the first that is not
    malformed = None
    for n, blk in enumerate(raw.decode('latin-1').split('BEGIN:VTODO\n')[1:]):
        if not blk.startswith('DTSTAMP:'):
            malformed = (n, blk.split('\n', 1)[0])
            break
    return {'req': req, 'tmpl': tmpl, 'T0': T0, 'launch': launch, 'rc': q.returncode, 'journal': j, 'malformed': malformed,
            'shim': (rd(os.path.join(d, 'shim.log')) or b'').decode('latin-1')}


def main():
    D = Drv()
    echsx = D.opt('echsx', '/repo/src/echsx')
    bdir = D.opt('bdir', os.path.join(e3lib.V, 'build', 'plain', 'exec'))
    quick = D.opt('set', 'all') == 'quick'
    shim, chain = os.path.join(bdir, 'echsx_shim.so'), os.path.join(bdir, 'c14_chain')
    for f in (echsx, shim, chain):
        if not os.path.exists(f):
            sys.stderr.write('c14_rt: %s missing\n' % f)
            return 2
    base = tempfile.mkdtemp(prefix='e3t_', dir='/tmp')
    todo = []
    for i, c in enumerate(CASES):
        if D.next() and (not quick or i in QUICK or D.only >= 0):
            todo.append((D.idx, c))
    try:
        with cf.ThreadPoolExecutor(max_workers=len(CASES)) as ex:
            futs = [(idx, c, ex.submit(run, base, idx, c, echsx, shim, chain)) for idx, c in todo]
            for idx, c, f in futs:
                D.idx = idx
                judge(D, c, f.result())
    finally:
        shutil.rmtree(base, ignore_errors=True)
    D.summary()
    return 0


def judge(D, case, r):
    reqs, blocked, old = norm(case)
    if r.get('malformed'):
        n, ln = r['malformed']
        D.desc('request stream: ' + r['tmpl'].replace('\n', '|')[:600])
        D.viol('rt/journal-form/%s-entry' % ('first' if n == 0 else 'later'),
               'journal entry %d of the session does not begin with its DTSTAMP line but with %r' % (n + 1, ln[:40]))
    if not old:
        return judge_stream(D, reqs, blocked, r)
    lim = [l for l in (r.get('req') or b'').decode('latin-1').split('\n') if l.startswith(('DURATION', 'DUE'))]
    D.desc('real run of one echsx request stream: %s; echsd hands echsx %s' % (
        ', then '.join("`%s' under a %d s limit given as %s" % (cmd, L, kind) for L, kind, cmd, _ in case), lim or 'no limit line'))
    pos = 'single' if len(case) == 1 else 'stream'
    if r.get('err'):
        D.viol('rt/harness', r['err'])
        return
    js = r['journal']
    alarms = re.findall(r'^alarm (\d+)$', r['shim'], re.M)
    # X-REAL-TIME is counted from the moment the job is spawned, the timer from the moment it is armed: on a busy
    # machine the spawn alone has been seen to take more than a second, so `killed early' is read off what echsx armed
    # (one non-zero alarm() per request, in order) whenever that is on record, and off the run time only otherwise
    armed = [int(a) for a in alarms if int(a)]
    if len(armed) != len(case):
        armed = None
    if len(js) != len(case):
        D.viol('rt/journal/%s' % pos, '%d journal entries for %d requests, echsx exit status %s' % (len(js), len(case), r.get('rc')))
        return
    for n, ((L, kind, cmd, must), j) in enumerate(zip(case, js)):
        m = re.match(r'^(\d+\.\d+)s$', j.get('X-REAL-TIME', ''))
        real = float(m.group(1)) if m else None
        sig = j.get('X-SIGNAL')
        where = pos if n == 0 else 'later-request'
        # no measured numbers in `what': the detail of a violation must be the same on every replay
        what = 'request %d: X-EXIT-STATUS:%s X-SIGNAL:%s, alarm() calls %s' % (n + 1, j.get('X-EXIT-STATUS'), sig, alarms)
        if real is None:
            D.viol('rt/journal/%s' % where, 'no X-REAL-TIME in journal: %r' % j)
        elif must:
            if sig is None:
                D.viol('rt/not-killed/%s/%s' % (kind, where), 'job outlived its %d s limit and ran to its own end (%s s): %s' % (
                    L, 'about 8' if real >= 7.5 else 'less than 7.5', what))
            elif (armed[n] < L) if armed else (real < L - 0.1):
                D.viol('rt/early/%s/%s' % (kind, where), 'job killed before its %d s limit: %s' % (L, what))
            elif real > L + SLACK:
                D.viol('rt/late/%s/%s' % (kind, where), 'job killed more than %.0f s after its %d s limit: %s' % (SLACK, L, what))
        elif sig == '24' and real >= L - 1.5:
            # the machine is so busy that the job did not get done before its limit: not the run we meant to see
            D.count('premise_missed')
        else:
            if sig is not None or j.get('X-EXIT-STATUS') != '0':
                D.viol('rt/harmed/%s/%s' % (kind, where), 'job finishing before its %d s limit did not end normally: %s' % (L, what))
        D.sample('`%s\' under %d s as %s (request %d of %d): ran %s s' % (cmd, L, kind, n + 1, len(case), real))
    D.nontrivial()
    D.count('rt_runs')


def judge_stream(D, reqs, blocked, r):
    """the streams of NEWCASES.  Every request is judged against what the journal itself says about the moment its
    turn came: that moment lies between the end of the request before it (COMPLETED of that entry; for the first
    request the second in which echsx was started) and its own DTSTART (run) / COMPLETED (refused), whole seconds."""
    def say(q):
        if q['kind'] == 'DUE':
            lim = 'DUE:T0%+ds' % q['L']
        elif q['kind'] == 'BADUSER':
            lim = 'X-ECHS-SETUID:%s (no such user), no limit' % NOUSER
        else:
            lim = 'a %d s limit given as %s' % (q['L'], q['kind'])
        return "`%s' (X-ECHS-SHELL:%s) under %s" % (q['cmd'], q['shell'] or '/bin/sh', lim)
    D.desc('real run of one echsx request stream%s (T0 = the second in which echsx is started): %s; limit lines handed to echsx: %s' % (
        ', echsx started with %s blocked' % '+'.join(blocked) if blocked else '', ', then '.join(say(q) for q in reqs),
        [l for l in (r.get('tmpl') or '').split('\n') if l.startswith(('DURATION', 'DUE'))]))
    if r.get('err'):
        D.viol('rt/harness', r['err'])
        return
    js = r['journal']
    shape = 'sigmask' if blocked else 'stream'
    if len(js) != len(reqs) or [j.get('UID') for j in js] != ['c14-limit-%d' % n for n in range(len(reqs))]:
        D.viol('rt/journal/%s' % shape, 'journal entries %r for %d requests (want one each, in order), echsx exit status %s' % (
            [j.get('UID') for j in js], len(reqs), r.get('rc')))
        return
    # what echsx armed, per started job: a non-zero alarm() before the spawn of the job
    armed, cur = [], None
    for ln in r['shim'].split('\n'):
        m = re.match(r'^alarm (\d+)$', ln)
        if m and int(m.group(1)):
            cur = int(m.group(1))
        elif ln.startswith('spawn rc='):
            armed.append(cur)
            cur = None
    nrun = sum(1 for j in js if j.get('STATUS') != 'CANCELLED')
    if len(armed) != nrun:
        armed = None
    prev_end, prev = r['launch'], None
    k = 0
    premise = True
    for n, (q, j) in enumerate(zip(reqs, js)):
        L, kind = q['L'], q['kind']
        refused = j.get('STATUS') == 'CANCELLED'
        where = ('sigmask' if blocked else 'first') if n == 0 else 'after-' + prev
        end = e3lib.parse_ical_time(j.get('COMPLETED', ''))
        sta = e3lib.parse_ical_time(j.get('DTSTART', ''))
        m = re.match(r'^(\d+\.\d+)s$', j.get('X-REAL-TIME', ''))
        real = float(m.group(1)) if m else None
        sig = j.get('X-SIGNAL')
        a = None
        if not refused:
            a = armed[k] if armed is not None else None
            k += 1
        # no measured numbers in `what': the detail of a violation must be the same on every replay
        what = 'request %d of %d (%s): %s' % (n + 1, len(reqs), say(q), 'STATUS:CANCELLED, %s' % j.get('DESCRIPTION') if refused else
                                            'X-EXIT-STATUS:%s X-SIGNAL:%s' % (j.get('X-EXIT-STATUS'), sig))
        if end is None or (not refused and (sta is None or real is None)):
            D.viol('rt/journal/%s' % where, 'times missing in the journal entry: %s' % what)
        elif kind == 'BADUSER':
            if not refused:
                # not this property's business; the stream is not the one we meant to play
                premise = False
        elif kind == 'DUE':
            due = r['T0'] + L
            if refused:
                if end < due:
                    D.viol('rt/refused-early/DUE/%s' % where, 'refused although its DUE had not come when the refusal was journalled: %s' % what)
            elif prev_end > due:
                # (how the job that should not have been started ended is left out: it may race with the timer)
                D.viol('rt/overdue-run/DUE/%s' % where, 'started although its DUE had passed when the request before it ended: request %d of %d (%s)' % (
                    n + 1, len(reqs), say(q)))
            else:
                # its turn came in [prev_end, sta]: echsx is to arm DUE - now
                if a is None and armed is not None:
                    D.viol('rt/no-timer/DUE/%s' % where, 'started without a timer: %s' % what)
                elif a is not None and a > due - prev_end + 1:
                    D.viol('rt/armed-long/DUE/%s' % where, 'timer armed for more than a second beyond DUE - (end of the request before): %s' % what)
                elif a is not None and a < due - sta - 1:
                    D.viol('rt/armed-short/DUE/%s' % where, 'timer armed for more than a second less than DUE - (start of the job): %s' % what)
                if sig is None:
                    # ended by itself: fine if that was before DUE
                    if end > due + 1:
                        D.viol('rt/not-killed/DUE/%s' % where, 'job outlived its DUE and ran to its own end: %s' % what)
                    elif j.get('X-EXIT-STATUS') != '0':
                        D.viol('rt/harmed/DUE/%s' % where, 'job ending before its DUE did not end normally: %s' % what)
                elif end < due - 1:
                    D.viol('rt/early/DUE/%s' % where, 'job killed more than a second before its DUE: %s' % what)
                elif end > due + SLACK:
                    D.viol('rt/late/DUE/%s' % where, 'job killed more than %.0f s after its DUE: %s' % (SLACK, what))
        elif refused:
            D.viol('rt/refused/%s/%s' % (kind, where), 'request with a limit of %d s refused: %s' % (L, what))
        elif q['must']:
            if sig is None:
                D.viol('rt/not-killed/%s/%s' % (kind, where), 'job outlived its %d s limit and ran to its own end: %s' % (L, what))
            elif a is not None and a != L:
                D.viol('rt/armed/%s/%s' % (kind, where), 'timer armed for %d s under a limit of %d s: %s' % (a, L, what))
            elif real > L + SLACK:
                D.viol('rt/late/%s/%s' % (kind, where), 'job killed more than %.0f s after its %d s limit: %s' % (SLACK, L, what))
        elif sig is not None or j.get('X-EXIT-STATUS') != '0':
            D.viol('rt/harmed/%s/%s' % (kind, where), 'job finishing before its %d s limit did not end normally: %s' % (L, what))
        D.sample('%s (request %d of %d): %s' % (say(q), n + 1, len(reqs), 'refused' if refused else 'ran %s s, signal %s' % (real, sig)))
        prev = 'refused' if refused else 'run'
        if end is not None:
            prev_end = end
    if premise:
        D.nontrivial()
    else:
        D.count('premise_missed')
    D.count('rt_runs')
    D.count('rt_requests', len(reqs))


if __name__ == '__main__':
    sys.exit(main())
