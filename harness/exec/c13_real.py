#!/usr/bin/env python3
"""C13, real-process layer: the unmodified echsx binary on generated execution requests.

Each case is one run of `echsx -v` (LD_PRELOAD=echsx_shim.so redirects sendmail to the recorder
and logs mkstemp/unlink) in a private directory, with a real job (c13_job, started through the
shell echsx picks) and is judged from the files left behind (e3lib.judge).

options (--opt k=v):
  set=full|quick   which part of the table (see cases())
  echsx=PATH       binary under test (default /repo/src/echsx)
  bdir=DIR         where echsx_shim.so, mailrec, c13_job live (default <V>/build/plain/exec)
  keep=1           keep the case directories
  knob=NAME        run only the cases of this knob (indices stay what they are)
"""
import os, sys, subprocess, tempfile, shutil, time, signal
sys.path.insert(0, os.path.dirname(os.path.abspath(__file__)))
import e3lib
from e3lib import Drv, rows, row_paths, vtodo, rd, judge, split_mail, shim_events, ORG, ATT

JOBS = ('silent', 'out3', 'err3', 'alt50', 'big', 'cat')
EXITS = ('0', '3', 'term', 'kill')
KNOBS = ('cwd', 'umask', 'shell', 'ifile', 'noorg', 'noatt', 'mailrun', 'att2', 'slowmail', 'mailfail', 'nomailer', 'slowpipe')
# clauses a knob can bear on; routing clauses do not carry the knob in their signature
KNOB_CLAUSES = ('cwd', 'umask', 'stdin', 'shell', 'mail-unwanted', 'mail-count', 'mail-hdr', 'run-count', 'hang', 'echsx-died')
# under the slowmail knob (2 s limit, job done at once, mailer busy for 4 s) every clause carries the knob
ALL_CLAUSES_KNOBS = ('slowmail', 'mailfail', 'nomailer', 'slowpipe', 'relfile', 'devnull-o', 'devnull-e', 'stopcont', 'earlyexit')
# earlyexit: the job has terminated (and is still reapable) before posix_spawn returns to echsx; echsx must be back
# within this many seconds
EARLY_HORIZON = 12.0
# flagorder: the three mail flag lines of the request in every order, X-ECHS-MAIL-RUN given as an explicit 0
FLAG_ORDERS = ('ROE', 'REO', 'ORE', 'OER', 'ERO', 'EOR')
# the umask menu: both ends, the usual ones, and the two largest values a request can carry
UMASKS = (0o000, 0o022, 0o077, 0o377, 0o776, 0o777)
NOMAIL_ROWS = ('R4', 'R8', 'R12', 'R16', 'R20', 'N4')
SIZES = {'silent': (0, 0), 'out3': (192, 0), 'err3': (0, 192), 'alt50': (1600, 1600), 'big': (204800, 204800),
         'stopcont': (3200, 3200)}
IFILE_TEXT = b''.join(bytes([97 + (i * 5 + i // 64) % 26]) if i % 64 != 63 else b'\n' for i in range(70000))


def cases(which):
    """deterministic list of (row, job, exit, knob); simplest first"""
    R = rows()
    out = []
    if which == 'quick':
        for r in R:
            for j in ('alt50', 'big'):
                out.append((r, j, '0', None))
        for k in KNOBS:
            for r in R:
                if r['name'] in ('R1', 'R6', 'R14', 'R17', 'R20'):
                    out.append((r, 'cat' if k == 'ifile' else 'alt50', '3' if k == 'mailrun' else '0', k))
        for r in R:
            if r['name'] in ('R5', 'R13'):
                for x in ('term', 'kill'):
                    out.append((r, 'out3', x, None))
        return out
    for r in R:
        for j in JOBS:
            for x in EXITS:
                out.append((r, j, x, None))
    for k in KNOBS:
        for r in R:
            for j in ('alt50', 'cat'):
                out.append((r, j, '0', k))
    return out


def is_um(knob):
    return bool(knob) and len(knob) == 6 and knob.startswith('um') and knob[2:].isdigit()


def is_fo(knob):
    return bool(knob) and knob.startswith('fo-') and knob[3:] in FLAG_ORDERS


def sig_knob(knob):
    """what a knob contributes to a signature: the flag orders are classed by where the MAIL-RUN line stands"""
    if is_fo(knob):
        return 'flagorder-run-' + ('first', 'mid', 'last')[knob[3:].index('R')]
    return knob


def extras(which):
    """cases added after the pair case (so that the indices of everything before stay what they were):
    * relfile: OFILE/EFILE given as RELATIVE names next to a LOCATION, every row of the table
    * umNNNN: the umask menu on rows without mail (the job's files are then the only thing echsx makes), judged by the
      umask the job finds and by the mode of the files echsx creates for it"""
    R = rows()
    out = []
    for r in R:
        for j in (('alt50',) if which == 'quick' else ('alt50', 'big')):
            out.append((r, j, '0', 'relfile'))
    for r in R:
        if r['name'] in (('R12', 'R16', 'R20') if which == 'quick' else NOMAIL_ROWS):
            for u in UMASKS:
                out.append((r, 'alt50', '0', 'um%04o' % u))
    # devnull-o / devnull-e: the output (error) file is /dev/null, the usual way to say "throw it away"; what the row
    # sends by mail must still arrive, the journal must be written
    for r in R:
        if r['out']:
            out.append((r, 'alt50', '0', 'devnull-o'))
        if r['err'] and r['err'] != 'same':
            out.append((r, 'alt50', '0', 'devnull-e'))
    # stopcont: the job stops itself (SIGSTOP) half way through its output, is continued half a second later by a
    # helper, writes the rest and exits 5: a stopped job is not a finished job -- all clauses as usual (journal
    # status 5 written after the job's real end, every byte routed, one mail)
    for r in R:
        if which != 'quick' or r['name'] in ('R1', 'R5', 'R13', 'R17', 'R20'):
            out.append((r, 'stopcont', '5', 'stopcont'))
    # flagorder: X-ECHS-MAIL-RUN:0, X-ECHS-MAIL-OUT:<row>, X-ECHS-MAIL-ERR:<row> in all six orders; the README has
    # MAIL-RUN implied by MAIL-OUT / MAIL-ERR, so every order must give what the row prescribes (and all six the same)
    for r in R:
        if which != 'quick' or r['name'] in ('R1', 'R6', 'R7', 'R14', 'R19', 'R20'):
            for o in FLAG_ORDERS:
                out.append((r, 'alt50', '3', 'fo-' + o))
    # earlyexit: the ordering "the job is over before echsx gets the answer of posix_spawn" made deterministic (the shim
    # holds posix_spawn back until waitid(WNOWAIT) has seen the child's end); the complementary ordering (child alive
    # when the loop starts) is what all the runs above are.  Jobs whose output fits a pipe only: nobody reads meanwhile.
    for r in R:
        if which != 'quick' or r['name'] in ('R1', 'R5', 'R13', 'R17', 'R20'):
            for j in ('silent', 'alt50'):
                for x in (('0', '3', 'term') if which == 'quick' else EXITS):
                    out.append((r, j, x, 'earlyexit'))
    return out


def main():
    D = Drv()
    echsx = D.opt('echsx', '/repo/src/echsx')
    bdir = D.opt('bdir', os.path.join(e3lib.V, 'build', 'plain', 'exec'))
    shim, rec, job = (os.path.join(bdir, x) for x in ('echsx_shim.so', 'mailrec', 'c13_job'))
    for f in (echsx, shim, rec, job):
        if not os.path.exists(f):
            sys.stderr.write('c13_real: %s missing\n' % f)
            return 2
    base = tempfile.mkdtemp(prefix='e3r_', dir='/tmp')
    uid = os.getuid()
    try:
        for row, jobm, ex, knob in cases(D.opt('set', 'quick')):
            if not D.next():
                continue
            if D.opt('knob') and knob != D.opt('knob'):
                continue
            d = os.path.join(base, '%d' % D.idx)
            os.makedirs(os.path.join(d, 'run'))
            os.makedirs(os.path.join(d, 'wd'))
            run_case(D, d, row, jobm, ex, knob, uid, echsx, shim, rec, job)
            if not D.opt('keep'):
                shutil.rmtree(d, ignore_errors=True)
            if D.stop():
                break
        # two executors at once on one journal, each through a descriptor of its own that stood at the end of the
        # journal when its executor was started (the way echsd opens it: no O_APPEND); the one started first ends last
        for order in ('slow-first',):
            if not D.next() or D.opt('knob'):
                continue
            d = os.path.join(base, '%d' % D.idx)
            os.makedirs(os.path.join(d, 'run'))
            run_pair(D, d, uid, echsx, shim, rec, job)
            if not D.opt('keep'):
                shutil.rmtree(d, ignore_errors=True)
        for row, jobm, ex, knob in extras(D.opt('set', 'quick')):
            if not D.next():
                continue
            if D.opt('knob') and knob != D.opt('knob'):
                continue
            d = os.path.join(base, '%d' % D.idx)
            os.makedirs(os.path.join(d, 'run'))
            os.makedirs(os.path.join(d, 'wd'))
            run_case(D, d, row, jobm, ex, knob, uid, echsx, shim, rec, job)
            if not D.opt('keep'):
                shutil.rmtree(d, ignore_errors=True)
            if D.stop():
                break
    finally:
        if not D.opt('keep'):
            shutil.rmtree(base, ignore_errors=True)
    D.summary()
    return 0


def run_pair(D, d, uid, echsx, shim, rec, job):
    row = [r for r in rows() if r['name'] == 'R20'][0]   # no files, no mail: the journal is all there is
    jn = os.path.join(d, 'journal')
    open(jn, 'wb').close()
    procs = []
    D.desc('two echsx processes share one journal through separate descriptors: A (exit 3 after 2 s) is started, then B (exit 5 at once); both entries must be in the journal')
    for tag, cmd, delay in (('A', 'sleep 2; exit 3', 0.0), ('B', 'exit 5', 0.5)):
        time.sleep(delay)
        txt = vtodo('c13-pair-%s' % tag, cmd, row, d, uid, {})
        rq = os.path.join(d, 'req%s.ics' % tag)
        with open(rq, 'w') as f:
            f.write(txt)
        fd = os.open(jn, os.O_RDWR)
        os.lseek(fd, 0, os.SEEK_END)
        env = {'LD_PRELOAD': shim, 'E3_MAILREC': rec, 'E3_MAILFILE': os.path.join(d, 'mail' + tag),
               'E3_LOG': os.path.join(d, 'shim%s.log' % tag), 'PATH': '/usr/bin:/bin'}
        procs.append(subprocess.Popen([echsx, '-v'], stdin=open(rq, 'rb'), stdout=fd, stderr=subprocess.DEVNULL,
                                      cwd=os.path.join(d, 'run'), env=env, start_new_session=True))
        os.close(fd)
    for p in procs:
        try:
            p.wait(timeout=D.case_timeout)
        except subprocess.TimeoutExpired:
            try:
                os.killpg(p.pid, signal.SIGKILL)
            except OSError:
                pass
            p.wait()
            D.viol('hang/pair', 'echsx did not finish within %.0f s' % D.case_timeout)
            return
    j = e3lib.parse_journal(rd(jn))
    got = sorted((e.get('UID'), e.get('X-EXIT-STATUS')) for e in j)
    want = [('c13-pair-A', '3'), ('c13-pair-B', '5')]
    if got != want:
        D.viol('journal-shared/pair', 'journal holds %r, expected %r' % (got, want))
    D.nontrivial()
    D.count('pair_runs')
    D.sample('pair on one journal: %r' % (got,))


def sweep_tmp(d):
    """remove what a run that never reached its own clean-up left in /tmp"""
    for e in shim_events(rd(os.path.join(d, 'shim.log'))):
        if e.startswith('mkstemp fd=') and not e.startswith('mkstemp fd=-'):
            try:
                os.unlink(e.split('path=', 1)[1])
            except OSError:
                pass


def run_case(D, d, row, jobm, ex, knob, uid, echsx, shim, rec, job):
    cmd = 'exec %s %s %s %s' % (job, d, jobm, ex)
    k = {}
    want_cwd, want_umask, want_stdin, want_shell = os.path.join(d, 'run'), 0o022, b'', None
    if knob == 'cwd':
        k['cwd'] = want_cwd = os.path.join(d, 'wd')
    elif knob == 'umask':
        k['umask'] = want_umask = 0o027
    elif knob == 'shell':
        k['shell'] = os.path.join(d, 'mysh')
        with open(k['shell'], 'w') as f:
            f.write('#!/bin/sh\nfor a in "$@"; do printf "%%s\\n" "$a"; done >> %s/shell.log\nexec /bin/sh "$@"\n' % d)
        os.chmod(k['shell'], 0o755)
        want_shell = ['-c', cmd]
    elif knob == 'ifile':
        k['ifile'] = os.path.join(d, 'in.txt')
        with open(k['ifile'], 'wb') as f:
            f.write(IFILE_TEXT)
        want_stdin = IFILE_TEXT
    elif knob in ('noorg', 'noatt', 'mailrun'):
        k[knob] = 1
    elif knob == 'att2':
        k['att'] = [ATT, 'second-c13@example.org']
    elif knob == 'relfile':
        k['cwd'] = want_cwd = os.path.join(d, 'wd')
    elif is_um(knob):
        k['umask'] = want_umask = int(knob[2:], 8)
        # what the job and the shim note down must stay readable whatever the umask: the files are there beforehand
        for name in ('count', 'cwd', 'umask', 'exp.out', 'exp.err', 'stdin', 'shim.log'):
            with open(os.path.join(d, name), 'wb'):
                pass
            os.chmod(os.path.join(d, name), 0o644)
    # where the files of the row are: a relative name is a name in the requested working directory
    fdir = os.path.join(d, 'wd') if knob == 'relfile' else d
    extra = ()
    if knob == 'slowmail':
        # the job is over long before its limit, the mailer is still at it when the limit runs out
        extra = ('DURATION:PT2S',)
    uidtxt = 'c13-%d' % D.idx
    txt = vtodo(uidtxt, cmd, row, fdir, uid, k, extra)
    if is_fo(knob):
        flag = {'R': 'X-ECHS-MAIL-RUN:0', 'O': 'X-ECHS-MAIL-OUT:%d' % row['mo'], 'E': 'X-ECHS-MAIL-ERR:%d' % row['me']}
        old = 'X-ECHS-MAIL-OUT:%d\nX-ECHS-MAIL-ERR:%d\n' % (row['mo'], row['me'])
        assert txt.count(old) == 1 and 'X-ECHS-MAIL-RUN' not in txt
        txt = txt.replace(old, ''.join(flag[c] + '\n' for c in knob[3:]))
    if knob == 'relfile':
        txt = txt.replace('X-ECHS-OFILE:%s/' % fdir, 'X-ECHS-OFILE:').replace('X-ECHS-EFILE:%s/' % fdir, 'X-ECHS-EFILE:')
    jrow = row
    if knob in ('devnull-o', 'devnull-e'):
        o_, e_ = row_paths(row, fdir)
        jrow = dict(row)
        if knob == 'devnull-o':
            txt = txt.replace('X-ECHS-OFILE:%s\n' % o_, 'X-ECHS-OFILE:/dev/null\n')
            jrow['out'] = None
            if row['err'] == 'same':
                txt = txt.replace('X-ECHS-EFILE:%s\n' % o_, 'X-ECHS-EFILE:/dev/null\n')
                jrow['err'] = None
        else:
            txt = txt.replace('X-ECHS-EFILE:%s\n' % e_, 'X-ECHS-EFILE:/dev/null\n')
            jrow['err'] = None
        assert '/dev/null' in txt
    D.desc('row %s (OFILE=%s EFILE=%s MAIL-OUT=%d MAIL-ERR=%d) job=%s exit=%s knob=%s; request: %s' % (
        row['name'], row['out'], row['err'], row['mo'], row['me'], jobm, ex, knob,
        txt.replace(d, '$D').replace('\n', '|')))
    with open(os.path.join(d, 'req.ics'), 'w') as f:
        f.write(txt)
    env = {'LD_PRELOAD': shim, 'E3_MAILREC': rec, 'E3_MAILFILE': os.path.join(d, 'mail'),
           'E3_LOG': os.path.join(d, 'shim.log'), 'PATH': '/usr/bin:/bin'}
    if knob == 'slowmail':
        env['E3_MAILDELAY'] = '4'
    if knob == 'nomailer':
        # the mailer cannot be started at all (posix_spawn answers ENOENT): no mail, but the job has run, its status is
        # journalled, echsx survives and nothing is left behind
        env['E3_MAILSPAWNFAIL'] = '1'
    if knob == 'mailfail':
        # the mailer takes the message and reports EX_TEMPFAIL: echsx may complain, but the job has run, its
        # status is journalled and nothing is left behind
        env['E3_MAILEXIT'] = '75'
    horizon = D.case_timeout
    if knob == 'earlyexit':
        env['E3_SPAWNWAIT'] = '1'
        horizon = min(horizon, EARLY_HORIZON)
    t0 = int(time.time())
    with open(os.path.join(d, 'req.ics'), 'rb') as fi, open(os.path.join(d, 'journal'), 'wb') as fo, \
            open(os.path.join(d, 'echsx.err'), 'wb') as fe:
        p = subprocess.Popen([echsx, '-v'], stdin=subprocess.PIPE if knob == 'slowpipe' else fi, stdout=fo, stderr=fe,
                             cwd=os.path.join(d, 'run'), env=env, umask=0o022, start_new_session=True)
        if knob == 'slowpipe':
            # the request arrives the way a busy daemon sends a big one: in two writes with a pause in between
            data = fi.read()
            cut = max(1, data.find(b'X-ECHS-MAIL-OUT'))
            try:
                p.stdin.write(data[:cut]); p.stdin.flush()
                time.sleep(0.4)
                p.stdin.write(data[cut:]); p.stdin.flush()
                p.stdin.close()
            except OSError:
                pass
        try:
            rc = p.wait(timeout=horizon)
        except subprocess.TimeoutExpired:
            try:
                os.killpg(p.pid, signal.SIGKILL)
            except OSError:
                pass
            p.wait()
            if knob == 'earlyexit':
                waited = [e for e in shim_events(rd(os.path.join(d, 'shim.log'))) if e.startswith('spawn-waited rc=0 ')]
                D.viol('hang/early-exit/%s' % ex, 'the job (row %s, %s) had terminated before posix_spawn returned to echsx (%s); '
                       'echsx did not finish within %.0f s: journal %r' % (row['name'], jobm, waited[0] if waited else 'shim did not see it',
                                                                          horizon, (rd(os.path.join(d, 'journal')) or b'')[:200]))
            else:
                D.viol('hang/%s/%s/%s' % (row['name'], jobm, ex), 'echsx did not finish within %.0f s' % D.case_timeout)
            sweep_tmp(d)
            return
    t1 = int(time.time())
    shape = '%s/%s' % (row['name'], 'big' if jobm == 'big' else 'small')
    if rc < 0:
        D.viol('echsx-died/%s/%s%s' % (shape, ex, '/' + knob if knob else ''), 'echsx itself was killed by signal %d; stderr: %r' % (
            -rc, (rd(os.path.join(d, 'echsx.err')) or b'')[-300:]))
    # what the job says it wrote
    out, err = rd(os.path.join(d, 'exp.out')), rd(os.path.join(d, 'exp.err'))
    of, ef = row_paths(row, fdir)
    if jrow is not row:
        of, ef = (of if jrow['out'] else None), (ef if jrow['err'] else None)
    if knob == 'relfile':
        # nobody says against which directory echsx resolves a relative name when it is not the requested one: its own
        # is accepted too (the routing clauses are about what is in the file and in the mail)
        alt = row_paths(row, os.path.join(d, 'run'))
        if of and not os.path.exists(of) and os.path.exists(alt[0]):
            of, ef = alt[0], (alt[0] if ef == of else ef)
        if ef and not os.path.exists(ef) and os.path.exists(alt[1]):
            ef = alt[1]
    modes = []
    if is_um(knob):
        # the files echsx made for the job: their mode is what open(2) with 0666 gives under the requested umask
        for what, fn in (('OFILE', of), ('EFILE', ef if ef != of else None)):
            if fn:
                try:
                    modes.append((what, os.stat(fn).st_mode & 0o7777))
                    os.chmod(fn, 0o644)
                except OSError:
                    pass
    R = {'of': rd(of) if of else None, 'ef': rd(ef) if ef else None, 't0': t0, 't1': t1,
         'journal': rd(os.path.join(d, 'journal')), 'stray': []}
    for sub in (('', 'wd', 'run') if knob == 'relfile' else ('',)):
        for name in ('F1', 'F2'):
            fn = os.path.join(d, sub, name) if sub else os.path.join(d, name)
            if fn not in (of, ef) and os.path.exists(fn):
                R['stray'].append(os.path.join(sub, name))
    R['mails'] = []
    for i in range(1000):
        b = rd(os.path.join(d, 'mail.%d' % i))
        if b is None:
            break
        R['mails'].append(split_mail(b))
    ev = shim_events(rd(os.path.join(d, 'shim.log')))
    made = [e.split('path=', 1)[1] for e in ev if e.startswith('mkstemp fd=') and not e.startswith('mkstemp fd=-')]
    R['tmp_left'] = [p_ for p_ in made if os.path.exists(p_)]
    for p_ in R['tmp_left']:
        try:
            os.unlink(p_)
        except OSError:
            pass
    cnt = rd(os.path.join(d, 'count'))
    R['count'] = 0 if cnt is None else cnt.count(b'\n')
    R['cwd'] = (rd(os.path.join(d, 'cwd')) or b'').decode('latin-1')
    um = (rd(os.path.join(d, 'umask')) or b'').split()
    R['umask'] = int(um[0], 8) if um else -1
    R['stdin'] = rd(os.path.join(d, 'stdin'))
    sl = rd(os.path.join(d, 'shell.log'))
    R['shell_log'] = None if sl is None else sl.decode('latin-1').split('\n')[:-1]
    status = {'0': ('exit', 0), '3': ('exit', 3), '5': ('exit', 5), 'term': ('signal', 15), 'kill': ('signal', 9)}[ex]
    mailsel = row['mo'] or row['me'] or knob == 'mailrun'
    exp = {'row': jrow, 'out': out or b'', 'err': err or b'', 'cmd': cmd, 'uid': uidtxt, 'status': status,
           'mail': bool(mailsel and knob not in ('noorg', 'noatt', 'nomailer')),
           'nomail_why': 'no ORGANIZER' if knob == 'noorg' else 'no ATTENDEE' if knob == 'noatt' else 'the mailer cannot be started' if knob == 'nomailer' else 'nothing selected',
           'org': ORG, 'att': k.get('att', [ATT]), 'want_count': 1,
           'want_cwd': want_cwd, 'want_umask': want_umask, 'want_stdin': want_stdin, 'want_shell': want_shell}
    # the job alphabet itself: did the job write what its mode says (guards the harness, not echsx)
    if R['count'] == 1:
        if jobm == 'cat':
            wo, we = len(want_stdin), 0
        else:
            wo, we = SIZES[jobm]
        if jobm == 'stopcont' and out is not None and err is not None and (len(out), len(err)) == (wo // 2, we // 2):
            # echsx is back while the job is still stopped (or only just continued): not the job's fault, the
            # clauses below say what that means for status and routing
            pass
        elif out is None or err is None or (len(out), len(err)) != (wo, we):
            D.viol('harness/job-output/%s' % jobm, 'job recorded %s/%s bytes, its mode says %d/%d' % (
                None if out is None else len(out), None if err is None else len(err), wo, we))
    bad = 0
    for what, m in modes:
        if m != 0o666 & ~want_umask:
            bad += 1
            D.viol('ofile-mode/%s/%s' % (shape, knob), '%s was created with mode %04o under the requested umask %04o, want %04o' % (
                what, m, want_umask, 0o666 & ~want_umask))
    for clause, detail in judge(R, exp):
        bad += 1
        sig = '%s/%s' % (clause, shape)
        if clause in ('journal-status', 'mail-status'):
            sig += '/' + ex
        if knob and (clause in KNOB_CLAUSES or knob in ALL_CLAUSES_KNOBS or is_fo(knob)):
            sig += '/' + sig_knob(knob)
        D.viol(sig, detail)
    if knob == 'earlyexit':
        # guards the harness, not echsx: the shim must have seen the job's end before it let posix_spawn return
        if not [e for e in ev if e.startswith('spawn-waited rc=0 ')]:
            D.viol('harness/earlyexit', 'the shim did not hold posix_spawn back until the job had ended: %r' % (ev[:6],))
        else:
            D.count('early_exit_runs')
    if knob == 'stopcont' and not bad and rd(os.path.join(d, 'stopped')) != b'T\n':
        # guards the harness, not echsx: the job's helper must have seen the job stopped
        D.viol('harness/stopcont', 'the job was not seen in the stopped state before it was continued')
    if len(exp['out']) + len(exp['err']) > 0 and (row['out'] or row['err'] or exp['mail']):
        D.nontrivial()
    D.count('runs_' + ('big' if jobm == 'big' else 'small'))
    D.count('mails_seen', len(R['mails']))
    D.count('tmpfiles_made', len(made))
    D.count('bytes_routed', len(exp['out']) + len(exp['err']))
    if not bad:
        D.sample('row %s job=%s exit=%s knob=%s: %d+%d bytes, %d mail(s), %d temp file(s) made and removed, journal %s' % (
            row['name'], jobm, ex, knob, len(exp['out']), len(exp['err']), len(R['mails']), len(made),
            (R['journal'] or b'').decode('latin-1').replace('\n', '|')[:300]))


if __name__ == '__main__':
    sys.exit(main())
