/* c13_job.c -- the job alphabet of C13's real-process layer (engine E3)
 * usage (always through the shell echsx starts): exec c13_job DIR MODE EXIT
 *  DIR   private directory of the case; the job appends one line to DIR/count
 *        (the command ran exactly once), writes DIR/cwd, DIR/umask, DIR/ppid and
 *        copies its whole stdin to DIR/stdin
 *  MODE  silent | out3 | err3 | alt50 | big | cat | stopcont
 *        stopcont: 25 lines to each stream, then the job STOPS itself (SIGSTOP) and is
 *        continued half a second later by a helper it forked before (the helper holds none
 *        of the job's descriptors; it notes `T' in DIR/stopped once /proc shows the job
 *        stopped), then 25 more lines to each stream
 *        stdout bytes are lower-case letters and \n, stderr bytes are upper-case
 *        letters and \t, so every byte in a shared file or mail body is
 *        attributable to its stream; DIR/exp.out and DIR/exp.err receive
 *        exactly what was written to each stream (written before the stream is)
 *  EXIT  0 | 3 | term | kill
 * Each write(2) hands over whole 64-byte lines and at most 4096 bytes. */
#include <stdio.h>
#include <stdlib.h>
#include <string.h>
#include <unistd.h>
#include <fcntl.h>
#include <signal.h>
#include <errno.h>
#include <sys/stat.h>
#include <sys/wait.h>

static int xo = -1, xe = -1;

static void
full_write(int fd, const char *b, size_t n)
{
	for (size_t o = 0; o < n;) {
		ssize_t w = write(fd, b + o, n - o);
		if (w < 0) {
			if (errno == EINTR) {
				continue;
			}
			_exit(99);
		}
		o += w;
	}
}

/* byte I of stream WHICH (0 stdout, 1 stderr) */
static char
gen(int which, size_t i)
{
	if (i % 64 == 63) {
		return which ? '\t' : '\n';
	}
	return (which ? 'A' : 'a') + (i / 64 * 7 + i % 64 * 3 + i / 4096) % 26;
}

static size_t pos[2];

static void
emit(int which, size_t n)
{
	char buf[4096];

	while (n) {
		size_t k = n < sizeof(buf) ? n : sizeof(buf);
		for (size_t j = 0; j < k; j++) {
			buf[j] = gen(which, pos[which]++);
		}
		full_write(which ? xe : xo, buf, k);
		full_write(which ? 2 : 1, buf, k);
		n -= k;
	}
}

static int
xopen(const char *dir, const char *name, int fl)
{
	char fn[4096];
	int fd;

	snprintf(fn, sizeof(fn), "%s/%s", dir, name);
	if ((fd = open(fn, fl | O_WRONLY | O_CREAT, 0666)) < 0) {
		_exit(98);
	}
	return fd;
}

/* state letter of process P in /proc/P/stat, 0 if unreadable */
static char
pstate(pid_t p)
{
	char fn[64], buf[512], *q;
	ssize_t n;
	int fd;

	snprintf(fn, sizeof(fn), "/proc/%d/stat", (int)p);
	if ((fd = open(fn, O_RDONLY)) < 0) {
		return 0;
	}
	n = read(fd, buf, sizeof(buf) - 1);
	close(fd);
	if (n <= 0) {
		return 0;
	}
	buf[n] = '\0';
	/* pid (comm) S ...: the state follows the LAST closing parenthesis */
	return (q = strrchr(buf, ')')) != NULL && q[1] == ' ' ? q[2] : 0;
}

/* the job stops itself; a helper forked beforehand (no descriptor of the job left open in it)
 * waits until the job is seen stopped, lets half a second pass and continues it */
static void
stop_and_be_continued(const char *dir)
{
	pid_t me = getpid(), h;

	if ((h = fork()) < 0) {
		_exit(95);
	} else if (h == 0) {
		int fd, seen = 0;

		for (fd = 0; fd < 1024; fd++) {
			close(fd);
		}
		for (int i = 0; i < 1000 && !(seen = pstate(me) == 'T'); i++) {
			usleep(10000);
		}
		if (seen) {
			fd = xopen(dir, "stopped", O_TRUNC);
			full_write(fd, "T\n", 2);
			close(fd);
		}
		usleep(500000);
		kill(me, SIGCONT);
		_exit(0);
	}
	raise(SIGSTOP);
	/* continued */
	while (waitpid(h, NULL, 0) < 0 && errno == EINTR);
}

int
main(int argc, char *argv[])
{
	static char ibuf[1 << 16];
	const char *dir, *mode, *ex;
	char tmp[4096];
	mode_t um;
	int fd, catp;
	ssize_t n;

	if (argc != 4) {
		return 97;
	}
	dir = argv[1], mode = argv[2], ex = argv[3];
	catp = !strcmp(mode, "cat");

	fd = xopen(dir, "count", O_APPEND);
	full_write(fd, "run\n", 4);
	close(fd);
	if (getcwd(tmp, sizeof(tmp)) == NULL) {
		strcpy(tmp, "?");
	}
	fd = xopen(dir, "cwd", O_TRUNC);
	full_write(fd, tmp, strlen(tmp));
	close(fd);
	um = umask(0);
	umask(um);
	snprintf(tmp, sizeof(tmp), "%04o %d", (unsigned)um, (int)getppid());
	fd = xopen(dir, "umask", O_TRUNC);
	full_write(fd, tmp, strlen(tmp));
	close(fd);

	xo = xopen(dir, "exp.out", O_TRUNC);
	xe = xopen(dir, "exp.err", O_TRUNC);

	/* stdin: always drained into DIR/stdin, echoed to stdout in cat mode */
	fd = xopen(dir, "stdin", O_TRUNC);
	while ((n = read(0, ibuf, sizeof(ibuf))) != 0) {
		if (n < 0) {
			if (errno == EINTR) {
				continue;
			}
			full_write(fd, "<read error>", 12);
			break;
		}
		full_write(fd, ibuf, n);
		if (catp) {
			for (ssize_t o = 0; o < n; o += 4096) {
				size_t k = n - o < 4096 ? n - o : 4096;
				full_write(xo, ibuf + o, k);
				full_write(1, ibuf + o, k);
			}
		}
	}
	close(fd);

	if (!strcmp(mode, "out3")) {
		emit(0, 64), emit(0, 64), emit(0, 64);
	} else if (!strcmp(mode, "err3")) {
		emit(1, 64), emit(1, 64), emit(1, 64);
	} else if (!strcmp(mode, "alt50")) {
		for (int i = 0; i < 25; i++) {
			emit(0, 64), emit(1, 64);
		}
	} else if (!strcmp(mode, "big")) {
		/* 200 KiB to each, alternating in 4 KiB writes */
		for (int i = 0; i < 50; i++) {
			emit(0, 4096), emit(1, 4096);
		}
	} else if (!strcmp(mode, "stopcont")) {
		for (int i = 0; i < 25; i++) {
			emit(0, 64), emit(1, 64);
		}
		stop_and_be_continued(dir);
		for (int i = 0; i < 25; i++) {
			emit(0, 64), emit(1, 64);
		}
	} else if (strcmp(mode, "silent") && !catp) {
		return 96;
	}
	close(xo), close(xe);

	if (!strcmp(ex, "term")) {
		kill(getpid(), SIGTERM);
		pause();
	} else if (!strcmp(ex, "kill")) {
		kill(getpid(), SIGKILL);
		pause();
	}
	return atoi(ex);
}
