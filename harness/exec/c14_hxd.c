/* c14_hxd.c -- echsd.c in a TU of its own, main renamed; posix_spawn of
 * echsx intercepted so that the VTODO written by vtodoify() can be read back */
#include <stdlib.h>
#include <stdio.h>
#include <string.h>
#include <unistd.h>
#include <spawn.h>
#include <ev.h>
#include "c14_hx.h"

static int hxd_spawn(pid_t*, const char*, const posix_spawn_file_actions_t*,
		     const posix_spawnattr_t*, char *const[], char *const[]);
static int hxd_adddup2(posix_spawn_file_actions_t*, int, int);

#define posix_spawn				hxd_spawn
#define posix_spawn_file_actions_adddup2	hxd_adddup2
#define main					echsd_main
#include "echsd.c"
#undef main
#undef posix_spawn_file_actions_adddup2
#undef posix_spawn

static int hxd_stdin_src = -1;
static int hxd_rd = -1;
static int hxd_nspawn;
static char hxd_args[256];

static int
hxd_adddup2(posix_spawn_file_actions_t *fa, int fd, int newfd)
{
	if (newfd == STDIN_FILENO) {
		hxd_stdin_src = fd;
	}
	return posix_spawn_file_actions_adddup2(fa, fd, newfd);
}

static int
hxd_spawn(pid_t *pid, const char *path, const posix_spawn_file_actions_t *fa,
	  const posix_spawnattr_t *at, char *const argv[], char *const envp[])
{
	size_t n = 0;

	/* keep the read end alive, echsd closes its copy right after */
	hxd_rd = hxd_stdin_src >= 0 ? dup(hxd_stdin_src) : -1;
	hxd_stdin_src = -1;
	hxd_args[0] = '\0';
	for (int i = 0; argv && argv[i] && n < sizeof(hxd_args) - 1; i++) {
		n += snprintf(hxd_args + n, sizeof(hxd_args) - n, "%s%s", i ? " " : "", argv[i]);
	}
	hxd_nspawn++;
	*pid = 0x3ffffff0 - hxd_nspawn;
	return 0;
}

static void
hxd_quiet(int prio, const char *fmt, ...)
{
	return;
}

static struct _echsd_s *hxd_ctx;

int
hxd_setup(void)
{
	echs_log = getenv("C14_VERBOSE") ? echs_errlog : hxd_quiet;
	meself.uid = geteuid();
	meself.gid = getegid();
	qdirfd = -1;
	echsx = "echsx";
	return (hxd_ctx = make_echsd()) != NULL ? 0 : -1;
}

static _task_t hxd_sel;

static _task_t
hxd_task(void)
{
	if (hxd_sel != NULL) {
		return hxd_sel;
	}
	for (size_t i = 0; i < ztask_ht; i++) {
		if (task_ht[i].oid) {
			return task_ht[i].t;
		}
	}
	return NULL;
}

int
hxd_submit(const char *buf, size_t len)
{
	struct echs_cmdparam_s param;
	ncred_t cred = {geteuid(), getegid()};
	int nul = open("/dev/null", O_WRONLY);
	int n = 0;

	memset(&param, 0, sizeof(param));
	switch (feed_cmd(&param, buf, len)) {
	case ECHS_CMD_ICAL:
		(void)cmd_ical(hxd_ctx->loop, nul, &param.ical, cred);
		break;
	default:
		break;
	}
	shut_cmd(&param);
	close(nul);
	for (size_t i = 0; i < ztask_ht; i++) {
		n += task_ht[i].oid != 0;
	}
	return n;
}

static int
hxd_ntasks(void)
{
	int n = 0;

	for (size_t i = 0; i < ztask_ht; i++) {
		n += task_ht[i].oid != 0;
	}
	return n;
}

int
hxd_submit_chunked(const char *buf, size_t len, size_t chunk)
{
	struct echs_cmdparam_s param;
	ncred_t cred = {geteuid(), getegid()};
	int nul = open("/dev/null", O_WRONLY);
	size_t o = 0;

	memset(&param, 0, sizeof(param));
	while (1) {
		/* one recv(): up to CHUNK bytes, 0 once the peer has shut the connection */
		size_t nrd = len - o < chunk ? len - o : chunk;

		if (feed_cmd(&param, buf + o, nrd) != ECHS_CMD_ICAL) {
			break;
		}
		(void)cmd_ical(hxd_ctx->loop, nul, &param.ical, cred);
		if (nrd == 0) {
			break;
		}
		o += nrd;
	}
	shut_cmd(&param);
	close(nul);
	return hxd_ntasks();
}

int
hxd_select(const char *uid)
{
	hxd_sel = get_task(intern(uid, strlen(uid)));
	return hxd_sel != NULL ? 0 : -1;
}

long
hxd_chkpnt(const char *dir, char *out, size_t outsz)
{
	char fn[64];
	ssize_t n;
	size_t tot = 0;
	int fd;

	if ((qdirfd = open(dir, O_RDONLY)) < 0 || chkpnt1(geteuid()) < 0) {
		return -1;
	}
	snprintf(fn, sizeof(fn), "echsq_%u.ics", (unsigned)geteuid());
	if ((fd = openat(qdirfd, fn, O_RDONLY)) < 0) {
		return -1;
	}
	while (tot < outsz - 1 && (n = read(fd, out + tot, outsz - 1 - tot)) > 0) {
		tot += n;
	}
	out[tot] = '\0';
	close(fd);
	(void)unlinkat(qdirfd, fn, 0);
	return tot;
}

int
hxd_reload(const char *dir, const char *text, size_t len)
{
	char fn[64];
	int fd;

	snprintf(fn, sizeof(fn), "echsq_%u.ics", (unsigned)geteuid());
	if ((qdirfd = open(dir, O_RDONLY)) < 0 || (fd = openat(qdirfd, fn, O_WRONLY | O_CREAT | O_TRUNC, 0600)) < 0) {
		return -1;
	}
	for (size_t o = 0; o < len;) {
		ssize_t n = write(fd, text + o, len - o);
		if (n <= 0) {
			close(fd);
			(void)unlinkat(qdirfd, fn, 0);
			return -1;
		}
		o += n;
	}
	close(fd);
	_inject_file(hxd_ctx, fn);
	(void)unlinkat(qdirfd, fn, 0);
	return hxd_ntasks();
}

long long
hxd_dur_ms(void)
{
	_task_t t = hxd_task();
	return t ? (long long)t->dur.d : -1;
}

long
hxd_fire(char *out, size_t outsz, char *args, size_t argsz)
{
	_task_t t = hxd_task();
	ev_tstamp at;
	int before = hxd_nspawn;
	size_t tot = 0;

	if (t == NULL || echs_nul_instant_p(t->cur)) {
		return -1;
	}
	at = instant_to_tstamp(t->cur);
	/* periodics_reify(): the reschedule callback first, then the watcher's callback */
	if (t->w.reschedule_cb) {
		(void)t->w.reschedule_cb(&t->w, at + 0.25);
	}
	t->w.cb(hxd_ctx->loop, &t->w, EV_PERIODIC);
	if (hxd_nspawn == before || hxd_rd < 0) {
		return -1;
	}
	for (ssize_t n; tot < outsz - 1 && (n = read(hxd_rd, out + tot, outsz - 1 - tot)) > 0; tot += n);
	out[tot] = '\0';
	close(hxd_rd);
	hxd_rd = -1;
	snprintf(args, argsz, "%s", hxd_args);
	return tot;
}
