/* echsx_shim.c -- LD_PRELOAD shim for the unmodified echsx binary (engine E3)
 *
 * - posix_spawn("/usr/sbin/sendmail", ...) is redirected to the recorder named
 *   by $E3_MAILREC, which is started as `mailrec $E3_MAILFILE <orig argv...>'
 *   with the file actions echsx prepared (stdin = echsx's pipe) and an empty
 *   environment.  Every other posix_spawn goes through untouched (the job's
 *   shell gets the environment echsx hands it, i.e. none, so the shim never
 *   reaches the job).
 * - mkstemp / unlink / alarm / posix_spawn are logged, one line each, to the
 *   file $E3_LOG (O_APPEND), so a temporary file is attributable to the run
 *   that made it although echsx keeps them all in /tmp.
 * - with $E3_ALARM_NOARM set a non-zero alarm() is only logged, not armed.
 * - with $E3_SPAWNWAIT set a successful posix_spawn of anything but the mailer returns only after
 *   the child has terminated (waitid WNOWAIT: it stays a zombie for the caller to reap).
 * Nothing else is changed. */
#define _GNU_SOURCE
#include <dlfcn.h>
#include <spawn.h>
#include <stdio.h>
#include <stdlib.h>
#include <string.h>
#include <stdarg.h>
#include <unistd.h>
#include <fcntl.h>
#include <errno.h>
#include <signal.h>
#include <sys/wait.h>

static void
shim_log(const char *fmt, ...)
{
	const char *fn = getenv("E3_LOG");
	char buf[4608];
	va_list ap;
	int fd, n, e = errno;

	if (fn == NULL) {
		return;
	}
	va_start(ap, fmt);
	n = vsnprintf(buf, sizeof(buf), fmt, ap);
	va_end(ap);
	if (n >= (int)sizeof(buf)) {
		n = sizeof(buf) - 1;
	}
	if ((fd = open(fn, O_WRONLY | O_APPEND | O_CREAT | O_CLOEXEC, 0600)) >= 0) {
		if (write(fd, buf, n) < 0) {
			;
		}
		close(fd);
	}
	errno = e;
}

int
posix_spawn(pid_t *pid, const char *path, const posix_spawn_file_actions_t *fa,
	    const posix_spawnattr_t *at, char *const argv[], char *const envp[])
{
	static int (*real)(pid_t*, const char*, const posix_spawn_file_actions_t*,
			   const posix_spawnattr_t*, char *const[], char *const[]);
	const char *rec = getenv("E3_MAILREC");
	int rc;

	if (real == NULL) {
		real = dlsym(RTLD_NEXT, "posix_spawn");
	}
	if (rec != NULL && !strcmp(path, "/usr/sbin/sendmail") && getenv("E3_MAILSPAWNFAIL") != NULL) {
		/* no mailer on this box: like the real thing, the failure is the return value and *pid stays untouched */
		shim_log("spawn-mail rc=%d pid=0 envp=%s\n", ENOENT, envp ? "set" : "null");
		return ENOENT;
	}
	if (rec != NULL && !strcmp(path, "/usr/sbin/sendmail")) {
		const char *mf = getenv("E3_MAILFILE");
		char *nargv[32];
		static char delay[48], mexit[48];
		char *nenv[] = {NULL, NULL, NULL};
		int n = 0, ne = 0;

		if (getenv("E3_MAILDELAY") != NULL) {
			/* the stand-in is to dawdle: hand the wish on */
			snprintf(delay, sizeof(delay), "E3_MAILDELAY=%s", getenv("E3_MAILDELAY"));
			nenv[ne++] = delay;
		}
		if (getenv("E3_MAILEXIT") != NULL) {
			snprintf(mexit, sizeof(mexit), "E3_MAILEXIT=%s", getenv("E3_MAILEXIT"));
			nenv[ne++] = mexit;
		}

		nargv[n++] = (char*)rec;
		nargv[n++] = (char*)(mf ? mf : "/dev/null");
		for (int i = 0; argv && argv[i] && n < 31; i++) {
			nargv[n++] = argv[i];
		}
		nargv[n] = NULL;
		rc = real(pid, rec, fa, at, nargv, nenv);
		shim_log("spawn-mail rc=%d pid=%d envp=%s\n", rc, rc ? 0 : (int)*pid, envp ? "set" : "null");
		return rc;
	}
	rc = real(pid, path, fa, at, argv, envp);
	shim_log("spawn rc=%d pid=%d path=%s\n", rc, rc ? 0 : (int)*pid, path);
	if (rc == 0 && pid != NULL && getenv("E3_SPAWNWAIT") != NULL) {
		/* place the job's end BEFORE the return of posix_spawn: wait until the child has terminated, leaving it
		 * reapable (WNOWAIT), so that whatever the caller does after the spawn happens after the job's exit */
		siginfo_t si;
		int w, e = errno;

		do {
			memset(&si, 0, sizeof(si));
			w = waitid(P_PID, *pid, &si, WEXITED | WNOWAIT);
		} while (w < 0 && errno == EINTR);
		shim_log("spawn-waited rc=%d pid=%d code=%d status=%d\n", w, (int)*pid, w ? 0 : si.si_code, w ? 0 : si.si_status);
		errno = e;
	}
	return rc;
}

int
mkstemp(char *tmpl)
{
	static int (*real)(char*);
	int fd;

	if (real == NULL) {
		real = dlsym(RTLD_NEXT, "mkstemp");
	}
	fd = real(tmpl);
	shim_log("mkstemp fd=%d errno=%d path=%s\n", fd, fd < 0 ? errno : 0, tmpl);
	return fd;
}

int
unlink(const char *path)
{
	static int (*real)(const char*);
	int rc;

	if (real == NULL) {
		real = dlsym(RTLD_NEXT, "unlink");
	}
	rc = real(path);
	shim_log("unlink rc=%d path=%s\n", rc, path);
	return rc;
}

unsigned int
alarm(unsigned int s)
{
	static unsigned int (*real)(unsigned int);

	if (real == NULL) {
		real = dlsym(RTLD_NEXT, "alarm");
	}
	shim_log("alarm %u\n", s);
	if (s && getenv("E3_ALARM_NOARM")) {
		return 0;
	}
	return real(s);
}
