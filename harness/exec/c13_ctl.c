/* c13_ctl.c -- C13, controlled layer: the unmodified echsx.c with real libev,
 * the job replaced by a script whose every step is placed between two polls
 * of echsx's own event loop by the harness.
 *
 * Seams (macros in front of `#include "echsx.c"', nothing in /repo is edited):
 *  posix_spawn_file_actions_adddup2  recorded, so the harness knows which
 *        descriptors echsx meant to be the job's stdin/stdout/stderr
 *  posix_spawn of the shell  creates no process: the harness dups the three
 *        descriptors (echsx closes its copies right after) and hands back a
 *        fake pid;  posix_spawn of /usr/sbin/sendmail starts the recorder
 *  ev_child_start  records the watcher echsx registered for the job and
 *        starts three harness watchers on echsx's loop:
 *        prepare (plays the next batch of the script before the poll),
 *        check (makes the exit visible in the poll that follows it, which is
 *        when libev's own SIGCHLD path would report it), idle (keeps the loop
 *        from sleeping)
 *  mkstemp / unlink  logged like the LD_PRELOAD shim does
 *
 * Script: batches separated by '|', actions O (next stdout chunk), E (next
 * stderr chunk), X (close all three descriptors, exit with the given wait
 * status).  A chunk that does not fit into the pipe blocks the job like a
 * real write(2) would: the rest goes out at the following polls and only then
 * does the script continue.
 *
 * usage: c13_ctl MAILREC < cases
 *  one case per line: DIR \t SCRIPT \t OSIZE \t ESIZE \t WAITSTATUS
 *  DIR/req.ics is the request; the run leaves DIR/journal, DIR/echsx.err,
 *  DIR/shim.log, DIR/mail.N, DIR/exp.out, DIR/exp.err, DIR/ctl.log
 *  prints one line per case: DIR \t <wait status of the echsx process> */
#include <stdlib.h>
#include <stdio.h>
#include <string.h>
#include <stdarg.h>
#include <unistd.h>
#include <fcntl.h>
#include <errno.h>
#include <signal.h>
#include <spawn.h>
#include <sys/wait.h>
#include <sys/stat.h>
#include <ev.h>

static int hx_spawn(pid_t*, const char*, const posix_spawn_file_actions_t*,
		    const posix_spawnattr_t*, char *const[], char *const[]);
static int hx_adddup2(posix_spawn_file_actions_t*, int, int);
static void hx_child_start(struct ev_loop*, ev_child*);
static int hx_mkstemp(char*);
static int hx_unlink(const char*);

#define posix_spawn				hx_spawn
#define posix_spawn_file_actions_adddup2	hx_adddup2
#define ev_child_start				hx_child_start
#define mkstemp					hx_mkstemp
#define unlink					hx_unlink
#define main					echsx_main
#include "echsx.c"
#undef main
#undef unlink
#undef mkstemp
#undef ev_child_start
#undef posix_spawn_file_actions_adddup2
#undef posix_spawn

#define FAKE_PID	(0x3ffffff0)

static const char *hx_dir;
static const char *hx_rec;
static const char *hx_script;
static size_t hx_csz[2];
static int hx_status;

static void
hx_log(const char *name, const char *fmt, ...)
{
	char fn[4096], buf[4608];
	va_list ap;
	int fd, n;

	snprintf(fn, sizeof(fn), "%s/%s", hx_dir, name);
	va_start(ap, fmt);
	n = vsnprintf(buf, sizeof(buf), fmt, ap);
	va_end(ap);
	if (n >= (int)sizeof(buf)) {
		n = sizeof(buf) - 1;
	}
	if ((fd = open(fn, O_WRONLY | O_APPEND | O_CREAT, 0600)) >= 0) {
		if (write(fd, buf, n) < 0) {
			;
		}
		close(fd);
	}
}

static int
hx_mkstemp(char *tmpl)
{
	int e, fd = mkstemp(tmpl);
	e = errno;
	hx_log("shim.log", "mkstemp fd=%d errno=%d path=%s\n", fd, fd < 0 ? e : 0, tmpl);
	errno = e;
	return fd;
}

static int
hx_unlink(const char *path)
{
	int e, rc = unlink(path);
	e = errno;
	hx_log("shim.log", "unlink rc=%d path=%s\n", rc, path);
	errno = e;
	return rc;
}

/* descriptors echsx asked to be the job's 0, 1, 2 */
static int hx_want[3] = {-1, -1, -1};
/* the job's ends, held by the harness */
static int hx_job[3] = {-1, -1, -1};

static int
hx_adddup2(posix_spawn_file_actions_t *fa, int fd, int newfd)
{
	if (newfd >= 0 && newfd < 3) {
		hx_want[newfd] = fd;
	}
	return posix_spawn_file_actions_adddup2(fa, fd, newfd);
}

static int
hx_spawn(pid_t *pid, const char *path, const posix_spawn_file_actions_t *fa,
	 const posix_spawnattr_t *at, char *const argv[], char *const envp[])
{
	if (!strcmp(path, "/usr/sbin/sendmail")) {
		char mf[4096];
		char *nargv[32];
		char *nenv[] = {NULL};
		int n = 0, rc;

		snprintf(mf, sizeof(mf), "%s/mail", hx_dir);
		nargv[n++] = (char*)hx_rec;
		nargv[n++] = mf;
		for (int i = 0; argv && argv[i] && n < 31; i++) {
			nargv[n++] = argv[i];
		}
		nargv[n] = NULL;
		rc = posix_spawn(pid, hx_rec, fa, at, nargv, nenv);
		hx_log("shim.log", "spawn-mail rc=%d\n", rc);
		hx_want[0] = hx_want[1] = hx_want[2] = -1;
		return rc;
	}
	/* the job: no process; one line per argv element so the driver can
	 * check shell and command */
	hx_log("ctl.log", "spawn-job\n");
	hx_log("ctl.log", "path %s\n", path);
	for (int i = 0; argv && argv[i]; i++) {
		hx_log("ctl.log", "arg %s\n", argv[i]);
	}
	hx_log("ctl.log", "envp %s\n", envp ? "set" : "null");
	{
		char cwd[4096];
		mode_t um = umask(0);
		umask(um);
		hx_log("ctl.log", "cwd %s\n", getcwd(cwd, sizeof(cwd)) ? cwd : "?");
		hx_log("ctl.log", "umask %04o\n", (unsigned)um);
	}
	for (int i = 0; i < 3; i++) {
		if (hx_want[i] < 0 || (hx_job[i] = dup(hx_want[i])) < 0) {
			hx_log("ctl.log", "fd %d: nothing to dup (%d)\n", i, hx_want[i]);
			continue;
		}
		if (i) {
			int fl = fcntl(hx_job[i], F_GETFL);
			struct stat st;
			fcntl(hx_job[i], F_SETFL, fl | O_NONBLOCK);
			fstat(hx_job[i], &st);
			hx_log("ctl.log", "fd %d is %s\n", i,
			       S_ISFIFO(st.st_mode) ? "pipe" : S_ISREG(st.st_mode) ? "file" :
			       S_ISCHR(st.st_mode) ? "chardev" : "other");
		}
	}
	hx_want[0] = hx_want[1] = hx_want[2] = -1;
	*pid = FAKE_PID;
	return 0;
}

/* the scripted job */
static struct ev_loop *hx_loop;
static ev_child *hx_c;
static ev_prepare hx_prep;
static ev_check hx_chk;
static ev_idle hx_idl;
static const char *hx_ip;	/* next action */
static int hx_exited, hx_fed;
static size_t hx_pos[2];	/* bytes generated per stream */
static char *hx_pend[2];	/* rest of a write that did not fit */
static size_t hx_npend[2], hx_opend[2];
static int hx_exp[2] = {-1, -1};
static long hx_npolls, hx_nblocked;

static char
gen(int which, size_t i)
{
	if (i % 64 == 63) {
		return which ? '\t' : '\n';
	}
	return (which ? 'A' : 'a') + (i / 64 * 7 + i % 64 * 3 + i / 4096) % 26;
}

/* push as much of the pending write as the descriptor takes; 0 if done */
static int
hx_flush(int w)
{
	while (hx_npend[w]) {
		ssize_t n = write(hx_job[w + 1], hx_pend[w] + hx_opend[w], hx_npend[w]);
		if (n < 0) {
			if (errno == EINTR) {
				continue;
			} else if (errno == EAGAIN || errno == EWOULDBLOCK) {
				return 1;
			}
			hx_log("ctl.log", "write to job fd %d failed: %s\n", w + 1, strerror(errno));
			hx_npend[w] = 0;
			break;
		}
		/* this much has left the job */
		if (write(hx_exp[w], hx_pend[w] + hx_opend[w], n) < 0) {
			;
		}
		hx_opend[w] += n;
		hx_npend[w] -= n;
	}
	return 0;
}

static void
hx_prep_cb(struct ev_loop *loop, ev_prepare *w, int revents)
{
	hx_npolls++;
	if (hx_exited) {
		return;
	}
	/* a job blocked in write(2) goes on only when that write is through */
	if (hx_flush(0) || hx_flush(1)) {
		hx_nblocked++;
		return;
	}
	for (;; hx_ip++) {
		int which;

		switch (*hx_ip) {
		case 'O':
		case 'E':
			which = *hx_ip == 'E';
			hx_pend[which] = realloc(hx_pend[which], hx_csz[which]);
			for (size_t j = 0; j < hx_csz[which]; j++) {
				hx_pend[which][j] = gen(which, hx_pos[which]++);
			}
			hx_npend[which] = hx_csz[which];
			hx_opend[which] = 0;
			if (hx_flush(which)) {
				/* blocked, the poll must come first */
				hx_ip++;
				hx_nblocked++;
				return;
			}
			break;
		case 'X':
			for (int i = 0; i < 3; i++) {
				if (hx_job[i] >= 0) {
					close(hx_job[i]);
					hx_job[i] = -1;
				}
			}
			hx_exited = 1;
			return;
		case '|':
			/* batch boundary: let echsx poll */
			hx_ip++;
			return;
		default:
			hx_log("ctl.log", "bad script at `%s'\n", hx_ip);
			_exit(90);
		}
	}
}

static void
hx_chk_cb(struct ev_loop *loop, ev_check *w, int revents)
{
	if (hx_exited && !hx_fed) {
		/* what libev's child reaper does when waitpid hands it the pid */
		hx_fed = 1;
		hx_c->rpid = hx_c->pid;
		hx_c->rstatus = hx_status;
		ev_feed_event(loop, (ev_watcher*)hx_c, EV_CHILD);
	}
}

static void
hx_idl_cb(struct ev_loop *loop, ev_idle *w, int revents)
{
	return;
}

static void
hx_child_start(struct ev_loop *loop, ev_child *c)
{
	ev_child_start(loop, c);
	if (c->pid != FAKE_PID) {
		return;
	}
	hx_loop = loop;
	hx_c = c;
	hx_ip = hx_script;
	ev_prepare_init(&hx_prep, hx_prep_cb);
	ev_prepare_start(loop, &hx_prep);
	ev_check_init(&hx_chk, hx_chk_cb);
	ev_check_start(loop, &hx_chk);
	ev_idle_init(&hx_idl, hx_idl_cb);
	ev_idle_start(loop, &hx_idl);
}

static int
xopen(const char *name, int fl)
{
	char fn[4096];
	int fd;

	snprintf(fn, sizeof(fn), "%s/%s", hx_dir, name);
	if ((fd = open(fn, fl, 0600)) < 0) {
		fprintf(stderr, "c13_ctl: cannot open %s: %s\n", fn, strerror(errno));
		_exit(91);
	}
	return fd;
}

static pid_t hx_kid;

static void
hx_watchdog(int sig)
{
	if (hx_kid > 0) {
		kill(hx_kid, SIGKILL);
	}
}

int
main(int argc, char *argv[])
{
	char line[8192];

	if (argc != 2) {
		fprintf(stderr, "usage: c13_ctl MAILREC < cases\n");
		return 2;
	}
	hx_rec = argv[1];
	signal(SIGPIPE, SIG_IGN);
	{
		struct sigaction sa = {.sa_handler = hx_watchdog};
		sigaction(SIGALRM, &sa, NULL);
	}
	while (fgets(line, sizeof(line), stdin)) {
		char *f[5], *p = line;
		int st;

		line[strcspn(line, "\n")] = '\0';
		for (int i = 0; i < 5; i++) {
			f[i] = p;
			if ((p = strchr(p, '\t')) != NULL) {
				*p++ = '\0';
			} else if (i < 4) {
				fprintf(stderr, "c13_ctl: short case line\n");
				return 2;
			}
		}
		fflush(stdout);
		if ((hx_kid = fork()) < 0) {
			perror("fork");
			return 2;
		} else if (hx_kid == 0) {
			char *av[] = {"echsx", "-v", NULL};
			char run[4096];
			int fd;

			signal(SIGALRM, SIG_DFL);
			signal(SIGPIPE, SIG_DFL);
			hx_dir = f[0];
			hx_script = f[1];
			hx_csz[0] = strtoul(f[2], NULL, 0);
			hx_csz[1] = strtoul(f[3], NULL, 0);
			hx_status = strtol(f[4], NULL, 0);
			hx_exp[0] = xopen("exp.out", O_WRONLY | O_CREAT | O_TRUNC);
			hx_exp[1] = xopen("exp.err", O_WRONLY | O_CREAT | O_TRUNC);
			fd = xopen("req.ics", O_RDONLY);
			dup2(fd, 0), close(fd);
			fd = xopen("journal", O_RDWR | O_CREAT | O_TRUNC);
			dup2(fd, 1), close(fd);
			fd = xopen("echsx.err", O_WRONLY | O_CREAT | O_TRUNC);
			dup2(fd, 2), close(fd);
			snprintf(run, sizeof(run), "%s/run", hx_dir);
			if (chdir(run) < 0) {
				_exit(92);
			}
			umask(022);
			st = echsx_main(2, av);
			hx_log("ctl.log", "polls %ld blocked %ld rest `%s' exited %d fed %d\n",
			       hx_npolls, hx_nblocked, hx_ip ? hx_ip : "(never started)", hx_exited, hx_fed);
			_exit(st);
		}
		/* a schedule takes milliseconds; one that makes no end (a script blocked for
		 * good because nobody reads its pipe) is killed and reported as a hang */
		alarm(getenv("C13_CTL_TIMEOUT") ? atoi(getenv("C13_CTL_TIMEOUT")) : 20);
		while (waitpid(hx_kid, &st, 0) < 0 && errno == EINTR);
		alarm(0);
		hx_kid = 0;
		printf("%s\t%d\n", f[0], st);
	}
	return 0;
}
