# engine E3 (C13, C14): echsx runner.  Included by ../Makefile; self-contained.
X := $(B)/plain/exec
XH := $(H)/exec
XCF := -std=c11 -O2 -g -w
XLIB := $(B)/plain/libechse.a
# logger.c is compiled per program, like upstream does
XLOG := $(R)/logger.c

exec: $(X)/echsx_shim.so $(X)/mailrec $(X)/c13_job $(X)/c13_ctl $(X)/c14_chain

$(X)/echsx_shim.so: $(XH)/echsx_shim.c
	@mkdir -p $(dir $@)
	$(CC) -O2 -g -w -shared -fPIC $< -ldl -o $@

$(X)/mailrec: $(XH)/mailrec.c
	@mkdir -p $(dir $@)
	$(CC) $(XCF) -D_POSIX_C_SOURCE=200809L $< -o $@

$(X)/c13_job: $(XH)/c13_job.c
	@mkdir -p $(dir $@)
	$(CC) $(XCF) -D_POSIX_C_SOURCE=200809L -D_DEFAULT_SOURCE $< -o $@

# echsx.c included into the harness TU (main renamed); real static libev
$(X)/c13_ctl: $(XH)/c13_ctl.c $(XLIB) $(RDEPS)
	@mkdir -p $(dir $@)
	$(CC) $(CPPF) $(XCF) $< $(XLOG) $(XLIB) $(EVA) $(LDL) -o $@

# echsq.c, echsd.c and echsx.c each in a TU of their own (only `main' is global in them)
$(X)/c14_%.o: $(XH)/c14_%.c $(H)/vdrv.h $(RDEPS)
	@mkdir -p $(dir $@)
	$(CC) $(CPPF) $(XCF) -c $< -o $@
$(X)/c14_chain: $(X)/c14_chain.o $(X)/c14_hxq.o $(X)/c14_hxd.o $(X)/c14_hxx.o $(XLIB)
	$(CC) $(XCF) $(filter %.o,$^) $(XLOG) $(CPPF) $(XLIB) $(EVA) $(LDL) -o $@
