#!/usr/bin/env python3
"""C03, tool layer: the unmodified `echse unroll` binary (observation point "echse unroll of several files").

The library drivers of C03 start at the parser and the mux; what lies between the command line and the mux -- reading
the inputs in pieces (_inject_fd), the task table and the registry of streams that is handed to echs_evstrm_vmux
(put_task / add_strm / rem_strm / condense_strms in echse.c) -- is only reached through the tool.  Two families, both
exhaustive inside their bound, every case one (or two) runs of the real binary:

mode=reg   registry family.  Six events: a b c d with UIDs of their own and A B, which define the UIDs of a and b AGAIN
           with another schedule and another summary (all 11 instants pairwise distinct).  Every sequence of length
           1..len over these six letters, laid out over 1..3 calendar files in every way (every composition of the
           sequence into 1..3 non-empty consecutive parts; one part = all events in one calendar), is unrolled with
           --format '%b\\t%u\\t%s'.  Oracle (reference computed here, by date arithmetic): the occurrences of the LAST
           definition of every UID must each be delivered exactly once, starts non-decreasing, nothing may be delivered
           that no definition in the input produces.  Occurrences of an earlier definition of a UID that was defined
           again are the one thing left open (echse.c replaces the earlier definition; the property text does not ask
           for it): they are counted (counter stale), not reported.

mode=arr   arrival family.  One calendar text (6 events, rules, descriptions, one folded line; LF and CRLF variant) is
           given to `echse unroll` on stdin through a pipe in TWO pieces with the cut at EVERY byte position 0..len:
           piece 1 is in the pipe before echse is started, piece 2 is written only after FIONREAD on the pipe has
           gone to 0 (echse's read() has returned with exactly piece 1), then the pipe is closed.  The stream must be
           what the same bytes give as a regular file named on the command line (and as a regular file on stdin), and
           that must be the reference computed here.  big=1 adds a 70 KiB calendar (330 events; more than one buffer
           of echse) with cuts around 64 KiB, around every 4 KiB multiple and on a grid of 1013 bytes.

mode=files chunk family.  echse reads every input in pieces of 65536 bytes (_inject_fd), so a calendar LARGER than that is
           cut by echse itself, at fixed offsets, also when it is a regular file.  Calendars are built (filler events in
           front, sized to the byte) so that the line feed that ends -- or folds -- one chosen content line of a target
           event is byte number B+d of the text, B in {65536, 131072}, d in -3..+3 (d=0: the line feed is the last byte
           of a piece and the folding blank the first byte of the next).  The chosen line is an RDATE list, an RRULE with
           COUNT, the SUMMARY or DTSTART; it is unfolded, folded with SPACE or HTAB at a token boundary or inside a
           token, or folded twice (the second fold at the boundary); line ends LF and CRLF.  Every text is unrolled
           (1) as a FILE argument together with a second small calendar, (2) as a regular file on stdin, (3) on stdin
           through a pipe in two pieces cut at B+d.  Oracle: the reference computed here by date arithmetic (RFC 5545
           3.1: a line break followed by one blank is not there), each occurrence exactly once, in order.

options (--opt k=v):
  mode=reg|arr|files   family
  len=N            mode=reg: longest sequence (default 4)
  big=0|1          mode=arr: include the 70 KiB text (default 1)
  echse=PATH       binary under test (default /repo/src/echse)
  keep=1           keep the scratch directory
"""
import os, sys, signal, tempfile, shutil, time, fcntl, termios, struct, datetime, itertools
sys.path.insert(0, os.path.dirname(os.path.abspath(__file__)))
from e3lib import Drv

ENV = {'TZ': 'UTC', 'LC_ALL': 'C', 'PATH': '/usr/bin:/bin'}
FMT = '%b\t%u\t%s'
DEVNULL = os.open('/dev/null', os.O_RDWR)
T0 = datetime.datetime(2020, 1, 1)


# ------------------------------------------------------------------ running the tool

class Run:
    pass


_cur = [0, False]


def _alarm(sig, frm):
    _cur[1] = True
    if _cur[0] > 0:
        try:
            os.kill(_cur[0], signal.SIGKILL)
        except OSError:
            pass


def _spawn(echse, args, stdin_fd, outfn):
    ofd = os.open(outfn, os.O_WRONLY | os.O_CREAT | os.O_TRUNC, 0o600)
    fa = [(os.POSIX_SPAWN_DUP2, stdin_fd, 0), (os.POSIX_SPAWN_DUP2, ofd, 1), (os.POSIX_SPAWN_DUP2, DEVNULL, 2)]
    pid = os.posix_spawn(echse, ['echse', 'unroll', '--format', FMT] + args, ENV, file_actions=fa,
                         setsigdef=[signal.SIGPIPE])
    os.close(ofd)
    return pid


def _reap(pid, outfn, limit, st=None):
    r = Run()
    _cur[0], _cur[1] = pid, False
    if st is None:
        signal.setitimer(signal.ITIMER_REAL, limit)
        while True:
            try:
                _, st = os.waitpid(pid, 0)
                break
            except InterruptedError:
                continue
        signal.setitimer(signal.ITIMER_REAL, 0)
    _cur[0] = 0
    r.hang = _cur[1]
    r.status = 'sig%d' % os.WTERMSIG(st) if os.WIFSIGNALED(st) else 'exit%d' % os.WEXITSTATUS(st)
    with open(outfn, 'rb') as f:
        r.out = f.read()
    return r


def run_files(echse, files, outfn, limit):
    return _reap(_spawn(echse, list(files), DEVNULL, outfn), outfn, limit)


def run_stdin_file(echse, fn, outfn, limit):
    fd = os.open(fn, os.O_RDONLY)
    pid = _spawn(echse, [], fd, outfn)
    os.close(fd)
    return _reap(pid, outfn, limit)


def run_two_pieces(echse, p1, p2, outfn, limit):
    """piece 1 sits in the pipe when echse starts; piece 2 is written once the pipe is empty again"""
    rd, wr = os.pipe()
    if len(p1) + len(p2) > 60000:
        fcntl.fcntl(wr, fcntl.F_SETPIPE_SZ, 262144)
    if p1:
        os.write(wr, p1)
    pid = _spawn(echse, [], rd, outfn)
    os.close(rd)
    t1 = time.monotonic() + limit
    buf = bytearray(4)
    drained, st = False, None
    while time.monotonic() < t1:
        fcntl.ioctl(wr, termios.FIONREAD, buf)
        if struct.unpack('i', buf)[0] == 0:
            drained = True
            break
        wp, wst = os.waitpid(pid, os.WNOHANG)
        if wp == pid:
            # ended without taking what was in the pipe
            st = wst
            break
        time.sleep(0.0001)
    if drained and p2:
        try:
            os.write(wr, p2)
        except BrokenPipeError:
            # the reader has gone away; what it delivered is judged, not this
            pass
    os.close(wr)
    if st is None and not drained:
        os.kill(pid, signal.SIGKILL)
    r = _reap(pid, outfn, limit, st)
    r.hang = r.hang or (st is None and not drained)
    return r


# ------------------------------------------------------------------ reference

def ical_t(t):
    return t.strftime('%Y%m%dT%H%M%SZ')


def out_t(t):
    return t.strftime('%Y-%m-%dT%H:%M:%S')


class Ev:
    def __init__(self, uid, summ, start, step_h=0, count=1, extra=()):
        self.uid, self.summ, self.start, self.step_h, self.count, self.extra = uid, summ, start, step_h, count, extra

    def lines(self):
        l = ['BEGIN:VEVENT', 'UID:' + self.uid, 'SUMMARY:' + self.summ, 'DTSTART:' + ical_t(self.start)]
        if self.count > 1:
            if self.step_h % 24 == 0:
                d = self.step_h // 24
                l.append('RRULE:FREQ=DAILY;%sCOUNT=%d' % ('INTERVAL=%d;' % d if d > 1 else '', self.count))
            else:
                l.append('RRULE:FREQ=HOURLY;INTERVAL=%d;COUNT=%d' % (self.step_h, self.count))
        l.extend(self.extra)
        l.append('END:VEVENT')
        return l

    def occ(self):
        """(start, uid, summary) of every occurrence, by arithmetic"""
        return [(out_t(self.start + datetime.timedelta(hours=self.step_h * i)), self.uid, self.summ)
                for i in range(self.count)]


def calendar(evs, eol='\n'):
    l = ['BEGIN:VCALENDAR', 'VERSION:2.0', 'PRODID:-//verif//c03_cli//EN']
    for e in evs:
        l.extend(e.lines())
    l.append('END:VCALENDAR')
    return (eol.join(l) + eol).encode()


def h(n):
    return T0 + datetime.timedelta(hours=n)


def parse_out(out):
    """-> (list of (start, uid, summary), first malformed line or None)"""
    res = []
    for ln in out.decode('latin-1').split('\n'):
        if ln == '':
            continue
        f = ln.split('\t')
        if len(f) != 3 or len(f[0]) != 19:
            return res, ln
        res.append(tuple(f))
    return res, None


def judge(D, pre, shape, got, bad, must, may, uclass=None):
    """common clauses: must = occurrences that have to come exactly once, may = occurrences that may come"""
    nv = 0
    if bad is not None:
        D.viol('%s-format/%s' % (pre, shape), 'output line not of the form start<TAB>uid<TAB>summary: %r' % bad)
        nv += 1
    for i in range(1, len(got)):
        if got[i][0] < got[i - 1][0]:
            D.viol('%s-order/%s' % (pre, shape), '%s delivered after %s' % ('|'.join(got[i]), '|'.join(got[i - 1])))
            nv += 1
            break
    seen = {}
    for g in got:
        seen[g] = seen.get(g, 0) + 1
    lost = [m for m in must if m not in seen]
    if lost:
        cl = sorted(set(uclass(m) for m in lost)) if uclass else []
        D.viol('%s-lost/%s%s' % (pre, ('uid=' + '+'.join(cl) + '/') if cl else '', shape),
               '%d of %d occurrences not delivered, first %s; delivered: %s'
               % (len(lost), len(must), '|'.join(lost[0]), ' '.join('|'.join(g) for g in got)[:600]))
        nv += 1
    dup = [g for g in seen if seen[g] > 1]
    if dup:
        D.viol('%s-dup/%s' % (pre, shape), '%s delivered %d times' % ('|'.join(dup[0]), seen[dup[0]]))
        nv += 1
    mset, yset = set(must), set(may)
    extra = [g for g in got if g not in mset and g not in yset]
    if extra:
        D.viol('%s-extra/%s' % (pre, shape), 'delivered but produced by no input: %s' % '|'.join(extra[0]))
        nv += 1
    return nv, sum(1 for g in got if g in yset and g not in mset)


# ------------------------------------------------------------------ registry family

LETTERS = 'abcdAB'
REG = {
    'a': Ev('a@c03', 'a1', h(0), 24, 3),      # 01-01 00:00, 01-02 00:00, 01-03 00:00
    'b': Ev('b@c03', 'b1', h(36), 24, 2),     # 01-02 12:00, 01-03 12:00
    'c': Ev('c@c03', 'c1', h(54)),            # 01-03 06:00
    'd': Ev('d@c03', 'd1', h(18), 48, 2),     # 01-01 18:00, 01-03 18:00
    'A': Ev('a@c03', 'a2', h(27), 24, 2),     # 01-02 03:00, 01-03 03:00
    'B': Ev('b@c03', 'b2', h(9)),             # 01-01 09:00
}


def compositions(n, maxparts=3):
    """cut points of every composition of n into 1..maxparts consecutive non-empty parts, fewest parts first"""
    out = []
    for k in range(1, min(n, maxparts) + 1):
        for cuts in itertools.combinations(range(1, n), k - 1):
            out.append(cuts)
    return out


def reg_cases(maxlen):
    for n in range(1, maxlen + 1):
        comps = compositions(n)
        for seq in itertools.product(LETTERS, repeat=n):
            for cuts in comps:
                yield seq, cuts


def redef_class(seq):
    """none: every UID defined once; adj: a UID is defined again, always directly after its previous definition;
    gap: a UID is defined again after an event of another UID was read in between"""
    cls = 'none'
    last = {}
    for i, x in enumerate(seq):
        u = REG[x].uid
        if u in last:
            if last[u] == i - 1:
                if cls == 'none':
                    cls = 'adj'
            else:
                cls = 'gap'
        last[u] = i
    return cls


def reg_case(D, echse, base, seq, cuts, limit):
    b = (0,) + tuple(cuts) + (len(seq),)
    parts = [seq[b[i]:b[i + 1]] for i in range(len(b) - 1)]
    D.desc('echse unroll --format %%b\\t%%u\\t%%s %s   (a b c d: four UIDs; A B: UID of a / b defined again)'
           % ' '.join('{' + ' '.join(p) + '}.ics' for p in parts))
    files = []
    for i, p in enumerate(parts):
        fn = os.path.join(base, 'f%d.ics' % i)
        with open(fn, 'wb') as f:
            f.write(calendar([REG[x] for x in p]))
        files.append(fn)
    r = run_files(echse, files, os.path.join(base, 'out'), limit)
    lastdef, ndef = {}, {}
    for x in seq:
        lastdef[REG[x].uid] = x
        ndef[REG[x].uid] = ndef.get(REG[x].uid, 0) + 1
    must = sorted(o for x in set(lastdef.values()) for o in REG[x].occ())
    may = [o for x in set(seq) if lastdef[REG[x].uid] != x for o in REG[x].occ()]
    cls = redef_class(seq)
    shape = 'redef=%s/files=%s' % (cls, '1' if len(parts) == 1 else 'n')
    if len(lastdef) >= 2 and cls != 'none':
        D.nontrivial()
    if r.hang:
        D.viol('cli-hang/' + shape, 'echse unroll did not end within %g s' % limit)
        return
    if r.status != 'exit0':
        D.viol('cli-exit/%s/%s' % (r.status, shape), 'echse unroll ended with %s' % r.status)
        return
    got, bad = parse_out(r.out)
    nv, stale = judge(D, 'cli', shape, got, bad, must, may,
                      uclass=lambda m: 'redefined' if ndef[m[1]] > 1 else 'single')
    if stale:
        D.count('stale', stale)
    D.count('runs')
    D.count('occurrences', len(got))
    if cls == 'gap' and not nv:
        D.sample('%s -> %s' % (' '.join('{' + ' '.join(p) + '}' for p in parts), ' '.join(g[0][5:16] + '/' + g[2] for g in got)))


# ------------------------------------------------------------------ arrival family

def arr_events():
    return [
        Ev('arr-1@c03', 'morning round', h(6), 24, 4, ('DESCRIPTION:first line of the description', 'LOCATION:yard')),
        Ev('arr-2@c03', 'backup', h(3), 7, 5, ('DESCRIPTION:every seven hours',)),
        Ev('arr-3@c03', 'single shot', h(50), 0, 1, ('DESCRIPTION:a description long enough to be folded by a produ',
                                                      ' cer that folds at seventy-five octets',)),
        Ev('arr-4@c03', 'every other day', h(13), 48, 3, ('LOCATION:cellar', 'CATEGORIES:x')),
        Ev('arr-5@c03', 'late', h(95), 24, 2, ()),
        Ev('arr-6@c03', 'last one in the file', h(1), 72, 2, ('DESCRIPTION:ends the calendar',)),
    ]


def big_events():
    # 330 events, 3 daily occurrences each, all starts distinct (one per minute), 70 KiB of text
    return [Ev('big-%03d@c03' % i, 'big %03d' % i, T0 + datetime.timedelta(minutes=(i * 37) % 331), 24, 3,
               ('DESCRIPTION:' + 'filler %03d ' % i * 9, 'LOCATION:row %d' % i))
            for i in range(330)]


def big_cuts(n):
    s = set()
    for k in range(4096, n, 4096):
        s.update((k - 1, k, k + 1))
    s.update(range(65536 - 48, 65536 + 49))
    s.update(range(0, n, 1013))
    s.add(n)
    return sorted(x for x in s if 0 <= x <= n)


def cut_class(text, cut):
    """where the cut falls: head = before the first event begins, tail = after the last event has ended,
    between = on the boundary of two events, in-event = anywhere else"""
    first = text.index(b'BEGIN:VEVENT')
    endl = text.rindex(b'END:VEVENT')
    endl = text.index(b'\n', endl) + 1
    if cut <= first:
        return 'head'
    if cut >= endl:
        return 'tail'
    if text[cut:cut + 12] == b'BEGIN:VEVENT':
        return 'between'
    return 'in-event'


def arr_variants(big):
    v = [('lf', arr_events(), '\n', None), ('crlf', arr_events(), '\r\n', None)]
    if big:
        v.append(('big', big_events(), '\n', big_cuts))
    return v


def arr_ref_case(D, echse, base, name, text, must, limit):
    """the text as a regular file (argument and stdin) must give the reference; returns the parsed file output"""
    D.desc('variant %s (%d bytes): echse unroll FILE, echse unroll < FILE' % (name, len(text)))
    fn = os.path.join(base, 'whole.ics')
    with open(fn, 'wb') as f:
        f.write(text)
    for how, r in (('arg', run_files(echse, [fn], os.path.join(base, 'out'), limit)),
                   ('stdin', run_stdin_file(echse, fn, os.path.join(base, 'out'), limit))):
        shape = 'text=%s/regular-file-%s' % (name, how)
        if r.hang or r.status != 'exit0':
            D.viol('arr-exit/%s/%s' % ('hang' if r.hang else r.status, shape), 'echse unroll ended with %s' % r.status)
            continue
        got, bad = parse_out(r.out)
        judge(D, 'arr-precond', shape, got, bad, must, [])
    D.nontrivial()


def arr_case(D, echse, base, name, text, cut, must, limit):
    D.desc('variant %s (%d bytes) on stdin through a pipe: bytes [0,%d) in the pipe at start, bytes [%d,%d) written after '
           'echse has taken the first piece; piece 1 ends with %r' % (name, len(text), cut, cut, len(text), text[max(0, cut - 24):cut]))
    r = run_two_pieces(echse, text[:cut], text[cut:], os.path.join(base, 'out'), limit)
    shape = 'text=%s/cut=%s' % (name, cut_class(text, cut))
    if 0 < cut < len(text):
        D.nontrivial()
    D.count('runs')
    if r.hang:
        D.viol('arr-hang/' + shape, 'echse unroll did not take its input or did not end within %g s' % limit)
        return
    if r.status != 'exit0':
        D.viol('arr-exit/%s/%s' % (r.status, shape), 'echse unroll ended with %s' % r.status)
        return
    got, bad = parse_out(r.out)
    nv, _ = judge(D, 'arr', shape, got, bad, must, [])
    D.count('occurrences', len(got))
    if not nv and cut_class(text, cut) == 'in-event' and cut % 97 == 0:
        D.sample('%s cut=%d -> %d occurrences, as from the regular file' % (name, cut, len(got)))


# ------------------------------------------------------------------ chunk family (mode=files)

CHUNK = 65536                       # sizeof(buf) in _inject_fd() of echse.c: the piece size for every kind of input
FIL_BOUNDS = (CHUNK, 2 * CHUNK)
FIL_DELTAS = (-3, -2, -1, 0, 1, 2, 3)
FIL_EOLS = (('lf', '\n'), ('crlf', '\r\n'))
# (name, blank of the fold at the boundary, where: 0 = token boundary / 1 = inside a token, an earlier fold as well)
FIL_FORMS = (('none', None, None, False), ('sp-tok', ' ', 0, False), ('tab-tok', '\t', 0, False),
             ('sp-mid', ' ', 1, False), ('tab-mid', '\t', 1, False), ('two', ' ', 1, True))
TGT_UID, TGT_SUMM = 'target@c03', 'target summary'


def _d9(day):
    return datetime.datetime(2020, 1, day, 9, 0, 0)


# target line in three parts s0 s1 s2: fold 0 lies between s0 and s1 (a token boundary), fold 1 between s1 and s2 (inside
# a token); 'more' = further lines of the event; 'occ' = the instants of the event, by arithmetic
FIL_TARGETS = (
    ('rdate', ('RDATE:20200102T090000Z,20200103T090000Z', ',20200104T09', '0000Z,20200105T090000Z'), (),
     [_d9(2), _d9(3), _d9(4), _d9(5)]),
    ('rrule', ('RRULE:FREQ=DAILY;COUNT=4', ';INTER', 'VAL=2'), (),
     [_d9(2), _d9(4), _d9(6), _d9(8)]),
    ('summary', ('SUMMARY:target', ' sum', 'mary'), ('RRULE:FREQ=DAILY;COUNT=2',),
     [_d9(2), _d9(3)]),
    ('dtstart', ('DTSTART:', '20200102T09', '0000Z'), ('RRULE:FREQ=DAILY;COUNT=2',),
     [_d9(2), _d9(3)]),
)


def fil_filler(i, k):
    t = datetime.datetime(2019, 12, 31) + datetime.timedelta(minutes=i)
    return Ev('fil-%04d@c03' % i, 'filler %04d' % i, t, 24, 2, ('DESCRIPTION:' + 'x' * k,))


def fil_text(tgt, form, eol, T):
    """-> (text, events-by-arithmetic) with the line feed that ends/folds the target line as byte number T (1-based)"""
    tname, (s0, s1, s2), more, tocc = tgt
    fname, blank, where, two = form
    # the target line as physical lines; the LAST break inside `upto' is the one put on the boundary
    if blank is None:
        upto, rest = s0 + s1 + s2 + eol, ''
    elif where == 0:
        upto, rest = s0 + eol, blank + s1 + s2 + eol
    elif two:
        upto, rest = s0 + eol + ' ' + s1 + eol, blank + s2 + eol
    else:
        upto, rest = s0 + s1 + eol, blank + s2 + eol
    # the event is UID, SUMMARY, DTSTART, rule or dates, LOCATION; the chosen line stands at its place in that order
    key = s0.split(':')[0]
    before = ['BEGIN:VEVENT', 'UID:' + TGT_UID]
    after = []
    if key == 'SUMMARY':
        after.append('DTSTART:20200102T090000Z')
    elif key == 'DTSTART':
        before.append('SUMMARY:' + TGT_SUMM)
    else:
        before.extend(['SUMMARY:' + TGT_SUMM, 'DTSTART:20200102T090000Z'])
    after = after + list(more) + ['LOCATION:shed', 'END:VEVENT']
    tail_ev = Ev('after@c03', 'after the target', h(30), 24, 3, ('DESCRIPTION:follows the target event',))
    head = 'BEGIN:VCALENDAR' + eol + 'VERSION:2.0' + eol + 'PRODID:-//verif//c03_cli//EN' + eol
    tpre = ''.join(l + eol for l in before) + upto
    tpost = rest + ''.join(l + eol for l in after + tail_ev.lines() + ['END:VCALENDAR'])
    need = T - len(head) - len(tpre)
    base = len(''.join(l + eol for l in fil_filler(0, 0).lines()))
    n = need // (base + 60)
    rem = need - n * base
    fillers = [fil_filler(i, rem // n + (1 if i < rem % n else 0)) for i in range(n)]
    text = (head + ''.join(l + eol for f in fillers for l in f.lines()) + tpre + tpost).encode()
    # what was asked for is what was built
    assert text[T - 1:T] == b'\n' and len(text) > T
    assert (blank is None and text[T:T + 1] not in b' \t') or (blank is not None and text[T:T + 1] == blank.encode())
    assert b'\\' not in text and max(len(l) for l in text.split(b'\n')) < 1000 and text.endswith(('END:VCALENDAR' + eol).encode())
    occ = [(out_t(t), TGT_UID, TGT_SUMM) for t in tocc]
    for e in fillers + [tail_ev]:
        occ.extend(e.occ())
    return text, sorted(occ)


def fil_cases():
    for B in FIL_BOUNDS:
        for tgt in FIL_TARGETS:
            for form in FIL_FORMS:
                for eol in FIL_EOLS:
                    for d in FIL_DELTAS:
                        yield B, tgt, form, eol, d


def fil_case(D, echse, base, B, tgt, form, eol, d, limit):
    T = B + d
    text, must = fil_text(tgt, form, eol[1], T)
    small_ev = Ev('other@c03', 'other file', h(60), 24, 3)
    D.desc('calendar of %d bytes (%s line ends; %d filler events, then the target event, then one more event): the %s line of the '
           'target event is %s and the line feed of that break is byte %d+(%d) of the text, i.e. bytes %d.. are %r; echse '
           'cuts every input at multiples of %d.  Runs: echse unroll big.ics small.ics | echse unroll < big.ics | '
           'big.ics through a pipe in two pieces cut at byte %d  (rebuild the file with --only IDX --opt keep=1)'
           % (len(text), eol[0], text.count(b'UID:fil-'), tgt[0],
              {'none': 'not folded', 'sp-tok': 'folded with SPACE at a token boundary', 'tab-tok': 'folded with HTAB at a token boundary',
               'sp-mid': 'folded with SPACE inside a token', 'tab-mid': 'folded with HTAB inside a token',
               'two': 'folded twice with SPACE (the second break is the one meant)'}[form[0]],
              B, d, T - 3, text[T - 4:T + 4], CHUNK, T))
    desc0 = D.cdesc
    fn, sfn, outfn = os.path.join(base, 'big.ics'), os.path.join(base, 'small.ics'), os.path.join(base, 'out')
    with open(fn, 'wb') as f:
        f.write(text)
    with open(sfn, 'wb') as f:
        f.write(calendar([small_ev], eol[1]))
    D.nontrivial()
    fold = 'none' if form[1] is None else 'two' if form[3] else 'blank'
    brk = 'at-chunk-end' if d == 0 else 'near-chunk-end'
    nv = 0
    for how, cls, run, mst in (
            ('arg+small', 'file', lambda: run_files(echse, [fn, sfn], outfn, limit), sorted(must + small_ev.occ())),
            ('stdin-file', 'file', lambda: run_stdin_file(echse, fn, outfn, limit), must),
            ('pipe-cut', 'pipe', lambda: run_two_pieces(echse, text[:T], text[T:], outfn, limit), must)):
        # the cut of the pipe falls right behind the line feed whatever d is (echse's own cut is d bytes from it)
        shape = 'line=%s/fold=%s/brk=%s/how=%s' % (tgt[0], fold, 'at-pipe-cut' if cls == 'pipe' else brk, cls)
        D.desc(desc0 + '  [this run: %s]' % how)
        r = run()
        D.count('runs')
        if r.hang:
            D.viol('files-hang/' + shape, '%s: echse unroll did not take its input or did not end within %g s' % (how, limit))
            nv += 1
            continue
        if r.status != 'exit0':
            D.viol('files-exit/%s/%s' % (r.status, shape), '%s: echse unroll ended with %s' % (how, r.status))
            nv += 1
            continue
        got, bad = parse_out(r.out)
        n, _ = judge(D, 'files', shape, got, bad, mst, [], uclass=lambda m: 'target' if m[1] == TGT_UID else 'other')
        nv += n
        D.count('occurrences', len(got))
    if not nv and d == 0 and form[0] in ('sp-tok', 'two'):
        D.sample('%s/%s/%s line feed = byte %d of %d: %d occurrences in each of the three readings (+3 from the second file)'
                 % (tgt[0], form[0], eol[0], T, len(text), len(must)))


# ------------------------------------------------------------------ main

def main():
    D = Drv()
    echse = D.opt('echse', '/repo/src/echse')
    mode = D.opt('mode', 'reg')
    limit = D.case_timeout if D.case_timeout < 60 else 20.0
    if not os.access(echse, os.X_OK):
        sys.stderr.write('c03_cli: %s missing\n' % echse)
        return 2
    signal.signal(signal.SIGALRM, _alarm)
    tmp = '/dev/shm' if os.path.isdir('/dev/shm') and os.access('/dev/shm', os.W_OK) else '/tmp'
    base = tempfile.mkdtemp(prefix='c03cli_', dir=tmp)
    try:
        if mode == 'reg':
            for seq, cuts in reg_cases(int(D.opt('len', '4'))):
                if not D.next():
                    continue
                reg_case(D, echse, base, seq, cuts, limit)
                if D.stop():
                    break
        elif mode == 'arr':
            for name, evs, eol, cutf in arr_variants(D.opt('big', '1') != '0'):
                text = calendar(evs, eol)
                must = sorted(o for e in evs for o in e.occ())
                if D.next():
                    arr_ref_case(D, echse, base, name, text, must, limit)
                for cut in (cutf(len(text)) if cutf else range(len(text) + 1)):
                    if not D.next():
                        continue
                    arr_case(D, echse, base, name, text, cut, must, limit)
                    if D.stop():
                        break
                if D.stop():
                    break
        elif mode == 'files':
            limit = min(limit, 8.0)
            for B, tgt, form, eol, d in fil_cases():
                if not D.next():
                    continue
                fil_case(D, echse, base, B, tgt, form, eol, d, limit)
                if D.stop():
                    break
        else:
            sys.stderr.write('c03_cli: unknown mode %s\n' % mode)
            return 2
    finally:
        if not D.opt('keep'):
            shutil.rmtree(base, ignore_errors=True)
    D.summary()
    return 0


if __name__ == '__main__':
    sys.exit(main())
