/* c14_hxq.c -- echsq.c in a TU of its own, main renamed */
#include "c14_hx.h"
#define main	echsq_main
#include "echsq.c"
#undef main

int
hxq_add(int tgt_fd, int src_fd)
{
	/* cmd_add() minus option parsing and the connect */
	echs_icalify_init(tgt_fd, (echs_instruc_t){INSVERB_SCHE});
	add_fd(tgt_fd, src_fd);
	echs_icalify_fini(tgt_fd);
	return 0;
}
