/* mailrec.c -- stand-in for /usr/sbin/sendmail (engine E3)
 * usage: mailrec RECFILE [original sendmail argv...]
 * Each invocation creates RECFILE.<n> (first free n, O_EXCL), writes one line
 * with the original argv joined by \x1f and then everything it reads on
 * stdin, byte for byte.  The number of RECFILE.* files is the number of
 * mails sent.  $E3_MAILDELAY=<seconds> makes it dawdle first. */
#include <stdio.h>
#include <stdlib.h>
#include <string.h>
#include <unistd.h>
#include <fcntl.h>
#include <errno.h>
#include <time.h>
#include <signal.h>

int
main(int argc, char *argv[])
{
	static char buf[1 << 16];
	char fn[4096];
	int fd = -1;
	ssize_t n;

	if (argc < 2) {
		return 64;
	}
	{
		/* like a real mailer: start from a clean signal mask and default dispositions,
		 * whatever the caller had blocked */
		sigset_t none;
		sigemptyset(&none);
		sigprocmask(SIG_SETMASK, &none, NULL);
	}
	if (getenv("E3_MAILDELAY") != NULL) {
		/* a busy mailer: still running when the job's time limit runs out */
		struct timespec ts = {atoi(getenv("E3_MAILDELAY")), 0};
		while (nanosleep(&ts, &ts) < 0 && errno == EINTR);
	}
	for (int i = 0; i < 1000; i++) {
		snprintf(fn, sizeof(fn), "%s.%d", argv[1], i);
		if ((fd = open(fn, O_WRONLY | O_CREAT | O_EXCL, 0600)) >= 0 || errno != EEXIST) {
			break;
		}
	}
	if (fd < 0) {
		return 73;
	}
	for (int i = 2; i < argc; i++) {
		if (write(fd, argv[i], strlen(argv[i])) < 0 || write(fd, i + 1 < argc ? "\x1f" : "", i + 1 < argc) < 0) {
			return 74;
		}
	}
	if (write(fd, "\n", 1) < 0) {
		return 74;
	}
	while ((n = read(0, buf, sizeof(buf))) != 0) {
		if (n < 0) {
			if (errno == EINTR) {
				continue;
			}
			return 74;
		}
		for (ssize_t o = 0, w; o < n; o += w) {
			if ((w = write(fd, buf + o, n - o)) < 0) {
				return 74;
			}
		}
	}
	close(fd);
	if (getenv("E3_MAILEXIT") != NULL) {
		/* a mailer that takes the message and then reports a temporary failure (EX_TEMPFAIL) */
		return atoi(getenv("E3_MAILEXIT"));
	}
	return 0;
}
