#!/usr/bin/env python3
"""C13, controlled layer: schedule exploration of echsx's own event loop.

build/plain/exec/c13_ctl holds the unmodified echsx.c with real libev; the job is a script the
harness plays between the polls of echsx's loop (see c13_ctl.c).  This driver enumerates, per
routing row, every order-preserving interleaving of <= NO stdout chunks (O), <= NE stderr chunks
(E) and the final exit (X), every way of cutting that sequence into batches (one batch per poll),
and the chunk-size combinations; each schedule runs in a process of its own and is judged by the
same oracle as the real-process layer (e3lib.judge).

options (--opt k=v):
  no=, ne=       max chunks per stream (default 2, 2)
  sizes=uniform|all   (so, se) in {1, 4096, 65536}: equal sizes only, or all 9 pairs
  rows=pipe|all  pipe rows (R5 R9 R14 R15 R17 N1) only, or also the 18 pipe-less rows with <= 1+1 chunks
  bdir=DIR       where c13_ctl and mailrec live (default <V>/build/plain/exec)
  batch=N        schedules per c13_ctl invocation (default 48)
  keep=1
"""
import os, sys, subprocess, tempfile, shutil, time, itertools
sys.path.insert(0, os.path.dirname(os.path.abspath(__file__)))
import e3lib
from e3lib import Drv, rows, row_paths, vtodo, rd, judge, split_mail, shim_events, ORG, ATT, PIPE_ROWS

STATUSES = ((0, ('exit', 0)), (768, ('exit', 3)), (15, ('signal', 15)), (9, ('signal', 9)))
CMD = 'scripted job'


def interleavings(no, ne):
    """all words with no O's and ne E's, lexicographic (E < O)"""
    if no == 0 and ne == 0:
        yield ''
        return
    if ne:
        for w in interleavings(no, ne - 1):
            yield 'E' + w
    if no:
        for w in interleavings(no - 1, ne):
            yield 'O' + w


def schedules(NO, NE):
    """scripts: every interleaving + X, every composition into batches; shortest first"""
    words = []
    for n in range(NO + NE + 1):
        for no in range(min(n, NO), -1, -1):
            ne = n - no
            if ne > NE or ne < 0:
                continue
            words += list(interleavings(no, ne))
    for w in words:
        acts = w + 'X'
        m = len(acts) - 1
        for cut in range(1 << m):
            s = acts[0]
            for i in range(m):
                if cut >> i & 1:
                    s += '|'
                s += acts[i + 1]
            yield s


def cases(D):
    NO, NE = int(D.opt('no', '2')), int(D.opt('ne', '2'))
    S = (1, 4096, 65536)
    sizes = [(a, b) for a in S for b in S] if D.opt('sizes', 'uniform') == 'all' else [(a, a) for a in S]
    R = rows()
    full = list(schedules(NO, NE))
    small = list(schedules(1, 1))
    for r in R:
        if r['name'] in PIPE_ROWS:
            for k, sc in enumerate(full):
                for sz in sizes:
                    yield r, sc, sz, STATUSES[k % 4]
    if D.opt('rows', 'pipe') == 'all':
        for r in R:
            if r['name'] not in PIPE_ROWS:
                for k, sc in enumerate(small):
                    yield r, sc, (4096, 4096), STATUSES[k % 4]


def main():
    D = Drv()
    bdir = D.opt('bdir', os.path.join(e3lib.V, 'build', 'plain', 'exec'))
    ctl, rec = os.path.join(bdir, 'c13_ctl'), os.path.join(bdir, 'mailrec')
    for f in (ctl, rec):
        if not os.path.exists(f):
            sys.stderr.write('c13_ctl.py: %s missing\n' % f)
            return 2
    nbatch = int(D.opt('batch', '48'))
    base = tempfile.mkdtemp(prefix='e3c_', dir='/tmp')
    uid = os.getuid()
    pend = []
    try:
        for row, sc, sz, st in cases(D):
            if not D.next():
                continue
            pend.append((D.idx, row, sc, sz, st))
            if len(pend) >= nbatch:
                run_batch(D, base, pend, ctl, rec, uid)
                pend = []
            if D.stop():
                break
        if pend:
            run_batch(D, base, pend, ctl, rec, uid)
    finally:
        if not D.opt('keep'):
            shutil.rmtree(base, ignore_errors=True)
    D.summary()
    return 0


def run_batch(D, base, pend, ctl, rec, uid):
    lines = []
    for idx, row, sc, sz, st in pend:
        d = os.path.join(base, '%d' % idx)
        os.makedirs(os.path.join(d, 'run'))
        with open(os.path.join(d, 'req.ics'), 'w') as f:
            f.write(vtodo('c13c-%d' % idx, CMD, row, d, uid, {'shell': '/bin/sh'}))
        lines.append('%s\t%s\t%d\t%d\t%d\n' % (d, sc, sz[0], sz[1], st[0]))
    t0 = int(time.time())
    try:
        p = subprocess.run([ctl, rec], input=''.join(lines).encode(), stdout=subprocess.PIPE,
                           stderr=subprocess.PIPE, timeout=25 * len(pend) + 60)
    except subprocess.TimeoutExpired:
        sys.stderr.write('c13_ctl.py: helper timed out on a batch starting at %d\n' % pend[0][0])
        sys.exit(2)
    t1 = int(time.time())
    if p.returncode != 0:
        sys.stderr.write('c13_ctl.py: helper failed rc=%d: %s\n' % (p.returncode, p.stderr.decode('latin-1')[-500:]))
        sys.exit(2)
    wst = {}
    for ln in p.stdout.decode().splitlines():
        dd, _, s = ln.rpartition('\t')
        wst[dd] = int(s)
    save = D.idx
    for idx, row, sc, sz, st in pend:
        D.idx = idx
        d = os.path.join(base, '%d' % idx)
        judge_case(D, d, idx, row, sc, sz, st, wst.get(d), t0, t1, uid)
        if not D.opt('keep'):
            shutil.rmtree(d, ignore_errors=True)
    D.idx = save


def judge_case(D, d, idx, row, sc, sz, st, wstatus, t0, t1, uid):
    no, ne = sc.count('O'), sc.count('E')
    D.desc('row %s (OFILE=%s EFILE=%s MAIL-OUT=%d MAIL-ERR=%d) script %s (O = %d bytes to stdout, E = %d bytes to '
           'stderr, | = echsx polls, X = exit with wait status %d)' % (row['name'], row['out'], row['err'], row['mo'],
                                                                        row['me'], sc, sz[0], sz[1], st[0]))
    # shape: row, whether the exit shares a poll with the last write, largest chunk in play
    shape = '%s/%s' % (row['name'], 'batched-exit' if not sc.endswith('|X') and len(sc) > 1 else 'polled-exit')
    big = max([sz[0]] * bool(no) + [sz[1]] * bool(ne) + [0])
    shape += '/' + {0: 'nochunk', 1: 'c1', 4096: 'c4k', 65536: 'c64k'}[big]
    if wstatus is None:
        D.viol('harness/no-result', 'helper printed no result for this case')
        return
    log = (rd(os.path.join(d, 'ctl.log')) or b'').decode('latin-1').split('\n')
    if wstatus & 0x7f:
        # a run that was killed never reached its own clean-up
        for e in shim_events(rd(os.path.join(d, 'shim.log'))):
            if e.startswith('mkstemp fd=') and not e.startswith('mkstemp fd=-'):
                try:
                    os.unlink(e.split('path=', 1)[1])
                except OSError:
                    pass
    if wstatus & 0x7f == 9:
        D.viol('hang/%s' % shape, 'echsx made no end of the schedule (killed by the watchdog); the script got as far as %r' % (
            [l for l in log if l.startswith('write to')] or 'blocked in a write nobody reads',))
        return
    if wstatus & 0x7f:
        D.viol('echsx-died/%s' % shape, 'echsx itself was killed by signal %d; stderr: %r' % (
            wstatus & 0x7f, (rd(os.path.join(d, 'echsx.err')) or b'')[-300:]))
    fin = [l for l in log if l.startswith('polls ')]
    if not (wstatus & 0x7f) and not (fin and fin[0].endswith("rest `X' exited 1 fed 1")):
        D.viol('harness/script-incomplete', 'the script was not played to its end: %r' % (fin or log[-3:],))
        return
    out, err = rd(os.path.join(d, 'exp.out')) or b'', rd(os.path.join(d, 'exp.err')) or b''
    if not (wstatus & 0x7f) and (len(out), len(err)) != (no * sz[0], ne * sz[1]):
        D.viol('harness/job-output', 'job wrote %d/%d bytes, script says %d/%d' % (len(out), len(err), no * sz[0], ne * sz[1]))
    of, ef = row_paths(row, d)
    R = {'of': rd(of) if of else None, 'ef': rd(ef) if ef else None, 't0': t0, 't1': t1,
         'journal': rd(os.path.join(d, 'journal')), 'stray': []}
    for name in ('F1', 'F2'):
        fn = os.path.join(d, name)
        if fn not in (of, ef) and os.path.exists(fn):
            R['stray'].append(name)
    R['mails'] = []
    for i in range(1000):
        b = rd(os.path.join(d, 'mail.%d' % i))
        if b is None:
            break
        R['mails'].append(split_mail(b))
    ev = shim_events(rd(os.path.join(d, 'shim.log')))
    made = [e.split('path=', 1)[1] for e in ev if e.startswith('mkstemp fd=') and not e.startswith('mkstemp fd=-')]
    R['tmp_left'] = [p_ for p_ in made if os.path.exists(p_)]
    for p_ in R['tmp_left']:
        try:
            os.unlink(p_)
        except OSError:
            pass
    R['count'] = sum(1 for l in log if l == 'spawn-job')
    g = lambda k: next((l[len(k) + 1:] for l in log if l.startswith(k + ' ')), None)
    R['cwd'] = g('cwd')
    R['umask'] = int(g('umask') or '-1', 8) if g('umask') else -1
    R['stdin'] = b''
    R['shell_log'] = [g('path')] + [l[4:] for l in log if l.startswith('arg ')][1:]
    exp = {'row': row, 'out': out, 'err': err, 'cmd': CMD, 'uid': 'c13c-%d' % idx, 'status': st[1],
           'mail': bool(row['mo'] or row['me']), 'org': ORG, 'att': [ATT], 'want_count': 1,
           'want_cwd': os.path.join(d, 'run'), 'want_umask': 0o022, 'want_stdin': b'',
           'want_shell': ['/bin/sh', '-c', CMD]}
    bad = 0
    for clause, detail in judge(R, exp):
        bad += 1
        sig = '%s/%s' % (clause, shape)
        if clause in ('journal-status', 'mail-status'):
            sig += '/' + '%s%d' % st[1]
        D.viol(sig, detail)
    if no + ne >= 1 and fin:
        D.nontrivial()
    # the schedule tree: a node is a script prefix; prefix p has the two leaves pX and p|X (the empty prefix one)
    if not sc.endswith('|X'):
        D.count('ctl_states')
    D.count('ctl_traces')
    D.count('ctl_transitions', no + ne + 1 + sc.count('|'))
    if fin:
        w = fin[0].split()
        D.count('ctl_loop_iterations', int(w[1]))
        D.count('ctl_blocked_writes', int(w[3]))
    if not bad:
        D.sample('row %s script %s sizes %d/%d status %s: %d+%d bytes routed, %d mail(s), %s' % (
            row['name'], sc, sz[0], sz[1], '%s %d' % st[1], len(out), len(err), len(R['mails']), fin[0] if fin else ''))


if __name__ == '__main__':
    sys.exit(main())
