"""e3lib -- shared parts of the E3 (echsx runner) drivers

* Drv: the vcheck line protocol for a Python driver (same keys as vdrv.h's
  vd_summary / vd_emit_viol), sharding by case index, --only, --opt k=v,
  --deadline.
* the routing table of C13 (24 configurations), the VTODO writer and the
  oracle that judges one finished run from the files it left behind.  The
  oracle is written from the README's description of the X-ECHS-* fields, not
  from echsx.c's descriptor plan.
"""
import os, sys, json, time, re, calendar

V = os.path.dirname(os.path.dirname(os.path.dirname(os.path.abspath(__file__))))
KEEP = 3


class Drv:
    def __init__(self, argv=None):
        argv = sys.argv[1:] if argv is None else argv
        self.shard, self.nshard, self.only = 0, 1, -1
        self.opts = {}
        self.deadline = 0.0
        self.case_timeout = 60.0
        self.maxsamples = 4
        i = 0
        while i < len(argv):
            a = argv[i]
            if a == '--shard':
                s, n = argv[i + 1].split('/')
                self.shard, self.nshard = int(s), int(n)
                i += 2
            elif a == '--only':
                self.only = int(argv[i + 1])
                i += 2
            elif a == '--opt':
                k, _, v = argv[i + 1].partition('=')
                self.opts[k] = v
                i += 2
            elif a == '--deadline':
                self.deadline = time.monotonic() + float(argv[i + 1])
                i += 2
            elif a == '--case-timeout':
                self.case_timeout = float(argv[i + 1])
                i += 2
            elif a == '--samples':
                self.maxsamples = int(argv[i + 1])
                i += 2
            else:
                sys.stderr.write('e3lib: unknown argument %s\n' % a)
                sys.exit(2)
        if self.only >= 0:
            self.maxsamples = 0
        self.idx = -1
        self.evals = self.nontriv = self.nviol = self.nsample = 0
        self.capped = False
        self.counters, self.sigs = {}, {}
        self.cdesc = ''

    def opt(self, k, d=None):
        return self.opts.get(k, d)

    def next(self):
        self.idx += 1
        if self.only >= 0:
            if self.idx != self.only:
                return False
        else:
            if self.idx % self.nshard != self.shard or self.capped:
                return False
            if self.deadline and time.monotonic() > self.deadline:
                self.capped = True
                return False
        self.evals += 1
        self.cdesc = ''
        return True

    def stop(self):
        return self.capped or (self.only >= 0 and self.idx >= self.only)

    def desc(self, s):
        self.cdesc = s

    def nontrivial(self):
        self.nontriv += 1

    def count(self, name, by=1):
        self.counters[name] = self.counters.get(name, 0) + by

    def viol(self, sig, detail):
        sig = re.sub(r'[,\s]+', '_', sig)[:199]
        self.nviol += 1
        self.sigs[sig] = self.sigs.get(sig, 0) + 1
        if self.sigs[sig] > KEEP and self.only < 0:
            return
        print(json.dumps({'t': 'viol', 'sig': sig, 'idx': self.idx, 'case': self.cdesc[:2000],
                          'detail': detail[:2000]}), flush=True)

    def sample(self, text):
        if self.nsample >= self.maxsamples:
            return
        self.nsample += 1
        print(json.dumps({'t': 'sample', 'idx': self.idx, 'case': text[:2000]}), flush=True)

    def summary(self):
        print(json.dumps({'t': 'summary', 'shard': self.shard, 'nshard': self.nshard, 'evals': self.evals,
                          'nontrivial': self.nontriv, 'nviol': self.nviol, 'capped': self.capped,
                          'counters': self.counters, 'sigs': self.sigs}), flush=True)


# ---------------------------------------------------------------- C13 table

def rows():
    """the 24 configurations in the order of echsx's documentation (R1..R20),
    then the four `stderr = the stdout name, but no stdout file' ones (N1..N4)"""
    out = []
    n = 0
    for o, e in ((None, None), (None, 'F2'), ('F1', None), ('F1', 'same'), ('F1', 'F2')):
        for mo, me in ((1, 1), (1, 0), (0, 1), (0, 0)):
            n += 1
            out.append({'name': 'R%d' % n, 'out': o, 'err': e, 'mo': mo, 'me': me})
    n = 0
    for mo, me in ((1, 1), (1, 0), (0, 1), (0, 0)):
        n += 1
        out.append({'name': 'N%d' % n, 'out': None, 'err': 'F1', 'mo': mo, 'me': me})
    return out


PIPE_ROWS = ('R5', 'R9', 'R14', 'R15', 'R17', 'N1')


def row_paths(row, d):
    """(OFILE, EFILE) path names of a row inside case directory d"""
    of = os.path.join(d, 'F1') if row['out'] else None
    if row['err'] == 'same':
        ef = of
    elif row['err']:
        ef = os.path.join(d, row['err'])
    else:
        ef = None
    return of, ef


def vtodo(uid, cmd, row, d, setuid, knobs=None, extra=()):
    """the execution request, as echsd's vtodoify would lay it out"""
    k = knobs or {}
    of, ef = row_paths(row, d)
    l = ['BEGIN:VCALENDAR', 'VERSION:2.0', 'BEGIN:VTODO', 'UID:' + uid, 'SUMMARY:' + cmd,
         'X-ECHS-SETUID:%d' % setuid]
    if k.get('shell'):
        l.append('X-ECHS-SHELL:' + k['shell'])
    if k.get('cwd'):
        l.append('LOCATION:' + k['cwd'])
    if k.get('umask') is not None:
        l.append('X-ECHS-UMASK:0%o' % k['umask'])
    if k.get('mailrun'):
        l.append('X-ECHS-MAIL-RUN:1')
    l.append('X-ECHS-MAIL-OUT:%d' % row['mo'])
    l.append('X-ECHS-MAIL-ERR:%d' % row['me'])
    if k.get('ifile'):
        l.append('X-ECHS-IFILE:' + k['ifile'])
    if of:
        l.append('X-ECHS-OFILE:' + of)
    if ef:
        l.append('X-ECHS-EFILE:' + ef)
    if not k.get('noorg'):
        l.append('ORGANIZER:' + ORG)
    for a in k.get('att', [ATT] if not k.get('noatt') else []):
        l.append('ATTENDEE:' + a)
    l += list(extra)
    l += ['END:VTODO', 'END:VCALENDAR', '']
    return '\n'.join(l)


ORG = 'org-c13@example.org'
ATT = 'att-c13@example.org'
LOWER = frozenset(b'abcdefghijklmnopqrstuvwxyz\n')
UPPER = frozenset(b'ABCDEFGHIJKLMNOPQRSTUVWXYZ\t')
_TR_LO = bytes(c for c in range(256) if c not in LOWER)
_TR_UP = bytes(c for c in range(256) if c not in UPPER)
_TR_BOTH = bytes(LOWER | UPPER)


def demux(b):
    """split a byte string into its stdout part (lower case, \\n), its stderr part
    (upper case, \\t) and whatever belongs to neither"""
    return b.translate(None, _TR_LO), b.translate(None, _TR_UP), b.translate(None, _TR_BOTH)


def rd(fn):
    try:
        with open(fn, 'rb') as f:
            return f.read()
    except OSError:
        return None


def brief(b, n=40):
    if b is None:
        return 'absent'
    if len(b) <= n:
        return '%d bytes %r' % (len(b), b)
    return '%d bytes %r...' % (len(b), b[:n])


def diffpos(a, b):
    m = min(len(a), len(b))
    for i in range(m):
        if a[i] != b[i]:
            return i
    return m


def cmp_stream(what, got, want):
    """None if equal, else a short description"""
    if got == want:
        return None
    if got is None:
        return '%s: missing, want %s' % (what, brief(want))
    p = diffpos(got, want)
    kind = 'lost' if len(got) < len(want) else ('extra' if len(got) > len(want) else 'changed')
    return '%s: %s (got %d bytes, want %d, first difference at offset %d)' % (what, kind, len(got), len(want), p)


def parse_ical_time(s):
    m = re.match(r'^(\d{4})(\d\d)(\d\d)T(\d\d)(\d\d)(\d\d)Z$', s)
    if not m:
        return None
    return calendar.timegm(tuple(int(x) for x in m.groups()) + (0, 0, 0))


def parse_journal(b):
    """list of dicts, one per BEGIN:VTODO..END:VTODO block (first value of each property)"""
    res, cur = [], None
    for ln in (b or b'').decode('latin-1').split('\n'):
        if ln == 'BEGIN:VTODO':
            cur = {}
        elif ln == 'END:VTODO':
            if cur is not None:
                res.append(cur)
            cur = None
        elif cur is not None and ':' in ln and not ln.startswith(' '):
            k, _, v = ln.partition(':')
            cur.setdefault(k, v)
    return res


def shim_events(log):
    ev = []
    for ln in (log or b'').decode('latin-1').split('\n'):
        if ln:
            ev.append(ln)
    return ev


def judge(R, exp):
    """the C13 oracle.  R: observations of one finished run, exp: what was asked for.
    Yields (clause, detail).

    R keys: of, ef (bytes or None: files named by OFILE/EFILE after the run), stray (list of names
    that exist but were not asked for), mails (list of (argv, headers-bytes, body-bytes)), tmp_left
    (list of paths made by mkstemp that still exist), journal (bytes), t0, t1 (bracket, epoch
    seconds), and from the job (None where the layer has no real job): count, cwd, umask, stdin,
    shell_log.
    exp keys: out, err (bytes each stream received), row, same (EFILE names the OFILE), mail (bool),
    org, att (list), cmd, uid, status ('exit', n) or ('signal', n), want_cwd, want_umask, want_stdin,
    want_shell (argv list or None)"""
    row = exp['row']
    out, err = exp['out'], exp['err']
    # --- files
    if row['out'] and row['err'] == 'same':
        if R['of'] is None:
            yield 'ofile', 'shared output file missing'
        else:
            lo, up, other = demux(R['of'])
            for d in (cmp_stream('stdout part of shared file', lo, out), cmp_stream('stderr part of shared file', up, err)):
                if d:
                    yield 'ofile-shared', d
            if other:
                yield 'ofile-shared', 'shared file holds %s from neither stream' % brief(other)
    else:
        if row['out']:
            d = cmp_stream('OFILE', R['of'], out)
            if d:
                yield 'ofile', d
        if row['err']:
            d = cmp_stream('EFILE', R['ef'], err)
            if d:
                yield 'efile', d
    if R.get('stray'):
        yield 'stray-file', 'files nobody asked for: %s' % ' '.join(R['stray'])
    # --- mail
    nm = len(R['mails'])
    if exp['mail'] and nm != 1:
        yield 'mail-count', '%d mails sent, want 1' % nm
    elif not exp['mail'] and nm:
        yield 'mail-unwanted', '%d mails sent, want none (%s)' % (nm, exp.get('nomail_why', 'nothing selected'))
    if exp['mail'] and nm >= 1:
        argv, hdr, body = R['mails'][0]
        lo, up, other = demux(body)
        d = cmp_stream('stdout part of mail body', lo, out if row['mo'] else b'')
        if d:
            yield 'mail-out', d
        d = cmp_stream('stderr part of mail body', up, err if row['me'] else b'')
        if d:
            yield 'mail-err', d
        if other:
            yield 'mail-body', 'mail body holds %s from neither stream' % brief(other)
        h = {}
        for ln in hdr.decode('latin-1').split('\n'):
            k, sep, v = ln.partition(': ')
            if sep:
                h.setdefault(k, v)
        if h.get('From') != exp['org']:
            yield 'mail-hdr', 'From: %r, want %r' % (h.get('From'), exp['org'])
        if h.get('To') != ', '.join(exp['att']):
            yield 'mail-hdr', 'To: %r, want %r' % (h.get('To'), ', '.join(exp['att']))
        if h.get('Subject') != exp['cmd']:
            yield 'mail-hdr', 'Subject: %r, want the command' % (h.get('Subject'),)
        xs = h.get('X-Exit-Status')
        if exp['status'][0] == 'exit':
            if xs != '%d' % exp['status'][1]:
                yield 'mail-status', 'X-Exit-Status: %r, job exited with %d' % (xs, exp['status'][1])
        elif xs is None or not xs.endswith('(signal %d)' % exp['status'][1]):
            yield 'mail-status', 'X-Exit-Status: %r, job was killed by signal %d' % (xs, exp['status'][1])
    # --- temporary files
    if R['tmp_left']:
        yield 'tmp-left', 'temporary file(s) still there after echsx exited: %s' % ' '.join(R['tmp_left'])
    # --- journal
    js = parse_journal(R['journal'])
    mine = [j for j in js if j.get('UID') == exp['uid']]
    if len(js) != 1 or len(mine) != 1:
        yield 'journal-count', '%d journal entries (%d with our UID), want 1' % (len(js), len(mine))
    if mine:
        j = mine[0]
        if j.get('SUMMARY') != exp['cmd']:
            yield 'journal-summary', 'SUMMARY %r is not the command' % (j.get('SUMMARY'),)
        if exp['status'][0] == 'exit':
            if j.get('X-EXIT-STATUS') != '%d' % exp['status'][1] or 'X-SIGNAL' in j:
                yield 'journal-status', 'X-EXIT-STATUS:%s X-SIGNAL:%s, job exited with %d' % (
                    j.get('X-EXIT-STATUS'), j.get('X-SIGNAL'), exp['status'][1])
        elif j.get('X-SIGNAL') != '%d' % exp['status'][1]:
            yield 'journal-status', 'X-EXIT-STATUS:%s X-SIGNAL:%s, job was killed by signal %d' % (
                j.get('X-EXIT-STATUS'), j.get('X-SIGNAL'), exp['status'][1])
        ts, te = parse_ical_time(j.get('DTSTART', '')), parse_ical_time(j.get('COMPLETED', ''))
        if ts is None or te is None:
            yield 'journal-times', 'DTSTART %r / COMPLETED %r missing or unreadable' % (j.get('DTSTART'), j.get('COMPLETED'))
        elif not (R['t0'] <= ts <= te <= R['t1']):
            yield 'journal-times', 'start %d end %d, run was observed within [%d, %d]' % (ts, te, R['t0'], R['t1'])
    # --- the job's own view (real-process layer)
    if R.get('count') is not None or exp.get('want_count'):
        if R.get('count') != 1:
            yield 'run-count', 'command ran %s times' % R.get('count')
        else:
            if R['cwd'] != exp['want_cwd']:
                yield 'cwd', 'job ran in %r, want %r' % (R['cwd'], exp['want_cwd'])
            if R['umask'] != exp['want_umask']:
                yield 'umask', 'job ran with umask %04o, want %04o' % (R['umask'], exp['want_umask'])
            if R['stdin'] != exp['want_stdin']:
                yield 'stdin', cmp_stream('job stdin', R['stdin'], exp['want_stdin'])
            if exp.get('want_shell') is not None and R.get('shell_log') != exp['want_shell']:
                yield 'shell', 'requested shell was invoked as %r, want %r' % (R.get('shell_log'), exp['want_shell'])


def split_mail(b):
    """recorder file -> (argv list, header bytes, body bytes)"""
    args, _, rest = b.partition(b'\n')
    hdr, sep, body = rest.partition(b'\n\n')
    return args.decode('latin-1').split('\x1f'), hdr, body if sep else b''
