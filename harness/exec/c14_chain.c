/* c14_chain.c -- C14: a time limit pushed along the real chain of functions
 *
 *   user file --echsq: add_fd()/massage()/echs_task_icalify()--> request text
 *     --echsd: feed_cmd()/cmd_ical()/_inject_task1()/resched()--> t->dur
 *     --echsd: task_cb()/run_task()/vtodoify()--> execution request (VTODO)
 *     --echsx: main()/echsx()/set_timeout()--> alarm(seconds)
 *
 * All four stages are the unmodified sources (c14_hxq.c, c14_hxd.c,
 * c14_hxx.c include them).  The driver enumerates limits x spellings x event
 * shapes, and judges every hop against the limit with its own reader of
 * RFC 5545 durations and date-times (nothing from libechse is used on the
 * oracle side).
 *
 * options: --opt mode=chain|due|dump
 *   chain: limits (1..maxsec every second + the 40-value grid) x {DTEND,
 *          DURATION in every legal spelling, each with and without `+'} x
 *          {single event, FREQ=DAILY;COUNT=3}
 *   due:   execution requests with DUE = now + limit for three positions of
 *          `now' (clock owned through time()), and DUE in the past
 *   dump:  --opt limit=N --opt kind=DURATION|DTEND --opt cmd=TEXT prints the
 *          VTODO echsd hands to echsx for that input (used by c14_rt.py)
 *   align: the limit line of the event placed on the chunk boundary (+-3 bytes) of each of the four readers of
 *          the chain (echsq 32768, echsd socket 4096, echsd queue file 65536, echsx 4096), see enum_align();
 *          win=N (default 3, at most 30): the window of placements around the boundary
 *   cal:   DTSTART..DTEND straddling every month boundary (and 28/29 Feb) of a leap, a common (and years=all: a century)
 *          year, spans 2 s, 2 h, 26 h, 32 d, see enum_cal()
 *   maxsec=N (default 180) grid=0|1 (default 1) */
#include "vdrv.h"
#include "c14_hx.h"
#include <fcntl.h>
#include <ctype.h>
#include <inttypes.h>
#include <stddef.h>

/* ---------------------------------------------------------------- oracle side */
static const long GRID[] = {
	300, 600, 900, 1800, 2700, 3600, 3601, 3661, 5400, 7200,
	10800, 14400, 21600, 28800, 36000, 43200, 64800, 86399, 86400, 86401,
	90000, 90061, 129600, 172800, 259200, 345600, 432000, 518400, 604799, 604800,
	604801, 691200, 864000, 1209600, 1296000, 1814400, 2147483, 2147484, 2332800, 2419200,
};
#define NGRID	(sizeof(GRID) / sizeof(*GRID))

/* days from civil (proleptic Gregorian), 1970-01-01 = 0 */
static long
dfc(long y, unsigned m, unsigned d)
{
	y -= m <= 2;
	long era = (y >= 0 ? y : y - 399) / 400;
	unsigned yoe = (unsigned)(y - era * 400);
	unsigned doy = (153 * (m + (m > 2 ? -3 : 9)) + 2) / 5 + d - 1;
	unsigned doe = yoe * 365 + yoe / 4 - yoe / 100 + doy;
	return era * 146097 + (long)doe - 719468;
}

static void
civil(long z, long *y, unsigned *m, unsigned *d)
{
	z += 719468;
	long era = (z >= 0 ? z : z - 146096) / 146097;
	unsigned doe = (unsigned)(z - era * 146097);
	unsigned yoe = (doe - doe / 1460 + doe / 36524 - doe / 146096) / 365;
	long yy = (long)yoe + era * 400;
	unsigned doy = doe - (365 * yoe + yoe / 4 - yoe / 100);
	unsigned mp = (5 * doy + 2) / 153;
	*d = doy - (153 * mp + 2) / 5 + 1;
	*m = mp + (mp < 10 ? 3 : -9);
	*y = yy + (*m <= 2);
}

static void
fmt_utc(char *buf, size_t bsz, long long ep)
{
	long days = ep / 86400, y;
	long s = ep % 86400;
	unsigned m, d;

	civil(days, &y, &m, &d);
	snprintf(buf, bsz, "%04ld%02u%02uT%02ld%02ld%02ldZ", y, m, d, s / 3600, s / 60 % 60, s % 60);
}

/* yyyymmddThhmmssZ -> epoch, -1 if not of that form */
static long long
rd_utc(const char *s)
{
	int v[6], n = 0;

	if (sscanf(s, "%4d%2d%2dT%2d%2d%2dZ%n", v, v + 1, v + 2, v + 3, v + 4, v + 5, &n) != 6 || n != 16) {
		return -1;
	}
	return dfc(v[0], v[1], v[2]) * 86400LL + v[3] * 3600 + v[4] * 60 + v[5];
}

/* duration text -> seconds; -1 if TEXT (up to end of line) is not a duration.
 * Lenient ISO 8601 reading [+-]P[nW][nD][T[nH][nM][nS]] with at least one part:
 * a superset of RFC 5545's dur-value (which e.g. does not allow PT1H1S), because the
 * texts judged with it are internal hand-overs, not user input */
static long long
rd_dur(const char *s)
{
	long long tot = 0, v;
	const char *p = s;
	int neg = 0, parts = 0;
	static const struct {
		char c;
		long mul;
	} D[] = {{'W', 604800}, {'D', 86400}}, T[] = {{'H', 3600}, {'M', 60}, {'S', 1}};

	if (*p == '+' || *p == '-') {
		neg = *p++ == '-';
	}
	if (*p++ != 'P') {
		return -1;
	}
	for (size_t k = 0; k < 2 && isdigit((unsigned char)*p); ) {
		for (v = 0; isdigit((unsigned char)*p); v = v * 10 + (*p++ - '0'));
		for (; k < 2 && D[k].c != *p; k++);
		if (k >= 2) {
			return -1;
		}
		tot += v * D[k++].mul, p++, parts++;
	}
	if (*p == 'T') {
		int tparts = 0;
		p++;
		for (size_t k = 0; k < 3 && isdigit((unsigned char)*p); ) {
			for (v = 0; isdigit((unsigned char)*p); v = v * 10 + (*p++ - '0'));
			for (; k < 3 && T[k].c != *p; k++);
			if (k >= 3) {
				return -1;
			}
			tot += v * T[k++].mul, p++, tparts++;
		}
		if (!tparts) {
			return -1;
		}
		parts += tparts;
	}
	if (!parts || (*p && *p != '\n' && *p != '\r')) {
		return -1;
	}
	return neg ? -tot : tot;
}

/* value of the first line PROP:... in TEXT, NULL if absent */
static const char*
prop(const char *text, const char *name, char *buf, size_t bsz)
{
	size_t nl = strlen(name);

	for (const char *p = text; p && *p; p = strchr(p, '\n'), p = p ? p + 1 : p) {
		if (!strncmp(p, name, nl) && p[nl] == ':') {
			size_t n = strcspn(p + nl + 1, "\r\n");
			if (n >= bsz) {
				n = bsz - 1;
			}
			memcpy(buf, p + nl + 1, n);
			buf[n] = '\0';
			return buf;
		}
	}
	return NULL;
}

/* the legal spellings of L seconds; returns how many, K-th into BUF.
 * sign: 0 none, 1 leading + */
static int
spell(long L, int k, int sign, char *buf, size_t bsz, const char **cls)
{
	long d = L / 86400, h = L / 3600 % 24, m = L / 60 % 60, s = L % 60;
	const char *sg = sign ? "+" : "";
	int n = 0;

#define OUT(c, ...)	do { if (n++ == k) { snprintf(buf, bsz, __VA_ARGS__); *cls = c; return -1; } } while (0)
	OUT("S", "%sPT%ldS", sg, L);
	if (L % 60 == 0) {
		OUT("M", "%sPT%ldM", sg, L / 60);
	}
	if (L % 3600 == 0) {
		OUT("H", "%sPT%ldH", sg, L / 3600);
	}
	if (L % 86400 == 0) {
		OUT("D", "%sP%ldD", sg, L / 86400);
	}
	if (L % 604800 == 0) {
		OUT("W", "%sP%ldW", sg, L / 604800);
	}
	/* all parts, zeros included */
	OUT("full", "%sP%ldDT%ldH%ldM%ldS", sg, d, h, m, s);
	/* minutes and seconds, minutes not reduced */
	if (L >= 60 && L % 60) {
		OUT("MS", "%sPT%ldM%ldS", sg, L / 60, s);
	}
	/* hours and minutes */
	if (L >= 3600 && L % 3600 && L % 60 == 0) {
		OUT("HM", "%sPT%ldH%ldM", sg, L / 3600, m);
	}
	/* normalised, zero parts left out where the grammar allows it */
	if (L >= 86400 || (h > 0) + (m > 0) + (s > 0) > 1) {
		char t[64] = "";
		size_t o = 0;
		if (h) {
			o += snprintf(t + o, sizeof(t) - o, "%ldH", h);
		}
		if (m || (h && s)) {
			o += snprintf(t + o, sizeof(t) - o, "%ldM", m);
		}
		if (s) {
			o += snprintf(t + o, sizeof(t) - o, "%ldS", s);
		}
		if (d && o) {
			OUT("norm", "%sP%ldDT%s", sg, d, t);
		} else if (o && L < 86400) {
			OUT("norm", "%sPT%s", sg, t);
		} else if (d && !o && L % 86400) {
			;
		}
	}
#undef OUT
	return n;
}

static const char*
lclass(long L)
{
	return L < 60 ? "lt1m" : L < 3600 ? "lt1h" : L < 86400 ? "lt1d" : L <= 2147483 ? "lt2e31ms" : "ge2e31ms";
}

static const char*
ratio(long long got, long long want)
{
	return got == want * 1000 ? "x1000" : got * 1000 == want ? "div1000" : got == 0 ? "zero" : got < want ? "short" : "long";
}

/* per-hop diagnostics: the internal hand-overs are judged only to localise a failure of the
 * end-to-end clause (seconds armed in echsx == limit); they are reported iff that clause
 * fails for the case, so that an oracle on an internal format can never raise an alarm of its own */
static struct {
	char sig[200];
	char det[700];
} diags[16];
static int ndiag, e2e_bad;
#define DIAG(s, ...)	do { if (ndiag < 16) { snprintf(diags[ndiag].sig, sizeof(diags->sig), "%s", s); \
	snprintf(diags[ndiag].det, sizeof(diags->det), __VA_ARGS__); ndiag++; } } while (0)

/* signature of a wrong value: a pure unit confusion (x1000, /1000) is one defect whatever the
 * spelling and size; anything else is reported per spelling class and size class */
static void
valsig(char *sig, size_t z, const char *clause, long long got, long long want, const char *kind, int sign, const char *scls)
{
	const char *r = ratio(got, want);

	if (!strcmp(r, "x1000") || !strcmp(r, "div1000")) {
		snprintf(sig, z, "%s/%s", clause, r);
	} else {
		snprintf(sig, z, "%s/%s/%s/%s%s/%s", clause, r, kind, sign ? "plus-" : "", scls,
			 want >= 1000 && !strncmp(clause, "echsd-dur", 9) ? lclass(want / 1000) : lclass(want));
	}
}

/* ---------------------------------------------------------------- the chain */
#define START_EPOCH	(1930644000LL)	/* 2031-03-07T10:00:00Z, after now and before 2038 */

struct shr_s {
	struct hx_xres x[3];
	char q_text[8192];
	char vtodo[3][8192];
	char args[3][256];
	long vlen[3];
	long long dur_ms[3];
	int ntasks;
	int xst[3];
	char journal[3][4096];
	int stage;
};
static struct shr_s *S;

static int
memfile(const char *name)
{
	char fn[] = "/tmp/c14_XXXXXX";
	int fd = mkstemp(fn);
	if (fd >= 0) {
		unlink(fn);
	}
	return fd;
}

/* stages 1-3 in a process of their own (echsq and echsd keep statics) */
static void
chain_child(const char *user, int nfire)
{
	int src = memfile("src"), p[2];
	ssize_t n;
	size_t tot = 0;

	S->stage = 1;
	if (write(src, user, strlen(user)) < 0 || lseek(src, 0, SEEK_SET) < 0 || pipe(p) < 0) {
		_exit(81);
	}
	if (getenv("C14_DIRECT")) {
		/* probing aid: hand the text to the daemon as it is */
		if (write(p[1], user, strlen(user)) < 0) {
			_exit(83);
		}
	} else {
		hxq_add(p[1], src);
	}
	close(p[1]);
	while (tot < sizeof(S->q_text) - 1 && (n = read(p[0], S->q_text + tot, sizeof(S->q_text) - 1 - tot)) > 0) {
		tot += n;
	}
	S->q_text[tot] = '\0';
	close(p[0]);
	S->stage = 2;
	if (hxd_setup() < 0) {
		_exit(82);
	}
	S->ntasks = hxd_submit(S->q_text, tot);
	S->stage = 3;
	for (int i = 0; i < nfire && i < 3; i++) {
		S->dur_ms[i] = hxd_dur_ms();
		S->vlen[i] = hxd_fire(S->vtodo[i], sizeof(S->vtodo[i]), S->args[i], sizeof(S->args[i]));
	}
	S->stage = 4;
	_exit(0);
}

static int
run_echsx(int slot, const char *req, time_t now)
{
	int jfd = memfile("j"), lfd = open("/dev/null", O_WRONLY);
	ssize_t n;

	/* echsx reports into a mapping of this run alone: an echsx left behind by a worker the supervisor gave up on
	 * (machine under load) must not be able to count into the results of a later run */
	struct hx_xres *r = mmap(NULL, sizeof(*r), PROT_READ | PROT_WRITE, MAP_SHARED | MAP_ANONYMOUS, -1, 0);

	vd_beat();
	memset(&S->x[slot], 0, sizeof(S->x[slot]));
	if (r == MAP_FAILED) {
		perror("mmap");
		_exit(2);
	}
	memset(r, 0, sizeof(*r));
	S->xst[slot] = hxx_run(req, strlen(req), now, r, jfd, lfd);
	S->x[slot] = *r;
	munmap(r, sizeof(*r));
	vd_beat();
	S->journal[slot][0] = '\0';
	if ((n = pread(jfd, S->journal[slot], sizeof(S->journal[slot]) - 1, 0)) >= 0) {
		S->journal[slot][n] = '\0';
	}
	close(jfd);
	close(lfd);
	return S->xst[slot];
}

static int
run_chain(const char *user, int nfire)
{
	pid_t p;
	int st = 0;

	memset(S, 0, sizeof(*S));
	fflush(stdout);
	if ((p = fork()) == 0) {
		chain_child(user, nfire);
	}
	while (waitpid(p, &st, 0) < 0 && errno == EINTR);
	return st;
}

/* DTSTART of the event of user_file(); only mode=cal moves it */
static long long start_epoch = START_EPOCH;

static void
user_file(char *buf, size_t bsz, const char *kind, const char *val, int rrule, const char *cmd)
{
	char sta[32];

	fmt_utc(sta, sizeof(sta), start_epoch);
	snprintf(buf, bsz, "BEGIN:VCALENDAR\nVERSION:2.0\nBEGIN:VEVENT\nUID:c14-limit\nSUMMARY:%s\n"
		 "DTSTART:%s\n%s:%s\n%sEND:VEVENT\nEND:VCALENDAR\n", cmd, sta, kind, val,
		 rrule ? "RRULE:FREQ=DAILY;COUNT=3\n" : "");
}

static void
one_chain_case(long L, const char *kind, const char *val, const char *scls, int sign, int rrule)
{
	char user[1024], tmp[256], iso[64];
	int nfire = rrule ? 2 : 1;
	int st;

	user_file(user, sizeof(user), kind, val, rrule, "true");
	vd_desc("limit %ld s as %s:%s on a %s event; user file: %s", L, kind, val, rrule ? "FREQ=DAILY;COUNT=3" : "single", user);
	for (char *p = vd_sh->desc; *p; p++) {
		if (*p == '\n') {
			*p = '|';
		}
	}
	vd_shape("%s/%s%s/%s/%s", kind, sign ? "plus-" : "", scls, rrule ? "rrule" : "single", lclass(L));
	ndiag = e2e_bad = 0;
	st = run_chain(user, nfire);
	if (st) {
		vd_viol("chain-died", "stage %d of the chain died, wait status %#x", S->stage, st);
		return;
	}
	/* hop 1: echsq -> daemon */
	{
		long long got = -2;
		if (prop(S->q_text, "DURATION", tmp, sizeof(tmp))) {
			got = rd_dur(tmp);
		} else if (prop(S->q_text, "DTEND", tmp, sizeof(tmp))) {
			long long e = rd_utc(tmp);
			char t2[64];
			long long b = prop(S->q_text, "DTSTART", t2, sizeof(t2)) ? rd_utc(t2) : -1;
			got = e >= 0 && b >= 0 ? e - b : -1;
		}
		if (got != L) {
			char sig[200];
			snprintf(sig, sizeof(sig), "echsq-text/%s/%s%s/%s/%s", kind, sign ? "plus-" : "", scls, lclass(L),
				 got == -2 ? "absent" : got == -1 ? "unreadable" : ratio(got, L));
			DIAG(sig, "echsq sends a limit of %lld s (%s), user wrote %ld s", got, tmp, L);
		}
	}
	if (S->ntasks != 1) {
		vd_viol("echsd-refused", "daemon holds %d tasks after the submission", S->ntasks);
		return;
	}
	for (int i = 0; i < nfire; i++) {
		const char *occ = i ? "second occurrence" : "first occurrence";
		/* hop 2: daemon-side duration of the occurrence */
		if (S->dur_ms[i] != L * 1000LL) {
			char sig[200];
			valsig(sig, sizeof(sig), i ? "echsd-dur/occ2" : "echsd-dur/occ1", S->dur_ms[i], L * 1000LL, kind, sign, scls);
			DIAG(sig, "echsd holds %lld ms for the run, want %lld", S->dur_ms[i], L * 1000LL);
		}
		if (S->vlen[i] < 0) {
			vd_viol("echsd-nospawn", "no echsx spawned for %s", occ);
			continue;
		}
		/* hop 3: the execution request */
		if (!prop(S->vtodo[i], "DURATION", tmp, sizeof(tmp)) && !prop(S->vtodo[i], "DUE", tmp, sizeof(tmp))) {
			DIAG("vtodo/absent", "execution request carries no limit: %s", S->vtodo[i]);
		} else {
			long long got = rd_dur(tmp);
			if (got < 0) {
				char sig[200], *e;
				long long raw = strtoll(tmp, &e, 10);
				snprintf(sig, sizeof(sig), "vtodo/not-a-duration/%s", *e ? "other" : raw == L ? "bare-seconds" : "bare-number");
				DIAG(sig, "execution request says DURATION:%s, not an RFC 5545 duration (limit %ld s)", tmp, L);
				if (!*e && raw != L) {
					valsig(sig, sizeof(sig), "vtodo/value", raw, L, kind, sign, scls);
					DIAG(sig, "execution request says %lld, limit is %ld s", raw, L);
				}
			} else if (got != L) {
				char sig[200];
				valsig(sig, sizeof(sig), "vtodo/value", got, L, kind, sign, scls);
				DIAG(sig, "execution request says %s = %lld s, limit is %ld s", tmp, got, L);
			}
		}
		/* hop 4: echsx on exactly that request */
		st = run_echsx(i, S->vtodo[i], 0);
		if (st & 0x7f) {
			e2e_bad = 1, vd_viol("echsx-died", "echsx killed by signal %d on the request", st & 0x7f);
		} else if (S->x[i].n_spawn != 1) {
			e2e_bad = 1, vd_viol("echsx-norun", "echsx started %d jobs; journal: %s", S->x[i].n_spawn, S->journal[i]);
		} else if (S->x[i].n_alarm == 0) {
			char sig[200];
			snprintf(sig, sizeof(sig), "armed/none/%s", kind);
			e2e_bad = 1, vd_viol(sig, "echsx arms no timer for the run (limit %ld s); request: DURATION:%s", L, tmp);
		} else if (S->x[i].alarm_arg != (unsigned long)L) {
			char sig[200];
			valsig(sig, sizeof(sig), "armed/value", S->x[i].alarm_arg, L, kind, sign, scls);
			e2e_bad = 1, vd_viol(sig, "echsx arms %u s, limit is %ld s", S->x[i].alarm_arg, L);
		}
	}
	/* hop 4 on its own: echsx given the limit as an RFC 5545 duration, in the user's spelling
	 * (for DTEND: plain seconds), in a request otherwise identical to the daemon's */
	if (S->vlen[0] > 0) {
		char req[8192], *d;
		const char *v = !strcmp(kind, "DURATION") ? val : (snprintf(iso, sizeof(iso), "PT%ldS", L), iso);
		size_t o;

		if ((d = strstr(S->vtodo[0], "\nDURATION:")) != NULL) {
			o = d + 1 - S->vtodo[0];
			memcpy(req, S->vtodo[0], o);
			o += snprintf(req + o, sizeof(req) - o, "DURATION:%s\n", v);
			d = strchr(d + 1, '\n');
			snprintf(req + o, sizeof(req) - o, "%s", d ? d + 1 : "");
		} else {
			/* no DURATION line at all: add one after the SUMMARY */
			d = strstr(S->vtodo[0], "\nSUMMARY:");
			d = d ? strchr(d + 1, '\n') : NULL;
			o = d ? (size_t)(d + 1 - S->vtodo[0]) : 0;
			memcpy(req, S->vtodo[0], o);
			o += snprintf(req + o, sizeof(req) - o, "DURATION:%s\n", v);
			snprintf(req + o, sizeof(req) - o, "%s", S->vtodo[0] + (d ? d + 1 - S->vtodo[0] : 0));
		}
		st = run_echsx(2, req, 0);
		if (st & 0x7f) {
			vd_viol("echsx-died/iso", "echsx killed by signal %d on DURATION:%s", st & 0x7f, v);
		} else if (S->x[2].n_spawn != 1) {
			vd_viol("echsx-norun/iso", "echsx started %d jobs on DURATION:%s; journal: %s", S->x[2].n_spawn, v, S->journal[2]);
		} else if (S->x[2].n_alarm == 0) {
			char sig[200];
			snprintf(sig, sizeof(sig), "iso-armed/none/%s/%s%s/%s", kind, sign ? "plus-" : "", scls, lclass(L));
			DIAG(sig, "echsx given DURATION:%s arms no timer", v);
		} else if (S->x[2].alarm_arg != (unsigned long)L) {
			char sig[200];
			valsig(sig, sizeof(sig), "iso-armed/value", S->x[2].alarm_arg, L, kind, sign, scls);
			DIAG(sig, "echsx given DURATION:%s arms %u s, want %ld", v, S->x[2].alarm_arg, L);
		}
	}
	if (e2e_bad) {
		for (int i = 0; i < ndiag; i++) {
			vd_viol(diags[i].sig, "%s", diags[i].det);
		}
	}
	vd_nontrivial();
	vd_count("echsx_runs", nfire + 1);
	vd_sample("limit %ld as %s:%s (%s): echsq sends `%s', echsd holds %lld ms and writes `DURATION:%s', echsx arms %s%u s; "
		  "echsx given the ISO form arms %s%u s", L, kind, val, rrule ? "rrule" : "single",
		  prop(S->q_text, "DURATION", user, sizeof(user)) ? user : "?", S->dur_ms[0],
		  prop(S->vtodo[0], "DURATION", tmp, sizeof(tmp)) ? tmp : "(absent)",
		  S->x[0].n_alarm ? "" : "nothing, last alarm arg ", S->x[0].alarm_arg,
		  S->x[2].n_alarm ? "" : "nothing, last alarm arg ", S->x[2].alarm_arg);
}

static void
enum_chain(void)
{
	long maxsec = vd_opt_l("maxsec", 180);
	int grid = vd_opt_l("grid", 1);
	long nl = maxsec + (grid ? (long)NGRID : 0);

	for (long li = 0; li < nl && !vd_stop(); li++) {
		long L = li < maxsec ? li + 1 : GRID[li - maxsec];
		for (int rrule = 0; rrule < 2; rrule++) {
			char val[64];
			const char *cls = "utc";

			/* DTEND */
			if (vd_next()) {
				fmt_utc(val, sizeof(val), START_EPOCH + L);
				one_chain_case(L, "DTEND", val, cls, 0, rrule);
			}
			for (int sign = 0; sign < 2; sign++) {
				int n = spell(L, -1, sign, val, sizeof(val), &cls);
				for (int k = 0; k < n; k++) {
					if (!vd_next()) {
						continue;
					}
					spell(L, k, sign, val, sizeof(val), &cls);
					one_chain_case(L, "DURATION", val, cls, sign, rrule);
				}
			}
		}
	}
}

/* ---------------------------------------------------------------- DUE */
static const struct {
	const char *name;
	long long now;
} NOWS[] = {
	{"jun", 1907755200LL},	/* 2030-06-15T12:00:00Z */
	{"jan", 1926232200LL},	/* 2031-01-15T08:30:00Z */
	{"leapfeb", 1961625570LL},	/* 2032-02-28T23:59:30Z */
};

static void
due_req(char *buf, size_t bsz, long long due)
{
	char d[32];

	fmt_utc(d, sizeof(d), due);
	snprintf(buf, bsz, "BEGIN:VCALENDAR\nVERSION:2.0\nBEGIN:VTODO\nUID:c14-due\nSUMMARY:true\n"
		 "X-ECHS-SETUID:%u\nX-ECHS-SHELL:/bin/sh\nLOCATION:/\nDUE:%s\nX-ECHS-MAIL-RUN:0\nX-ECHS-MAIL-OUT:0\n"
		 "X-ECHS-MAIL-ERR:0\nEND:VTODO\nEND:VCALENDAR\n", (unsigned)geteuid(), d);
}

static void
enum_due(void)
{
	static const long PAST[] = {1, 2, 59, 60, 3600, 86400, 31536000};
	long maxsec = vd_opt_l("maxsec", 180);
	int grid = vd_opt_l("grid", 1);
	long nl = maxsec + (grid ? (long)NGRID : 0);
	char req[2048], tmp[64];

	memset(S, 0, sizeof(*S));
	for (size_t ni = 0; ni < sizeof(NOWS) / sizeof(*NOWS); ni++) {
		long long now = NOWS[ni].now;

		if (ni == 0) {
			/* the reader of the oracle side, checked against known values */
			fmt_utc(tmp, sizeof(tmp), now);
			if (strcmp(tmp, "20300615T120000Z") || rd_utc("20320228T235930Z") != NOWS[2].now ||
			    rd_dur("P1DT1H1M1S") != 90061 || rd_dur("+P2W") != 1209600 || rd_dur("PT1H5S") != 3605 || rd_dur("PT") != -1 || rd_dur("P") != -1 || rd_dur("PT5S1H") != -1 ||
			    rd_dur("2") != -1 || rd_dur("PT0S") != 0) {
				fprintf(stderr, "c14_chain: oracle self-test failed\n");
				_exit(3);
			}
		}
		for (long li = 0; li < nl && !vd_stop(); li++) {
			long L = li < maxsec ? li + 1 : GRID[li - maxsec];
			int st;

			if (!vd_next()) {
				continue;
			}
			due_req(req, sizeof(req), now + L);
			fmt_utc(tmp, sizeof(tmp), now);
			vd_desc("execution request with DUE = now + %ld s, now = %s; request: %s", L, tmp, req);
			for (char *p = vd_sh->desc; *p; p++) {
				if (*p == '\n') {
					*p = '|';
				}
			}
			vd_shape("due/future/%s/%s", NOWS[ni].name, lclass(L));
			st = run_echsx(0, req, (time_t)now);
			if (st & 0x7f) {
				vd_viol("echsx-died/due", "echsx killed by signal %d", st & 0x7f);
			} else if (S->x[0].n_spawn != 1) {
				char sig[200];
				snprintf(sig, sizeof(sig), "due/future-refused/%s/%s", NOWS[ni].name, lclass(L));
				vd_viol(sig, "job not started although DUE is %ld s ahead; journal: %s", L, S->journal[0]);
			} else if (S->x[0].n_alarm == 0) {
				vd_viol("due/armed/none", "no timer armed for DUE %ld s ahead", L);
			} else if (S->x[0].alarm_arg != (unsigned long)L) {
				char sig[200];
				snprintf(sig, sizeof(sig), "due/armed/value/%s/%s/%s", NOWS[ni].name, lclass(L), ratio(S->x[0].alarm_arg, L));
				vd_viol(sig, "echsx arms %u s, DUE is %ld s ahead", S->x[0].alarm_arg, L);
			}
			vd_nontrivial();
			vd_count("echsx_runs", 1);
			vd_sample("now %s, DUE %ld s ahead: echsx arms %u s (%d alarm calls, %d time() calls, %d job)", tmp, L,
				  S->x[0].alarm_arg, S->x[0].n_alarm, S->x[0].n_time, S->x[0].n_spawn);
		}
		/* DUE equal to now: refusing the request and killing the job at once are both defensible (and a timer
		 * of 0 s cannot be armed); starting the job with NO limit is not */
		if (vd_next()) {
			int st;
			due_req(req, sizeof(req), now);
			fmt_utc(tmp, sizeof(tmp), now);
			vd_desc("execution request with DUE = now = %s; request: %s", tmp, req);
			for (char *p = vd_sh->desc; *p; p++) {
				if (*p == '\n') {
					*p = '|';
				}
			}
			vd_shape("due/now/%s", NOWS[ni].name);
			st = run_echsx(0, req, (time_t)now);
			if (st & 0x7f) {
				vd_viol("echsx-died/due", "echsx killed by signal %d", st & 0x7f);
			} else if (S->x[0].n_spawn != 0 && (S->x[0].n_alarm == 0 || S->x[0].alarm_arg == 0)) {
				char sig[200];
				snprintf(sig, sizeof(sig), "due/now-unbounded/%s", NOWS[ni].name);
				vd_viol(sig, "job started at its DUE time with no timer armed (%d alarm calls, last argument %u): it runs unbounded", S->x[0].n_alarm, S->x[0].alarm_arg);
			}
			vd_nontrivial();
			vd_count("echsx_runs", 1);
		}
		for (size_t pi = 0; pi < sizeof(PAST) / sizeof(*PAST); pi++) {
			int st;

			if (!vd_next()) {
				continue;
			}
			due_req(req, sizeof(req), now - PAST[pi]);
			fmt_utc(tmp, sizeof(tmp), now);
			vd_desc("execution request with DUE = now - %ld s, now = %s; request: %s", PAST[pi], tmp, req);
			for (char *p = vd_sh->desc; *p; p++) {
				if (*p == '\n') {
					*p = '|';
				}
			}
			vd_shape("due/past/%s", NOWS[ni].name);
			st = run_echsx(0, req, (time_t)now);
			if (st & 0x7f) {
				vd_viol("echsx-died/due", "echsx killed by signal %d", st & 0x7f);
			} else if (S->x[0].n_spawn != 0) {
				char sig[200];
				snprintf(sig, sizeof(sig), "due/past-run/%s", NOWS[ni].name);
				vd_viol(sig, "job started although DUE was %ld s ago (armed %u s)", PAST[pi], S->x[0].alarm_arg);
			} else if (!strstr(S->journal[0], "STATUS:CANCELLED") ||
				   !strstr(S->journal[0], "DESCRIPTION:Task is past its due time, not executing.")) {
				vd_viol("due/past-message", "refusal not journalled with the documented message: %s", S->journal[0]);
			}
			vd_nontrivial();
			vd_count("echsx_runs", 1);
		}
	}
}

/* ---------------------------------------------------------------- zones: limits given as local times of two zones */
/* user files with 3-4 events whose DTSTART and DTEND both carry a TZID, the events alternating between two zones in
 * every order pattern; what echsq hands to the daemon must give every event the same span L (first hop of the chain;
 * conversions of one zone must not depend on which zone was converted before) */
static void
enum_zones(void)
{
	static const char *const Z[2] = {"Europe/Berlin", "America/New_York"};
	static const long LS[] = {10, 90, 3600, 21600, 86400};
	static char user[4096];

	for (size_t li = 0; li < sizeof(LS) / sizeof(*LS); li++) {
		const long L = LS[li];
		for (int n = 3; n <= 4; n++) {
			for (unsigned pat = 0; pat < (1U << n); pat++) {
				size_t o;
				int st, nev = 0, bad = 0;

				if (!vd_next()) {
					continue;
				}
				o = (size_t)snprintf(user, sizeof(user), "BEGIN:VCALENDAR\nVERSION:2.0\n");
				for (int i = 0; i < n; i++) {
					/* local 2031-06-10+i 09:00:00 plus L, both written in the event's zone */
					long long b = rd_utc("20310610T090000Z") + 86400LL * i, e = b + L;
					char tb[32], te[32];
					fmt_utc(tb, sizeof(tb), b);
					fmt_utc(te, sizeof(te), e);
					tb[15] = te[15] = '\0';	/* drop the Z: local time */
					o += (size_t)snprintf(user + o, sizeof(user) - o, "BEGIN:VEVENT\nUID:c14-zone-%d\nSUMMARY:true\nDTSTART;TZID=%s:%s\nDTEND;TZID=%s:%s\nEND:VEVENT\n",
							      i, Z[pat >> i & 1U], tb, Z[pat >> i & 1U], te);
				}
				o += (size_t)snprintf(user + o, sizeof(user) - o, "END:VCALENDAR\n");
				vd_desc("limit %ld s as DTEND on %d events whose DTSTART/DTEND are local times of Berlin (0) / New York (1) in the pattern %x; user file: %s", L, n, pat, user);
				for (char *p = vd_sh->desc; *p; p++) {
					if (*p == '\n') {
						*p = '|';
					}
				}
				vd_shape("zones/%s/%s", pat == 0 || pat == (1U << n) - 1U ? "one-zone" : "two-zones", lclass(L));
				st = run_chain(user, 0);
				if (st) {
					vd_viol("chain-died", "stage %d of the chain died, wait status %#x", S->stage, st);
					continue;
				}
				for (const char *ev = strstr(S->q_text, "BEGIN:VEVENT"); ev != NULL; ev = strstr(ev + 1, "BEGIN:VEVENT")) {
					char blk[1024], tmp[128], t2[64];
					const char *end = strstr(ev, "END:VEVENT");
					size_t bl = end ? (size_t)(end - ev) : strlen(ev);
					long long got = -2;
					if (bl >= sizeof(blk)) bl = sizeof(blk) - 1;
					memcpy(blk, ev, bl);
					blk[bl] = '\0';
					nev++;
					if (prop(blk, "DURATION", tmp, sizeof(tmp))) {
						got = rd_dur(tmp);
					} else if (prop(blk, "DTEND", tmp, sizeof(tmp))) {
						long long e = rd_utc(tmp);
						long long b = prop(blk, "DTSTART", t2, sizeof(t2)) ? rd_utc(t2) : -1;
						got = e >= 0 && b >= 0 ? e - b : -1;
					}
					if (got != L && !bad) {
						char sig[200];
						bad = 1;
						snprintf(sig, sizeof(sig), "echsq-text/zones/%s/%s/%s", pat == 0 || pat == (1U << n) - 1U ? "one-zone" : "two-zones", lclass(L), ratio(got, L));
						vd_viol(sig, "event %d of the text echsq hands on spans %lld s, the limit is %ld s: %s", nev, got, L, prop(blk, "UID", tmp, sizeof(tmp)) ? tmp : "?");
					}
				}
				if (nev != n) {
					vd_viol("echsq-text/zones/count", "%d events in the text echsq hands on, %d in the user file", nev, n);
				}
				vd_nontrivial();
				vd_count("zone_files", 1);
			}
		}
	}
}

/* limits whose DTSTART and DTEND lie on the two sides of a DST switch of their (common) zone: the limit is the
 * real time between them, not the difference of the wall clocks */
static void
enum_dst(void)
{
	static const struct { const char *z, *b, *e; long L; } T[] = {
		{"Europe/Berlin", "20310330T015958", "20310330T030002", 4},		/* 00:59:58Z .. 01:00:02Z */
		{"America/New_York", "20310309T013000", "20310309T033000", 3600},	/* 06:30Z .. 07:30Z */
		{"Europe/Berlin", "20311025T220000", "20311026T070000", 36000},		/* 20:00Z .. 06:00Z */
		{"America/New_York", "20311102T003000", "20311102T023000", 10800},	/* 04:30Z .. 07:30Z */
		{"Europe/Berlin", "20310329T015958", "20310329T030002", 3604},		/* control: the day before */
	};
	static char user[2048];
	for (size_t i = 0; i < sizeof(T) / sizeof(*T); i++) {
		for (int lead = 0; lead < 2; lead++) {
			size_t o;
			int st, nev = 0;
			const char *ev;
			if (!vd_next()) continue;
			o = (size_t)snprintf(user, sizeof(user), "BEGIN:VCALENDAR\nVERSION:2.0\n");
			if (lead) {
				/* another zone is used first */
				o += (size_t)snprintf(user + o, sizeof(user) - o, "BEGIN:VEVENT\nUID:c14-lead\nSUMMARY:true\nDTSTART;TZID=Asia/Tokyo:20310610T090000\nDTEND;TZID=Asia/Tokyo:20310610T090010\nEND:VEVENT\n");
			}
			o += (size_t)snprintf(user + o, sizeof(user) - o, "BEGIN:VEVENT\nUID:c14-dst\nSUMMARY:true\nDTSTART;TZID=%s:%s\nDTEND;TZID=%s:%s\nEND:VEVENT\nEND:VCALENDAR\n", T[i].z, T[i].b, T[i].z, T[i].e);
			vd_desc("limit %ld s given as DTSTART/DTEND local times of %s on the two sides of a DST switch%s; user file: %s", T[i].L, T[i].z, lead ? " (another zone used first)" : "", user);
			for (char *p = vd_sh->desc; *p; p++) if (*p == '\n') *p = '|';
			vd_shape("dst-span/%s", i + 1 == sizeof(T) / sizeof(*T) ? "control" : "across-switch");
			st = run_chain(user, 0);
			if (st) {
				vd_viol("chain-died", "stage %d of the chain died, wait status %#x", S->stage, st);
				continue;
			}
			for (ev = strstr(S->q_text, "BEGIN:VEVENT"); ev != NULL; ev = strstr(ev + 1, "BEGIN:VEVENT")) {
				char blk[1024], tmp[128], t2[64];
				const char *end = strstr(ev, "END:VEVENT");
				size_t bl = end ? (size_t)(end - ev) : strlen(ev);
				long long got = -2;
				if (bl >= sizeof(blk)) bl = sizeof(blk) - 1;
				memcpy(blk, ev, bl);
				blk[bl] = '\0';
				if (!prop(blk, "UID", tmp, sizeof(tmp)) || strcmp(tmp, "c14-dst")) continue;
				nev++;
				if (prop(blk, "DURATION", tmp, sizeof(tmp))) {
					got = rd_dur(tmp);
				} else if (prop(blk, "DTEND", tmp, sizeof(tmp))) {
					long long e = rd_utc(tmp);
					long long b = prop(blk, "DTSTART", t2, sizeof(t2)) ? rd_utc(t2) : -1;
					got = e >= 0 && b >= 0 ? e - b : -1;
				}
				if (got != T[i].L) {
					char sig[200];
					snprintf(sig, sizeof(sig), "echsq-text/dst-span/%s/%s", T[i].z, ratio(got, T[i].L));
					vd_viol(sig, "the text echsq hands on spans %lld s, the real time between DTSTART and DTEND is %ld s", got, T[i].L);
				}
			}
			if (nev != 1) vd_viol("echsq-text/dst-span/count", "%d events c14-dst in the text echsq hands on", nev);
			vd_nontrivial();
			vd_count("dst_files", 1);
		}
	}
}

/* ---------------------------------------------------------------- align: the limit line on a chunk boundary of each reader */
/* The four readers of the chain take their input in chunks (echsq add_fd(): 32768 bytes per read of the user file; echsd
 * sock_data_cb(): 4096 per recv; echsd _inject_file(): 65536 per read of a queue file; echsx main(): 4096 per read of
 * stdin) and push each chunk into the pull parser.  Here the text a reader gets is laid out so that the line feed of the
 * limit line (DURATION / DTEND / DUE) of the event c14-limit sits at chunk boundary + delta, delta = -win..+win (0: the LF is
 * the first byte of the next chunk; with CRLF line ends the CR is then the last byte of the chunk before), and the limit
 * is followed through the rest of the chain: what echsx arms must be the limit.
 *  leg q   user file of N filler events + the event, read by echsq (32768), LF and CRLF line ends
 *  leg d   echsq's text for such a file handed to echsd in pieces of 4096 bytes the way sock_data_cb() does
 *  leg r   a queue file as echsd's chkpnt1() writes it (one event checkpointed by the real code, replicated by the
 *          driver with other UIDs) loaded by _inject_file() (65536)
 *  leg x   a stream of execution requests as echsd writes them (the request the real chain writes for the event, replicated
 *          by the driver under other UIDs and without limit), read by one echsx (4096)
 *  leg req a single execution request whose recipients (ATTENDEE lines) come before the limit, limit as DUE and as
 *          DURATION, LF and CRLF line ends (4096)
 * (no line may be longer than the parser's 1 KiB line limit, so the padding is made of events / requests / lines)
 * Placement is by padding the command (SUMMARY:true xxx...) of the event; where the text is produced by real code (legs d, r,
 * x) the offset is measured on a first run and the placement verified on the text of the case itself. */
#define AL_BIG	(160 * 1024)
#define AL_UID	"c14-limit"
struct al_s {
	int stage;
	int ntasks;
	int sel;
	long long dur_ms;
	long vlen;
	long qlen;
	long flen;
	char args[256];
	char vtodo[16384];
	char q_text[AL_BIG];
	char qfile[AL_BIG];
};
static struct al_s *A;
static char al_dir[64];

enum {AL_WHOLE, AL_CHUNKED, AL_RELOAD};

/* stages 1-3 for the align mode; echsq in a process of its own, its text collected through the pipe */
static void
al_child(const char *text, size_t len, int how, int chk)
{
	A->stage = 1;
	if (how != AL_RELOAD) {
		int src = memfile("src"), p[2];
		ssize_t n;
		size_t tot = 0;
		pid_t q;
		int st = 0;

		if (write(src, text, len) != (ssize_t)len || lseek(src, 0, SEEK_SET) < 0 || pipe(p) < 0) {
			_exit(81);
		}
		if ((q = fork()) < 0) {
			_exit(81);
		} else if (q == 0) {
			close(p[0]);
			hxq_add(p[1], src);
			_exit(0);
		}
		close(p[1]);
		while (tot < sizeof(A->q_text) - 1 && (n = read(p[0], A->q_text + tot, sizeof(A->q_text) - 1 - tot)) > 0) {
			tot += n;
		}
		A->q_text[tot] = '\0';
		A->qlen = tot;
		close(p[0]);
		while (waitpid(q, &st, 0) < 0 && errno == EINTR);
		if (st) {
			_exit(84);
		}
	}
	A->stage = 2;
	if (hxd_setup() < 0) {
		_exit(82);
	}
	switch (how) {
	case AL_WHOLE:
		A->ntasks = hxd_submit(A->q_text, A->qlen);
		break;
	case AL_CHUNKED:
		A->ntasks = hxd_submit_chunked(A->q_text, A->qlen, 4096U);
		break;
	default:
		A->ntasks = hxd_reload(al_dir, text, len);
		break;
	}
	if (chk) {
		A->flen = hxd_chkpnt(al_dir, A->qfile, sizeof(A->qfile));
		_exit(0);
	}
	A->stage = 3;
	if ((A->sel = hxd_select(AL_UID)) == 0) {
		A->dur_ms = hxd_dur_ms();
		A->vlen = hxd_fire(A->vtodo, sizeof(A->vtodo), A->args, sizeof(A->args));
	}
	A->stage = 4;
	_exit(0);
}

static int
al_run(const char *text, size_t len, int how, int chk)
{
	pid_t p;
	int st = 0;

	memset(A, 0, offsetof(struct al_s, q_text));
	A->q_text[0] = A->qfile[0] = '\0';
	A->vlen = A->flen = -1;
	fflush(stdout);
	if ((p = fork()) == 0) {
		al_child(text, len, how, chk);
	}
	while (waitpid(p, &st, 0) < 0 && errno == EINTR);
	vd_beat();
	return st;
}

static size_t
al_pad(char *buf, long pad)
{
	/* the command: true x, then PAD more x */
	size_t o = (size_t)sprintf(buf, "SUMMARY:true x");
	memset(buf + o, 'x', pad);
	buf[o + pad] = '\0';
	return o + pad;
}

/* user file: NFILL filler events, then the event; *LF receives the offset of the line feed of its limit line */
static size_t
al_user(char *buf, int nfill, long pad, const char *kind, const char *val, const char *eol, long *lf)
{
	char sta[32];
	size_t o;

	fmt_utc(sta, sizeof(sta), START_EPOCH);
	o = (size_t)sprintf(buf, "BEGIN:VCALENDAR%sVERSION:2.0%s", eol, eol);
	for (int i = 0; i < nfill; i++) {
		o += (size_t)sprintf(buf + o, "BEGIN:VEVENT%sUID:c14-fill-%04d%sSUMMARY:true%sDTSTART:%s%sDURATION:PT30M%sEND:VEVENT%s",
				     eol, i, eol, eol, sta, eol, eol, eol);
	}
	o += (size_t)sprintf(buf + o, "BEGIN:VEVENT%sUID:" AL_UID "%s", eol, eol);
	o += al_pad(buf + o, pad);
	o += (size_t)sprintf(buf + o, "%sDTSTART:%s%s%s:%s", eol, sta, eol, kind, val);
	*lf = (long)(o + strlen(eol) - 1U);
	o += (size_t)sprintf(buf + o, "%sLOCATION:/tmp%sEND:VEVENT%sEND:VCALENDAR%s", eol, eol, eol, eol);
	return o;
}

/* execution request with NATT recipients listed before the limit line, the command padded; *LF receives the offset of the line feed of the limit line */
static size_t
al_req(char *buf, int natt, long pad, const char *eol, const char *kind, const char *val, long *lf)
{
	size_t o;

	o = (size_t)sprintf(buf, "BEGIN:VCALENDAR%sVERSION:2.0%sBEGIN:VTODO%sUID:" AL_UID "%s", eol, eol, eol, eol);
	o += al_pad(buf + o, pad);
	o += (size_t)sprintf(buf + o, "%sX-ECHS-SETUID:%u%sX-ECHS-SHELL:/bin/sh%sLOCATION:/%sORGANIZER:echse%s",
			     eol, (unsigned)geteuid(), eol, eol, eol, eol);
	for (int i = 0; i < natt; i++) {
		o += (size_t)sprintf(buf + o, "ATTENDEE:mailto:recipient-%03d@mail.example.com%s", i, eol);
	}
	o += (size_t)sprintf(buf + o, "%s:%s", kind, val);
	*lf = (long)(o + strlen(eol) - 1U);
	o += (size_t)sprintf(buf + o, "%sX-ECHS-UMASK:022%sX-ECHS-MAIL-RUN:0%sX-ECHS-MAIL-OUT:0%sX-ECHS-MAIL-ERR:0%sEND:VTODO%sEND:VCALENDAR%s",
			     eol, eol, eol, eol, eol, eol, eol);
	return o;
}

/* offset of the line feed that ends the first line NAME:... after the line UID:c14-limit in TEXT, -1 if there is none */
static long
al_lf(const char *text, const char *name)
{
	const char *u = strstr(text, "\nUID:" AL_UID "\n"), *p, *e;
	char pat[40];

	snprintf(pat, sizeof(pat), "\n%s:", name);
	if (u == NULL || (p = strstr(u + 1, pat)) == NULL || (e = strchr(p + 1, '\n')) == NULL) {
		return -1;
	}
	return (long)(e - text);
}

static const char*
al_pos(int delta)
{
	return delta == 0 ? "lf-leads-chunk" : delta > 0 ? "cut-in-line" : "cut-after-line";
}

/* everything behind the reader under test: the event must be held, fired, and echsx must arm L */
static void
al_judge(const char *leg, const char *kind, const char *eol, int delta, long L, int st, int want_tasks, time_t now)
{
	const char *en = eol[0] == '\r' ? "crlf" : "lf", *pc = al_pos(delta);
	char tmp[128], t2[128], t3[128];

	if (st) {
		char sig[200];
		snprintf(sig, sizeof(sig), "align/chain-died/%s/%s/%s/%s", leg, kind, en, pc);
		vd_viol(sig, "stage %d of the chain died, wait status %#x", A->stage, st);
		return;
	}
	if (A->ntasks != want_tasks) {
		char sig[200];
		snprintf(sig, sizeof(sig), "align/echsd-count/%s/%s/%s/%s", leg, kind, en, pc);
		vd_viol(sig, "the daemon holds %d tasks, the text it was given has %d events", A->ntasks, want_tasks);
	}
	if (A->sel < 0) {
		char sig[200];
		snprintf(sig, sizeof(sig), "align/no-target/%s/%s/%s/%s", leg, kind, en, pc);
		vd_viol(sig, "the daemon does not hold the event " AL_UID " (%d tasks held)", A->ntasks);
		return;
	}
	if (A->vlen < 0) {
		char sig[200];
		snprintf(sig, sizeof(sig), "align/echsd-nospawn/%s/%s/%s/%s", leg, kind, en, pc);
		vd_viol(sig, "no echsx spawned for the event (daemon holds %lld ms)", A->dur_ms);
		return;
	}
	st = run_echsx(0, A->vtodo, now);
	if (st & 0x7f) {
		vd_viol("align/echsx-died", "echsx killed by signal %d on the request", st & 0x7f);
	} else if (S->x[0].n_spawn != 1) {
		char sig[200];
		snprintf(sig, sizeof(sig), "align/echsx-norun/%s/%s/%s/%s", leg, kind, en, pc);
		vd_viol(sig, "echsx started %d jobs; journal: %s", S->x[0].n_spawn, S->journal[0]);
	} else if (S->x[0].n_alarm == 0 || S->x[0].alarm_arg != (unsigned long)L) {
		char sig[200];
		snprintf(sig, sizeof(sig), "align/armed-%s/%s/%s/%s/%s", S->x[0].n_alarm ? "value" : "none", leg, kind, en, pc);
		vd_viol(sig, "echsx arms %s%u s, the limit is %ld s; echsq sent `%s', echsd holds %lld ms, request says `%s' (line before: `%s')",
			S->x[0].n_alarm ? "" : "no timer, last alarm argument ", S->x[0].alarm_arg, L,
			A->qlen ? (al_lf(A->q_text, "DURATION") >= 0 ? (prop(strstr(A->q_text, "\nUID:" AL_UID "\n") + 1, "DURATION", tmp, sizeof(tmp)) ? tmp : "?") : "no DURATION line") : "(not involved)",
			A->dur_ms, prop(A->vtodo, "DURATION", t2, sizeof(t2)) ? t2 : "no DURATION line",
			prop(A->vtodo, "LOCATION", t3, sizeof(t3)) ? t3 : "?");
	}
	vd_nontrivial();
	vd_count("echsx_runs", 1);
}

static void
al_flat(void)
{
	for (char *p = vd_sh->desc; *p; p++) {
		if (*p == '\n') {
			*p = '|';
		} else if (*p == '\r') {
			*p = '~';
		}
	}
}

static const struct {
	long L;
	const char *dur;
} AL_L[] = {{7, "PT7S"}, {3661, "PT1H1M1S"}};
#define AL_NL	(sizeof(AL_L) / sizeof(*AL_L))
static const char *const AL_EOL[2] = {"\n", "\r\n"};

static void
al_val(char *val, size_t vz, const char *kind, size_t li)
{
	if (!strcmp(kind, "DTEND")) {
		fmt_utc(val, vz, START_EPOCH + AL_L[li].L);
	} else {
		snprintf(val, vz, "%s", AL_L[li].dur);
	}
}

static void
enum_align(void)
{
	static const char *const KIND[2] = {"DURATION", "DTEND"};
	static char text[AL_BIG], ev[4096], fill[4096];
	char val[64];
	long lf;
	const int win = vd_opt_l("win", 3) < 0 ? 0 : vd_opt_l("win", 3) > 30 ? 30 : (int)vd_opt_l("win", 3);

	A = mmap(NULL, sizeof(*A), PROT_READ | PROT_WRITE, MAP_SHARED | MAP_ANONYMOUS, -1, 0);
	if (A == MAP_FAILED) {
		perror("mmap");
		_exit(2);
	}
	/* --- leg x: echsx reads a stream of requests as echsd writes them (4096) */
	for (size_t ki = 0; ki < 2; ki++) {
		for (size_t li = 0; li < AL_NL; li++) {
			static char hdb[1024], ftb[1024];
			size_t hz = 0, ez = 0, fz = 0;
			int calib = 0;

			for (int delta = -win; delta <= win; delta++) {
				const long B = 4096;
				long pad, lf0;
				size_t n, o, fo = 0;
				int st, nf;
				char *p, *q, *u, *d, *de;

				if (!vd_next()) {
					continue;
				}
				al_val(val, sizeof(val), KIND[ki], li);
				vd_shape("align/x/%s/lf/%s", KIND[ki], al_pos(delta));
				if (!calib) {
					/* the request the real chain writes for the event */
					calib = -1;
					n = al_user(text, 0, 0, KIND[ki], val, "\n", &lf);
					if (!al_run(text, n, AL_WHOLE, 0) && A->sel == 0 && A->vlen > 0 &&
					    (p = strstr(A->vtodo, "BEGIN:VTODO\n")) != NULL && (q = strstr(p, "END:VTODO\n")) != NULL &&
					    strstr(p, "\nSUMMARY:true x\n") != NULL && (size_t)(q + 10 - p) < sizeof(ev)) {
						hz = (size_t)(p - A->vtodo), ez = (size_t)(q + 10 - p), fz = strlen(q + 10);
						if (hz < sizeof(hdb) && fz < sizeof(ftb)) {
							memcpy(hdb, A->vtodo, hz), hdb[hz] = '\0';
							memcpy(ev, p, ez), ev[ez] = '\0';
							memcpy(ftb, q + 10, fz + 1);
							calib = 1;
						}
					}
				}
				u = strstr(ev, "\nUID:" AL_UID "\n"), d = strstr(ev, "\nDURATION:"), de = d ? strchr(d + 1, '\n') : NULL;
				if (calib < 0 || u == NULL || de == NULL || u > d) {
					vd_desc("leg x: request written by the chain for a single event with %s:%s", KIND[ki], val);
					vd_viol("align/unplaced/x", "the chain gave no usable request (no VTODO, no DURATION line): %.300s", A->vtodo);
					continue;
				}
				/* a filler is the request under another UID and without a limit */
				fo += (size_t)sprintf(fill + fo, "%.*s\nUID:c14-fill-0000\n", (int)(u - ev), ev);
				fo += (size_t)sprintf(fill + fo, "%.*s%s", (int)(d - (u + 6 + strlen(AL_UID))), u + 6 + strlen(AL_UID), de);
				lf0 = (long)hz + (long)(de - ev);
				nf = (int)((B - win - lf0) / (long)fo);
				pad = B + delta - lf0 - nf * (long)fo;
				memcpy(text, hdb, hz), o = hz;
				for (int i = 0; i < nf; i++) {
					char num[8];
					memcpy(text + o, fill, fo);
					snprintf(num, sizeof(num), "%04d", i);
					memcpy(strstr(text + o, "UID:c14-fill-") + 13, num, 4);
					o += fo;
				}
				p = strstr(ev, "\nSUMMARY:true x\n") + 15;
				memcpy(text + o, ev, (size_t)(p - ev)), o += (size_t)(p - ev);
				memset(text + o, 'x', pad), o += pad;
				memcpy(text + o, p, ez - (size_t)(p - ev)), o += ez - (size_t)(p - ev);
				memcpy(text + o, ftb, fz + 1), o += fz;
				vd_desc("leg x: limit %ld s as %s:%s; the request the chain (echsq, echsd) writes for BEGIN:VEVENT|UID:" AL_UID "|SUMMARY:true x|DTSTART:20310307T100000Z|%s:%s|LOCATION:/tmp|END:VEVENT, "
					"preceded in the same stream by %d copies of its VTODO under UIDs c14-fill-NNNN without the DURATION line, its own SUMMARY padded by %ld x: the line feed of its "
					"DURATION line is byte %ld (0-based) of echsx's stdin, read in chunks of %ld; the request: %s%s%s", AL_L[li].L, KIND[ki], val, KIND[ki], val, nf, pad, B + delta, B, hdb, ev, ftb);
				al_flat();
				if (pad < 0 || al_lf(text, "DURATION") != B + delta) {
					vd_viol("align/unplaced/x", "driver misplaced the limit line (%ld)", al_lf(text, "DURATION"));
					continue;
				}
				st = run_echsx(0, text, 0);
				if (st & 0x7f) {
					vd_viol("align/echsx-died", "echsx killed by signal %d on the request stream", st & 0x7f);
				} else if (S->x[0].n_spawn != nf + 1) {
					char sig[200];
					snprintf(sig, sizeof(sig), "align/echsx-norun/x/%s/lf/%s", KIND[ki], al_pos(delta));
					vd_viol(sig, "echsx started %d jobs for %d requests", S->x[0].n_spawn, nf + 1);
				} else if (S->x[0].n_alarm != 1 || S->x[0].alarm_arg != (unsigned long)AL_L[li].L) {
					char sig[200];
					snprintf(sig, sizeof(sig), "align/armed-%s/x/%s/lf/%s", S->x[0].n_alarm ? "value" : "none", KIND[ki], al_pos(delta));
					vd_viol(sig, "echsx arms a timer %d times, last for %u s; one request of the stream has a limit, %ld s", S->x[0].n_alarm, S->x[0].alarm_arg, AL_L[li].L);
				}
				vd_nontrivial();
				vd_count("echsx_runs", 1);
				vd_sample("leg x, %s:%s, %d requests before, LF of the DURATION line at byte %ld of %zu: echsx arms %u s", KIND[ki], val, nf, B + delta, o, S->x[0].alarm_arg);
			}
		}
	}
	/* --- leg req: a single request with the recipients listed before the limit, limit as DUE / DURATION, both line ends (4096) */
	for (size_t ki = 0; ki < 2; ki++) {
		static const char *const RK[2] = {"DUE", "DURATION"};
		for (size_t ei = 0; ei < 2; ei++) {
			for (size_t li = 0; li < AL_NL; li++) {
				for (int delta = -win; delta <= win; delta++) {
					const long B = 4096;
					const char *eol = AL_EOL[ei];
					const long long now = NOWS[0].now;
					size_t o;
					long pad;
					int st, natt;

					if (!vd_next()) {
						continue;
					}
					if (ki == 0) {
						fmt_utc(val, sizeof(val), now + AL_L[li].L);
					} else {
						snprintf(val, sizeof(val), "%s", AL_L[li].dur);
					}
					(void)al_req(text, 0, 0, eol, RK[ki], val, &lf);
					pad = lf;
					(void)al_req(text, 1, 0, eol, RK[ki], val, &lf);
					natt = (int)((B - win - pad) / (lf - pad));
					pad = B + delta - pad - natt * (lf - pad);
					o = al_req(text, natt, pad, eol, RK[ki], val, &lf);
					vd_desc("leg req: execution request BEGIN:VCALENDAR|VERSION:2.0|BEGIN:VTODO|UID:" AL_UID "|SUMMARY:true x{%ld more x}|X-ECHS-SETUID:%u|"
						"X-ECHS-SHELL:/bin/sh|LOCATION:/|ORGANIZER:echse|%d lines ATTENDEE:mailto:recipient-NNN@mail.example.com (NNN = 000...)|%s:%s|X-ECHS-UMASK:022|X-ECHS-MAIL-RUN:0|X-ECHS-MAIL-OUT:0|X-ECHS-MAIL-ERR:0|END:VTODO|END:VCALENDAR| "
						"with %s line ends, now = 20300615T120000Z, limit %ld s; the line feed of the %s line is byte %ld (0-based), echsx reads its stdin in chunks of %ld",
						pad, (unsigned)geteuid(), natt, RK[ki], val, ei ? "CRLF" : "LF", AL_L[li].L, RK[ki], B + delta, B);
					vd_shape("align/req/%s/%s/%s", RK[ki], ei ? "crlf" : "lf", al_pos(delta));
					if (pad < 0 || lf != B + delta || text[B + delta] != '\n' || (size_t)(B + delta) >= o) {
						vd_viol("align/unplaced/req", "driver misplaced the limit line");
						continue;
					}
					st = run_echsx(0, text, (time_t)now);
					if (st & 0x7f) {
						vd_viol("align/echsx-died", "echsx killed by signal %d on the request", st & 0x7f);
					} else if (S->x[0].n_spawn != 1) {
						char sig[200];
						snprintf(sig, sizeof(sig), "align/echsx-norun/req/%s/%s/%s", RK[ki], ei ? "crlf" : "lf", al_pos(delta));
						vd_viol(sig, "echsx started %d jobs; journal: %s", S->x[0].n_spawn, S->journal[0]);
					} else if (S->x[0].n_alarm == 0 || S->x[0].alarm_arg != (unsigned long)AL_L[li].L) {
						char sig[200];
						snprintf(sig, sizeof(sig), "align/armed-%s/req/%s/%s/%s", S->x[0].n_alarm ? "value" : "none", RK[ki], ei ? "crlf" : "lf", al_pos(delta));
						vd_viol(sig, "echsx arms %s%u s, the limit is %ld s", S->x[0].n_alarm ? "" : "no timer, last alarm argument ", S->x[0].alarm_arg, AL_L[li].L);
					}
					vd_nontrivial();
					vd_count("echsx_runs", 1);
					vd_sample("leg req, %s:%s, %s, LF at byte %ld: echsx arms %u s", RK[ki], val, ei ? "CRLF" : "LF", B + delta, S->x[0].alarm_arg);
				}
			}
		}
	}
	/* --- leg d: echsd takes echsq's text in pieces of 4096 bytes */
	for (size_t ki = 0; ki < 2; ki++) {
		for (size_t li = 0; li < AL_NL; li++) {
			long o0 = -2, o1 = -2;
			for (int delta = -win; delta <= win; delta++) {
				const long B = 4096;
				long pad, got, s;
				size_t n;
				int st, nf;

				if (!vd_next()) {
					continue;
				}
				al_val(val, sizeof(val), KIND[ki], li);
				if (o0 == -2) {
					/* where the event's DURATION line ends in echsq's text without and with one filler event before it */
					n = al_user(text, 0, 0, KIND[ki], val, "\n", &lf);
					o0 = al_run(text, n, AL_WHOLE, 0) ? -1 : al_lf(A->q_text, "DURATION");
					n = al_user(text, 1, 0, KIND[ki], val, "\n", &lf);
					o1 = al_run(text, n, AL_WHOLE, 0) ? -1 : al_lf(A->q_text, "DURATION");
				}
				s = o1 - o0;
				nf = o0 >= 0 && s > 0 ? (int)((B - win - o0) / s) : 0;
				pad = B + delta - o0 - nf * s;
				vd_desc("leg d: limit %ld s as %s:%s; user file with %d filler events (BEGIN:VEVENT|UID:c14-fill-NNNN|SUMMARY:true|DTSTART:20310307T100000Z|DURATION:PT30M|END:VEVENT) "
					"followed by BEGIN:VEVENT|UID:" AL_UID "|SUMMARY:true x{%ld more x}|DTSTART:20310307T100000Z|%s:%s|LOCATION:/tmp|END:VEVENT through echsq; "
					"in echsq's text the line feed of the event's DURATION line is byte %ld (0-based); echsd is given that text in pieces of %ld bytes "
					"(feed_cmd + cmd_ical per piece, as sock_data_cb does)", AL_L[li].L, KIND[ki], val, nf, pad, KIND[ki], val, B + delta, B);
				vd_shape("align/d/%s/lf/%s", KIND[ki], al_pos(delta));
				if (o0 < 0 || o1 < 0 || s <= 0 || pad < 0) {
					vd_viol("align/unplaced/d", "echsq's text for the unpadded file has no DURATION line for the event (offsets %ld, %ld)", o0, o1);
					continue;
				}
				n = al_user(text, nf, pad, KIND[ki], val, "\n", &lf);
				st = al_run(text, n, AL_CHUNKED, 0);
				if (!st && (got = al_lf(A->q_text, "DURATION")) != B + delta) {
					vd_viol("align/unplaced/d", "DURATION line of the event ends at byte %ld of echsq's text, meant %ld", got, B + delta);
					continue;
				}
				al_judge("d", KIND[ki], "\n", delta, AL_L[li].L, st, nf + 1, 0);
				vd_sample("leg d, %s:%s, %d fillers, LF at byte %ld of %ld: echsd holds %lld ms, echsx arms %u s", KIND[ki], val, nf, B + delta, A->qlen, A->dur_ms, S->x[0].alarm_arg);
			}
		}
	}
	/* --- leg q: echsq reads the user file (32768) */
	for (size_t ki = 0; ki < 2; ki++) {
		for (size_t ei = 0; ei < 2; ei++) {
			for (size_t li = 0; li < AL_NL; li++) {
				for (int delta = -win; delta <= win; delta++) {
					const long B = 32768;
					const char *eol = AL_EOL[ei];
					long lf0, lf1, s, pad;
					size_t n;
					int st, nf;

					if (!vd_next()) {
						continue;
					}
					al_val(val, sizeof(val), KIND[ki], li);
					(void)al_user(text, 0, 0, KIND[ki], val, eol, &lf0);
					(void)al_user(text, 1, 0, KIND[ki], val, eol, &lf1);
					s = lf1 - lf0;
					nf = (int)((B - win - lf0) / s);
					pad = B + delta - lf0 - nf * s;
					n = al_user(text, nf, pad, KIND[ki], val, eol, &lf);
					vd_desc("leg q: limit %ld s as %s:%s; user file with %s line ends: %d filler events (BEGIN:VEVENT|UID:c14-fill-NNNN|SUMMARY:true|DTSTART:20310307T100000Z|DURATION:PT30M|END:VEVENT) "
						"followed by BEGIN:VEVENT|UID:" AL_UID "|SUMMARY:true x{%ld more x}|DTSTART:20310307T100000Z|%s:%s|LOCATION:/tmp|END:VEVENT; the line feed of the %s line is byte %ld "
						"(0-based) of the file, echsq reads it in chunks of %ld", AL_L[li].L, KIND[ki], val, ei ? "CRLF" : "LF", nf, pad, KIND[ki], val, KIND[ki], B + delta, B);
					vd_shape("align/q/%s/%s/%s", KIND[ki], ei ? "crlf" : "lf", al_pos(delta));
					if (lf != B + delta || text[lf] != '\n' || pad < 0) {
						vd_viol("align/unplaced/q", "driver misplaced the limit line (%ld)", lf);
						continue;
					}
					st = al_run(text, n, AL_WHOLE, 0);
					al_judge("q", KIND[ki], eol, delta, AL_L[li].L, st, nf + 1, 0);
					vd_sample("leg q, %s:%s, %s, %d fillers, LF at byte %ld of %zu: echsd holds %lld ms, echsx arms %u s", KIND[ki], val, ei ? "CRLF" : "LF", nf, B + delta, n, A->dur_ms, S->x[0].alarm_arg);
				}
			}
		}
	}
	/* --- leg r: a starting echsd loads a queue file (65536) */
	for (size_t li = 0; li < AL_NL; li++) {
		char *hd = NULL, *ft = NULL;
		size_t hz = 0, ez = 0, fz = 0;
		int calib = 0;

		for (int delta = -win; delta <= win; delta++) {
			const long B = 65536;
			long pad, lf0;
			size_t n, o;
			int st, nf;
			char *p, *q;

			if (!vd_next()) {
				continue;
			}
			if (!al_dir[0]) {
				strcpy(al_dir, "/tmp/c14q_XXXXXX");
				if (mkdtemp(al_dir) == NULL) {
					perror("mkdtemp");
					_exit(2);
				}
			}
			vd_shape("align/r/DURATION/lf/%s", al_pos(delta));
			if (!calib) {
				/* the queue file the real code writes for the one event */
				calib = -1;
				n = al_user(text, 0, 0, "DURATION", AL_L[li].dur, "\n", &lf);
				if (!al_run(text, n, AL_WHOLE, 1) && A->flen > 0 &&
				    (p = strstr(A->qfile, "BEGIN:VEVENT\n")) != NULL && (q = strstr(p, "END:VEVENT\n")) != NULL &&
				    strstr(p, "\nUID:" AL_UID "\n") != NULL && strstr(p, "\nSUMMARY:true x\n") != NULL &&
				    al_lf(A->qfile, "DURATION") >= 0 && (size_t)(q + 11 - p) < sizeof(ev)) {
					static char hdb[1024], ftb[1024];
					hz = (size_t)(p - A->qfile), ez = (size_t)(q + 11 - p), fz = strlen(q + 11);
					if (hz < sizeof(hdb) && fz < sizeof(ftb)) {
						memcpy(hdb, A->qfile, hz), hdb[hz] = '\0', hd = hdb;
						memcpy(ev, p, ez), ev[ez] = '\0';
						memcpy(ftb, q + 11, fz + 1), ft = ftb;
						calib = 1;
					}
				}
			}
			if (calib < 0) {
				vd_desc("leg r: checkpoint of a one-event queue");
				vd_viol("align/unplaced/r", "chkpnt1() gave no usable queue file for the single event: %.300s", A->qfile);
				continue;
			}
			/* a filler is the event as checkpointed under another UID and with another limit */
			{
				char *u = strstr(ev, "\nUID:" AL_UID "\n"), *d = strstr(ev, "\nDURATION:"), *de = d ? strchr(d + 1, '\n') : NULL;
				size_t fo = 0;
				if (u == NULL || de == NULL || u > d) {
					vd_desc("leg r: checkpoint of a one-event queue");
					vd_viol("align/unplaced/r", "unexpected layout of the checkpointed event: %.300s", ev);
					continue;
				}
				fo += (size_t)sprintf(fill + fo, "%.*s\nUID:c14-fill-0000\n", (int)(u - ev), ev);
				fo += (size_t)sprintf(fill + fo, "%.*s\nDURATION:PT30M%s", (int)(d - (u + 6 + strlen(AL_UID))), u + 6 + strlen(AL_UID), de);
				lf0 = (long)hz + (long)(de - ev);
				nf = (int)((B - win - lf0) / (long)fo);
				pad = B + delta - lf0 - nf * (long)fo;
				memcpy(text, hd, hz), o = hz;
				for (int i = 0; i < nf; i++) {
					char num[8];
					memcpy(text + o, fill, fo);
					snprintf(num, sizeof(num), "%04d", i);
					memcpy(strstr(text + o, "UID:c14-fill-") + 13, num, 4);
					o += fo;
				}
				/* the event itself, its command padded */
				p = strstr(ev, "\nSUMMARY:true x\n") + 15;
				memcpy(text + o, ev, (size_t)(p - ev)), o += (size_t)(p - ev);
				memset(text + o, 'x', pad), o += pad;
				memcpy(text + o, p, ez - (size_t)(p - ev)), o += ez - (size_t)(p - ev);
				memcpy(text + o, ft, fz + 1), o += fz;
				n = o;
			}
			vd_desc("leg r: limit %ld s as DURATION:%s; queue file = the file chkpnt1() writes for the event " AL_UID " (SUMMARY:true x, DTSTART:20310307T100000Z), with %d copies of "
				"its VEVENT under UIDs c14-fill-NNNN and DURATION:PT30M put before it and its own SUMMARY padded by %ld x: the line feed of its DURATION line is byte %ld (0-based), "
				"_inject_file() reads the file in chunks of %ld; checkpointed event: %s", AL_L[li].L, AL_L[li].dur, nf, pad, B + delta, B, ev);
			al_flat();
			if (al_lf(text, "DURATION") != B + delta || pad < 0) {
				vd_viol("align/unplaced/r", "driver misplaced the limit line (%ld)", al_lf(text, "DURATION"));
				continue;
			}
			st = al_run(text, n, AL_RELOAD, 0);
			al_judge("r", "DURATION", "\n", delta, AL_L[li].L, st, nf + 1, 0);
			vd_sample("leg r, DURATION:%s, %d fillers, LF at byte %ld of %zu: echsd holds %lld ms, echsx arms %u s", AL_L[li].dur, nf, B + delta, n, A->dur_ms, S->x[0].alarm_arg);
		}
	}
	if (al_dir[0]) {
		/* the daemon's journal of the fired runs is all that is left in there */
		char fn[128];
		snprintf(fn, sizeof(fn), "%s/echsj_%u.ics", al_dir, (unsigned)geteuid());
		unlink(fn);
		snprintf(fn, sizeof(fn), "%s/echsq_%u.ics", al_dir, (unsigned)geteuid());
		unlink(fn);
		snprintf(fn, sizeof(fn), "%s/.echsq_%u.ics", al_dir, (unsigned)geteuid());
		unlink(fn);
		rmdir(al_dir);
	}
}

/* ---------------------------------------------------------------- cal: DTSTART..DTEND spans across calendar boundaries */
/* The limit of a DTEND event is the difference of two calendar dates (make_task(): echs_instant_diff()); the chain
 * mode keeps DTSTART on 2031-03-07.  Here DTSTART..DTEND straddles every month boundary (and 28/29 Feb of the leap
 * year) of a leap, a common and -- years=all -- a century year, spans 2 s, 2 h, 26 h, 32 d, three placements: boundary
 * in the middle, DTSTART one second before the boundary, DTEND one second after it.  Both dates are written by the
 * driver's own days-from-civil arithmetic (fmt_utc), the limit L is their distance in seconds; everything else is
 * one_chain_case(): echsx must arm exactly L seconds. */
static void
enum_cal(void)
{
	static const long SPAN[] = {2, 7200, 93600, 2764800};
	static const struct {
		long y;
		const char *cls;
	} YR[] = {{2028, "cal-leap"}, {2027, "cal-common"}, {2032, "cal-leap"}, {2100, "cal-century"}};
	/* 2100 is offered only on request: is it a leap year to __doy()? (see the report of round 8) */
	size_t ny = !strcmp(vd_opt("years", "std"), "all") ? 4 : 3;

	if (dfc(2028, 3, 1) - dfc(2028, 2, 28) != 2 || dfc(2027, 3, 1) - dfc(2027, 2, 28) != 1 || dfc(2100, 3, 1) - dfc(2100, 2, 28) != 1 ||
	    dfc(2000, 3, 1) - dfc(2000, 2, 28) != 2 || dfc(2028, 1, 1) != 21184 || rd_utc("20280301T000000Z") != dfc(2028, 3, 1) * 86400LL) {
		fprintf(stderr, "c14_chain: oracle self-test failed (cal)\n");
		_exit(3);
	}
	for (size_t yi = 0; yi < ny && !vd_stop(); yi++) {
		long y = YR[yi].y;
		int leap = dfc(y, 3, 1) - dfc(y, 2, 28) == 2;

		/* boundary b: midnight that begins the 1st of month b+1 (b = 12: 1 Jan of the next year); b = 0: 29 Feb 00:00 */
		for (int b = leap ? 0 : 1; b <= 12; b++) {
			long long B = (b == 0 ? dfc(y, 2, 29) : b == 12 ? dfc(y + 1, 1, 1) : dfc(y, b + 1, 1)) * 86400LL;

			for (size_t si = 0; si < sizeof(SPAN) / sizeof(*SPAN); si++) {
				long L = SPAN[si];

				for (int pl = 0; pl < (L > 2 ? 3 : 1); pl++) {
					char val[64];

					if (!vd_next()) {
						continue;
					}
					start_epoch = pl == 0 ? B - L / 2 : pl == 1 ? B - 1 : B + 1 - L;
					fmt_utc(val, sizeof(val), start_epoch + L);
					one_chain_case(L, "DTEND", val, YR[yi].cls, 0, 0);
				}
			}
		}
	}
	start_epoch = START_EPOCH;
}

/* ---------------------------------------------------------------- dump (for the real-time runs) */
static int
dump(void)
{
	long L = vd_opt_l("limit", 2);
	const char *kind = vd_opt("kind", "DURATION");
	const char *cmd = vd_opt("cmd", "sleep 8");
	char user[1024], val[64];

	if (!strcmp(kind, "DTEND")) {
		fmt_utc(val, sizeof(val), START_EPOCH + L);
	} else if (!strcmp(kind, "NONE")) {
		kind = "X-NOTHING";
		strcpy(val, "0");
	} else {
		snprintf(val, sizeof(val), "PT%ldS", L);
	}
	if (vd_opt("val", NULL)) {
		snprintf(val, sizeof(val), "%s", vd_opt("val", ""));
	}
	user_file(user, sizeof(user), kind, val, 0, cmd);
	if (run_chain(user, 1) || S->vlen[0] < 0) {
		fprintf(stderr, "c14_chain: chain failed at stage %d\n", S->stage);
		return 2;
	}
	if (getenv("C14_VERBOSE")) {
		fprintf(stderr, "--- echsq sent:\n%s--- echsd holds %lld ms, argv `%s'\n", S->q_text, S->dur_ms[0], S->args[0]);
	}
	fputs(S->vtodo[0], stdout);
	return 0;
}

static void
enumerate(void)
{
	const char *mode = vd_opt("mode", "chain");

	if (!strcmp(mode, "due")) {
		enum_due();
	} else if (!strcmp(mode, "align")) {
		enum_align();
	} else if (!strcmp(mode, "cal")) {
		enum_cal();
	} else if (!strcmp(mode, "zones")) {
		enum_zones();
		enum_dst();
	} else {
		enum_chain();
	}
}

int
main(int argc, char *argv[])
{
	S = mmap(NULL, sizeof(*S), PROT_READ | PROT_WRITE, MAP_SHARED | MAP_ANONYMOUS, -1, 0);
	if (S == MAP_FAILED) {
		perror("mmap");
		return 2;
	}
	for (int i = 1; i + 1 < argc; i++) {
		if (!strcmp(argv[i], "--opt") && !strcmp(argv[i + 1], "mode=dump")) {
			for (int j = 1; j + 1 < argc; j++) {
				if (!strcmp(argv[j], "--opt") && vd_nopts < 64) {
					vd_opts[vd_nopts++] = argv[j + 1];
				}
			}
			return dump();
		}
	}
	return vd_main(argc, argv, enumerate);
}
