"""registry: property id -> drivers, tiers, evidence wording (read by bin/vcheck)"""

import os, glob, importlib.util
from props_util import D  # noqa

PROPS = {}
NOT_APPLICABLE = {}
NOTES = ('All checks are bounded exhaustive enumerations of the real code (no sampling; VERIF_SEED is recorded but selects nothing). '
         'bin/vcheck <ID> rebuilds the library sources of /repo into build/<variant>/ before every run.')
ENGINES = [
    {'name': 'E1', 'path': 'harness/lib', 'serves_properties': [], 'kind_free_text': 'C drivers that enumerate inputs / operation sequences over the freshly compiled library sources and compare with independent reference models; supervised workers turn crashes and hangs into findings'},
    {'name': 'E2', 'path': 'harness/daemon', 'serves_properties': [], 'kind_free_text': 'explicit-state explorer around the unmodified echsd.c with real libev under a virtual clock: fork per transition, canonical-state deduplication, reference model of the daemon (DESIGN.md appendix B)'},
    {'name': 'E3', 'path': 'harness/exec', 'serves_properties': [], 'kind_free_text': 'echsx runner: the real echsx under an LD_PRELOAD shim (sendmail recorder, temp-file log) and echsx.c/echsq.c/echsd.c embedded in harness TUs with a controlled libev loop that enumerates job-output/exit schedules'},
]


for _fn in sorted(glob.glob(os.path.join(os.path.dirname(os.path.abspath(__file__)), 'propdefs', 'c*.py'))):
    _spec = importlib.util.spec_from_file_location('propdef_' + os.path.basename(_fn)[:-3], _fn)
    _m = importlib.util.module_from_spec(_spec)
    _spec.loader.exec_module(_m)
    _m.register(PROPS)

for _e in ENGINES:
    _e['serves_properties'] = sorted(k for k, v in PROPS.items() if v.get('engine', 'E1') == _e['name'])
