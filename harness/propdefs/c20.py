from props_util import D

# the sanitizer report of a crashing case costs ~0.17 s when symbolised, ~0.02 s when not;
# replay a crashing index by hand without this variable to get file:line
# lengths the thorough tier enumerates completely over 2, 3 and 5 keys (the other modes must know, to count each array once)
EXH_T = ['exh2=18', 'exh3=12', 'exh5=7']
ASAN_ENV = {'ASAN_OPTIONS': 'symbolize=0:detect_leaks=0'}


def register(PROPS):
    PROPS['C20'] = {
        'level': 'exploration',
        'technique': 'bounded exhaustive enumeration of input arrays (complete for short arrays, complete over length x family x parameter '
                     'for long ones) on echs_instant_sort / echs_event_sort, compared with a stable counting sort over an alphabet whose '
                     'chronological order is written down; guard pages / ASan as out-of-bounds oracle',
        'claim': 'Every array inside the bound is sorted by the real echs_instant_sort and echs_event_sort (wikisort.c instantiated in '
                 'instant.c and event.c) and the output is compared element by element with a stable counting sort by chronological rank: '
                 'permutation of the input, non-decreasing under echs_instant_lt_p / echs_event_lt_p and in chronological order (all-day '
                 'value before the timed values of its day), equal keys in input order (events; they carry their index in oid/dur/sts). '
                 'The array ends at an inaccessible page (plain) or is an exact-size heap block (asan), so the first access behind it is caught: reported as oob/... by the plain driver (fault handler, the run goes on) and as crash/... by the asan driver.',
        'note': 'Exhaustive over inputs only for the short arrays (which stay inside InsertionSort, n <= 32); for longer arrays exhaustive over '
                '(length x family x parameter x alphabet), not over inputs.  Stability of echs_instant_sort is unobservable: echs_instant_lt_p '
                'compares the whole 64-bit word (after a bijective +1 on H and ms), so two instants that compare equal are the same bit pattern; '
                'instants are checked for permutation (multiset) and order only.  Thresholds of wikisort.c that the lengths are laid around: '
                'n <= 32 is one InsertionSort; n >= 33 sorts 8..15-element chunks with InsertionSortBinary and then merges level by level; a level '
                'whose A/B ranges are shorter than CACHE_SIZE = 512 merges through the 512-element stack cache (MergeExternal), which is every '
                'level for n <= 1023; n = 1024 is the first length with an in-place block-merge level (range length 512..1023), n = 2048 the first '
                'with two, n = 4096 has three (hence 1023/1024/1025, 2047/2048/2049, 4095/4096 and every length in between in mode=fam).  Inside a '
                'block-merge level the internal buffer needs sqrt(len)+1 = 23..46 distinct values per range: the 67-key alphabet takes that regular '
                'path (buffer pulled out, blocks tagged and rolled, MergeExternal per block, buffer redistributed), the 2/3/5-key alphabets take the '
                'fall-back with a short buffer and block_size = len/uniques+1, which is > 512 for 2 keys at len >= 1024 and for all-equal ranges '
                '(MergeInPlace + Rotate with and without cache) and <= 512 otherwise.  MergeInternal / the second internal buffer are unreachable '
                'below n = 2*512^2 and are not covered by this bound.  Signature length classes follow these paths: n<=32, n<1024, n<2048, n<4096, n=4096.',
        'rule': 'one evaluation = one input array sorted and compared (plus the pairs of the comparator pre-check); arrays are distinct under the key '
                '(element type, alphabet, rank sequence): short arrays are enumerated without repetition, family arrays are compared by hash with all '
                'earlier families of the same length and alphabet size (up to n = 512; beyond that the only coincidence, saw-tooth period 1 = all-equal, '
                'is excluded by name), position arrays are compared with every family array and with the other position families, and lengths that the '
                'short enumeration covers completely are not counted again; non-trivial = the rank sequence has at least one descent (>= 2 distinct keys, '
                'the sort has to move something)',
        'bound': {
            'quick': 'instants and events; alphabets k2day {D, D T00:00:00}, k2sec {T10:00:00.999, T10:00:01}, k2prev {D-1 T23:59:59, D}, k3, k3b (3 keys), '
                     'k5 (5 keys: D-1 T23:59:59.999, D, D T00:00:00, D T12:30:15.250, D+1), k67 (23 days x {all-day, T00:00:00, T12:00:00.500}); '
                     '(a) every array of length <= 13 over each 2-key alphabet and of length <= 9 over each 3-key alphabet; '
                     '(b) for every length 0..4096 and every alphabet: sorted, reversed, all-equal (lowest / highest key), saw-tooth period 1..16, organ-pipe, '
                     'r equal sorted runs r = 2, 3, 4, floor(sqrt n), three fixed multiplicative strides (i*s mod 4099) mod K; '
                     '(c) for every length in {0..130} u {2^k-1, 2^k, 2^k+1} u {511..514, 1000, 1536, 2000, 3000, 3072, 4095, 4096} and alphabets k2day, k5, k67: '
                     'two full sorted runs split at i for every i, sorted with the highest key at position i for every i, sorted with the lowest key at position i for every i; '
                     '(d) under ASan+bounds: (a), (b) for lengths 0..1100 and the special lengths above, (c) for special lengths <= 1025',
            'thorough': 'quick with (a) extended to length <= 18 over 2 keys, <= 12 over 3 keys, <= 7 over 5 keys; (c) over all seven alphabets and additionally every '
                        'length <= 600 and 1016..1032, 2040..2056, 4088..4096; ASan+bounds over all of (b) and over (c) at the quick lengths with all alphabets',
        },
        'drivers': [
            D('c20_sort', ['mode=exh'], ['mode=exh'] + EXH_T, label='short-exhaustive', shards=16),
            D('c20_sort', ['mode=fam'], ['mode=fam'] + EXH_T, label='families-every-length'),
            D('c20_sort', ['mode=pos', 'alpha=k2day+k5+k67'], ['mode=pos', 'dense=1', '--deadline', '480'] + EXH_T, label='positions-special-lengths'),
            D('c20_sort', ['mode=exh', 'count=0'], label='short-exhaustive-asan', variant='asan', shards=4, env=ASAN_ENV),
            D('c20_sort', ['mode=fam', 'count=0', 'nhi=1100', 'extra=1'], ['mode=fam', 'count=0', '--deadline', '480'], label='families-asan', variant='asan', env=ASAN_ENV),
            D('c20_sort', ['mode=pos', 'count=0', 'nmax=1025', 'alpha=k2day+k5+k67'], ['mode=pos', 'count=0', '--deadline', '480'], label='positions-asan', variant='asan', env=ASAN_ENV),
        ],
        'assumptions': [
            'events are hand-built structs (from = the key, index in oid/dur/sts): echs_event_sort is a pure function of the array and echs_event_lt_p reads only .from; '
            'the key instants themselves come from text through dt_strp and are cross-checked against field-by-field construction',
            'an all-second value (time without fraction) and an explicit fraction of the same second never occur in one alphabet: the property does not order them',
            'no values with scale/zone bits in y, m, d; every alphabet stays within a few days so that rank order = chronological order is beyond doubt',
            'stability of echs_instant_sort is not observable (see note) and not claimed',
            'stack accesses outside the 512-element cache of WikiSort are visible only to the asan drivers',
        ],
    }
