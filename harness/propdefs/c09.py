from props_util import D


def register(PROPS):
    G = ['mode=grammar', '--case-timeout', '60']
    H = ['mode=hostile', '--case-timeout', '60']
    F = ['mode=fillers', '--case-timeout', '60']
    MQ = ['rmenu=4', 'xmenu=3']
    MT = ['rmenu=6', 'xmenu=4']
    PROPS['C09'] = {
        'level': 'exploration',
        'technique': 'bounded exhaustive enumeration of a rule grammar plus a hostile layer under AddressSanitizer + bounds checking, '
                     'with a CPU-time budget per call as termination oracle and a guard page behind the fillers\' buffer; events with several '
                     'recurrence and exception sources driven through drain / early release / clone scripts under ASan and, in the plain build, on a '
                     'guarded heap (guard zones, poisoned released blocks, audit after every script)',
        'claim': 'Every rule of (a) the C01 grammar under a reduced extension menu from unsynchronised and synchronised DTSTARTs and (b) a hostile '
                 'layer (time-of-day products of 63..129, 1440, 3600 and 86400 instants per day; INTERVAL 1..13, 59..61, 1000, 2^31-1, 2^32 and '
                 'unit multiples, alone and against one BY-part on and off DTSTART for every FREQ; ordinals +-53 and +-5; BYMONTHDAY +-31/30 in '
                 'February/April; BYYEARDAY +-366; Hijri month day 31 and a table calendar that has run out; DTSTART in 1601, 1900, 1901, at the '
                 'end of 2099, in 2105, 4095, 9999, on Feb 30, in month 13, at hour 24, on day 0), each in three embeddings (alone, with an RDATE, '
                 'two RRULEs), is parsed by the real parser and asked for 300 occurrences; the seven fillers are also called directly like '
                 'refill() does on a 128-instant buffer that ends at an inaccessible page.  Checked: no sanitizer report or fault, fillers return '
                 '<= 64, every call answers within the CPU budget, a terminated rule stops yielding, a rule whose RFC set is empty yields nothing.  '
                 '(d) Occurrences on the very second at which a zone changes its UTC offset (tzswitch): for every zone and year of the bound the events DTSTART;TZID=zone:<year>0101T000000 with FREQ=HOURLY;COUNT=8790 and FREQ=MINUTELY;INTERVAL=30;COUNT=17580 and DTSTART at each of the 24 full hours of January 1st with FREQ=DAILY;COUNT=366 are followed to their end (on the stream\'s clock they pass through every transition second of the year that lies on a full or half hour UTC), and for 30 zones echs_tzob_offs and echs_instant_loc are called at T-1, T, T+1 and echs_instant_utc at the wall-clock images of these seconds under the offset before and after, for every transition T of 1902..2037 of the zone\'s 32-bit table (read by the driver\'s own TZif reader).  Checked: every call answers within the CPU budget, no sanitizer report, COUNT is not exceeded.  '
                 '(c) Events with several sources at once (multirule): DTSTART 2024-03-01T10:00Z with every ordered selection of 0..3 finite rules '
                 'of a menu as RRULEs, four RDATE variants (none, one date, three unsorted dates, two lines), every ordered selection of 0..3 '
                 'finite rules of a second menu as EXRULEs and three EXDATE variants (none, one date, two lines), each freshly parsed event run '
                 'through the scripts: asked to end-of-stream and twice more, then released; released after 0, 1, 2, 5 occurrences (what cancelling '
                 'or replacing a task does); cloned after 0 or 2 occurrences with the clone drained and released before the original, after it, '
                 'or both released undrained.  Checked: no sanitizer report or fault (asan variant); in the plain variant every block the library '
                 'obtains during a script lies in a private arena between guard zones of 5120 bytes and stays poisoned once released, and after the '
                 'script no guard zone and no released block has changed, nothing was released twice or released without having been handed out; '
                 'the stream answers end-of-stream after at most as many occurrences as all sources list together and stays ended; the occurrences '
                 'are (union of what each RRULE yields alone plus the RDATEs) minus (what each EXRULE yields alone plus the EXDATEs); a clone '
                 'delivers what the original delivers from where it was taken.',
        'note': 'Run under -fsanitize=address,bounds.  Budget: a call that has not answered after 0.25 s of CPU is a hang if the driver can prove '
                'the rule\'s set empty (INTERVAL steps never meet the time/weekday filters over a full cycle, or no calendar day satisfies the '
                'date parts over 400 years); otherwise the case is run again with 3 s (quick 2 s) before it is called a hang.  After the first '
                'hang of a (rule, DTSTART) unit its remaining embeddings are not run.  Direct filler calls that do not answer are only counted: '
                'termination of the same rule and DTSTART is judged through its stream.  "Bounded work" is judged against these budgets, not proven.',
        'rule': 'case = one event text (or one direct filler sequence); a supervised unit is (rule, extension, DTSTART) resp. (hostile rule, '
                'DTSTART) with its terminations/embeddings; all texts distinct; non-trivial = the unterminated stream / filler sequence '
                'delivered >= 2 instants; multirule: case = one event with all its scripts, an evaluation = one script on a freshly parsed '
                'event, non-trivial = the event has >= 2 occurrences; tzswitch: case = (zone, year) with its 26 events resp. a zone with its direct calls, an evaluation = one event followed to its end resp. one direct call, non-trivial = the zone has a transition on the half-hour grid in that year resp. a transition in 1902..2037',
        'bound': {
            'quick': 'grammar: BY-part subsets <= 1, INTERVAL {1,2}, 4 anchors (+ derived synchronised DTSTART), extensions {none, SHIFT=1B, SHIFT=-40, '
                     'BYEASTER=-2, SCALE=HIJRI.IA, TZID=Europe/Berlin}, terminations {none, COUNT 65, UNTIL on 4th}; hostile: reduced INTERVAL '
                     'list {2,7,13,60,1000,2^31-1,2^32,24,168,1440,86400}, product factorisations with a factor 1, 2 DTSTARTs; fillers: hostile '
                     'rules + grammar rules of size <= 1; multirule: RRULE menu of 4 (YEARLY COUNT 3, WEEKLY UNTIL, DAILY;INTERVAL=3 COUNT 70, '
                     'DAILY COUNT 1), EXRULE menu of 3, ordered selections of <= 3 each (41 x 16) x 4 RDATE x 3 EXDATE variants less those without RRULE and RDATE = 7824 events x 11 scripts; tzswitch: streams in 7 zones (Europe/Berlin, America/New_York, Australia/Sydney, Europe/London, America/Sao_Paulo, Australia/Lord_Howe, Pacific/Auckland) x 2010..2036 (189 zone-years, 343 switch seconds on the grid, 6.6 million occurrences), direct calls in 30 zones (4511 switch seconds x 12 calls)',
            'thorough': 'grammar (ASan): subsets <= 1, INTERVAL {1,2,7}, 6 anchors, every single extension but the table calendars; grammar-pairs '
                        '(plain build, clauses hang / exhausted-yields / empty-yields only): subsets <= 2, INTERVAL {1,2}, 4 anchors, reduced '
                        'extension menu; hostile: full lists, 3 DTSTARTs, COUNT=130 in every embedding; fillers: hostile rules + grammar rules of '
                        'size <= 2, 6 anchors; multirule: RRULE menu of 6 (+ MONTHLY COUNT 4, HOURLY;INTERVAL=5 COUNT 4), EXRULE menu of 4, '
                        'ordered selections of <= 3 each (157 x 41) x 4 x 3 less those without RRULE and RDATE = 77121 events x 11 scripts; tzswitch: streams in all 30 zones x 1971..2036 (1980 zone-years, 3231 switch seconds on the grid, 69.6 million occurrences), direct calls as in quick',
        },
        'drivers': [
            D('c09_hostile', H + ['hquick=1', 'b2=2'], H, label='hostile', variant='asan'),
            D('c09_hostile', G + ['maxparts=1', 'intervals=1,2', 'anchors=4', 'exts=min', 'b2=2'],
              G + ['maxparts=1', 'intervals=1,2,7', 'anchors=6', 'exts=all', '--deadline', '200'], label='grammar', variant='asan'),
            D('c09_hostile', G + ['maxparts=2', 'intervals=1,2', 'anchors=4', 'exts=min', '--deadline', '250'], label='grammar-pairs',
              tiers=('thorough',)),
            D('c09_hostile', F + ['hquick=1', 'maxparts=1', 'intervals=1,2', 'anchors=4'],
              F + ['maxparts=2', 'intervals=1,2,7', 'anchors=6', '--deadline', '100'], label='fillers', variant='asan'),
            D('c09_hostile', ['mode=selfex', '--case-timeout', '60'], label='self-excluded', variant='asan', shards=8),
            D('c09_hostile', ['mode=tzswitch', 'b2=2', '--case-timeout', '60'], ['mode=tzswitch', 'zones=all', 'y0=1971', '--case-timeout', '60'], label='tz-switch-second', variant='asan'),
            D('c09_multirule', MQ, MT, label='multirule', variant='asan'),
            D('c09_multirule', MQ, MT, label='multirule-guarded-heap'),
        ],
        'assumptions': ['calendar years up to 2099: a stream is asked no further once it has delivered an occurrence after 2099 (the code counts leap '
                        'years as y % 4 and its weekday bookkeeping drifts after 2100-02-28)',
                        'TZID cases that may look up the zone\'s last 32-bit transition are left out (C07 finding)',
                        'tzswitch: only termination and memory safety are judged there (what the conversions answer is C07\'s subject); the transition seconds come from the version-1 block of the installed zone file as tzfile(5) describes it (harness/ref/tzifmini.h); streams stay within 1971..2037, before the zone\'s last 32-bit transition; after six stream hangs in a shard its remaining (zone, year) cases are left out and counted (left_out_after_repeated_hangs), on a tree without a hang nothing is left out',
                        'clause exhausted-yields / empty-yields only for plain rules of the C01 grammar (synchronised DTSTART resp. reference set '
                        'empty up to 2099 / 9 years / 400 days / 10 days for FREQ >= DAILY / HOURLY / MINUTELY / SECONDLY); DTSTART itself is tolerated '
                        'as an answer of an empty set',
                        'INTERVAL=4294967296 (1*DIGIT, read as 0 by the parser) is included as syntactically acceptable',
                        'multirule: all menu rules are finite and synchronised with DTSTART, so whether DTSTART belongs to the set does not arise; '
                        'for events without an RRULE the DTSTART instant is left out of the comparison; the constituent sets of the rules are '
                        'read through the same library from single-rule events (differential), the date lists from the driver\'s own table',
                        'multirule, plain variant: malloc/calloc/realloc/free of the driver executable (hence of the library compiled into it) '
                        'are replaced by the guarded arena while a script runs; a stray access is seen if it is a WRITE within 5120 bytes of a block '
                        'of that script or into a released one; reads and farther writes are the asan variant\'s business',
                        'multirule, asan variant: once three events of one shape (counts of RRULEs/EXRULEs as 0, 1, 2+, RDATE/EXDATE present or '
                        'not) have killed the worker in one shard, the remaining events of that shape are left out and counted '
                        '(left_out_after_repeated_crashes); on a tree without such a report nothing is left out'],
    }
