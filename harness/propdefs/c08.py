from props_util import D

def register(PROPS):
    PROPS['C08'] = {
        'level': 'exploration',
        'technique': 'bounded exhaustive enumeration of instants, instant pairs, durations and unix times 1901-2099 on the real '
                     'instant.c / tzob.c / echsd.c code against an independent civil-calendar reference (days-from-civil, ref/civil.h)',
        'claim': 'For every input listed under "bound": echs_instant_diff (also via echs_range_dur) equals the true elapsed milliseconds; '
                 'echs_instant_add (also via echs_event_range) of the true difference lands on the partner instant, and the difference '
                 'of a sum gives the duration back; echs_instant_fixup of an instant with overflowed fields is the same point in time in '
                 'normal form; echs_instant_to_epoch, epoch_to_echs_instant and the daemon\'s instant_to_tstamp (the unmodified echsd.c '
                 'included into the driver) equal the calendar value, hence each other; echs_instant_lt_p/le_p/eq_p agree with the '
                 'reference order in which an all-day instant precedes every time of its day and a whole-second instant precedes every '
                 'millisecond of its second.  Day level: complete for diff and order (all ordered pairs of days, thorough); add is complete '
                 'for |delta| <= 1500 days and strided beyond (see bound).  A duration with a sub-day part added to an ALL-DAY instant (mode dayfrac, directly and via echs_event_range, what `echse unroll --format %e\' shows for a DATE event with DURATION:P1DT12H) gives an all-day instant again, on a calendar day that is less than a day away from the true elapsed time (base + floor(d) .. base + ceil(d) days), and the difference of that sum and the base is that whole number of days.  epoch_to_echs_instant does not depend on what was converted before (mode epochseq): for every ordered pair (t1, t2) of the times listed under "bound" the calls for t1, t2, t1 made back to back in one process each give the calendar value.  What the daemon is really armed for: in the embedded echsd (engine E2, harness/daemon) a one-shot task is queued for every day of 2020..2040 (thorough: 1971..2099), '
                 'once as a DATE and once at a second of the day that moves with the date, and libev\'s armed time is read back: it must be that very second (own civil arithmetic), for the DATE a second of that day.',
        'note': 'The millisecond level is structured, not complete: 7 times of day (+4 whole-second, + all-day) on both sides of every '
                'month boundary and leap day.  The inverse clauses add(a,diff(b,a))=b and diff(add(a,d),a)=d follow from the two '
                'calendar clauses and are reported through them; diff-of-add is additionally judged on its own where add was right.  '
                'A crash inside a conversion is reported as crash/<mode>/<era>.',
        'rule': 'a case is one base day / month boundary / (year, month) / day whose partner values are looped inside; evaluations count '
                'the inputs (instant pairs of one kind, (instant,duration) pairs, field combinations, conversions), all distinct by '
                'construction; non-trivial = pairs whose two instants lie in different months (days), differ at all (intraday), every '
                '(instant,duration) pair (durs, dayfrac), field combinations with at least one field out of its range (fixup), every conversion '
                'except t=0 (epoch, tstamp); epochseq: a case is a day, an evaluation an ordered pair (t1, t2) converted as t1, t2, t1, non-trivial when t1 != t2',
        'bound': {
            'quick': 'days: every day 1901-01-01..2099-12-31 x delta in {0, +-1..+-400, +-k*365, +-k*366, +-k*1461 (all k in range), first day, last day}, '
                     'all-day and whole-second kinds; intraday: 24 instants around each of the 2436 month boundaries/leap days x those of the 12 '
                     'boundaries on either side + first + last; durs: the same instants x 33 durations (1 ms .. 36525 d, incl. 2^31 and 2^32 ms) of both signs; '
                     'fixup: 199 years x m 1..24 x d 1..62 x (H 0..48 | all-day) x M {0,59,60,119} x S {0,59,60,63} x ms {0,999,1000,1022,all-sec}; '
                     'epoch (both library directions) and tstamp: every day x seconds {0,1,43199,43200,86399} (+ all-day, .000/.999 ms for tstamp); dayfrac: the all-day instants on both sides of the 2436 month boundaries/leap days x (w days + r ms), w in {0,1,2,27..31,59,60,365,366,1461,36524}, r in {1,999,1000,59999,60000,3599999,3600000,43199999,43200000,43200001,86399000,86399999}, both signs, two entry points (3.1 million inputs); epochseq: every day D of 1901-2099, t1 in {D 00:00:00 - 1 s, D 00:00:00, D 00:00:01, D 12:00:00} x t2 in {seconds 0, 1, 86399 of D-3 .. D+3, t1 +- 365/366/1461 d, 1901-01-01T00:00:00, 2099-12-31T23:59:59, unix -1, 0, 2^31 - 1, 2^31}: 9.6 million ordered pairs, three calls each',
            'thorough': 'days: ALL ordered pairs of days 1901..2099 (72684^2) for diff and order in both kinds; add for every |delta| <= 1500 d and '
                        'beyond that every 3rd delta (all-day kind) / every 25th delta (whole-second kind); intraday: every ordered pair of boundaries '
                        '(24x24 instants within 12 boundaries, 10x10 beyond); epoch both directions and tstamp: EVERY second of 1901-2099; '
                        'durs, dayfrac, epochseq and fixup as in quick',
        },
        'drivers': [
            D('c08_instant', ['mode=days', 'deltas=quick'],
              ['mode=days', 'deltas=all', 'addmax=1500', 'addstride=3', 'addstride2=25', '--deadline', '540'], label='days'),
            D('c08_instant', ['mode=intraday', 'span=12'], ['mode=intraday', 'span=all', '--deadline', '540'], label='intraday'),
            D('c08_instant', ['mode=durs'], label='durs'),
            D('c08_instant', ['mode=dayfrac'], label='allday-subday'),
            D('c08_instant', ['mode=fixup'], label='fixup'),
            D('c08_instant', ['mode=epoch', 'secs=3'], ['mode=epoch', 'secs=all', '--deadline', '540'], label='epoch'),
            D('c08_tstamp', ['secs=5'], ['secs=all', '--deadline', '540'], label='tstamp'),
            D('c08_instant', ['mode=epochseq'], label='epoch-call-order'),
            D('e2_explore', ['prop=C08', 'mode=arm', 't0=0', 'y0=2020', 'y1=2040', '--case-timeout', '120'], ['prop=C08', 'mode=arm', 't0=0', '--case-timeout', '300'], label='daemon-arms'),
            D('c08_instant', ['mode=intraday', 'span=2'], label='intraday-asan', variant='asan', shards=4),
            D('c08_instant', ['mode=durs'], label='durs-asan', variant='asan', shards=4),
            D('c08_tstamp', ['secs=5'], label='tstamp-asan', variant='asan', shards=4),
        ],
        'assumptions': [
            'years 1901-2099 only (every 4th year is leap there); results that would leave the range are not judged',
            'arithmetic is judged between instants of one kind only (all-day with all-day, whole-second with whole-second, millisecond with millisecond); '
            'durations added to all-day instants are whole days, to whole-second instants whole seconds (modes days, intraday, durs); for an all-day instant plus a duration with a sub-day part neither instant.h nor the README says to which side the remainder is dropped (today: toward the base day for both signs), so mode dayfrac accepts either neighbouring day and only demands an all-day calendar day within one day of the true elapsed time; in mode dayfrac, once an input of a (sign, magnitude) class has failed in a case the remaining inputs of that class are left out of that case and counted (a wrong day count makes a single call walk millions of months); on a tree without such a failure nothing is left out',
            'fixup inputs have m >= 1 and d >= 1 (only additive overflow, as the function documents)',
            'echs_instant_to_epoch / epoch_to_echs_instant are judged on timed instants only: the library maps an all-day instant to the END of its day, '
            'the daemon to its start; both readings are defensible, so all-day is left out for the library and taken as 00:00:00 UTC for the daemon (what it does today)',
            'a unix time converts to the instant of that second; its ms field may be 0 or the whole-second marker, nothing else',
            'the daemon timestamp is judged over all of 1901-2099 as the property says, although a comment in echsd.c restricts the function to 2001-2099 '
            '(instants before 2001 matter: unwind_till() compares them with now)',
        ],
    }
