from props_util import D

def register(PROPS):
    PROPS['C17'] = {
        'level': 'exploration',
        'technique': 'complete enumeration of offsets x years / shift specs x rules through the real iCalendar parser and stream, '
                     'compared with the anonymous Gregorian computus and day-number arithmetic written from the README',
        'claim': 'BYEASTER: for every N in -366..366 one stream DTSTART 1901-01-01, FREQ=YEARLY;BYEASTER=N is read to the end of 2099 and must contain '
                 'exactly Easter(y)+N for every y in 1901..2099 whose image lies in 1901..2099 (N=0: Easter Sunday itself, 199 years). '
                 'SHIFT: for every spec in {N, NB, NB+, NB- : N in -366..366} + {-0B, -0B-} (2934 specs; quick: 134) and each of the 366 rules '
                 'FREQ=YEARLY;BYMONTH=m;BYMONTHDAY=d three streams are read: unlimited from 2020-01-01 (the images of the source years 2023..2030 must '
                 'occur exactly once and nothing else between them), DTSTART 2023-01-01 with COUNT=8, and DTSTART 2023-01-01 with UNTIL=2030-12-31 '
                 '(the whole stream must be what the limits leave of the shifted dates).  Every text goes through echs_evical_push/pull; '
                 'complete within these bounds in the thorough tier.  A further family (multi) has SEVERAL selected dates per period - '
                 'BYMONTH=1,6;BYMONTHDAY=5 / BYMONTH=12;BYMONTHDAY=1,25 / BYMONTH=1,12;BYMONTHDAY=1,31 / BYDAY=1MO,20MO (YEARLY) and BYMONTHDAY=1,28 (MONTHLY), '
                 'each with INTERVAL 1 and 2, from 2020-01-01 - and judges every occurrence in 2023..2030 against the shifted images of the selected dates.  '
                 'Family mstart judges FREQ=MONTHLY;BYMONTHDAY=d;SHIFT=spec from DTSTART itself on (d in {1,2,15,28..31}, DTSTART 2020-01-01/02/15/31, every spec with |N| <= 70, to 2021-06-30): '
                 'an image on or after DTSTART of a date in DTSTART\'s month or later must occur, nothing else may.  '
                 'Family setpos combines BYSETPOS with SHIFT: FREQ=MONTHLY with BYDAY=MO,TU,WE,TH,FR / BYMONTHDAY=1,2,3 / 28,29,30,31 / 1,15,31 / BYDAY=SA,SU and '
                 'FREQ=YEARLY with BYDAY=MO,TU,WE,TH,FR (alone, with BYMONTH=1, with BYMONTH=12) / BYMONTH=1,12;BYMONTHDAY=1,31, each with BYSETPOS in {1, -1, 2, -2, "1,-1"} '
                 'and every SHIFT spec with |N| <= 10 (thorough 20; days, B, and the six zero forms), DTSTART 2019-01-01, judged to the end of 2023 (thorough 2035): the date BYSETPOS '
                 'selects in each period is computed independently (weekday / day-of-month arithmetic), every occurrence must be an image of a selected date, '
                 'every selected date on or after DTSTART whose images lie in the window must occur, strictly increasing.  '
                 'Family timed has a TIME of day and a list of times: DTSTART:20200101T090000Z, FREQ=MONTHLY with BYMONTHDAY=1,-1 / 1,31 / 1,2,-1 / BYDAY=SA,SU;BYSETPOS=1,-1 and '
                 'FREQ=YEARLY;BYMONTH=1,12 with BYMONTHDAY=1,31 / 1,2,31, each with BYHOUR=9,17 / BYHOUR=9,17;BYMINUTE=0,30 / BYMINUTE=0,30 / BYSECOND=0,30 / BYHOUR=9 / no list, and SHIFT in '
                 '{0B, 0B+, -0B, 0B-, +-1B, +-2B, +-3B, +-5B, 0, +-1, +-2}, read to the end of 2030: the days of the stream are the days of the same rule read as an all-day rule without the lists '
                 '(DTSTART;VALUE=DATE:20200101, the stream the other families judge), every day exactly once with exactly the listed times, strictly increasing - in particular dates of adjacent '
                 'periods that a business-day shift puts on one day (Sat 2020-02-29 and Sun 2020-03-01 -> Mon 03-02) come once - and with COUNT=c (c = 1..24) the stream is exactly the first c instants of the unlimited one.  '
                 'Family carry is BYEASTER with INTERVAL and BYEASTER after BYEASTER: (a) FREQ=YEARLY;INTERVAL=i;BYEASTER=N (i in {1,2,3,4,5,7}, N in {0,-2,1,39,49,-46,-102,250}) without SHIFT, with SHIFT=1B and SHIFT=-1B, '
                 'DTSTART 1 January of 1999, 2000, 2001, 2010, 2024, the first 30 occurrences (to the end of 2098): occurrence k is the (shifted) Easter(y0 + k*i)+N of the computus; '
                 '(b) sequences in ONE process: a rule A (DTSTART 2000 or 2003, INTERVAL 1 or 2, BYEASTER 0 or 39, COUNT 1..3) is read to its end, then a rule B that starts -8, -1, 0, 1, 2, 3, 5 or 10 years after A\'s last period '
                 '(INTERVAL 1..3, BYEASTER in {0,-2,1,49,-46}, SHIFT none/1B/-1B, COUNT=6), then A again: each of the three streams must be what the computus gives, the two readings of A must be equal, and B must equal '
                 'what the same text gives in a process in which nothing has been expanded before (a differential clause for state kept between expansions).',
        'note': 'Where README + property text are silent the oracle accepts every defensible reading (see assumptions), so it is lenient there; '
                'combined specs (SHIFT=x,yB), FREQ=MONTHLY rules other than those of the multi, mstart, setpos and timed families, timed DTSTARTs and BYHOUR/BYMINUTE/BYSECOND lists outside the timed family and other BY* parts together with SHIFT/BYEASTER are not in the grammar '
                '(C16 covers their ordering and bounds).',
        'rule': 'easter: a case is one N (one stream, 199 year-offsets inside; evaluations count year-offsets); shift: a case is one (family, spec, month) '
                'with one stream per day of the month inside (evaluations count streams).  Cases are distinct by construction; non-trivial = every easter '
                'case, and every shift case whose spec is not the plain SHIFT=0 (which moves nothing); timed: a case is one (SHIFT spec, rule, time list), evaluations count streams (the unlimited one and one per COUNT), non-trivial when the list has more than one time and the spec is not the plain SHIFT=0; carry: a case is one (INTERVAL, N) with 15 streams inside, or one (A, start of B, INTERVAL of B) with 15 sequences of three streams + one stream in a fresh process inside (evaluations count streams), all non-trivial; the sanitizer passes repeat cases and are not counted',
        'bound': {
            'quick': 'BYEASTER complete (733 N x 199 years); SHIFT for N in {-8..8, +-31, +-258..262, +-300, +-366} x {days, B, B+, B-} + -0B, -0B- '
                     '(134 specs) x 366 rules x 3 families = 147 132 streams; plain family again under ASan; '
                     'setpos: 9 rules x 5 BYSETPOS values x 46 specs (|N| <= 10) = 2070 streams to 2023, again under ASan; '
                     'timed: 17 specs x 6 rules x 6 time lists = 612 unlimited streams to 2030 + 24 COUNT streams each (15 300 streams), again under ASan; '
                     'carry: 720 single streams of 30 occurrences + 8640 sequences (A, B, A again, B in a fresh process), again under ASan',
            'thorough': 'BYEASTER complete; SHIFT complete: 2934 specs x 366 rules x 3 families = 3 221 532 streams; quick set again under ASan; '
                        'setpos: 9 rules x 5 BYSETPOS values x 86 specs (|N| <= 20) = 3870 streams to 2035; timed and carry as in quick',
        },
        'drivers': [
            D('c17_easter_shift', ['mode=long', 'nlist=quick', 'ymax=1945'], ['mode=long', 'nlist=all', 'ymax=1961'], label='shift-long'),
            D('c17_easter_shift', ['mode=multi', 'nlist=quick', '--sample-every', '41'], ['mode=multi', 'nlist=all', '--sample-every', '401'], label='shift-multi', shards=4),
            D('c17_easter_shift', ['mode=multi', 'nlist=quick', 'nocount=1', '--samples', '0'], label='shift-multi-asan', variant='asan', shards=4),
            D('c17_easter_shift', ['mode=mstart', '--sample-every', '37'], label='shift-monthly-from-dtstart'),
            D('c17_easter_shift', ['mode=mstart', 'nocount=1', '--samples', '0'], label='shift-monthly-from-dtstart-asan', variant='asan'),
            D('c17_easter_shift', ['mode=setpos', 'nmax=10', 'ytill=2023', '--sample-every', '53'], ['mode=setpos', 'nmax=20', 'ytill=2035', '--sample-every', '97'], label='shift-setpos', shards=4),
            D('c17_easter_shift', ['mode=setpos', 'nmax=10', 'ytill=2023', 'nocount=1', '--samples', '0'], label='shift-setpos-asan', variant='asan', shards=4),
            D('c17_easter_shift', ['mode=easter', '--sample-every', '61'], label='easter', shards=8),
            D('c17_easter_shift', ['mode=shift', 'fam=plain', 'nlist=quick', '--sample-every', '97'],
              ['mode=shift', 'fam=plain', 'nlist=all', '--sample-every', '1777'], label='shift-plain'),
            D('c17_easter_shift', ['mode=shift', 'fam=count', 'nlist=quick', '--sample-every', '97'],
              ['mode=shift', 'fam=count', 'nlist=all', '--sample-every', '1777'], label='shift-count'),
            D('c17_easter_shift', ['mode=shift', 'fam=until', 'nlist=quick', '--sample-every', '97'],
              ['mode=shift', 'fam=until', 'nlist=all', '--sample-every', '1777'], label='shift-until'),
            D('c17_easter_shift', ['mode=easter', 'nocount=1', '--samples', '0'], label='easter-asan', variant='asan', shards=8),
            D('c17_easter_shift', ['mode=shift', 'fam=plain', 'nlist=quick', 'nocount=1', '--samples', '0'], label='shift-plain-asan', variant='asan'),
            D('c17_easter_shift', ['mode=timed', '--sample-every', '29'], label='shift-timed', shards=4),
            D('c17_easter_shift', ['mode=timed', 'nocount=1', '--samples', '0'], label='shift-timed-asan', variant='asan', shards=4),
            D('c17_easter_shift', ['mode=carry', '--sample-every', '37'], label='easter-carry', shards=4),
            D('c17_easter_shift', ['mode=carry', 'nocount=1', '--samples', '0'], label='easter-carry-asan', variant='asan', shards=4),
        ],
        'assumptions': [
            'Easter Sunday = anonymous Gregorian algorithm (Meeus ch. 8), harness/ref/computus.h, self-tested against 20 published dates; '
            'day numbers and weekdays from harness/ref/civil_c15.h',
            'BYEASTER: only occurrences inside 1901-01-01..2099-12-31 are judged; images of Easter 1900 and 2100 falling into that window may or may not '
            'occur and may be a day off (1900/2100 are outside the property\'s range)',
            'SHIFT=NB on a weekday source = N steps over Mon-Fri days.  On a Saturday/Sunday source with N != 0 README ("add N business days") and the '
            'property text ("after first moving a weekend date to the adjacent business day") allow two readings: the hop onto the adjacent business day '
            'counts as the first step, or it does not; BOTH results are accepted (Sat+1B = Mon or Tue), for every suffix',
            'N = 0: weekend source goes to the adjacent business day, forward for 0B and 0B+, back to Friday for -0B, 0B- and -0B-; -0B+ is contradictory and left out; '
            'the B+/B- suffix is given no meaning for N != 0',
            'DTSTART, COUNT and UNTIL are applied to the shifted date.  A source date before DTSTART (behind UNTIL) whose shifted image lies inside is '
            'OPTIONAL: present or absent are both accepted, including the consequence for which 8 occurrences COUNT=8 keeps',
            'setpos: BYSETPOS selects before SHIFT moves ("moves every selected date").  Where a shift does not keep the candidates of a period in strict order '
            '(business-day shifts with weekend candidates, whose images coincide) selecting before or after the shift differ; in such a period every candidate is accepted and none is demanded.  '
            'A selected date before DTSTART whose image lies on or after it may or may not occur.  Shifts of more than 20 (business) days are left out of this family: from the 31st they reach over '
            'two month ends, where occurrences are lost at cache refills (the known monthly findings)',
            'timed: the day set of the timed rule is taken from the all-day reading of the same rule (a differential clause: BYHOUR/BYMINUTE/BYSECOND give a day its times, they do not select days); '
            'the listed times are not before DTSTART\'s own time of day (09:00:00), so DTSTART\'s day keeps all of them; shifts of at most 5 (business) days',
            'carry: a period is every INTERVAL-th calendar year from DTSTART\'s; Easter(y)+N of a period year y that stays, with its shifted image, inside y must occur; one that lands in another year (N = -102, a shifted 31 December), '
            'or lands in a period year from a year that is none, may or may not occur (the README does not say to which period such a day belongs); occurrences behind 2098-12-31 (the first image of Easter 2100) are not judged; '
            '"a process in which nothing has been expanded before" is a child of a server process forked off before the first expansion of the run',
            'occurrences are all-day (DTSTART;VALUE=DATE) outside the timed family; an occurrence that is not a date of the calendar (month 13, 29 February of a common year) is a violation',
        ],
    }
