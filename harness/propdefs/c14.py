import os
from props_util import D

_V = os.path.dirname(os.path.dirname(os.path.dirname(os.path.abspath(__file__))))
_X = os.path.join(_V, 'build', 'plain', 'exec')
_PY = '/usr/bin/python3'


def register(PROPS):
    PROPS['C14'] = {
        'engine': 'E3',
        'level': 'exploration',
        'technique': 'bounded exhaustive enumeration of limit values x spellings x event shapes pushed through the unmodified functions of '
                     'all three programs in one harness (echsq.c add_fd/massage/icalify -> echsd.c feed_cmd/cmd_ical/_inject_task1/resched/'
                     'task_cb/run_task/vtodoify -> echsx.c main/echsx/set_timeout, each source file included into a TU of its own), '
                     'alarm() and time() interposed in the echsx TU; plus real-time runs of the echsx binary (ten in the quick tier, fifteen in the thorough tier, eight of them request streams with two or three requests, some of which echsx has to refuse)',
        'claim': 'For every limit in the bound, written as DTEND, as DURATION in every legal RFC 5545 spelling (with and without a '
                 'leading +) on a single and on a recurring event, the number of seconds echsx arms for the run equals the limit; for '
                 'execution requests with DUE, echsx arms due - now for three positions of the clock and refuses a DUE in the past '
                 'with the documented journal entry without starting the job (DUE equal to now: refused or killed at once, never started without a timer).  Limits given as local times of two zones (DTSTART and DTEND with TZID, 3-4 events per file, every pattern of Europe/Berlin and America/New_York, five limits) must come out of echsq with the same span for every event; five limits whose DTSTART and DTEND are local times on the two sides of a DST switch of their zone (Berlin and New York, spring and autumn 2031, plus a control) must come out as the real time between them.  A DTEND limit is the distance of two calendar dates: with DTSTART..DTEND (UTC) laid across every month boundary, the turn of the year and 28/29 Feb of the leap years 2028 and 2032 and the common year 2027 (spans 2 s, 2 h, 26 h, 32 d; boundary in the middle of the span, one second after DTSTART, one second before DTEND), echsx arms exactly the number of seconds between the two dates as counted by the driver\'s own days-from-civil arithmetic.  The limit survives the chunking of each of the four readers of the chain: with the text a reader gets laid out so that the line feed of the limit line (DURATION, DTEND, DUE) falls on every offset in a window around the chunk boundary of that reader (echsq 32768 bytes per read of the user file, echsd 4096 per recv of the socket, echsd 65536 per read of a queue file it reloads, echsx 4096 per read of its stdin; LF and, where the text is the user\'s, CRLF line ends), the daemon holds every event of the text and echsx arms exactly the stated limit for the event on the boundary.  Real runs: jobs outliving a 1 s / 2 s limit die '
                 'within [limit, limit + 4 s] with the signal in the journal, a job finishing earlier is unaffected; this holds for every request of a '
                 'stream of two or three requests handled by one echsx process (what one request leaves behind - handler, pending alarm, signal mask, clock reading - meets the next): '
                 'a job outliving its 1 s limit (or its DUE) is killed also when the request before it was refused (DUE an hour past, unknown user) and its shell is one that keeps the signal mask it inherits (bash), '
                 'and also when echsx itself was started with SIGALRM and SIGXCPU blocked; of three DUE requests in one stream each is measured against the clock at the moment its turn comes '
                 '(the one whose DUE passed while the request before it ran is refused, the one whose turn comes 2 s before its DUE has a timer of DUE - now, within a second, and is dead by DUE + 4 s, the one finishing long before its DUE is unaffected), one journal entry per request, in order.  '
                 'The termination record survives the company of other executors of the same user: with the journal handed to every echsx the way echsd does '
                 '(a descriptor of its own, no O_APPEND, at the end as of start time), a run killed at its limit next to a run that started earlier or later, '
                 'next to a not-run report, next to a second run killed by the same limit, and queueing for the journal lock while another writer appends, '
                 'leaves exactly one complete entry per execution with X-SIGNAL:24 for the killed ones and nothing mangled.',
        'note': 'The end-to-end clause is "seconds armed in echsx == limit".  The hand-overs in between (text echsq sends, duration the '
                'daemon holds, DURATION line of the execution request, echsx given the same limit in ISO form) are judged too, but '
                'reported only for cases whose end-to-end clause fails, as a diagnosis of the hop that loses the limit.  The daemon side '
                'is driven by calling the callbacks in the order libev does (reschedule_cb, then task_cb) instead of waiting for 2031; '
                'kill latency is observed on nine runs, not enumerated.',
        'rule': 'a case is one (limit, spelling, event shape) triple [chain] or one (clock position, DUE offset) pair [due] or one real run '
                '[real-time] or one (year, boundary, span, placement) tuple [cal] or one (reader, limit, kind, line end, offset of the limit line relative to the chunk boundary) tuple [align]; all distinct by construction; non-trivial = the chain reached echsx and echsx was run on the request '
                '(every case that is not reported as chain-died / echsd-refused)',
        'bound': {
            'quick': 'limits 1..180 s every second + 40 values from 5 min to 4 weeks (incl. 86399/86400/86401 s, 2^31 ms +- 1 s) x '
                     '{DTEND, DURATION as PTnS, PTnM, PTnH, PnD, PnW, PnDTnHnMnS with zeros, PTnMnS, PTnHnM, normalised} x {no sign, +} x '
                     '{single event, FREQ=DAILY;COUNT=3 (first two runs)}: 3540 chain cases; DUE = now + each of the 220 limits and DUE = now - '
                     '{1 s .. 1 year} for now in {2030-06-15T12:00:00Z, 2031-01-15T08:30:00Z, 2032-02-28T23:59:30Z}: 681 cases; 10 real-time runs (two single requests, two streams; refused (overdue DUE / unknown user) then killed under bash x {DURATION, DUE}; DUE early + DUE killed + DUE overdue at its turn; DUE early + DUE overdue + DURATION killed under bash; single request with SIGALRM+SIGXCPU blocked at start); 6 placements of 1-2 real executors (one at least killed at its limit) on one journal; chunk alignment: limits {7 s, 3661 s} x line feed of the limit line at boundary -3..+3 for 5 readers/texts '
                     '(user file -> echsq 32768: DURATION/DTEND x LF/CRLF; echsq text -> echsd in 4096-byte pieces: DURATION/DTEND; queue file written by chkpnt1 -> _inject_file 65536; stream of echsd-written requests -> echsx 4096: DURATION/DTEND; '
                     'single request with recipients before the limit -> echsx 4096: DUE/DURATION x LF/CRLF): 182 cases; calendar boundaries: years {2028, 2027, 2032} x {28/29 Feb (leap years), end of each of the 12 months} x {2 s centred; 2 h, 26 h, 32 d x {centred, DTSTART = boundary - 1 s, DTEND = boundary + 1 s}} as DTSTART/DTEND of a single event: 380 cases',
            'thorough': 'as quick with limits 1..1800 s every second (26k chain cases, 5.5k DUE cases) + 9 real-time runs '
                        '(sleep 8 under 1 s and 2 s given as DURATION and DTEND; sleep 0 under 2 s; streams killed+killed, killed+unharmed+killed, unharmed+killed+killed) + the 6 streams with refused / DUE requests of the quick tier; the 6 shared-journal placements; chunk alignment as quick with the window -16..+16 (858 cases); calendar boundaries as quick',
        },
        'targets': [os.path.join(_X, x) for x in ('echsx_shim.so', 'c14_chain')],
        'drivers': [
            D('build/plain/exec/c14_chain', ['mode=chain', 'maxsec=180'], ['mode=chain', 'maxsec=1800'], label='chain'),
            D('build/plain/exec/c14_chain', ['mode=due', 'maxsec=180'], ['mode=due', 'maxsec=1800'], label='due'),
            D('build/plain/exec/c14_chain', ['mode=zones'], label='zones', shards=4),
            D('build/plain/exec/c14_chain', ['mode=align'], ['mode=align', 'win=16'], label='align'),
            D('build/plain/exec/c14_chain', ['mode=cal'], label='cal'),
            D('harness/exec/c14_rt.py', ['set=quick'], [], label='real-time', interp=_PY, shards=1),
            D('harness/exec/c12_journal.py', ['set=killed'], label='shared-journal', interp=_PY, shards=6),
        ],
        'assumptions': [
            'every journal entry of a session (one echsx process fed several requests) is BEGIN:VTODO followed by its DTSTAMP line (clause rt/journal-form of the real-time streams)',
            'limits are whole seconds (neither DURATION nor the date-time forms used carry fractions); DTSTART/DTEND in UTC form',
            'calendar boundaries (mode=cal): years 2027..2032 only, i.e. inside the span 1901..2099 in which every fourth year is a leap year; the century year 2100 is available as years=all and is not part of the claim (there the unchanged tree counts a 29 Feb 2100: __doy() of instant.c tests y % 4 only, __jan00() uses the Gregorian rule)',
            'DURATION spellings are generated from the strict RFC 5545 grammar (after H only M, after M only S); the internal hand-overs are read leniently (any ISO 8601 P[nW][nD][T[nH][nM][nS]])',
            'DUE equal to now: refused and killed-at-once are both accepted; starting the job without any timer is a violation',
            'the daemon-side callbacks are invoked directly in libev\'s order; the submitting user is the invoking user (uid 0 here), whose passwd entry supplies the default shell/home',
            'shared journal: the order of the reports is placed by the driver (the earlier run is held until the later has reported; executors queue behind a stand-in that holds the fcntl lock until /proc/locks shows them waiting); two executors that report at the same instant without anybody holding the lock are not placed, which of two waiting executors gets the lock first is left to the kernel (the oracle does not depend on it)',
            'chunk alignment: the text in front of the limit line is made of further events (user file, echsq text, queue file), further requests of the same stream or ATTENDEE lines (single request), '
            'each line shorter than the parser\'s 1 KiB line limit, plus a padded command (SUMMARY:true xxx...); the queue file and the request stream are the texts the real chkpnt1() / vtodoify() write for the one event, replicated by the driver under other UIDs; '
            'the socket is modelled as delivering echsq\'s text in full pieces of 4096 bytes (feed_cmd + cmd_ical per piece, then the empty read and shut_cmd, as sock_data_cb does); what follows the limit line is another property line (LOCATION or X-ECHS-UMASK) or, in echsq\'s and chkpnt1\'s texts, END:VEVENT',
            'real-time part: a kill is late when the journal shows the job alive more than 4 s past its limit (shared machine); it is early when echsx armed fewer seconds than the limit (alarm() calls logged by the preloaded shim; the run time in the journal is counted from the spawn, which on a busy machine has been seen more than a second after the arming, so it is consulted only when the alarm() calls are not on record: tolerance 0.1 s)',
            'request streams with DUE: DUE times are laid relative to T0, the second in which the driver starts echsx (20 ms into it); the moment a request\'s turn comes is bracketed by the journal itself, whole seconds: not before COMPLETED of the entry before it (for the first: T0), not after its own DTSTART (COMPLETED of a refusal); a refusal is wrong if journalled before DUE, a start is wrong if the request before it ended after DUE, the timer must be DUE - now for a now in that bracket (one more second of tolerance); the DUE requests themselves are echsd\'s request for the same job with the DUE line put where the DURATION line would be, the refused ones likewise (DUE an hour past / X-ECHS-SETUID naming no user); a request without a command is not used as the refused one (echsx -v ends with a segmentation fault on such a request: jlog_task() takes strlen() of the missing command)',
            'inherited mask: echsx exec\'d by a parent that has SIGALRM and SIGXCPU blocked must still enforce the limit (echsd itself spawns echsx with an empty mask)',
        ],
    }
