from props_util import D

_T = ['--case-timeout', '30']


def register(PROPS):
    PROPS['C07'] = {
        'level': 'exploration',
        'technique': 'bounded exhaustive enumeration of zones x probe instants x visiting orders on the real tzob/tzraw/evical code, '
                     'expected values from Python zoneinfo (independent TZif reader) on the same installed files, computed at check time',
        'claim': 'For every zone file in the bound, every second adjacent to a transition of 1902-2037 (3 on the UTC side, 3 on each of the two '
                 'local sides), the midpoint of every inter-transition interval and the 15th 12:00 local of every month 1902-2037 is converted '
                 'with echs_instant_loc / echs_instant_utc / echs_tzob_offs(+x) and compared with zoneinfo: UTC->local always, local->UTC for '
                 'unambiguous existing wall-clock times, UTC->local->UTC where the local image is unambiguous, and loc(utc(x)) is a fixed point '
                 'of loc.utc for gap and fold times.  Each probe is run on a freshly opened zone and again inside three visiting orders of the '
                 'whole table (descending, ascending, zigzag) because the per-zone range cache makes results order dependent.  Around every '
                 'transition of 6 years per zone real TZID events (text -> parser -> stream) with DAILY / WEEKLY / MONTHLY rules are read back and '
                 'each occurrence compared with zoneinfo, plus a MONTHLY x12 event per chosen year.  All cyclic access orders (start x stride, 3 '
                 'rounds) and hot-zone orders over 15/16/17/18 zones with pairwise distinct offsets, and one process using 63/64/65 distinct TZIDs '
                 '(library calls and parsed events), must still convert correctly.  Zone table overflow: for every installed zone T for which nine other installed zones exist whose first hash probe takes T\'s nine probe slots of the bottom region (184 here), a calendar with events in those nine zones followed by a winter and a summer daily event in T must give T\'s events the occurrences they have alone (each reading in a freshly forked image).  The cache-order cases run with 24 file descriptors (a zone that falls out of the cache is opened again; descriptors must not leak).  Events with two RRULEs in a zone (c03_tworules) must be the union of the single-rule events.  Several occurrences per day (mode byhour): for every zone of the tier and every year of the bound in which the zone is at offset 0 on January 1st, the events DTSTART;TZID=zone:<year>0101T<h1>0000 RRULE:FREQ=DAILY;BYHOUR=h1,h2 (all 21 pairs of the hours 0..6 and 0/12, 3/13, 12/13, 1/23, 22/23, 0/23) are read back through the whole year (730 or 732 occurrences each): every wall-clock time that exists once must occur, in order, at the instant zoneinfo gives for it -- also for the second time of a day on whose first time another offset was in force.  A zone whose file cannot be opened at one moment must work once it can (mode transient): for each of 25 zones B off UTC, with another zone in use before or none, RLIMIT_NOFILE is lowered to 0 around the FIRST use of B (echs_instant_loc / echs_instant_utc / echs_tzob_offs / a parsed TZID event; open(2) answers EMFILE, the result is not judged) and restored; then B is used nine times (3 instants x loc / utc / offs, resp. three parsed events) and the zone used before once more: every result must be zoneinfo\'s, each case in a freshly forked image.  Written out and read again (mode rewrite): each of the TZID events of mode rule whose DTSTART exists once is written with the project\'s own writer (echs_task_icalify, in the form echsq sends to the daemon and in the form of the daemon\'s checkpoint file; `echse merge\' uses the same writer), the text is parsed again and the re-read stream must give the instants zoneinfo assigns to the stated wall-clock times, as the directly read event does (an event that is already off when read directly is mode rule\'s finding and left out).  A library call that does not return within its CPU budget is a hang.',
        'note': 'Instants from 2038-01-01 on, leap-second ("right/") files and the posix/ copy of the tree are outside the check. '
                'Gap and fold wall-clock times are classified by the reference and never judged one-way. '
                'RRULE expansion itself is C01; here only DTSTART + k days / 7k days / k months with an existing day of month are used, and in mode byhour '
                'FREQ=DAILY with a two-element BYHOUR list.  In mode byhour a wall-clock time inside a gap or fold absorbs one occurrence of the stream within a day '
                'of it (whatever its rendering, wherever the stream sorts it) or none.',
        'rule': 'a case is (zone, visiting order) for conversions, a zone for events, one access sequence for the zone cache; evaluations count '
                'every compared library call resp. every event read back resp. every cache access; non-trivial = probes bound to a transition '
                '(the 9 seconds around it), counted once per zone in the isolated pass + events whose expected occurrences span a change of '
                'UTC offset + cache sequences that force a slot replacement (>= 16 zones) or an MFU swap (hot zone) + the 63/64/65-TZID cases; byhour: a case is a (zone, year) with offset 0 on '
                'January 1st, evaluations count expected occurrences, non-trivial = the UTC offset changes inside the year; transient: a case is (zone B, zone in use before or none, operation during the shortage), evaluations count the compared calls / events after the shortage, every case is non-trivial; rewrite: a case is a zone, evaluations count re-read events (two written forms per event), non-trivial = the zone is off UTC at DTSTART or the offset changes inside the event',
        'bound': {
            'quick': '45 named zones (both hemispheres, 30- and 45-minute offsets, January/February transitions, 0, 1 and > 200 transitions, '
                     'date-line jumps, negative DST): all their transitions 1902-2037; events around the transitions of 6 years per zone; '
                     'all cache sequences; byhour: the same zones x every year 1972-2036 x 27 hour pairs (560 zone-years at offset 0 on January 1st, '
                     '238 of them with offset changes); transient: 25 zones x {no zone, one zone in use before} x 4 first operations = 200 cases; rewrite: the events of mode rule in the 45 zones (7322 with a DTSTART that exists once and a right direct stream) x 2 written forms, again under ASan',
            'thorough': 'all 447 distinct TZif files of the installed tree outside right/ and posix/: all their transitions 1902-2037 '
                        '(about 27k), events around the transitions of 6 years per zone; all cache sequences; byhour: all these zones x every year 1903-2036 x 27 hour pairs '
                        '(2384 zone-years, 746 with offset changes); transient as in quick; rewrite: the events of mode rule in all 447 zones (63 761 judged) x 2 written forms',
        },
        'drivers': [
            D('c07_tz', ['mode=conv', 'tier=quick'] + _T, ['mode=conv', 'tier=thorough', '--deadline', '540'] + _T, label='conv'),
            D('c07_tz', ['mode=rule', 'tier=quick'] + _T, ['mode=rule', 'tier=thorough'] + _T, label='rule'),
            D('c07_tz', ['mode=cache', 'tier=thorough'] + _T, label='cache', shards=8),
            D('c07_collide', ['maxtargets=2000'], label='zone-table-overflow', shards=4),
            D('c03_tworules', ['mode=rules'], label='two-sources-rules', shards=4),
            D('c03_tworules', ['mode=rdates'], label='two-sources-rdates', shards=4),
            D('c03_tworules', ['mode=rules'], label='two-sources-rules-asan', shards=4, variant='asan'),
            D('c07_collide', ['maxtargets=60'], ['maxtargets=2000'], label='zone-table-overflow-asan', shards=4, variant='asan'),
            D('harness/ref/tzif_oracle.py', ['--vdrv', 'quick'], ['--vdrv', 'thorough'], interp='python3', label='oracle-selfcheck', shards=16),
            D('c07_tz', ['mode=conv', 'tier=quick', 'orders=seq'] + _T, label='conv-asan', variant='asan', shards=8),
            D('c07_tz', ['mode=rule', 'tier=quick'] + _T, label='rule-asan', variant='asan', shards=8),
            D('c07_tz', ['mode=cache', 'tier=thorough'] + _T, label='cache-asan', variant='asan', shards=8, tiers=('thorough',)),
            D('c07_tz', ['mode=byhour', 'tier=quick'] + _T, ['mode=byhour', 'tier=thorough', 'y0=1903'] + _T, label='byhour'),
            D('c07_tz', ['mode=byhour', 'tier=quick', 'ystep=4'] + _T, label='byhour-asan', variant='asan'),
            D('c07_tz', ['mode=transient'] + _T, label='transient-open-failure', shards=8),
            D('c07_tz', ['mode=rewrite', 'tier=quick'] + _T, ['mode=rewrite', 'tier=thorough'] + _T, label='rewrite'),
            D('c07_tz', ['mode=rewrite', 'tier=quick'] + _T, label='rewrite-asan', variant='asan', shards=8),
        ],
        'assumptions': [
            'the system time-zone database is the installed tree TZDIR (config.h, /usr/share/zoneinfo) without right/ and posix/; a zone is one '
            'distinct file content',
            'the reference is CPython 3.11 zoneinfo opened on the same file (ZoneInfo.from_file); its two views of a wall-clock time '
            '(candidate preimages and PEP 495 folds) agree on all 915k local probes of the tree (tzif_oracle.py --selftest)',
            'an instant is what the parser makes of YYYYMMDDTHHMMSS (second resolution); echs_tzob_offs takes a UTC instant',
            'a library call that uses more than 100 ms CPU is a hang (a conversion takes microseconds)',
            'mode transient: the only fault injected is EMFILE from open(2) through RLIMIT_NOFILE = 0 for the duration of one library call (resp. one parse + first pop); what that one call answers is not judged (the README says nothing about a zone that cannot be read), only that the failure is not remembered once the file can be opened; the 25 zones are those of the cache-order list that are off UTC and unambiguous at the three probe instants',
            'mode rewrite: the writer is used as echsq and echsd use it (harness/ref/c05_common.h c05_seria) on a task none of whose occurrences has been consumed; what is judged is the re-read stream against zoneinfo, '
            'not the written text (the writer puts a Z behind the local time of a zoned DTSTART; whether that is good iCalendar is not C07\'s matter as long as the project\'s own reader takes it for the local time); '
            'events whose DTSTART lies in a gap or fold are left out, gap/fold occurrences inside an event are treated as in mode rule; field fidelity of the round trip is C05',
            'mode byhour takes only (zone, year) with UTC offset 0 at DTSTART (Europe/London, Lisbon, Dublin, Atlantic/Canary, Antarctica/Troll ... in winter): '
            'the rule parts are evaluated in the frame of DTSTART\'s offset, so only there does BYHOUR=h plainly mean h o\'clock on the zone\'s wall clock; '
            'the thorough tier goes back to 1903: with double summer time (offsets +1 <-> +2, neither the one at DTSTART) the tree is '
            'wrong (DTSTART;TZID=Europe/Lisbon:19450125T220000 RRULE:FREQ=MONTHLY;COUNT=8 puts 1945-08-25 22:00 WEMT at 21:00Z instead of 20:00Z), '
            'a known finding (signatures byhour/wrong-utc/*/*/away-from-offset-0)',
        ],
    }
