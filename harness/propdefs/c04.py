from props_util import D

E2_NOTE = ('Trusted: the harness seams of harness/daemon/hx.h (virtual clock, fake posix_spawn, in-memory spool, fixed passwd table, '
           'socketpair clients, ev_feed_event for child exits, from a check watcher of the highest priority when exit and expiry share an iteration) and the reference model in e2_explore.c (DESIGN.md appendix B).  '
           'Everything else is the unmodified echsd.c, libechse and the real static libev (select backend).')


def register(PROPS):
    PROPS['C04'] = {
        'engine': 'E2',
        'level': 'model_checking',
        'technique': 'explicit-state exploration of the real echsd (fork per transition, canonical-state deduplication) against a reference model',
        'claim': 'Every history up to the stated depth over {ADD/replace (5 schedule templates incl. all-in-the-past and straddling load time), '
                 'CANCEL, TICK on-time / idle / late by 1-2 further occurrences, EXIT of any live job, an on-time TICK in whose very loop iteration the exit of a live job is noticed (child watcher invoked before the periodic, as libev does)} with two UIDs is executed on the embedded '
                 'daemon; after every event the spawns of that step (exactly one per task with a due occurrence, none otherwise, never the no-run '
                 'flag, SETUID = owner), the task table, libev\'s armed time and the remaining occurrences are compared with the model.  A second '
                 'run repeats this with 1.5 s of virtual time passing while a wake-up is handled (the deviation that exposes lost occurrences).',
        'note': E2_NOTE + '  libev time-jump handling (wall clock set back/forth) and sub-second order between different tasks are not in the alphabet.',
        'rule': 'case = one pair of first two events; everything below it is explored exhaustively to the depth bound with a visited table per case; '
                'states/transitions/traces are summed over cases (a state reached under two different first pairs is counted twice); non-trivial = '
                'the subtree holds >= 2 distinct states',
        'bound': {'quick': 'depth 5 at T0 = 2030-01-01 (drift run depth 4; a further run at T0 = 2028-03-01, a leap-year March, depth 4; at T0 = 2037-02-05T06:28:10Z, six seconds before the seconds since 1901 pass 2^32, depth 4; at T0 = 2040-03-01 depth 3); narrow alphabet (one UID, the two- and three-occurrence schedules, the schedule with two EXDATEs, the one whose RRULE and RDATE name one instant twice, ADD/replace, CANCEL, on-time TICK, TICK with a failing start, TICK+EXIT, EXIT) depth 9; the same plus a second UID with six occurrences and MAX-SIMUL 1 (starts with the no-run flag happen legitimately) depth 7; three UIDs whose hashes force the task table to grow by more than double, one schedule each, depth 6; linear histories of 65535, 65536, 65537 and 200 occurrences a minute apart followed to the end (one real start per occurrence, the task gone afterwards)', 'thorough': 'depth 6 (depth 7 ran clean before the alphabet grew by the exception template and the combined tick-and-exit event; drift run depth 5, leap-March and 2037 runs depth 5, 2040 run depth 4), narrow alphabet depth 12 (depths 12 / 20 ran clean with the smaller alphabet of the earlier rounds)'},
        'counter_map': {'states': 'states', 'transitions': 'transitions', 'traces_validated_against_impl': 'traces'},
        'drivers': [
            D('e2_explore', ['prop=C04', 'depth=5', '--case-timeout', '60'], ['prop=C04', 'depth=6', '--case-timeout', '300'], label='depth'),
            D('e2_explore', ['prop=C04', 'depth=4', 'drift=1.5', '--case-timeout', '60'], ['prop=C04', 'depth=5', 'drift=1.5', '--case-timeout', '300'], label='drift'),
            D('e2_explore', ['prop=C04', 'depth=4', 't0=1835481600', '--case-timeout', '60'], ['prop=C04', 'depth=5', 't0=1835481600', '--case-timeout', '300'], label='leap-march'),
            D('e2_explore', ['prop=C04', 'depth=3', '--case-timeout', '60'], ['prop=C04', 'depth=4', '--case-timeout', '120'], label='asan', variant='asan'),
            D('e2_explore', ['prop=C04', 'depth=4', 't0=2117428090', '--case-timeout', '60'], ['prop=C04', 'depth=5', 't0=2117428090', '--case-timeout', '300'], label='2^32-s-since-1901'),
            D('e2_explore', ['prop=C04', 'depth=3', 't0=2214172800', '--case-timeout', '60'], ['prop=C04', 'depth=4', 't0=2214172800', '--case-timeout', '300'], label='year-2040'),
            D('e2_explore', ['prop=C04', 'mode=long', '--case-timeout', '300'], label='long-series', shards=4),
            D('e2_explore', ['prop=C04', 'alpha=narrow2', 'depth=7', '--case-timeout', '120'], ['prop=C04', 'alpha=narrow2', 'depth=9', '--case-timeout', '600'], label='narrow-with-limited-task'),
            D('e2_explore', ['prop=C04', 'uids=collide', 'depth=6', '--case-timeout', '120'], ['prop=C04', 'uids=collide', 'depth=8', '--case-timeout', '600'], label='colliding-uids'),
            D('e2_explore', ['prop=C04', 'alpha=narrow', 'depth=9', '--case-timeout', '120'], ['prop=C04', 'alpha=narrow', 'depth=12', '--case-timeout', '600'], label='narrow-deep'),
        ],
        'assumptions': ['a task with nothing left to run (exhausted and fired, or loaded without a future occurrence) may be dropped by the daemon '
                        'at any time; it must be gone once its last job has exited / time has moved on',
                        'several occurrences within one second of one task can only arise from duplicate instants and are not in the templates'],
    }
    PROPS['C12'] = {
        'engine': 'E2',
        'level': 'model_checking',
        'technique': 'explicit-state exploration of the real echsd against a reference model of per-task concurrency limits',
        'claim': 'Task X (MAX-SIMUL 1, 2, unset, or 0 with three occurrences) and task Y (unset or 1), both SECONDLY with six occurrences: every history up to the stated '
                 'depth over {ADD/replace, CANCEL, TICK on-time/idle/late, a TICK during which the start of the one due task fails before a child exists (pipe() answers EMFILE, or posix_spawn() returns EAGAIN; the stack is filled with a fixed pattern first so that an uninitialised pid reads the same every time), EXIT of any live job (each job individually), TICK with the exit of a live job noticed in the same iteration, STOP+CONT of a live job (which is still running afterwards)} is executed; a start must be for real '
                 'iff fewer than N jobs of that task are alive, otherwise carry the no-run flag; every real job must be watched; the other task\'s '
                 'starts are judged by its own limit only; a task that has had its last occurrence and has nothing running must be gone, also when that last start failed or was reported as not run.  A linear sweep runs one fill / refuse / exit / run-again history for every N = 1..62, one with MAX-SIMUL:0 (four occurrences, all reported as not run, then the task must be gone), two histories in which a task WITHOUT a limit has 64 / 65 jobs running when it is cancelled and a limited task takes over while the old jobs exit, and three with a calendar-level limit (overridden by the event\'s own, or inherited); 54 histories send the task the way it really travels - parsed and printed by echs_task_icalify() as `echsq add\' does (once, and twice as after a checkpoint and restart) - for every combination of the three mail flags (absent / 0 / 1) next to MAX-SIMUL:1: the second occurrence must be reported as not run.  The report itself is followed through real executors: `echsx -v -nd\' started the way echsd starts it (its own descriptor of the owner\'s journal, no O_APPEND, at the end as of start time) while a run of the same task is under way, or while another writer holds the journal lock, must leave its STATUS:CANCELLED entry in the journal next to one complete entry of every other execution, also after those have finished and reported.',
        'note': E2_NOTE + '  Real process lifetimes are replaced by explicit EXIT events; echsx\'s handling of the no-run flag is C13/C14 territory.',
        'rule': 'as C04: case = pair of first two events, subtree explored exhaustively; non-trivial = subtree holds >= 2 states',
        'bound': {'quick': 'depth 6; narrow alphabet (X with limit 2, Y with limit 1, ADD/replace, CANCEL, on-time TICK, EXIT of each job) depth 9; five placements of two real executors on one journal (exec/c12_journal.py)', 'thorough': 'depth 7 (depth 8 ran clean once, 12.5 min, before the bound was lowered to keep the tier under ten minutes), narrow alphabet depth 11'},
        'counter_map': {'states': 'states', 'transitions': 'transitions', 'traces_validated_against_impl': 'traces'},
        'drivers': [
            D('e2_explore', ['prop=C12', 'depth=6', '--case-timeout', '60'], ['prop=C12', 'depth=7', '--case-timeout', '300'], label='depth'),
            D('e2_explore', ['prop=C12', 'mode=sweep', '--case-timeout', '60'], label='sweep-N-0..62+unlimited+inherited'),
            D('e2_explore', ['prop=C12', 'depth=4', '--case-timeout', '60'], ['prop=C12', 'depth=5', '--case-timeout', '120'], label='asan', variant='asan'),
            D('e2_explore', ['prop=C12', 'uids=collide', 'depth=6', '--case-timeout', '120'], ['prop=C12', 'uids=collide', 'depth=7', '--case-timeout', '600'], label='colliding-uids'),
            D('e2_explore', ['prop=C12', 'alpha=narrow', 'depth=9', '--case-timeout', '120'], ['prop=C12', 'alpha=narrow', 'depth=11', '--case-timeout', '600'], label='narrow-deep'),
            D('harness/exec/c12_journal.py', ['set=notrun'], label='not-run-report-in-shared-journal', interp='/usr/bin/python3', shards=6),
        ],
        'assumptions': ['unset MAX-SIMUL means unlimited'],
    }
    PROPS['C11'] = {
        'engine': 'E2',
        'level': 'model_checking',
        'technique': 'explicit-state exploration of the real echsd command handling against a map model',
        'claim': 'Peers 1000 and 1001 (and root for listing) over UIDs {A, a UID searched at start-up whose 32-bit hash agrees with A\'s in the low 6-10 bits (the 16-slot table must grow by much more than double), a UID in another slot with hash bits between the old and the new table size}: every history up to the stated depth over '
                 '{ADD with owner field absent / = self / = other (as a number and as a user name) / a number that no user has, ADD during which the user data base stops answering at the first or second look-up (one reply, the table consistent with it, the daemon alive), ADD by a peer (uid 4242) whom the user data base does not know with the owner absent / 1000 / alice (must be refused, nothing may change), two instructions in one request, CANCEL (also of unknown and foreign UIDs), '
                 'GET /queue (own and another user\'s), GET /sched, TICK} is executed; the number and kind of REQUEST-STATUS replies, the task '
                 'table with owners, the bodies of the listings (no foreign or stale UID, own queued UIDs present) and the SETUID of every started '
                 'job are compared with a map<UID, (owner, schedule)> model.  A narrow alphabet (ADD of three UIDs and GET /queue, both peers) reaches depth 6 (thorough 7; 8 and 9 ran clean with the smaller alphabets of earlier rounds), including an ADD whose sender has closed its socket before the daemon answers (the failed write must leave nothing behind for the next client on that descriptor), once with peers 1000/1001 and once with 1000/2040 (uids whose highest bits differ: the index over the per-user change notes files them apart); the dirty list enters the canonical state as it is, order and repetitions included.  Linear "busy" histories reach what depth cannot: 17 acknowledged requests between two checkpoints (the 17th by the same or by another user) followed by the listing, and 700 (thorough also 1500) distinct UIDs of one user next to 3 of another in one daemon life - queue files and listings must hold exactly the submitted UIDs, every UID must be cancellable by its owner, nothing may be left; 40 clients connected at the same time (each has sent half of its request when the others send theirs) must each get the reply to their own request and have their task filed under their own uid; requests of 44 instructions (replies beyond 4096 octets) with the first UID growing by one character over 128 rounds must find the status line of every instruction in the reply.  The client side of the listing (c11_echsq: the unmodified echsq.c run in-process, socket()/connect() handed a socketpair whose far end holds a ready-made reply): for every UID length 1..128 (thorough 1..4096) and every number of UIDs from 1 to what fills 3 (thorough 6) requests plus 2, in the forms list / list -u 0 / list --user=1000 / next / list --brief / list --next -u65534 / list with only one of the two daemons there, every request must be a complete "GET /[u/N/]queue|sched?tuid=..&tuid=.. HTTP/1.1" followed by an empty line, of at most 4096 octets, naming at least one UID; the multiset of UIDs asked of each daemon must equal the argument list (a UID never asked for cannot be listed) and echsq must print the replies in order and exit 0 (non-trivial there = the list had to be split over several requests); argument lists that leave fewer than 14 octets free in echsq\'s 4096-octet request buffer are left out (edge=1 puts them in: the unchanged echsq cuts the request line short there and hangs, e.g. echsq list with 582 UIDs of one character).  Many peers at once: K in {1, 2, 31, 32, 33, 62, 63, 64, 65, 70} peers (64 is the daemon\'s limit), all different users, connect and hold their connections, then send their ADD in order of arrival / reversed / odd ones first: no two connected peers share the per-connection state, a peer is turned away only when 64 are connected, every peer gets exactly one success reply on its own socket and every task belongs to its sender.',
        'note': E2_NOTE + '  Task oids are 32-bit hashes of the UID; the multi-gigabyte table growth reachable with hashes that agree in 25+ low bits is outside the alphabet.',
        'rule': 'as C04',
        'bound': {'quick': 'depth 4; adds-and-listings lanes depth 6 with two uid pairs; up to 70 peers connected at once x 3 orders; echsq list: every UID length 1..128 x counts up to 3 requests x 8 forms', 'thorough': 'depth 5; adds-and-listings lanes depth 7; echsq list: every UID length 1..4096 x counts up to 6 requests'},
        'counter_map': {'states': 'states', 'transitions': 'transitions', 'traces_validated_against_impl': 'traces'},
        'drivers': [
            D('e2_explore', ['prop=C11', 'depth=4', '--case-timeout', '120'], ['prop=C11', 'depth=5', '--case-timeout', '600'], label='depth'),
            D('e2_explore', ['prop=C11', 'depth=2', '--case-timeout', '120'], ['prop=C11', 'depth=3', '--case-timeout', '300'], label='asan', variant='asan'),
            D('e2_explore', ['prop=C11', 'alpha=narrow', 'depth=6', '--case-timeout', '120'], ['prop=C11', 'alpha=narrow', 'depth=7', '--case-timeout', '600'], label='adds-and-listings'),
            D('e2_explore', ['prop=C11', 'alpha=narrow', 'depth=6', 'user2=2040', '--case-timeout', '120'], ['prop=C11', 'alpha=narrow', 'depth=7', 'user2=2040', '--case-timeout', '600'], label='adds-and-listings-uids-1000+2040'),
            D('e2_explore', ['prop=C11', 'mode=busy', 'variants=6', 'skip=3', '--case-timeout', '120'], ['prop=C11', 'mode=busy', 'variants=6', '--case-timeout', '600'], label='busy', shards=6),
            D('e2_explore', ['prop=C11', 'mode=busy', 'variants=6', 'skip=3', '--case-timeout', '300'], label='busy-asan', variant='asan', shards=6),
            D('e2_explore', ['prop=C11', 'mode=conns', '--case-timeout', '120'], label='many-peers-at-once', shards=6),
            D('e2_explore', ['prop=C11', 'mode=conns', '--case-timeout', '300'], label='many-peers-at-once-asan', variant='asan', shards=6),
            D('c11_echsq', ['maxl=128', 'reqs=3', 'edge=1'], ['maxl=4096', 'reqs=6', 'edge=1'], label='echsq-list-requests'),
            D('c11_echsq', ['maxl=128', 'reqs=2', 'edge=1'], ['maxl=300', 'reqs=4', 'edge=1'], label='echsq-list-requests-asan', variant='asan'),
        ],
        'assumptions': ['what root may submit on behalf of others is not in the alphabet (the property does not speak about it)',
                        'a request for another user\'s queue may be answered with a refusal or with the caller\'s own view, never with foreign UIDs'],
    }
