from props_util import D

def register(PROPS):
    PROPS['C18'] = {
        'level': 'exploration',
        'technique': 'bounded exhaustive enumeration of instants, ranges and durations through the real printers and parsers of dt-strpf.c; '
                     'the oracle is the text form itself (ISO 8601 / RFC 5545 rendering and a 30-line duration reader written from the grammar)',
        'claim': 'For every value listed under "bound": dt_strf and dt_strf_ical write the ISO 8601 resp. RFC 5545 text of the instant; that text and six '
                 'further spellings (with Z, blank instead of T, without separators, mixed, basic form with fraction) parse back with dt_strp to the same '
                 'instant, with and without an explicit length, and dt_strp hands back the end of the text as the end of what it read (a trailing Z included; clause dt-end) for all 8 forms; taken out of a longer text with an explicit length (mode dt-cut) - the whole text, the date of a date-time, the date-time without its fraction, the date-time without its Z, while one of 22 other texts (nothing, T, blank, comma, slash, Z, a digit, dot, colon, dash, plus, tab, CR LF, a time behind T or blank, a word, a fraction, a further list item, the end of a range) or its own continuation stands right behind the length - it is the instant the counted characters spell, and the end handed back is the end of the counted characters (a Z right behind them may be taken along); range_strf -> range_strp is the identity; idiff_strf writes a valid ISO 8601 duration '
                 'of the same value which idiff_strp reads back (also when the text is followed by CR LF as in a content line); every listed spelling of a '
                 'duration, with and without a leading +, is read completely and as the same number of milliseconds; printing what was parsed parses to '
                 'the same value again.  End to end (c18_zoned): zoned recurring events (12 zones x 16 local dates of 2015 x 6 times of day x 6 schedules: DAILY, WEEKLY with DTEND, MONTHLY, '
                 'DAILY;INTERVAL=3, WEEKLY;INTERVAL=2;UNTIL, YEARLY) go text -> parser -> echs_task_icalify -> parser -> echs_task_icalify -> parser; the printer writes DTSTART;TZID=zone:<local>Z, '
                 'and all three generations must give the same occurrences (start and duration).',
        'note': 'A duration counts as read iff the end pointer handed back reaches the end of the text - the test the only caller (evical.c, DURATION) applies. '
                'The sanitizer variant hands every text to the parsers in a heap cell of exactly its size.  Instants are enumerated at day level completely, '
                'times of day completely on 8 days (quick) / on the first of every month (thorough).',
        'rule': 'a case is one (year, month), (day, hour), block of durations or (w,d,h) prefix whose remaining values are looped inside; evaluations count '
                'instants, ranges and duration texts, all distinct by construction; non-trivial = every instant, every range with beg != end, every duration text '
                'of a non-zero duration; dt-cut: a case is one (year, month), evaluations count (text, counted length, text behind it) parses, all non-trivial; c18_zoned: a case is one event, evaluations count parses, non-trivial = the written text still carries the TZID',
        'bound': {
            'quick': 'dt: every day 1901-2099 x {all-day, 00:00:00, 23:59:59, 12:34:56.789, 00:00:00.000, 23:59:59.999} x 8 text forms x {len, no len}; '
                     'dt-cut: every day 1901-2099 x the same 6 instants x 8 text forms x {whole text, date only, without fraction, without Z} x 22 texts behind the counted length (158305752 parses), plain and ASan; dt-times: every second of 8 days x ms {none,0,1,9,10,99,100,789,999}; range: every start day x 6 instants x end {same day, +1, +31, +366 d, '
                     '2099-12-31} x 6 instants, and open end; durations: every whole second 0..200000 in 5-6 spellings, every whole day 0..4000 '
                     '(+0/1/3599/3600/86399 s) in 2-3 spellings, every (w<=3, d<=9, h<=25, m<=61, s<=61) with every way of writing or leaving out zero parts; all with and without +; '
                     'zoned: 6912 events (12 zones x 16 dates x 6 times x 6 schedules) x 3 generations',
            'thorough': 'as quick, with whole seconds 0..20000000 (crossing 2^32 ms), whole days 0..400000, and every second of the first day of every month 1901-2099',
        },
        'drivers': [
            D('c18_strpf', ['mode=dt'], label='dt'),
            D('c18_strpf', ['mode=dt-times'], label='dt-times'),
            D('c18_strpf', ['mode=dt-times', 'days=monthly', '--deadline', '540'], label='dt-times-monthly', tiers=('thorough',)),
            D('c18_strpf', ['mode=range'], label='range'),
            D('c18_strpf', ['mode=dur-secs', 'max=200000'], ['mode=dur-secs', 'max=20000000', '--deadline', '540'], label='dur-secs'),
            D('c18_strpf', ['mode=dur-days', 'max=4000'], ['mode=dur-days', 'max=400000'], label='dur-days'),
            D('c18_strpf', ['mode=dur-combo'], label='dur-combo'),
            D('c18_strpf', ['mode=dt'], label='dt-asan', variant='asan', shards=8),
            D('c18_strpf', ['mode=dur-days', 'max=4000'], label='dur-days-asan', variant='asan', shards=4),
            D('c18_strpf', ['mode=dur-secs', 'max=20000'], label='dur-secs-asan', variant='asan', shards=4),
            D('c18_strpf', ['mode=dt-cut'], label='dt-cut'),
            D('c18_strpf', ['mode=dt-cut'], label='dt-cut-asan', variant='asan'),
            D('c18_zoned', [], label='zoned-print-parse', shards=4),
            D('c18_zoned', [], label='zoned-print-parse-asan', variant='asan', shards=4),
        ],
        'assumptions': [
            'durations are whole seconds: neither the RFC 5545 dur-value grammar nor idiff_strf/idiff_strp have a fraction, so millisecond residues are outside the text form '
            '(idiff_strf silently drops them; a sub-second duration prints as "PT")',
            'only non-negative durations and the optional leading + are judged, as the property says; a leading - is not',
            'spellings follow ISO 8601: P[nW][nD][T[nH][nM][nS]] with zero parts optional; combining W with other parts is ISO 8601-2 / echse usage, not RFC 5545 '
            '(such texts carry "W" in the parts= field of a signature)',
            'the iCalendar form has second resolution: an instant with milliseconds must parse back from it to the same second, whole-second marker set',
            'instants are UTC, so the iCalendar DATE-TIME is form 2 (trailing Z); dt_strp must accept the text with or without Z',
            'dt-cut: a non-zero length argument of dt_strp delimits the text (that is how evical.c takes a value out of a line or a comma list and echse.c an argument): what stands behind the counted characters is not part of the stamp; only prefixes that are themselves a printed form are taken (date, date-time to the second, date-time without Z), not hours-and-minutes stamps; with length 0 (text ends at its NUL) nothing behind the text is judged; the sanitizer variant hands over a heap cell that ends with the follower text',
            'ranges are judged for two proper instants and for an open end ("beg+"); the forms with an unbounded start and "*" are not',
            'c18_zoned needs no reference (the same event read three times must agree with itself); RDATE and EXDATE lists are left out because the printer does not write them '
            '(known under C05: remaining/RDATE, remaining/EXDATE), BY* rule parts because they are evaluated on the UTC calendar day of DTSTART (known under C07) and the printer '
            'writes the next occurrence as the new DTSTART',
        ],
    }
