from props_util import D

_ALL = 'parts=c0,c1,ones,reg'
_PAIRS = 'parts=c2'


def register(PROPS):
    PROPS['C10'] = {
        'level': 'exploration',
        'technique': 'bounded exhaustive enumeration of (document, chunk partition, end-of-input discipline, stale buffer fill) on the real '
                     'pull parser, deviation-bounded by the number of cuts; metamorphic oracle (dump of all pulled instructions equals the '
                     'dump of the uncut run), ASan + bounds and the per-case supervisor as crash / overrun / loop oracle',
        'claim': 'For every document of the stated families and every partition of it with 0, 1 or 2 cuts (every position; documents over 400 '
                 'bytes: pairs within 8 bytes of a line end, fold or the 1 KiB line limit), the all-one-byte partition and every regular chunk '
                 'size 2..64, 1023, 1024, 1025, 4096, fed through one reused buffer exactly as echsd / echse / echsx / echsq feed the parser '
                 '(pull until INSVERB_UNK after every push; at end of input either pull + last_pull or the zero-length push + pull + last_pull), '
                 'the dump of every pulled instruction (verb, oid, every task field, first 5 occurrences with duration and states, cancel range) '
                 'is the same as for the uncut run, the same for both end-of-input disciplines and the same for two different stale buffer '
                 'fills; no run crashes, trips ASan/bounds, loops or yields instructions without end.  Family datelists: one VEVENT whose '
                 'recurrence and exception dates arrive in 2 or 3 RDATE and/or EXDATE lines of DATE values with every combination of line sizes '
                 'from {1, 40, 63, 64, 65, 100, 113} dates (kinds: RDATE lines only; one RDATE line of 113 plus EXDATE lines; RDATE and EXDATE '
                 'lines alternating; each further line repeats the last date of the one before), fed whole, byte-wise, in every regular chunk size '
                 'and with one cut within 8 bytes of every line end; here the dump holds EVERY occurrence (count and digest behind the fifth) and '
                 'the uncut run must yield one task with as many occurrences as distinct dates are listed and not excepted.  Family alloc-fail (c10_allocfail): one VEVENT with 17..40 RRULE lines, or a DAILY rule and 17..40 EXRULE or X-GA-MRULE lines, or 1-3 RDATE and/or EXDATE lines of 60..111 DATE values each (60..333 per event; RDATE only, a DAILY rule and EXDATE lines, both alternating), or all of these together, followed by a small second VEVENT, parsed whole (push, pull until INSVERB_UNK, last_pull) with malloc / calloc / realloc / strdup / strndup interposed: the k-th allocation call of the parse answers NULL (once@k), or the k-th and every later one (from@k), for EVERY k up to the number of calls the undisturbed parse makes: no sanitizer report (ASan variant), no write behind the end of a block (plain variant, 8 KiB of patterned slack behind every block of the script), no crash, no hang, no more instructions than components, every delivered stream ends, and every delivered occurrence is one that the RRULE / RDATE lines of the document give (reference: the undisturbed parse of the document without its exception lines).  Family attendees (c10_attendees): one VEVENT with n = 1..70 (80) ATTENDEE lines whose addresses are all 1, 15, 16 or 40 characters long or take these lengths in turn (every other line with mailto:), and two VEVENTs with (n1, n2) ATTENDEE lines, n1, n2 from {15, 16, 17, 31, 32, 33, 63, 64, 65}, fed in one piece, byte by byte and in two pieces cut at EVERY position: no sanitizer report (ASan variant), no write behind the end of a heap block (plain variant: 2 KiB of patterned slack behind every block obtained during the parse, ref/guardalloc.h), no crash, no hang, no more instructions than components; the uncut run yields every event with exactly the addresses written, in order, and every partition yields the same tasks (UID, command, recipients) as the uncut run.',
        'note': 'Arbitrary byte strings are not enumerable: robustness is claimed for the sample files, the crafted documents and the two token '
                'languages and their cuts only (DESIGN C10 L).  Partitions with three or more cuts are covered only as regular chunk sizes.  '
                'In the asan variant a document whose first failing partition aborts the worker is not continued behind that partition.',
        'rule': 'evaluation = one (document, partition, end-of-input discipline) judged under both stale fills; distinct by construction '
                '(each index is another document or first cut, partitions inside a case never repeat); non-trivial = the uncut run of the '
                'document yields at least one instruction (so there is something to get wrong).  alloc-fail: a case is one (document, once|from, k); distinct by construction; non-trivial = the k-th call was reached and refused.  attendees: a case is one (document, partition family whole|ones|c1), evaluations count parses; non-trivial = an event with at least 2 ATTENDEE lines',
        'bound': {
            'quick': 'documents: the 44 /repo/test/*.ics, 19 crafted documents, every string of <= 3 content tokens (16-token alphabet: UID, UID+CRLF, '
                     'DTSTART, DTSTART;TZID, RRULE, DURATION, folded SUMMARY, space- and tab-continuation line, escapes, empty value, 1023/1024/1100-byte '
                     'lines, NUL byte, garbage) inside VCALENDAR/VEVENT, <= 2 inside METHOD:CANCEL, every string of <= 4 structure tokens (16-token '
                     'alphabet: BEGIN/END of VCALENDAR, VEVENT, VALARM in any nesting, METHOD PUBLISH/CANCEL/REPLY/REQUEST, UID+CRLF, REQUEST-STATUS, '
                     'DTSTART, blank line, NUL byte, garbage); partitions: 0 cuts, every single cut, all-ones, every regular size; every pair of cuts '
                     'for samples, crafted, <= 2 content tokens, <= 3 structure tokens; each x 2 end-of-input disciplines x 2 stale fills; '
                     'ASan+bounds: samples, crafted, <= 2 content tokens, <= 3 structure tokens without pairs; datelists: 3 kinds x (7^2 + 7^3) '
                     'size combinations = 1176 documents of up to 6.3 KB, partitions c0, near-line-end single cuts, all-ones, regular sizes, '
                     'plain and ASan+bounds; alloc-fail: rule lines n in {17, 18, 20, 33, 40} x {RRULE, EXRULE, X-GA-MRULE}, date lines 1..3 with every tuple of sizes from {60, 65, 66, 100, 111} x {RDATE, EXDATE, both}, one mixed document = 481 documents x every allocation call k x {once, from} = 18440 cases, plain and ASan+bounds; attendees: 70 x 5 + 81 = 431 documents x {whole, byte-wise, every single cut} = 592494 parses, plain (guard allocator) and ASan+bounds',
            'thorough': 'quick + strings of 4 content tokens (documents over 400 bytes: single cuts within 8 bytes of a line end, fold or the 1 KiB limit), <= 3 inside '
                        'METHOD:CANCEL, structure tokens <= 5, each with 0/1 cuts, all-ones and regular sizes; every '
                        'pair of cuts for <= 3 content tokens and <= 4 structure tokens; ASan+bounds: samples and crafted with pairs, <= 3 content '
                        'tokens, <= 4 structure tokens; alloc-fail: every n = 17..40, sizes from {60, 63, 64, 65, 66, 80, 100, 111} = 1825 documents, 68234 cases, plain and ASan+bounds; attendees: n = 1..80 (481 documents, 708829 parses)',
        },
        'drivers': [
            D('c10_chunks', ['docs=samples', _ALL], label='samples', shards=4),
            D('c10_chunks', ['docs=samples', _PAIRS], label='samples-pairs'),
            D('c10_chunks', ['docs=crafted', _ALL], label='crafted', shards=4),
            D('c10_chunks', ['docs=crafted', _PAIRS], label='crafted-pairs'),
            D('c10_chunks', ['docs=tokC', 'N=3', _ALL], label='content-tokens'),
            D('c10_chunks', ['docs=tokC', 'N=4', 'minN=4', 'c1max=400', _ALL], label='content-tokens-4', tiers=('thorough',)),
            D('c10_chunks', ['docs=tokC', 'N=2', _PAIRS], ['docs=tokC', 'N=3', _PAIRS], label='content-tokens-pairs'),
            D('c10_chunks', ['docs=tokC', 'meth=1', 'N=2', _ALL + ',c2'], ['docs=tokC', 'meth=1', 'N=3', _ALL], label='content-tokens-cancel'),
            D('c10_chunks', ['docs=tokR', 'N=4', _ALL], ['docs=tokR', 'N=5', _ALL], label='structure-tokens'),
            D('c10_chunks', ['docs=tokR', 'N=3', _PAIRS], ['docs=tokR', 'N=4', _PAIRS], label='structure-tokens-pairs'),
            D('c10_chunks', ['docs=samples', _ALL], ['docs=samples', _ALL + ',c2'], label='samples-asan', variant='asan'),
            D('c10_chunks', ['docs=crafted', _ALL], ['docs=crafted', _ALL + ',c2'], label='crafted-asan', variant='asan'),
            D('c10_chunks', ['docs=tokC', 'N=2', _ALL], ['docs=tokC', 'N=3', _ALL], label='content-tokens-asan', variant='asan'),
            D('c10_chunks', ['docs=tokR', 'N=3', _ALL], ['docs=tokR', 'N=4', _ALL], label='structure-tokens-asan', variant='asan'),
            D('c10_chunks', ['docs=datelists', 'c1max=0', _ALL], label='datelists'),
            D('c10_chunks', ['docs=datelists', 'c1max=0', _ALL], label='datelists-asan', variant='asan'),
            D('c10_allocfail', ['docs=menu'], ['docs=full'], label='alloc-fail'),
            D('c10_allocfail', ['docs=menu'], ['docs=full'], label='alloc-fail-asan', variant='asan'),
            D('c10_attendees', ['maxn=70'], ['maxn=80'], label='attendees'),
            D('c10_attendees', ['maxn=70'], ['maxn=80'], label='attendees-asan', variant='asan'),
        ],
        'assumptions': [
            'the caller follows the discipline every caller in /repo/src follows: one buffer reused for every chunk, after each push pull until '
            'INSVERB_UNK (echsd cmd_ical(); SCHE, RESC and UNSC are all consumed), no empty push except the one echsd does at end of input',
            'instructions handed out by echs_evical_last_pull() are part of the observation and marked as such (every caller discards them, so an '
            'instruction that moves between a pull and the last pull is a difference for the caller)',
            'the reference of a document is its own uncut run in the echse discipline; whether that run itself reads the document correctly is '
            'the subject of C05, not of this check',
            'a consumer frees every task it is handed (free_echs_task), as echse merge, echsx and echsq do',
            'stale bytes are modelled as what earlier chunks of the same stream left plus one of two fill bytes (blank and Z) behind them',
            'alloc-fail: an allocation call that answers NULL is read as part of "no byte sequence whatsoever makes the parser crash, overrun a buffer or loop": the verdict must not depend on the allocator; what an allocation failure may cost (items of a list, attributes, the task) is not judged, only that nothing is written outside a block, nothing crashes or loops and no occurrence comes out that the document does not list; deviation bound: one refused call, or all calls from one point on, per parse; draining and releasing the delivered tasks happens with a working allocator; in the plain variant blocks the library keeps beyond a script are looked at once at its end; after 3 deaths of the worker under one crash signature in a shard the remaining cases of that signature are left out and counted',
            'attendees: the feeding discipline is the echse one (pull until INSVERB_UNK after every push, at the end a pull and last_pull); the observation of a task is its UID, command and recipient list (the other fields are c10_chunks\' matter); that the uncut run holds exactly the written addresses (README: ATTENDEE = recipients, a leading mailto: is not part of the address) is demanded so that agreement between partitions is not met by runs that lose the same recipients; in the plain variant blocks the library keeps beyond a parse are looked at once at its end',
            'datelists: lines of up to 111 dates are written RDATE;VALUE=DATE:..., lines of 113 dates as RDATE:yyyymmdd,... (1022 bytes; with the '
            'parameter they would exceed the 1 KiB line limit), which the parser reads as dates as well; DTSTART is the first listed date, so '
            'whether DTSTART itself belongs to the set does not arise; a date listed twice counts once (recurrence SET, as in C02)',
        ],
    }
