from props_util import D


def register(PROPS):
    PROPS['C16'] = {
        'level': 'exploration',
        'technique': 'bounded exhaustive enumeration of the C01 rule grammar crossed with the non-RFC extensions (SHIFT, BYEASTER, SCALE, TZID), '
                     'every stream followed for thousands of occurrences against stream invariants (no reference evaluator)',
        'claim': 'Every rule of the C01 grammar, alone and under each extension of a fixed menu (SHIFT 1,-1,7,-7,40,-40,1B,-1B,5B,-0B,0B+; '
                 'BYEASTER 0,-2,49,366,-366; SCALE HIJRI, HIJRI.IA, HIJRI.IVC, HIJRI.DIYANET; TZID Europe/Berlin, America/New_York, '
                 'Australia/Lord_Howe), from every DTSTART anchor (not only synchronised ones; Hijri-digit anchors for SCALE, anchors just before '
                 'a DST change for TZID), unterminated and with COUNT / UNTIL, is pushed through the real parser and popped up to the stated '
                 'number of times.  Checked on every stream: starts strictly increasing, none before DTSTART, none after UNTIL, never more than '
                 'COUNT, nothing after the end-of-stream event, every start a calendar time.  Complete within that grammar and bound.  '
                 'COUNT across a rewrite (c16_rewrite): events DTSTART:20240101T120000Z with two RRULEs (every ordered pair of a menu of 6 rules, the first with a COUNT of a menu, '
                 'the second with a COUNT or without) or three RRULEs (every ordered triple of 4 rules x 5 COUNT triples) are, for EVERY k from 0 to the number of their occurrences, parsed, '
                 'popped k times, written the way echse merge --unroll / an echsd checkpoint / echsq list write a task (echs_task_icalify: every RRULE with the COUNT it has left, an exhausted one '
                 'as COUNT=0), read back and followed to the end: occurrences before + after the rewrite must not exceed the sum of the COUNTs, the re-read stream must end, and no single rule '
                 'may deliver more than its own COUNT (attributed by the hour of the day: each rule of the menu has its own BYHOUR).  '
                 'Folded bounds (c16_folds): one-event calendars whose RRULE carries COUNT and/or UNTIL (7 rules) are written with the RRULE line folded at every position of the line, '
                 'with SPACE and with HTAB, with LF and CRLF line ends, and pushed into the parser in one piece, in two pieces cut at EVERY byte of the text and in three pieces '
                 '(a single byte in the middle) at every byte, finished both the way echse and the way echsd finish their input: never more than COUNT occurrences, none after UNTIL, the stream '
                 'ends, and the occurrences are those of the unfolded event pushed in one piece.',
        'note': 'Compared as seconds in the frame the stream delivers (UTC, Gregorian).  DTSTART in that frame is what the same DTSTART line '
                'yields as an event without RRULE; UNTIL is the unterminated stream\'s own 4th / 100th occurrence (or a second/day before), '
                'written in UTC for TZID events and in the rule\'s scale for SCALE rules.  Termination is not judged here (C09): a pop that '
                'does not answer within 0.2 s of CPU abandons the stream and is counted; rules whose set the RFC evaluator finds empty '
                'inside the C01 window are skipped and counted.  Under an extension the signature names only the parts that can interact '
                'with it (time parts for TZID, date parts otherwise).',
        'rule': 'case = one event text (rule, extension, DTSTART, termination), all distinct; a unit (rule, extension, DTSTART) is one '
                'supervised index and runs all its terminations; non-trivial = the unterminated stream of the unit delivered >= 2 occurrences; '
                'c16_rewrite: case = one event, evaluations = (rewrite position k, header form) round trips, non-trivial = the event has >= 2 occurrences; '
                'c16_folds: case = (rule, fold blank, line end, fold position), evaluations = partitions pushed, non-trivial = the unfolded event gives one event with >= 2 occurrences and ends; '
                'the sanitizer passes of both repeat the same cases and are not counted again',
        'bound': {
            'quick': 'BY-part subsets of size <= 1 (+ BYWEEKNO/BYDAY), INTERVAL {1,2}, 8 anchors + 4 Hijri + 2 DST anchors per zone, every '
                     'extension, terminations {none, COUNT 2, COUNT 65, UNTIL on 4th, UNTIL before 100th}, 3000 pops or year 2099; '
                     'rewrite: 30 rule pairs x COUNT {1,3,64,70} x {none,1,3,64,70} + 24 rule triples x 5 COUNT triples, every k <= 160, 2 header forms, re-read followed for 400 pops; '
                     'folds: 7 rules x every fold position x {SPACE,HTAB} x {LF,CRLF} x (uncut + every single cut + every 1-byte middle piece) x 2 ways to finish, 200 pops; both again under ASan',
            'thorough': 'subsets <= 2, INTERVAL {1,2,7}, 12 anchors + 5 Hijri + DST anchors, every extension + 5 fixed extension pairs, terminations '
                        '{none, COUNT 1,2,63,64,65,130, UNTIL on/before the 4th and the 100th occurrence}, 10000 pops or year 2099; '
                        'rewrite: COUNT menu {1,2,3,62,63,64,65,70,130}, every k <= 300; folds as quick (complete within its grammar)',
        },
        'drivers': [
            D('c03_tworules', ['mode=rules'], label='two-sources-rules', shards=4),
            D('c03_tworules', ['mode=rdates'], label='two-sources-rdates', shards=4),
            D('c03_tworules', ['mode=rules'], label='two-sources-rules-asan', shards=4, variant='asan'),
            D('c16_streams', ['maxparts=1', 'intervals=1,2', 'anchors=8', 'terms=quick', 'pops=3000', '--case-timeout', '20'],
              ['maxparts=2', 'intervals=1,2,7', 'anchors=12', 'terms=full', 'pops=10000', 'pairs=1', '--case-timeout', '20', '--deadline', '540'],
              label='streams'),
            D('c16_rewrite', ['counts=quick'], ['counts=full', 'kmax=300'], label='count-across-rewrite'),
            D('c16_rewrite', ['counts=quick', 'nocount=1'], ['counts=full', 'kmax=300', 'nocount=1'], label='count-across-rewrite-asan', variant='asan'),
            D('c16_folds', ['cuts=12', 'final=ED'], label='folded-bounds'),
            D('c16_folds', ['cuts=12', 'final=ED', 'nocount=1'], label='folded-bounds-asan', variant='asan'),
        ],
        'assumptions': ['calendar years 1..2099 (the code counts leap years as y % 4): a stream is followed until its first occurrence after 2099; '
                        'table Hijri calendars until two years before the end of their tables',
                        'DATE valued DTSTART only with FREQ >= DAILY and no time parts; no TZID on DATE values; TZID events: DTSTART 1970..2036, followed up to 2036 (the zone files\' 32-bit data end in 2037)',
                        'UNTIL of a SCALE rule is written in the digits of the rule\'s scale (an UNTIL in Gregorian digits is compared field by field '
                        'with Hijri dates by the code and never ends the rule; which scale UNTIL is meant in is not defined anywhere, so that reading is left out)',
                        'TZID cases whose stream would look up the zone\'s last 32-bit transition (C07 finding, tzraw.c __find_trno) are left out and counted',
                        'termination (hangs) is C09\'s subject',
                        'c16_rewrite: WHICH times the re-read rules deliver is not judged (C05 finding remaining/DTSTART-shared: several RRULEs are written with one DTSTART), only how many; '
                        'events containing a rule without BYHOUR (FREQ=WEEKLY alone) are judged in total only; a COUNT=0 or INTERVAL=0 typed in by hand is not an event RFC 5545 defines and is left out '
                        '(COUNT=0 is only ever met as what the serialiser writes for an exhausted rule); writing goes through echs_icalify_init / echs_task_icalify / echs_icalify_fini (ref/c05_common.h)',
                        'c16_folds: the folded text is legal RFC 5545 3.1 (line break + one SPACE or HTAB); the reference of the differs clause is the real parser on the unfolded text in one piece, '
                        'the count / until / endless clauses need no reference (the bound is in the text)'],
    }
