from props_util import D

def register(PROPS):
    PROPS['C19'] = {
        'level': 'exploration',
        'technique': 'bounded exhaustive enumeration of insertion sequences against a bool[] reference set',
        'claim': 'Every insertion sequence up to length 3 over the full value range of each of the six containers (thorough; length 2 in quick) plus '
                 'all subsets of a 16-value boundary alphabet in four insertion orders is executed on the real container code and compared with a '
                 'reference set for emptiness, membership and iteration (each member once, nothing else, termination).  Complete within that bound.',
        'note': 'Sets with more than 3 arbitrary members are covered only over the boundary alphabet; the iteration idiom is the one all callers use.',
        'rule': 'every insertion sequence listed under "bound", for each of the six containers; a case is one sequence prefix with its '
                'last element looped inside; distinct by construction (each index is a different sequence set); non-trivial = the '
                'sequences inside the case that hold >= 2 distinct values (counted per sequence)',
        'bound': {
            'quick': 'all sequences of length <= 2 over the full range of each type; all sequences of length 3 and 4 over a 24-value '
                     'boundary alphabet; all subsets of sizes 0-4 and 11-16 of a 16-value boundary alphabet in 4 insertion orders',
            'thorough': 'quick + all ordered triples over the full range (767^3 for bi447) + all 65536 subsets of the 16-value alphabet',
        },
        'drivers': [
            D('c19_bitint', ['mode=pairs'], label='pairs'),
            D('c19_bitint', ['mode=alpha3'], label='alpha3'),
            D('c19_bitint', ['mode=subsets', 'minsize=0', 'maxsize=4'], label='subsets-small', tiers=('quick',)),
            D('c19_bitint', ['mode=subsets', 'minsize=11', 'maxsize=16'], label='subsets-large', tiers=('quick',)),
            D('c19_bitint', ['mode=subsets', 'alph=neg', 'minsize=11', 'maxsize=16'], ['mode=subsets', 'alph=neg'], label='subsets-negative-end'),
            D('c19_bitint', ['mode=subsets'], label='subsets-all', tiers=('thorough',)),
            D('c19_bitint', ['mode=triples'], label='triples', tiers=('thorough',)),
            D('c19_bitint', ['mode=pairs'], label='pairs-asan', variant='asan', shards=4),
        ],
        'assumptions': ['iteration protocol is the one every caller uses: it=0; while ((x = next(&it, set)), it)',
                        'values stay inside the documented range of each container'],
    }
