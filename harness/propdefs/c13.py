import os
from props_util import D

_V = os.path.dirname(os.path.dirname(os.path.dirname(os.path.abspath(__file__))))
_X = os.path.join(_V, 'build', 'plain', 'exec')
_PY = '/usr/bin/python3'


def register(PROPS):
    PROPS['C13'] = {
        'engine': 'E3',
        'level': 'model_checking',
        'technique': 'two layers over the real echsx: (a) the unmodified binary (LD_PRELOAD shim: sendmail -> recorder, mkstemp/unlink '
                     'logged) run on every row of the routing table x job alphabet x exit kind with a real job started through the '
                     'shell; (b) echsx.c compiled into a harness with real libev, the job replaced by a script whose writes and exit '
                     'the harness places between the polls of echsx\'s own event loop: every interleaving and every batching of the '
                     'script is executed (one process per schedule) and judged by the same per-stream oracle',
        'claim': 'For all 24 combinations of {OFILE, EFILE (none / same / other), MAIL-OUT, MAIL-ERR} (the 20 documented rows and the 4 '
                 '"EFILE only, named like the stdout file" ones) every explored run left in each named file exactly the bytes the job '
                 'wrote to that stream (a shared file: both streams, each in order, nothing else), sent exactly one mail whose body holds '
                 'exactly the selected streams (none without ORGANIZER+ATTENDEE or with nothing selected), removed every temporary file '
                 'it made, wrote one journal entry with the job\'s true exit status or signal and start <= end inside the observed '
                 'run, and started the command exactly once through the requested shell in the requested directory with the '
                 'requested umask and stdin.  The same holds for every row when OFILE/EFILE are given as relative names next to a '
                 'LOCATION (the rows whose file doubles as the mail file read it back by name after the job), and for the umask menu '
                 '{0, 022, 077, 0377, 0776, 0777} on rows without mail: the job finds the requested umask and the files echsx creates '
                 'for it have mode 0666 & ~umask.  A job that is merely STOPPED (it sends itself SIGSTOP half way through its output and is continued half a second later) is not taken for finished: '
                 'status 5 of its real end is journalled and mailed, every byte written before and after the stop is routed.  The three mail flag lines in all six orders with an explicit X-ECHS-MAIL-RUN:0 '
                 'give what the row prescribes (MAIL-OUT / MAIL-ERR imply the mail, as the README says; no mail when neither is set), the same in every order.  The journal entry is also there when the journal is busy at the moment the job ends: with the journal handed to every echsx the way echsd does (a descriptor of its own on the one file of the owner), one, two or three executors whose jobs exit with status 3 while another writer holds the lock on the journal, and a job that ends while an execution started later has just reported, each leave exactly one complete entry with X-EXIT-STATUS:3, nothing lost, nothing mangled.  A job that is already over when posix_spawn returns to echsx (the shim holds the call back until waitid(WNOWAIT) has seen the child\'s end, so the job is a zombie before echsx does anything else) is noticed all the same: echsx is back within 12 s with the true exit status or signal in the journal, the mail sent and the temporary file gone (a run that does not come back is reported as hang/early-exit/<exit kind>).  Layer (b) is exhaustive over its schedule alphabet for the rows that put echsx\'s loop '
                 'between job and destinations (R5 R9 R14 R15 R17 and N1).',
        'note': 'Layer (a) does not own the order in which the kernel shows pipe data and SIGCHLD to echsx; its oracle is insensitive to '
                'it and layer (b) owns exactly that order, but delivers the exit through ev_feed_event on the ev_child echsx registered '
                '(in the check phase of the iteration whose poll follows the exit, which is when libev\'s own reaper reports it).  '
                'Jobs whose grandchildren keep a pipe open after the job exits are outside both layers.  Jobs run as the invoking user '
                '(X-ECHS-SETUID = own uid; uid 0 in this sandbox), switching to another user is not exercised.',
        'rule': 'a case is one run of echsx: layer (a) one (row, job, exit kind, knob) tuple, layer (b) one (row, script with batching, '
                'chunk sizes, exit status) tuple, all distinct by construction; non-trivial = the job wrote at least one byte and the row '
                'routes it somewhere (layer a) / the script has at least one chunk and was played to its end (layer b)',
        'bound': {
            'quick': 'layer (a): 24 rows x {alt50, big} x exit 0; 8 knobs (cwd, umask, shell, IFILE, no ORGANIZER, no ATTENDEE, MAIL-RUN, '
                     'two ATTENDEEs) x 5 rows; SIGTERM/SIGKILL x 2 rows (92 runs); relative OFILE/EFILE + LOCATION x 24 rows; 6 umasks x rows R12 R16 R20; OFILE (EFILE) = /dev/null x every row that has one (28 runs); stop-and-continue job x rows R1 R5 R13 R17 R20; 6 orders of the flag lines x rows R1 R6 R7 R14 R19 R20 (36 runs); 8 placements of 1-3 real executors (one at least exiting with status 3) on one journal; job over before posix_spawn returns x rows R1 R5 R13 R17 R20 x {silent, alt50} x {0, 3, SIGTERM} (30 runs).  layer (b): 6 pipe rows x all interleavings of <= 2 O, '
                     '<= 2 E + X x all batchings (165 scripts) x chunk sizes {1, 4096, 65536} equal on both streams (2970 schedules)',
            'thorough': 'layer (a): 24 rows x 6 jobs (silent, 3 lines out, 3 lines err, 50 alternating lines, 200 KiB to each stream in 4 KiB '
                        'writes, stdin echo) x exit {0, 3, SIGTERM, SIGKILL}; 8 knobs x 24 rows x {alt50, cat} (960 runs); relative OFILE/EFILE + LOCATION x 24 rows x {alt50, big}; 6 umasks x the 6 rows without mail; OFILE (EFILE) = /dev/null x every row that has one; stop-and-continue job x 24 rows; 6 orders of the flag lines x 24 rows; the 8 busy-journal placements; job over before posix_spawn returns x 24 rows x {silent, alt50} x {0, 3, SIGTERM, SIGKILL} (192 runs).  layer (b): 6 '
                        'pipe rows x all interleavings of <= 3 O, <= 3 E + X x all batchings (2229 scripts) x all 9 pairs of chunk sizes '
                        '{1, 4096, 65536}; the 18 pipe-less rows x <= 1+1 chunks (120600 schedules)',
        },
        'counter_map': {'states': 'ctl_states', 'transitions': 'ctl_transitions', 'traces_validated_against_impl': 'ctl_traces'},
        'targets': [os.path.join(_X, x) for x in ('echsx_shim.so', 'mailrec', 'c13_job', 'c13_ctl')],
        'drivers': [
            D('harness/exec/c13_real.py', ['set=quick'], ['set=full'], label='real-process', interp=_PY, shards=16),
            D('harness/exec/c13_ctl.py', ['no=2', 'ne=2', 'sizes=uniform', 'rows=pipe'],
              ['no=3', 'ne=3', 'sizes=all', 'rows=all'], label='controlled-loop', interp=_PY, shards=16),
            D('harness/exec/c12_journal.py', ['set=exit'], label='busy-journal', interp=_PY, shards=8),
        ],
        'assumptions': [
            'the execution request is laid out the way echsd writes it (one VTODO per run, absolute OFILE/EFILE paths except in the relative-name family, numeric SETUID of the invoking user)',
            'a relative OFILE/EFILE is looked for in the requested working directory (LOCATION), failing that in the directory echsx was started in; what is judged is its content and the mail body',
            'umask menu: a file echsx creates on the job\'s behalf (OFILE/EFILE) is subject to the requested umask like a redirection made by the job\'s shell would be; rows with mail are left out of the menu because under umask 0777 an unprivileged echsx could not read its own mail file back',
            'stop-and-continue: the job stops itself with SIGSTOP and is continued by a helper it forked before (which holds none of the job\'s descriptors) half a second after /proc shows the job stopped; stops caused from outside or by terminal access are not exercised',
            'early exit: the order "job ended, then posix_spawn returned" is placed by the LD_PRELOAD shim (E3_SPAWNWAIT: waitid(P_PID, pid, WEXITED|WNOWAIT) after the real posix_spawn, the child stays reapable); only jobs whose output fits a pipe (silent, alt50: 1600 bytes per stream) are used, since nobody reads while the call is held back; the complementary order (job alive when the loop starts) is what every other run of layer (a) is; the horizon of 12 s is the driver\'s, the property only says the run is journalled',
            'flag orders: an explicit X-ECHS-MAIL-RUN:0 next to a set MAIL-OUT / MAIL-ERR is read with the README ("this flag is implied when X-ECHS-MAIL-OUT or X-ECHS-MAIL-ERR is set"): the mail is sent',
            'stdout bytes are lower-case letters and newline, stderr bytes upper-case letters and tab, so every byte of a shared file or mail body is attributable; real jobs write whole 64-byte lines in writes of at most 4096 bytes',
            'layer (b): libev reports a child\'s exit no earlier than in the poll that follows the exit (exit fed in the check phase), a job blocked in write(2) does nothing else until the write is through, pipe capacity is the kernel default (64 KiB)',
            'busy journal: the order of the reports is placed by the driver (an earlier run is held until the later has reported; executors queue behind a stand-in that holds the fcntl lock on the journal until /proc/locks shows them waiting, then appends its own entry and lets go); which of several waiting executors gets the lock first is left to the kernel (the oracle does not depend on it); how long a lock may be held by the other writer is not bounded by the property, the stand-in holds it for as long as it takes the executors to queue up (a fraction of a second)',
            'journal times are judged against the interval in which the driver saw the run (whole seconds), not against a virtual clock',
            'ctl_states counts distinct script prefixes (nodes of the schedule tree), ctl_transitions script actions plus polls, ctl_traces maximal schedules, each executed on the real code',
        ],
    }
