from props_util import D

def register(PROPS):
    PROPS['C15'] = {
        'level': 'exploration',
        'technique': 'complete enumeration of the (scale, day) domain in both directions against a days-from-civil reference; '
                     'consistency oracle (round trip, succession, month length, weekday) plus coverage read from the data tables',
        'claim': 'For each of the 10 Hijri scales, every Gregorian day of 1901-2099 is converted with the real echs_instant_rescale() and back, '
                 'and every Hijri date of AH 1319-1522 (the Hijri years lying wholly inside 1901-2099; day-of-month up to the reported month length) '
                 'is converted and back.  Checked on each: the way back is the identity; the image of the next day is the next date of the scale '
                 '(a month may only end on its reported last day); the image is a day of its month (day <= echs_scale_ndim); echs_scale_ndim equals '
                 'the distance of the Gregorian images of adjacent first-of-months; echs_scale_wday equals the weekday of the Gregorian image; '
                 'for Umm al-Qura and Diyanet every Gregorian day and every Hijri y-m-1..29 outside the table comes back as the nul instant. '
                 'The domain is finite and enumerated completely in both tiers; the same cases are run a second time under ASan+bounds.  '
                 'History independence (mode interleave): for every ordered pair of different scales (s1, s2), every Gregorian day z of 1901-2099 and every '
                 'distance dz in {0, 1, -1, 40, -400} the calls g(z) -> s1, g(z+dz) -> s2, image -> Gregorian are made back to back and must give what the '
                 'scale-by-scale pass gave for the same arguments (a conversion must not depend on which conversion preceded it).  '
                 'The scales as the recurrence stream uses them (mode stream): for each of the 11 scale names the parser accepts (HIJRI, HIJRI.UMMULQURA, HIJRI.DIYANET, HIJRI.IA .. HIJRI.IVC) '
                 'and 10 Gregorian DTSTARTs 1940-2070 the events RRULE:FREQ=DAILY;SCALE=x;COUNT=200, FREQ=MONTHLY;SCALE=x;COUNT=150 and FREQ=YEARLY;SCALE=x;COUNT=70 are read back '
                 '(text -> parser -> stream, output in Gregorian; each needs several fills of the stream\'s 63-slot cache): the daily one must be 200 consecutive Gregorian days, the monthly (yearly) one '
                 'must keep the Hijri day of month (and month) of DTSTART and advance by exactly one Hijri month (year) -- further only over dates the scale does not have --, all strictly increasing, '
                 'and a stream may end before COUNT only where the table of a table calendar ends.  '
                 'The calendar-level output scale (mode calscale): for each of the 11 names as CALSCALE:x of the calendar and every fourth 1 January 1938-2074 the event '
                 'DTSTART:<that day> RRULE:FREQ=DAILY;COUNT=1500 (once DATE valued, once at 12:00:00Z) is read through the parser; the stream delivers instants labelled with a Hijri scale, '
                 'and the k-th must be exactly what echs_instant_rescale() gives for DTSTART + k days in the scale the instant is labelled with (every day of 1938-2077 passes through the stream\'s cache this way, '
                 '29/30 of every month included).  '
                 'The scales as the text interface reads them (mode text): for 9 scale names and every Gregorian day of 1901-2099 inside the calendar the day is converted with echs_instant_rescale(), '
                 'written as DTSTART;VALUE=DATE;SCALE=x:yyyymmdd (and as DTSTART;SCALE=x:yyyymmddT120000Z) of a non-recurring event and read through the parser: every event must be there and its one occurrence '
                 '(reported in Gregorian) must be the day it was made from.  '
                 'Several rules in one event (mode multirule): in a calendar with CALSCALE:x (the 11 names) an event with a Gregorian DTSTART (4 days 1950-2016, DATE valued and at 12:00:00Z) carries one of 8 rule sets '
                 '(two or three RRULEs, Gregorian and SCALE=x ones; RRULE + EXRULE; RRULE + two EXRULEs; two RRULEs + EXRULE; every rule with COUNT): the stream of the event must be, in chronological order and '
                 'bit for bit, the duplicate-free union of the streams the same event gives with each RRULE alone, less what it gives with each EXRULE alone (written as RRULE), and every occurrence carries the '
                 'scale label those single-rule streams carry (the conversion into the calendar\'s scale is done for every rule of an event, not only the first).',
        'note': 'The Hijri side has no external reference: the property is internal consistency.  Whether the calendars agree with published tables is not judged '
                '(a 28-day month in the Umm al-Qura table, Sha\'ban 1364, is counted under months_reported_not_29_or_30_days, not reported).  '
                'The last month listed in a table (its length is unknown) is not judged in either direction.',
        'rule': 'a case is one (scale, year): mode g2h = every day of one Gregorian year, mode h2g = every date of one Hijri year, mode edge = '
                'echs_scale_ndim on the 12 months of one Hijri year 1300-1560 of a table calendar, mode interleave = all 90 ordered scale pairs over one Gregorian year, mode stream = one (rule, DTSTART, scale name) event, mode calscale = one (CALSCALE name, DTSTART, DATE or DATE-TIME) event, mode text = one (scale name, Gregorian year, DATE or DATE-TIME) calendar with one event per day, mode multirule = one (CALSCALE name, DTSTART, rule set, DATE or DATE-TIME) event together with its single-rule events; evaluations count single dates/calls resp. occurrences read resp. events written; '
                'cases are distinct by construction; non-trivial = at least one date of the year lies inside the calendar (g2h, h2g) resp. at least one '
                'month of the year lies outside the table (edge) resp. the event delivered all COUNT occurrences (stream, calscale) resp. at least one day was written and all came back as themselves (text) resp. the event with all rules delivered exactly the expected set (multirule); the sanitizer passes repeat the same cases and are not counted again',
        'bound': {
            'quick': 'complete: 10 scales x 72 683 Gregorian days (1901-2099) forward and back; 10 scales x every date of AH 1319-1522 back and forth; '
                     'month-length calls for AH 1300-1560 on both table calendars; 330 recurring events (3 rules x 10 DTSTARTs x 11 scale names) read back through the stream; 770 daily events (11 CALSCALE names x 35 DTSTARTs x 2 value types) of 1500 days each delivered in the calendar\'s scale; '
                     '9 scale names x every day of 1901-2099 x 2 value types written in Hijri digits and read back; 704 multi-rule events (11 CALSCALE names x 4 DTSTARTs x 8 rule sets x 2 value types) against their 1672 single-rule events; all of it again under ASan',
            'thorough': 'same as quick (the domain is finite and already complete)',
        },
        'drivers': [
            D('c15_scale', ['mode=g2h'], label='g2h', shards=4),
            D('c15_scale', ['mode=h2g'], label='h2g', shards=4),
            D('c15_scale', ['mode=edge'], label='edge', shards=2),
            D('c15_scale', ['mode=interleave'], label='interleave', shards=16),
            D('c15_scale', ['mode=interleave', 'nocount=1', 'y0=2015', 'y1=2030'], ['mode=interleave', 'nocount=1'], label='interleave-asan', variant='asan', shards=16),
            D('c15_scale', ['mode=g2h', 'nocount=1'], label='g2h-asan', variant='asan', shards=4),
            D('c15_scale', ['mode=h2g', 'nocount=1'], label='h2g-asan', variant='asan', shards=4),
            D('c15_scale', ['mode=stream'], label='stream', shards=4),
            D('c15_scale', ['mode=stream', 'nocount=1'], label='stream-asan', variant='asan', shards=4),
            D('c15_scale', ['mode=calscale'], label='calscale', shards=16),
            D('c15_scale', ['mode=calscale', 'nocount=1'], label='calscale-asan', variant='asan', shards=16),
            D('c15_scale', ['mode=text'], label='text', shards=16),
            D('c15_scale', ['mode=text', 'nocount=1'], label='text-asan', variant='asan', shards=16),
            D('c15_scale', ['mode=multirule'], label='multirule', shards=4),
            D('c15_scale', ['mode=multirule', 'nocount=1'], label='multirule-asan', variant='asan', shards=4),
        ],
        'assumptions': [
            'Gregorian day numbers and weekdays come from harness/ref/civil_c15.h (days-from-civil), self-tested over 1600-2400 at start-up',
            'the table entries count days from 1858-11-16 (MJD+1); this is fixed by published first-of-month dates (Umm al-Qura 1 Muharram 1440 = 2018-09-11, '
            '1 Ramadan 1445 = 2024-03-11; Diyanet 1 Ramazan 1443 = 2022-04-02, 1 Muharrem 1444 = 2022-07-30), not by reading scale.c',
            'coverage of a table calendar = first listed month up to, not including, the last listed month (whose length the table cannot give); '
            'whether the last listed month and the 30 days from its first belong to the calendar is left open, but the two directions must agree there: a date of that month that maps must map back to itself',
            'a Hijri date is enumerated only up to the month length the code itself reports; whether that length is 29 or 30 is not judged',
            'only all-day instants are converted; the time part must come through unchanged',
            'mode stream: Hijri dates of the occurrences are obtained with echs_instant_rescale (judged by g2h/h2g); a MONTHLY/YEARLY event whose DTSTART falls on a Hijri day 30 is not judged '
            '(whether months without a 30th are skipped, as the Gregorian rules do, or get their last day, as the Hijri rules do, is rule expansion, not scale conversion); '
            'events whose DTSTART lies outside a table calendar are not judged',
            'mode calscale: the scale an occurrence is judged in is the one it is labelled with, not the one the CALSCALE name says (the name reader takes HIJRI.IC / HIJRI.IIC for IA / IIA and may '
            'read a name differently depending on the bytes behind it; counted under calscale_name_read_as_other_scale, not reported: reading names is not part of the conversion); '
            'a stream that stops up to one cache fill (64 days) before the end of a table calendar is counted (calscale_ends_a_fill_before_table_end), not reported',
            'mode multirule: a differential clause - what a single rule gives in the calendar\'s scale is judged by modes stream and calscale, here only that several rules in one event give the union '
            '(less the exceptions) in one scale and in order; an instant two RRULEs both give may come once or twice (today once; counted, not judged); the scale judged is the label the single-rule '
            'streams carry, not what the CALSCALE name says (name reading, see calscale); events reaching within 64 days of the end of a table calendar are left out (none with the DTSTARTs used)',
            'mode text: the names written are HIJRI, HIJRI.UMMULQURA, HIJRI.DIYANET, HIJRI.IA, HIJRI.IIA, HIJRI.IIIA, HIJRI.IIIC, HIJRI.IVA, HIJRI.IVC with SCALE= as the last parameter, '
            'directly in front of the value (HIJRI.IC and HIJRI.IIC cannot be spelled so that the name reader takes them for what they say, and a name followed by another parameter may be read as another variant; '
            'both are left out); only days inside a table calendar\'s coverage are written',
        ],
    }
