from props_util import D

_ALL = 'xforms=list,listrev,lines,linesrev,exrule'


def register(PROPS):
    PROPS['C02'] = {
        'level': 'exploration',
        'technique': 'bounded exhaustive enumeration of exception / RDATE subsets on events parsed from iCalendar text, '
                     'differential oracle (same event without RDATE and exception lines) with start-equality set algebra',
        'claim': 'For every base event in the bound (3 rules x COUNT 3,5 x 4 duration classes given as DURATION or DTEND x DATE-TIME/DATE) every '
                 'subset of an exception universe of up to 11 instants (all instances, before the first, mid-gap, inside an instance\'s span, after '
                 'the last), written as one EXDATE list (ascending and descending), as one EXDATE line per instant (both orders) or combined with '
                 'one of 5 DTSTART-synchronised EXRULEs, crossed with every subset of a 3-instant RDATE universe (one list or one line each), is '
                 'parsed by the real parser and the task stream is popped to its end; the delivered starts are compared with '
                 '(rule instances u RDATE) minus the instants equal to an exception.  A second driver (c02_zonemix) writes every subset of up to 4 (thorough 5) exception instants of an HOURLY;INTERVAL=4 event with EVERY assignment of a written form to each value (UTC with Z, or local time of Asia/Tokyo, America/Phoenix, Asia/Kolkata via TZID), so lists whose raw values order differently from their instants are covered.  Its duprdate mode lists each of three instants 0, 1 or 2 times as RDATE (every written form per copy, or one comma list) against every EXDATE subset: delivered = (rule instances u listed) minus excepted, each once.  Its paramorder mode writes every subset of up to 3 (thorough 4) instants as EXDATE, and of 3 instants as RDATE, with EVERY assignment of one of 11 line spellings to each value - UTC plain or with VALUE=DATE-TIME; each of the three zones with TZID only, VALUE=DATE-TIME;TZID= or TZID=;VALUE=DATE-TIME - one line per value, or one comma list per spelling: the parameters of a line in any order name the same instants.  A third driver (c02_datelist) takes a 12-occurrence MONTHLY event at a fixed local time in Europe/Berlin, America/New_York and America/Sao_Paulo (7 or 8 occurrences on the other side of a DST switch; plus two DAILY x12 events that START within hours of a switch: Europe/Berlin 2015-03-29 01:30 and America/New_York 2015-11-01 03:00, where the wall clock read as UTC and the true UTC instant lie on opposite sides of it) and writes EVERY ORDERED sequence of 1..3 (thorough 4) days out of the 12 occurrence days and 2 other days as a VALUE=DATE EXDATE or RDATE list (one comma list, or one line per day); the delivered instants must be the own instants without the listed days (EXDATE), or united with the local time on the listed days (RDATE; taken from the same event run DAILY); with form=zoned the same sequences (1..2, thorough 3 days) are written as date-times at the local time and with the TZID of the event, the line parameters as TZID only, VALUE=DATE-TIME;TZID= or TZID=;VALUE=DATE-TIME (one list per spelling, or one line per day with every assignment of spellings), and must name the same occurrences / add the same instants.  A fourth driver (c02_longlist) writes EXDATE and RDATE lists of every length n = 1..100 (thorough 1..300, and 520..1320 in steps of 100) on a DAILY event (DATE-TIME and DATE values, two value sets: n consecutive days, and n days spread by i*37 mod a prime) in the written orders ascending, descending, alternating from both ends, evens then odds, blocks of 4/7/10/16/25 with the latest block first, strides 3/7/11, and EVERY rotation (the n-p latest values first, then the p earliest; p = 1..n-1), at most 40 or at most 7 values a line (several lines), as EXDATE alone, RDATE alone (odd days against a rule on even days) and RDATE plus an EXDATE list naming half of the RDATEs and as many rule instances: the delivered starts must be the sorted (rule days u RDATE days) minus EXDATE days, each once.  A fifth driver (c02_clone) takes every subset of an 11-instant exception universe of a DAILY;COUNT=8 event (DATE-TIME and DATE) x {no EXRULE, 3 synchronised EXRULEs} x {no RDATE, 2 RDATEs}, and six EXDATE lists of 10..99 values on a DAILY;COUNT=150 event, and for EVERY number k of pops (0..all) with and without a following peek clones the stream (clone, clone of the clone, clone of that), pops the clones to their ends (before the original, or in turns with it) and requires each clone and the original to deliver exactly the expected set without its first k starts.  Complete within that bound.',
        'note': 'Exception lists longer than 11 with anything but a DAILY rule, zero duration and UTC / DATE values (c02_longlist), date-time TZID values of zones with DST transitions other than the local time of the event in its own zone (c02_datelist form=zoned), RDATE before DTSTART and EXRULEs not synchronised with DTSTART are outside.  '
                'The property quantifies over durations that do not reach the next occurrence; the events of the enumeration whose duration does '
                '(the all-day daily event lasting one day; a mid-gap RDATE with a duration of gap/2 or more) are judged by the same start-equality '
                'oracle but carry the duration class dur>=gap in their signatures and are not counted as non-trivial.  '
                'The library leaks about 3.5 KiB per RDATE/EXDATE event (echs_evstrm_mux clones and forgets its arguments, free_evfilt keeps the '
                'filter object), hence many small shards.',
        'rule': 'one case = one event text (base event, RDATE lines, EXRULE/EXDATE lines); distinct by construction (forms that would repeat '
                'the text of the plain list form - several lines or reversed order with fewer than 2 instants - are not generated); '
                'non-trivial = the exceptions name at least one instance of (rule u RDATE), at least one instance survives, and the duration '
                'does not reach the next instance'
                '; paramorder and form=zoned: one case = one event text, non-trivial = some line carries two parameters'
                '; c02_longlist: one case = one event text, an order that repeats the value sequence of an earlier order for the same n (or a '
                'layout that repeats the text) is skipped, non-trivial = more than 32 values not in ascending order; c02_clone: one case = one '
                'event text (evaluations = parses: one per k x peek x popping order), non-trivial = at least two exceptions (EXDATE values or an '
                'EXRULE) and at least one occurrence left',
        'bound': {
            'quick': 'rules DAILY, HOURLY, WEEKLY;BYDAY=MO,TH (DTSTART on a Monday) with COUNT 3 and 5; durations 0, 1 s, gap/2, gap-1 s as DURATION and '
                     'as DTEND (DATE: 0 and 1 day, daily and weekly); all 2^|U| exception subsets (|U| <= 11, universe variant 0) in the forms list, '
                     'listrev, lines, linesrev and exrule (5 rules, each with every EXDATE subset); all 8 RDATE subsets as one list and, for >= 2 '
                     'instants, one line each; plus the COUNT 3 part (forms list, lines, exrule) under ASan+bounds; long lists n = 1..100 in all orders '
                     'of the family (every rotation), modes exdate, rdate, both, plain and under ASan+bounds; clones after every k pops for COUNT=8 '
                     '(2^11 exception subsets x 4 EXRULE choices x 2 RDATE choices x 2 value types) and the six long lists, COUNT=5 under ASan+bounds; '
                     'parameter orders: 11 spellings per value, up to 3 values (80 707 texts; up to 2 under ASan+bounds), zoned date-time lists of 1..2 days x 3 spellings per line x 5 configurations (11 130 texts each for EXDATE and RDATE)',
            'thorough': 'quick + universe variants 1 and 2 (the mid-gap and inside instants that do not fit into 11 for COUNT 5 with a duration) '
                        '+ the whole quick bound under ASan+bounds; long lists n = 1..300 (every rotation) and n = 520, 620 .. 1320 (5 rotations each; '
                        'beyond the 512-element scratch space of the sort); clones for COUNT=8 also under ASan+bounds; parameter orders up to 4 values (1 106 347 texts), zoned lists of 1..3 days (338 730 texts each)',
        },
        'drivers': [
            D('c02_zonemix', ['mode=exdate', 'maxlist=4'], ['mode=exdate', 'maxlist=5'], label='zonemix-exdate', shards=4),
            D('c02_zonemix', ['mode=exdate', 'maxlist=3'], label='zonemix-exdate-asan', shards=4, variant='asan'),
            D('c02_zonemix', ['mode=duprdate', 'forms=2'], ['mode=duprdate', 'forms=4'], label='duprdate', shards=4),
            D('c02_zonemix', ['mode=duprdate', 'forms=2'], label='duprdate-asan', shards=4, variant='asan'),
            D('c02_datelist', ['mode=exdate', 'maxlist=3'], ['mode=exdate', 'maxlist=4'], label='datelist-exdate', shards=8),
            D('c02_datelist', ['mode=rdate', 'maxlist=3'], ['mode=rdate', 'maxlist=4'], label='datelist-rdate', shards=8),
            D('c02_datelist', ['mode=exdate', 'maxlist=2'], label='datelist-exdate-asan', shards=4, variant='asan'),
            D('c02_zonemix', ['mode=paramorder', 'maxlist=3'], ['mode=paramorder', 'maxlist=4'], label='paramorder', shards=8),
            D('c02_zonemix', ['mode=paramorder', 'maxlist=2'], label='paramorder-asan', shards=4, variant='asan'),
            D('c02_datelist', ['mode=exdate', 'form=zoned', 'maxlist=2'], ['mode=exdate', 'form=zoned', 'maxlist=3'], label='datelist-zoned-exdate', shards=8),
            D('c02_datelist', ['mode=rdate', 'form=zoned', 'maxlist=2'], ['mode=rdate', 'form=zoned', 'maxlist=3'], label='datelist-zoned-rdate', shards=8),
            D('c02_datelist', ['mode=exdate', 'form=zoned', 'maxlist=2'], label='datelist-zoned-exdate-asan', shards=4, variant='asan'),
            D('c02_exdate', ['uni=0', _ALL], shards=64, label='uni0'),
            D('c02_exdate', ['uni=1', _ALL], shards=32, label='uni1', tiers=('thorough',)),
            D('c02_exdate', ['uni=2', _ALL], shards=32, label='uni2', tiers=('thorough',)),
            D('c02_exdate', ['uni=0', 'counts=3', 'xforms=list,lines,exrule'], ['uni=0', _ALL],
              shards=64, label='uni0-asan', variant='asan'),
            D('c02_longlist', ['mode=exdate', 'nmax=100'], ['mode=exdate', 'nmax=300'], label='longlist-exdate'),
            D('c02_longlist', ['mode=rdate', 'nmax=100'], ['mode=rdate', 'nmax=300'], label='longlist-rdate'),
            D('c02_longlist', ['mode=both', 'nmax=100'], ['mode=both', 'nmax=300'], label='longlist-both'),
            D('c02_longlist', ['mode=exdate', 'nmax=100'], label='longlist-exdate-asan', variant='asan'),
            D('c02_longlist', ['mode=rdate', 'nmax=100'], label='longlist-rdate-asan', variant='asan'),
            D('c02_longlist', ['mode=both', 'nmax=100'], label='longlist-both-asan', variant='asan'),
            D('c02_longlist', ['mode=exdate', 'nmin=520', 'nmax=1320', 'nstep=100', 'rot=few'], label='longlist-exdate-big', tiers=('thorough',)),
            D('c02_longlist', ['mode=rdate', 'nmin=520', 'nmax=1320', 'nstep=100', 'rot=few'], label='longlist-rdate-big', tiers=('thorough',)),
            D('c02_longlist', ['mode=both', 'nmin=520', 'nmax=1320', 'nstep=100', 'rot=few'], label='longlist-both-big', tiers=('thorough',)),
            D('c02_clone', ['count=8'], label='clone'),
            D('c02_clone', ['count=5'], ['count=8'], label='clone-asan', variant='asan'),
        ],
        'assumptions': [
            'an exception removes exactly the instances whose start instant equals it (property text); an exception that names no instance removes nothing',
            'whether an RDATE equal to a rule instance yields one or two occurrences is left open: starts are compared as sets, a start delivered '
            'twice is accepted only in that situation',
            'EXRULE instances are those of RFC 5545 for rules synchronised with DTSTART (same FREQ, BYDAY containing DTSTART\'s weekday, or the next '
            'coarser FREQ with DTSTART supplying the rest); given by closed formulas in the driver, not by the code under test',
            'the base events (no RDATE, no exception) deliver exactly COUNT instances at the expected instants; checked at run time (precond/base signature otherwise)',
            'all values are UTC date-times or floating dates; exceptions and RDATEs have the value type of DTSTART',
            'paramorder / form=zoned: RFC 5545 puts no order on the parameters of a property line and DATE-TIME is the default value type of EXDATE and RDATE, so VALUE=DATE-TIME before or after TZID changes nothing; '
            'a local time with TZID names the instant that DTSTART with the same TZID and local time names (zoned: taken from the event\'s own occurrences, no zone table in the harness); '
            'paramorder compares starts as sets (an RDATE equal to a rule instance may be delivered once or twice, judged by duprdate)',
            'c02_longlist: the RDATE days are never rule instances (rule on even days, RDATE on odd days), so the open question of an RDATE equal to a rule instance does not arise; each start must be delivered once',
            'c02_clone: clone_echs_evstrm() of an event\'s stream stands for the event from the current position on: it must deliver what the original still has to deliver (the recurrence set of the property without the starts already popped); a peek (echs_evstrm_next) consumes nothing; taking, popping and freeing clones does not change what the original delivers',
        ],
    }
