from props_util import D

# the sanitizer variant meets the same NULL dereference thousands of times on the pinned tree;
# symbolising each report costs 0.2 s, so it is left off (run the replay command by hand without it for a readable trace)
ASAN_ENV = {'ASAN_OPTIONS': 'symbolize=0', 'PATH': '/usr/bin:/bin'}

def register(PROPS):
    PROPS['C03'] = {
        'level': 'model_checking',
        'counter_map': {'states': 'states', 'transitions': 'transitions', 'traces_validated_against_impl': 'traces'},
        'technique': 'explicit-state exploration of {peek,pop} operation sequences on the real mux code against a sorted-multiset '
                     'reference model; depth-first with replay (every maximal sequence runs on a freshly parsed, freshly muxed stream); '
                     'clone-vs-replay differential oracle at every prefix',
        'claim': 'For every configuration inside the bound (1-4 constituent streams, each a strictly increasing list of 0-3 instants out of '
                 '{t1<t2<t3} under UID a or b, obtained from text through the real parser; seven ways of combining them: echs_evstrm_vmux, '
                 'echs_evstrm_mux, two shapes of mux-of-mux, several events in one file, several files, and 2-3 COUNT-limited RRULEs plus an RDATE '
                 'list on one event muxed with a second event) EVERY sequence of peek/pop calls with at most 2 consecutive peeks, continued '
                 'two calls past the end, is executed on the real code and compared call by call with the reference model: peek shows the '
                 'head and changes nothing, pop delivers and removes it, the end is reported exactly when the model is empty and stays '
                 'reported.  The reference model is the union of the occurrence lists of the constituents (each obtained by draining a '
                 'separately parsed copy of that constituent alone), sorted by start, an occurrence with the same UID and instant in '
                 'several constituents kept once; occurrences of different UIDs at one instant may come in either order.  After every '
                 'prefix the stream is cloned and the clone must deliver what the original goes on to deliver.  A further driver (c02_zonemix, mode rdate) feeds RDATE lists whose values are written in different forms (UTC / three fixed-offset zones, every assignment) and requires the stream to be non-decreasing and complete.  A third driver (c03_forms) merges every subset of 2-3 (thorough 2-5) out of eight constituents whose occurrences are WRITTEN differently - all-day dates (daily and weekly), UTC date-times at 00:00:00, 12:00 and 23:59:59, local times of Europe/Berlin (across its DST switch), America/New_York and Asia/Tokyo that fall on or next to UTC midnight - by vmux in both orders and as one file, read by pops and by peek-pop pairs, each run and each reference reading in a freshly forked image: starts must be non-decreasing with an all-day occurrence starting at 00:00:00 of its day, the delivered (UID, start) multiset must be the union of what the constituents deliver alone, a peek must show what the next pop returns.  A fourth driver (c03_tworules, also registered for C07 and C16) compares an event that has two recurrence sources - 5 pairs of RRULEs that meet, interleave or are disjoint, in UTC and in four zones, at three times of day and in three seasons; an RRULE plus RDATE lists that repeat rule occurrences; RDATE lists whose members are written as dates, UTC date-times and TZID local times, every subset in every order - with the duplicate-free union of the events that carry one source each (strictly increasing), and the selection echs_instant_matches_p makes on a merged stream with the union of the selections on its constituents.  A fifth driver (c03_wide) leaves the small bound in two directions.  mode=wide: N = 1..70 (thorough 1..140) one-rule events with own UIDs and pairwise distinct instants (three daily occurrences each, order in time different from argument order) are merged by each of the four constructors of evstrm.h (echs_evstrm_mux and echs_evstrm_mux_clon through one variadic call site closed by NULL, echs_evstrm_vmux, echs_evstrm_vmux_clon; originals of the cloning constructors freed before reading) and read by pops and by peek-peek-pop: exactly the 3N arithmetically known occurrences come out, each once under its UID, in increasing order, a peek shows what the pop returns, the end stays the end.  mode=long: 44 events whose rule has 200 occurrences (or what an UNTIL admits) and whose delivered instants are not the instants the rule is stepped in - DTSTART in a zone with daylight saving (Berlin, New York, Sydney, London; daily from the first of every month of 2020 and from mid-month, every second day, weekly on two days, monthly, every 7 hours), a calendar with CALSCALE:HIJRI.IA (daily date/date-time, weekly, monthly, Gregorian-written DTSTART), plus UTC / Tokyo / all-day controls: the event read alone by pops gives list A; alone by peek-peek-pop both peeks equal the pop and the list is A; merged with a second recurring event by vmux of two files (both orders), one file (both orders) and echs_evstrm_mux, by pops and by peek-peek-pop, the occurrences under its UID are exactly A, those under the other UID exactly what that event delivers alone, nothing else, starts non-decreasing; with one additional RDATE on the same event (the two-stream mux of make_task) the stream is the duplicate-free sorted union of A and the RDATE-only reading.  A sixth driver (harness/exec/c03_cli.py) observes the merged stream where the property places it first, at `echse unroll` itself, and thereby covers what lies between the command line and the mux in echse.c (reading an input in pieces, the task table, the registry of streams handed to echs_evstrm_vmux).  mode=reg: six events - a b c d with UIDs of their own, A and B defining the UIDs of a and b again with another schedule and summary, all instants pairwise distinct; every sequence of 1..4 (thorough 1..5) of them, laid out over 1..3 calendar files in every way, is unrolled by the real binary: every occurrence of the last definition of every UID is delivered exactly once (by date arithmetic), starts are non-decreasing, nothing is delivered that no input produces.  mode=arr: a calendar of 6 events (LF and CRLF) reaches echse on stdin through a pipe in two pieces, the cut at EVERY byte position, the second piece written only after the first has been read (so the first read() returns a short count): the stream is the one the same bytes give as a regular file (argument and stdin) and the one computed by date arithmetic; the same for a 70 KiB calendar of 330 events at 226 cut positions around the buffer size of echse, around every 4 KiB multiple and on a grid.  mode=files: echse reads every input, regular files included, in pieces of 65536 bytes; calendars larger than that (filler events with two occurrences each, sized to the byte, then a target event, then one more event) are built so that the line feed that ends or FOLDS one content line of the target event - its RDATE list, its RRULE with COUNT, its SUMMARY or its DTSTART - is byte 65536+d or 131072+d of the text, d = -3..+3 (d=0: the line feed is the last byte of a piece, the folding blank the first byte of the next; with CRLF d=1 parts CR from LF), the line unfolded, folded with SPACE or HTAB at a token boundary or inside a token, or folded twice; each text is unrolled as a FILE argument merged with a second small calendar, as a regular file on stdin, and through a pipe in two pieces cut behind that line feed: every occurrence computed by date arithmetic from the unfolded lines (RFC 5545 3.1) comes exactly once under its UID and summary, in order, nothing else.',
        'note': 'Not covered: all peek/pop sequences on more than 4 constituents or 3 occurrences each (c03_wide reads wide and long merges by two fixed styles only), duplicates inside one constituent (not settled by the '
                'property text), more than 2 consecutive peeks.  Clone is used as an oracle, it is not part of the property; clone defects '
                'are reported under clone-*/crash signatures.',
        'rule': 'case = one configuration (constituents x construction path); evaluation = one maximal operation sequence executed from '
                'scratch on the real code; sequences are distinct by construction (configurations are ordered tuples, sequences are '
                'enumerated once each); non-trivial = a sequence on a configuration whose reference model holds >= 2 occurrences and '
                'whose occurrences come from >= 2 constituents (an actual merge).  states/transitions are counted on the '
                '(configuration, occurrences delivered, pending consecutive peeks, calls past the end) graph.  c03_cli: case = evaluation = one layout run through the echse binary (sequence of events x division into files; text x cut position); non-trivial = a UID is defined again and at least two UIDs remain (reg), a cut strictly inside the text (arr), every case of mode=files (the text is longer than one piece and is merged with a second file).',
        'bound': {
            'quick': 'plain family: 1-3 streams, each a strictly increasing list of 0-2 instants out of {t1<t2<t3} under UID a|b, x 6 construction '
                     'paths (vmux, mux, nest, nestr, onefile, files) = 17724 configurations; rrules family: one event with 2 RRULEs out of 7 '
                     '(one per non-empty subset of {t1,t2,t3}) x RDATE list (none or 7) x second event (none or 14) = 5880 configurations; on each '
                     'ALL peek/pop sequences with <= 2 consecutive peeks + 2 calls past the end, each also with the clone oracle at every prefix; '
                     'ASan variant (every prefix additionally replayed and freed mid-way): plain 1-3 streams with lists <= 1 (3504 configurations), '
                     '4 streams with lists <= 1 through vmux and mux (8192), rrules with 2 rules, RDATE in {none,{t2},{t1,t2,t3}}, second event '
                     'in {none, a|b x {t2},{t1,t2,t3}} (735); c03_wide: wide N = 1..70 x 4 constructors x 2 reading styles (560 merges + 70 constituents alone), '
                     'long 44 events x (alone peek-peek-pop + 5 merge paths x 2 styles) + 5 events with an RDATE x 2 styles = 494 readings of 199-500 occurrences, plain and ASan; c03_cli: reg = sequences of length 1..4 over 6 events x every composition into 1..3 files = 10014 runs of echse unroll; arr = 2 texts (977 and 1024 bytes) x every cut 0..len + 1 text of 77511 bytes x 226 cuts = 2229 two-piece runs + 3 x 2 regular-file readings; files = 2 piece boundaries x 4 target lines x 6 ways of folding x {LF, CRLF} x 7 alignments = 672 texts of 64-129 KiB x 3 readings = 2016 runs',
            'thorough': 'plain family: 1-3 streams with all 8 lists x 6 paths (26208 configurations) and 4 streams with all 8 lists x 5 paths '
                        '(327680; echs_evstrm_mux is left out at 4 streams in the plain build because its heap overrun makes the run '
                        'irreproducible, it is covered under ASan); rrules family: 2-3 RRULEs (392 tuples) x 8 x 15 = 47040 configurations; same '
                        'sequences and clone oracle; ASan variant with mid-way frees: plain 1-3 streams lists <= 2 (17724), 4 streams lists <= 1 '
                        'x 6 paths (24576), rrules with 2 rules (5880).  Run end to end: 273 million sequences.  c03_wide: wide N = 1..140 (1120 merges + 140 alone), long as in quick.  c03_cli: reg with sequences of length 1..5 (95550 runs), arr and files as in quick.',
        },
        'drivers': [
            D('c02_zonemix', ['mode=rdate', 'maxlist=4'], ['mode=rdate', 'maxlist=5'], label='zonemix-rdate', shards=4),
            D('c02_zonemix', ['mode=rdate', 'maxlist=3'], label='zonemix-rdate-asan', shards=4, variant='asan'),
            D('c03_forms', ['maxn=3'], ['maxn=5'], label='forms', shards=4),
            D('c03_tworules', ['mode=rules'], label='two-sources-rules', shards=4),
            D('c03_tworules', ['mode=rdates'], label='two-sources-rdates', shards=4),
            D('c03_tworules', ['mode=filter'], label='filter-on-merged', shards=2),
            D('c03_tworules', ['mode=rules'], label='two-sources-rules-asan', shards=4, variant='asan'),
            D('c03_forms', ['maxn=2'], ['maxn=3'], label='forms-asan', shards=4, variant='asan'),
            D('c03_wide', ['mode=wide', 'nmax=70'], ['mode=wide', 'nmax=140'], label='wide', shards=8),
            D('c03_wide', ['mode=wide', 'nmax=70'], ['mode=wide', 'nmax=140'], label='wide-asan', shards=8, variant='asan', env=ASAN_ENV),
            D('c03_wide', ['mode=long'], label='long', shards=8),
            D('c03_wide', ['mode=long'], label='long-asan', shards=8, variant='asan', env=ASAN_ENV),
            D('c03_mux', ['fam=plain', 'nmax=3', 'lmax=2'], ['fam=plain', 'nmax=3', 'lmax=3', '--deadline', '420'], label='plain'),
            # four streams: echs_evstrm_mux() overruns its 24-byte array from the 4th stream on (known finding); what a plain build does
            # after that is not reproducible, so that constructor gets its 4-stream configurations under ASan only (below)
            D('c03_mux', ['fam=plain', 'nmin=4', 'nmax=4', 'lmax=3', 'paths=vmux,nest,nestr,onefile,files', '--deadline', '420'],
              label='plain-n4', tiers=('thorough',)),
            D('c03_mux', ['fam=rr', 'nmin=2', 'nmax=2'], ['fam=rr', 'nmin=2', 'nmax=3', '--deadline', '420'], label='rrules'),
            D('c03_mux', ['fam=plain', 'nmax=3', 'lmax=1', 'freeat=1'], ['fam=plain', 'nmax=3', 'lmax=2', 'freeat=1', '--deadline', '420'],
              label='plain-asan', variant='asan', env=ASAN_ENV),
            D('c03_mux', ['fam=plain', 'nmin=4', 'nmax=4', 'lmax=1', 'paths=vmux,mux', 'freeat=1'],
              ['fam=plain', 'nmin=4', 'nmax=4', 'lmax=1', 'freeat=1', '--deadline', '420'],
              label='plain-n4-asan', variant='asan', env=ASAN_ENV),
            D('c03_mux', ['fam=rr', 'nmin=2', 'nmax=2', 'rdmasks=0,2,7', 'xmasks=0,2,7', 'freeat=1'],
              ['fam=rr', 'nmin=2', 'nmax=2', 'freeat=1', '--deadline', '420'], label='rrules-asan', variant='asan', env=ASAN_ENV),
            # the tool itself: `echse unroll` on generated calendars (registry of streams, input arriving in pieces)
            D('harness/exec/c03_cli.py', ['mode=reg', 'len=4'], ['mode=reg', 'len=5'], label='echse-unroll-cli', interp='/usr/bin/python3', shards=16),
            D('harness/exec/c03_cli.py', ['mode=arr'], label='echse-unroll-stdin-pieces', interp='/usr/bin/python3', shards=16),
            # a line end or a fold of a content line on the 64 KiB piece boundary of echse (files > 64 KiB, as arguments, on stdin, through a pipe)
            D('harness/exec/c03_cli.py', ['mode=files'], label='echse-unroll-chunk-boundary', interp='/usr/bin/python3', shards=16),
        ],
        'assumptions': [
            'constituents are explicit lists: DTSTART equals the first listed instant and is repeated in the RDATE list, so the question '
            'whether DTSTART is an occurrence of an RDATE-only event (RFC 5545: yes; evical.c: no) does not enter',
            'the occurrence list of a constituent is what a separately parsed copy of it delivers on its own; configurations whose '
            'constituents are not strictly increasing lists on their own are skipped and counted (none inside the bound)',
            'identity of an occurrence is (UID, start instant); order among different UIDs at one instant is free',
            'a peek followed by another call must show the same occurrence (it is "the next occurrence"); reported separately as peek-unstable',
            'streams are handed to the constructors fresh (unconsumed), as evical.c and echse.c do; ownership follows the code: '
            'echs_evstrm_vmux takes the streams over, echs_evstrm_mux clones and the originals are freed at once',
            'a NULL stream (event without DTSTART) is the empty constituent; a NULL merged stream is the empty stream',
            'c03_wide: ownership follows the code, not the comments of evstrm.h: echs_evstrm_mux and echs_evstrm_vmux_clon clone (the originals are freed before the merge '
            'is read, except a single stream that vmux_clon hands through as it is), echs_evstrm_mux_clon and echs_evstrm_vmux take the streams over',
            'c03_wide mode=long is differential: what the long event delivers alone by pops is the reference (it must have the stated number of occurrences and be '
            'strictly increasing, otherwise precond/ is reported); whether those instants are the right ones is the business of C07/C15/C16.  Order is judged on the '
            'digits as delivered (zone/scale tags taken off), which is meaningful because both events of a Hijri case live in one Hijri calendar',
            'several events with one UID are combined at library level (vmux of their streams); echse(1) itself replaces an earlier '
            'event by a later one with the same UID before muxing, which is a policy above the mux',
            'c03_cli mode=reg: a UID that is defined again: the constituents of the merged stream are the LAST definitions (echse.c put_task_slot drops the earlier task and its stream; neither README nor --help say otherwise); their occurrences are demanded, occurrences of an earlier definition are neither demanded nor reported (counter stale; 0 on the pinned tree); events whose UID is defined once are demanded in full whatever happens to other UIDs',
            'c03_cli mode=arr: the text has no backslash escapes, no line of 1 KiB or more and nothing after END:VCALENDAR (the three chunk-dependences of the parser known under C10); cutting is done by the kernel pipe, so the bound is two pieces; the 70 KiB text is additionally cut by echse at its own 64 KiB buffer.  Whether echse goes on reading after the last event has been delivered in full is not judged',
            'c03_cli mode=files: same three exclusions as mode=arr (no backslash, every line shorter than 1000 bytes, nothing after END:VCALENDAR; asserted on every generated text).  A line break followed by one SPACE or HTAB is no line break (RFC 5545 3.1, which the README names as the input format), wherever the producer puts it - also behind the colon, inside a date, a word or a keyword; the reference is computed from the unfolded lines.  The piece size 65536 is read off echse.c (_inject_fd); were it changed, the alignments would no longer meet a boundary of the files and only the pipe readings (which cut behind the line feed themselves) would keep their force',
        ],
    }
