from props_util import D


def register(PROPS):
    PROPS['C01'] = {
        'level': 'exploration',
        'technique': 'bounded exhaustive enumeration of a rule grammar x DTSTART phases against an independent RFC 5545 membership-scan evaluator',
        'claim': 'Every rule of a bounded RRULE grammar (all FREQs x INTERVAL menu x every legal subset of up to 2 BY-parts (3 date parts for '
                 'YEARLY/MONTHLY in thorough) with value menus covering single, multiple, negative, ordinal and boundary values x COUNT/UNTIL '
                 'terminations x 8-18 DTSTART phases) is rendered as an event, pushed through the real parser, popped, and compared element by '
                 'element (first 200 occurrences inside a per-FREQ window) with an independent evaluator written from RFC 5545 3.3.10; the same '
                 'event is also consumed peek,peek,pop like echsd does.  Complete within that grammar.',
        'note': 'Trusted: harness/ref/rfc5545.h (membership test + scan, shares no code with evrrul.c).  Only synchronised DTSTARTs, WKST=MO, '
                'cases where two BYSETPOS readings differ are skipped and counted.  The rule language is infinite; the claim is the grammar.',
        'rule': 'case = (rule text, termination, DTSTART); DTSTART is the first member at or after an anchor, deduplicated per rule, so every '
                'case is a distinct text; non-trivial = the reference lists >= 2 occurrences in the window',
        'bound': {
            'quick': 'BY-part subsets of size <= 2, INTERVAL {1,2}, 8 anchors, terminations {none, COUNT 2, COUNT 65, UNTIL on 4th}',
            'thorough': 'subsets <= 2 (+ size-3 date-part subsets for YEARLY/MONTHLY), INTERVAL {1,2,3,7}, 18 anchors, terminations '
                        '{none, COUNT 1,2,63,64,65,130, UNTIL on / just before the 4th occurrence}',
        },
        'drivers': [
            D('c01_rrule', ['maxparts=2', 'intervals=1,2', 'anchors=8', 'terms=quick', '--case-timeout', '2'],
              ['maxparts=2', 'date3=1', 'intervals=1,2,3,7', 'anchors=18', 'terms=full', '--case-timeout', '2'], label='grammar'),
        ],
        'assumptions': ['DTSTART is a member of its own rule (RFC 3.8.5.3 leaves the other case undefined)', 'WKST=MO',
                        'no BYWEEKNO without BYDAY, no ordinal BYDAY with BYWEEKNO/BYMONTHDAY/BYYEARDAY, years 1902-2098',
                        'BYSETPOS cases where counting positions over the whole first period or only from DTSTART differ are left out'],
    }
