from props_util import D


def register(PROPS):
    PROPS['C01'] = {
        'level': 'exploration',
        'technique': 'bounded exhaustive enumeration of a rule grammar x DTSTART phases against an independent RFC 5545 membership-scan evaluator',
        'claim': 'Every rule of a bounded RRULE grammar (all FREQs x INTERVAL menu x every legal subset of up to 2 BY-parts (3 date parts for '
                 'YEARLY/MONTHLY in thorough) with value menus covering single, multiple, negative, ordinal and boundary values x COUNT/UNTIL '
                 'terminations x 8-18 DTSTART phases) is rendered as an event, pushed through the real parser, popped, and compared element by '
                 'element (first 200 occurrences inside a per-FREQ window) with an independent evaluator written from RFC 5545 3.3.10; the same '
                 'event is also consumed peek,peek,pop like echsd does.  Complete within that grammar.  Two further families with their '
                 'own enumerations: (setposmix) YEARLY/MONTHLY rules whose candidate sets differ in size between periods (4/5 weekdays of a '
                 'month, 27-29 February, 52/53 Mondays of a year, ...) x BYSETPOS lists mixing a positive position that only some periods '
                 '(or none) have with negative ones; (unsync) FREQ=MONTHLY;INTERVAL=n;BYMONTH=... [+BYMONTHDAY|BYDAY] with the DTSTART '
                 'given, not derived, so that DTSTART\'s month need not be listed and INTERVAL (incl. n > 12) is counted from DTSTART\'s '
                 'month: the members after DTSTART must be the RFC\'s; (bigstep) sub-daily FREQs whose single step is longer than a '
                 'day / a week / a month / a year (HOURLY;INTERVAL=25..8761, MINUTELY;INTERVAL=1441..44641, SECONDLY;INTERVAL=86401, 604801), '
                 'alone and with one BYDAY / BYMONTH / BYMONTHDAY part, over 400 steps; (mdayedge) FREQ=YEARLY and FREQ=MONTHLY with '
                 'BYMONTHDAY values at the edge of what a month has (-31, -30, -29, -28, 31, 30, 29 and mixtures, so that a negative '
                 'day is the 1st of some months only), without BYMONTH, with BYMONTH=2 and with BYMONTH=1,3,4; (longlist) FREQ=YEARLY and '
                 'FREQ=MONTHLY (without BYMONTH, with BYMONTH=2, with BYMONTH=1,3,5,7,8,10,12) with one long value list: BYDAY lists of '
                 '11..21 distinct ordinal entries out of {1..5,-1..-5} x {MO..SU} (positive, working days only, negative, alternating '
                 'signs, every third entry, the end of the menu; written ascending and descending), and BYMONTHDAY / BYYEARDAY / '
                 'BYWEEKNO(+BYDAY) / BYSETPOS lists of 11..16 values (positive, negative, alternating signs; both orders); the reference '
                 'lists hold 8 values, so the expected set is the union of the reference\'s sets for the list cut into pieces of <= 8 '
                 'values, with COUNT / UNTIL applied to the union.',
        'note': 'Trusted: harness/ref/rfc5545.h (membership test + scan, shares no code with evrrul.c).  Only synchronised DTSTARTs (except '
                'the unsync family, where only what follows DTSTART is judged), WKST=MO, '
                'cases where two BYSETPOS readings differ are skipped and counted.  The rule language is infinite; the claim is the grammar.',
        'rule': 'case = (rule text, termination, DTSTART); DTSTART is the first member at or after an anchor, deduplicated per rule, so every '
                'case is a distinct text; non-trivial = the reference lists >= 2 occurrences in the window',
        'bound': {
            'quick': 'BY-part subsets of size <= 2, INTERVAL {1,2}, 8 anchors, terminations {none, COUNT 2, COUNT 65, UNTIL on 4th}; '
                     'setposmix: 13 base rules x 9 BYSETPOS lists x INTERVAL {1,2} x 8 anchors x the same terminations; '
                     'unsync: 7 BYMONTH lists x 6 second parts x INTERVAL {1,2,3,5,7,11,12,13,14,17,18,24,25,30} x 8 given DTSTARTs x '
                     '{none, UNTIL on 4th}, 40-year window; '
                     'bigstep: 15 (FREQ, INTERVAL) steps {HOURLY 25, 49, 167, 168, 169, 200, 240, 745, 8761; MINUTELY 1441, 10081, 10090, 44641; '
                     'SECONDLY 86401, 604801} x 10 second parts {none, BYDAY=MO,WE,FR | SA,SU | TU, BYMONTH=1,3,5,7,8,10,12 | 2, '
                     'BYMONTHDAY=1 | 29,30,31 | -1 | 1,-1} x 7 date-time anchors x the same terminations, window 400 steps (not past 2095), '
                     'first 200 occurrences; '
                     'mdayedge: {YEARLY, MONTHLY} x {no BYMONTH, BYMONTH=2, BYMONTH=1,3,4} x 12 BYMONTHDAY lists {-31, -30, -29, -28, "-31,-1", '
                     '"-29,-1", "-30,1", 31, 30, 29, "29,-29", "-31,-30,-29,-28"} x INTERVAL {1,2} x 8 anchors x the same terminations',
            'thorough': 'subsets <= 2 (+ size-3 date-part subsets for YEARLY/MONTHLY), INTERVAL {1,2,3,7}, 18 anchors, terminations '
                        '{none, COUNT 1,2,63,64,65,130, UNTIL on / just before the 4th occurrence}; setposmix: INTERVAL {1,2,3,7}, 18 anchors, '
                        'all terminations; unsync: 18 given DTSTARTs, {none, UNTIL on / just before the 4th}; bigstep: 18 anchors (14 '
                        'date-time), all terminations; mdayedge: INTERVAL {1,2,3,7}, 18 anchors, all terminations',
        },
        'drivers': [
            D('c01_rrule', ['maxparts=2', 'intervals=1,2', 'anchors=8', 'terms=quick', '--case-timeout', '2'],
              ['maxparts=2', 'date3=1', 'intervals=1,2,3,7', 'anchors=18', 'terms=full', '--case-timeout', '2'], label='grammar'),
            D('c01_rrule', ['mode=setposmix', 'intervals=1,2', 'anchors=8', 'terms=quick', '--case-timeout', '2'],
              ['mode=setposmix', 'intervals=1,2,3,7', 'anchors=18', 'terms=full', '--case-timeout', '2'], label='setposmix'),
            D('c01_rrule', ['mode=unsync', 'intervals=1,2,3,5,7,11,12,13,14,17,18,24,25,30', 'anchors=8', 'terms=quick', '--case-timeout', '2'],
              ['mode=unsync', 'intervals=1,2,3,5,7,11,12,13,14,17,18,24,25,30', 'anchors=18', 'terms=full', '--case-timeout', '2'], label='unsync'),
            D('c01_rrule', ['mode=bigstep', 'anchors=8', 'terms=quick', '--case-timeout', '2'],
              ['mode=bigstep', 'anchors=18', 'terms=full', '--case-timeout', '2'], label='bigstep'),
            D('c01_rrule', ['mode=mdayedge', 'intervals=1,2', 'anchors=8', 'terms=quick', '--case-timeout', '2'],
              ['mode=mdayedge', 'intervals=1,2,3,7', 'anchors=18', 'terms=full', '--case-timeout', '2'], label='mdayedge'),
            D('c01_rrule', ['mode=longlist', 'intervals=1,2', 'anchors=8', 'terms=quick', '--case-timeout', '2'],
              ['mode=longlist', 'intervals=1,2,3,7', 'anchors=18', 'terms=full', '--case-timeout', '2'], label='longlist'),
        ],
        'assumptions': ['DTSTART is a member of its own rule (RFC 3.8.5.3 leaves the other case undefined); in the unsync family a DTSTART '
                        'that is no member may or may not be delivered first, COUNT is not used there, and what follows must be the members '
                        'of the rule in the months DTSTART\'s month + k*INTERVAL', 'WKST=MO',
                        'no BYWEEKNO without BYDAY, no ordinal BYDAY with BYWEEKNO/BYMONTHDAY/BYYEARDAY, years 1902-2098',
                        'BYSETPOS cases where counting positions over the whole first period or only from DTSTART differ are left out'],
    }
