from props_util import D


def register(PROPS):
    PROPS['C06'] = {
        'engine': 'E2',
        'level': 'fault_enumeration',
        'technique': 'exhaustive crash-point and single-fault enumeration over every spool system call of every checkpoint in bounded command histories, restart replayed on a pristine daemon image',
        'claim': 'Every history up to the stated depth over {ADD/replace (3 payload sizes: checkpoint needs 1, 2 or 3 write calls), CANCEL, and two-instruction requests whose first instruction succeeds and whose last is refused} for two '
                 'users and two UIDs, optionally with undisturbed CHKPT/LIST steps in between, is executed on the embedded echsd; at every reached '
                 'state each checkpoint-bearing event (CHKPT timer, GET /queue of either user, SHUTDOWN) is run (a) undisturbed with the spool '
                 'snapshotted before every intercepted call (openat, each write, close, renameat, unlinkat) and at the end, and (b) once per call '
                 'and per fault in {EIO, ENOSPC, EMFILE, short write}.  Every snapshot / post-fault spool must hold only complete live queue files '
                 'and, loaded by a pristine daemon image through the real echsd_inject_queues(), must arm for each user exactly the tasks (UID, '
                 'owner, first occurrence) of that user\'s last completed checkpoint or, once its rename has happened, of the current queue; after '
                 'SHUTDOWN the current queue of everybody; a fault must leave the daemon alive with its in-memory queue unchanged.  '
                 'Second epoch: from every distinct crash-point image (and the completed one) the restarted daemon is given, for each task it scheduled, '
                 'a CANCEL by its owner or a replacement by a small task, and checkpoints; memory must show exactly the restarted set with that change, '
                 'every live queue file must be ONE complete calendar (nothing before its BEGIN or behind the END that closes it), and a further restart '
                 'on that spool must schedule exactly that set (what an interrupted checkpoint leaves behind - temp files - must not leak into later ones).  The same is asked of the daemon that lives on after an injected fault: one more command, an undisturbed checkpoint, files and a restart are judged for every distinct (spool, queue) pair a fault leaves; and with no further command at all, a clean shutdown: its undisturbed final checkpoint must bring every acknowledged change to the spool, also those whose checkpoint failed before.  Geometry: one task of about 4.7 kB with a command line of every length 1..1000, final checkpoint, the queue file must be one complete calendar of printable lines no longer than the reader takes, holding every address and file name that was sent, and a restart must schedule the task.  Two linear histories have a job RUNNING at the clean shutdown (its task cancelled just before, or left alone): the final checkpoint must hold exactly what is queued.  ADD with the owner spelled as the login name of the submitter is in the alphabet.  The dump-everybody path (3 users x 7 tasks, 18 change notes) is run with every spool call failing once.  A separate '
                 'configuration drives 15, 16, 17, 18, 40 and 100 users through the "dump everybody" path (from 17 on it has to enlarge its list of open files half-way), also under ASan; one user with 150, 200, 257 and 290 tasks (the UID table overflows into its further levels) must get every UID back under its own name after a restart; six tasks whose text fields carry iCalendar escapes (\\n, \\,, \\;, \\\\ followed by text that looks like calendar structure or X-ECHS-OWNER/SETUID lines) must leave a file of well-formed content lines that restarts to the accepted UIDs under their owner and nothing else.',
        'note': 'Crash model is process death at a system-call boundary (as the property states): no fsync/power-loss or torn-sector semantics.  '
                'Trusted: the in-memory spool of harness/daemon/hx.h and the map model in e2_chkpt.c.  Time does not advance in these histories.',
        'rule': 'case = first command (or the empty history); below it all histories to the depth bound, deduplicated by canonical state; '
                'evaluations counts cases, the counters give checkpoint runs (traces), crash points, injected faults, restarts and second-epoch histories; '
                'non-trivial = at least two crash points or faults were judged in the case',
        'bound': {'quick': 'depth 3 + 15..18-, 40- and 100-user configurations + geometry sweep 1..1000', 'thorough': 'depth 4 + 15..18-, 40- and 100-user configurations + geometry sweep 1..1000'},
        'drivers': [
            D('e2_chkpt', ['mode=hist', 'depth=3', '--case-timeout', '120'], ['mode=hist', 'depth=4', '--case-timeout', '600'], label='histories'),
            D('e2_chkpt', ['mode=many', '--case-timeout', '120'], label='many-users', shards=4),
            D('e2_chkpt', ['mode=many', '--case-timeout', '300'], label='many-users-asan', shards=4, variant='asan'),
            D('e2_chkpt', ['mode=geometry', 'lmax=1000', '--case-timeout', '120'], label='geometry', shards=8),
            D('e2_chkpt', ['mode=geometry', 'lmax=300', '--case-timeout', '120'], ['mode=geometry', 'lmax=1000', '--case-timeout', '300'], label='geometry-asan', shards=8, variant='asan'),
            D('e2_chkpt', ['mode=hist', 'depth=1', '--case-timeout', '120'], ['mode=hist', 'depth=2', '--case-timeout', '600'], label='asan', variant='asan'),
        ],
        'assumptions': ['which users a timer checkpoint or a listing covers is taken from the renames the daemon performs, not prescribed',
                        'tasks are identified after restart by UID, owner and first occurrence'],
    }
