from props_util import D

BIG_GRAM = ['ext=0', 'maxparts=2', 'date3=1', 'menucap=0', 'intervals=1,2,3', 'anchors=8', 'terms=full', 'ks=full']
TRIPLES = ['ext=0', 'maxparts=3', 'menucap=3', 'intervals=1,2', 'anchors=6', 'terms=full', 'ks=full']


def register(PROPS):
    PROPS['C05'] = {
        'level': 'exploration',
        'technique': 'bounded exhaustive enumeration of (field subset x calendar defaults), (schedule x consumption prefix k) and '
                     '(padding length) on the real parser and serialiser; oracle = README field table for reading, identity of '
                     'attributes / remaining occurrences / durations for write -> read; echsq.c compiled in unmodified for the '
                     'submission path; real binaries (echse merge | echse unroll) as binding check',
        'claim': 'Inside the stated bound every calendar text is read into exactly the attributes the README table assigns (calendar-level '
                 'X-ECHS-MAX-SIMUL/UMASK/SETUID/SETGID/OWNER only where the event is silent), for every subset of the 16 event-level '
                 'properties, two value variants and two property orders; every task so read, and every schedule of the table/grammar '
                 'slice after every listed consumption prefix k, is written by echs_task_icalify() (echsq form and echsd checkpoint form, '
                 'also two tasks per checkpoint), parsed again and compared: attributes, remaining occurrences (<= 200, up to year 2099) '
                 'and durations; the same through echsq\'s own add_fd()/massage() and through the echse binaries; and one event is '
                 'written with every padding length 0..4300 so that every write call site meets the end of the 4 KiB writer buffer at '
                 'every offset.  Exhaustive within that bound; anything else is reported.  A many-UIDs driver parses up to 1000 (thorough 5000) events with distinct UIDs of five patterns in one process and requires every task to read, print and re-read under the UID it was submitted with (the UID intern table has several levels).  Further drivers: c05_fdstate (every sequence of up to 4 (6) documents over {regular file, /dev/full, a 5 KiB task to a regular file} on one descriptor number and on two alternating ones: echs_icalify_fini reports loss exactly for the /dev/full documents, successful documents read back); c05_attendees (1-3 (4) ATTENDEE lines with EVERY tuple of address lengths 1..36, with and without mailto:, read, written and read again; plain and under ASan); c05_longlines (SUMMARY, LOCATION, X-ECHS-OFILE, DESCRIPTION lines of every unfolded length 960..1030 (700..1100) in four spellings - LF, CRLF, folded at 75 with LF, with CRLF - must read alike, completely up to 1023 octets, and alike again when pushed in two pieces cut within 2 octets of the line breaks and folds); c05_zones (every sequence of 2-4 events out of six kinds - Europe/Berlin, America/New_York, Asia/Tokyo local times, recurring or one-off, with and without DTEND - in one calendar, each run in a freshly forked image: every task reads, and writes and reads again, to the occurrences and durations it has when it is alone in a fresh image); c05_tzchain (zoned DAILY and WEEKLY streams at every wall-clock half hour 00:00..04:00 in Europe/Berlin, America/New_York, Australia/Sydney, Europe/London, defined in January and in July, WALKED in one process over 300 (1200) positions and written at every one - read back at once, read back after the walk, and as a chain in which the text written at position k is what the walk continues from, both written forms: the text of position k reads to the next 5 occurrences and durations of the live stream, so whatever earlier positions left in process-wide zone state is in effect); c05_mailflags (every subset of X-ECHS-MAIL-OUT/-ERR/-RUN x every order of the lines present x every assignment of the values 0, 1, 2, true x four surroundings: each flag is what its own line says whatever the order and the other two, as read and after both written forms); c05_shortwrite (the writer behind echs_icalify_init / echs_task_icalify / echs_icalify_fini on a descriptor that takes its buffer in pieces: four sets of tasks - small, 1 KB, 5 KB with lines of 1000+ octets, two tasks of 9.5 KB - in both written forms, write(2) interposed; the n-th write call takes only k octets for EVERY call n the undisturbed document makes and EVERY k below the count asked for, or answers -1/EINTR, -1/ENOSPC or 0; then every pair of such deviations, the second at every later call of the run so disturbed, k from {1, 2, half, len-1}: what arrived on the descriptor is octet for octet the undisturbed document, or echs_icalify_fini() reports the loss; plain and under ASan); c05_spans (the time limit given as DTEND: DTSTART / DTEND pairs lying every whole number of days 0..120 (0..400) and 150, 200, 366, 400 days plus 0 s, 1 s, 1 h 15 min 21 s, 86399 s apart, from three starts (before a leap day, one second before a year end, 1 March), written as UTC date-times, as DATE values, with TZID=Asia/Tokyo and with TZID=Europe/Berlin, as a single event and as the first of a YEARLY series of 3: every occurrence read lasts exactly the span between the two stamps (own day-number arithmetic; Berlin: EU summer-time rule), the same event with DURATION:PnDTnHnMnS instead of DTEND reads alike, and after k = 0 (series: also 1) consumed occurrences both written forms read back to the same remaining occurrences, durations and attributes; plain and under ASan); c05_scales (EVERY calendar scale name of scale.h - GREGORIAN, HIJRI, HIJRI.IA, IC, IIA, IIC, IIIA, IIIC, IVA, IVC, HIJRI.UMMULQURA, HIJRI.DIYANET - in six rule shapes (MONTHLY BYMONTHDAY 1 / -1 / INTERVAL=2 15, YEARLY BYMONTH+BYMONTHDAY with COUNT and with UNTIL) x DTSTART in the rule\'s own scale or Gregorian x both written forms x k in {0,1,2,7,19}: same remaining occurrences, durations, attributes, and the text written, read and written once more has the same DTSTART and RRULE lines; plain and under ASan); c05_echsq mode=umask (X-ECHS-UMASK with EVERY value 0..0777 spelt with and without the leading 0, and no X-ECHS-UMASK at all, submitted through echsq\'s add_fd()/massage() from a process whose own umask is 027, 0 and 077: a written mask is submitted as written, an absent one as the umask of the process; plain and under ASan).',
        'note': 'Both streams of a round trip come from the code under test: whether the expansion itself is right is C01\'s claim. '
                'Sub-daily frequencies are taken with single BY parts only (sparse combinations are C09\'s work-bound subject). '
                'Properties outside the README table (DESCRIPTION, X-GA-*) are carried along; DESCRIPTION is compared in the '
                'geometry sweep only, where it serves as padding.',
        'rule': 'map: a case is (field subset, calendar defaults); inside it 2 value variants x 2 orders are evaluated; non-trivial = subsets '
                'with >= 2 properties.  position / cli: a case is one schedule (table entry, or grammar rule x anchor with its terminations); '
                'evaluations count (schedule, k) round trips; non-trivial = k >= 1 pops and >= 2 occurrences left.  tz-chain: a case is one (zone, start, wall-clock time, FREQ, mode, written form), evaluations count positions written; every case is non-trivial (the walk crosses at least one offset change).  mail-flags: a case is one (lines present, order, values, surroundings); non-trivial = >= 2 mail lines.  short-write: a case is one (document, written form, script of one or two deviating write calls); non-trivial = a deviating call was reached (every case but the 8 undisturbed reference runs).  spans: a case is one (form, single|series, start, number of days), evaluations count events (one per odd-seconds value); non-trivial = at least one whole day between the stamps.  scales: a case is one (scale, rule shape, anchor, written form), evaluations count (case, k) round trips; non-trivial = >= 2 occurrences left.  echsq umask: a case is one (value | absent, spelling, process umask); non-trivial = a value is written.  geometry: a case is one '
                'padding length; non-trivial = the written text exceeds the writer buffer (some line straddles its end).  echsq: non-trivial '
                '= stream with >= 2 occurrences resp. >= 1 property.  Cases are distinct by construction.',
        'bound': {
            'quick': 'map: subsets of <= 3 and >= 15 of the 16 event-level properties x calendar defaults {none, all 5} x 2 values x 2 orders, '
                     'each re-read in both written forms; checkpoint pairs: 18 x 18 tasks x 2 x 2; position: 69-entry extension table '
                     '(COUNT, UNTIL, BYSETPOS, BYMINUTE/BYSECOND >= 31, two RRULEs, RDATE, RRULE+RDATE, EXDATE, EXRULE, TZID, SCALE, SHIFT, '
                     'BYEASTER, durations) + 55-rule grammar slice (every FREQ x single BY part, first menu value, + BYWEEKNO/BYDAY) x '
                     '{none, COUNT=65, UNTIL} x k in {0,1,2,3,31,61..66,125..130,189,190,last-1,last,last+1}; echsq add path on the same '
                     'schedules (k=0) and on subsets <= 1; binaries on the extension table x k in {0,1,2,63,64,65,127,128,129,last-1..last+1}; '
                     'geometry: padding 0..4300 step 7 (four lines of 1015..1023 bytes) and 0..1100 step 3 (short LOCATION, tail call sites); '
                     'ASan: extension table, geometry step 29, map subsets <= 1; short-write: 4 task sets x 2 forms, every write call x every short count 1..len-1 and the three refusals, pairs with the menu counts (40846 cases), plain and ASan; spans: 4 forms x {single, yearly series} x 3 starts x days {0..120, 150, 200, 366, 400} x 4 odd-seconds values (DATE form: whole days) = 9702 events, plain and ASan; scales: 12 scale names x 6 rule shapes x 2 anchors x 2 written forms x 5 k (1440 round trips), plain and ASan; echsq umask: 512 values x 2 spellings x 3 process umasks + 3 without a value (3075 submissions), plain and ASan',
            'thorough': 'map: all 65536 subsets x 2 x 2 x 2; position: table + grammar with every pair of BY parts and every date-part triple '
                        '(YEARLY..DAILY; HOURLY..SECONDLY single parts), all menu values, INTERVAL 1,2,3, 8 anchors, terminations {none, '
                        'COUNT=3,65,130, UNTIL}, full k list, both written forms for the table; + every triple of BY parts over the first 3 '
                        'menu values, INTERVAL 1,2, 6 anchors; echsq path on table + grammar slice and '
                        'subsets <= 2; binaries on table + grammar slice with the full k list; geometry: every padding 0..4300 and 0..1100, '
                        'both forms, k = 0 and 70; ASan: table + grammar slice, geometry every padding, map subsets <= 2; short-write: as quick, pairs also with every 37th short count in both places (197666 cases); spans: every number of days 0..400 (31510 events); scales and echsq umask: as quick',
        },
        'drivers': [
            D('c05_manyuids', ['maxn=1000'], ['maxn=5000'], label='many-uids', shards=8),
            D('c05_fdstate', ['depth=4'], ['depth=6'], label='fd-state', shards=4),
            D('c05_longlines', ['lo=960', 'hi=1030'], ['lo=700', 'hi=1100'], label='long-lines', shards=8),
            D('c05_longlines', ['lo=1000', 'hi=1030'], ['lo=960', 'hi=1030'], label='long-lines-asan', shards=8, variant='asan'),
            D('c05_zones', ['maxn=4'], label='zones', shards=8),
            D('c05_tzchain', ['n=300', 'gapdays=1'], ['n=1200', 'gapdays=1'], label='tz-chain', shards=16),
            D('c05_tzchain', ['n=300', 'gapdays=1'], label='tz-chain-asan', shards=16, variant='asan'),
            D('c05_mailflags', [], label='mail-flags', shards=8),
            D('c05_mailflags', [], label='mail-flags-asan', shards=8, variant='asan'),
            D('c05_shortwrite', ['ks=all'], ['ks=all', 'pstep=37'], label='short-write'),
            D('c05_shortwrite', ['ks=all'], ['ks=all', 'pstep=37'], label='short-write-asan', variant='asan'),
            D('c05_zones', ['maxn=3'], ['maxn=4'], label='zones-asan', shards=8, variant='asan'),
            D('c05_attendees', ['maxn=3', 'maxlen=36'], ['maxn=4', 'maxlen=36'], label='attendees', shards=8),
            D('c05_attendees', ['maxn=3', 'maxlen=24'], ['maxn=3', 'maxlen=36'], label='attendees-asan', shards=8, variant='asan'),
            D('c05_fdstate', ['depth=3'], label='fd-state-asan', shards=4, variant='asan'),
            D('c05_manyuids', ['maxn=400'], ['maxn=1000'], label='many-uids-asan', shards=8, variant='asan'),
            D('c05_spans', ['maxdays=120'], ['maxdays=400'], label='spans', shards=16),
            D('c05_spans', ['maxdays=120'], label='spans-asan', shards=16, variant='asan'),
            # sweep 1: field mapping
            D('c05_fields', ['mode=map', 'maxsub=3', 'minfull=15'], ['mode=map'], label='fields-map'),
            D('c05_fields', ['mode=ckpt'], label='fields-checkpoint-pairs', shards=4),
            # sweep 2: positions
            D('c05_position', ['ks=full'], ['ks=full', 'gram=0'], label='position-table'),
            D('c05_position', ['gram=0', 'form=echsq', 'ks=quick'], ['gram=0', 'form=echsq', 'ks=full'], label='position-table-echsq-form'),
            D('c05_position', BIG_GRAM + ['--deadline', '300'], label='position-grammar', tiers=('thorough',)),
            D('c05_position', TRIPLES + ['--deadline', '300'], label='position-grammar-triples', tiers=('thorough',)),
            D('c05_echsq', ['mode=sched', 'gram=0'], ['mode=sched', 'gram=1', 'terms=full', 'anchors=2'], label='echsq-add-schedules', shards=4),
            D('c05_echsq', ['mode=fields', 'maxsub=1'], ['mode=fields', 'maxsub=2'], label='echsq-add-fields', shards=4),
            D('c05_echsq', ['mode=umask'], label='echsq-add-umask', shards=8),
            D('c05_echsq', ['mode=umask'], label='echsq-add-umask-asan', shards=8, variant='asan'),
            D('c05_scales', ['names=1', 'tail=1'], label='scales', shards=8),
            D('c05_scales', ['names=1', 'tail=1'], label='scales-asan', shards=8, variant='asan'),
            D('c05_cli', ['gram=0', 'ks=quick'], ['gram=1', 'ks=full', '--deadline', '400'], label='binaries'),
            # sweep 3: geometry
            D('c05_geometry', ['step=7'], ['step=1'], label='geometry'),
            D('c05_geometry', ['loc=200', 'hi=1100', 'step=3'], ['loc=200', 'hi=1100', 'step=1'], label='geometry-tail'),
            D('c05_geometry', ['step=1', 'form=echsq', 'k=70'], label='geometry-echsq-k70', tiers=('thorough',)),
            D('c05_geometry', ['loc=200', 'hi=1100', 'step=1', 'form=echsq', 'k=70'], label='geometry-tail-echsq-k70', tiers=('thorough',)),
            # ASan + bounds variants
            D('c05_position', ['gram=0', 'ks=quick'], ['ks=full', 'terms=full'], label='position-asan', variant='asan'),
            D('c05_geometry', ['step=29'], ['step=1'], label='geometry-asan', variant='asan'),
            D('c05_geometry', ['loc=200', 'hi=1100', 'step=11'], ['loc=200', 'hi=1100', 'step=1'], label='geometry-tail-asan', variant='asan'),
            D('c05_fields', ['mode=map', 'maxsub=1', 'minfull=16'], ['mode=map', 'maxsub=2', 'minfull=15'], label='fields-asan', variant='asan'),
            D('c05_fields', ['mode=ckpt'], label='fields-checkpoint-asan', variant='asan', shards=4),
            D('c05_echsq', ['mode=sched', 'gram=0'], ['mode=sched', 'gram=1'], label='echsq-add-asan', variant='asan', shards=4),
        ],
        'assumptions': [
            'README table read literally: SUMMARY=command, ORGANIZER=mail sender, ATTENDEE=recipients (a leading "mailto:" is not part of the '
            'address), LOCATION=working directory, X-ECHS-SHELL/-IFILE/-OFILE/-EFILE, MAIL-OUT/-ERR non-0 = on; MAIL-RUN is judged as the '
            'effective flag (README: implied by MAIL-OUT/MAIL-ERR); UMASK octal; SETUID/SETGID number or name',
            'calendar-level defaults are judged only for the five properties the prologue documents/uses (MAX-SIMUL, UMASK, SETUID, SETGID, OWNER), '
            'written before the first VEVENT; whether other calendar-level X-ECHS-* lines should act as defaults is left open',
            'values contain no backslashes, commas, semicolons or line folds (escaping is C10\'s subject)',
            'occurrences are compared up to 2099-12-31 and up to 200 per stream; beyond 2100 the weekday arithmetic of the expansion is off '
            '(C01/C16 by-catch, see triage/C05.md) and the difference depends on refill positions',
            'echsq\'s client-side defaults are cwd, /bin/sh and the process umask for an unset LOCATION, X-ECHS-SHELL, X-ECHS-UMASK (DESIGN C05 mechanism list)',
            'tz-chain: a wall-clock time that does not exist or exists twice on a day is classified with the C library\'s reading of the same zone file; occurrences at such times are not compared (which instant they are is read both ways, C07), and a position whose NEXT occurrence falls on a day without the stated time is written but not judged (chain: not written, the chain goes on from the task in hand) (the live stream has moved that instance, the text can only name the moved time, and the series re-read from it keeps the moved time: --opt gapdays=1 judges these too and reports tzchain/remaining/*/*/at-skipped-hour on the unchanged tree); a position at a repeated time is judged on the occurrences after it',
            'mail-flags: values are 0 (off) and 1, 2, true (non-0 = on); spellings f/false/no are left out (the README says non-0 only); calendar-level X-ECHS-MAIL-* lines are left out (see above)',
            'short-write: a write(2) that takes fewer octets than it was given, or none, is an event the writer has to live with (sockets, pipes, signals); the only thing demanded is that the octets that arrived are the document or that echs_icalify_fini() returns < 0 - whether the writer goes on after a refusal (-1, 0) or gives up is left open, as is a loss reported although everything arrived (counted, never seen); deviations: at most two per document, pairs with k from {1, 2, half, len-1} (thorough: also every 37th k)',
            'spans: DTEND is read as the README has it (the instant by which a job still running is killed), so the duration of an occurrence is the time between the two instants: for UTC, DATE and Asia/Tokyo stamps the difference on the clock, for Europe/Berlin the difference on the clock less the change of the UTC offset between the two stamps (EU rule: +2 h from the last Sunday of March 01:00 UTC to the last Sunday of October 01:00 UTC); stamps on one of the two days of change are left out (counted), as are the later occurrences of a Berlin series (their ends may lie in another offset than the first one\'s); DTEND before or at DTSTART is left out',
            'scales: the remaining occurrences and attributes of both streams come from the code under test; in addition (names=1) the scale NAME written must be the one in the source text (the reader used to take HIJRI.IC for HIJRI.IA and HIJRI.IIC for HIJRI.IIA, repaired in 636ae63), and (tail=1) rules where SCALE is the last part or is followed by COUNT are included; occurrences stay within 1420..1441 AH, inside both table calendars',
            'echsq umask: X-ECHS-UMASK is octal with or without a leading 0 (README), 0..0777 are all legal values; the umask of the submitting process is what an event without the line gets (massage())',
            'binaries: DT is the k-th occurrence, so echse merge --unroll DT consumes exactly k; streams in a non-Gregorian output scale are skipped there',
        ],
    }
