/* vdrv.h -- common runtime of the enumerating drivers (DESIGN.md 1.3)
 *
 * A driver enumerates its own cases; every case has a global index that is
 * stable for a given argument vector.  The runtime
 *  - shards the index space (--shard i/n),
 *  - runs the enumeration in a forked worker, watched by a supervisor which
 *    turns worker death into a `crash' result and no progress into a `hang'
 *    result for the announced index (after re-running that index alone with
 *    a 20x budget) and restarts the worker behind it,
 *  - keeps counters, signature counts and the current case description in
 *    shared memory so they survive the worker,
 *  - prints one JSON line per reported violation / sample and a summary.
 *
 * Usage:
 *   static void enumerate(void) { for (...) { if (!vd_next()) continue;
 *        vd_desc("..."); vd_shape("..."); ...; vd_viol("clause/shape", "...") } }
 *   int main(int c, char **v) { return vd_main(c, v, enumerate); }
 */
#if !defined INCLUDED_vdrv_h_
#define INCLUDED_vdrv_h_
#include <stdio.h>
#include <stdlib.h>
#include <stdarg.h>
#include <string.h>
#include <stdint.h>
#include <unistd.h>
#include <signal.h>
#include <time.h>
#include <errno.h>
#include <sys/mman.h>
#include <sys/wait.h>
#include <sys/time.h>

#define VD_NSIG		4096
#define VD_SIGLEN	200
#define VD_NCNT		48
#define VD_KEEP		3	/* violation lines printed per signature and worker */

struct vd_sh_s {
	volatile long cur;	/* index announced */
	volatile long recycle;	/* resume point of a worker that left to shed memory */
	volatile long beat;	/* liveness */
	long evals;
	long nontriv;
	long nviol;
	long nsample;
	int capped;
	char desc[2048];
	char shape[256];
	struct {
		char name[40];
		long v;
	} cnt[VD_NCNT];
	struct {
		char sig[VD_SIGLEN];
		long n;
	} sig[VD_NSIG];
};

static struct vd_sh_s *vd_sh;
static long vd_idx = -1;	/* running global index */
static long vd_resume = -1;	/* skip everything <= this */
static long vd_only = -1;
static int vd_shard = 0, vd_nshard = 1;
static double vd_case_timeout = 10.0;
static double vd_deadline = 0.0;	/* absolute, 0 = none */
static int vd_maxsamples = 4;
static long vd_sample_every = 0;
static int vd_count_cases = 1;	/* 0: the driver adds to vd_sh->evals itself */
/* free-form driver options: --opt k=v, looked up with vd_opt() */
static const char *vd_opts[64];
static int vd_nopts;

static double
vd_now(void)
{
	struct timespec ts;
	clock_gettime(CLOCK_MONOTONIC, &ts);
	return ts.tv_sec + ts.tv_nsec * 1e-9;
}

static const char*
vd_opt(const char *key, const char *dflt)
{
	size_t kl = strlen(key);
	for (int i = 0; i < vd_nopts; i++) {
		if (!strncmp(vd_opts[i], key, kl) && vd_opts[i][kl] == '=') {
			return vd_opts[i] + kl + 1;
		}
	}
	return dflt;
}

static long
vd_opt_l(const char *key, long dflt)
{
	const char *v = vd_opt(key, NULL);
	return v ? strtol(v, NULL, 0) : dflt;
}

static void
vd_jstr(FILE *f, const char *s)
{
	fputc('"', f);
	for (const unsigned char *p = (const unsigned char*)s; *p; p++) {
		switch (*p) {
		case '"': fputs("\\\"", f); break;
		case '\\': fputs("\\\\", f); break;
		case '\n': fputs("\\n", f); break;
		case '\r': fputs("\\r", f); break;
		case '\t': fputs("\\t", f); break;
		default:
			if (*p < 0x20 || *p >= 0x7f) {
				fprintf(f, "\\u%04x", *p);
			} else {
				fputc(*p, f);
			}
		}
	}
	fputc('"', f);
}

#define VD_RECYCLE	17
static long vd_ran;
static long vd_rss_limit = 1536;	/* MB */

static long
vd_rss_mb(void)
{
	long sz = 0, rss = 0;
	FILE *f = fopen("/proc/self/statm", "r");
	if (f == NULL) {
		return 0;
	}
	if (fscanf(f, "%ld %ld", &sz, &rss) != 2) {
		rss = 0;
	}
	fclose(f);
	return rss * (sysconf(_SC_PAGESIZE) / 1024) / 1024;
}

/* advance to the next case; true if the caller should run it */
static inline int
vd_next(void)
{
	vd_idx++;
	/* skipping is progress too (replays and resumed workers skip a lot) */
	vd_sh->beat++;
	if (vd_only >= 0) {
		if (vd_idx != vd_only) {
			return 0;
		}
	} else {
		if (vd_idx % vd_nshard != vd_shard || vd_idx <= vd_resume) {
			return 0;
		}
		if (vd_sh->capped) {
			return 0;
		}
		if (vd_deadline > 0 && !(vd_sh->beat & 0xff) && vd_now() > vd_deadline) {
			vd_sh->capped = 1;
			return 0;
		}
	}
	if (vd_only < 0 && !(++vd_ran & 0x3f) && vd_rss_mb() > vd_rss_limit) {
		/* the library leaks by design in places; start a fresh worker */
		vd_sh->recycle = vd_idx - 1;
		vd_sh->cur = -1;
		fflush(stdout);
		_exit(VD_RECYCLE);
	}
	vd_sh->cur = vd_idx;
	vd_sh->beat++;
	vd_sh->evals += vd_count_cases;
	vd_sh->desc[0] = '\0';
	return 1;
}

/* true when enumeration should be abandoned (deadline hit, or --only done) */
static inline int
vd_stop(void)
{
	return vd_sh->capped || (vd_only >= 0 && vd_idx >= vd_only);
}

static inline void
vd_beat(void)
{
	vd_sh->beat++;
}

static void __attribute__((format(printf, 1, 2)))
vd_desc(const char *fmt, ...)
{
	va_list ap;
	va_start(ap, fmt);
	vsnprintf(vd_sh->desc, sizeof(vd_sh->desc), fmt, ap);
	va_end(ap);
}

static void __attribute__((format(printf, 1, 2)))
vd_shape(const char *fmt, ...)
{
	va_list ap;
	va_start(ap, fmt);
	vsnprintf(vd_sh->shape, sizeof(vd_sh->shape), fmt, ap);
	va_end(ap);
}

static inline void
vd_nontrivial(void)
{
	vd_sh->nontriv++;
}

static void
vd_count(const char *name, long by)
{
	for (int i = 0; i < VD_NCNT; i++) {
		if (!vd_sh->cnt[i].name[0]) {
			snprintf(vd_sh->cnt[i].name, sizeof(vd_sh->cnt[i].name), "%s", name);
		}
		if (!strcmp(vd_sh->cnt[i].name, name)) {
			vd_sh->cnt[i].v += by;
			return;
		}
	}
}

static long
vd_sigcount(const char *sig)
{
	for (int i = 0; i < VD_NSIG; i++) {
		if (!vd_sh->sig[i].sig[0]) {
			snprintf(vd_sh->sig[i].sig, VD_SIGLEN, "%s", sig);
		}
		if (!strncmp(vd_sh->sig[i].sig, sig, VD_SIGLEN - 1)) {
			return ++vd_sh->sig[i].n;
		}
	}
	return 1;
}

static void
vd_emit_viol(const char *sig, long idx, const char *desc, const char *detail)
{
	printf("{\"t\":\"viol\",\"sig\":");
	vd_jstr(stdout, sig);
	printf(",\"idx\":%ld,\"case\":", idx);
	vd_jstr(stdout, desc);
	printf(",\"detail\":");
	vd_jstr(stdout, detail);
	printf("}\n");
	fflush(stdout);
}

/* report a violation of the case running now under signature SIG */
static void __attribute__((format(printf, 2, 3)))
vd_viol(const char *sig, const char *fmt, ...)
{
	char detail[2048];
	va_list ap;

	vd_sh->nviol++;
	if (vd_sigcount(sig) > VD_KEEP && vd_only < 0) {
		return;
	}
	va_start(ap, fmt);
	vsnprintf(detail, sizeof(detail), fmt, ap);
	va_end(ap);
	vd_emit_viol(sig, vd_idx, vd_sh->desc, detail);
}

static void __attribute__((format(printf, 1, 2)))
vd_sample(const char *fmt, ...)
{
	char buf[2048];
	va_list ap;

	if (vd_sample_every > 0) {
		if (vd_idx % vd_sample_every) {
			return;
		}
	} else if (vd_sh->nsample >= vd_maxsamples) {
		return;
	}
	vd_sh->nsample++;
	va_start(ap, fmt);
	vsnprintf(buf, sizeof(buf), fmt, ap);
	va_end(ap);
	printf("{\"t\":\"sample\",\"idx\":%ld,\"case\":", vd_idx);
	vd_jstr(stdout, buf);
	printf("}\n");
	fflush(stdout);
}

static inline int
vd_want_sample(void)
{
	if (vd_sample_every > 0) {
		return !(vd_idx % vd_sample_every);
	}
	return vd_sh->nsample < vd_maxsamples;
}

static void
vd_summary(void)
{
	printf("{\"t\":\"summary\",\"shard\":%d,\"nshard\":%d,\"evals\":%ld,"
	       "\"nontrivial\":%ld,\"nviol\":%ld,\"capped\":%s,\"counters\":{",
	       vd_shard, vd_nshard, vd_sh->evals, vd_sh->nontriv, vd_sh->nviol,
	       vd_sh->capped ? "true" : "false");
	for (int i = 0, k = 0; i < VD_NCNT && vd_sh->cnt[i].name[0]; i++) {
		printf("%s", k++ ? "," : "");
		vd_jstr(stdout, vd_sh->cnt[i].name);
		printf(":%ld", vd_sh->cnt[i].v);
	}
	printf("},\"sigs\":{");
	for (int i = 0, k = 0; i < VD_NSIG && vd_sh->sig[i].sig[0]; i++) {
		printf("%s", k++ ? "," : "");
		vd_jstr(stdout, vd_sh->sig[i].sig);
		printf(":%ld", vd_sh->sig[i].n);
	}
	printf("}}\n");
	fflush(stdout);
}

/* run ENUMERATE in a child; return 0 finished, 1 crashed, 2 hung */
static int
vd_supervise(void (*enumerate)(void), double budget, int *status)
{
	pid_t p;
	long lastbeat;
	double lastchg;

	fflush(stdout);
	fflush(stderr);
	vd_sh->cur = -1;
	if ((p = fork()) < 0) {
		perror("fork");
		exit(2);
	} else if (p == 0) {
		vd_idx = -1;
		enumerate();
		fflush(stdout);
		_exit(0);
	}
	lastbeat = vd_sh->beat;
	lastchg = vd_now();
	for (useconds_t nap = 200;;) {
		int st;
		pid_t r = waitpid(p, &st, WNOHANG);
		if (r == p) {
			*status = st;
			if (WIFEXITED(st) && WEXITSTATUS(st) == 0) {
				return 0;
			}
			if (WIFEXITED(st) && WEXITSTATUS(st) == VD_RECYCLE && vd_sh->cur < 0) {
				return 3;
			}
			return 1;
		}
		if (vd_sh->beat != lastbeat) {
			lastbeat = vd_sh->beat;
			lastchg = vd_now();
		} else if (vd_now() - lastchg > budget) {
			kill(p, SIGKILL);
			waitpid(p, &st, 0);
			*status = st;
			return 2;
		}
		usleep(nap);
		if (nap < 20000) {
			nap *= 2;
		}
	}
}

static int
vd_main(int argc, char *argv[], void (*enumerate)(void))
{
	double deadline_s = 0;

	for (int i = 1; i < argc; i++) {
		if (!strcmp(argv[i], "--shard") && i + 1 < argc) {
			sscanf(argv[++i], "%d/%d", &vd_shard, &vd_nshard);
		} else if (!strcmp(argv[i], "--only") && i + 1 < argc) {
			vd_only = strtol(argv[++i], NULL, 0);
		} else if (!strcmp(argv[i], "--case-timeout") && i + 1 < argc) {
			vd_case_timeout = strtod(argv[++i], NULL);
		} else if (!strcmp(argv[i], "--deadline") && i + 1 < argc) {
			deadline_s = strtod(argv[++i], NULL);
		} else if (!strcmp(argv[i], "--rss-limit") && i + 1 < argc) {
			vd_rss_limit = strtol(argv[++i], NULL, 0);
		} else if (!strcmp(argv[i], "--samples") && i + 1 < argc) {
			vd_maxsamples = atoi(argv[++i]);
		} else if (!strcmp(argv[i], "--sample-every") && i + 1 < argc) {
			vd_sample_every = strtol(argv[++i], NULL, 0);
		} else if (!strcmp(argv[i], "--opt") && i + 1 < argc) {
			if (vd_nopts < 64) {
				vd_opts[vd_nopts++] = argv[++i];
			}
		} else {
			fprintf(stderr, "vdrv: unknown argument %s\n", argv[i]);
			return 2;
		}
	}
	vd_sh = mmap(NULL, sizeof(*vd_sh), PROT_READ | PROT_WRITE,
		     MAP_SHARED | MAP_ANONYMOUS, -1, 0);
	if (vd_sh == MAP_FAILED) {
		perror("mmap");
		return 2;
	}
	memset(vd_sh, 0, sizeof(*vd_sh));
	if (deadline_s > 0) {
		vd_deadline = vd_now() + deadline_s;
	}
	if (vd_only >= 0) {
		vd_maxsamples = 0;
	}

	for (;;) {
		int st = 0;
		int r = vd_supervise(enumerate, vd_case_timeout, &st);
		char sig[VD_SIGLEN + 64], detail[256];
		long at;

		if (r == 0) {
			break;
		}
		if (r == 3) {
			vd_count("recycled_workers", 1);
			vd_resume = vd_sh->recycle;
			continue;
		}
		at = vd_sh->cur;
		if (at < 0) {
			fprintf(stderr, "vdrv: worker failed outside any case (status %#x)\n", st);
			return 2;
		}
		if (r == 2 && vd_only < 0) {
			/* second opinion with 20x budget, alone */
			long sv_only = vd_only;
			char sv_desc[sizeof(vd_sh->desc)];
			long sv_evals = vd_sh->evals;
			long sv_nontriv = vd_sh->nontriv;
			memcpy(sv_desc, vd_sh->desc, sizeof(sv_desc));
			vd_only = at;
			r = vd_supervise(enumerate, 20 * vd_case_timeout, &st);
			vd_only = sv_only;
			vd_sh->evals = sv_evals;
			vd_sh->nontriv = sv_nontriv;
			if (r == 0) {
				/* slow, not hung; its findings were printed by the rerun */
				vd_count("slow_cases", 1);
				vd_resume = at;
				continue;
			}
			memcpy(vd_sh->desc, sv_desc, sizeof(sv_desc));
		}
		if (r == 2) {
			snprintf(sig, sizeof(sig), "hang/%s", vd_sh->shape);
			snprintf(detail, sizeof(detail), "no progress for %.0f s",
				 20 * vd_case_timeout);
		} else {
			snprintf(sig, sizeof(sig), "crash/%s", vd_sh->shape);
			if (WIFSIGNALED(st)) {
				snprintf(detail, sizeof(detail), "worker killed by signal %d", WTERMSIG(st));
			} else {
				snprintf(detail, sizeof(detail), "worker exited with status %d", WEXITSTATUS(st));
			}
		}
		vd_sh->nviol++;
		if (vd_sigcount(sig) <= VD_KEEP || vd_only >= 0) {
			vd_emit_viol(sig, at, vd_sh->desc, detail);
		}
		if (vd_only >= 0) {
			break;
		}
		vd_resume = at;
	}
	vd_summary();
	return 0;
}
#endif	/* INCLUDED_vdrv_h_ */
