/* guardalloc.h -- spare octets of a known pattern behind every heap block obtained inside a watched section, so
 * that a build WITHOUT the sanitizer sees a write behind the end of a block (the pattern of c10_allocfail.c,
 * without the refusal scripts).
 *
 * Include in exactly one translation unit of a driver.  In the plain variant malloc / calloc / realloc / free /
 * strdup / strndup of the program (hence of the statically linked library under test) are defined here on top of
 * glibc's __libc_* entry points; between ga_begin() and ga_end() every block gets GA_SLACK octets of GA_PAT behind
 * it, which are looked at when the block is released or grown and, for what is still alive, at ga_end().
 * ga_end() returns the number of damaged blocks seen since ga_begin(), ga_what describes the first.
 * In the sanitizer variant nothing is interposed (the sanitizer's allocator is the oracle), ga_end() returns 0.
 */
#if !defined INCLUDED_guardalloc_h_
#define INCLUDED_guardalloc_h_
#include <stddef.h>
#include <stdint.h>
#include <stdio.h>
#include <string.h>

#if !defined GA_SLACK
# define GA_SLACK	2048U
#endif
#define GA_PAT	0x5a

#if defined __SANITIZE_ADDRESS__
static void ga_begin(void) {}
static int ga_end(void) { return 0; }
static const char ga_what[] = "";
#define GA_ACTIVE	0

#else
#define GA_ACTIVE	1
extern void *__libc_malloc(size_t);
extern void __libc_free(void*);
extern void *__libc_realloc(void*, size_t);
extern void *__libc_calloc(size_t, size_t);

#if !defined GA_TABZ
# define GA_TABZ	(1U << 14)	/* blocks alive at a time (half of it); a power of two */
#endif
static struct ga_ent_s {
	uint8_t *p;	/* NULL: never used, GA_TOMB: released */
	size_t z;
} ga_tab[GA_TABZ];
#define GA_TOMB	((uint8_t*)1)
static size_t ga_live, ga_used;
static volatile int ga_track;
static int ga_bad;
static char ga_what[200];

static inline size_t
ga_hash(const void *p)
{
	return (size_t)(((uintptr_t)p >> 4) * 0x9e3779b97f4a7c15ULL >> 40) & (GA_TABZ - 1U);
}

static struct ga_ent_s*
ga_find(const void *p)
{
	for (size_t i = ga_hash(p), n = 0; n < GA_TABZ && ga_tab[i].p != NULL; i = (i + 1U) & (GA_TABZ - 1U), n++) {
		if (ga_tab[i].p == (const uint8_t*)p) {
			return ga_tab + i;
		}
	}
	return NULL;
}

static void
ga_rehash(void)
{
	static struct ga_ent_s old[GA_TABZ];

	memcpy(old, ga_tab, sizeof(ga_tab));
	memset(ga_tab, 0, sizeof(ga_tab));
	ga_used = 0U;
	for (size_t j = 0; j < GA_TABZ; j++) {
		if (old[j].p != NULL && old[j].p != GA_TOMB) {
			size_t i = ga_hash(old[j].p);
			while (ga_tab[i].p != NULL) i = (i + 1U) & (GA_TABZ - 1U);
			ga_tab[i] = old[j];
			ga_used++;
		}
	}
}

static int
ga_put(void *p, size_t z)
{
	size_t i;

	if (ga_used >= GA_TABZ / 2U) {
		ga_rehash();
		if (ga_used >= GA_TABZ / 2U) {
			return -1;
		}
	}
	for (i = ga_hash(p); ga_tab[i].p != NULL && ga_tab[i].p != GA_TOMB; i = (i + 1U) & (GA_TABZ - 1U));
	if (ga_tab[i].p == NULL) {
		ga_used++;
	}
	ga_tab[i] = (struct ga_ent_s){p, z};
	ga_live++;
	return 0;
}

static void
ga_del(struct ga_ent_s *e)
{
	e->p = GA_TOMB;
	ga_live--;
}

static void
ga_check(const struct ga_ent_s *e, const char *when)
{
	size_t first = GA_SLACK, last = 0U;

	for (size_t j = 0U; j < GA_SLACK; j++) {
		if (e->p[e->z + j] != GA_PAT) {
			if (first == GA_SLACK) first = j;
			last = j;
		}
	}
	if (first < GA_SLACK && !ga_bad++) {
		snprintf(ga_what, sizeof(ga_what), "octets %zu..%zu behind the end of a block of %zu octets were written (seen at %s)", first, last, e->z, when);
	}
}

static void*
ga_new(size_t z, int zero)
{
	uint8_t *p;

	if (!ga_track || z > (size_t)1 << 30) {
		return zero ? __libc_calloc(1U, z) : __libc_malloc(z);
	}
	if ((p = __libc_malloc(z + GA_SLACK)) == NULL) {
		return NULL;
	}
	if (zero) {
		memset(p, 0, z);
	}
	memset(p + z, GA_PAT, GA_SLACK);
	(void)ga_put(p, z);	/* table full: untracked, the slack is just slack */
	return p;
}

void*
malloc(size_t z)
{
	return ga_new(z, 0);
}

void*
calloc(size_t n, size_t m)
{
	if (m && n > (size_t)-1 / m) {
		return NULL;
	}
	return ga_new(n * m, 1);
}

void*
realloc(void *p, size_t z)
{
	struct ga_ent_s *e;
	uint8_t *q;

	if (p == NULL) {
		return ga_new(z, 0);
	} else if ((e = ga_find(p)) == NULL) {
		return __libc_realloc(p, z);
	}
	ga_check(e, "realloc");
	if ((q = __libc_realloc(p, z + GA_SLACK)) == NULL) {
		return NULL;
	}
	ga_del(e);
	memset(q + z, GA_PAT, GA_SLACK);
	(void)ga_put(q, z);
	return q;
}

void
free(void *p)
{
	struct ga_ent_s *e;

	if (p == NULL) {
		return;
	} else if ((e = ga_find(p)) != NULL) {
		ga_check(e, "free");
		ga_del(e);
	}
	__libc_free(p);
}

char*
strdup(const char *s)
{
	const size_t n = strlen(s) + 1U;
	char *p;

	if ((p = ga_new(n, 0)) == NULL) {
		return NULL;
	}
	return memcpy(p, s, n);
}

char*
strndup(const char *s, size_t n)
{
	const size_t l = strnlen(s, n);
	char *p;

	if ((p = ga_new(l + 1U, 0)) == NULL) {
		return NULL;
	}
	memcpy(p, s, l);
	p[l] = '\0';
	return p;
}

static void
ga_begin(void)
{
	ga_bad = 0;
	ga_what[0] = '\0';
	ga_track = 1;
}

static int
ga_end(void)
{
	ga_track = 0;
	/* what is still alive (the library keeps some things for good) is looked at once and then no longer watched */
	for (size_t i = 0; ga_live && i < GA_TABZ; i++) {
		if (ga_tab[i].p != NULL && ga_tab[i].p != GA_TOMB) {
			ga_check(ga_tab + i, "the end of the watched section");
		}
	}
	if (ga_used) {
		memset(ga_tab, 0, sizeof(ga_tab));
		ga_used = ga_live = 0U;
	}
	return ga_bad;
}
#endif	/* __SANITIZE_ADDRESS__ */
#endif	/* INCLUDED_guardalloc_h_ */
