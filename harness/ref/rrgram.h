/* rrgram.h -- the RRULE grammar enumerated by C01 / C09 / C16 (DESIGN.md C01 "E")
 *
 * Produces, in a fixed order, every rule of the bounded grammar both as RRULE
 * text (for the real parser) and as an rf_rule (for the reference).  The value
 * menus are written once as text; rg_parse_* below turn them into numbers
 * (own tiny parser, nothing shared with /repo).
 */
#if !defined INCLUDED_rrgram_h_
#define INCLUDED_rrgram_h_
#include <stdio.h>
#include <string.h>
#include <stdlib.h>
#include "rfc5545.h"

enum {P_MON, P_WK, P_YDAY, P_MDAY, P_DAY, P_DAYORD, P_HOUR, P_MIN, P_SEC, P_POS, NPARTS};
static const char *const rg_key[NPARTS] = {
	"BYMONTH", "BYWEEKNO", "BYYEARDAY", "BYMONTHDAY", "BYDAY", "BYDAY", "BYHOUR", "BYMINUTE", "BYSECOND", "BYSETPOS",
};
static const char *const rg_freqname[] = {"", "YEARLY", "MONTHLY", "WEEKLY", "DAILY", "HOURLY", "MINUTELY", "SECONDLY"};

#define RG_MAXMENU	10
static const char *const rg_menu[NPARTS][RG_MAXMENU] = {
	[P_MON] = {"1", "2", "6,12", "1,3,5,7,8,10,12"},
	[P_WK] = {"20,40", "1", "53", "-1"},
	[P_YDAY] = {"1", "60", "366", "-1", "100,200,-100", "1,-1", "1,365,366"},
	[P_MDAY] = {"1", "15", "31", "-1", "29,30,31", "-1,-2", "1,-1"},
	[P_DAY] = {"MO", "SA,SU", "TU,TH", "MO,WE,FR", "MO,TU,WE,TH,FR,SA,SU"},
	[P_DAYORD] = {"1MO", "-1FR", "5MO", "2TU,-2TU", "53MO", "-53MO", "20WE,-20WE"},
	[P_HOUR] = {"0", "9", "23", "9,17", "0,6,12,18"},
	[P_MIN] = {"0", "30", "59", "45,59", "0,15,30,45"},
	[P_SEC] = {"0", "30", "0,59", "31,45"},
	[P_POS] = {"1", "-1", "2,-2", "1,2,3", "6,7", "5,6"},
};

/* which parts are in the grammar for which FREQ (RFC 5545 table, minus what appendix A keeps out) */
static int
rg_legal(int freq, int part)
{
	switch (part) {
	case P_MON: return 1;
	case P_WK: return freq == RF_YEARLY;
	case P_YDAY: return freq == RF_YEARLY || freq >= RF_HOURLY;
	case P_MDAY: return freq != RF_WEEKLY;
	case P_DAY: return 1;
	case P_DAYORD: return freq == RF_YEARLY || freq == RF_MONTHLY;
	default: return 1;
	}
}

static int
rg_list(int *out, int max, const char *s)
{
	int n = 0;
	while (*s && n < max) {
		char *on;
		out[n++] = (int)strtol(s, &on, 10);
		s = *on == ',' ? on + 1 : on;
	}
	return n;
}

static int
rg_wday(const char *s)
{
	static const char *const wd[] = {"MO", "TU", "WE", "TH", "FR", "SA", "SU"};
	for (int i = 0; i < 7; i++) {
		if (s[0] == wd[i][0] && s[1] == wd[i][1]) return i;
	}
	return -1;
}

/* add part PART with value text V to rule R */
static void
rg_apply(rf_rule *r, int part, const char *v)
{
	switch (part) {
	case P_MON: r->nmon = rg_list(r->mon, 12, v); break;
	case P_WK: r->nwk = rg_list(r->wk, 8, v); break;
	case P_YDAY: r->nyday = rg_list(r->yday, 8, v); break;
	case P_MDAY: r->nmday = rg_list(r->mday, 8, v); break;
	case P_HOUR: r->nH = rg_list(r->H, 24, v); break;
	case P_MIN: r->nM = rg_list(r->M, 60, v); break;
	case P_SEC: r->nS = rg_list(r->S, 60, v); break;
	case P_POS: r->npos = rg_list(r->pos, 8, v); break;
	case P_DAY:
	case P_DAYORD:
		r->nday = 0;
		while (*v && r->nday < 8) {
			char *on;
			int ord = (int)strtol(v, &on, 10);
			r->day[r->nday].ord = ord;
			r->day[r->nday].wd = rg_wday(on);
			r->nday++;
			v = on + 2;
			if (*v == ',') v++;
		}
		break;
	}
}

/* kind of a value list, for signatures */
static const char*
rg_kind(int part, const char *v)
{
	int l[64], n, np = 0, nn = 0, nz = 0;
	if (part == P_DAYORD) {
		int big = 0;
		for (const char *q = v; *q;) {
			char *on;
			long o = strtol(q, &on, 10);
			big |= o > 5 || o < -5;
			q = on + 2;
			if (*q == ',') q++;
		}
		return big ? "ordinal-big" : "ordinal";
	}
	if (part == P_DAY) return strchr(v, ',') ? "many" : "one";
	n = rg_list(l, 64, v);
	for (int i = 0; i < n; i++) np += l[i] > 0, nn += l[i] < 0, nz += l[i] == 0;
	if (n == 1) return nn ? "one-neg" : nz ? "zero" : "one";
	if (nn && !np && !nz) return "neg-only";
	if (nn) return "mixed-sign";
	return "many";
}

struct rg_rule_s {
	int freq;
	int interval;
	int nparts;
	int part[4];
	int mi[4];	/* menu index per part */
	rf_rule ref;	/* without termination */
	char text[256];	/* FREQ=...;INTERVAL=..;BY... without termination */
	char shape[160];
};

static void
rg_finish(struct rg_rule_s *g)
{
	size_t o = 0, so = 0;

	memset(&g->ref, 0, sizeof(g->ref));
	g->ref.freq = g->freq;
	g->ref.interval = g->interval;
	g->ref.count = -1;
	o += (size_t)snprintf(g->text + o, sizeof(g->text) - o, "FREQ=%s", rg_freqname[g->freq]);
	if (g->interval != 1) {
		o += (size_t)snprintf(g->text + o, sizeof(g->text) - o, ";INTERVAL=%d", g->interval);
	}
	so += (size_t)snprintf(g->shape + so, sizeof(g->shape) - so, "%s/i%s", rg_freqname[g->freq], g->interval == 1 ? "1" : "N");
	for (int i = 0; i < g->nparts; i++) {
		const char *v = rg_menu[g->part[i]][g->mi[i]];
		o += (size_t)snprintf(g->text + o, sizeof(g->text) - o, ";%s=%s", rg_key[g->part[i]], v);
		so += (size_t)snprintf(g->shape + so, sizeof(g->shape) - so, "/%s:%s", rg_key[g->part[i]] + 2, rg_kind(g->part[i], v));
		rg_apply(&g->ref, g->part[i], v);
	}
}

struct rg_cfg_s {
	int freq_lo, freq_hi;
	int maxparts;		/* subset size bound */
	int maxdateparts3;	/* allow size-3 subsets when all three are date parts (YEARLY/MONTHLY) */
	const int *intervals;
	int nintervals;
	int menucap;		/* use only the first MENUCAP values of each menu (0 = all) */
};

typedef void (*rg_cb_t)(const struct rg_rule_s *g, void *clo);

static int
rg_menulen(int part, int cap)
{
	int n = 0;
	while (n < RG_MAXMENU && rg_menu[part][n]) n++;
	return cap && n > cap ? cap : n;
}

static int
rg_subset_ok(int freq, const int *parts, int n)
{
	int has[NPARTS] = {0};
	for (int i = 0; i < n; i++) {
		if (!rg_legal(freq, parts[i])) return 0;
		has[parts[i]] = 1;
	}
	if (has[P_DAY] && has[P_DAYORD]) return 0;
	/* BYWEEKNO only together with plain BYDAY */
	if (has[P_WK] && !has[P_DAY]) return 0;
	/* ordinal BYDAY not with BYWEEKNO, BYMONTHDAY, BYYEARDAY */
	if (has[P_DAYORD] && (has[P_WK] || has[P_MDAY] || has[P_YDAY])) return 0;
	/* BYSETPOS needs another part */
	if (has[P_POS] && n < 2) return 0;
	return 1;
}

static void
rg_rec_menu(struct rg_rule_s *g, int i, const struct rg_cfg_s *c, rg_cb_t cb, void *clo)
{
	if (i == g->nparts) {
		for (int k = 0; k < c->nintervals; k++) {
			g->interval = c->intervals[k];
			rg_finish(g);
			cb(g, clo);
		}
		return;
	}
	const int n = rg_menulen(g->part[i], c->menucap);
	for (int m = 0; m < n; m++) {
		g->mi[i] = m;
		rg_rec_menu(g, i + 1, c, cb, clo);
	}
}

static int
rg_isdatepart(int p)
{
	return p <= P_DAYORD;
}

static void
rg_enumerate(const struct rg_cfg_s *c, rg_cb_t cb, void *clo)
{
	struct rg_rule_s g;

	for (int f = c->freq_lo; f <= c->freq_hi; f++) {
		g.freq = f;
		/* size 0 */
		g.nparts = 0;
		rg_rec_menu(&g, 0, c, cb, clo);
		/* size 1 */
		for (int a = 0; a < NPARTS; a++) {
			g.nparts = 1, g.part[0] = a;
			if (rg_subset_ok(f, g.part, 1)) rg_rec_menu(&g, 0, c, cb, clo);
		}
		/* size 2; the BYWEEKNO+BYDAY pair is always included */
		for (int a = 0; a < NPARTS; a++) {
			for (int b = a + 1; b < NPARTS; b++) {
				g.nparts = 2, g.part[0] = a, g.part[1] = b;
				if (c->maxparts < 2 && !(a == P_WK && b == P_DAY)) continue;
				if (rg_subset_ok(f, g.part, 2)) rg_rec_menu(&g, 0, c, cb, clo);
			}
		}
		if (c->maxparts < 3 && !c->maxdateparts3) continue;
		for (int a = 0; a < NPARTS; a++) {
			for (int b = a + 1; b < NPARTS; b++) {
				for (int d = b + 1; d < NPARTS; d++) {
					g.nparts = 3, g.part[0] = a, g.part[1] = b, g.part[2] = d;
					if (c->maxparts < 3 &&
					    !(f <= RF_MONTHLY && rg_isdatepart(a) && rg_isdatepart(b) && rg_isdatepart(d))) continue;
					if (rg_subset_ok(f, g.part, 3)) rg_rec_menu(&g, 0, c, cb, clo);
				}
			}
		}
	}
}

/* DTSTART anchors (phases) */
static const rf_dt rg_anchor[] = {
	{2024, 2, 29, 10, 30, 15, 0},	/* leap day, Thursday */
	{2023, 1, 31, 9, 0, 0, 0},	/* month end, Tuesday */
	{2022, 12, 31, 23, 59, 59, 0},	/* year end, Saturday */
	{2024, 1, 1, 0, 0, 0, 0},	/* Monday */
	{2024, 2, 29, 0, 0, 0, 1},	/* DATE, leap day */
	{2023, 10, 29, 2, 30, 0, 0},	/* Sunday */
	{2020, 12, 28, 12, 0, 0, 0},	/* Monday of ISO week 53 */
	{2025, 8, 15, 13, 0, 0, 0},	/* Friday */
	/* --- quick tier uses the 8 above --- */
	{2026, 1, 1, 8, 15, 0, 0},	/* Thursday, 53-week year */
	{2032, 12, 31, 6, 0, 0, 0},	/* Friday, 53-week year end */
	{1902, 3, 1, 0, 0, 1, 0},
	{2096, 2, 29, 18, 45, 30, 0},
	{2021, 5, 5, 5, 5, 5, 0},	/* Wednesday */
	{2023, 1, 31, 0, 0, 0, 1},	/* DATE, month end */
	{2021, 11, 7, 0, 0, 0, 1},	/* DATE, Sunday */
	{2025, 12, 31, 0, 0, 0, 1},	/* DATE, year end */
	{1999, 12, 31, 23, 59, 59, 0},
	{2019, 6, 30, 17, 0, 0, 0},	/* Sunday, month end */
};
#define RG_NANCHOR	((int)(sizeof(rg_anchor) / sizeof(*rg_anchor)))

/* observation window per FREQ, seconds */
static int64_t
rg_window(int freq)
{
	switch (freq) {
	case RF_YEARLY: return (int64_t)40 * 366 * 86400;
	case RF_MONTHLY: return (int64_t)12 * 366 * 86400;
	case RF_WEEKLY: return (int64_t)4 * 366 * 86400;
	case RF_DAILY: return (int64_t)2 * 366 * 86400;
	case RF_HOURLY: return (int64_t)60 * 86400;
	case RF_MINUTELY: return (int64_t)3 * 86400;
	default: return (int64_t)3 * 3600;
	}
}

static size_t
rg_dtstr(char *buf, size_t bsz, rf_dt t)
{
	if (t.allday) {
		return (size_t)snprintf(buf, bsz, "%04d%02d%02d", t.y, t.m, t.d);
	}
	return (size_t)snprintf(buf, bsz, "%04d%02d%02dT%02d%02d%02dZ", t.y, t.m, t.d, t.H, t.M, t.S);
}
#endif
