/* civil.h -- reference proleptic Gregorian calendar (header-only)
 *
 * Written from the definition of the Gregorian calendar (a year is leap iff
 * divisible by 4 and not by 100, or divisible by 400; months have the usual
 * lengths), in the era-based formulation: a 400-year era has 146097 days, the
 * year is taken to start on 1 March so the leap day is the last day.
 * Day 0 is 1970-01-01.  Nothing here is derived from the code under test.
 *
 * A second, deliberately stupid formulation (cv_days_slow: sum year and month
 * lengths) is used by cv_selftest() to cross-check the fast one over the whole
 * range the drivers use.
 */
#if !defined INCLUDED_civil_h_
#define INCLUDED_civil_h_
#include <stdint.h>

#define CV_MS_PER_DAY	INT64_C(86400000)

struct cv_ymd_s {
	int y, m, d;
};

static inline int
cv_leap_p(int y)
{
	return (y % 4 == 0 && y % 100 != 0) || y % 400 == 0;
}

static inline int
cv_mdays(int y, int m)
{
	static const int ml[] = {0, 31, 28, 31, 30, 31, 30, 31, 31, 30, 31, 30, 31};
	return ml[m] + (m == 2 && cv_leap_p(y));
}

/* days since 1970-01-01 of Y-M-D, 1 <= M <= 12, D may be any small integer */
static inline int64_t
cv_days_from_civil(int y, int m, int d)
{
	int64_t yy = (int64_t)y - (m <= 2);
	int64_t era = (yy >= 0 ? yy : yy - 399) / 400;
	int64_t yoe = yy - era * 400;				/* [0, 399] */
	int64_t doy = (153 * (m + (m > 2 ? -3 : 9)) + 2) / 5 + d - 1;	/* [0, 365] for proper D */
	int64_t doe = yoe * 365 + yoe / 4 - yoe / 100 + doy;	/* [0, 146096] */
	return era * 146097 + doe - 719468;
}

static inline struct cv_ymd_s
cv_civil_from_days(int64_t z)
{
	struct cv_ymd_s r;
	z += 719468;
	int64_t era = (z >= 0 ? z : z - 146096) / 146097;
	int64_t doe = z - era * 146097;				/* [0, 146096] */
	int64_t yoe = (doe - doe / 1460 + doe / 36524 - doe / 146096) / 365;	/* [0, 399] */
	int64_t y = yoe + era * 400;
	int64_t doy = doe - (365 * yoe + yoe / 4 - yoe / 100);	/* [0, 365] */
	int64_t mp = (5 * doy + 2) / 153;			/* [0, 11] */
	r.d = (int)(doy - (153 * mp + 2) / 5 + 1);
	r.m = (int)(mp < 10 ? mp + 3 : mp - 9);
	r.y = (int)(y + (r.m <= 2));
	return r;
}

/* 0 = Sunday */
static inline int
cv_weekday(int64_t z)
{
	return (int)(z >= -4 ? (z + 4) % 7 : (z + 5) % 7 + 6);
}

/* summing formulation, only for the self test */
static inline int64_t
cv_days_slow(int y, int m, int d)
{
	int64_t n = 0;
	if (y >= 1970) {
		for (int k = 1970; k < y; k++) n += 365 + cv_leap_p(k);
	} else {
		for (int k = y; k < 1970; k++) n -= 365 + cv_leap_p(k);
	}
	for (int k = 1; k < m; k++) n += cv_mdays(y, k);
	return n + d - 1;
}

/* 0 if the two formulations and the inverse agree on every day of Y0..Y1 and
 * a handful of anchor dates have their well-known day numbers */
static inline int
cv_selftest(int y0, int y1)
{
	int64_t prev = cv_days_from_civil(y0, 1, 1) - 1;

	if (cv_days_from_civil(1970, 1, 1) != 0 ||
	    cv_days_from_civil(2000, 3, 1) != 11017 ||
	    cv_days_from_civil(2038, 1, 19) != 24855 ||
	    cv_days_from_civil(1901, 12, 13) != -24856 ||
	    cv_days_from_civil(1858, 11, 17) != -40587 ||	/* MJD 0 */
	    cv_weekday(0) != 4 ||				/* a Thursday */
	    cv_weekday(cv_days_from_civil(2000, 1, 1)) != 6 ||	/* a Saturday */
	    cv_weekday(cv_days_from_civil(1901, 1, 1)) != 2) {	/* a Tuesday */
		return -1;
	}
	for (int y = y0; y <= y1; y++) {
		for (int m = 1; m <= 12; m++) {
			for (int d = 1; d <= cv_mdays(y, m); d++) {
				int64_t z = cv_days_from_civil(y, m, d);
				struct cv_ymd_s c = cv_civil_from_days(z);
				if (z != prev + 1 || z != cv_days_slow(y, m, d) ||
				    c.y != y || c.m != m || c.d != d) {
					return -1;
				}
				prev = z;
			}
		}
	}
	return 0;
}
#endif	/* INCLUDED_civil_h_ */
