/* c05_sched.h -- the list of schedules of the C05 position sweep:
 * the hand-written extension table of c05_common.h followed by a slice of the C01 grammar
 * (ref/rrgram.h) with synchronised DTSTARTs derived by the RFC evaluator (ref/rfc5545.h).
 * The enumeration depends only on the options, so a case index identifies a case forever.
 * To be included after vdrv.h (the case bookkeeping is done here). */
#if !defined INCLUDED_c05_sched_h_
#define INCLUDED_c05_sched_h_
#include "rfc5545.h"
#include "rrgram.h"
#include "c05_common.h"

typedef void (*c05_sched_fn)(const char *kind, const char *lines, void *clo);

/* vdrv's deadline is only looked at on every 256th beat of vd_next(); cases here are long, so look ourselves */
static int
c05_deadline_hit(void)
{
	if (vd_deadline > 0 && vd_only < 0 && vd_now() > vd_deadline) {
		vd_sh->capped = 1;
	}
	return vd_sh->capped;
}

struct c05_gram_s {
	int nanchors;
	int terms_full;
	c05_sched_fn fn;
	void *clo;
};

/* one supervised case = (rule, anchor): the synchronised DTSTART is derived by the RFC evaluator
 * only for cases of this shard; all terminations of the rule are run inside the case */
static void
c05_gram_rule(const struct rg_rule_s *g, void *clo)
{
	const struct c05_gram_s *c = clo;

	for (int a = 0; a < c->nanchors && a < RG_NANCHOR; a++) {
		static const int a_order[] = {0, 4, 6, 2, 1, 3, 5, 7};
		rf_dt an = rg_anchor[a_order[a % 8]];
		int64_t unb[8];
		int ambig = 0, trunc = 0, n;
		char dts[32], unts[32], lines[600], kind[40];

		if (an.allday && (g->freq >= RF_HOURLY || g->ref.nH || g->ref.nM || g->ref.nS)) {
			continue;
		}
		if (c05_deadline_hit() || !vd_next()) {
			continue;
		}
		vd_desc("RRULE:%s from anchor #%d", g->text, a);
		vd_shape("sched/gram-%s", rg_freqname[g->freq]);
		n = rf_eval(&g->ref, an, rf_secs(an) + rg_window(g->freq), unb, 1, &ambig, &trunc);
		if (!n || ambig) {
			vd_count("skipped_empty_or_ambiguous", 1);
			continue;
		}
		rf_dt t0 = rf_from_secs(unb[0], an.allday);
		if (t0.y > 2058) {
			continue;
		}
		rg_dtstr(dts, sizeof(dts), t0);
		/* unbounded */
		snprintf(kind, sizeof(kind), "gram-%s-inf", rg_freqname[g->freq]);
		snprintf(lines, sizeof(lines), "DTSTART%s:%s\nRRULE:%s\n", t0.allday ? ";VALUE=DATE" : "", dts, g->text);
		c->fn(kind, lines, c->clo);
		/* COUNT */
		snprintf(kind, sizeof(kind), "gram-%s-count", rg_freqname[g->freq]);
		{
			static const int cq[] = {65}, cf[] = {3, 65, 130};
			const int *cs = c->terms_full ? cf : cq;
			const int ncs = c->terms_full ? 3 : 1;
			for (int i = 0; i < ncs; i++) {
				snprintf(lines, sizeof(lines), "DTSTART%s:%s\nRRULE:%s;COUNT=%d\n",
					 t0.allday ? ";VALUE=DATE" : "", dts, g->text, cs[i]);
				c->fn(kind, lines, c->clo);
			}
		}
		/* UNTIL on the 4th occurrence */
		n = rf_eval(&g->ref, t0, rf_secs(t0) + rg_window(g->freq), unb, 8, &ambig, &trunc);
		if (n >= 5 && !ambig) {
			snprintf(kind, sizeof(kind), "gram-%s-until", rg_freqname[g->freq]);
			rg_dtstr(unts, sizeof(unts), rf_from_secs(unb[3], t0.allday));
			snprintf(lines, sizeof(lines), "DTSTART%s:%s\nRRULE:%s;UNTIL=%s\n",
				 t0.allday ? ";VALUE=DATE" : "", dts, g->text, unts);
			c->fn(kind, lines, c->clo);
		}
	}
}

/* run FN on every schedule: the extension table (one case each) if EXT, then the grammar slice if GRAM */
static void
c05_for_schedules(int ext, int gram, int maxparts, int menucap, const char *intervals, int nanchors, int terms_full, int date3,
		  c05_sched_fn fn, void *clo)
{
	if (ext) {
		for (int i = 0; i < C05_NEXT; i++) {
			if (c05_deadline_hit() || !vd_next()) {
				continue;
			}
			vd_shape("sched/%s", c05_ext[i].kind);
			fn(c05_ext[i].kind, c05_ext[i].lines, clo);
		}
	}
	if (gram) {
		static int ivals[16];
		struct rg_cfg_s c = {0};
		struct c05_gram_s gc = {nanchors, terms_full, fn, clo};
		static const int one[] = {1};
		c.freq_lo = RF_YEARLY;
		c.freq_hi = RF_DAILY;
		c.maxparts = maxparts;
		c.maxdateparts3 = date3;
		c.menucap = menucap;
		c.nintervals = rg_list(ivals, 16, intervals);
		c.intervals = ivals;
		rg_enumerate(&c, c05_gram_rule, &gc);
		/* sub-daily frequencies: single parts and INTERVAL=1 only; sparse combinations such as
		 * FREQ=SECONDLY;INTERVAL=2;BYMONTH=2;BYSECOND=0,59 make the fillers scan second by second
		 * for months (termination and work bounds are C09's subject, not C05's) */
		c.freq_lo = RF_HOURLY;
		c.freq_hi = RF_SECONDLY;
		c.maxparts = 1;
		c.maxdateparts3 = 0;
		c.nintervals = 1;
		c.intervals = one;
		rg_enumerate(&c, c05_gram_rule, &gc);
	}
}

/* newlines to blanks, for descriptions */
static const char*
c05_flat(char *buf, size_t bsz, const char *lines)
{
	size_t i;
	for (i = 0; lines[i] && i + 1 < bsz; i++) {
		buf[i] = lines[i] == '\n' ? ' ' : lines[i];
	}
	while (i && buf[i - 1] == ' ') i--;
	buf[i] = '\0';
	return buf;
}

/* consumption prefixes for a stream of N occurrences (N < 0 unbounded) */
static int
c05_klist(int *ks, int max, int n, int full)
{
	static const int kq[] = {0, 1, 2, 63, 64, 65, 127, 128, 129};
	static const int kf[] = {0, 1, 2, 3, 31, 61, 62, 63, 64, 65, 66, 125, 126, 127, 128, 129, 130, 189, 190};
	const int *src = full ? kf : kq;
	const int nsrc = full ? (int)(sizeof(kf) / sizeof(*kf)) : (int)(sizeof(kq) / sizeof(*kq));
	int cand[40], nc = 0, nk = 0;

	for (int i = 0; i < nsrc; i++) cand[nc++] = src[i];
	if (n >= 0) {
		cand[nc++] = n - 1;
		cand[nc++] = n;
		cand[nc++] = n + 1;
	}
	/* sort, dedupe, clip */
	for (int i = 1; i < nc; i++) {
		for (int j = i; j > 0 && cand[j] < cand[j - 1]; j--) {
			int t = cand[j]; cand[j] = cand[j - 1]; cand[j - 1] = t;
		}
	}
	for (int i = 0; i < nc && nk < max; i++) {
		if (cand[i] < 0 || (n >= 0 && cand[i] > n + 1) || (nk && ks[nk - 1] == cand[i])) {
			continue;
		}
		ks[nk++] = cand[i];
	}
	return nk;
}

/* number of occurrences of the event in TEXT, -1 if more than CAP (or none readable: -2) */
static int
c05_total(const char *text, int cap)
{
	echs_task_t t = ical_task1(text);
	int n = 0;

	if (t == NULL) {
		return -2;
	}
	if (t->strm != NULL) {
		for (;;) {
			echs_event_t e = echs_evstrm_pop(t->strm);
			if (echs_nul_event_p(e)) {
				break;
			}
			if (++n > cap || (e.from.y & 0x0fffU) > C05_MAXYEAR) {
				n = -1;
				break;
			}
		}
	}
	free_echs_task(t);
	return n;
}
#endif
