/* strmfollow.h -- glue shared by the stream-following checks C16 and C09
 *
 *  - instants as delivered by a stream -> seconds (own civil arithmetic from rfc5545.h)
 *  - building one-event calendars from a DTSTART line, an RRULE value and extra lines
 *  - DTSTART in the stream's frame (what the same DTSTART line yields as an event without RRULE)
 *  - a CPU-time watchdog around library calls: an interval timer (ITIMER_VIRTUAL) ticks every
 *    SF_TICK_MS of user CPU time; when SF_LIMIT consecutive ticks see no progress the guarded
 *    region is left with siglongjmp.  The library state is abandoned (never freed, never
 *    touched again).  No syscall per guarded call.
 */
#if !defined INCLUDED_strmfollow_h_
#define INCLUDED_strmfollow_h_
#include <setjmp.h>
#include <signal.h>
#include <sys/time.h>
#include "icalio.h"
#include "rfc5545.h"

static const char*
sf_secs_str(char *buf, size_t bsz, int64_t s, int allday)
{
	rf_dt t = rf_from_secs(s, allday);
	if (allday) {
		snprintf(buf, bsz, "%04d-%02d-%02d", t.y, t.m, t.d);
	} else {
		snprintf(buf, bsz, "%04d-%02d-%02dT%02d:%02d:%02d", t.y, t.m, t.d, t.H, t.M, t.S);
	}
	return buf;
}

/* an instant as delivered by a stream -> seconds; 0 and *BAD set when it is no calendar time */
static int64_t
sf_inst_secs(echs_instant_t i, int *bad)
{
	const int ad = echs_instant_all_day_p(i);
	rf_dt t = {(int)i.y, (int)i.m, (int)i.d, ad ? 0 : (int)i.H, ad ? 0 : (int)i.M, ad ? 0 : (int)i.S, ad};

	if (i.y < 1U || i.y > 4095U || i.m < 1U || i.m > 12U || i.d < 1U || (int)i.d > rf_mlen(t.y, t.m) ||
	    (!ad && (i.H > 23U || i.M > 59U || i.S > 59U))) {
		*bad = 1;
		return 0;
	}
	return rf_secs(t);
}

/* one event: DTLINE, then (if RRULE != NULL) "RRULE:" RRULE TERM, then EXTRA (complete lines) */
static echs_task_t
sf_mktask(const char *dtline, const char *rrule, const char *term, const char *extra)
{
	char body[6144], text[6656];

	if (rrule != NULL) {
		snprintf(body, sizeof(body), "%s\nRRULE:%s%s\n%s", dtline, rrule, term ? term : "", extra ? extra : "");
	} else {
		snprintf(body, sizeof(body), "%s\n%s", dtline, extra ? extra : "");
	}
	ical_wrap(text, sizeof(text), "sf@verif", body);
	return ical_task1(text);
}

/* first occurrence of the event that has only this DTSTART line: DTSTART in the stream frame */
static int
sf_dtstart_frame(const char *dtline, int64_t *ts0, int *allday, echs_instant_t *raw)
{
	echs_task_t t = sf_mktask(dtline, NULL, NULL, NULL);
	int ok = 0, bad = 0;

	if (t != NULL && t->strm != NULL) {
		echs_event_t e = echs_evstrm_pop(t->strm);
		if (!echs_nul_event_p(e)) {
			*ts0 = sf_inst_secs(e.from, &bad);
			*allday = echs_instant_all_day_p(e.from);
			if (raw) {
				*raw = e.from;
			}
			ok = !bad;
		}
	}
	if (t) {
		free_echs_task(t);
	}
	return ok;
}

/* ---- watchdog ---- */
#define SF_TICK_MS	50
static sigjmp_buf sf_jmp;
static volatile sig_atomic_t sf_armed;
static volatile long sf_progress;
static long sf_seen;
static int sf_stale, sf_limit;
static long sf_nfired;

static void
sf_on_tick(int sig)
{
	(void)sig;
#if defined INCLUDED_vdrv_h_
	/* a tick is progress as far as the supervisor is concerned; hangs are this watchdog's business
	 * (a multiple of 256 so that vd_next()'s deadline check keeps its cadence) */
	if (vd_sh != NULL) {
		vd_sh->beat += 256;
	}
#endif
	if (!sf_armed) {
		return;
	}
	if (sf_progress != sf_seen) {
		sf_seen = sf_progress;
		sf_stale = 0;
		return;
	}
	if (++sf_stale >= sf_limit) {
		sf_armed = 0;
		sf_nfired++;
		siglongjmp(sf_jmp, 1);
	}
}

static void
sf_init(void)
{
	struct sigaction sa;
	struct itimerval it = {{0, SF_TICK_MS * 1000}, {0, SF_TICK_MS * 1000}};

	memset(&sa, 0, sizeof(sa));
	sa.sa_handler = sf_on_tick;
	sa.sa_flags = SA_NODEFER;	/* left by siglongjmp: do not leave the signal blocked */
	sigemptyset(&sa.sa_mask);
	sigaction(SIGVTALRM, &sa, NULL);
	setitimer(ITIMER_VIRTUAL, &it, NULL);
}

/* usage:
 *   if (sigsetjmp(sf_jmp, 0)) { ...the guarded region did not answer within the budget... }
 *   else { sf_arm(seconds); ...library calls, sf_progress++ after each...; sf_disarm(); }
 * locals changed inside the region and read after the jump must be volatile or static */
static inline void
sf_arm(double budget_s)
{
	sf_limit = (int)(budget_s * 1000.0 / SF_TICK_MS + 0.5);
	if (sf_limit < 2) {
		sf_limit = 2;
	}
	sf_stale = 0;
	sf_seen = sf_progress - 1;
	sf_armed = 1;
}

static inline void
sf_disarm(void)
{
	sf_armed = 0;
}
#endif
