/* rfc5545.h -- independent reference evaluator for RRULEs (DESIGN.md appendix A)
 *
 * Written from RFC 5545 3.3.10 / 3.8.5.3.  A membership test plus a scan over
 * candidate periods; deliberately NOT an expander and it shares nothing with
 * /repo/src/evrrul.c.  Times are int64 seconds on the event's own (floating)
 * clock: days-from-civil * 86400 + second of day.  WKST is always Monday.
 */
#if !defined INCLUDED_rfc5545_h_
#define INCLUDED_rfc5545_h_
#include <stdint.h>
#include <stdlib.h>
#include <string.h>

enum {RF_YEARLY = 1, RF_MONTHLY, RF_WEEKLY, RF_DAILY, RF_HOURLY, RF_MINUTELY, RF_SECONDLY};

typedef struct {
	int y, m, d, H, M, S;
	int allday;
} rf_dt;

typedef struct {
	int freq;
	int interval;
	int count;		/* -1: none */
	int has_until;
	int64_t until;		/* inclusive, same clock */
	int nmon, mon[12];
	int nmday, mday[8];
	int nyday, yday[8];
	int nwk, wk[8];
	int nday;
	struct {
		int ord;	/* 0: every */
		int wd;		/* 0 = MO .. 6 = SU */
	} day[8];
	int nH, H[24];
	int nM, M[60];
	int nS, S[60];
	int npos, pos[8];
} rf_rule;

/* ---- civil calendar (Howard Hinnant's days_from_civil / civil_from_days) ---- */
static int64_t
rf_days(int y, int m, int d)
{
	y -= m <= 2;
	const int64_t era = (y >= 0 ? y : y - 399) / 400;
	const unsigned yoe = (unsigned)(y - era * 400);
	const unsigned doy = (153U * (unsigned)(m + (m > 2 ? -3 : 9)) + 2U) / 5U + (unsigned)d - 1U;
	const unsigned doe = yoe * 365U + yoe / 4U - yoe / 100U + doy;
	return era * 146097 + (int64_t)doe - 719468;
}

static void
rf_civil(int64_t z, int *y, int *m, int *d)
{
	z += 719468;
	const int64_t era = (z >= 0 ? z : z - 146096) / 146097;
	const unsigned doe = (unsigned)(z - era * 146097);
	const unsigned yoe = (doe - doe / 1460U + doe / 36524U - doe / 146096U) / 365U;
	const int yy = (int)yoe + (int)era * 400;
	const unsigned doy = doe - (365U * yoe + yoe / 4U - yoe / 100U);
	const unsigned mp = (5U * doy + 2U) / 153U;
	*d = (int)(doy - (153U * mp + 2U) / 5U + 1U);
	*m = (int)(mp < 10 ? mp + 3 : mp - 9);
	*y = yy + (*m <= 2);
}

static int rf_leap(int y) { return (y % 4 == 0 && y % 100 != 0) || y % 400 == 0; }
static int rf_mlen(int y, int m)
{
	static const int ml[] = {0, 31, 28, 31, 30, 31, 30, 31, 31, 30, 31, 30, 31};
	return ml[m] + (m == 2 && rf_leap(y));
}
static int rf_ylen(int y) { return 365 + rf_leap(y); }
/* 0 = Monday .. 6 = Sunday; 1970-01-01 (day 0) was a Thursday */
static int rf_wd(int64_t days) { return (int)(((days % 7) + 7 + 3) % 7); }
/* Monday-based week index */
static int64_t rf_wkidx(int64_t days)
{
	int64_t x = days + 3;
	return x >= 0 ? x / 7 : -((-x + 6) / 7);
}
static int64_t rf_secs(rf_dt t)
{
	return rf_days(t.y, t.m, t.d) * 86400 + (t.allday ? 0 : t.H * 3600 + t.M * 60 + t.S);
}
static rf_dt rf_from_secs(int64_t s, int allday)
{
	rf_dt r;
	int64_t dd = s >= 0 ? s / 86400 : -((-s + 86399) / 86400);
	int sod = (int)(s - dd * 86400);
	rf_civil(dd, &r.y, &r.m, &r.d);
	r.H = sod / 3600, r.M = sod / 60 % 60, r.S = sod % 60;
	r.allday = allday;
	if (allday) r.H = r.M = r.S = 0;
	return r;
}

/* ISO 8601 week number of a day, and number of weeks of its ISO year */
static void
rf_isoweek(int64_t days, int *wk, int *nwk)
{
	int y, m, d;
	/* the Thursday of this week decides the ISO year */
	int64_t thu = days - rf_wd(days) + 3;
	rf_civil(thu, &y, &m, &d);
	int64_t jan1 = rf_days(y, 1, 1);
	*wk = (int)((thu - jan1) / 7) + 1;
	/* a year has 53 weeks iff Jan 1 is a Thursday, or a Wednesday in a leap year */
	int w1 = rf_wd(jan1);
	*nwk = (w1 == 3 || (w1 == 2 && rf_leap(y))) ? 53 : 52;
}

static int
rf_in(const int *l, int n, int v)
{
	for (int i = 0; i < n; i++) {
		if (l[i] == v) return 1;
	}
	return 0;
}

/* date predicates of rule R for day DAYS, DTSTART T0 supplying implied defaults */
static int
rf_datepred(const rf_rule *r, int64_t days, const rf_dt *t0)
{
	int y, m, d;
	rf_civil(days, &y, &m, &d);
	const int wd = rf_wd(days);
	const int ml = rf_mlen(y, m), yl = rf_ylen(y);
	const int yd = (int)(days - rf_days(y, 1, 1)) + 1;

	if (r->nmon && !rf_in(r->mon, r->nmon, m)) return 0;
	if (r->nmday && !rf_in(r->mday, r->nmday, d) && !rf_in(r->mday, r->nmday, d - ml - 1)) return 0;
	if (r->nyday && !rf_in(r->yday, r->nyday, yd) && !rf_in(r->yday, r->nyday, yd - yl - 1)) return 0;
	if (r->nwk) {
		int wk, nwk;
		rf_isoweek(days, &wk, &nwk);
		if (!rf_in(r->wk, r->nwk, wk) && !rf_in(r->wk, r->nwk, wk - nwk - 1)) return 0;
	}
	if (r->nday) {
		int ok = 0;
		for (int i = 0; i < r->nday && !ok; i++) {
			if (r->day[i].wd != wd) continue;
			if (!r->day[i].ord) {
				ok = 1;
			} else {
				/* scope: month for MONTHLY, or YEARLY with BYMONTH; year otherwise */
				int idx, len;
				if (r->freq == RF_MONTHLY || (r->freq == RF_YEARLY && r->nmon)) {
					idx = d - 1, len = ml;
				} else {
					idx = yd - 1, len = yl;
				}
				if (r->day[i].ord > 0) {
					ok = idx / 7 + 1 == r->day[i].ord;
				} else {
					ok = (len - 1 - idx) / 7 + 1 == -r->day[i].ord;
				}
			}
		}
		if (!ok) return 0;
	}
	/* implied defaults from DTSTART */
	switch (r->freq) {
	case RF_YEARLY:
		if (!r->nmon && !r->nwk && !r->nyday && !r->nmday && !r->nday) {
			if (m != t0->m || d != t0->d) return 0;
		} else if (r->nmon && !r->nwk && !r->nyday && !r->nmday && !r->nday) {
			if (d != t0->d) return 0;
		}
		break;
	case RF_MONTHLY:
		if (!r->nmday && !r->nday) {
			if (d != t0->d) return 0;
		}
		break;
	case RF_WEEKLY:
		if (!r->nday) {
			if (wd != rf_wd(rf_days(t0->y, t0->m, t0->d))) return 0;
		}
		break;
	default:
		break;
	}
	return 1;
}

static int rf_cmp_int(const void *a, const void *b) { return *(const int*)a - *(const int*)b; }

struct rf_out_s {
	int64_t *out;
	int max, n;
	int64_t t0, tend;
	const rf_rule *r;
	int cnt;	/* members emitted so far for COUNT */
	int done;
	/* BYSETPOS ambiguity: reading B counts positions only from DTSTART on */
	int ambiguous;
};

/* flush one period's candidate list (ascending) through BYSETPOS, DTSTART, UNTIL, COUNT */
static void
rf_flush(struct rf_out_s *o, int64_t *cand, int nc)
{
	const rf_rule *r = o->r;
	int64_t selA[512];
	int nA = 0;

	if (!nc || o->done) return;
	if (r->npos) {
		/* reading A: positions over the whole period */
		for (int i = 0; i < nc; i++) {
			if (rf_in(r->pos, r->npos, i + 1) || rf_in(r->pos, r->npos, i - nc)) {
				if (nA < 512) selA[nA++] = cand[i];
			}
		}
		/* reading B: positions over the members not before DTSTART */
		if (cand[0] < o->t0) {
			int k = 0;
			while (k < nc && cand[k] < o->t0) k++;
			int nb = nc - k, ia = 0, diff = 0;
			/* compare the >= t0 part of A with B */
			while (ia < nA && selA[ia] < o->t0) ia++;
			for (int i = 0; i < nb; i++) {
				int inB = rf_in(r->pos, r->npos, i + 1) || rf_in(r->pos, r->npos, i - nb);
				int inA = ia < nA && selA[ia] == cand[k + i];
				if (inA) ia++;
				if (inA != inB) diff = 1;
			}
			if (diff) o->ambiguous = 1;
		}
		cand = selA, nc = nA;
	}
	for (int i = 0; i < nc; i++) {
		if (cand[i] < o->t0) continue;
		if (r->has_until && cand[i] > r->until) { o->done = 1; return; }
		if (cand[i] > o->tend) { o->done = 1; return; }
		if (r->count >= 0 && o->cnt >= r->count) { o->done = 1; return; }
		o->cnt++;
		if (o->n < o->max) {
			o->out[o->n++] = cand[i];
		} else {
			o->done = 1;
			return;
		}
	}
	if (r->count >= 0 && o->cnt >= r->count) o->done = 1;
}

/* Evaluate rule R anchored at DTSTART T0; members in [T0, TEND] (seconds), at most MAX.
 * Returns the number written to OUT.  *AMBIG is set when BYSETPOS readings differ.
 * *TRUNC is set when the listing stopped because MAX was reached (more may follow). */
static int
rf_eval(const rf_rule *r, rf_dt t0, int64_t tend, int64_t *out, int max, int *ambig, int *trunc)
{
	struct rf_out_s o = {out, max, 0, rf_secs(t0), tend, r, 0, 0, 0};
	int H[24], M[60], S[60], nH, nM, nS;
	static int64_t cand[400000];
	int nc = 0;
	const int ncmax = (int)(sizeof(cand) / sizeof(*cand));
	const int64_t day0 = rf_days(t0.y, t0.m, t0.d);
	const int interval = r->interval > 0 ? r->interval : 1;

	/* time-of-day lists: explicit, or the implied default */
	nH = r->nH, nM = r->nM, nS = r->nS;
	memcpy(H, r->H, sizeof(int) * (size_t)nH);
	memcpy(M, r->M, sizeof(int) * (size_t)nM);
	memcpy(S, r->S, sizeof(int) * (size_t)nS);
	qsort(H, (size_t)nH, sizeof(int), rf_cmp_int);
	qsort(M, (size_t)nM, sizeof(int), rf_cmp_int);
	qsort(S, (size_t)nS, sizeof(int), rf_cmp_int);

	if (r->freq >= RF_YEARLY && r->freq <= RF_DAILY) {
		int64_t pstart, p0, pcur;
		int y0 = t0.y, m0 = t0.m;

		if (!nH) H[nH++] = t0.H;
		if (!nM) M[nM++] = t0.M;
		if (!nS) S[nS++] = t0.S;
		if (t0.allday) nH = nM = nS = 1, H[0] = M[0] = S[0] = 0;
		switch (r->freq) {
		case RF_YEARLY: pstart = rf_days(y0, 1, 1); p0 = y0; break;
		case RF_MONTHLY: pstart = rf_days(y0, m0, 1); p0 = (int64_t)y0 * 12 + m0 - 1; break;
		case RF_WEEKLY: pstart = day0 - rf_wd(day0); p0 = rf_wkidx(day0); break;
		default: pstart = day0; p0 = day0; break;
		}
		pcur = p0;
		const int64_t dend = tend / 86400 + 1;
		/* run to the end of the period that contains the window's end, so that
		 * BYSETPOS always sees complete periods */
		for (int64_t d = pstart; !o.done; d++) {
			int64_t p;
			int y, m, dd;
			switch (r->freq) {
			case RF_YEARLY: rf_civil(d, &y, &m, &dd); p = y; break;
			case RF_MONTHLY: rf_civil(d, &y, &m, &dd); p = (int64_t)y * 12 + m - 1; break;
			case RF_WEEKLY: p = rf_wkidx(d); break;
			default: p = d; break;
			}
			if (p != pcur) {
				rf_flush(&o, cand, nc);
				nc = 0;
				pcur = p;
				if (d > dend) break;
			}
			if ((p - p0) % interval) continue;
			if (!rf_datepred(r, d, &t0)) continue;
			for (int ih = 0; ih < nH; ih++) {
				for (int im = 0; im < nM; im++) {
					for (int is = 0; is < nS; is++) {
						if (nc < ncmax) {
							cand[nc++] = d * 86400 + H[ih] * 3600 + M[im] * 60 + S[is];
						}
					}
				}
			}
		}
		rf_flush(&o, cand, nc);
	} else {
		const int64_t unit = r->freq == RF_HOURLY ? 3600 : r->freq == RF_MINUTELY ? 60 : 1;
		const int64_t ts0 = o.t0;
		const int64_t pbase = ts0 - (ts0 % unit + unit) % unit;

		for (int64_t P = pbase; P <= tend && !o.done; P += unit * interval) {
			const int64_t d = P >= 0 ? P / 86400 : -((-P + 86399) / 86400);
			const int sod = (int)(P - d * 86400);
			const int h = sod / 3600, mi = sod / 60 % 60, se = sod % 60;

			nc = 0;
			if (!rf_datepred(r, d, &t0)) continue;
			if (r->nH && !rf_in(H, nH, h)) continue;
			if (r->freq == RF_HOURLY) {
				int nm = nM, ns = nS;
				int MM[60], SS[60];
				memcpy(MM, M, sizeof(int) * (size_t)nM);
				memcpy(SS, S, sizeof(int) * (size_t)nS);
				if (!nm) MM[nm++] = t0.M;
				if (!ns) SS[ns++] = t0.S;
				for (int im = 0; im < nm; im++) {
					for (int is = 0; is < ns; is++) {
						cand[nc++] = P + MM[im] * 60 + SS[is];
					}
				}
			} else if (r->freq == RF_MINUTELY) {
				int ns = nS;
				int SS[60];
				if (r->nM && !rf_in(M, nM, mi)) continue;
				memcpy(SS, S, sizeof(int) * (size_t)nS);
				if (!ns) SS[ns++] = t0.S;
				for (int is = 0; is < ns; is++) {
					cand[nc++] = P + SS[is];
				}
			} else {
				if (r->nM && !rf_in(M, nM, mi)) continue;
				if (r->nS && !rf_in(S, nS, se)) continue;
				cand[nc++] = P;
			}
			rf_flush(&o, cand, nc);
		}
	}
	if (ambig) *ambig = o.ambiguous;
	if (trunc) *trunc = o.n >= max;
	return o.n;
}
#endif
