/* c05_common.h -- shared pieces of the C05 drivers (DESIGN.md C05)
 *
 *  - observation of a task's attributes (struct c05_obs) and their comparison
 *  - the README field-mapping model: which attribute a calendar text must yield
 *  - writing a task the way echsd / echsq do (echs_icalify_init, echs_task_icalify,
 *    echs_icalify_fini) into an unlinked temp file and reading the text back
 *  - the schedule table of the position sweep and the naming of what changed
 *
 * Nothing here is transcribed from evical.c: expected values come from the text
 * that was written (README table), streams are compared with each other.
 */
#if !defined INCLUDED_c05_common_h_
#define INCLUDED_c05_common_h_
#include <fcntl.h>
#include <stddef.h>
#include <ctype.h>
#include <sys/stat.h>
#include "icalio.h"
#include "instruc.h"
#include "nummapstr.h"
#include "intern.h"
#include "strlst.h"
#include "evstrm.h"

#define C05_MAXOCC	200
/* occurrences are compared up to the end of this year: the fillers' weekday arithmetic takes 2100
 * for a leap year (FREQ=WEEKLY;BYDAY=MO lands on Sundays from 2101 on), which is C01/C16's matter
 * and shows up differently depending on where a refill boundary falls */
#define C05_MAXYEAR	2099U
#define C05_NATT	4

/* ---------- observation ---------- */
enum {
	F_SUMM, F_ORG, F_ATT1, F_ATT2, F_LOC, F_SHELL, F_IFILE, F_OFILE, F_EFILE,
	F_MOUT, F_MERR, F_MRUN, F_MAXSIM, F_UMASK, F_SUID, F_SGID, C05_NFLD,
	F_OWNER = C05_NFLD, F_UID, C05_NOBS
};
static const char *const c05_fname[C05_NOBS] = {
	"SUMMARY", "ORGANIZER", "ATTENDEE", "ATTENDEE", "LOCATION", "X-ECHS-SHELL",
	"X-ECHS-IFILE", "X-ECHS-OFILE", "X-ECHS-EFILE", "X-ECHS-MAIL-OUT", "X-ECHS-MAIL-ERR",
	"X-ECHS-MAIL-RUN", "X-ECHS-MAX-SIMUL", "X-ECHS-UMASK", "X-ECHS-SETUID", "X-ECHS-SETGID",
	"X-ECHS-OWNER", "UID",
};

struct c05_obs {
	const char *uid;
	const char *cmd, *org, *att[C05_NATT];
	int natt;
	const char *wd, *sh, *in, *out, *err;
	int mout, merr, mrun;	/* value | explicitly-set << 1 */
	int maxsim, umask;	/* -1 = unset */
	char suid[80], sgid[80], owner[80];	/* "" unset, "#n" numeric, otherwise the name */
};

static void
c05_nms(char *buf, size_t bsz, nummapstr_t x)
{
	const char *s;
	if (!x) {
		buf[0] = '\0';
	} else if ((s = nummapstr_str(x)) != NULL) {
		snprintf(buf, bsz, "%s", s);
	} else {
		snprintf(buf, bsz, "#%lu", (unsigned long)nummapstr_num(x));
	}
}

static void
c05_observe(struct c05_obs *o, echs_task_t t)
{
	memset(o, 0, sizeof(*o));
	o->uid = t->oid ? obint_name(t->oid) : NULL;
	o->cmd = t->cmd;
	o->org = t->org;
	if (t->att != NULL) {
		for (char *const *ap = t->att->l; *ap; ap++) {
			if (o->natt < C05_NATT) {
				o->att[o->natt] = *ap;
			}
			o->natt++;
		}
	}
	o->wd = t->run_as.wd;
	o->sh = t->run_as.sh;
	o->in = t->in;
	o->out = t->out;
	o->err = t->err;
	o->mout = (int)(t->mailout | t->moutset << 1);
	o->merr = (int)(t->mailerr | t->merrset << 1);
	o->mrun = (int)(t->mailrun | t->mrunset << 1);
	o->maxsim = t->max_simul == 077U ? -1 : (int)t->max_simul;
	o->umask = t->umsk > 0777U ? -1 : (int)t->umsk;
	c05_nms(o->suid, sizeof(o->suid), t->run_as.u);
	c05_nms(o->sgid, sizeof(o->sgid), t->run_as.g);
	c05_nms(o->owner, sizeof(o->owner), t->owner);
}

typedef void (*c05_diff_cb)(int fld, const char *how, const char *want, const char *got, void *clo);

static const char*
c05_how(int want_set, int got_set)
{
	return want_set && !got_set ? "lost" : !want_set && got_set ? "spurious" : "changed";
}

static void
c05_cmp_s(int fld, const char *w, const char *g, c05_diff_cb cb, void *clo)
{
	/* an empty string and no string are the same observation for names */
	const int ws = w != NULL && *w, gs = g != NULL && *g;
	if (ws != gs || (ws && strcmp(w, g))) {
		cb(fld, c05_how(ws, gs), ws ? w : "(unset)", gs ? g : "(unset)", clo);
	}
}

static void
c05_cmp_i(int fld, int w, int g, int unset, c05_diff_cb cb, void *clo)
{
	if (w != g) {
		char bw[24], bg[24];
		snprintf(bw, sizeof(bw), "%d", w);
		snprintf(bg, sizeof(bg), "%d", g);
		cb(fld, c05_how(w != unset, g != unset), w == unset ? "(unset)" : bw, g == unset ? "(unset)" : bg, clo);
	}
}

#define C05_CMP_OWNER	1
#define C05_CMP_UID	2
#define C05_CMP_MRUN_EFFECTIVE	4	/* README: MAIL-RUN is implied by MAIL-OUT / MAIL-ERR */

/* WANT vs GOT, one callback per differing attribute; returns the number of differences */
static int
c05_cmp_obs(const struct c05_obs *w, const struct c05_obs *g, int flags, c05_diff_cb cb, void *clo)
{
	int ndiff = 0;
#define CMP_S(f, a)	do { const int ws = w->a && *w->a, gs = g->a && *g->a; \
		if (ws != gs || (ws && strcmp(w->a, g->a))) { ndiff++; c05_cmp_s(f, w->a, g->a, cb, clo); } } while (0)
#define CMP_I(f, a, u)	do { if (w->a != g->a) { ndiff++; c05_cmp_i(f, w->a, g->a, u, cb, clo); } } while (0)
	if (flags & C05_CMP_UID) {
		CMP_S(F_UID, uid);
	}
	CMP_S(F_SUMM, cmd);
	CMP_S(F_ORG, org);
	if (w->natt != g->natt) {
		char bw[24], bg[24];
		snprintf(bw, sizeof(bw), "%d addresses", w->natt);
		snprintf(bg, sizeof(bg), "%d addresses", g->natt);
		ndiff++;
		cb(F_ATT1, w->natt > g->natt ? "lost" : "spurious", bw, bg, clo);
	} else {
		for (int i = 0; i < w->natt && i < C05_NATT; i++) {
			if (strcmp(w->att[i], g->att[i])) {
				ndiff++;
				cb(F_ATT1, "changed", w->att[i], g->att[i], clo);
				break;
			}
		}
	}
	CMP_S(F_LOC, wd);
	CMP_S(F_SHELL, sh);
	CMP_S(F_IFILE, in);
	CMP_S(F_OFILE, out);
	CMP_S(F_EFILE, err);
	CMP_I(F_MOUT, mout, 0);
	CMP_I(F_MERR, merr, 0);
	if (flags & C05_CMP_MRUN_EFFECTIVE) {
		const int we = (w->mrun | w->mout | w->merr) & 1, ge = (g->mrun | g->mout | g->merr) & 1;
		if (we != ge) {
			ndiff++;
			cb(F_MRUN, c05_how(we, ge), we ? "mail on run" : "no mail on run", ge ? "mail on run" : "no mail on run", clo);
		}
	} else {
		CMP_I(F_MRUN, mrun, 0);
	}
	CMP_I(F_MAXSIM, maxsim, -1);
	CMP_I(F_UMASK, umask, -1);
	CMP_S(F_SUID, suid);
	CMP_S(F_SGID, sgid);
	if (flags & C05_CMP_OWNER) {
		CMP_S(F_OWNER, owner);
	}
#undef CMP_S
#undef CMP_I
	return ndiff;
}

/* ---------- the README model of the field mapping ---------- */
/* two value variants: [0] everyday values, [1] boundary values (zeros, names, no mailto:) */
static const char *const c05_fval[C05_NFLD][2] = {
	[F_SUMM] = {"/usr/bin/true --flag a", "echo b"},
	[F_ORG] = {"mailto:cron@example.com", "root@localhost"},
	[F_ATT1] = {"mailto:ops@example.com", "alice@localhost"},
	[F_ATT2] = {"mailto:dev@example.com", "bob@localhost"},
	[F_LOC] = {"/var/tmp", "/"},
	[F_SHELL] = {"/bin/bash", "/bin/dash"},
	[F_IFILE] = {"/tmp/c05.in", "/dev/null"},
	[F_OFILE] = {"/tmp/c05.out", "out.b"},
	[F_EFILE] = {"/tmp/c05.err", "err.b"},
	[F_MOUT] = {"1", "0"},
	[F_MERR] = {"1", "0"},
	[F_MRUN] = {"1", "0"},
	[F_MAXSIM] = {"2", "0"},
	[F_UMASK] = {"022", "0"},
	[F_SUID] = {"1000", "0"},
	[F_SGID] = {"100", "nogroup"},
};
/* calendar-level defaults, different from every event-level value */
static const char *const c05_calval[2][5] = {
	{"7", "077", "2000", "200", "1234"},
	{"61", "0777", "caluser", "calgroup", "calowner"},
};
static const char *const c05_calname[5] = {
	"X-ECHS-MAX-SIMUL", "X-ECHS-UMASK", "X-ECHS-SETUID", "X-ECHS-SETGID", "X-ECHS-OWNER",
};

static const char*
c05_addr(const char *v)
{
	return !strncmp(v, "mailto:", 7) ? v + 7 : v;
}

static void
c05_idstr(char *buf, size_t bsz, const char *v)
{
	/* a user/group is a number or a name */
	char *on;
	unsigned long n = strtoul(v, &on, 10);
	if (*v && !*on) {
		snprintf(buf, bsz, "#%lu", n);
	} else {
		snprintf(buf, bsz, "%s", v);
	}
}

/* calendar text of one event carrying the fields in MASK (values of variant VAR, written in
 * reverse order if REV) under calendar-level defaults (CAL) with schedule lines SCHED */
static size_t
c05_fields_text(char *buf, size_t bsz, const char *uid, unsigned mask, int var, int rev, int cal, const char *sched)
{
	size_t o = 0;
	o += (size_t)snprintf(buf + o, bsz - o, "BEGIN:VCALENDAR\nVERSION:2.0\n");
	if (cal) {
		for (int i = 0; i < 5; i++) {
			o += (size_t)snprintf(buf + o, bsz - o, "%s:%s\n", c05_calname[i], c05_calval[var][i]);
		}
	}
	o += (size_t)snprintf(buf + o, bsz - o, "BEGIN:VEVENT\nUID:%s\n", uid);
	if (!rev) {
		o += (size_t)snprintf(buf + o, bsz - o, "%s", sched);
	}
	for (int j = 0; j < C05_NFLD; j++) {
		const int f = rev ? C05_NFLD - 1 - j : j;
		if (mask >> f & 1U) {
			o += (size_t)snprintf(buf + o, bsz - o, "%s:%s\n", c05_fname[f], c05_fval[f][var]);
		}
	}
	if (rev) {
		o += (size_t)snprintf(buf + o, bsz - o, "%s", sched);
	}
	o += (size_t)snprintf(buf + o, bsz - o, "END:VEVENT\nEND:VCALENDAR\n");
	return o;
}

/* what the README table says the task read from that text is */
static void
c05_fields_expect(struct c05_obs *x, const char *uid, unsigned mask, int var, int rev, int cal)
{
#define HAS(f)	(mask >> (f) & 1U)
#define VAL(f)	(c05_fval[f][var])
	memset(x, 0, sizeof(*x));
	x->uid = uid;
	x->cmd = HAS(F_SUMM) ? VAL(F_SUMM) : NULL;
	x->org = HAS(F_ORG) ? c05_addr(VAL(F_ORG)) : NULL;
	{
		const int first = rev ? F_ATT2 : F_ATT1, second = rev ? F_ATT1 : F_ATT2;
		if (HAS(first)) x->att[x->natt++] = c05_addr(VAL(first));
		if (HAS(second)) x->att[x->natt++] = c05_addr(VAL(second));
	}
	x->wd = HAS(F_LOC) ? VAL(F_LOC) : NULL;
	x->sh = HAS(F_SHELL) ? VAL(F_SHELL) : NULL;
	x->in = HAS(F_IFILE) ? VAL(F_IFILE) : NULL;
	x->out = HAS(F_OFILE) ? VAL(F_OFILE) : NULL;
	x->err = HAS(F_EFILE) ? VAL(F_EFILE) : NULL;
	x->mout = HAS(F_MOUT) ? 2 | (VAL(F_MOUT)[0] != '0') : 0;
	x->merr = HAS(F_MERR) ? 2 | (VAL(F_MERR)[0] != '0') : 0;
	x->mrun = HAS(F_MRUN) ? 2 | (VAL(F_MRUN)[0] != '0') : 0;
	x->maxsim = HAS(F_MAXSIM) ? (int)strtol(VAL(F_MAXSIM), NULL, 10) : cal ? (int)strtol(c05_calval[var][0], NULL, 10) : -1;
	x->umask = HAS(F_UMASK) ? (int)strtol(VAL(F_UMASK), NULL, 8) : cal ? (int)strtol(c05_calval[var][1], NULL, 8) : -1;
	if (HAS(F_SUID)) c05_idstr(x->suid, sizeof(x->suid), VAL(F_SUID));
	else if (cal) c05_idstr(x->suid, sizeof(x->suid), c05_calval[var][2]);
	if (HAS(F_SGID)) c05_idstr(x->sgid, sizeof(x->sgid), VAL(F_SGID));
	else if (cal) c05_idstr(x->sgid, sizeof(x->sgid), c05_calval[var][3]);
	if (cal) c05_idstr(x->owner, sizeof(x->owner), c05_calval[var][4]);
#undef HAS
#undef VAL
}

/* human-readable list of the fields in MASK */
static const char*
c05_maskstr(char *buf, size_t bsz, unsigned mask)
{
	size_t o = 0;
	static const char *const shortn[C05_NFLD] = {"SUMMARY", "ORGANIZER", "ATTENDEE#1", "ATTENDEE#2", "LOCATION", "SHELL",
		"IFILE", "OFILE", "EFILE", "MAIL-OUT", "MAIL-ERR", "MAIL-RUN", "MAX-SIMUL", "UMASK", "SETUID", "SETGID"};
	buf[0] = '\0';
	for (int f = 0; f < C05_NFLD; f++) {
		if (mask >> f & 1U) {
			o += (size_t)snprintf(buf + o, bsz - o, "%s%s", o ? "," : "", shortn[f]);
		}
	}
	if (!o) snprintf(buf, bsz, "(none)");
	return buf;
}

/* ---------- serialising ---------- */
static int c05_tmpfd = -1;

static int
c05_open_tmp(void)
{
	if (c05_tmpfd < 0) {
		char fn[] = "/dev/shm/c05_XXXXXX";
		char fn2[] = "/tmp/c05_XXXXXX";
		if ((c05_tmpfd = mkstemp(fn)) >= 0) {
			unlink(fn);
		} else if ((c05_tmpfd = mkstemp(fn2)) >= 0) {
			unlink(fn2);
		}
	}
	return c05_tmpfd;
}

#define C05_FORM_ECHSQ	0	/* echs_icalify_init(fd, {SCHE}) -- echsq add, echsd's /sched reply */
#define C05_FORM_ECHSD	1	/* echs_icalify_init(fd, {SCHE, .t = first task}) -- echsd's checkpoint file */

/* write tasks T[0..NT) as one calendar, read the text back into BUF; returns its length or -1 */
static ssize_t
c05_seria(char *buf, size_t bsz, const echs_task_t *t, size_t nt, int form)
{
	const int fd = c05_open_tmp();
	ssize_t n;

	if (fd < 0 || ftruncate(fd, 0) < 0 || lseek(fd, 0, SEEK_SET) < 0) {
		return -1;
	}
	if (form == C05_FORM_ECHSD && nt) {
		echs_instruc_t ins = {INSVERB_SCHE, 0U, .t = t[0]};
		echs_icalify_init(fd, ins);
	} else {
		echs_icalify_init(fd, (echs_instruc_t){INSVERB_SCHE});
	}
	for (size_t i = 0; i < nt; i++) {
		echs_task_icalify(fd, t[i]);
	}
	echs_icalify_fini(fd);
	if ((n = pread(fd, buf, bsz - 1, 0)) < 0) {
		return -1;
	}
	buf[n] = '\0';
	return n;
}

/* ---------- streams ---------- */
struct c05_occ {
	uint64_t from;
	int64_t dur;
};

/* pop up to MAX occurrences; *MORE says whether the stream went on */
static int
c05_drain(echs_evstrm_t s, struct c05_occ *o, int max, int *more)
{
	int n = 0;
	*more = 0;
	if (s == NULL) {
		return 0;
	}
	for (;;) {
		echs_event_t e = echs_evstrm_pop(s);
		if (echs_nul_event_p(e)) {
			break;
		}
		if (n >= max || (e.from.y & 0x0fffU) > C05_MAXYEAR) {
			*more = 1;
			break;
		}
		o[n].from = e.from.u;
		o[n].dur = e.dur.d;
		n++;
	}
	return n;
}

static const char*
c05_ustr(char *buf, size_t bsz, uint64_t u)
{
	echs_instant_t i;
	i.u = u;
	return inst_str(buf, bsz, i);
}

/* class of a consumption prefix K for a stream of N occurrences (N < 0: unbounded) */
static const char*
c05_kclass(int k, int n)
{
	if (n >= 0 && k >= n - 1) {
		return "end";
	} else if (k == 0) {
		return "0";
	} else if ((k % 63 <= 2 || k % 63 >= 61 || k % 64 <= 1 || k % 64 >= 63) && k >= 61) {
		/* the cache holds 64 instants of which 63 are handed out per refill */
		return "at-refill";
	}
	return "mid-cache";
}

/* ---------- naming what changed ---------- */
/* value of KEY in the NTH "<PROP>:" line of TEXT, tokens sorted, leading '+' dropped; 0 if absent */
static int
c05_rulepart(char *out, size_t osz, const char *text, const char *prop, int nth, const char *key)
{
	const size_t pl = strlen(prop), kl = strlen(key);
	const char *p = text;
	char tok[64][24];
	int ntok = 0;

	out[0] = '\0';
	for (;; p++) {
		/* find the next line starting with PROP: */
		if (!strncmp(p, prop, pl) && p[pl] == ':' && (p == text || p[-1] == '\n')) {
			if (!nth--) {
				break;
			}
		}
		if ((p = strchr(p, '\n')) == NULL) {
			return 0;
		}
	}
	p += pl + 1;
	for (;;) {
		if (!strncmp(p, key, kl) && p[kl] == '=') {
			p += kl + 1;
			break;
		}
		while (*p && *p != ';' && *p != '\n') p++;
		if (*p != ';') {
			return 0;
		}
		p++;
	}
	while (*p && *p != ';' && *p != '\n' && ntok < 64) {
		size_t l = 0;
		if (*p == '+') p++;
		while (*p && *p != ',' && *p != ';' && *p != '\n') {
			if (l < sizeof(tok[0]) - 1) tok[ntok][l++] = *p;
			p++;
		}
		tok[ntok++][l] = '\0';
		if (*p == ',') p++;
	}
	if (!strcmp(key, "SCALE") && ntok == 1 && !strcmp(tok[0], "HIJRI")) {
		/* README: SCALE=HIJRI is the Umm al-Qura calendar, which is how it is written back */
		snprintf(tok[0], sizeof(tok[0]), "HIJRI.UMMULQURA");
	}
	qsort(tok, (size_t)ntok, sizeof(tok[0]), (int(*)(const void*, const void*))strcmp);
	for (int i = 0; i < ntok; i++) {
		size_t l = strlen(out);
		snprintf(out + l, osz - l, "%s%s", i ? "," : "", tok[i]);
	}
	return 1;
}

static int
c05_nlines(const char *text, const char *prop)
{
	const size_t pl = strlen(prop);
	int n = 0;
	for (const char *p = text; p != NULL && *p; p = strchr(p, '\n'), p = p ? p + 1 : p) {
		if (!strncmp(p, prop, pl) && (p[pl] == ':' || p[pl] == ';')) {
			n++;
		}
	}
	return n;
}

/* does the parser under test understand the serialiser's own spelling BYPOS? (asked once, to name causes only) */
static int
c05_reads_bypos(void)
{
	static int known = -1;
	if (known < 0) {
		echs_task_t t = ical_task1("BEGIN:VCALENDAR\nBEGIN:VEVENT\nUID:c05-probe\nSUMMARY:x\nDTSTART;VALUE=DATE:20240101\n"
					   "RRULE:FREQ=YEARLY;BYMONTH=1;BYMONTHDAY=1,2;BYPOS=1;COUNT=4\nEND:VEVENT\nEND:VCALENDAR\n");
		known = 0;
		if (t != NULL) {
			if (t->strm != NULL) {
				(void)echs_evstrm_pop(t->strm);
				echs_event_t e = echs_evstrm_pop(t->strm);
				/* with BYPOS honoured the second occurrence is 1 January of the next year */
				known = !echs_nul_event_p(e) && (e.from.d & 0x3fU) == 1U;
			}
			free_echs_task(t);
		}
	}
	return known;
}

/* the property or rule part of ORIG (schedule lines) that did not make it into WRITTEN unchanged;
 * only used to name a difference the stream comparison has already established */
static const char*
c05_whatchanged(const char *orig, const char *written, int na, int nb, int cut)
{
	static const char *const parts[] = {"BYSETPOS", "BYSECOND", "BYMINUTE", "BYHOUR", "BYDAY", "BYMONTHDAY", "BYYEARDAY",
		"BYWEEKNO", "BYMONTH", "BYEASTER", "INTERVAL", "SCALE", "SHIFT", "UNTIL", "FREQ", NULL};
	static const char *const props[] = {"RRULE", "EXRULE", NULL};
	char a[512], b[512];

	for (const char *const *pr = props; *pr; pr++) {
		const int nr = c05_nlines(orig, *pr);
		if (nr && c05_nlines(written, *pr) != nr) {
			return *pr;
		}
		for (int r = 0; r < nr; r++) {
			for (const char *const *k = parts; *k; k++) {
				const int ha = c05_rulepart(a, sizeof(a), orig, *pr, r, *k);
				int hb = c05_rulepart(b, sizeof(b), written, *pr, r, *k);
				if (!hb && !strcmp(*k, "BYSETPOS") && c05_reads_bypos()) {
					/* the serialiser's spelling, fine if the parser reads it */
					hb = c05_rulepart(b, sizeof(b), written, *pr, r, "BYPOS");
				}
				if (ha != hb || (ha && strcmp(a, b))) {
					return *k;
				}
			}
		}
	}
	if (c05_nlines(orig, "EXDATE") && !c05_nlines(written, "EXDATE")) {
		return "EXDATE";
	}
	if (c05_nlines(orig, "RDATE") && !c05_nlines(written, "RDATE")) {
		return "RDATE";
	}
	if (c05_nlines(written, "DTSTART") > 1) {
		return "DTSTART-twice";
	}
	if (c05_nlines(orig, "RRULE") > 1) {
		return "DTSTART-shared";
	}
	if (cut >= (na < nb ? na : nb) && na != nb && strstr(orig, "COUNT=") != NULL) {
		return "COUNT";
	}
	return "occurrences";
}

/* ---------- the schedules of the position sweep (beyond the C01 grammar slice) ---------- */
struct c05_sched_s {
	const char *kind;
	const char *lines;
};

static const struct c05_sched_s c05_ext[] = {
	/* plain events */
	{"single", "DTSTART:20240301T120000Z\n"},
	{"single", "DTSTART;VALUE=DATE:20240301\nDURATION:P1D\n"},
	{"duration", "DTSTART:20240101T090000Z\nDURATION:PT1H30M\nRRULE:FREQ=DAILY\n"},
	{"duration", "DTSTART:20240101T090000Z\nDTEND:20240101T170000Z\nRRULE:FREQ=WEEKLY;BYDAY=MO,WE,FR\n"},
	{"duration", "DTSTART;VALUE=DATE:20240101\nDURATION:P1D\nRRULE:FREQ=MONTHLY;BYMONTHDAY=1,15\n"},
	/* COUNT around the cache size of 64 */
	{"count", "DTSTART:20240101T090000Z\nRRULE:FREQ=DAILY;COUNT=1\n"},
	{"count", "DTSTART:20240101T090000Z\nRRULE:FREQ=DAILY;COUNT=2\n"},
	{"count", "DTSTART:20240101T090000Z\nRRULE:FREQ=DAILY;COUNT=3\n"},
	{"count", "DTSTART:20240101T090000Z\nRRULE:FREQ=DAILY;COUNT=62\n"},
	{"count", "DTSTART:20240101T090000Z\nRRULE:FREQ=DAILY;COUNT=63\n"},
	{"count", "DTSTART:20240101T090000Z\nRRULE:FREQ=DAILY;COUNT=64\n"},
	{"count", "DTSTART:20240101T090000Z\nRRULE:FREQ=DAILY;COUNT=65\n"},
	{"count", "DTSTART:20240101T090000Z\nRRULE:FREQ=DAILY;COUNT=66\n"},
	{"count", "DTSTART:20240101T090000Z\nRRULE:FREQ=DAILY;COUNT=126\n"},
	{"count", "DTSTART:20240101T090000Z\nRRULE:FREQ=DAILY;COUNT=127\n"},
	{"count", "DTSTART:20240101T090000Z\nRRULE:FREQ=DAILY;COUNT=130\n"},
	{"count", "DTSTART:20240101T090000Z\nRRULE:FREQ=DAILY;BYHOUR=9,17;COUNT=130\n"},
	{"count", "DTSTART;VALUE=DATE:20000304\nRRULE:FREQ=YEARLY;BYMONTH=3,10;BYMONTHDAY=4,6;COUNT=70\n"},
	{"count", "DTSTART:20240101T090000Z\nRRULE:FREQ=WEEKLY;INTERVAL=2;BYDAY=MO,FR;COUNT=100\n"},
	{"count", "DTSTART:20240131T090000Z\nRRULE:FREQ=MONTHLY;COUNT=70\n"},
	/* UNTIL */
	{"until", "DTSTART:20240101T090000Z\nRRULE:FREQ=DAILY;UNTIL=20240410T090000Z\n"},
	{"until", "DTSTART:20240101T090000Z\nRRULE:FREQ=DAILY;UNTIL=20240305T085959Z\n"},
	{"until", "DTSTART;VALUE=DATE:20240101\nRRULE:FREQ=WEEKLY;UNTIL=20251231\n"},
	{"until", "DTSTART:20240101T000000Z\nRRULE:FREQ=HOURLY;BYMINUTE=0,15;UNTIL=20240104T000000Z\n"},
	/* BYSETPOS */
	{"setpos", "DTSTART:20240131T090000Z\nRRULE:FREQ=MONTHLY;BYDAY=MO,TU,WE,TH,FR;BYSETPOS=-1\n"},
	{"setpos", "DTSTART:20240102T090000Z\nRRULE:FREQ=MONTHLY;BYDAY=MO,TU,WE,TH,FR;BYSETPOS=2\n"},
	{"setpos", "DTSTART;VALUE=DATE:20001220\nRRULE:FREQ=YEARLY;BYMONTH=12;BYMONTHDAY=20,22,24,25,26,27,28,29,30,31;BYSETPOS=1,4,-1,-3;COUNT=20\n"},
	{"setpos", "DTSTART;VALUE=DATE:20240101\nRRULE:FREQ=YEARLY;BYDAY=MO;BYSETPOS=1,-1\n"},
	/* BYMINUTE / BYSECOND values beyond 30 */
	{"minute>=31", "DTSTART:20240101T000000Z\nRRULE:FREQ=HOURLY;BYMINUTE=0,45\n"},
	{"minute>=31", "DTSTART:20240101T004500Z\nRRULE:FREQ=HOURLY;BYMINUTE=45\n"},
	{"minute>=31", "DTSTART:20240101T003000Z\nRRULE:FREQ=DAILY;BYMINUTE=30,31,59\n"},
	{"minute<31", "DTSTART:20240101T000000Z\nRRULE:FREQ=HOURLY;BYMINUTE=0,15,30\n"},
	{"second>=31", "DTSTART:20240101T000000Z\nRRULE:FREQ=MINUTELY;BYSECOND=0,45\n"},
	{"second>=31", "DTSTART:20240101T000031Z\nRRULE:FREQ=MINUTELY;BYSECOND=31\n"},
	{"second>=31", "DTSTART:20240101T000030Z\nRRULE:FREQ=HOURLY;BYSECOND=30,59;COUNT=150\n"},
	{"second<31", "DTSTART:20240101T000000Z\nRRULE:FREQ=MINUTELY;BYSECOND=0,30\n"},
	/* two RRULEs */
	{"two-rrules", "DTSTART:20240101T090000Z\nRRULE:FREQ=DAILY;COUNT=5\nRRULE:FREQ=WEEKLY;COUNT=80\n"},
	{"two-rrules", "DTSTART:20240115T090000Z\nRRULE:FREQ=MONTHLY\nRRULE:FREQ=WEEKLY\n"},
	{"two-rrules", "DTSTART;VALUE=DATE:20000228\nRRULE:FREQ=YEARLY;BYMONTH=12;BYMONTHDAY=20,22,24;COUNT=20\nRRULE:FREQ=YEARLY;BYMONTH=2;BYMONTHDAY=20,22,28;COUNT=20\n"},
	{"two-rrules", "DTSTART:20240101T090000Z\nRRULE:FREQ=DAILY;BYHOUR=9\nRRULE:FREQ=DAILY;BYHOUR=17\n"},
	/* RDATE lists */
	{"rdate", "DTSTART:20240101T090000Z\nRDATE:20240105T090000Z,20240107T100000Z,20240301T000000Z\n"},
	{"rdate", "DTSTART:20240101T090000Z\nRDATE:20240105T090000Z\nRDATE:20240107T100000Z,20240109T100000Z\n"},
	{"rdate", "DTSTART;VALUE=DATE:20240101\nRDATE;VALUE=DATE:20240105,20240212,20241224\n"},
	{"rrule+rdate", "DTSTART:20240101T090000Z\nRRULE:FREQ=WEEKLY\nRDATE:20240105T090000Z,20240107T100000Z\n"},
	{"rrule+rdate", "DTSTART:20240101T090000Z\nRRULE:FREQ=DAILY;COUNT=100\nRDATE:20240601T090000Z\n"},
	/* EXDATE / EXRULE */
	{"exdate", "DTSTART:20240101T090000Z\nRRULE:FREQ=DAILY;COUNT=10\nEXDATE:20240104T090000Z\n"},
	{"exdate", "DTSTART:20240101T090000Z\nRRULE:FREQ=DAILY\nEXDATE:20240104T090000Z,20240310T090000Z,20240601T090000Z\n"},
	{"exdate", "DTSTART;VALUE=DATE:20240101\nRRULE:FREQ=WEEKLY;COUNT=80\nEXDATE;VALUE=DATE:20240108,20250106\n"},
	{"exrule", "DTSTART:20240101T090000Z\nRRULE:FREQ=DAILY;COUNT=100\nEXRULE:FREQ=DAILY;INTERVAL=2\n"},
	{"exrule", "DTSTART:20240101T090000Z\nRRULE:FREQ=DAILY\nEXRULE:FREQ=WEEKLY;BYDAY=SA,SU\n"},
	/* TZID */
	{"tzid", "DTSTART;TZID=Europe/Berlin:20240101T090000\nRRULE:FREQ=DAILY\n"},
	{"tzid", "DTSTART;TZID=America/New_York:20240105T170000\nDURATION:PT2H\nRRULE:FREQ=WEEKLY;COUNT=100\n"},
	{"tzid", "DTSTART;TZID=Europe/Berlin:20240301T023000\nRRULE:FREQ=DAILY;UNTIL=20240701T000000Z\n"},
	{"tzid", "DTSTART;TZID=Australia/Sydney:20240101T080000\nRRULE:FREQ=MONTHLY;BYMONTHDAY=1,15\n"},
	{"tzid", "DTSTART;TZID=Europe/Berlin:20240612T150000\n"},
	/* SCALE */
	{"scale", "DTSTART;VALUE=DATE;SCALE=HIJRI:14200101\nDURATION:P1D\nRRULE:FREQ=YEARLY;SCALE=HIJRI;BYMONTH=10;BYMONTHDAY=1;COUNT=20\n"},
	{"scale", "DTSTART;VALUE=DATE:20000209\nDURATION:P1D\nRRULE:FREQ=MONTHLY;SCALE=HIJRI;COUNT=80\n"},
	{"scale", "DTSTART;VALUE=DATE;SCALE=HIJRI.IA:14200101\nRRULE:FREQ=YEARLY;SCALE=HIJRI.IA;BYMONTH=12;BYMONTHDAY=-1;COUNT=21\n"},
	{"scale", "DTSTART;VALUE=DATE;SCALE=HIJRI:14370229\nDURATION:P1D\n"},
	/* SHIFT */
	{"shift", "DTSTART;VALUE=DATE:19860101\nRRULE:FREQ=YEARLY;BYMONTH=5;BYDAY=-1MO;SHIFT=7\n"},
	{"shift", "DTSTART;VALUE=DATE:19860101\nRRULE:FREQ=YEARLY;BYMONTH=11;BYDAY=1MO;SHIFT=70\n"},
	{"shift", "DTSTART;VALUE=DATE:20180101\nRRULE:FREQ=MONTHLY;BYMONTHDAY=15;SHIFT=1B;COUNT=70\n"},
	{"shift", "DTSTART;VALUE=DATE:20180101\nRRULE:FREQ=MONTHLY;BYMONTHDAY=15;SHIFT=1B+;COUNT=12\n"},
	{"shift", "DTSTART;VALUE=DATE:20180101\nRRULE:FREQ=MONTHLY;BYMONTHDAY=1;SHIFT=-0B\n"},
	{"shift", "DTSTART;VALUE=DATE:20180101\nRRULE:FREQ=MONTHLY;BYMONTHDAY=-1;SHIFT=-1\n"},
	/* BYEASTER */
	{"easter", "DTSTART;VALUE=DATE:20000229\nRRULE:FREQ=YEARLY;BYEASTER=0,1;COUNT=48\n"},
	{"easter", "DTSTART;VALUE=DATE:20000229\nRRULE:FREQ=YEARLY;BYEASTER=-2\n"},
	{"easter", "DTSTART;VALUE=DATE:20240331\nRRULE:FREQ=YEARLY;BYEASTER=0,49\n"},
};
#define C05_NEXT	((int)(sizeof(c05_ext) / sizeof(*c05_ext)))

/* the shared attributes every position-sweep task carries, so that "attributes equal" is not vacuous */
#define C05_POS_ATTRS	((1U << F_SUMM) | (1U << F_ORG) | (1U << F_ATT1) | (1U << F_OFILE) | (1U << F_MOUT) | \
			 (1U << F_MAXSIM) | (1U << F_UMASK) | (1U << F_SUID) | (1U << F_SGID) | (1U << F_LOC) | (1U << F_SHELL))

/* ---------- one round trip at position K ---------- */
struct c05_rt_s {
	int nremain;		/* occurrences A had left (capped) */
	int nreread;
	int differ;		/* streams differ */
	int cut;		/* index of first difference */
	int durdiffer;
	int rejected;		/* text written but no task read back */
	int ntasks;		/* tasks read back */
	int ghost;		/* nothing left but a task with occurrences was read back */
	const char *what;	/* name of what changed, when differ */
	char detail[400];
	char written[8192];
};

typedef void (*c05_attr_cb)(int fld, const char *how, const char *want, const char *got, void *clo);

/* TEXT: calendar with one event; K pops; write (FORM); re-read; compare.
 * returns -1 if TEXT yields no task at all, 1 if the K pops left the horizon (nothing compared) */
static int
c05_roundtrip(struct c05_rt_s *r, const char *text, const char *sched, int k, int form, c05_attr_cb acb, void *clo)
{
	static struct c05_occ oa[C05_MAXOCC + 1], ob[C05_MAXOCC + 1];
	echs_task_t a, b[2];
	struct c05_obs xa, xb;
	int morea = 0, moreb = 0, na, nb = 0;
	size_t ntb;
	ssize_t wl;
	char b1[32], b2[32];

	memset(r, 0, offsetof(struct c05_rt_s, written));
	r->written[0] = '\0';
	if ((a = ical_task1(text)) == NULL) {
		return -1;
	}
	for (int i = 0; i < k && a->strm != NULL; i++) {
		echs_event_t e = echs_evstrm_pop(a->strm);
		if (echs_nul_event_p(e)) {
			break;
		} else if ((e.from.y & 0x0fffU) > C05_MAXYEAR) {
			/* consumed beyond the horizon of the comparison (and, for sparse rules, towards the
			 * end of the 12-bit year range where streams wrap): nothing to judge here */
			free_echs_task(a);
			return 1;
		}
	}
	{
		const echs_task_t one[1] = {a};
		wl = c05_seria(r->written, sizeof(r->written), one, 1U, form);
	}
	c05_observe(&xa, a);
	na = c05_drain(a->strm, oa, C05_MAXOCC, &morea);
	r->nremain = na;
	ntb = wl > 0 ? ical_tasks(b, 2U, r->written, (size_t)wl) : 0U;
	r->ntasks = (int)ntb;
	if (ntb >= 1U) {
		nb = c05_drain(b[0]->strm, ob, C05_MAXOCC, &moreb);
	}
	r->nreread = nb;
	if (na == 0) {
		/* nothing left: nothing must come back */
		if (nb > 0) {
			r->ghost = 1;
			snprintf(r->detail, sizeof(r->detail), "all occurrences consumed, yet the written text yields %d more, first %s",
				 nb, c05_ustr(b1, sizeof(b1), ob[0].from));
		}
	} else if (ntb == 0U) {
		r->rejected = 1;
		snprintf(r->detail, sizeof(r->detail), "%d occurrences left (next %s) but the written text yields no task",
			 na, c05_ustr(b1, sizeof(b1), oa[0].from));
	} else {
		int i;
		const int nmin = na < nb ? na : nb;
		for (i = 0; i < nmin && oa[i].from == ob[i].from; i++);
		if (i < nmin || na != nb || morea != moreb) {
			r->differ = 1;
			r->cut = i;
			r->what = c05_whatchanged(sched, r->written, na, nb, i);
			snprintf(r->detail, sizeof(r->detail), "remaining occurrence #%d: original %s, re-read %s (original has %d%s left, re-read %d%s)",
				 i, i < na ? c05_ustr(b1, sizeof(b1), oa[i].from) : "(end)",
				 i < nb ? c05_ustr(b2, sizeof(b2), ob[i].from) : "(end)", na, morea ? "+" : "", nb, moreb ? "+" : "");
		} else {
			for (i = 0; i < nmin && oa[i].dur == ob[i].dur; i++);
			if (i < nmin) {
				r->durdiffer = 1;
				r->cut = i;
				snprintf(r->detail, sizeof(r->detail), "duration of remaining occurrence #%d (%s): original %lld ms, re-read %lld ms",
					 i, c05_ustr(b1, sizeof(b1), oa[i].from), (long long)oa[i].dur, (long long)ob[i].dur);
			}
		}
		/* attributes */
		c05_observe(&xb, b[0]);
		c05_cmp_obs(&xa, &xb, C05_CMP_UID | (form == C05_FORM_ECHSD ? C05_CMP_OWNER : 0), acb, clo);
	}
	for (size_t i = 0; i < ntb; i++) {
		free_echs_task(b[i]);
	}
	free_echs_task(a);
	return 0;
}
#endif
