/* lviol.h -- per-case aggregation of violations for drivers whose cases loop
 * over very many inputs (C08, C18).
 *
 * A violating input is classified into a small integer id by the driver; the
 * first input per id inside a case keeps its signature and detail text, the
 * others are only counted.  lv_flush() at the end of the case turns each id
 * into one vd_viol() (so signature counts are per case, the number of
 * violating inputs goes into the detail text and the counter
 * `violating_inputs').  Deterministic: depends only on the case.
 */
#if !defined INCLUDED_lviol_h_
#define INCLUDED_lviol_h_
#include "vdrv.h"

#define LV_MAX	8192

static struct {
	long n;
	char sig[120];
	char det[600];
} lv_tab[LV_MAX];
static int lv_used[LV_MAX];
static int lv_nused;

/* count a violating input of class ID; true if it is the first of its class in this case */
static inline int
lv_hit(int id)
{
	if (lv_tab[id].n++) {
		return 0;
	}
	lv_used[lv_nused++] = id;
	return 1;
}

static void __attribute__((format(printf, 3, 4)))
lv_set(int id, const char *sig, const char *fmt, ...)
{
	va_list ap;
	snprintf(lv_tab[id].sig, sizeof(lv_tab[id].sig), "%s", sig);
	va_start(ap, fmt);
	vsnprintf(lv_tab[id].det, sizeof(lv_tab[id].det), fmt, ap);
	va_end(ap);
}

static void
lv_flush(void)
{
	for (int i = 0; i < lv_nused; i++) {
		int id = lv_used[i];
		vd_viol(lv_tab[id].sig, "%s [%ld violating input(s) of this class in the case]",
			lv_tab[id].det, lv_tab[id].n);
		vd_count("violating_inputs", lv_tab[id].n);
		lv_tab[id].n = 0;
	}
	lv_nused = 0;
}
#endif	/* INCLUDED_lviol_h_ */
