/* computus.h -- Gregorian Easter Sunday, the "anonymous Gregorian algorithm"
 * (Meeus/Jones/Butcher; Nature 1876) as printed in Meeus, Astronomical
 * Algorithms ch. 8.  Valid for every year of the Gregorian calendar.
 * Reference for C17; nothing here is derived from /repo/src.
 */
#if !defined INCLUDED_computus_h_
#define INCLUDED_computus_h_

struct cmp_md_s {
	int m;
	int d;
};

static inline struct cmp_md_s
cmp_easter(int year)
{
	const int a = year % 19;
	const int b = year / 100;
	const int c = year % 100;
	const int d = b / 4;
	const int e = b % 4;
	const int f = (b + 8) / 25;
	const int g = (b - f + 1) / 3;
	const int h = (19 * a + b - d - g + 15) % 30;
	const int i = c / 4;
	const int k = c % 4;
	const int l = (32 + 2 * e + 2 * i - h - k) % 7;
	const int m = (a + 11 * h + 22 * l) / 451;
	const int n = h + l - 7 * m + 114;
	return (struct cmp_md_s){n / 31, n % 31 + 1};
}

/* self test against published dates, incl. the years in which simplified
 * rules go wrong (1954, 1981, 2049, 2076) and the extremes (22 March 1818,
 * 25 April 1943/2038); 0 if good */
static inline int
cmp_selftest(void)
{
	static const struct {
		int y, m, d;
	} known[] = {
		{1818, 3, 22}, {1886, 4, 25}, {1901, 4, 7}, {1913, 3, 23}, {1943, 4, 25}, {1954, 4, 18},
		{1961, 4, 2}, {1981, 4, 19}, {2000, 4, 23}, {2008, 3, 23}, {2011, 4, 24}, {2019, 4, 21},
		{2023, 4, 9}, {2024, 3, 31}, {2025, 4, 20}, {2038, 4, 25}, {2049, 4, 18}, {2076, 4, 19},
		{2099, 4, 12}, {2285, 3, 22},
	};
	for (unsigned i = 0; i < sizeof(known) / sizeof(*known); i++) {
		const struct cmp_md_s e = cmp_easter(known[i].y);
		if (e.m != known[i].m || e.d != known[i].d) {
			return -1;
		}
	}
	return 0;
}
#endif
