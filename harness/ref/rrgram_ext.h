/* rrgram_ext.h -- the non-RFC layer on top of rrgram.h, shared by C16 and C09
 *
 * rrgram.h enumerates the RFC 5545 grammar of C01.  This header adds, without
 * touching it, the extension menu of DESIGN.md C16 "E":
 *   SHIFT    in {1,-1,7,-7,40,-40,1B,-1B,5B,-0B,0B+}      (README: add N [business] days)
 *   BYEASTER in {0,-2,49,366,-366}                         (README: N-th day after/before easter)
 *   SCALE    in {HIJRI, HIJRI.IA, HIJRI.IVC, HIJRI.DIYANET}         (README: calendar scale of the rule;
 *                                                            DTSTART;VALUE=DATE;SCALE=HIJRI:14370229 as in test/sample_39.ics)
 *   TZID     in {Europe/Berlin, America/New_York, Australia/Lord_Howe}
 * plus Hijri DTSTART anchors, anchors shortly before DST changes, and the
 * value-kind tags used in signatures.  Nothing here is taken from /repo/src.
 */
#if !defined INCLUDED_rrgram_ext_h_
#define INCLUDED_rrgram_ext_h_
#include "rrgram.h"

enum {RX_NONE, RX_SHIFT, RX_EASTER, RX_SCALE, RX_TZID, RX_PAIR};

struct rx_ext_s {
	int kind;
	const char *rpart;	/* appended to the RRULE value, with leading ';' */
	const char *dtpar;	/* DTSTART parameter, with leading ';' */
	const char *tag;	/* signature tag (value class, not raw value) */
	int scale;		/* index into rx_scale_name, 0 = gregorian */
	int zone;		/* index into rx_zone, -1 = floating */
};

/* SCALE values; for the two table calendars the last Gregorian year a stream is followed into
 * (Umm al-Qura table: 1356-1500 AH = 1937-03 .. 2077-11, Diyanet: 1318-1444 AH = 1900-05 .. 2023-01,
 * read from the data files' own header comments and first/last entries) */
struct rx_scale_s {
	const char *name;
	int first_year, last_year;	/* 0: unlimited (arithmetic calendars) */
};
static const struct rx_scale_s rx_scale[] = {
	{"", 0, 0}, {"HIJRI", 1938, 2075}, {"HIJRI.IA", 0, 0}, {"HIJRI.DIYANET", 1901, 2021}, {"HIJRI.IVC", 0, 0},
};

/* last 32-bit transition of the zone file (zdump / TZif v1 block); lookups exactly there
 * are C07's finding (tzraw.c __find_trno), cases that can reach it are left out here */
struct rx_zone_s {
	const char *name;
	const char *tag;
	int lastH, lastM, lastS;
};
static const struct rx_zone_s rx_zone[] = {
	{"Europe/Berlin", "Berlin", 1, 0, 0},		/* 2037-10-25T01:00:00Z */
	{"America/New_York", "New_York", 6, 0, 0},	/* 2037-11-01T06:00:00Z */
	{"Australia/Lord_Howe", "Lord_Howe", 3, 14, 7},	/* 2038-01-19T03:14:07Z */
};
#define RX_NZONE	((int)(sizeof(rx_zone) / sizeof(*rx_zone)))

static const struct rx_ext_s rx_ext[] = {
	{RX_NONE, "", "", "plain", 0, -1},
	/* SHIFT */
	{RX_SHIFT, ";SHIFT=1", "", "SHIFT:day+", 0, -1},
	{RX_SHIFT, ";SHIFT=-1", "", "SHIFT:day-", 0, -1},
	{RX_SHIFT, ";SHIFT=7", "", "SHIFT:day+", 0, -1},
	{RX_SHIFT, ";SHIFT=-7", "", "SHIFT:day-", 0, -1},
	{RX_SHIFT, ";SHIFT=40", "", "SHIFT:day+far", 0, -1},
	{RX_SHIFT, ";SHIFT=-40", "", "SHIFT:day-far", 0, -1},
	{RX_SHIFT, ";SHIFT=1B", "", "SHIFT:bday+", 0, -1},
	{RX_SHIFT, ";SHIFT=-1B", "", "SHIFT:bday-", 0, -1},
	{RX_SHIFT, ";SHIFT=5B", "", "SHIFT:bday+", 0, -1},
	{RX_SHIFT, ";SHIFT=-0B", "", "SHIFT:bday0", 0, -1},
	{RX_SHIFT, ";SHIFT=0B+", "", "SHIFT:bday0", 0, -1},
	/* BYEASTER */
	{RX_EASTER, ";BYEASTER=0", "", "EASTER:zero", 0, -1},
	{RX_EASTER, ";BYEASTER=-2", "", "EASTER:neg", 0, -1},
	{RX_EASTER, ";BYEASTER=49", "", "EASTER:pos", 0, -1},
	{RX_EASTER, ";BYEASTER=366", "", "EASTER:far", 0, -1},
	{RX_EASTER, ";BYEASTER=-366", "", "EASTER:far", 0, -1},
	/* SCALE: the rule and (for the Hijri anchors) DTSTART carry the same scale */
	{RX_SCALE, ";SCALE=HIJRI", ";SCALE=HIJRI", "SCALE:HIJRI", 1, -1},
	{RX_SCALE, ";SCALE=HIJRI.IA", ";SCALE=HIJRI.IA", "SCALE:HIJRI.IA", 2, -1},
	{RX_SCALE, ";SCALE=HIJRI.IVC", ";SCALE=HIJRI.IVC", "SCALE:HIJRI.IVC", 4, -1},
	{RX_SCALE, ";SCALE=HIJRI.DIYANET", ";SCALE=HIJRI.DIYANET", "SCALE:HIJRI.DIYANET", 3, -1},
	/* TZID */
	{RX_TZID, "", ";TZID=Europe/Berlin", "TZID:dst1h", 0, 0},
	{RX_TZID, "", ";TZID=America/New_York", "TZID:dst1h", 0, 1},
	{RX_TZID, "", ";TZID=Australia/Lord_Howe", "TZID:dst30m", 0, 2},
	/* a few fixed pairs (thorough tier) */
	{RX_PAIR, ";BYEASTER=-2;SHIFT=1B", "", "EASTER:neg+SHIFT:bday+", 0, -1},
	{RX_PAIR, ";BYEASTER=49;SHIFT=-40", "", "EASTER:pos+SHIFT:day-far", 0, -1},
	{RX_PAIR, ";SHIFT=-1B", ";TZID=Europe/Berlin", "SHIFT:bday-+TZID:dst1h", 0, 0},
	{RX_PAIR, ";SHIFT=40;SCALE=HIJRI", ";SCALE=HIJRI", "SHIFT:day+far+SCALE:HIJRI", 1, -1},
	{RX_PAIR, ";BYEASTER=0", ";TZID=America/New_York", "EASTER:zero+TZID:dst1h", 0, 1},
};
#define RX_NEXT	((int)(sizeof(rx_ext) / sizeof(*rx_ext)))

/* Which extensions are crossed with which FREQ.  SHIFT is applied by the yearly and monthly
 * expansion only, BYEASTER by the yearly one, SCALE down to DAILY; where a part has no effect
 * one representative of it is still run (the invariants must hold for rules carrying it). */
static int
rx_applies(int freq, const struct rx_ext_s *x, int pairs)
{
	switch (x->kind) {
	case RX_NONE:
	case RX_TZID:
		return 1;
	case RX_SHIFT:
		return freq <= RF_MONTHLY || !strcmp(x->rpart, ";SHIFT=1B");
	case RX_EASTER:
		return freq == RF_YEARLY || (freq == RF_MONTHLY && !strcmp(x->rpart, ";BYEASTER=-2"));
	case RX_SCALE:
		return freq <= RF_DAILY || x->scale == 1;
	case RX_PAIR:
		if (!pairs) return 0;
		if (strstr(x->rpart, "EASTER")) return freq == RF_YEARLY;
		return freq <= RF_MONTHLY;
	}
	return 0;
}

/* Signature shape of a rule under an extension.  Plain rules keep rrgram.h's full shape
 * (FREQ/interval class/parts with value kinds).  Under an extension only the parts that can
 * interact with it are named (time parts for TZID, date parts for SHIFT/BYEASTER/SCALE) and
 * value kinds are dropped, so that one defect of an extension stays at a handful of signatures. */
static const char*
rx_shape(char *buf, size_t bsz, const struct rg_rule_s *g, const struct rx_ext_s *x)
{
	size_t o;
	int k = 0;

	if (x->kind == RX_NONE) {
		snprintf(buf, bsz, "%s", g->shape);
		return buf;
	}
	o = (size_t)snprintf(buf, bsz, "%s/", rg_freqname[g->freq]);
	for (int i = 0; i < g->nparts; i++) {
		const int p = g->part[i];
		const int timep = p == P_HOUR || p == P_MIN || p == P_SEC;
		if (x->zone >= 0 ? !timep : timep) {
			continue;
		}
		if (o < bsz) o += (size_t)snprintf(buf + o, bsz - o, "%s%s", k++ ? "+" : "", rg_key[p] + 2);
	}
	if (!k && o < bsz) {
		snprintf(buf + o, bsz - o, "-");
	}
	return buf;
}

/* DTSTART anchors written in Hijri digits (y, m, d of the Hijri calendar), DATE valued like
 * the ones in test/sample_39.ics and sample_40.ics */
static const rf_dt rx_hijri_anchor[] = {
	{1437, 2, 29, 0, 0, 0, 1},	/* test/sample_39.ics */
	{1420, 1, 1, 0, 0, 0, 1},	/* test/sample_40.ics, first day of a year */
	{1445, 12, 29, 0, 0, 0, 1},	/* last month */
	{1440, 9, 1, 0, 0, 0, 1},	/* 1 Ramadan */
	{1442, 6, 15, 0, 0, 0, 1},	/* mid-year */
};
#define RX_NHIJRI	((int)(sizeof(rx_hijri_anchor) / sizeof(*rx_hijri_anchor)))

/* local DTSTARTs a little before a DST change of 2024 (used with the matching zone only) */
struct rx_tzanchor_s {
	int zone;
	rf_dt t;
};
static const struct rx_tzanchor_s rx_tz_anchor[] = {
	{0, {2024, 3, 31, 0, 30, 0, 0}},	/* Berlin, gap 02:00-03:00 */
	{0, {2024, 10, 27, 1, 15, 0, 0}},	/* Berlin, fold 02:00-03:00 */
	{1, {2024, 3, 10, 0, 30, 0, 0}},	/* New York, gap */
	{1, {2024, 11, 3, 0, 15, 0, 0}},	/* New York, fold */
	{2, {2024, 4, 7, 0, 45, 0, 0}},		/* Lord Howe, half-hour fold */
	{2, {2024, 10, 6, 1, 0, 0, 0}},		/* Lord Howe, half-hour gap */
};
#define RX_NTZANCHOR	((int)(sizeof(rx_tz_anchor) / sizeof(*rx_tz_anchor)))

static size_t
rx_dtdigits(char *buf, size_t bsz, rf_dt t, int utc)
{
	if (t.allday) {
		return (size_t)snprintf(buf, bsz, "%04d%02d%02d", t.y, t.m, t.d);
	}
	return (size_t)snprintf(buf, bsz, "%04d%02d%02dT%02d%02d%02d%s", t.y, t.m, t.d, t.H, t.M, t.S, utc ? "Z" : "");
}

/* Can a stream of rule G whose DTSTART has the time of day (H,M,S) in the stream's frame
 * produce an instant with time of day (LH,LM,LS)?  Over-approximation used to leave out
 * TZID cases that might look up the zone's last transition. */
static int
rx_can_reach_tod(const struct rg_rule_s *g, int H, int M, int S, int LH, int LM, int LS)
{
	const rf_rule *r = &g->ref;
	int okH, okM, okS;

	okH = r->nH ? rf_in(r->H, r->nH, LH) : g->freq >= RF_HOURLY ? 1 : H == LH;
	okM = r->nM ? rf_in(r->M, r->nM, LM) : g->freq >= RF_MINUTELY ? 1 : M == LM;
	okS = r->nS ? rf_in(r->S, r->nS, LS) : g->freq >= RF_SECONDLY ? 1 : S == LS;
	return okH && okM && okS;
}
#endif
