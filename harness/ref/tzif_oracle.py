#!/usr/bin/env python3
"""tzif_oracle.py -- reference side of C07 (TZID events at the stated wall-clock time).

The expected values come from Python's `zoneinfo` (an independent TZif reader:
64-bit block + footer) opened on the very files echse reads (TZDIR/<name>).
Nothing here looks at echse's code; the only thing taken from the file by
hand (parse_tzif) is the list of transition *times*, which is used to decide
where to probe, never what to expect.

  --serve            coprocess of harness/lib/c07_tz.c: one request per line on
                     stdin, answer on stdout terminated by a line "end"
                       zones quick|thorough       -> "Z <name> <ntrans32>"
                       conv <zone>                -> probe table (see conv_table)
                       rule <zone>                -> event table (see rule_table)
                       fix <zone> <u1> <u2> ...   -> "U ..." lines for given instants
                       occ <zone> <l1> <l2> ...   -> "O ..." lines (see occ_lines) for given wall-clock seconds
  --dump DIR [zone ...]   write the tables to DIR/<zone with / -> __>.tbl (inspection only)
  --selftest         cross-check the two classifications (candidate method vs PEP 495 fold)
  --vdrv quick|thorough [--shard i/n] [--only K]   the same cross-check as a vcheck driver

Table generation happens at check time from the installed tree; no table is
ever stored in /verif.
"""
import os, sys, struct, zoneinfo
from datetime import datetime, timedelta, timezone

TZDIR = '/usr/share/zoneinfo'
EPOCH = datetime(1970, 1, 1, tzinfo=timezone.utc)
NEPOCH = datetime(1970, 1, 1)
LO = int((datetime(1902, 1, 1, tzinfo=timezone.utc) - EPOCH).total_seconds())
HI = int((datetime(2038, 1, 1, tzinfo=timezone.utc) - EPOCH).total_seconds())
EDGE = 2 * 86400          # local probes keep this distance from LO/HI
SKIP_TOP = ('right', 'posix')

# quick tier: both hemispheres, half-hour and 45-minute offsets, Jan/Feb
# transitions, 0 / 1 / >200 transitions, date-line jumps, negative DST
QUICK = '''Europe/Berlin Europe/London Europe/Dublin Europe/Lisbon Europe/Moscow Europe/Istanbul
America/New_York America/St_Johns America/Los_Angeles America/Havana America/Nuuk America/Caracas
America/Santiago America/Sao_Paulo America/Campo_Grande America/Asuncion America/Belize America/Argentina/San_Luis
Africa/Cairo Africa/Casablanca Africa/Accra Africa/Windhoek Africa/Monrovia Africa/Abidjan Africa/Bujumbura
Asia/Tehran Asia/Jerusalem Asia/Kolkata Asia/Kathmandu Asia/Kabul Asia/Pyongyang Asia/Tokyo
Australia/Sydney Australia/Adelaide Australia/Lord_Howe Australia/Eucla
Pacific/Auckland Pacific/Chatham Pacific/Apia Pacific/Kiritimati Pacific/Marquesas
Antarctica/Troll Etc/UTC Etc/GMT+12 Etc/GMT-14'''.split()


def parse_tzif(path):
    """transition times of the 32-bit and the 64-bit block (probe placement only)"""
    b = open(path, 'rb').read()
    if b[:4] != b'TZif':
        return None

    def block(off, tsz):
        isut, isstd, leap, timecnt, typecnt, charcnt = struct.unpack('>6l', b[off + 20:off + 44])
        p = off + 44
        trs = list(struct.unpack('>%d%s' % (timecnt, 'l' if tsz == 4 else 'q'), b[p:p + timecnt * tsz]))
        p += timecnt * tsz + timecnt
        offs = set()
        for i in range(typecnt):
            offs.add(struct.unpack('>l', b[p:p + 4])[0])
            p += 6
        p += charcnt + leap * (tsz + 4) + isstd + isut
        return trs, offs, leap, p

    t32, o32, leap, end1 = block(0, 4)
    t64, o64 = [], set()
    if b[4:5] >= b'2':
        t64, o64, leap64, _ = block(end1, 8)
        leap += leap64
    return {'t32': t32, 't64': t64, 'offs': o32 | o64, 'leap': leap, 'raw': b}


def zone_names(tzdir=TZDIR):
    """every TZif file of the tree outside right/ and posix/, one name per distinct content"""
    bycontent = {}
    for root, dirs, files in os.walk(tzdir):
        rel = os.path.relpath(root, tzdir)
        if rel == '.':
            dirs[:] = [d for d in dirs if d not in SKIP_TOP]
        dirs.sort()
        for f in sorted(files):
            p = os.path.join(root, f)
            name = os.path.relpath(p, tzdir)
            try:
                with open(p, 'rb') as fh:
                    raw = fh.read()
            except OSError:
                continue
            if raw[:4] != b'TZif':
                continue
            # representative of a content class: regular files before symlinks, then by name
            key = (os.path.islink(p), name)
            if raw not in bycontent or key < bycontent[raw]:
                bycontent[raw] = key
    return sorted(k[1] for k in bycontent.values())


class Zone:
    def __init__(self, name, tzdir=TZDIR):
        self.name = name
        path = os.path.join(tzdir, name)
        self.tz = parse_tzif(path)
        if self.tz is None:
            raise ValueError('not a TZif file: ' + path)
        with open(path, 'rb') as fh:
            self.zi = zoneinfo.ZoneInfo.from_file(fh, key=name)
        self.t32 = self.tz['t32']
        self.cand = set(self.tz['offs'])
        self._off = {}
        # transitions to probe: both blocks, inside the quantifier's range
        self.trs = sorted(set(t for t in self.t32 + self.tz['t64'] if LO <= t < HI))

    def off(self, u):
        """UTC offset in force at UTC epoch second u, per zoneinfo"""
        r = self._off.get(u)
        if r is None:
            d = (EPOCH + timedelta(seconds=u)).astimezone(self.zi).utcoffset()
            r = d.days * 86400 + d.seconds
            if d.microseconds:
                raise ValueError('sub-second offset')
            self._off[u] = r
            self.cand.add(r)
        return r

    def k32(self, u):
        """index of the last transition <= u in the 32-bit table, -1 if none (shape only)"""
        lo, hi = 0, len(self.t32)
        while lo < hi:
            mid = (lo + hi) // 2
            if self.t32[mid] <= u:
                lo = mid + 1
            else:
                hi = mid
        return lo - 1

    def preimage(self, l):
        """all UTC seconds u with u + off(u) == l (l = wall clock as seconds since 1970 'as if UTC')"""
        # offsets observed near l by zoneinfo are added to the candidate set first
        for d in (-2 * 86400, -86400, 0, 86400, 2 * 86400):
            self.off(l + d)
        return sorted(u for u in set(l - o for o in self.cand) if self.off(u) == l - u)

    def classify(self, l):
        pre = self.preimage(l)
        if len(pre) == 1:
            return 'ok', pre
        if not pre:
            # the two readings RFC 5545 / POSIX mktime offer: offset before and after the gap
            naive = NEPOCH + timedelta(seconds=l)
            alt = set()
            for f in (0, 1):
                d = naive.replace(tzinfo=self.zi, fold=f).utcoffset()
                alt.add(l - (d.days * 86400 + d.seconds))
            return 'gap', sorted(alt)
        return 'fold', pre

    def fold_check(self, l):
        """PEP 495 view of the same question, used by --selftest only"""
        naive = NEPOCH + timedelta(seconds=l)
        res = []
        for f in (0, 1):
            d = naive.replace(tzinfo=self.zi, fold=f).utcoffset()
            o = d.days * 86400 + d.seconds
            res.append(l - o)
        ok = [u for u in res if self.off(u) == l - u]
        return sorted(set(ok))


def civil(l):
    d = NEPOCH + timedelta(seconds=l)
    return d.year, d.month, d.day, d.hour, d.minute, d.second


def epoch_of(y, m, d, H=0, M=0, S=0):
    return int((datetime(y, m, d, H, M, S) - NEPOCH).total_seconds())


def uline(z, u, kind, k=None):
    o = z.off(u)
    cls, _ = z.classify(u + o)
    if cls == 'gap':
        raise ValueError('image of a UTC instant cannot be in a gap: %s %d' % (z.name, u))
    return 'U %d %d %d %s %s' % (u, o, z.k32(u) if k is None else k, kind, cls)


def lline(z, l, kind, k=None):
    cls, us = z.classify(l)
    if k is None:
        k = z.k32(us[0]) if us else -1
    return 'L %d %s %s %d %s' % (l, cls, us[0] if cls == 'ok' else '-', k, kind)


def conv_table(z):
    """probe table of a zone, chronological.
       H <ntrans32> <first32|-> <last32|-> <nprobes-transition-bound>
       U <utc> <off> <k> <kind> <ok|fold>      expected offset at a UTC second; class of its local image
       L <loc> <ok|gap|fold> <utc|-> <k> <kind>  wall clock second, its class, its UTC when unambiguous
       k = for the 9 probes bound to a transition its index in the 32-bit table (-2: 64-bit block only),
           otherwise the index of the last 32-bit transition at or before the instant (shape only)"""
    rows = []   # (sortkey, line)
    trs = z.trs
    t32idx = {t: i for i, t in enumerate(z.t32)}
    for t in trs:
        k = t32idx.get(t, -2)
        ob, oa = z.off(t - 1), z.off(t)
        if LO <= t - 1 and t + 1 < HI:
            for d, nm in ((-1, 't-1'), (0, 't0'), (1, 't+1')):
                rows.append((t + d, 1, uline(z, t + d, nm, k)))
        if LO + EDGE <= t < HI - EDGE:
            for d, nm in ((-1, '-1'), (0, '0'), (1, '+1')):
                rows.append((t + d, 2, lline(z, t + ob + d, 'b' + nm, k)))
                rows.append((t + d, 3, lline(z, t + oa + d, 'a' + nm, k)))
    bounds = [LO] + trs + [HI]
    for a, b in zip(bounds, bounds[1:]):
        if b - a < 4:
            continue
        m = (a + b) // 2
        rows.append((m, 1, uline(z, m, 'mid')))
        l = m + z.off(m)
        if LO + EDGE <= m < HI - EDGE:
            rows.append((m, 2, lline(z, l, 'mid')))
    for y in range(1902, 2038):
        for mth in range(1, 13):
            l = epoch_of(y, mth, 15, 12)
            if not (LO + EDGE <= l < HI - EDGE):
                continue
            cls, us = z.classify(l)
            key = us[0] if us else l
            rows.append((key, 2, lline(z, l, 'mon')))
            if cls == 'ok':
                rows.append((key, 1, uline(z, us[0], 'mon')))
    rows.sort(key=lambda r: (r[0], r[1]))
    nb = sum(1 for r in rows if r[2].split()[4] not in ('mid', 'mon'))
    t32 = z.t32
    out = ['H %d %s %s %d' % (len(t32), t32[0] if t32 else '-', t32[-1] if t32 else '-', nb)]
    out += [r[2] for r in rows]
    return out


def add_months(y, m, n):
    m0 = (y * 12 + (m - 1)) + n
    return m0 // 12, m0 % 12 + 1


def mdays(y, m):
    if m == 2:
        return 29 if (y % 4 == 0 and (y % 100 or y % 400 == 0)) else 28
    return 30 if m in (4, 6, 9, 11) else 31


def chosen_years(z):
    ys = sorted(set(civil(t)[0] for t in z.trs))
    if not ys:
        return [1902, 1935, 1969, 1970, 2000, 2037]
    n = len(ys)
    pick = sorted(set(ys[min(n - 1, (i * (n - 1)) // 5)] for i in range(6)))
    return pick


def occ_lines(z, locs):
    out = []
    for l in locs:
        cls, us = z.classify(l)
        out.append('O %s %d %s' % (cls, l, ' '.join(str(u) for u in us)))
    return out


def rule_table(z):
    """real TZID events around the transitions of 6 chosen years.
       Y <year> ...                         the chosen years
       E <FREQ> <count> <dtstart local second> <k> <kind> <target-occurrence-index>
       O <ok|gap|fold> <local second> <acceptable utc seconds...>   one per expected occurrence
       The driver builds DTSTART;TZID=<zone>:<local> / RRULE:FREQ=<FREQ>;COUNT=<count>."""
    out = []
    years = chosen_years(z)
    out.append('Y ' + ' '.join(map(str, years)))
    t32idx = {t: i for i, t in enumerate(z.t32)}
    for t in z.trs:
        if civil(t)[0] not in years or not (LO + 70 * 86400 <= t < HI - 70 * 86400):
            continue
        k = t32idx.get(t, -2)
        ob, oa = z.off(t - 1), z.off(t)
        for side, o in (('b', ob), ('a', oa)):
            for d, nm in ((-1, '-1'), (0, '0'), (1, '+1')):
                l = t + o + d
                kind = side + nm
                # the occurrence with index 2 (third) falls on l; index 0 for the forward rule
                ev = [('DAILY', 5, [l + (i - 2) * 86400 for i in range(5)], 2),
                      ('WEEKLY', 4, [l + (i - 2) * 7 * 86400 for i in range(4)], 2),
                      ('DAILY', 3, [l + i * 86400 for i in range(3)], 0)]
                y, m, dd, H, M, S = civil(l)
                months = [add_months(y, m, i - 2) for i in range(4)]
                if all(dd <= mdays(yy, mm) for yy, mm in months):
                    ev.append(('MONTHLY', 4, [epoch_of(yy, mm, dd, H, M, S) for yy, mm in months], 2))
                for freq, cnt, locs, ti in ev:
                    out.append('E %s %d %d %d %s %d' % (freq, cnt, locs[0], k, kind, ti))
                    out += occ_lines(z, locs)
    for y in years:
        locs = [epoch_of(y, m, 15, 12) for m in range(1, 13)]
        if not all(LO + EDGE <= l < HI - EDGE for l in locs):
            continue
        out.append('E MONTHLY 12 %d %d %s %d' % (locs[0], -1, 'mon', 0))
        out += occ_lines(z, locs)
    return out


def serve():
    zones = {}
    names = None
    for ln in sys.stdin:
        a = ln.split()
        if not a:
            continue
        try:
            if a[0] == 'zones':
                if names is None:
                    names = zone_names()
                sel = names if a[1] == 'thorough' else [n for n in QUICK if n in set(names)]
                out = []
                for n in sel:
                    tz = parse_tzif(os.path.join(TZDIR, n))
                    if tz['leap']:
                        continue    # leap-second ("right") flavoured file: outside the check
                    out.append('Z %s %d' % (n, len(tz['t32'])))
            else:
                z = zones.get(a[1])
                if z is None:
                    zones.clear()   # keep one zone's memo at a time
                    z = zones[a[1]] = Zone(a[1])
                if a[0] == 'conv':
                    out = conv_table(z)
                elif a[0] == 'rule':
                    out = rule_table(z)
                elif a[0] == 'fix':
                    out = [uline(z, int(u), 'fix') for u in a[2:]]
                elif a[0] == 'occ':
                    out = occ_lines(z, [int(l) for l in a[2:]])
                else:
                    out = ['error unknown request']
        except Exception as e:   # the driver turns this into a hard failure
            out = ['error %s: %r' % (' '.join(a), e)]
        sys.stdout.write('\n'.join(out + ['end']) + '\n')
        sys.stdout.flush()


def vdrv(argv):
    """the self-check as a driver of its own (vdrv line protocol): case = zone, the two independent
    classifications of every local probe of its table must agree, and every expected offset must be
    one of the offsets the file declares"""
    import json
    tier, shard, nshard, only = argv[0], 0, 1, -1
    i = 1
    while i < len(argv):
        if argv[i] == '--shard':
            shard, nshard = map(int, argv[i + 1].split('/'))
        elif argv[i] == '--only':
            only = int(argv[i + 1])
        i += 2
    names = zone_names()
    if tier != 'thorough':
        names = [n for n in QUICK if n in set(names)]
    evals = nviol = 0
    sigs = {}
    for idx, nm in enumerate(names):
        if (only >= 0 and idx != only) or (only < 0 and idx % nshard != shard):
            continue
        z = Zone(nm)
        declared = set(z.tz['offs'])
        for ln in conv_table(z):
            f = ln.split()
            bad = None
            if f[0] == 'L':
                l = int(f[1])
                pre, pep = z.preimage(l), z.fold_check(l)
                if pre != pep:
                    bad = ('oracle-selfcheck/classification', 'zone %s local %s: candidate method %r, PEP 495 folds %r' % (nm, civil(l), pre, pep))
            elif f[0] == 'U' and int(f[2]) not in declared:
                bad = ('oracle-selfcheck/undeclared-offset', 'zone %s utc %s: zoneinfo offset %s is not a ttinfo of the file' % (nm, f[1], f[2]))
            else:
                continue
            evals += 1
            if bad:
                nviol += 1
                sigs[bad[0]] = sigs.get(bad[0], 0) + 1
                if sigs[bad[0]] <= 3 or only >= 0:
                    print(json.dumps({'t': 'viol', 'sig': bad[0], 'idx': idx, 'case': 'zone ' + nm, 'detail': bad[1]}))
        if idx % 40 == 0 and only < 0:
            print(json.dumps({'t': 'sample', 'idx': idx, 'case': 'reference self-check of zone %s: %d transitions probed' % (nm, len(z.trs))}))
    print(json.dumps({'t': 'summary', 'shard': shard, 'nshard': nshard, 'evals': evals, 'nontrivial': 0, 'nviol': nviol,
                      'capped': False, 'counters': {'oracle_selfcheck_probes': evals}, 'sigs': sigs}))


def selftest(names):
    bad = n = 0
    for nm in names:
        z = Zone(nm)
        for ln in conv_table(z):
            f = ln.split()
            if f[0] != 'L':
                continue
            n += 1
            l = int(f[1])
            pre, pep = z.preimage(l), z.fold_check(l)
            if pre != pep:
                bad += 1
                print('DISAGREE', nm, l, civil(l), pre, pep)
    print('selftest: %d local probes, %d disagreements between candidate method and PEP 495 folds' % (n, bad))
    return 1 if bad else 0


def main():
    global TZDIR
    a = sys.argv[1:]
    if '--tzdir' in a:
        i = a.index('--tzdir')
        TZDIR = a[i + 1]
        del a[i:i + 2]
    if a[:1] == ['--serve']:
        serve()
    elif a[:1] == ['--dump']:
        os.makedirs(a[1], exist_ok=True)
        for nm in (a[2:] or zone_names()):
            z = Zone(nm)
            with open(os.path.join(a[1], nm.replace('/', '__') + '.tbl'), 'w') as f:
                f.write('\n'.join(conv_table(z) + ['--- rule'] + rule_table(z)) + '\n')
    elif a[:1] == ['--selftest']:
        sys.exit(selftest(a[1:] or [n for n in QUICK if n in set(zone_names())]))
    elif a[:1] == ['--vdrv']:
        vdrv(a[1:])
    elif a[:1] == ['--list']:
        for n in zone_names():
            print(n)
    else:
        sys.stderr.write(__doc__)
        sys.exit(2)


if __name__ == '__main__':
    main()
