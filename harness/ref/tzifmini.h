/* tzifmini.h -- the transition table of a zoneinfo file, read by the driver itself
 *
 * Written from tzfile(5): header "TZif", version, 15 reserved bytes, six big-endian 32-bit counts
 * (isutcnt, isstdcnt, leapcnt, timecnt, typecnt, charcnt), then the version-1 data block: timecnt 32-bit
 * transition times, timecnt type indices, typecnt ttinfo entries (32-bit utoff, isdst, abbreviation index).
 * Nothing is shared with /repo's tzraw.c.  Only the version-1 (32-bit) block is read: that is the table
 * the library searches.
 */
#if !defined INCLUDED_tzifmini_h_
#define INCLUDED_tzifmini_h_
#include <stdio.h>
#include <stdint.h>
#include <string.h>

#define TZM_MAXTR	2048

struct tzm_s {
	int n;				/* transitions */
	int32_t t[TZM_MAXTR];		/* transition seconds (UTC) */
	int32_t after[TZM_MAXTR];	/* UTC offset from t[i] on */
	int32_t before[TZM_MAXTR];	/* UTC offset before t[i] (for i == 0: the first non-DST type, or type 0) */
};

static uint32_t
tzm_be32(const unsigned char *p)
{
	return (uint32_t)p[0] << 24 | (uint32_t)p[1] << 16 | (uint32_t)p[2] << 8 | (uint32_t)p[3];
}

/* 0 on success */
static int
tzm_load(struct tzm_s *z, const char *tzdir, const char *name)
{
	static unsigned char buf[1 << 17];
	char path[512];
	FILE *f;
	size_t len;
	uint32_t timecnt, typecnt;
	const unsigned char *tt, *ix, *ti;
	int first = 0;

	z->n = 0;
	snprintf(path, sizeof(path), "%s/%s", tzdir, name);
	if ((f = fopen(path, "rb")) == NULL) {
		return -1;
	}
	len = fread(buf, 1, sizeof(buf), f);
	fclose(f);
	if (len < 44 || memcmp(buf, "TZif", 4)) {
		return -1;
	}
	timecnt = tzm_be32(buf + 32);
	typecnt = tzm_be32(buf + 36);
	if (timecnt > TZM_MAXTR || typecnt == 0 || typecnt > 256 || 44 + (size_t)timecnt * 5 + (size_t)typecnt * 6 > len) {
		return -1;
	}
	tt = buf + 44;
	ix = tt + 4 * timecnt;
	ti = ix + timecnt;
	for (uint32_t k = 0; k < typecnt; k++) {
		if (!ti[6 * k + 4]) {
			first = (int)k;
			break;
		}
	}
	for (uint32_t i = 0; i < timecnt; i++) {
		if (ix[i] >= typecnt) {
			return -1;
		}
		z->t[i] = (int32_t)tzm_be32(tt + 4 * i);
		z->after[i] = (int32_t)tzm_be32(ti + 6 * ix[i]);
		z->before[i] = i ? z->after[i - 1] : (int32_t)tzm_be32(ti + 6 * first);
	}
	z->n = (int)timecnt;
	return 0;
}
#endif
