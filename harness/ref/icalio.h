/* icalio.h -- shared glue: iCalendar text -> tasks/streams through the real pull parser,
 * exactly the call sequence echse(1)'s _inject_fd() uses (push whole text, pull until
 * no more SCHE instructions, last_pull). */
#if !defined INCLUDED_icalio_h_
#define INCLUDED_icalio_h_
#include <string.h>
#include <stdio.h>
#include "evical.h"
#include "task.h"
#include "instant.h"
#include "dt-strpf.h"

/* parse TEXT, put up to NT scheduled tasks into T; returns the number found.
 * Caller frees them with free_echs_task(). */
static size_t
ical_tasks(echs_task_t *t, size_t nt, const char *text, size_t len)
{
	ical_parser_t pp = NULL;
	size_t n = 0;
	echs_instruc_t ins;

	if (echs_evical_push(&pp, text, len) >= 0) {
		for (;;) {
			ins = echs_evical_pull(&pp);
			if (ins.v != INSVERB_SCHE) {
				break;
			} else if (ins.t == NULL) {
				continue;
			}
			if (n < nt) {
				t[n++] = ins.t;
			} else {
				free_echs_task(ins.t);
			}
		}
	}
	ins = echs_evical_last_pull(&pp);
	if (ins.v == INSVERB_SCHE && ins.t != NULL) {
		free_echs_task(ins.t);
	}
	return n;
}

/* one VEVENT with the given property lines (each "\n"-terminated) wrapped in a VCALENDAR */
static size_t
ical_wrap(char *buf, size_t bsz, const char *uid, const char *lines)
{
	return (size_t)snprintf(buf, bsz,
		"BEGIN:VCALENDAR\nVERSION:2.0\nBEGIN:VEVENT\nUID:%s\nSUMMARY:true\n%sEND:VEVENT\nEND:VCALENDAR\n",
		uid, lines);
}

/* convenience: the single task of a single-event text, or NULL */
static echs_task_t
ical_task1(const char *text)
{
	echs_task_t t[1];
	return ical_tasks(t, 1, text, strlen(text)) ? t[0] : NULL;
}

static const char*
inst_str(char *buf, size_t bsz, echs_instant_t i)
{
	if (echs_nul_instant_p(i)) {
		snprintf(buf, bsz, "nul");
	} else if (echs_instant_all_day_p(i)) {
		snprintf(buf, bsz, "%04u-%02u-%02u", i.y, i.m, i.d);
	} else {
		snprintf(buf, bsz, "%04u-%02u-%02uT%02u:%02u:%02u", i.y, i.m, i.d, i.H, i.M, i.S);
	}
	return buf;
}
#endif
