/* c02_cal.h -- calendar arithmetic and value spelling shared by the C02 clone / long-list drivers.
 * Own days-from-civil arithmetic (proleptic Gregorian), independent of instant.c. */
#if !defined INCLUDED_c02_cal_h_
#define INCLUDED_c02_cal_h_
#include <stdint.h>
#include <stdio.h>
#include "instant.h"

#define C2_DAY	86400LL

static int64_t
c2_dfc(int y, unsigned m, unsigned d)
{
	y -= m <= 2;
	const int64_t era = (y >= 0 ? y : y - 399) / 400;
	const unsigned yoe = (unsigned)(y - era * 400);
	const unsigned doy = (153 * (m + (m > 2 ? -3 : 9)) + 2) / 5 + d - 1;
	const unsigned doe = yoe * 365 + yoe / 4 - yoe / 100 + doy;
	return era * 146097 + (int64_t)doe - 719468;
}

static void
c2_cfd(int64_t z, int *y, unsigned *m, unsigned *d)
{
	z += 719468;
	const int64_t era = (z >= 0 ? z : z - 146096) / 146097;
	const unsigned doe = (unsigned)(z - era * 146097);
	const unsigned yoe = (doe - doe / 1460 + doe / 36524 - doe / 146096) / 365;
	const unsigned doy = doe - (365 * yoe + yoe / 4 - yoe / 100);
	const unsigned mp = (5 * doy + 2) / 153;
	*d = doy - (153 * mp + 2) / 5 + 1;
	*m = mp < 10 ? mp + 3 : mp - 9;
	*y = (int)(yoe + era * 400) + (*m <= 2);
}

/* iCalendar spelling of T (seconds since the epoch, UTC); DATE: a VALUE=DATE value */
static int
c2_fmt(char *buf, size_t bsz, int64_t t, int date)
{
	int y;
	unsigned m, d;
	int64_t days = t >= 0 ? t / C2_DAY : -((-t + C2_DAY - 1) / C2_DAY);
	int64_t sod = t - days * C2_DAY;

	c2_cfd(days, &y, &m, &d);
	if (date) {
		return snprintf(buf, bsz, "%04d%02u%02u", y, m, d);
	}
	return snprintf(buf, bsz, "%04d%02u%02uT%02d%02d%02dZ", y, m, d,
			(int)(sod / 3600), (int)(sod / 60 % 60), (int)(sod % 60));
}

/* key (seconds since the epoch) of an instant delivered by the code under test;
 * -1 if it is out of shape */
static int64_t
c2_key(echs_instant_t i, int *allday)
{
	*allday = echs_instant_all_day_p(i);
	if (i.m < 1 || i.m > 12 || i.d < 1 || i.d > 31 || i.y < 1970 || i.y > 2100) {
		return -1;
	}
	if (*allday) {
		return c2_dfc(i.y, i.m, i.d) * C2_DAY;
	}
	if (i.H > 23 || i.M > 59 || i.S > 59) {
		return -1;
	}
	return c2_dfc(i.y, i.m, i.d) * C2_DAY + i.H * 3600 + i.M * 60 + i.S;
}
#endif
