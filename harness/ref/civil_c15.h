/* civil_c15.h -- proleptic Gregorian calendar on day numbers (reference for C15, C17)
 *
 * Written from the calendar's definition (400-year cycle of 146097 days, eras
 * starting on 1 March so the leap day is the last day of a cycle year); the
 * well-known "days from civil" construction.  Day 0 is 1970-01-01 (a Thursday).
 * Nothing here is derived from /repo/src.
 */
#if !defined INCLUDED_civil_c15_h_
#define INCLUDED_civil_c15_h_

struct cvl_ymd_s {
	int y;
	int m;
	int d;
};

static inline int
cvl_leap_p(int y)
{
	return (y % 4 == 0 && y % 100 != 0) || y % 400 == 0;
}

static inline int
cvl_ndim(int y, int m)
{
	static const int md[] = {0, 31, 28, 31, 30, 31, 30, 31, 31, 30, 31, 30, 31};
	return md[m] + (m == 2 && cvl_leap_p(y));
}

/* number of days since 1970-01-01 of the civil date Y-M-D */
static inline long
cvl_days(int y, int m, int d)
{
	long yy = (long)y - (m <= 2);
	const long era = (yy >= 0 ? yy : yy - 399) / 400;
	const long yoe = yy - era * 400;				/* [0, 399] */
	const long doy = (153 * (m + (m > 2 ? -3 : 9)) + 2) / 5 + d - 1;	/* [0, 365], 0 = 1 March */
	const long doe = yoe * 365 + yoe / 4 - yoe / 100 + doy;	/* [0, 146096] */
	return era * 146097 + doe - 719468;
}

static inline struct cvl_ymd_s
cvl_civil(long z)
{
	z += 719468;
	const long era = (z >= 0 ? z : z - 146096) / 146097;
	const long doe = z - era * 146097;
	const long yoe = (doe - doe / 1460 + doe / 36524 - doe / 146096) / 365;
	const long y = yoe + era * 400;
	const long doy = doe - (365 * yoe + yoe / 4 - yoe / 100);
	const long mp = (5 * doy + 2) / 153;
	const int d = (int)(doy - (153 * mp + 2) / 5 + 1);
	const int m = (int)(mp < 10 ? mp + 3 : mp - 9);
	return (struct cvl_ymd_s){(int)(y + (m <= 2)), m, d};
}

/* ISO weekday 1 = Monday ... 7 = Sunday of day number Z */
static inline int
cvl_wday(long z)
{
	/* 1970-01-01 was a Thursday (4) */
	long w = (z + 3) % 7;
	if (w < 0) {
		w += 7;
	}
	return (int)w + 1;
}

/* day number of Modified Julian Day 0 (1858-11-17) */
#define CVL_MJD0	(-40587L)

/* self test: round trip and succession over [1600-01-01, 2400-12-31]; 0 if good */
static inline int
cvl_selftest(void)
{
	struct cvl_ymd_s c = {1600, 1, 1};
	long z = cvl_days(1600, 1, 1);

	if (cvl_days(1970, 1, 1) != 0 || cvl_days(2000, 3, 1) != 11017 ||
	    cvl_days(1858, 11, 17) != CVL_MJD0 || cvl_wday(cvl_days(2026, 10, 3)) != 6) {
		return -1;
	}
	for (; c.y <= 2400; z++) {
		struct cvl_ymd_s b = cvl_civil(z);
		if (b.y != c.y || b.m != c.m || b.d != c.d || cvl_days(c.y, c.m, c.d) != z) {
			return -1;
		}
		if (++c.d > cvl_ndim(c.y, c.m)) {
			c.d = 1;
			if (++c.m > 12) {
				c.m = 1;
				c.y++;
			}
		}
	}
	return 0;
}
#endif
