/* C09 -- every rule terminates and stays in bounds; empty sets end the stream.
 *
 * mode=grammar  the C01 grammar x a reduced extension menu x DTSTART anchors (as they are, not
 *               synchronised) x {none, COUNT 65, UNTIL on the 4th occurrence}, and for plain rules
 *               additionally the synchronised DTSTART derived with the reference evaluator
 * mode=hostile  the hostile layer of DESIGN.md C09 "E" (time-of-day products, INTERVAL incongruent
 *               with a BY-part, extreme INTERVALs, impossible ordinals / month days / year days,
 *               DTSTART at and beyond the range edges and invalid-but-parseable), every rule in
 *               three embeddings: alone, RRULE+RDATE (mux -> clone_evrrul), two RRULEs
 * mode=fillers  the seven exported fillers called the way evical.c's refill() calls them
 *               (nti = 64, proto in the first 64 slots, rule parsed by echs_read_rrul()) on 128
 *               instants that end at an inaccessible page; for hostile and grammar rules
 * mode=tzswitch zoned events and direct conversions on the very seconds at which a zone changes its offset (see enum_tzswitch;
 *               options y0= y1= zones=min|all)
 * Every stream is asked for 300 occurrences.  Run under ASan + bounds (variant asan).
 *
 * clauses
 *   crash/...             worker died (ASan / bounds report, fault on the guard page): by the supervisor
 *   hang/...              a pop / filler call did not answer: stage 1 = B1 s of CPU; if the rule's set is
 *                         provably empty (see proven_empty()) that is the verdict, otherwise the case is
 *                         run again from scratch with B2 s (20 x the nominal budget) before it is called a hang
 *   filler-overrun/...    a filler returned more than the 64 it was asked for
 *   exhausted-yields/...  (plain rules, synchronised DTSTART) the reference set ends by COUNT/UNTIL inside
 *                         the window, the stream yields an occurrence later than its last member
 *   empty-yields/...      (plain rules) the reference finds no member between DTSTART and the horizon,
 *                         the stream yields an occurrence other than DTSTART itself inside that range
 *
 * options: mode= maxparts= date3= intervals= anchors= menucap= freqlo= freqhi= exts=min|all|none
 *          b1= b2= pops= fillrules=hostile|all
 */
#include "vdrv.h"
#include "ref/icalio.h"
#include "ref/rfc5545.h"
#include "ref/rrgram.h"
#include "ref/rrgram_ext.h"
#include "ref/strmfollow.h"
#include "evrrul.h"
#include "evical.h"

#define MAXPOPS	300

static double b1 = 0.25, b2 = 3.0;
static long npops = MAXPOPS;
static int nanchors = 4;

/* ------------------------------------------------------------------ */
/* own small RRULE reader (for the emptiness argument only; nothing shared with /repo) */
static void
parse_rule(rf_rule *r, const char *s)
{
	static const char *const fn[] = {"", "YEARLY", "MONTHLY", "WEEKLY", "DAILY", "HOURLY", "MINUTELY", "SECONDLY"};

	memset(r, 0, sizeof(*r));
	r->interval = 1;
	r->count = -1;
	while (*s) {
		const char *eq = strchr(s, '='), *end = strchr(s, ';');
		size_t kl;

		if (end == NULL) end = s + strlen(s);
		if (eq == NULL || eq > end) break;
		kl = (size_t)(eq - s);
		eq++;
		if (kl == 4 && !strncmp(s, "FREQ", 4)) {
			for (int f = 1; f <= 7; f++) {
				if (!strncmp(eq, fn[f], strlen(fn[f])) && (size_t)(end - eq) == strlen(fn[f])) r->freq = f;
			}
		} else if (kl == 8 && !strncmp(s, "INTERVAL", 8)) {
			long long v = strtoll(eq, NULL, 10);
			r->interval = v > 0 && v <= 0x7fffffff ? (int)v : -1;
		} else if (kl == 5 && !strncmp(s, "COUNT", 5)) {
			r->count = atoi(eq);
		} else if (kl == 7 && !strncmp(s, "BYMONTH", 7)) {
			r->nmon = rg_list(r->mon, 12, eq);
		} else if (kl == 10 && !strncmp(s, "BYMONTHDAY", 10)) {
			r->nmday = rg_list(r->mday, 8, eq);
		} else if (kl == 9 && !strncmp(s, "BYYEARDAY", 9)) {
			r->nyday = rg_list(r->yday, 8, eq);
		} else if (kl == 6 && !strncmp(s, "BYHOUR", 6)) {
			r->nH = rg_list(r->H, 24, eq);
		} else if (kl == 8 && !strncmp(s, "BYMINUTE", 8)) {
			r->nM = rg_list(r->M, 60, eq);
		} else if (kl == 8 && !strncmp(s, "BYSECOND", 8)) {
			r->nS = rg_list(r->S, 60, eq);
		} else if (kl == 5 && !strncmp(s, "BYDAY", 5)) {
			char tmp[128];
			snprintf(tmp, sizeof(tmp), "%.*s", (int)(end - eq), eq);
			rg_apply(r, P_DAY, tmp);
		}
		s = *end ? end + 1 : end;
	}
}

/* Is the recurrence set of R (DTSTART T0, on the stream's own clock) provably empty?
 *   1  time-of-day / weekday never reachable: the instants T0 + k * INTERVAL units never meet the
 *      BYHOUR / BYMINUTE / BYSECOND / BYDAY filters of the FREQ (checked over one full cycle of
 *      (second of day, weekday), at most 7 * 86400 steps)
 *   2  no calendar day of a 400-year cycle satisfies the date parts (BYMONTH=2;BYMONTHDAY=30)
 *   0  not proven
 * Only for FREQ=DAILY and finer (the expansions that filter). */
static int
proven_empty(const rf_rule *r, rf_dt t0)
{
	if (r->freq < RF_DAILY || r->interval < 1) {
		return 0;
	}
	/* 2: date parts alone */
	if (r->nmon || r->nmday || r->nyday) {
		rf_rule d = *r;
		int any = 0;
		const int64_t d0 = rf_days(2000, 1, 1);
		d.nday = 0;	/* weekdays recur in every (month, day) cell within 400 years */
		for (int64_t i = 0; i < 146097 && !any; i++) {
			any = rf_datepred(&d, d0 + i, &t0);
		}
		if (!any) {
			return 2;
		}
	}
	/* 1: stepping never meets the time / weekday filters */
	{
		const int64_t unit = r->freq == RF_DAILY ? 86400 : r->freq == RF_HOURLY ? 3600 : r->freq == RF_MINUTELY ? 60 : 1;
		const int64_t step = unit * r->interval;
		const int64_t tod0 = t0.allday ? 0 : t0.H * 3600 + t0.M * 60 + t0.S;
		const int wd0 = rf_wd(rf_days(t0.y, t0.m, t0.d));
		int wdok[7];
		int hit = 0;

		for (int w = 0; w < 7; w++) {
			wdok[w] = !r->nday;
			for (int i = 0; i < r->nday; i++) {
				wdok[w] |= r->day[i].wd == w;	/* ordinals: any week may match */
			}
		}
		for (int64_t k = 0; k < 7 * 86400 && !hit; k++) {
			const int64_t off = tod0 + k * step;
			const int64_t tod = off % 86400;
			const int wd = (int)((wd0 + off / 86400) % 7);
			const int h = (int)(tod / 3600), m = (int)(tod / 60 % 60), s = (int)(tod % 60);

			if (k && tod == tod0 && wd == wd0) {
				/* the cycle of (second of day, weekday) has closed */
				break;
			}
			hit = wdok[wd] &&
				!(r->freq >= RF_HOURLY && r->nH && !rf_in(r->H, r->nH, h)) &&
				!(r->freq >= RF_MINUTELY && r->nM && !rf_in(r->M, r->nM, m)) &&
				!(r->freq >= RF_SECONDLY && r->nS && !rf_in(r->S, r->nS, s));
		}
		if (!hit) {
			return 1;
		}
	}
	return 0;
}

static const char *const cause_name[] = {"unproven", "interval-never-meets-filter", "no-such-date"};

/* ------------------------------------------------------------------ */
struct cas_s {
	int freq;
	const char *dtline;
	const char *rrule;	/* RRULE value incl. termination */
	const char *extra;	/* further property lines */
	char shape[200];	/* signature shape without clause */
	const char *emb;	/* embedding / extension tag */
	rf_rule pr;		/* parsed by parse_rule() */
	rf_dt t0;		/* DTSTART on the stream's clock */
	int have_t0;
};

struct res_s {
	long n;
	int ended;
	int hung;
	int64_t first, last;
	int nbad;
	int ngarb;	/* instants whose time of day no input could have asked for (hour > 24, minute > 59, second > 60) */
	echs_instant_t garb;
	int revived;	/* an occurrence was delivered after end-of-stream had been answered */
};

static int64_t keep[MAXPOPS + 8];

/* ask the stream for NPOPS occurrences under BUDGET seconds of CPU per call */
static void
ask(const struct cas_s *c, double budget, struct res_s *r)
{
	static echs_task_t t;
	static volatile long n;

	memset(r, 0, sizeof(*r));
	n = 0;
	if ((t = sf_mktask(c->dtline, c->rrule, "", c->extra)) == NULL || t->strm == NULL) {
		vd_count("not_accepted", 1);
		if (t) free_echs_task(t);
		r->n = -1;
		return;
	}
	if (sigsetjmp(sf_jmp, 0)) {
		r->hung = 1;
		r->n = n;
		return;
	}
	sf_arm(budget);
	while (n < npops) {
		echs_event_t e = echs_evstrm_pop(t->strm);
		int bad = 0;
		int64_t s;

		sf_progress++;
		if (echs_nul_event_p(e)) {
			r->ended = 1;
			break;
		}
		if (!echs_instant_all_day_p(e.from) && (e.from.H > 24U || e.from.M > 59U || e.from.S > 60U) && !r->ngarb++) {
			r->garb = e.from;
		}
		s = sf_inst_secs(e.from, &bad);
		if (bad) {
			r->nbad++;
			s = INT64_MIN;
		}
		keep[n] = s;
		if (!n) r->first = s;
		r->last = s;
		n++;
		if (e.from.y > 2099U) {
			/* past the calendar range the code supports (leap years as y % 4): ask no further */
			r->ended = 2;
			break;
		}
	}
	if (r->ended == 1) {
		/* the end must be stable and cheap too */
		for (int i = 0; i < 2; i++) {
			echs_event_t e1 = echs_evstrm_next(t->strm);
			echs_event_t e2 = echs_evstrm_pop(t->strm);
			sf_progress++;
			if (!echs_nul_event_p(e1) || !echs_nul_event_p(e2)) {
				r->revived = 1 + i;
			}
		}
	}
	sf_disarm();
	r->n = n;
	free_echs_task(t);
}

static void
report_hang(const struct cas_s *c, const struct res_s *r, int cause, double budget)
{
	char sig[320];

	snprintf(sig, sizeof(sig), "hang/%s/%s/%s", c->shape, cause_name[cause], c->emb);
	vd_viol(sig, "call %ld for the next occurrence does not answer within %.2f s of CPU (%s)", r->n + 1, budget,
		cause == 1 ? "the set is empty: INTERVAL steps never meet the BY filters" :
		cause == 2 ? "the set is empty: no calendar day satisfies the date parts" : "emptiness of the set not proven by the driver");
}

/* two-stage run; returns 0 if the case could not be completed (not accepted / hang reported) */
static int
run(struct cas_s *c, struct res_s *r)
{
	int cause = 0;

	vd_sh->evals++;
	vd_desc("%s RRULE:%s %s", c->dtline, c->rrule, c->extra ? c->extra : "");
	for (char *p = vd_sh->desc; *p; p++) {
		if (*p == '\n') *p = ' ';
	}
	vd_shape("%s/%s", c->shape, c->emb);
	ask(c, b1, r);
	if (r->n < 0) {
		return 0;
	}
	if (!r->hung) {
		if (r->ngarb) {
			char sig[320];
			snprintf(sig, sizeof(sig), "garbage-instant/%s/%s", c->shape, c->emb);
			vd_viol(sig, "%d occurrences carry a time of day no rule can ask for, first %04u-%02u-%02uT%02u:%02u:%02u", r->ngarb,
				(unsigned)r->garb.y, (unsigned)r->garb.m, (unsigned)r->garb.d, (unsigned)r->garb.H, (unsigned)r->garb.M, (unsigned)r->garb.S);
		}
		if (r->revived) {
			char sig[320];
			snprintf(sig, sizeof(sig), "revived/%s/%s", c->shape, c->emb);
			vd_viol(sig, "after %ld occurrences the stream answered end-of-stream, asked again (%d) it delivers an occurrence", r->n, r->revived);
		}
		return 1;
	}
	vd_count("stage1_no_answer", 1);
	if (c->have_t0 && (cause = proven_empty(&c->pr, c->t0))) {
		report_hang(c, r, cause, b1);
		return 0;
	}
	/* not provably empty: it may be a sparse set; run again with the large budget */
	ask(c, b2, r);
	if (r->hung) {
		report_hang(c, r, 0, b2);
		return 0;
	}
	vd_count("slow_but_answered", 1);
	return 1;
}

/* ------------------------------------------------------------------ */
/* mode=grammar */
static const char *ext_min[] = {"plain", ";SHIFT=1B", ";SHIFT=-40", ";BYEASTER=-2", ";SCALE=HIJRI.IA", NULL};
static int ext_level = 1;	/* 0 none, 1 min (+ TZID Berlin), 2 all but the table calendars */

static int
ext_wanted(const struct rx_ext_s *x)
{
	if (x->kind == RX_NONE) return 1;
	if (ext_level == 0 || x->kind == RX_PAIR) return 0;
	if (ext_level == 2) return !rx_scale[x->scale].last_year;	/* table calendars run out: hostile layer */
	if (x->kind == RX_TZID) return x->zone == 0;
	for (int i = 1; ext_min[i]; i++) {
		if (!strcmp(ext_min[i], x->rpart)) return 1;
	}
	return 0;
}

static void
grammar_unit(const struct rg_rule_s *g, const struct rx_ext_s *x, rf_dt an, int sync)
{
	struct cas_s c;
	struct res_s r;
	char dtline[96], dig[32], rrule[400], tag[64];
	int64_t ts0;
	int ad;
	static int64_t occ4[8];

	if (an.allday && (g->freq >= RF_HOURLY || g->ref.nH || g->ref.nM || g->ref.nS)) {
		return;
	}
	if (x->zone >= 0 && (an.allday || an.y < 1970 || an.y >= 2037)) {
		return;
	}
	if (!vd_next()) {
		return;
	}
	memset(&c, 0, sizeof(c));
	rx_dtdigits(dig, sizeof(dig), an, 0);
	snprintf(dtline, sizeof(dtline), "DTSTART%s%s:%s", an.allday ? ";VALUE=DATE" : "", x->scale ? "" : x->dtpar, dig);
	c.dtline = dtline;
	c.freq = g->freq;
	c.rrule = rrule;
	snprintf(tag, sizeof(tag), "%s%s", x->tag, sync ? "/sync" : "");
	c.emb = tag;
	vd_desc("%s RRULE:%s%s", dtline, g->text, x->rpart);
	vd_shape("%s/%s", g->shape, tag);
	if (!sf_dtstart_frame(dtline, &ts0, &ad, NULL)) {
		vd_count("skipped_dtstart_not_accepted", 1);
		return;
	}
	c.pr = g->ref;
	c.t0 = rf_from_secs(ts0, ad);
	c.have_t0 = !x->scale;	/* the emptiness argument is Gregorian */
	if (x->zone >= 0) {
		/* leave out what may look up the zone's last transition (C07) */
		const struct rx_zone_s *z = &rx_zone[x->zone];
		if (rx_can_reach_tod(g, c.t0.H, c.t0.M, c.t0.S, z->lastH, z->lastM, z->lastS)) {
			vd_count("skipped_tz_last_transition", 1);
			return;
		}
	}

	/* unterminated */
	snprintf(rrule, sizeof(rrule), "%s%s", g->text, x->rpart);
	/* hang signatures name the parts only; what matters is in the cause */
	{
		size_t o = (size_t)snprintf(c.shape, sizeof(c.shape), "%s/i%s/", rg_freqname[g->freq], g->interval == 1 ? "1" : "N");
		for (int i = 0; i < g->nparts; i++) {
			o += (size_t)snprintf(c.shape + o, sizeof(c.shape) - o, "%s%s", i ? "+" : "", rg_key[g->part[i]] + 2);
		}
		if (!g->nparts) snprintf(c.shape + o, sizeof(c.shape) - o, "-");
	}
	if (!run(&c, &r)) {
		return;
	}
	if (r.n >= 2) {
		vd_nontrivial();
	}
	vd_count("occurrences_asked", r.n);
	if (vd_want_sample()) {
		char b[32];
		vd_sample("%s RRULE:%s -> %ld occurrences%s, last %s", dtline, rrule, r.n, r.ended == 1 ? " then end of stream" : r.ended ? " (left at year 2100)" : "",
			  r.n && r.last != INT64_MIN ? sf_secs_str(b, sizeof(b), r.last, ad) : "-");
	}
	/* (c) empty set: plain rules only */
	if (x->kind == RX_NONE && !sync) {
		static int64_t one[2];
		int ambig = 0, trunc = 0;
		int64_t hor;
		switch (g->freq) {
		case RF_HOURLY: hor = ts0 + (int64_t)9 * 366 * 86400; break;
		case RF_MINUTELY: hor = ts0 + (int64_t)400 * 86400; break;
		case RF_SECONDLY: hor = ts0 + (int64_t)10 * 86400; break;
		default: hor = rf_days(2099, 12, 31) * 86400; break;
		}
		if (!rf_eval(&g->ref, c.t0, ts0 + rg_window(g->freq), one, 1, &ambig, &trunc) &&
		    !rf_eval(&g->ref, c.t0, hor, one, 1, &ambig, &trunc)) {
			vd_count("reference_sets_empty_to_horizon", 1);
			for (long i = 0; i < r.n; i++) {
				if (keep[i] != INT64_MIN && keep[i] != ts0 && keep[i] <= hor && keep[i] >= ts0) {
					char sig[320], b[32], bh[32];
					snprintf(sig, sizeof(sig), "empty-yields/%s/plain", g->shape);
					vd_viol(sig, "the RFC set has no member up to %s, the stream yields %s (call %ld)",
						sf_secs_str(bh, sizeof(bh), hor, ad), sf_secs_str(b, sizeof(b), keep[i], ad), i + 1);
					break;
				}
			}
		}
	}
	if (r.n >= 4 && keep[3] != INT64_MIN) {
		memcpy(occ4, keep, sizeof(*occ4) * 4);
	} else {
		occ4[3] = INT64_MIN;
	}

	/* COUNT=65 and UNTIL on the 4th occurrence */
	for (int k = 0; k < 2; k++) {
		rf_rule rt = g->ref;
		char dig2[40];

		if (k == 0) {
			snprintf(rrule, sizeof(rrule), "%s%s;COUNT=65", g->text, x->rpart);
			rt.count = 65;
		} else {
			if (occ4[3] == INT64_MIN || x->scale) {
				continue;
			}
			rx_dtdigits(dig2, sizeof(dig2), rf_from_secs(occ4[3], ad), x->zone >= 0);
			snprintf(rrule, sizeof(rrule), "%s%s;UNTIL=%s", g->text, x->rpart, dig2);
			rt.has_until = 1;
			rt.until = occ4[3];
		}
		if (!run(&c, &r)) {
			continue;
		}
		/* (c) exhausted: plain rules from a synchronised DTSTART.  Once COUNT occurrences are out, or the
		 * next one would lie after UNTIL, the answer has to be end-of-stream; how many members the
		 * set has before that is C01's subject, not this clause's */
		if (x->kind == RX_NONE && sync) {
			char sig[320], b[32], b2s[32];
			vd_count("terminated_streams_judged", 1);
			if (k == 0 && r.n > 65) {
				snprintf(sig, sizeof(sig), "exhausted-yields/%s/COUNT/plain", g->shape);
				vd_viol(sig, "call %ld still yields an occurrence (%s) from a rule with COUNT=65", r.n,
					r.last != INT64_MIN ? sf_secs_str(b, sizeof(b), r.last, ad) : "?");
			}
			for (long i = 0; k == 1 && i < r.n; i++) {
				if (keep[i] != INT64_MIN && keep[i] > rt.until) {
					snprintf(sig, sizeof(sig), "exhausted-yields/%s/UNTIL/plain", g->shape);
					vd_viol(sig, "call %ld yields %s, after UNTIL %s", i + 1, sf_secs_str(b, sizeof(b), keep[i], ad),
						sf_secs_str(b2s, sizeof(b2s), rt.until, ad));
					break;
				}
			}
		}
	}
}

static void
grammar_rule(const struct rg_rule_s *g, void *clo)
{
	(void)clo;
	if (vd_stop()) {
		return;
	}
	for (int xi = 0; xi < RX_NEXT; xi++) {
		const struct rx_ext_s *x = &rx_ext[xi];

		if (!ext_wanted(x) || !rx_applies(g->freq, x, 0)) {
			continue;
		}
		for (int a = 0; a < nanchors && a < RG_NANCHOR; a++) {
			rf_dt an = rg_anchor[a];

			if (x->scale && (an.y < 1938 || an.y > 2070)) {
				continue;
			}
			grammar_unit(g, x, an, 0);
			if (x->kind == RX_NONE) {
				/* the synchronised DTSTART derived from this anchor, as in C01 */
				int64_t first[1];
				int ambig = 0, trunc = 0;
				if (an.allday && (g->freq >= RF_HOURLY || g->ref.nH || g->ref.nM || g->ref.nS)) {
					continue;
				}
				if (rf_eval(&g->ref, an, rf_secs(an) + rg_window(g->freq), first, 1, &ambig, &trunc) &&
				    first[0] != rf_secs(an)) {
					rf_dt t0 = rf_from_secs(first[0], an.allday);
					if (t0.y <= 2058) {
						grammar_unit(g, x, t0, 1);
					}
				}
			}
		}
	}
}

/* ------------------------------------------------------------------ */
/* the hostile layer: generated as text */
struct hrule_s {
	char rrule[700];
	char shape[120];
	int freq;
	const char *dtline;	/* NULL: the standard anchors */
	const char *dtclass;
};
typedef void (*hcb_t)(const struct hrule_s *h, void *clo);

static const char *const fnm[] = {"", "YEARLY", "MONTHLY", "WEEKLY", "DAILY", "HOURLY", "MINUTELY", "SECONDLY"};

static size_t
seq(char *buf, size_t bsz, const char *key, int n)
{
	size_t o = (size_t)snprintf(buf, bsz, ";%s=", key);
	for (int i = 0; i < n; i++) {
		o += (size_t)snprintf(buf + o, bsz - o, "%s%d", i ? "," : "", i);
	}
	return o;
}

static const char*
iclass(long long i)
{
	switch (i) {
	case 1: return "1";
	case 59: case 60: case 61: return "59..61";
	case 1000: return "1000";
	case 2147483647LL: return "2^31-1";
	case 4294967296LL: return "2^32";
	case 7: case 12: case 14: case 24: case 48: case 168: case 1440: case 10080: case 3600: case 86400: case 604800: return "unit-multiple";
	default: return i <= 13 ? "2..13" : "other";
	}
}

static int hostile_quick = 0;

static void
gen_hostile(hcb_t cb, void *clo)
{
	struct hrule_s h;
	static const long long ivals[] = {1, 2, 3, 4, 5, 6, 7, 8, 9, 10, 11, 12, 13, 59, 60, 61, 1000, 2147483647LL, 4294967296LL};
	static const long long ivals_q[] = {2, 7, 13, 60, 1000, 2147483647LL, 4294967296LL};
	static const long long units[] = {24, 168, 1440, 86400, 14, 48, 10080, 3600, 604800};
	const long long *iv = hostile_quick ? ivals_q : ivals;
	const int niv = hostile_quick ? (int)(sizeof(ivals_q) / sizeof(*ivals_q)) : (int)(sizeof(ivals) / sizeof(*ivals));

	memset(&h, 0, sizeof(h));
	/* H1: time-of-day products */
	{
		static const int prods[] = {63, 64, 65, 120, 126, 128, 129, 1440, 3600, 86400};
		for (size_t pi = 0; pi < sizeof(prods) / sizeof(*prods); pi++) {
			for (int a = 1; a <= 24; a++) {
				for (int b = 1; b <= 60; b++) {
					const int N = prods[pi];
					int c;
					if (N % (a * b) || (c = N / (a * b)) > 60) continue;
					/* the big ones only in their extreme factorisations */
					if (N >= 1440 && !((a == 24 || a == 1) && (b == 60 || b == 1) && (c == 60 || c == 1))) continue;
					if (hostile_quick && N < 1440 && a != 1 && b != 1 && c != 1) continue;
					for (int f = RF_YEARLY; f <= RF_SECONDLY; f++) {
						size_t o = (size_t)snprintf(h.rrule, sizeof(h.rrule), "FREQ=%s", fnm[f]);
						if (a > 1) o += seq(h.rrule + o, sizeof(h.rrule) - o, "BYHOUR", a);
						if (b > 1) o += seq(h.rrule + o, sizeof(h.rrule) - o, "BYMINUTE", b);
						if (c > 1) o += seq(h.rrule + o, sizeof(h.rrule) - o, "BYSECOND", c);
						snprintf(h.shape, sizeof(h.shape), "%s/tod-product=%d", fnm[f], N);
						h.freq = f;
						cb(&h, clo);
					}
				}
			}
		}
	}
	/* H1b: every value the parser takes for the time parts, all at once (hour 24 and second 60 included) */
	for (int f = RF_YEARLY; f <= RF_SECONDLY; f++) {
		static const int full[][3] = {{25, 1, 1}, {1, 1, 61}, {25, 1, 61}, {25, 2, 1}, {2, 1, 61}};
		for (size_t q = 0; q < sizeof(full) / sizeof(*full); q++) {
			size_t o = (size_t)snprintf(h.rrule, sizeof(h.rrule), "FREQ=%s", fnm[f]);
			if (full[q][0] > 1) o += seq(h.rrule + o, sizeof(h.rrule) - o, "BYHOUR", full[q][0]);
			if (full[q][1] > 1) o += seq(h.rrule + o, sizeof(h.rrule) - o, "BYMINUTE", full[q][1]);
			if (full[q][2] > 1) o += seq(h.rrule + o, sizeof(h.rrule) - o, "BYSECOND", full[q][2]);
			snprintf(h.shape, sizeof(h.shape), "%s/tod-every-accepted-value", fnm[f]);
			h.freq = f;
			cb(&h, clo);
		}
	}
	/* H2: INTERVAL against one BY-part, matching and not matching DTSTART (2024-02-29T10:30:15 Thursday / 2022-12-31T23:59:59 Saturday) */
	{
		static const char *const pn[] = {"BYMONTH", "BYHOUR", "BYMINUTE", "BYSECOND", "BYDAY"};
		static const char *const pv[][2] = {
			{"2,12", "3"}, {"10,23", "11"}, {"30,59", "31"}, {"15,59", "16"}, {"TH,SA", "FR"},
		};
		for (int f = RF_YEARLY; f <= RF_SECONDLY; f++) {
			for (int p = 0; p < 5; p++) {
				for (int m = 0; m < 2; m++) {
					for (int i = 0; i < niv + (hostile_quick ? 4 : (int)(sizeof(units) / sizeof(*units))); i++) {
						const long long I = i < niv ? iv[i] : units[i - niv];
						if (I == 1) continue;
						if (hostile_quick && !m && I >= 2147483647LL) continue;
						snprintf(h.rrule, sizeof(h.rrule), "FREQ=%s;INTERVAL=%lld;%s=%s", fnm[f], I, pn[p], pv[p][m]);
						snprintf(h.shape, sizeof(h.shape), "%s/interval-vs-%s/i=%s/%s", fnm[f], pn[p] + 2, iclass(I), m ? "off-dtstart" : "on-dtstart");
						h.freq = f;
						cb(&h, clo);
					}
				}
			}
		}
	}
	/* H2c: a minute / second value v >= 32 that the steps never meet, started on minute / second v - 32 (a 32-bit
	 * mask would alias the two) */
	for (int v = 32; v <= 59; v++) {
		static char dtl[2][40];
		snprintf(dtl[0], sizeof(dtl[0]), "DTSTART:20240101T00%02d00", v - 32);
		snprintf(dtl[1], sizeof(dtl[1]), "DTSTART:20240101T0000%02d", v - 32);
		snprintf(h.rrule, sizeof(h.rrule), "FREQ=MINUTELY;INTERVAL=60;BYMINUTE=%d", v);
		snprintf(h.shape, sizeof(h.shape), "MINUTELY/interval-vs-MINUTE/i=unit/value-ge-32");
		h.freq = RF_MINUTELY, h.dtline = dtl[0], h.dtclass = "aliased-start";
		cb(&h, clo);
		/* (the SECONDLY analogue is an empty SECONDLY set, which is the recorded 3 s finding) */
		h.dtline = NULL;
	}
	/* H2b: every INTERVAL 2..13 against every single BYMONTH, for the two coarse frequencies: the congruence
	 * pre-checks there depend on whether the BYMONTH month lies before or after DTSTART's month */
	for (int f = RF_YEARLY; f <= RF_MONTHLY; f++) {
		for (int I = 2; I <= 13; I++) {
			for (int mon = 1; mon <= 12; mon++) {
				if (hostile_quick && I > 7 && (mon % 3)) continue;
				snprintf(h.rrule, sizeof(h.rrule), "FREQ=%s;INTERVAL=%d;BYMONTH=%d", fnm[f], I, mon);
				snprintf(h.shape, sizeof(h.shape), "%s/interval-vs-each-MONTH/i=%s/%s", fnm[f], iclass(I), mon <= 2 ? "month-le-feb" : "month-gt-feb");
				h.freq = f;
				cb(&h, clo);
			}
		}
	}
	/* H3: INTERVAL alone */
	for (int f = RF_YEARLY; f <= RF_SECONDLY; f++) {
		for (int i = 0; i < niv; i++) {
			snprintf(h.rrule, sizeof(h.rrule), "FREQ=%s;INTERVAL=%lld", fnm[f], iv[i]);
			snprintf(h.shape, sizeof(h.shape), "%s/interval-only/i=%s", fnm[f], iclass(iv[i]));
			h.freq = f;
			cb(&h, clo);
		}
	}
	/* H4: ordinals that do not exist */
	{
		static const struct {int f; const char *r;} o[] = {
			{RF_YEARLY, "BYDAY=53MO"}, {RF_YEARLY, "BYDAY=-53MO"}, {RF_YEARLY, "BYDAY=53SU,-53SA"},
			{RF_MONTHLY, "BYDAY=5MO"}, {RF_MONTHLY, "BYDAY=-5MO"}, {RF_MONTHLY, "BYMONTH=2;BYDAY=5MO"}, {RF_MONTHLY, "BYMONTH=2;BYDAY=-5FR"},
			{RF_YEARLY, "BYMONTH=2;BYDAY=5MO"}, {RF_YEARLY, "BYMONTH=2;BYDAY=-5FR"}, {RF_MONTHLY, "BYDAY=53MO"}, {RF_MONTHLY, "BYDAY=-53SU"},
			{RF_WEEKLY, "BYDAY=-53SU"}, {RF_DAILY, "BYDAY=5MO"}, {RF_DAILY, "INTERVAL=2;BYDAY=-5MO"}, {RF_HOURLY, "BYDAY=53MO"},
			{RF_MINUTELY, "BYDAY=-5FR"}, {RF_SECONDLY, "BYDAY=5MO"}, {RF_YEARLY, "BYWEEKNO=53;BYDAY=MO"}, {RF_YEARLY, "BYWEEKNO=-53;BYDAY=SU"},
			{RF_YEARLY, "BYSETPOS=366;BYDAY=MO"}, {RF_MONTHLY, "BYSETPOS=-366;BYMONTHDAY=1"},
		};
		for (size_t i = 0; i < sizeof(o) / sizeof(*o); i++) {
			snprintf(h.rrule, sizeof(h.rrule), "FREQ=%s;%s", fnm[o[i].f], o[i].r);
			snprintf(h.shape, sizeof(h.shape), "%s/ordinal-beyond/%s", fnm[o[i].f], strstr(o[i].r, "BYMONTH") ? "in-february" : strstr(o[i].r, "WEEKNO") ? "weekno" : strstr(o[i].r, "SETPOS") ? "setpos" : "plain");
			h.freq = o[i].f;
			cb(&h, clo);
		}
	}
	/* H4b: BYDAY lists of 14, 15, 16 and 35 distinct ordinal entries (the list container changes its representation
	 * at the 15th) */
	for (int f = RF_YEARLY; f <= RF_MONTHLY; f++) {
		static const char *const wds[] = {"MO", "TU", "WE", "TH", "FR", "SA", "SU"};
		static const int ords[] = {1, 2, 3, 4, -1};
		static const int lens[] = {14, 15, 16, 35};
		for (size_t q = 0; q < sizeof(lens) / sizeof(*lens); q++) {
			size_t o = (size_t)snprintf(h.rrule, sizeof(h.rrule), "FREQ=%s;BYDAY=", fnm[f]);
			for (int i = 0; i < lens[q]; i++) {
				o += (size_t)snprintf(h.rrule + o, sizeof(h.rrule) - o, "%s%d%s", i ? "," : "", ords[i % 5], wds[i / 5]);
			}
			snprintf(h.shape, sizeof(h.shape), "%s/byday-list/%s", fnm[f], lens[q] < 15 ? "lt15" : "ge15");
			h.freq = f;
			cb(&h, clo);
		}
	}
	/* H5: month days the month does not have; H6: year day 366 */
	for (int f = RF_YEARLY; f <= RF_SECONDLY; f++) {
		static const char *const md[] = {"BYMONTH=2;BYMONTHDAY=31", "BYMONTH=2;BYMONTHDAY=-31", "BYMONTH=2;BYMONTHDAY=30", "BYMONTH=4;BYMONTHDAY=31",
						 "BYMONTH=4;BYMONTHDAY=-31", "BYMONTH=2,4;BYMONTHDAY=31,-31", "INTERVAL=2;BYMONTH=4;BYMONTHDAY=31"};
		static const char *const yd[] = {"BYYEARDAY=366", "BYYEARDAY=-366", "BYYEARDAY=366,-366"};
		for (size_t i = 0; i < sizeof(md) / sizeof(*md); i++) {
			snprintf(h.rrule, sizeof(h.rrule), "FREQ=%s;%s", fnm[f], md[i]);
			snprintf(h.shape, sizeof(h.shape), "%s/monthday-beyond-month/%s", fnm[f], strchr(md[i], '-') ? "neg" : "pos");
			h.freq = f;
			cb(&h, clo);
		}
		for (size_t i = 0; i < sizeof(yd) / sizeof(*yd); i++) {
			snprintf(h.rrule, sizeof(h.rrule), "FREQ=%s;%s", fnm[f], yd[i]);
			snprintf(h.shape, sizeof(h.shape), "%s/yearday-366", fnm[f]);
			h.freq = f;
			cb(&h, clo);
		}
	}
	/* H9: date parts that contradict each other under the sub-daily frequencies, started shortly before a New Year
	 * next to a leap year (the fillers carry a running day-of-year across the year end) */
	for (int f = RF_HOURLY; f <= RF_SECONDLY; f++) {
		static const char *const cd[] = {"BYYEARDAY=1;BYMONTHDAY=2", "BYYEARDAY=-366;BYMONTHDAY=2", "BYYEARDAY=2;BYMONTHDAY=1", "BYYEARDAY=365;BYMONTH=1", "BYYEARDAY=-1;BYMONTHDAY=30"};
		static const char *const dts[] = {"DTSTART:20191230T000000", "DTSTART:20231231T120000", "DTSTART:20241230T060000", "DTSTART:20201231T233000"};
		for (size_t i = 0; i < sizeof(cd) / sizeof(*cd); i++) {
			for (size_t d = 0; d < sizeof(dts) / sizeof(*dts); d++) {
				snprintf(h.rrule, sizeof(h.rrule), "FREQ=%s;%s", fnm[f], cd[i]);
				snprintf(h.shape, sizeof(h.shape), "%s/contradictory-dates/YEARDAY:one/%s", fnm[f], strstr(cd[i], "BYMONTHDAY") ? "MONTHDAY:one" : "MONTH:one");
				h.freq = f;
				h.dtline = dts[d];
				h.dtclass = "year-end";
				cb(&h, clo);
			}
		}
		h.dtline = NULL;
	}
	/* H7: SCALE whose table has run out (Diyanet ends 2023-01), Hijri month day 31 */
	for (int f = RF_YEARLY; f <= RF_SECONDLY; f++) {
		static const char *const sc[] = {"SCALE=HIJRI.DIYANET", "SCALE=HIJRI;BYMONTHDAY=31", "SCALE=HIJRI.IA;BYMONTHDAY=-31", "SCALE=HIJRI;BYMONTH=12", "SCALE=HIJRI.DIYANET;BYMONTH=1"};
		for (size_t i = 0; i < sizeof(sc) / sizeof(*sc); i++) {
			snprintf(h.rrule, sizeof(h.rrule), "FREQ=%s;%s", fnm[f], sc[i]);
			snprintf(h.shape, sizeof(h.shape), "%s/scale/%s", fnm[f], strstr(sc[i], "DIYANET") ? "table-ended" : strstr(sc[i], "31") ? "monthday-31" : "table");
			h.freq = f;
			cb(&h, clo);
		}
	}
	/* H8: DTSTART at and beyond the edges, invalid but parseable */
	{
		static const struct {const char *dt; const char *cls;} ds[] = {
			{"DTSTART:16010101T000000", "1601"}, {"DTSTART:19000228T120000", "1900"}, {"DTSTART:19010101T000000", "1901"},
			{"DTSTART:20991231T235959", "2099-end"}, {"DTSTART:21050101T000000", "2105"}, {"DTSTART:99991231T235959", "9999"},
			{"DTSTART;VALUE=DATE:99991231", "9999-date"}, {"DTSTART;VALUE=DATE:20991231", "2099-end-date"},
			{"DTSTART:20240230T120000", "feb30"}, {"DTSTART;VALUE=DATE:20240230", "feb30-date"}, {"DTSTART:20241301T120000", "month13"},
			{"DTSTART:20240101T240000", "hour24"}, {"DTSTART:20240100T120000", "day0"}, {"DTSTART:40950101T000000", "4095"},
		};
		static const char *const rr[] = {"", ";INTERVAL=2", ";BYMONTHDAY=-1", ";BYDAY=MO", ";BYHOUR=0,23;BYMINUTE=0,59", ";BYMONTH=2;BYMONTHDAY=29"};
		for (size_t d = 0; d < sizeof(ds) / sizeof(*ds); d++) {
			for (int f = RF_YEARLY; f <= RF_SECONDLY; f++) {
				for (size_t i = 0; i < sizeof(rr) / sizeof(*rr); i++) {
					if (strstr(ds[d].dt, "VALUE=DATE") && (f >= RF_HOURLY || strstr(rr[i], "BYHOUR"))) continue;
					snprintf(h.rrule, sizeof(h.rrule), "FREQ=%s%s", fnm[f], rr[i]);
					snprintf(h.shape, sizeof(h.shape), "%s/dtstart=%s", fnm[f], ds[d].cls);
					h.freq = f;
					h.dtline = ds[d].dt;
					h.dtclass = ds[d].cls;
					cb(&h, clo);
				}
			}
		}
		h.dtline = NULL;
	}
}

static const char *const std_dt[] = {"DTSTART:20240229T103015", "DTSTART:20221231T235959", "DTSTART;VALUE=DATE:20240229"};

static int
rule_has_time(const char *r)
{
	return strstr(r, "BYHOUR") || strstr(r, "BYMINUTE") || strstr(r, "BYSECOND");
}

static void
hostile_case(const struct hrule_s *h, void *clo)
{
	/* exrule: the rule is the EXCEPTION rule of a plain daily event (40 days) that has a duration; with COUNT=7 it is
	 * exhausted long before the event is (an exhausted exception stream must not stall the filter) */
	static const char *const embs[] = {"alone", "rdate", "two-rrules", "exrule"};
	const int ndt = h->dtline ? 1 : 3;

	(void)clo;
	if (vd_stop()) {
		return;
	}
	for (int d = 0; d < ndt; d++) {
		const char *dtline = h->dtline ? h->dtline : std_dt[d];
		const int isdate = strstr(dtline, "VALUE=DATE") != NULL;

		if (isdate && (h->freq >= RF_HOURLY || rule_has_time(h->rrule))) {
			continue;
		}
		if (hostile_quick && !h->dtline && d == 1) {
			continue;
		}
		/* one supervised unit per (rule, DTSTART): its embeddings and terminations run until the first hang */
		if (!vd_next()) {
			continue;
		}
		for (int e = 0, stop = 0; e < 4 && !stop; e++) {
			struct cas_s c;
			struct res_s r;
			char rrule[800], extra[1100];
			int64_t ts0;
			int ad;

			memset(&c, 0, sizeof(c));
			c.freq = h->freq;
			c.dtline = dtline;
			c.emb = embs[e];
			snprintf(c.shape, sizeof(c.shape), "%s", h->shape);
			parse_rule(&c.pr, h->rrule);
			vd_desc("%s RRULE:%s (%s)", dtline, h->rrule, embs[e]);
			vd_shape("%s/%s", c.shape, c.emb);
			if (sf_dtstart_frame(dtline, &ts0, &ad, NULL)) {
				c.t0 = rf_from_secs(ts0, ad);
				c.have_t0 = strstr(h->rrule, "SCALE") == NULL && c.pr.interval > 0;
			}
			switch (e) {
			case 0: extra[0] = '\0'; break;
			case 1:
				if (isdate) snprintf(extra, sizeof(extra), "RDATE;VALUE=DATE:20240305,20250101\n");
				else snprintf(extra, sizeof(extra), "RDATE:20240305T000000,20250101T120000\n");
				break;
			case 2: snprintf(extra, sizeof(extra), "RRULE:FREQ=DAILY;INTERVAL=3;COUNT=5\n"); break;
			default: break;
			}
			c.extra = extra;
			c.rrule = rrule;
			for (int k = 0; k < 2; k++) {
				if (e == 3 && strstr(h->shape, "tod-product") != NULL) {
					/* maximal time-of-day products as exception rules legitimately cost their product per base
					 * occurrence; the budget oracle cannot tell that from a stall */
					break;
				}
				if (e == 3) {
					/* the emptiness argument is about the main rule, which is plain here */
					c.have_t0 = 0;
					snprintf(rrule, sizeof(rrule), "FREQ=DAILY;COUNT=40");
					snprintf(extra, sizeof(extra), "DURATION:%s\nEXRULE:%s%s\n", isdate ? "P1D" : "PT1H", h->rrule, k ? ";COUNT=7" : "");
					if (!run(&c, &r)) {
						stop = r.hung;
						break;
					}
					continue;
				}
				snprintf(rrule, sizeof(rrule), "%s%s", h->rrule, k ? ";COUNT=130" : "");
				if (k && hostile_quick && e) {
					continue;
				}
				if (!run(&c, &r)) {
					stop = r.hung;
					break;
				}
				if (!k && !e && c.have_t0 && r.n > 0 && proven_empty(&c.pr, c.t0)) {
					/* (c) no calendar day satisfies the date parts, or the INTERVAL steps never meet the time / weekday
					 * parts, yet the stream yields */
					for (long i = 0; i < r.n; i++) {
						if (keep[i] != INT64_MIN && keep[i] != ts0) {
							char sig[320], b[32];
							snprintf(sig, sizeof(sig), "empty-yields/%s/hostile", c.shape);
							vd_viol(sig, "the set is provably empty (date parts without a day, or INTERVAL steps that never meet the time parts), the stream yields %s (call %ld)", sf_secs_str(b, sizeof(b), keep[i], ad), i + 1);
							break;
						}
					}
				}
				if (!k) {
					if (r.n >= 2) vd_nontrivial();
					vd_count("occurrences_asked", r.n);
					if (vd_want_sample()) {
						vd_sample("%s RRULE:%s (%s) -> %ld occurrences%s", dtline, h->rrule, embs[e], r.n, r.ended == 1 ? " then end of stream" : r.ended ? " (left at year 2100)" : "");
					}
				} else if (r.n > 130 + (e == 1 ? 2 : e == 2 ? 5 : 0)) {
					char sig[320];
					snprintf(sig, sizeof(sig), "count-exceeded/%s/%s", c.shape, c.emb);
					vd_viol(sig, "%ld occurrences from a rule with COUNT=130", r.n);
				}
			}
		}
	}
}

/* ------------------------------------------------------------------ */
/* mode=fillers */
static echs_instant_t *gbuf;	/* 128 instants ending at a PROT_NONE page */

static void
gbuf_init(void)
{
	const size_t pg = (size_t)sysconf(_SC_PAGESIZE);
	const size_t sz = 128 * sizeof(echs_instant_t);
	const size_t npg = (sz + pg - 1) / pg;
	char *m = mmap(NULL, (npg + 2) * pg, PROT_NONE, MAP_PRIVATE | MAP_ANONYMOUS, -1, 0);

	if (m == MAP_FAILED || mprotect(m + pg, npg * pg, PROT_READ | PROT_WRITE)) {
		perror("c09: mmap");
		exit(2);
	}
	gbuf = (echs_instant_t*)(m + pg + npg * pg - sz);
}

static size_t
call_filler(int freq, echs_instant_t *tgt, const struct rrulsp_s *rr)
{
	switch (freq) {
	case RF_YEARLY: return rrul_fill_yly(tgt, 64, rr);
	case RF_MONTHLY: return rrul_fill_mly(tgt, 64, rr);
	case RF_WEEKLY: return rrul_fill_wly(tgt, 64, rr);
	case RF_DAILY: return rrul_fill_dly(tgt, 64, rr);
	case RF_HOURLY: return rrul_fill_Hly(tgt, 64, rr);
	case RF_MINUTELY: return rrul_fill_Mly(tgt, 64, rr);
	default: return rrul_fill_Sly(tgt, 64, rr);
	}
}

static void
filler_case(int freq, const char *dtline, const char *rrule, const char *shape, const rf_rule *pr)
{
	static struct rrulsp_s rr;
	static volatile int round;
	static volatile size_t total;
	echs_instant_t proto;
	int64_t ts0;
	int ad, cause;
	char sig[320];

	if (!vd_next()) {
		return;
	}
	vd_sh->evals++;
	vd_desc("%s RRULE:%s (filler called directly, nti=64)", dtline, rrule);
	vd_shape("%s/filler", shape);
	if (!sf_dtstart_frame(dtline, &ts0, &ad, &proto)) {
		vd_count("skipped_dtstart_not_accepted", 1);
		return;
	}
	rr = echs_read_rrul(rrule, strlen(rrule));
	if (rr.freq == FREQ_NONE) {
		vd_count("not_accepted", 1);
		return;
	}
	if (strstr(rrule, "SCALE") == NULL && pr->interval > 0 && (cause = proven_empty(pr, rf_from_secs(ts0, ad)))) {
		/* would not answer; that is established through the streams (mode grammar / hostile) */
		vd_count("fillers_skipped_set_proven_empty", 1);
		return;
	}
	round = 0;
	total = 0;
	if (sigsetjmp(sf_jmp, 0)) {
		/* termination is judged on the same rule and DTSTART as a stream (modes grammar / hostile) */
		vd_count("filler_calls_without_answer_left_to_stream_modes", 1);
		return;
	}
	sf_arm(b1);
	/* what refill() does, five times over (not beyond the supported calendar range) */
	for (round = 0; round < 5 && !echs_nul_instant_p(proto) && rr.count && proto.y <= 2099U; round++) {
		size_t n;

		for (int j = 0; j < 64; j++) {
			gbuf[j] = proto;
		}
		n = call_filler(freq, gbuf, &rr);
		sf_progress++;
		if (n > 64) {
			snprintf(sig, sizeof(sig), "filler-overrun/%s/filler", shape);
			vd_viol(sig, "filler returned %zu for a request of 64 (round %d)", n, round + 1);
			break;
		}
		if (n >= 64) {
			proto = gbuf[--n];
		} else {
			proto = echs_nul_instant();
		}
		if (rr.count > 0) {
			rr.count = n < (size_t)rr.count ? rr.count - (int)n : 0;
		}
		total += n;
	}
	sf_disarm();
	if (total >= 2) {
		vd_nontrivial();
	}
	vd_count("filler_instants", (long)total);
	if (vd_want_sample()) {
		vd_sample("%s RRULE:%s -> fillers returned %zu instants in %d calls", dtline, rrule, (size_t)total, (int)round);
	}
}

static void
filler_hostile(const struct hrule_s *h, void *clo)
{
	rf_rule pr;
	char rrule[800];

	(void)clo;
	if (vd_stop()) {
		return;
	}
	parse_rule(&pr, h->rrule);
	for (int d = 0; d < (h->dtline ? 1 : 2); d++) {
		const char *dtline = h->dtline ? h->dtline : std_dt[d];
		filler_case(h->freq, dtline, h->rrule, h->shape, &pr);
		snprintf(rrule, sizeof(rrule), "%s;COUNT=130", h->rrule);
		filler_case(h->freq, dtline, rrule, h->shape, &pr);
	}
}

static void
filler_grammar(const struct rg_rule_s *g, void *clo)
{
	char shape[200], dtline[64], dig[32], rrule[320];

	(void)clo;
	if (vd_stop()) {
		return;
	}
	{
		size_t o = (size_t)snprintf(shape, sizeof(shape), "%s/i%s/", rg_freqname[g->freq], g->interval == 1 ? "1" : "N");
		for (int i = 0; i < g->nparts; i++) {
			o += (size_t)snprintf(shape + o, sizeof(shape) - o, "%s%s", i ? "+" : "", rg_key[g->part[i]] + 2);
		}
		if (!g->nparts) snprintf(shape + o, sizeof(shape) - o, "-");
	}
	for (int a = 0; a < nanchors && a < RG_NANCHOR; a++) {
		rf_dt an = rg_anchor[a];
		if (an.allday && (g->freq >= RF_HOURLY || g->ref.nH || g->ref.nM || g->ref.nS)) {
			continue;
		}
		rx_dtdigits(dig, sizeof(dig), an, 0);
		snprintf(dtline, sizeof(dtline), "DTSTART%s:%s", an.allday ? ";VALUE=DATE" : "", dig);
		filler_case(g->freq, dtline, g->text, shape, &g->ref);
		snprintf(rrule, sizeof(rrule), "%s;COUNT=65", g->text);
		filler_case(g->freq, dtline, rrule, shape, &g->ref);
	}
}

/* ------------------------------------------------------------------ */
/* mode=tzswitch: occurrences on the very second at which a zone changes its UTC offset.
 * (a) streams, case = (zone, year): DTSTART;TZID=zone on January 1st of the year with FREQ=HOURLY (on the hour, through the
 *     year), FREQ=MINUTELY;INTERVAL=30 (through the year) and FREQ=DAILY at each of the 24 full local hours (366 days): on the
 *     stream's own clock these pass through every transition second of the year that lies on a half or full hour UTC.
 * (b) direct calls, case = zone: echs_tzob_offs, echs_instant_loc at T-1, T, T+1 and echs_instant_utc at the wall-clock
 *     images of these under the offset before and after, for every transition T of the zone's 32-bit table in 1902..2037
 *     (transition seconds from the driver's own reader of the file, ref/tzifmini.h).
 * Judged: every call answers within the CPU budget (two stages as everywhere in this driver), no sanitizer report.  What the
 * answers are is C07's subject. */
#include "tzob.h"
#include "ref/tzifmini.h"
#if !defined TZDIR
# define TZDIR	"/usr/share/zoneinfo"
#endif

static const char *const sw_zones[] = {
	"Europe/Berlin", "America/New_York", "Australia/Sydney", "Europe/London", "America/Sao_Paulo", "Australia/Lord_Howe", "Pacific/Auckland",
	/* zones=all */
	"America/Los_Angeles", "America/Chicago", "America/Denver", "America/Anchorage", "America/Halifax", "America/St_Johns", "America/Santiago",
	"America/Havana", "America/Mexico_City", "Atlantic/Azores", "Europe/Lisbon", "Europe/Dublin", "Europe/Helsinki", "Europe/Moscow",
	"Europe/Istanbul", "Asia/Tehran", "Asia/Jerusalem", "Asia/Amman", "Africa/Cairo", "Africa/Casablanca", "Australia/Adelaide",
	"Pacific/Chatham", "Pacific/Apia",
};
#define SW_NZ_MIN	7
#define SW_NZ_ALL	((int)(sizeof(sw_zones) / sizeof(*sw_zones)))

static struct tzm_s sw_tab;

/* follow one event to its end (COUNT) under BUDGET s of CPU per call, parsing included; occurrences delivered, *HUNG set */
static long
sw_follow(const char *dtline, const char *rrule, long maxpops, double budget, int *hung)
{
	static echs_task_t t;
	static volatile long n;

	n = 0;
	t = NULL;
	*hung = 0;
	if (sigsetjmp(sf_jmp, 0)) {
		*hung = 1;
		return n;
	}
	sf_arm(budget);
	if ((t = sf_mktask(dtline, rrule, "", "")) == NULL || t->strm == NULL) {
		sf_disarm();
		vd_count("not_accepted", 1);
		if (t) free_echs_task(t);
		return -1;
	}
	sf_progress++;
	while (n < maxpops) {
		echs_event_t e = echs_evstrm_pop(t->strm);
		sf_progress++;
		if (echs_nul_event_p(e)) {
			break;
		}
		n++;
	}
	sf_disarm();
	free_echs_task(t);
	return n;
}

/* how many stream hangs have been reported in this shard */
static long
sw_stream_hangs(void)
{
	static const char pfx[] = "hang/tz-switch-second/stream/";
	long n = 0;
	for (int i = 0; i < VD_NSIG && vd_sh->sig[i].sig[0]; i++) {
		if (!strncmp(vd_sh->sig[i].sig, pfx, sizeof(pfx) - 1)) {
			n += vd_sh->sig[i].n;
		}
	}
	return n;
}

/* two stages; 1 if a hang was reported */
static int
sw_stream(const char *dtline, const char *rrule, long count, const char *fclass)
{
	char full[200], sig[320];
	int hung;
	long n;

	snprintf(full, sizeof(full), "%s;COUNT=%ld", rrule, count);
	vd_desc("%s RRULE:%s", dtline, full);
	vd_shape("tz-switch-second/stream/%s", fclass);
	vd_sh->evals++;
	n = sw_follow(dtline, full, count + 2, b1, &hung);
	if (hung) {
		vd_count("stage1_no_answer", 1);
		n = sw_follow(dtline, full, count + 2, b2, &hung);
		if (hung) {
			snprintf(sig, sizeof(sig), "hang/tz-switch-second/stream/%s", fclass);
			vd_viol(sig, "call %ld for the next occurrence does not answer within %.2f s of CPU", n + 1, b2);
			return 1;
		}
		vd_count("slow_but_answered", 1);
	}
	if (n > count) {
		snprintf(sig, sizeof(sig), "count-exceeded/tz-switch-second/stream/%s", fclass);
		vd_viol(sig, "%ld occurrences from a rule with COUNT=%ld", n, count);
	}
	if (n > 0) {
		vd_count("occurrences_asked", n);
	}
	return 0;
}

struct sw_call_s {
	int fn;	/* 0 offs, 1 loc, 2 utc */
	int dx;
	int side;	/* utc: 0 wall clock under the offset before, 1 after */
	int64_t arg;
};

static echs_instant_t
sw_inst(int64_t secs)
{
	rf_dt t = rf_from_secs(secs, 0);
	char b[24], *on = NULL;
	snprintf(b, sizeof(b), "%04d%02d%02dT%02d%02d%02d", t.y, t.m, t.d, t.H, t.M, t.S);
	return dt_strp(b, &on, strlen(b));
}

static void
sw_direct(const char *zone)
{
	static volatile int k, c, stage;
	static struct sw_call_s call;
	static volatile long ncalls;
	static const char *const fnn[] = {"offs", "loc", "utc"};
	static echs_tzob_t z;
	const int64_t lo = rf_days(1902, 1, 1) * 86400, hi = rf_days(2038, 1, 1) * 86400;
	char b[32], sig[320];
	static volatile long nsw;

	z = echs_tzob(zone, strlen(zone));
	ncalls = 0;
	nsw = 0;
	stage = 0;
	k = 0, c = 0;
	vd_shape("tz-switch-second/direct");
	if (sigsetjmp(sf_jmp, 0)) {
		if (!stage) {
			/* once more, this call alone with the large budget */
			vd_count("stage1_no_answer", 1);
			stage = 1;
		} else {
			snprintf(sig, sizeof(sig), "hang/tz-switch-second/direct/%s/%s", fnn[call.fn], call.dx < 0 ? "second-before" : call.dx ? "second-after" : "on-the-second");
			vd_desc("zone %s (%d transitions in the 32-bit table): transition #%d at %sZ, offsets %d -> %d", zone, sw_tab.n, (int)k,
				sf_secs_str(b, sizeof(b), sw_tab.t[k], 0), (int)sw_tab.before[k], (int)sw_tab.after[k]);
			vd_viol(sig, "%s(%s%s) in %s does not answer within %.2f s of CPU",
				call.fn == 0 ? "echs_tzob_offs" : call.fn == 1 ? "echs_instant_loc" : "echs_instant_utc",
				sf_secs_str(b, sizeof(b), call.arg, 0), call.fn == 2 ? " local" : "Z", zone, b2);
			vd_sh->evals += ncalls;
			return;
		}
	}
	for (; k < sw_tab.n; k++, c = 0) {
		const int64_t T = sw_tab.t[k];
		if (T < lo || T >= hi) {
			continue;
		}
		if (!c) nsw++;
		/* 3 x (offs, loc, utc-before, utc-after) */
		for (; c < 12; c++) {
			/* on the second first */
			call.dx = c / 4 == 0 ? 0 : c / 4 == 1 ? -1 : 1;
			call.fn = c % 4 < 2 ? c % 4 : 2;
			call.side = c % 4 == 3;
			call.arg = T + call.dx + (call.fn == 2 ? (call.side ? sw_tab.after[k] : sw_tab.before[k]) : 0);
			{
				echs_instant_t i = sw_inst(call.arg);
				sf_arm(stage ? b2 : b1);
				switch (call.fn) {
				case 0: (void)echs_tzob_offs(z, i, 0); break;
				case 1: (void)echs_instant_loc(i, z); break;
				default: (void)echs_instant_utc(i, z); break;
				}
				sf_disarm();
				sf_progress++;
				ncalls++;
			}
			if (stage) {
				vd_count("slow_but_answered", 1);
				stage = 0;
			}
		}
	}
	vd_sh->evals += ncalls;
	vd_count("switch_seconds_called_directly", nsw);
	if (nsw) {
		vd_nontrivial();
	}
}

static void
enum_tzswitch(void)
{
	const int y0 = (int)vd_opt_l("y0", 2010), y1 = (int)vd_opt_l("y1", 2036);
	const int nzs = !strcmp(vd_opt("zones", "min"), "all") ? SW_NZ_ALL : SW_NZ_MIN;
	char path[400];

	/* (b) first: cheap, and its verdicts do not depend on what the worker did before */
	for (int zi = 0; zi < SW_NZ_ALL; zi++) {
		if (!vd_next()) {
			continue;
		}
		vd_desc("zone %s: direct calls on every transition second", sw_zones[zi]);
		snprintf(path, sizeof(path), "%s/%s", TZDIR, sw_zones[zi]);
		if (access(path, R_OK) || tzm_load(&sw_tab, TZDIR, sw_zones[zi]) < 0) {
			vd_count("zones_not_installed", 1);
			continue;
		}
		sw_direct(sw_zones[zi]);
		if (zi < 3) {
			vd_sample("zone %s: offs/loc at T-1, T, T+1 and utc at their wall-clock images for the transitions of 1902..2037 (%d in the table)", sw_zones[zi], sw_tab.n);
		}
	}
	/* (a) */
	for (int zi = 0; zi < nzs; zi++) {
		int have = -1;
		for (int y = y0; y <= y1; y++) {
			char dtline[120];
			int nsw = 0, stop;
			const int64_t a = rf_days(y, 1, 1) * 86400, e = rf_days(y + 1, 1, 1) * 86400;

			if (!vd_next()) {
				continue;
			}
			vd_desc("zone %s year %d: HOURLY, MINUTELY;INTERVAL=30 and 24 DAILY events from January 1st", sw_zones[zi], y);
			if (have < 0) {
				snprintf(path, sizeof(path), "%s/%s", TZDIR, sw_zones[zi]);
				have = !access(path, R_OK) && tzm_load(&sw_tab, TZDIR, sw_zones[zi]) == 0;
			}
			if (!have) {
				vd_count("zones_not_installed", 1);
				continue;
			}
			for (int k = 0; k < sw_tab.n; k++) {
				nsw += sw_tab.t[k] >= a && sw_tab.t[k] < e && sw_tab.t[k] % 1800 == 0;
			}
			if (vd_only < 0 && sw_stream_hangs() >= 6) {
				/* every hang costs the two budgets: after six in one shard the remaining (zone, year) cases are left out, counted;
				 * a case that is run is run as it would be alone */
				vd_count("left_out_after_repeated_hangs", 1);
				continue;
			}
			vd_count("switch_seconds_on_the_half_hour_grid", nsw);
			if (nsw) {
				vd_nontrivial();
			}
			snprintf(dtline, sizeof(dtline), "DTSTART;TZID=%s:%04d0101T000000", sw_zones[zi], y);
			stop = sw_stream(dtline, "FREQ=HOURLY", 8790, "HOURLY");
			stop = stop || sw_stream(dtline, "FREQ=MINUTELY;INTERVAL=30", 17580, "MINUTELY-i30");
			for (int h = 0; h < 24 && !stop; h++) {
				snprintf(dtline, sizeof(dtline), "DTSTART;TZID=%s:%04d0101T%02d0000", sw_zones[zi], y, h);
				stop = sw_stream(dtline, "FREQ=DAILY", 366, "DAILY");
			}
			if (y == y0 + 5) {
				vd_sample("DTSTART;TZID=%s:%04d0101T000000 RRULE:FREQ=HOURLY;COUNT=8790, ...FREQ=MINUTELY;INTERVAL=30;COUNT=17580, DTSTART at 00..23 o'clock RRULE:FREQ=DAILY;COUNT=366: %d switch seconds of the zone on these grids", sw_zones[zi], y, nsw);
			}
		}
	}
}

/* ------------------------------------------------------------------ */
static void
enumerate(void)
{
	static int ivals[16];
	struct rg_cfg_s c = {0};
	const char *mode = vd_opt("mode", "hostile");
	const char *iv = vd_opt("intervals", "1,2");
	const char *ex = vd_opt("exts", "min");

	vd_count_cases = 0;
	c.freq_lo = (int)vd_opt_l("freqlo", RF_YEARLY);
	c.freq_hi = (int)vd_opt_l("freqhi", RF_SECONDLY);
	c.maxparts = (int)vd_opt_l("maxparts", 1);
	c.maxdateparts3 = (int)vd_opt_l("date3", 0);
	c.menucap = (int)vd_opt_l("menucap", 0);
	c.nintervals = rg_list(ivals, 16, iv);
	c.intervals = ivals;
	nanchors = (int)vd_opt_l("anchors", 4);
	npops = vd_opt_l("pops", MAXPOPS);
	if (npops > MAXPOPS) npops = MAXPOPS;
	b1 = strtod(vd_opt("b1", "0.25"), NULL);
	b2 = strtod(vd_opt("b2", "3"), NULL);
	ext_level = !strcmp(ex, "none") ? 0 : !strcmp(ex, "all") ? 2 : 1;
	hostile_quick = (int)vd_opt_l("hquick", 0);
	sf_init();
	if (!strcmp(mode, "grammar")) {
		rg_enumerate(&c, grammar_rule, NULL);
	} else if (!strcmp(mode, "hostile")) {
		gen_hostile(hostile_case, NULL);
	} else if (!strcmp(mode, "fillers")) {
		gbuf_init();
		gen_hostile(filler_hostile, NULL);
		if (!strcmp(vd_opt("fillrules", "all"), "all")) {
			rg_enumerate(&c, filler_grammar, NULL);
		}
	} else if (!strcmp(mode, "tzswitch")) {
		enum_tzswitch();
	} else if (!strcmp(mode, "selfex")) {
		/* a rule that is its own exception rule: the set is empty, the first call must say so within the budget
		 * (the filter walks the two streams in step; for an unlimited rule that is a walk to the end of time) */
		static const char *const tails[] = {"", ";INTERVAL=2", ";BYMONTH=1", ";COUNT=100000"};
		static const char *const dts[] = {"DTSTART:20240229T103015", "DTSTART;VALUE=DATE:20240229"};
		for (int f = RF_YEARLY; f <= RF_SECONDLY; f++) {
			for (size_t t = 0; t < sizeof(tails) / sizeof(*tails); t++) {
				for (size_t d = 0; d < 2; d++) {
					struct cas_s cs;
					struct res_s r;
					char rrule[200], extra[300];
					if (d && f >= RF_HOURLY) continue;
					if (!vd_next()) continue;
					memset(&cs, 0, sizeof(cs));
					cs.freq = f;
					cs.dtline = dts[d];
					cs.emb = "its-own-exrule";
					snprintf(cs.shape, sizeof(cs.shape), "%s/self-excluded/%s", fnm[f], tails[t][0] ? (strstr(tails[t], "COUNT") ? "COUNT" : "limited-part") : "plain");
					snprintf(rrule, sizeof(rrule), "FREQ=%s%s", fnm[f], tails[t]);
					snprintf(extra, sizeof(extra), "EXRULE:%s\n", rrule);
					cs.rrule = rrule;
					cs.extra = extra;
					parse_rule(&cs.pr, rrule);
					if (run(&cs, &r) && r.n > 0) {
						char sig[320];
						snprintf(sig, sizeof(sig), "empty-yields/%s/%s", cs.shape, cs.emb);
						vd_viol(sig, "every occurrence is excepted, yet the stream yields %ld", r.n);
					}
					vd_nontrivial();
				}
			}
		}
	} else {
		fprintf(stderr, "c09: unknown mode %s\n", mode);
		exit(2);
	}
}

int
main(int argc, char *argv[])
{
	return vd_main(argc, argv, enumerate);
}
