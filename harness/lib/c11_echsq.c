/* C11 -- the client side of "listing shows exactly the caller's tasks": `echsq list TUID...'.
 *
 * echsq.c is compiled into this unit unmodified (STANDALONE, main renamed) and its main() is run with a
 * real argument vector.  Only the two calls that reach the outside are taken over: socket() hands out one
 * end of a socketpair and connect() looks at the address (the abstract names of get_usock()/get_ssock()),
 * puts the stand-in's reply "HTTP/1.1 200 Ok" + a body that carries the serial number of the connection
 * into the other end and half-closes it.  echsq then writes its request, reads the reply up to the end and
 * closes; when main() is back the driver reads what every connection was sent.  No thread, no child, no
 * timing: everything is in the socket buffers.  Standard output of echsq is a scratch file (STDOUT_FILENO
 * is a variable for the included file).
 *
 * case = (form, L, n): n UIDs of L characters each (a fixed filler and the index in base 36 in the last
 * min(L,3) places), in the forms
 *    0 list   1 list -u 0   2 list --user=1000   3 next   4 list --brief   5 list --next -u65534
 *    6 list, the per-user daemon not there     7 list, the system daemon not there
 * for EVERY L in 1..maxl and EVERY n in 1..(what fills `reqs' requests)+2.
 *
 * Oracle (per daemon asked, i.e. per realm):
 *  request   every request is "GET /[u/UID/]queue|sched" [?tuid=X{&tuid=X}] " HTTP/1.1\r\n\r\n", complete, nothing
 *            behind it, not longer than 4096 octets (the size echsd reads in one go), and names at least one UID
 *            (a request without tuid= would list the whole queue although UIDs were given)
 *  asked     the multiset of tuid= values over all requests to one daemon equals the argument list: a UID that is
 *            never asked for cannot be listed, one asked for twice is listed twice
 *  realm     a daemon that is there is asked, under its own name (=echsd-<uid of the caller> / =echsd)
 *  output    what echsq prints is the bodies of the replies in the order of the connections (form 4: one
 *            "UID<tab>command" line per reply), exit code 0
 *
 * edge=1 (what the registered check runs) includes the argument lists for which a request, filled greedily, ends
 * with fewer than 14 octets free in echsq's 4096-octet buffer.  There the tree as it was pinned cut the
 * " HTTP/1.1\r\n\r\n" short (request never complete, echsd waits for the rest, echsq waits for the reply: both
 * hang), and with exactly 13 octets free it wrote the terminating NUL one past the buffer; repaired in /repo
 * (KNOWN_FINDINGS.txt, fixed: property=C11 ... echsq list).
 */
#include <stdio.h>
#include <stdlib.h>
#include <string.h>
#include <unistd.h>
#include <errno.h>
#include <fcntl.h>
#include <sys/types.h>
#include <sys/socket.h>
#include <sys/un.h>
#include <sys/stat.h>

static int c11q_socket(int dom, int typ, int proto);
static int c11q_connect(int s, const struct sockaddr *sa, socklen_t sz);
static int c11q_out = -1;

#define STANDALONE
#define main	echsq_main
#define socket	c11q_socket
#define connect	c11q_connect
#undef STDOUT_FILENO
#define STDOUT_FILENO	c11q_out
#include "echsq.c"
#undef main
#undef socket
#undef connect
#undef STDOUT_FILENO
#define STDOUT_FILENO	1
#include "vdrv.h"

#define MAXCONN	64
#define REQMAX	4096
#define NCODE	46656	/* 36^3 */

struct conn_s {
	int a, b;
	int realm;	/* 0 per-user, 1 system-wide, -1 none/unknown */
	int up;		/* connect() succeeded */
	int serial;	/* among the connections that succeeded */
	char name[120];
};
static struct conn_s conn[MAXCONN];
static int nconn, nup, noverflow;
static int refuse[2];
static int brief_form;

static const char hdr[] = "HTTP/1.1 200 Ok\r\n\r\n";

static int
body_of(char *buf, size_t bsz, int serial)
{
	return snprintf(buf, bsz, "BEGIN:VCALENDAR\r\nVERSION:2.0\r\nBEGIN:VEVENT\r\nUID:reply-%d\r\n"
			"SUMMARY:job %d\r\nDTSTART:20300101T000000Z\r\nEND:VEVENT\r\nEND:VCALENDAR\r\n", serial, serial);
}

static int
c11q_socket(int dom, int typ, int proto)
{
	int sv[2];

	(void)proto;
	if (dom != AF_UNIX || typ != SOCK_STREAM) {
		errno = EAFNOSUPPORT;
		return -1;
	}
	if (nconn >= MAXCONN) {
		noverflow++;
		errno = EMFILE;
		return -1;
	}
	if (socketpair(AF_UNIX, SOCK_STREAM, 0, sv) < 0) {
		return -1;
	}
	conn[nconn] = (struct conn_s){.a = sv[0], .b = sv[1], .realm = -1};
	nconn++;
	return sv[0];
}

static int
c11q_connect(int s, const struct sockaddr *sa, socklen_t sz)
{
	static const char sysname[] = "/var/run/echse/=echsd";
	const struct sockaddr_un *su = (const void*)sa;
	struct conn_s *c = NULL;
	char usrname[64], rpl[512];
	size_t plen;
	int n;

	for (int i = nconn - 1; i >= 0; i--) {
		if (conn[i].a == s && !conn[i].up) {
			c = conn + i;
			break;
		}
	}
	if (c == NULL || sa->sa_family != AF_UNIX || sz <= sizeof(su->sun_family) + 1U) {
		errno = EINVAL;
		return -1;
	}
	plen = sz - sizeof(su->sun_family);
	if (su->sun_path[0] != '\0') {
		/* a name in the file system: no daemon of ours there */
		errno = ECONNREFUSED;
		return -1;
	}
	/* abstract name, keep it for the reports */
	snprintf(c->name, sizeof(c->name), "%.*s", (int)(plen - 1U < sizeof(c->name) - 1U ? plen - 1U : sizeof(c->name) - 1U), su->sun_path + 1);
	snprintf(usrname, sizeof(usrname), "%s-%u", sysname, (unsigned int)getuid());
	if (plen - 1U == strlen(sysname) && !memcmp(su->sun_path + 1, sysname, plen - 1U)) {
		c->realm = 1;
	} else if (plen - 1U == strlen(usrname) && !memcmp(su->sun_path + 1, usrname, plen - 1U)) {
		c->realm = 0;
	} else {
		/* nobody listens under that name */
		c->realm = -1;
		errno = ECONNREFUSED;
		return -1;
	}
	if (refuse[c->realm]) {
		errno = ECONNREFUSED;
		return -1;
	}
	c->up = 1;
	c->serial = nup++;
	/* the whole reply is on its way before the request: echsq cannot tell */
	n = snprintf(rpl, sizeof(rpl), "%s", hdr);
	n += body_of(rpl + n, sizeof(rpl) - n, c->serial);
	if (write(c->b, rpl, n) != n || shutdown(c->b, SHUT_WR) < 0) {
		errno = ECONNREFUSED;
		c->up = 0;
		return -1;
	}
	return 0;
}

/* --- the cases --- */
struct form_s {
	const char *name;
	const char *cmd;
	const char *opt[2];	/* options in front of the UIDs */
	const char *path;	/* what the request line must start with */
	int refuse0, refuse1, brief;
	const char *cls;	/* coarse class for the signatures of the asked clause */
};
static const struct form_s forms[] = {
	{"list", "list", {NULL, NULL}, "GET /queue", 0, 0, 0, "plain"},
	{"list-u0", "list", {"-u", "0"}, "GET /u/0/queue", 0, 0, 0, "user"},
	{"list-u1000", "list", {"--user=1000", NULL}, "GET /u/1000/queue", 0, 0, 0, "user"},
	{"next", "next", {NULL, NULL}, "GET /sched", 0, 0, 0, "plain"},
	{"brief", "list", {"--brief", NULL}, "GET /queue", 0, 0, 1, "plain"},
	{"next-u65534", "list", {"--next", "-u65534"}, "GET /u/65534/sched", 0, 0, 0, "user"},
	{"list-nouserd", "list", {NULL, NULL}, "GET /queue", 1, 0, 0, "one-daemon"},
	{"list-nosysd", "list", {NULL, NULL}, "GET /queue", 0, 1, 0, "one-daemon"},
};
#define NFORMS	((int)(sizeof(forms) / sizeof(*forms)))

static const char filler[] = "nightly-backup-of-the-accounts@some-quite-long-host-name.example.com-";
static const char b36[] = "0123456789abcdefghijklmnopqrstuvwxyz";

static int
codew(int L)
{
	return L < 3 ? L : 3;
}

static long
ncodes(int L)
{
	return L == 1 ? 36 : L == 2 ? 1296 : NCODE;
}

static void
mkuid(char *dst, int L, long i)
{
	const int w = codew(L);
	long c = i % ncodes(L);

	for (int k = 0; k < L - w; k++) {
		dst[k] = filler[k % (sizeof(filler) - 1U)];
	}
	for (int k = L - 1; k >= L - w; k--, c /= 36) {
		dst[k] = b36[c % 36];
	}
	dst[L] = '\0';
}

/* code of a UID of the case, -1 if it is none of them */
static long
uidcode(const char *p, size_t len, int L)
{
	const int w = codew(L);
	long c = 0;

	if (len != (size_t)L) {
		return -1;
	}
	for (int k = 0; k < L - w; k++) {
		if (p[k] != filler[k % (sizeof(filler) - 1U)]) {
			return -1;
		}
	}
	for (int k = L - w; k < L; k++) {
		const char *d = memchr(b36, p[k], 36);
		if (d == NULL || !p[k]) {
			return -1;
		}
		c = c * 36 + (d - b36);
	}
	return c;
}

/* greedy filling of a 4096-octet buffer: does some request end with fewer than 14 octets free?
 * also the number of UIDs of a full request */
static int
tight(int plen, int L, long n, long *perreq)
{
	const long q = 6 + L;
	long left = n;
	int r = 0;

	*perreq = (4095 - plen) / q;
	while (left > 0) {
		long k = left < *perreq ? left : *perreq;
		if (k < 1) {
			return 1;
		}
		if (plen + k * q >= 4083) {
			r = 1;
		}
		left -= k;
	}
	return r;
}

/* a UID so long that "?tuid=" + UID + " HTTP/1.1\r\n\r\n" cannot follow the path in one 4096-octet request: echsq cannot
 * ask for it at all.  What it does instead (give up with an error) is not judged; what it sends, if anything, still
 * has to be a complete request */
static int unfittable;

static int want[NCODE], got[NCODE];
static long asked[8192];	/* codes in the order asked, per realm */
static char reqstart[8192];
static char **uids;
static long nuids_made;
static int uids_L;

static const char*
Lclass(int L)
{
	return L <= 2 ? "L1-2" : L <= 16 ? "L3-16" : L <= 64 ? "L17-64" : "L65+";
}

static void
run_case(const struct form_s *f, int L, long n, long perreq)
{
	static char req[REQMAX * 4], out[65536], exp[65536];
	char sig[VD_SIGLEN];
	char *argv[8200];
	int argc = 0, rc;
	ssize_t outlen;
	size_t explen = 0;
	int nreq[2] = {0, 0};

	/* arguments */
	argv[argc++] = "echsq";
	argv[argc++] = (char*)f->cmd;
	char obuf[2][24];
	for (int k = 0; k < 2; k++) {
		if (f->opt[k]) {
			/* yuck writes into option strings (the = of long options), keep ours private */
			snprintf(obuf[k], sizeof(obuf[k]), "%s", f->opt[k]);
			argv[argc++] = obuf[k];
		}
	}
	for (long i = 0; i < n; i++) {
		argv[argc++] = uids[i];
	}
	argv[argc] = NULL;

	nconn = nup = noverflow = 0;
	refuse[0] = f->refuse0;
	refuse[1] = f->refuse1;
	brief_form = f->brief;
	if (ftruncate(c11q_out, 0) < 0 || lseek(c11q_out, 0, SEEK_SET) < 0) {
		vd_viol("harness/scratch", "cannot reset the scratch file: %s", strerror(errno));
		return;
	}

	rc = echsq_main(argc, argv);

	if (rc != 0 && !unfittable) {
		snprintf(sig, sizeof(sig), "output/exit-code/%s", f->name);
		vd_viol(sig, "echsq returns %d although every request was answered with 200", rc);
	}
	if (noverflow) {
		snprintf(sig, sizeof(sig), "request/too-many-connections/%s", f->name);
		vd_viol(sig, "more than %d connections for %ld UIDs", MAXCONN, n);
	}

	/* what was sent, realm by realm */
	for (int realm = 0; realm < 2; realm++) {
		long nasked = 0;
		int bad = 0;

		for (int ci = 0; ci < nconn; ci++) {
			struct conn_s *c = conn + ci;
			size_t rz = 0, pz = strlen(f->path), at;
			ssize_t nrd;
			long ntu = 0;

			if (!c->up || c->realm != realm) {
				continue;
			}
			while (rz < sizeof(req) - 1U && (nrd = recv(c->b, req + rz, sizeof(req) - 1U - rz, MSG_DONTWAIT)) > 0) {
				rz += nrd;
			}
			req[rz] = '\0';
			nreq[realm]++;
			vd_sh->evals++;
			if (nrd < 0 && rz < sizeof(req) - 1U) {
				/* no end of file: echsq has not closed its end */
				snprintf(sig, sizeof(sig), "request/left-open/%s", f->name);
				vd_viol(sig, "connection #%d (%s) is still open when echsq is done", c->serial, c->name);
			}
			if (rz > REQMAX) {
				snprintf(sig, sizeof(sig), "request/too-long/%s/%s", f->name, Lclass(L));
				vd_viol(sig, "request #%d to %s has %zu octets", nreq[realm], c->name, rz);
				bad = 1;
			}
			if (rz < pz || memcmp(req, f->path, pz) || (req[pz] != '?' && req[pz] != ' ')) {
				snprintf(sig, sizeof(sig), "request/line/%s", f->name);
				vd_viol(sig, "request #%d to %s starts with `%.40s', expected `%s'", nreq[realm], c->name, req, f->path);
				bad = 1;
				continue;
			}
			at = pz;
			for (char sep = '?'; at < rz && req[at] == sep; sep = '&') {
				size_t e;
				long code;

				if (rz - at < 6U || memcmp(req + at + 1U, "tuid=", 5U)) {
					break;
				}
				at += 6U;
				for (e = at; e < rz && req[e] != '&' && req[e] != ' ' && req[e] != '\r' && req[e] != '\n' && req[e]; e++);
				code = uidcode(req + at, e - at, L);
				if (code < 0) {
					snprintf(sig, sizeof(sig), "asked/not-an-argument/%s/%s", f->name, Lclass(L));
					vd_viol(sig, "request #%d to %s asks for `%.*s' which is not among the arguments", nreq[realm], c->name, (int)(e - at > 100 ? 100 : e - at), req + at);
					bad = 1;
				} else if (nasked < (long)(sizeof(asked) / sizeof(*asked))) {
					reqstart[nasked] = (char)(ntu == 0);
					asked[nasked++] = code;
				}
				ntu++;
				at = e;
			}
			{
				static const char vers[] = " HTTP/1.1\r\n\r\n";
				const size_t vz = sizeof(vers) - 1U;
				const size_t restz = rz - at;

				if (restz == vz && !memcmp(req + at, vers, vz)) {
					;
				} else if (restz < vz && !memcmp(req + at, vers, restz)) {
					snprintf(sig, sizeof(sig), "request/incomplete/%s/%s/%s", f->name, Lclass(L), rz >= 4084U ? "buffer-full" : "room-left");
					vd_viol(sig, "request #%d to %s (%zu octets, %ld UIDs) ends `%.*s' without the full \" HTTP/1.1\\r\\n\\r\\n\": echsd waits for the rest, echsq for the reply",
						nreq[realm], c->name, rz, ntu, (int)(rz > 24 ? 24 : rz), req + (rz > 24 ? rz - 24 : 0));
					bad = 1;
				} else {
					snprintf(sig, sizeof(sig), "request/malformed/%s/%s", f->name, Lclass(L));
					vd_viol(sig, "request #%d to %s (%zu octets): after %ld tuid parameters comes `%.30s'", nreq[realm], c->name, rz, ntu, req + at);
					bad = 1;
				}
			}
			if (ntu == 0 && n > 0) {
				snprintf(sig, sizeof(sig), "request/unfiltered/%s/%s", f->name, Lclass(L));
				vd_viol(sig, "request #%d to %s names no UID although %ld were given: the whole queue is listed", nreq[realm], c->name, n);
			}
		}
		if (refuse[realm]) {
			if (nreq[realm]) {
				vd_viol("harness/refused-but-asked", "realm %d", realm);
			}
			continue;
		}
		if (unfittable) {
			continue;
		}
		if (nreq[realm] == 0) {
			snprintf(sig, sizeof(sig), "realm/never-asked/%s/%s", f->name, realm ? "system" : "user");
			vd_viol(sig, "the %s daemon is there but got no request (%d connections made)", realm ? "system-wide" : "per-user", nconn);
			continue;
		}
		/* multiset */
		{
			const long nc = n < ncodes(L) ? n : ncodes(L);
			long miss = 0, dup = 0, alien = 0, first, p;
			const char *where;

			for (long i = 0; i < nc; i++) {
				want[i] = got[i] = 0;
			}
			for (long i = 0; i < nasked; i++) {
				want[asked[i]] = got[asked[i]] = 0;
			}
			for (long i = 0; i < n; i++) {
				want[i % ncodes(L)]++;
			}
			for (long i = 0; i < nasked; i++) {
				got[asked[i]]++;
			}
			for (long i = 0; i < nc; i++) {
				if (got[i] < want[i]) {
					miss += want[i] - got[i];
				} else if (got[i] > want[i]) {
					dup += got[i] - want[i];
				}
			}
			for (long i = 0; i < nasked; i++) {
				/* looks like one of ours but lies beyond the arguments */
				alien += asked[i] >= nc;
			}
			if (miss || dup || alien) {
				/* where the two sequences part */
				for (p = 0; p < n && p < nasked && asked[p] == p % ncodes(L); p++);
				first = p;
				where = p >= nasked ? "at-the-end" : p == 0 ? "at-the-start" : reqstart[p] ? "at-a-split" : "inside-a-request";
				if (miss) {
					snprintf(sig, sizeof(sig), "asked/never/%s/%s/%s/%s", f->cls, Lclass(L), where, nreq[realm] > 1 ? "split" : "one-request");
					vd_viol(sig, "%s daemon: %ld of %ld UIDs are in none of the %d requests, the first is argument #%ld `%s' (%s); %ld UIDs fit one request",
						realm ? "system-wide" : "per-user", miss, n, nreq[realm], first, first < n ? uids[first] : "-", where, perreq);
				}
				if (dup || alien) {
					snprintf(sig, sizeof(sig), "asked/%s/%s/%s/%s/%s", dup ? "more-than-once" : "not-an-argument", f->cls, Lclass(L), where, nreq[realm] > 1 ? "split" : "one-request");
					vd_viol(sig, "%s daemon: %ld UIDs are asked for more often than they were given, %ld were not given at all (%ld given, %ld asked for in %d requests), sequences part at #%ld (%s)",
						realm ? "system-wide" : "per-user", dup, alien, n, nasked, nreq[realm], first, where);
				}
			}
		}
		(void)bad;
	}

	/* what echsq printed */
	for (int ci = 0; ci < nconn; ci++) {
		if (!conn[ci].up) {
			continue;
		}
		if (explen + 512U < sizeof(exp)) {
			if (f->brief) {
				explen += snprintf(exp + explen, sizeof(exp) - explen, "reply-%d\tjob %d\n", conn[ci].serial, conn[ci].serial);
			} else {
				explen += body_of(exp + explen, sizeof(exp) - explen, conn[ci].serial);
			}
		}
	}
	outlen = pread(c11q_out, out, sizeof(out) - 1U, 0);
	if (outlen < 0) {
		outlen = 0;
	}
	out[outlen] = '\0';
	if ((size_t)outlen != explen || memcmp(out, exp, explen)) {
		size_t d;
		for (d = 0; d < explen && d < (size_t)outlen && out[d] == exp[d]; d++);
		snprintf(sig, sizeof(sig), "output/%s/%s", f->name, (size_t)outlen < explen ? "short" : (size_t)outlen > explen ? "long" : "differs");
		vd_viol(sig, "%d replies of %zu octets in all, echsq prints %zd octets; first difference at octet %zu: printed `%.30s' expected `%.30s'",
			nup, explen, outlen, d, out + d, exp + d);
	}

	for (int ci = 0; ci < nconn; ci++) {
		close(conn[ci].b);
		/* echsq closed its end; if it did not, do it now (reported above as left-open) */
		if (fcntl(conn[ci].a, F_GETFD) >= 0) {
			/* the number may have been taken by a later socket of ours, close only if it is not one of the b ends */
			int mine = 0;
			for (int k = 0; k < nconn; k++) {
				mine |= conn[k].b == conn[ci].a || (k > ci && conn[k].a == conn[ci].a);
			}
			if (!mine) {
				close(conn[ci].a);
			}
		}
	}
	if (nreq[0] > 1 || nreq[1] > 1) {
		vd_nontrivial();
	}
	vd_count("requests", nreq[0] + nreq[1]);
	if (vd_want_sample() && (nreq[0] > 2 || nreq[1] > 2)) {
		vd_sample("%s with %ld UIDs of %d characters: %d + %d requests, every UID asked for once per daemon, %zd octets printed", f->name, n, L, nreq[0], nreq[1], outlen);
	}
}

static void
enumerate(void)
{
	const int maxl = (int)vd_opt_l("maxl", 128);
	const int minl = (int)vd_opt_l("minl", 1);
	const int reqs = (int)vd_opt_l("reqs", 3);
	const int edge = (int)vd_opt_l("edge", 0);
	const long onlyform = vd_opt_l("form", -1);
	char fn[] = "/dev/shm/c11q_XXXXXX", fn2[] = "/tmp/c11q_XXXXXX";

	if ((c11q_out = mkstemp(fn)) >= 0) {
		unlink(fn);
	} else if ((c11q_out = mkstemp(fn2)) >= 0) {
		unlink(fn2);
	} else {
		fprintf(stderr, "c11_echsq: no scratch file\n");
		exit(2);
	}
	vd_count_cases = 1;

	for (int L = minl; L <= maxl; L++) {
		/* the UIDs of this length */
		long most = 0;
		for (int fi = 0; fi < NFORMS; fi++) {
			long per;
			(void)tight((int)strlen(forms[fi].path), L, 1, &per);
			if (per * reqs + 2 > most) {
				most = per * reqs + 2;
			}
		}
		if (most > 8000) {
			most = 8000;
		}
		if (uids != NULL) {
			for (long i = 0; i < nuids_made; i++) {
				free(uids[i]);
			}
			free(uids);
		}
		uids = calloc(most + 1, sizeof(*uids));
		for (long i = 0; i < most; i++) {
			uids[i] = malloc(L + 1);
			mkuid(uids[i], L, i);
		}
		nuids_made = most;
		uids_L = L;

		for (int fi = 0; fi < NFORMS; fi++) {
			const struct form_s *f = forms + fi;
			const int plen = (int)strlen(f->path);
			long per, nmax;

			if (onlyform >= 0 && fi != onlyform) {
				continue;
			}
			(void)tight(plen, L, 1, &per);
			nmax = per * reqs + 2;
			if (nmax > most) {
				nmax = most;
			}
			for (long n = 1; n <= nmax; n++) {
				const int t = tight(plen, L, n, &per);

				if (t && !edge) {
					continue;
				}
				if (!vd_next()) {
					continue;
				}
				vd_desc("echsq %s%s%s%s%s with %ld UIDs of %d characters (%s ... %s)%s%s%s", f->cmd,
					f->opt[0] ? " " : "", f->opt[0] ? f->opt[0] : "", f->opt[1] ? " " : "", f->opt[1] ? f->opt[1] : "", n, L, uids[0], uids[n - 1],
					f->refuse0 ? ", no per-user daemon" : "", f->refuse1 ? ", no system-wide daemon" : "", t ? " [tight]" : "");
				vd_shape("%s/%s/%s", f->name, Lclass(L), t ? "tight" : n > per ? "split" : "one-request");
				unfittable = plen + 6 + L + 13 >= 4096;
				run_case(f, L, n, per);
				if (vd_stop()) {
					return;
				}
			}
		}
	}
}

int
main(int argc, char *argv[])
{
	return vd_main(argc, argv, enumerate);
}
