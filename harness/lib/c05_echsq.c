/* C05 -- the submission path of echsq: echsq.c is compiled into this unit unmodified and its own
 * add_fd() (read -> parser -> massage() -> echs_task_icalify) is run between echs_icalify_init/fini
 * exactly as cmd_add() does.  What echsq puts on the wire must read back as the task that was in the
 * file: same attributes -- except that echsq fills in working directory (cwd), shell (/bin/sh) and
 * umask (process umask) where the event left them unset (DESIGN: massage(), client-side defaults) --
 * and the same occurrences with the same durations.
 *
 * mode=sched  case = one schedule of the position sweep's table (k = 0, nothing is consumed by echsq)
 * mode=fields case = (subset of <= maxsub or >= minfull event-level properties, calendar defaults none|all)
 * mode=umask  case = (X-ECHS-UMASK value 0..0777 | absent, spelling with / without leading 0, umask of the submitting
 *             process 027 | 0 | 077): a written mask is submitted as written, an absent one as the process umask
 */
#include "echsq.c"
#include "vdrv.h"
#include "ref/icalio.h"
#include "ref/c05_sched.h"

#define HCWD	"/tmp"
#define HUMASK	027

static int srcfd = -1, tgtfd = -1;
static int proc_umask = HUMASK;	/* the umask of this process = what echsq fills in for an event without X-ECHS-UMASK */

static int
tmpfd(void)
{
	char fn[] = "/dev/shm/c05q_XXXXXX";
	char fn2[] = "/tmp/c05q_XXXXXX";
	int fd;
	if ((fd = mkstemp(fn)) >= 0) {
		unlink(fn);
	} else if ((fd = mkstemp(fn2)) >= 0) {
		unlink(fn2);
	}
	return fd;
}

/* TEXT through echsq's add path; what it wrote ends up in OUT */
static ssize_t
via_echsq(char *out, size_t osz, const char *text, size_t len)
{
	ssize_t n;

	if (srcfd < 0) {
		srcfd = tmpfd();
		tgtfd = tmpfd();
	}
	if (srcfd < 0 || tgtfd < 0 || ftruncate(srcfd, 0) < 0 || ftruncate(tgtfd, 0) < 0 ||
	    pwrite(srcfd, text, len, 0) != (ssize_t)len || lseek(srcfd, 0, SEEK_SET) < 0 || lseek(tgtfd, 0, SEEK_SET) < 0) {
		return -1;
	}
	echs_icalify_init(tgtfd, (echs_instruc_t){INSVERB_SCHE});
	add_fd(tgtfd, srcfd);
	echs_icalify_fini(tgtfd);
	if ((n = pread(tgtfd, out, osz - 1, 0)) < 0) {
		return -1;
	}
	out[n] = '\0';
	return n;
}

struct clo_s {
	const char *clause;
	const char *mid;
	const char *ctx;
};

static void
diff_cb(int fld, const char *how, const char *want, const char *got, void *clo)
{
	const struct clo_s *c = clo;
	char sig[VD_SIGLEN];
	if (c->mid) {
		snprintf(sig, sizeof(sig), "%s/%s-%s/%s/%s", c->clause, c05_fname[fld], how, c->mid, !strncmp(c->ctx, "gram-", 5) ? "gram" : c->ctx);
	} else {
		snprintf(sig, sizeof(sig), "%s/%s/%s/%s", c->clause, c05_fname[fld], how, c->ctx);
	}
	vd_viol(sig, "%s: task in the file has %s (after echsq's defaults), what echsq submits reads back as %s", c05_fname[fld], want, got);
}

/* source TEXT (one event, schedule lines SCHED) through echsq; compare.  returns remaining count or -1 */
static int
one(const char *text, const char *sched, const char *kind, const struct clo_s *ac)
{
	static char written[16384];
	static struct c05_occ oa[C05_MAXOCC + 1], ob[C05_MAXOCC + 1];
	echs_task_t a, b[2];
	struct c05_obs xa, xb;
	size_t nb;
	ssize_t wl;
	int na, nbo, ma, mb, i;
	char sig[VD_SIGLEN], b1[32], b2[32];
	char um[16];

	if ((a = ical_task1(text)) == NULL) {
		return -1;
	}
	wl = via_echsq(written, sizeof(written), text, strlen(text));
	nb = wl > 0 ? ical_tasks(b, 2U, written, (size_t)wl) : 0U;
	c05_observe(&xa, a);
	/* echsq's client-side defaults */
	if (xa.wd == NULL) xa.wd = HCWD;
	if (xa.sh == NULL) xa.sh = "/bin/sh";
	if (xa.umask < 0) xa.umask = proc_umask;
	(void)um;
	na = c05_drain(a->strm, oa, C05_MAXOCC, &ma);
	if (nb != 1U) {
		if (na > 0 || nb > 1U) {
			snprintf(sig, sizeof(sig), "%s/task/0/%s", nb ? "split" : "rejected", kind);
			vd_viol(sig, "one task with %d occurrences in the file, echsq submits %zu", na, nb);
		}
	} else {
		c05_observe(&xb, b[0]);
		c05_cmp_obs(&xa, &xb, C05_CMP_UID, diff_cb, (void*)ac);
		nbo = c05_drain(b[0]->strm, ob, C05_MAXOCC, &mb);
		for (i = 0; i < na && i < nbo && oa[i].from == ob[i].from; i++);
		if (i < na || i < nbo || ma != mb) {
			snprintf(sig, sizeof(sig), "remaining/%s/0/%s", c05_whatchanged(sched, written, na, nbo, i), kind);
			vd_viol(sig, "occurrence #%d: file %s, submitted %s (file has %d%s, submitted %d%s)", i,
				i < na ? c05_ustr(b1, sizeof(b1), oa[i].from) : "(end)", i < nbo ? c05_ustr(b2, sizeof(b2), ob[i].from) : "(end)",
				na, ma ? "+" : "", nbo, mb ? "+" : "");
		} else {
			for (i = 0; i < na && oa[i].dur == ob[i].dur; i++);
			if (i < na) {
				snprintf(sig, sizeof(sig), "duration/DURATION/0/%s", kind);
				vd_viol(sig, "duration of occurrence #%d: file %lld ms, submitted %lld ms", i, (long long)oa[i].dur, (long long)ob[i].dur);
			}
		}
	}
	if (vd_want_sample() && nb == 1U) {
		char wf[300];
		const char *p = strstr(written, "X-ECHS-SHELL");
		vd_sample("%s -> echsq writes ... %s", vd_sh->desc, c05_flat(wf, sizeof(wf), p ? p : written));
	}
	for (size_t j = 0; j < nb; j++) {
		free_echs_task(b[j]);
	}
	free_echs_task(a);
	return na;
}

static int
popcnt(unsigned x)
{
	int n = 0;
	for (; x; x &= x - 1) n++;
	return n;
}

static void
per_schedule(const char *kind, const char *lines, void *clo)
{
	static char text[4096];
	struct clo_s c = {"attr", "0", kind};
	char flat[640];
	int n;

	(void)clo;
	c05_flat(flat, sizeof(flat), lines);
	vd_desc("echsq add of %s", flat);
	vd_sh->evals++;
	c05_fields_text(text, sizeof(text), "c05-echsq@verif", C05_POS_ATTRS & ~((1U << F_LOC) | (1U << F_SHELL) | (1U << F_UMASK)),
			0, 0, 0, lines);
	n = one(text, lines, kind, &c);
	if (n >= 2) {
		vd_nontrivial();
	}
}

static void
enumerate(void)
{
	static char text[4096];

	vd_count_cases = 0;
	if (chdir(HCWD) < 0) {
		return;
	}
	(void)umask(HUMASK);
	if (!strcmp(vd_opt("mode", "sched"), "fields")) {
		const int maxsub = (int)vd_opt_l("maxsub", 2), minfull = (int)vd_opt_l("minfull", 15);
		for (int pc = 0; pc <= C05_NFLD && !vd_stop(); pc++) {
			if (pc > maxsub && pc < minfull) {
				continue;
			}
			for (unsigned mask = 0; mask < 1U << C05_NFLD; mask++) {
				if (popcnt(mask) != pc) {
					continue;
				}
				for (int cal = 0; cal < 2; cal++) {
					char ms[256];
					struct clo_s c = {"echsq-attr", NULL, mask >> F_SUID & 1U ? "suid=ev" : cal ? "suid=cal" : "suid=none"};
					if (!vd_next()) {
						continue;
					}
					vd_shape("echsq-fields/n=%d/cal=%d", pc, cal);
					c05_maskstr(ms, sizeof(ms), mask);
					vd_sh->evals++;
					vd_desc("echsq add of an event with {%s}, calendar-level defaults %s", ms, cal ? "all" : "none");
					c05_fields_text(text, sizeof(text), "c05-echsq@verif", mask, 0, 0, cal, "DTSTART:20300101T000000Z\n");
					(void)one(text, "DTSTART:20300101T000000Z\n", "single", &c);
					if (pc >= 1) {
						vd_nontrivial();
					}
				}
			}
		}
		return;
	}
	if (!strcmp(vd_opt("mode", "sched"), "umask")) {
		static const int pum[] = {027, 0, 077};
		for (int v = -1; v <= 0777 && !vd_stop(); v++) {
			for (int sp = 0; sp < (v < 0 ? 1 : 2); sp++) {
				for (int pi = 0; pi < 3; pi++) {
					const char *cls = v < 0 ? "absent" : v == 0 ? "0" : v == 0777 ? "0777" : v == 0776 ? "0776" : v < 8 ? "one-digit" : "other";
					struct clo_s c = {"echsq-umask", NULL, cls};
					char sched[128];
					if (!vd_next()) {
						continue;
					}
					vd_shape("echsq-umask/%s", cls);
					vd_sh->evals++;
					proc_umask = pum[pi];
					(void)umask((mode_t)proc_umask);
					if (v < 0) {
						snprintf(sched, sizeof(sched), "DTSTART:20300101T000000Z\nRRULE:FREQ=DAILY;COUNT=3\n");
						vd_desc("echsq add of an event without X-ECHS-UMASK, umask of the process 0%o", (unsigned)proc_umask);
					} else {
						snprintf(sched, sizeof(sched), sp ? "DTSTART:20300101T000000Z\nRRULE:FREQ=DAILY;COUNT=3\nX-ECHS-UMASK:%o\n" :
							 "DTSTART:20300101T000000Z\nRRULE:FREQ=DAILY;COUNT=3\nX-ECHS-UMASK:0%o\n", (unsigned)v);
						vd_desc("echsq add of an event with X-ECHS-UMASK:%s%o, umask of the process 0%o", sp ? "" : "0", (unsigned)v, (unsigned)proc_umask);
						vd_nontrivial();
					}
					c05_fields_text(text, sizeof(text), "c05-echsq@verif", (1U << F_SUMM) | (1U << F_LOC), 0, 0, 0, sched);
					(void)one(text, sched, "umask", &c);
				}
			}
		}
		proc_umask = HUMASK;
		(void)umask(HUMASK);
		return;
	}
	c05_for_schedules(1, (int)vd_opt_l("gram", 1), (int)vd_opt_l("maxparts", 1), (int)vd_opt_l("menucap", 1),
			  vd_opt("intervals", "1"), (int)vd_opt_l("anchors", 1), !strcmp(vd_opt("terms", "quick"), "full"),
			  (int)vd_opt_l("date3", 0), per_schedule, NULL);
}

int
main(int argc, char *argv[])
{
	return vd_main(argc, argv, enumerate);
}
