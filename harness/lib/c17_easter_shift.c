/* C17 -- BYEASTER and SHIFT mean what the README says.
 *
 * Events are built from iCalendar text through the real parser (ref/icalio.h) and the
 * stream is read with echs_evstrm_pop().  Reference: ref/computus.h (anonymous Gregorian
 * computus) and ref/civil_c15.h (day numbers, weekdays); shifts are done on day numbers.
 *
 * mode=easter   one case per N: DTSTART 1899-01-01, RRULE:FREQ=YEARLY;BYEASTER=N;
 *               the occurrences inside [Easter(1901)+N, Easter(2099)+N] must be exactly
 *               Easter(y)+N for y = 1901..2099 (N = 0: Easter Sunday itself)
 * mode=shift    one case per (family, SHIFT spec, month); inside, one stream per day of
 *               the month: RRULE:FREQ=YEARLY;BYMONTH=m;BYMONTHDAY=d;SHIFT=spec
 *     fam=plain   DTSTART 2020-01-01, no limit: for each source year 2023..2030 exactly one
 *                 acceptable image of y-m-d occurs, nothing else occurs between them
 *     fam=count   DTSTART 2023-01-01, COUNT=8
 *     fam=until   DTSTART 2023-01-01, UNTIL=2030-12-31
 *                 the whole stream must be what DTSTART/COUNT/UNTIL leave of the shifted
 *                 dates (see "oracle" below for what is left open)
 *   SHIFT specs: N (calendar days), NB, NB+, NB- for N in nlist, plus -0B and -0B-.
 * mode=setpos   BYSETPOS together with SHIFT (MONTHLY and YEARLY rules with several candidates per period), see
 *               shift_setpos(); options nmax=10 (largest |N|), ytill=2023
 *   options: nlist=all|quick (all: -366..366; quick: -8..8, +-31, +-258..262, +-300, +-366), nocount=1
 * mode=timed    SHIFT on rules with a time of day and a BYHOUR/BYMINUTE/BYSECOND list, see shift_timed()
 * mode=carry    BYEASTER with INTERVAL (and SHIFT), and sequences of BYEASTER rules expanded one after the other in one
 *               process (each against the computus, the second one also against a process of its own), see crule_judge();
 *               option alone=0 leaves the child process out
 *
 * oracle (no more than README + property text):
 *   SHIFT=N      image = date + N days.
 *   SHIFT=NB..   weekday source: N steps over Mon-Fri days.  Weekend source, N != 0: the
 *                README ("add N business days") does not say whether the move onto the
 *                adjacent business day counts as a step; both readings are accepted
 *                (Sat + 1B = Mon or Tue; Sun - 2B = Thu or Wed).  N = 0: weekend source
 *                goes to the adjacent business day, forward for 0B / 0B+, back to Friday
 *                for -0B / 0B- / -0B-; weekday source stays.  The B+/B- suffix is not
 *                given any meaning for N != 0.
 *   DTSTART/COUNT/UNTIL apply to the shifted date.  Whether they also apply to the
 *   unshifted date is left open: a source before DTSTART (behind UNTIL) whose image
 *   lies inside is optional, with every consequence for COUNT.
 */
#include "vdrv.h"
#include <stdbool.h>
#include <errno.h>
#include <unistd.h>
#include <sys/types.h>
#include <sys/wait.h>
#include "scale.h"
#include "evstrm.h"
#include "ref/icalio.h"
#include "ref/civil_c15.h"
#include "ref/computus.h"
#include "ref/c05_common.h"

/* a second pass over the same cases (sanitizer build) does not count them again */
static int nocount;
/* the limits apply to the shifted date only ("the shifted date replaces the unshifted one"): a source outside
 * DTSTART..UNTIL whose image lies inside must occur.  strict=0 leaves that open */
static int strict_limits = 1;
#define NONTRIVIAL()	(nocount ? (void)0 : vd_nontrivial())

static long
zof(echs_instant_t i)
{
	return cvl_days((int)i.y, (int)i.m, (int)i.d);
}

static const char*
zstr(char *buf, size_t bsz, long z)
{
	const struct cvl_ymd_s c = cvl_civil(z);
	static const char *wd[] = {"", "Mo", "Tu", "We", "Th", "Fr", "Sa", "Su"};
	snprintf(buf, bsz, "%04d-%02d-%02d(%s)", c.y, c.m, c.d, wd[cvl_wday(z)]);
	return buf;
}

static echs_instant_t bad_inst;
static int nbad;

/* read the stream of the one-event calendar with property LINES; day numbers of the
 * occurrences go to OUT until one lies behind ZSTOP, NMAX are found or the stream ends.
 * returns the number stored, -1 if the text gave no task.  An occurrence that is not a plain
 * all-day Gregorian date is dropped and counted in nbad (the first is kept in bad_inst). */
static int
run_stream(long *out, int nmax, const char *lines, long zstop, bool *ended)
{
	char text[1024];
	echs_task_t t;
	int n = 0;
	const int ystop = cvl_civil(zstop).y;

	ical_wrap(text, sizeof(text), "c17@verif", lines);
	*ended = false;
	nbad = 0;
	if ((t = ical_task1(text)) == NULL) {
		return -1;
	} else if (t->strm == NULL) {
		free_echs_task(t);
		return -1;
	}
	while (n < nmax) {
		const echs_event_t e = echs_evstrm_pop(t->strm);
		echs_instant_t i = e.from;

		if (echs_nul_instant_p(i)) {
			*ended = true;
			break;
		} else if ((int)i.y > ystop && echs_instant_scale(i) == SCALE_GREGORIAN) {
			/* behind the stop in any case */
			break;
		}
		if (echs_instant_scale(i) != SCALE_GREGORIAN || !echs_instant_all_day_p(i) ||
		    i.m < 1 || i.m > 12 || i.d < 1 || (int)i.d > cvl_ndim((int)i.y, (int)i.m)) {
			if (!nbad++) {
				bad_inst = i;
			}
			continue;
		}
		out[n] = zof(i);
		if (out[n] > zstop) {
			break;
		}
		n++;
	}
	free_echs_task(t);
	return n;
}

static const char*
badstr(char *buf, size_t bsz)
{
	snprintf(buf, bsz, "%u-%02u-%02u H=%u scale=%d", bad_inst.y, bad_inst.m, bad_inst.d, bad_inst.H, (int)echs_instant_scale(bad_inst));
	return buf;
}

/* ---------- BYEASTER ---------- */

static void
easter_case(int N)
{
	static long exp_[260], obs[600];
	static int expy[260];
	char lines[256], sig[160], b1[48], b2[32];
	int ne = 0, no, i, j;
	bool ended;
	long nmiss = 0, nextra = 0;
	long opt[6];
	int nopt = 0;
	const long zlo = cvl_days(1901, 1, 1), zhi = cvl_days(2099, 12, 31);
	const char *ncl = N == 0 ? "N=0" : N > 0 ? "N-pos" : "N-neg";

	/* judged: Easter years 1901..2099 whose image lies in 1901..2099 as well;
	 * the images of Easter 1900 and 2100 may or may not occur, and may be a day off
	 * (those years are outside the property's range and not leap years) */
	for (int y = 1900; y <= 2100; y++) {
		const struct cmp_md_s e = cmp_easter(y);
		const long z = cvl_days(y, e.m, e.d) + N;
		if (y == 1900 || y == 2100) {
			opt[nopt++] = z - 1, opt[nopt++] = z, opt[nopt++] = z + 1;
		} else if (z < zlo || z > zhi) {
			continue;
		} else {
			expy[ne] = y;
			exp_[ne++] = z;
		}
	}
	snprintf(lines, sizeof(lines), "DTSTART;VALUE=DATE:19010101\nRRULE:FREQ=YEARLY;BYEASTER=%d\n", N);
	vd_desc("easter N=%d: DTSTART;VALUE=DATE:19010101 RRULE:FREQ=YEARLY;BYEASTER=%d, occurrences in 1901-2099", N, N);
	no = run_stream(obs, 600, lines, zhi, &ended);
	vd_sh->evals += ne;
	if (no < 0) {
		snprintf(sig, sizeof(sig), "easter-no-stream/%s", ncl);
		vd_viol(sig, "BYEASTER=%d: the parser gave no recurring task", N);
		return;
	}
	if (nbad) {
		snprintf(sig, sizeof(sig), "easter-not-a-date/%s/%s", ncl, bad_inst.m == 13 ? "month13" : "other");
		vd_viol(sig, "BYEASTER=%d from 1901-01-01: %d occurrences are not all-day dates of the calendar, first: %s", N, nbad, badstr(b1, sizeof(b1)));
	}
	for (i = 0, j = 0; i < ne || j < no;) {
		if (j < no && obs[j] < zlo) {
			snprintf(sig, sizeof(sig), "easter-before-dtstart/%s", ncl);
			vd_viol(sig, "BYEASTER=%d from 1901-01-01: %s occurs", N, zstr(b1, sizeof(b1), obs[j]));
			j++;
		} else if (j < no && (obs[j] == opt[0] || obs[j] == opt[1] || obs[j] == opt[2] ||
				      obs[j] == opt[3] || obs[j] == opt[4] || obs[j] == opt[5])) {
			j++;
		} else if (i < ne && (j >= no || exp_[i] < obs[j])) {
			const int y = expy[i];
			const struct cvl_ymd_s c = cvl_civil(exp_[i]);
			nmiss++;
			snprintf(sig, sizeof(sig), "easter-missing/%s/lands-in-%s-year", ncl, c.y == y ? "same" : c.y > y ? "next" : "previous");
			vd_viol(sig, "BYEASTER=%d: Easter %d is %s, so %s is expected but does not occur", N, y,
				zstr(b1, sizeof(b1), exp_[i] - N), zstr(b2, sizeof(b2), exp_[i]));
			i++;
		} else if (j < no && (i >= ne || obs[j] < exp_[i])) {
			nextra++;
			snprintf(sig, sizeof(sig), "easter-extra/%s", ncl);
			vd_viol(sig, "BYEASTER=%d: %s occurs but is not Easter%+d of any year", N, zstr(b1, sizeof(b1), obs[j]), N);
			j++;
		} else {
			i++, j++;
		}
	}
	if (N == 0) {
		/* the reference itself: a Sunday between 22 March and 25 April */
		for (i = 0; i < ne; i++) {
			const struct cvl_ymd_s c = cvl_civil(exp_[i]);
			if (cvl_wday(exp_[i]) != 7 || c.m * 100 + c.d < 322 || c.m * 100 + c.d > 425) {
				fprintf(stderr, "c17: computus reference gives %d-%d-%d\n", c.y, c.m, c.d);
				_exit(3);
			}
		}
	}
	NONTRIVIAL();
	vd_count("easter_year_offsets_checked", ne);
	vd_sample("easter: BYEASTER=%d within 1901-2099: %d expected, %ld missing, %ld extra; e.g. Easter 2023 -> %s", N, ne, nmiss, nextra,
		  zstr(b1, sizeof(b1), cvl_days(2023, 4, 9) + N));
}

/* BYEASTER with a LIST of offsets (the set container changes its representation at the 13th value) */
static void
easter_list_case(const int *N, int n)
{
	static long exp_[260 * 20], obs[260 * 20 + 64];
	char lines[512], list[256] = "", sig[160], b1[48];
	int ne = 0, no;
	bool ended;
	const long zlo = cvl_days(1902, 1, 1), zhi = cvl_days(2098, 12, 31);
	size_t o = 0;

	for (int i = 0; i < n; i++) o += (size_t)snprintf(list + o, sizeof(list) - o, "%s%d", i ? "," : "", N[i]);
	for (int y = 1901; y <= 2099; y++) {
		const struct cmp_md_s e = cmp_easter(y);
		for (int i = 0; i < n; i++) {
			const long z = cvl_days(y, e.m, e.d) + N[i];
			if (z >= zlo && z <= zhi) exp_[ne++] = z;
		}
	}
	for (int i = 1; i < ne; i++) for (int j = i; j > 0 && exp_[j - 1] > exp_[j]; j--) { long x = exp_[j]; exp_[j] = exp_[j - 1]; exp_[j - 1] = x; }
	snprintf(lines, sizeof(lines), "DTSTART;VALUE=DATE:19010101\nRRULE:FREQ=YEARLY;BYEASTER=%s\n", list);
	vd_desc("easter list: DTSTART;VALUE=DATE:19010101 RRULE:FREQ=YEARLY;BYEASTER=%s, occurrences in 1902-2098", list);
	no = run_stream(obs, 260 * 20 + 64, lines, cvl_days(2099, 12, 31), &ended);
	vd_sh->evals += ne;
	if (no < 0) {
		vd_viol("easter-list-no-stream", "the parser gave no recurring task");
		return;
	}
	{
		int i = 0, j = 0;
		while (j < no && obs[j] < zlo) j++;
		for (; i < ne; i++, j++) {
			if (j >= no || obs[j] != exp_[i]) {
				/* which offset is it */
				int off = 0, yy = cvl_civil(exp_[i]).y;
				for (int q = 0; q < n; q++) for (int dy = -1; dy <= 1; dy++) {
					const struct cmp_md_s e = cmp_easter(yy + dy);
					if (yy + dy >= 1901 && yy + dy <= 2099 && cvl_days(yy + dy, e.m, e.d) + N[q] == exp_[i]) off = N[q];
				}
				snprintf(sig, sizeof(sig), "easter-list-%s/n=%s/%s", (j < no && obs[j] < exp_[i]) ? "extra" : "missing", n <= 12 ? "le12" : "ge13", off == 0 ? "N=0" : off > 0 ? "N-pos" : "N-neg");
				vd_viol(sig, "BYEASTER=%s: %s (Easter%+d) is expected as occurrence %d of the window, %s", list, zstr(b1, sizeof(b1), exp_[i]), off, i,
					j < no ? "something else is delivered there" : "the stream has ended");
				break;
			}
		}
	}
	NONTRIVIAL();
	vd_sample("easter list of %d offsets (%s): %d expected in 1902-2098, %d delivered up to 2099", n, list, ne, no);
}

/* ---------- SHIFT ---------- */

enum {F_DAY, F_B, F_BPLUS, F_BMINUS};
static const char *fname[] = {"days", "B", "B+", "B-"};

struct spec_s {
	int form;
	int n;
	bool negzero;	/* written with a minus sign although n == 0 */
	char txt[16];
};

static bool
bday_p(long z)
{
	return cvl_wday(z) <= 5;
}

/* N steps over business days from a business day */
static long
bstep(long z, int n)
{
	const int dir = n < 0 ? -1 : 1;
	for (n = n < 0 ? -n : n; n > 0; n--) {
		do {
			z += dir;
		} while (!bday_p(z));
	}
	return z;
}

/* acceptable images of day Z under SP: 1 or 2 day numbers */
static int
images(long img[2], const struct spec_s *sp, long z)
{
	if (sp->form == F_DAY) {
		img[0] = z + sp->n;
		return 1;
	} else if (bday_p(z)) {
		img[0] = bstep(z, sp->n);
		return 1;
	} else if (sp->n == 0) {
		/* direction for zero: sign, or the suffix */
		const bool back = sp->negzero || sp->form == F_BMINUS;
		for (img[0] = z; !bday_p(img[0]); img[0] += back ? -1 : 1);
		return 1;
	} else {
		/* weekend source: onto the adjacent business day in shift direction ... */
		long adj;
		for (adj = z; !bday_p(adj); adj += sp->n < 0 ? -1 : 1);
		/* ... which either is the first step or is not counted */
		img[0] = bstep(adj, sp->n < 0 ? sp->n + 1 : sp->n - 1);
		img[1] = bstep(adj, sp->n);
		return 2;
	}
}

static int
year_of(long z)
{
	return cvl_civil(z).y;
}

static const char*
nclass(const struct spec_s *sp)
{
	const int a = sp->n < 0 ? -sp->n : sp->n;
	if (a == 0) {
		return sp->negzero ? "N=-0" : "N=0";
	} else if (a <= 5) {
		return sp->n < 0 ? "N=-1..-5" : "N=1..5";
	} else if (a <= 259) {
		return sp->n < 0 ? "N=-6..-259" : "N=6..259";
	}
	/* 260 business days are 52 weeks */
	return sp->n < 0 ? "N=-260..-366" : "N=260..366";
}

/* signature component: days | B (any suffix, N != 0) | the spec itself for N = 0 */
static const char*
fgroup(const struct spec_s *sp)
{
	if (sp->form == F_DAY) {
		return "days";
	}
	return sp->n ? "B" : sp->txt;
}

static const char*
srcclass(const struct spec_s *sp, long z)
{
	if (sp->form == F_DAY) {
		return "any";
	}
	return cvl_wday(z) >= 6 ? "weekend" : "weekday";
}

static const char*
crossclass(long zsrc, long zimg)
{
	/* a shift of at most 366 (business) days ends in the same or an adjacent year, or two years away */
	const int d = year_of(zimg) - year_of(zsrc);
	return d <= -2 ? "two-years-back" : d >= 2 ? "two-years-on" : "same-or-adjacent-year";
}

#define Y0	2015
#define NSRC	56	/* source years Y0 .. Y0+NSRC-1 = 2015..2070 (8 leap days after 2023 end in 2052) */

struct src_s {
	bool valid;
	long z;		/* unshifted */
	long img[2];
	int nimg;
	int cls;	/* family B: 0 out, 1 in, 2 optional */
};

static bool
img_has(const struct src_s *s, long z)
{
	return (s->nimg > 0 && s->img[0] == z) || (s->nimg > 1 && s->img[1] == z);
}

static void
mksrc(struct src_s src[NSRC], const struct spec_s *sp, int m, int d)
{
	for (int k = 0; k < NSRC; k++) {
		const int y = Y0 + k;
		src[k].valid = d <= cvl_ndim(y, m);
		if (src[k].valid) {
			src[k].z = cvl_days(y, m, d);
			src[k].nimg = images(src[k].img, sp, src[k].z);
		}
	}
}

static void
obs_str(char *buf, size_t bsz, const long *obs, int no)
{
	size_t o = 0;
	buf[0] = '\0';
	for (int i = 0; i < no && o + 24 < bsz; i++) {
		char b[32];
		o += snprintf(buf + o, bsz - o, "%s%s", i ? " " : "", zstr(b, sizeof(b), obs[i]));
	}
}

/* family plain: DTSTART 2020-01-01, sources 2023..2030 judged */
static void
shift_plain(const struct spec_s *sp, int m, int d)
{
	struct src_s src[NSRC];
	long obs[64];
	char lines[256], sig[200], b1[48], b2[32], b3[32], ob[700];
	bool ended;
	int no;
	long lo = 0, hi = 0;
	bool any = false, missed = false;

	mksrc(src, sp, m, d);
	snprintf(lines, sizeof(lines), "DTSTART;VALUE=DATE:20200101\nRRULE:FREQ=YEARLY;BYMONTH=%d;BYMONTHDAY=%d;SHIFT=%s\n", m, d, sp->txt);
	no = run_stream(obs, 64, lines, cvl_days(2034, 12, 31), &ended);
	vd_sh->evals++;
	if (no > 0 && (d == 1 || d == 15 || d == 28)) {
		/* the rule means the same after it has been written out and read again (what echsq, the daemon's
		 * checkpoint and echse merge do to it before it is ever expanded) */
		static char text[1024], back[4096];
		static long obs2[64];
		echs_task_t t;
		ssize_t bn;
		int no2 = -1;
		bool ended2;
		ical_wrap(text, sizeof(text), "c17@verif", lines);
		if ((t = ical_task1(text)) != NULL) {
			bn = c05_seria(back, sizeof(back), &t, 1, C05_FORM_ECHSQ);
			free_echs_task(t);
			if (bn > 0) {
				/* the property lines of the written event */
				char *b = strstr(back, "BEGIN:VEVENT"), *e2 = strstr(back, "END:VEVENT");
				if (b && e2) {
					static char l2[2048];
					size_t o2 = 0;
					*e2 = '\0';
					for (char *ln = strchr(b, '\n'); ln && *++ln; ln = strchr(ln, '\n')) {
						size_t ll = strcspn(ln, "\n");
						if (!strncmp(ln, "UID", 3) || !strncmp(ln, "SUMMARY", 7)) continue;
						o2 += (size_t)snprintf(l2 + o2, sizeof(l2) - o2, "%.*s\n", (int)ll, ln);
					}
					no2 = run_stream(obs2, 64, l2, cvl_days(2034, 12, 31), &ended2);
				}
			}
		}
		vd_sh->evals++;
		if (no2 != no || memcmp(obs, obs2, sizeof(*obs) * (size_t)no)) {
			int i = 0;
			while (i < no && i < no2 && obs[i] == obs2[i]) i++;
			snprintf(sig, sizeof(sig), "shift-rewritten/%s/%s", fgroup(sp), nclass(sp));
			vd_viol(sig, "BYMONTH=%d;BYMONTHDAY=%d;SHIFT=%s: written out and read again the rule gives %s where it gave %s (occurrence %d; %d vs %d occurrences)", m, d, sp->txt,
				i < no2 ? zstr(b1, sizeof(b1), obs2[i]) : "nothing", i < no ? zstr(b2, sizeof(b2), obs[i]) : "nothing", i + 1, no2, no);
		}
	}
	if (no < 0) {
		snprintf(sig, sizeof(sig), "shift-no-stream/%s/%s", fgroup(sp), nclass(sp));
		vd_viol(sig, "BYMONTH=%d;BYMONTHDAY=%d;SHIFT=%s from 2020-01-01: the parser gave no recurring task", m, d, sp->txt);
		return;
	}
	if (nbad) {
		snprintf(sig, sizeof(sig), "shift-not-a-date/%s/%s", fgroup(sp), nclass(sp));
		vd_viol(sig, "BYMONTH=%d;BYMONTHDAY=%d;SHIFT=%s from 2020-01-01: %d occurrences are not all-day dates of the calendar, first: %s",
			m, d, sp->txt, nbad, badstr(b1, sizeof(b1)));
	}
	obs_str(ob, sizeof(ob), obs, no);
	for (int k = 2023 - Y0; k <= 2030 - Y0; k++) {
		int hits = 0;
		if (!src[k].valid) {
			continue;
		}
		for (int j = 0; j < no; j++) {
			hits += img_has(&src[k], obs[j]);
		}
		if (!any) {
			lo = hi = src[k].img[0];
			any = true;
		}
		for (int q = 0; q < src[k].nimg; q++) {
			lo = src[k].img[q] < lo ? src[k].img[q] : lo;
			hi = src[k].img[q] > hi ? src[k].img[q] : hi;
		}
		if (hits != 1) {
			missed = true;
			snprintf(sig, sizeof(sig), "shift-%s/%s/%s/%s", hits ? "twice" : "missing", fgroup(sp), nclass(sp),
				 crossclass(src[k].z, src[k].img[src[k].nimg - 1]));
			vd_viol(sig, "BYMONTH=%d;BYMONTHDAY=%d;SHIFT=%s from 2020-01-01: %s must become %s%s%s, %s; stream: %s", m, d, sp->txt,
				zstr(b1, sizeof(b1), src[k].z), zstr(b2, sizeof(b2), src[k].img[0]),
				src[k].nimg > 1 ? " or " : "", src[k].nimg > 1 ? zstr(b3, sizeof(b3), src[k].img[1]) : "",
				hits ? "both occur" : "which does not occur", ob);
			(void)srcclass;
		}
	}
	if (any) {
		/* nothing else between the first and the last judged image (a wrong image is
		 * reported once, as missing) */
		for (int j = 0; j < no && !missed; j++) {
			bool known = false;
			if (obs[j] < lo || obs[j] > hi) {
				continue;
			}
			for (int k = 0; k < NSRC && !known; k++) {
				known = src[k].valid && img_has(&src[k], obs[j]);
			}
			if (!known) {
				snprintf(sig, sizeof(sig), "shift-extra/%s/%s", fgroup(sp), nclass(sp));
				vd_viol(sig, "BYMONTH=%d;BYMONTHDAY=%d;SHIFT=%s from 2020-01-01: %s occurs but is the image of no year's %02d-%02d; stream: %s",
					m, d, sp->txt, zstr(b1, sizeof(b1), obs[j]), m, d, ob);
			}
		}
		if (d == 28) {
			vd_sample("shift plain: DTSTART 2020-01-01 BYMONTH=%d;BYMONTHDAY=%d;SHIFT=%s -> %s", m, d, sp->txt, ob);
		}
	}
}

/* family count / until: DTSTART 2023-01-01 */
static void
shift_limited(const struct spec_s *sp, int m, int d, bool until)
{
	struct src_s src[NSRC];
	long obs[64];
	char lines[256], sig[200], b1[48], ob[700], ex[700];
	bool ended;
	int no, nopt = 0, opt[NSRC];
	const long D0 = cvl_days(2023, 1, 1), U = cvl_days(2030, 12, 31);
	const int COUNT = 8;
	int firstbad = -1, nin = 0;
	const char *kind = NULL;

	mksrc(src, sp, m, d);
	if (until) {
		snprintf(lines, sizeof(lines), "DTSTART;VALUE=DATE:20230101\nRRULE:FREQ=YEARLY;BYMONTH=%d;BYMONTHDAY=%d;SHIFT=%s;UNTIL=20301231\n", m, d, sp->txt);
	} else {
		snprintf(lines, sizeof(lines), "DTSTART;VALUE=DATE:20230101\nRRULE:FREQ=YEARLY;BYMONTH=%d;BYMONTHDAY=%d;SHIFT=%s;COUNT=%d\n", m, d, sp->txt, COUNT);
	}
	no = run_stream(obs, 40, lines, cvl_days(2200, 1, 1), &ended);
	vd_sh->evals++;
	if (no < 0) {
		snprintf(sig, sizeof(sig), "limit-no-stream/%s/%s/%s", until ? "until" : "count", fgroup(sp), nclass(sp));
		vd_viol(sig, "DTSTART 2023-01-01 %s BYMONTH=%d;BYMONTHDAY=%d;SHIFT=%s: the parser gave no recurring task",
			until ? "UNTIL=2030-12-31" : "COUNT=8", m, d, sp->txt);
		return;
	}
	if (nbad) {
		snprintf(sig, sizeof(sig), "limit-not-a-date/%s/%s/%s", until ? "until" : "count", fgroup(sp), nclass(sp));
		vd_viol(sig, "DTSTART 2023-01-01 %s BYMONTH=%d;BYMONTHDAY=%d;SHIFT=%s: %d occurrences are not all-day dates of the calendar, first: %s; stream: %s",
			until ? "UNTIL=2030-12-31" : "COUNT=8", m, d, sp->txt, nbad, badstr(b1, sizeof(b1)), (obs_str(ob, sizeof(ob), obs, no), ob));
		return;
	}
	obs_str(ob, sizeof(ob), obs, no);
	/* classify the sources */
	for (int k = 0; k < NSRC; k++) {
		bool all_in = true, all_out = true;
		if (!src[k].valid) {
			src[k].cls = 0;
			continue;
		}
		for (int q = 0; q < src[k].nimg; q++) {
			const bool in = src[k].img[q] >= D0 && (!until || src[k].img[q] <= U);
			all_in &= in;
			all_out &= !in;
		}
		if (all_out) {
			src[k].cls = 0;
		} else if (all_in && (strict_limits || (src[k].z >= D0 && (!until || src[k].z <= U)))) {
			src[k].cls = 1;
		} else {
			src[k].cls = 2;
			opt[nopt++] = k;
		}
	}
	/* the edges of the source window must not matter */
	for (int k = 0; k < NSRC; k++) {
		nin += src[k].cls == 1;
	}
	if (src[0].cls || (until && src[NSRC - 1].cls) || (!until && nin < COUNT + 2)) {
		fprintf(stderr, "c17: source window too small for %s", lines);
		_exit(3);
	}
	/* every observed date obeys DTSTART / UNTIL */
	for (int j = 0; j < no; j++) {
		if (obs[j] < D0 || (until && obs[j] > U)) {
			snprintf(sig, sizeof(sig), "limit-%s/%s/%s/%s", obs[j] < D0 ? "before-dtstart" : "behind-until", until ? "until" : "count",
				 fgroup(sp), nclass(sp));
			vd_viol(sig, "DTSTART 2023-01-01 %s BYMONTH=%d;BYMONTHDAY=%d;SHIFT=%s: %s occurs; stream: %s", until ? "UNTIL=2030-12-31" : "COUNT=8",
				m, d, sp->txt, zstr(b1, sizeof(b1), obs[j]), ob);
			return;
		}
	}
	if (!ended) {
		snprintf(sig, sizeof(sig), "limit-no-end/%s/%s/%s", until ? "until" : "count", fgroup(sp), nclass(sp));
		vd_viol(sig, "DTSTART 2023-01-01 %s BYMONTH=%d;BYMONTHDAY=%d;SHIFT=%s: more than 40 occurrences; stream: %s", until ? "UNTIL=2030-12-31" : "COUNT=8",
			m, d, sp->txt, ob);
		return;
	}
	if (!until && no > COUNT) {
		snprintf(sig, sizeof(sig), "limit-count-exceeded/%s/%s", fgroup(sp), nclass(sp));
		vd_viol(sig, "DTSTART 2023-01-01 COUNT=8 BYMONTH=%d;BYMONTHDAY=%d;SHIFT=%s: %d occurrences; stream: %s", m, d, sp->txt, no, ob);
		return;
	}
	/* try every choice of optional sources (all of them first); for the report keep the
	 * choice that agrees longest */
	for (unsigned mask = (1U << nopt) - 1U;; mask--) {
		int seq[NSRC], ns = 0, i;
		for (int k = 0; k < NSRC; k++) {
			bool take = src[k].cls == 1;
			for (int q = 0; q < nopt; q++) {
				take |= opt[q] == k && (mask >> q & 1U);
			}
			if (take) {
				seq[ns++] = k;
			}
		}
		if (!until && ns > COUNT) {
			ns = COUNT;
		}
		for (i = 0; i < ns && i < no && img_has(&src[seq[i]], obs[i]); i++);
		if (i == ns && ns == no) {
			kind = NULL;
			break;
		}
		if (i > firstbad) {
			size_t o = 0;
			firstbad = i;
			if (i >= ns) {
				kind = "extra";
			} else if (i >= no) {
				kind = "missing";
			} else {
				kind = "wrong-date";
			}
			ex[0] = '\0';
			for (int q = 0; q < ns && o + 48 < sizeof(ex); q++) {
				char b[32], c[32];
				o += snprintf(ex + o, sizeof(ex) - o, "%s%s%s%s%s", q ? " " : "", zstr(b, sizeof(b), src[seq[q]].img[0]),
					      src[seq[q]].nimg > 1 ? "|" : "", src[seq[q]].nimg > 1 ? zstr(c, sizeof(c), src[seq[q]].img[1]) : "",
					      src[seq[q]].cls == 2 ? "?" : "");
			}
		}
		if (mask == 0U) {
			break;
		}
	}
	if (kind != NULL) {
		snprintf(sig, sizeof(sig), "limit-%s/%s/%s/%s", kind, until ? "until" : "count", fgroup(sp), nclass(sp));
		vd_viol(sig, "DTSTART 2023-01-01 %s BYMONTH=%d;BYMONTHDAY=%d;SHIFT=%s: stream: %s; expected (?: optional, |: either): %s; first difference at #%d",
			until ? "UNTIL=2030-12-31" : "COUNT=8", m, d, sp->txt, ob, ex, firstbad + 1);
	}
	if (d == 28) {
		vd_sample("shift %s: DTSTART 2023-01-01 %s BYMONTH=%d;BYMONTHDAY=%d;SHIFT=%s -> %s (%d optional sources)", until ? "until" : "count",
			  until ? "UNTIL=2030-12-31" : "COUNT=8", m, d, sp->txt, ob, nopt);
	}
}

static int
mkspecs(struct spec_s *sp, int max, const char *nlist)
{
	static int ns_[800];
	int nn = 0, k = 0;

	if (!strcmp(nlist, "all")) {
		/* simplest first: 0, 1, -1, 2, -2, ... */
		ns_[nn++] = 0;
		for (int a = 1; a <= 366; a++) {
			ns_[nn++] = a, ns_[nn++] = -a;
		}
	} else {
		ns_[nn++] = 0;
		for (int a = 1; a <= 8; a++) {
			ns_[nn++] = a, ns_[nn++] = -a;
		}
		ns_[nn++] = 31, ns_[nn++] = -31;
		/* around 52 weeks of business days, and the ends */
		for (int a = 258; a <= 262; a++) {
			ns_[nn++] = a, ns_[nn++] = -a;
		}
		ns_[nn++] = 300, ns_[nn++] = -300, ns_[nn++] = 366, ns_[nn++] = -366;
	}
	for (int i = 0; i < nn && k + 6 < max; i++) {
		const int n = ns_[i];
		sp[k] = (struct spec_s){F_DAY, n, false, ""};
		snprintf(sp[k++].txt, 16, "%d", n);
		sp[k] = (struct spec_s){F_B, n, false, ""};
		snprintf(sp[k++].txt, 16, "%dB", n);
		sp[k] = (struct spec_s){F_BPLUS, n, false, ""};
		snprintf(sp[k++].txt, 16, "%dB+", n);
		sp[k] = (struct spec_s){F_BMINUS, n, false, ""};
		snprintf(sp[k++].txt, 16, "%dB-", n);
		if (n == 0) {
			sp[k] = (struct spec_s){F_B, 0, true, "-0B"};
			k++;
			sp[k] = (struct spec_s){F_BMINUS, 0, true, "-0B-"};
			k++;
		}
	}
	return k;
}

/* family long: DTSTART in June of a year 1930..1961, followed to 2099 (>= 138 occurrences, so the 64-slot cache is
 * refilled at least twice, at a phase that moves with the DTSTART year).  Every source date from the year after
 * DTSTART on must have exactly one of its acceptable images in the stream, and nothing else may occur between the
 * first and the last judged image. */
static void
shift_long(const struct spec_s *sp, int m, int d, int y0)
{
	static long obs[400];
	static struct src_s src[200];
	char lines[256], sig[200], b1[48], b2[32], b3[32];
	bool ended;
	int no, ns = 0;
	long lo = 0, hi = 0;
	bool any = false, missed = false;

	for (int y = y0 + 1; y <= 2097; y++) {
		src[ns].valid = d <= cvl_ndim(y, m);
		if (src[ns].valid) {
			src[ns].z = cvl_days(y, m, d);
			src[ns].nimg = images(src[ns].img, sp, src[ns].z);
		}
		ns++;
	}
	snprintf(lines, sizeof(lines), "DTSTART;VALUE=DATE:%04d0601\nRRULE:FREQ=YEARLY;BYMONTH=%d;BYMONTHDAY=%d;SHIFT=%s\n", y0, m, d, sp->txt);
	no = run_stream(obs, 400, lines, cvl_days(2099, 12, 31), &ended);
	vd_sh->evals++;
	if (no < 0) {
		snprintf(sig, sizeof(sig), "long-no-stream/%s/%s", fgroup(sp), nclass(sp));
		vd_viol(sig, "BYMONTH=%d;BYMONTHDAY=%d;SHIFT=%s from %d-06-01: the parser gave no recurring task", m, d, sp->txt, y0);
		return;
	}
	for (int k = 0; k < ns; k++) {
		int hits = 0, idx = -1;
		if (!src[k].valid) continue;
		for (int j = 0; j < no; j++) {
			if (img_has(&src[k], obs[j])) hits++, idx = j;
		}
		if (!any) lo = hi = src[k].img[0], any = true;
		for (int q = 0; q < src[k].nimg; q++) {
			lo = src[k].img[q] < lo ? src[k].img[q] : lo;
			hi = src[k].img[q] > hi ? src[k].img[q] : hi;
		}
		if (hits != 1 && !missed) {
			missed = true;
			/* where in the stream the hole is: refill boundaries sit at multiples of 63 */
			int pos = 0;
			for (int j = 0; j < no; j++) pos += obs[j] < src[k].img[0];
			snprintf(sig, sizeof(sig), "long-%s/%s/%s/%s", hits ? "twice" : "missing", fgroup(sp), nclass(sp),
				 pos < 2 ? "at-start" : (pos % 63 <= 1 || pos % 63 >= 62) ? "at-refill" : "mid-cache");
			vd_viol(sig, "BYMONTH=%d;BYMONTHDAY=%d;SHIFT=%s from %d-06-01: %s must become %s%s%s, %s (it would be occurrence %d)", m, d, sp->txt, y0,
				zstr(b1, sizeof(b1), src[k].z), zstr(b2, sizeof(b2), src[k].img[0]),
				src[k].nimg > 1 ? " or " : "", src[k].nimg > 1 ? zstr(b3, sizeof(b3), src[k].img[1]) : "",
				hits ? "both occur" : "which does not occur", pos);
			(void)idx;
		}
	}
	for (int j = 0; any && j < no && !missed; j++) {
		bool known = false;
		if (obs[j] < lo || obs[j] > hi) continue;
		for (int k = 0; k < ns && !known; k++) known = src[k].valid && img_has(&src[k], obs[j]);
		if (!known) {
			snprintf(sig, sizeof(sig), "long-extra/%s/%s", fgroup(sp), nclass(sp));
			vd_viol(sig, "BYMONTH=%d;BYMONTHDAY=%d;SHIFT=%s from %d-06-01: %s occurs but is the image of no year's %02d-%02d", m, d, sp->txt, y0,
				zstr(b1, sizeof(b1), obs[j]), m, d);
			break;
		}
	}
	for (int j = 1; j < no; j++) {
		if (obs[j] <= obs[j - 1]) {
			snprintf(sig, sizeof(sig), "long-order/%s/%s", fgroup(sp), nclass(sp));
			vd_viol(sig, "BYMONTH=%d;BYMONTHDAY=%d;SHIFT=%s from %d-06-01: occurrence %d (%s) is not after occurrence %d", m, d, sp->txt, y0, j,
				zstr(b1, sizeof(b1), obs[j]), j - 1);
			break;
		}
	}
}

/* finer classes for the monthly multi family: shifts beyond a month and a half reach over two period ends */
static const char*
nclass_m(const struct spec_s *sp)
{
	const int a = sp->n < 0 ? -sp->n : sp->n;
	if (a <= 5) {
		return nclass(sp);
	} else if (a <= 45) {
		return sp->n < 0 ? "N=-6..-45" : "N=6..45";
	}
	return sp->n < 0 ? "N=-46..-366" : "N=46..366";
}

/* family multi: several selected dates per period.  DTSTART 2020-01-01, no limit.  Sources are the dates the
 * rule selects in its periods (every INTERVAL-th year / month from DTSTART's); judged are the occurrences in
 * 2023-01-01 .. 2030-12-31: each must be an acceptable image of some source, every source all of whose
 * acceptable images lie in that window must have one of them in the stream, no day occurs twice. */
struct fam_s {
	const char *name;
	const char *parts;	/* RRULE parts after FREQ/INTERVAL */
	int monthly;
};
static const struct fam_s mfam[] = {
	{"jan5+jun5", "BYMONTH=1,6;BYMONTHDAY=5", 0},
	{"dec1+dec25", "BYMONTH=12;BYMONTHDAY=1,25", 0},
	{"year-ends", "BYMONTH=1,12;BYMONTHDAY=1,31", 0},
	{"1MO+20MO", "BYDAY=1MO,20MO", 0},
	{"monthly-1+28", "BYMONTHDAY=1,28", 1},
	/* no BY part at all: the day of month comes from DTSTART (the 1st) */
	{"monthly-implicit", "", 2},
};
#define NMFAM	((int)(sizeof(mfam) / sizeof(*mfam)))

static int
multi_sources(long *z, int max, int f, int inter)
{
	int n = 0;
	if (mfam[f].monthly) {
		for (int k = 0; k < 12 * 16; k += inter) {
			const int y = 2020 + k / 12, m = 1 + k % 12;
			if (n + 2 > max) break;
			z[n++] = cvl_days(y, m, 1);
			if (mfam[f].monthly == 1) z[n++] = cvl_days(y, m, 28);
		}
		return n;
	}
	for (int y = 2020; y <= 2035 && n + 4 <= max; y += inter) {
		switch (f) {
		case 0: z[n++] = cvl_days(y, 1, 5); z[n++] = cvl_days(y, 6, 5); break;
		case 1: z[n++] = cvl_days(y, 12, 1); z[n++] = cvl_days(y, 12, 25); break;
		case 2: z[n++] = cvl_days(y, 1, 1); z[n++] = cvl_days(y, 1, 31); z[n++] = cvl_days(y, 12, 1); z[n++] = cvl_days(y, 12, 31); break;
		default: {
			long j = cvl_days(y, 1, 1);
			while (cvl_wday(j) != 1) j++;
			z[n++] = j;
			z[n++] = j + 19 * 7;
			break;
		}
		}
	}
	return n;
}

static void
shift_multi(const struct spec_s *sp, int f, int inter)
{
	static long obs[600], srcz[420];
	static struct src_s src[420];
	char lines[256], sig[200], b1[48], b2[32], b3[32];
	bool ended;
	const long Z0 = cvl_days(2023, 1, 1), Z1 = cvl_days(2030, 12, 31);
	const int ns = multi_sources(srcz, 420, f, inter);
	int no;

	for (int k = 0; k < ns; k++) {
		src[k].valid = true;
		src[k].z = srcz[k];
		src[k].nimg = images(src[k].img, sp, srcz[k]);
	}
	{
		char iv[24] = "";
		if (inter > 1) snprintf(iv, sizeof(iv), ";INTERVAL=%d", inter);
		snprintf(lines, sizeof(lines), "DTSTART;VALUE=DATE:20200101\nRRULE:FREQ=%s%s%s%s;SHIFT=%s\n", mfam[f].monthly ? "MONTHLY" : "YEARLY", iv,
			 mfam[f].parts[0] ? ";" : "", mfam[f].parts, sp->txt);
	}
	vd_desc("%s", lines);
	for (char *q = vd_sh->desc; *q; q++) if (*q == '\n') *q = ' ';
	no = run_stream(obs, 600, lines, Z1, &ended);
	vd_sh->evals++;
	if (no < 0) {
		snprintf(sig, sizeof(sig), "multi-no-stream/%s/%s/%s/i%d", mfam[f].name, fgroup(sp), (mfam[f].monthly ? nclass_m(sp) : nclass(sp)), inter);
		vd_viol(sig, "the parser gave no recurring task");
		return;
	}
	if (nbad) {
		snprintf(sig, sizeof(sig), "multi-not-a-date/%s/%s/%s/i%d", mfam[f].name, fgroup(sp), (mfam[f].monthly ? nclass_m(sp) : nclass(sp)), inter);
		vd_viol(sig, "%d occurrences are not all-day dates of the calendar, first: %s", nbad, badstr(b1, sizeof(b1)));
	}
	for (int j = 0; j < no; j++) {
		bool known = false;
		if (obs[j] < Z0 || obs[j] > Z1) continue;
		for (int k = 0; k < ns && !known; k++) known = img_has(&src[k], obs[j]);
		if (!known) {
			snprintf(sig, sizeof(sig), "multi-extra/%s/%s/%s/i%d", mfam[f].name, fgroup(sp), (mfam[f].monthly ? nclass_m(sp) : nclass(sp)), inter);
			vd_viol(sig, "%s occurs but is the image of no selected date", zstr(b1, sizeof(b1), obs[j]));
			break;
		}
	}
	for (int k = 0; k < ns; k++) {
		bool inwin = true, hit = false;
		for (int q = 0; q < src[k].nimg; q++) inwin &= src[k].img[q] >= Z0 && src[k].img[q] <= Z1;
		if (!inwin) continue;
		for (int j = 0; j < no && !hit; j++) hit = img_has(&src[k], obs[j]);
		if (!hit) {
			snprintf(sig, sizeof(sig), "multi-missing/%s/%s/%s/i%d", mfam[f].name, fgroup(sp), (mfam[f].monthly ? nclass_m(sp) : nclass(sp)), inter);
			vd_viol(sig, "%s must become %s%s%s, which does not occur", zstr(b1, sizeof(b1), src[k].z), zstr(b2, sizeof(b2), src[k].img[0]),
				src[k].nimg > 1 ? " or " : "", src[k].nimg > 1 ? zstr(b3, sizeof(b3), src[k].img[1]) : "");
			break;
		}
	}
	for (int j = 1; j < no; j++) {
		if (obs[j] <= obs[j - 1]) {
			snprintf(sig, sizeof(sig), "multi-order/%s/%s/%s/i%d", mfam[f].name, fgroup(sp), (mfam[f].monthly ? nclass_m(sp) : nclass(sp)), inter);
			vd_viol(sig, "occurrence %d (%s) is not after occurrence %d (%s)", j, zstr(b1, sizeof(b1), obs[j]), j - 1, zstr(b2, sizeof(b2), obs[j - 1]));
			break;
		}
	}
}

/* family mstart: FREQ=MONTHLY;BYMONTHDAY=d;SHIFT=spec judged from DTSTART itself on (the other families start judging
 * years later).  DTSTART 2020-01-DD.  Sources are day d of the months 2019-07 .. 2022-06; a source in DTSTART's month
 * or later all of whose acceptable images lie in DTSTART .. 2021-06-30 must have one of them in the stream; a source
 * of an earlier month may or may not show (left open, as in the header); every occurrence up to 2021-06-30 must be an
 * image of some source and lie on or after DTSTART. */
static void
shift_mstart(const struct spec_s *sp, int d, int dd)
{
	static long obs[200];
	static struct src_s src[40];
	char lines[256], sig[200], b1[48], b2[32], b3[32];
	bool ended;
	const long z0 = cvl_days(2020, 1, dd), Z1 = cvl_days(2021, 6, 30);
	int ns = 0, no;
	const char *cls = sp->n < -45 ? "N=-46..-70" : sp->n < -27 ? "N=-28..-45" : sp->n < 0 ? "N=-1..-27" : sp->n == 0 ? "N=0" : sp->n <= 27 ? "N=1..27" : sp->n <= 45 ? "N=28..45" : "N=46..70";

	for (int k = -6; k < 30; k++) {
		const int mi = 2020 * 12 + k, y = mi / 12, m = mi % 12 + 1;
		src[ns].valid = d <= cvl_ndim(y, m);
		if (src[ns].valid) {
			src[ns].z = cvl_days(y, m, d);
			src[ns].nimg = images(src[ns].img, sp, src[ns].z);
		}
		ns++;
	}
	snprintf(lines, sizeof(lines), "DTSTART;VALUE=DATE:202001%02d\nRRULE:FREQ=MONTHLY;BYMONTHDAY=%d;SHIFT=%s\n", dd, d, sp->txt);
	vd_desc("%s", lines);
	for (char *q = vd_sh->desc; *q; q++) if (*q == '\n') *q = ' ';
	no = run_stream(obs, 200, lines, Z1, &ended);
	vd_sh->evals++;
	if (no < 0) {
		snprintf(sig, sizeof(sig), "mstart-no-stream/%s/%s", fgroup(sp), cls);
		vd_viol(sig, "the parser gave no recurring task");
		return;
	}
	for (int j = 0; j < no; j++) {
		bool known = false;
		if (obs[j] > Z1) continue;
		if (obs[j] < z0) {
			snprintf(sig, sizeof(sig), "mstart-before-dtstart/%s/%s", fgroup(sp), cls);
			vd_viol(sig, "%s occurs before DTSTART", zstr(b1, sizeof(b1), obs[j]));
			break;
		}
		for (int k = 0; k < ns && !known; k++) known = src[k].valid && img_has(&src[k], obs[j]);
		if (!known) {
			snprintf(sig, sizeof(sig), "mstart-extra/%s/%s", fgroup(sp), cls);
			vd_viol(sig, "%s occurs but is the image of no month's day %d", zstr(b1, sizeof(b1), obs[j]), d);
			break;
		}
	}
	for (int k = 6; k < ns; k++) {
		bool inwin = true, hit = false;
		if (!src[k].valid) continue;
		for (int q = 0; q < src[k].nimg; q++) inwin &= src[k].img[q] >= z0 && src[k].img[q] <= Z1;
		/* the source itself must not lie before DTSTART either (that is the part left open) */
		if (!inwin || src[k].z < z0) continue;
		for (int j = 0; j < no && !hit; j++) hit = img_has(&src[k], obs[j]);
		if (!hit) {
			snprintf(sig, sizeof(sig), "mstart-missing/%s/%s/%s", fgroup(sp), cls, k == 6 ? "first-month" : "later-month");
			vd_viol(sig, "%s must become %s%s%s, which does not occur", zstr(b1, sizeof(b1), src[k].z), zstr(b2, sizeof(b2), src[k].img[0]),
				src[k].nimg > 1 ? " or " : "", src[k].nimg > 1 ? zstr(b3, sizeof(b3), src[k].img[1]) : "");
			break;
		}
	}
	for (int j = 1; j < no; j++) {
		if (obs[j] <= obs[j - 1]) {
			snprintf(sig, sizeof(sig), "mstart-order/%s/%s", fgroup(sp), cls);
			vd_viol(sig, "occurrence %d (%s) is not after occurrence %d (%s)", j, zstr(b1, sizeof(b1), obs[j]), j - 1, zstr(b2, sizeof(b2), obs[j - 1]));
			break;
		}
	}
}

/* family setpos: BYSETPOS together with SHIFT.  The rule's BY parts give several candidate dates per period (month or
 * year), BYSETPOS selects among them, SHIFT moves what was selected ("moves every selected date").  DTSTART 2019-01-01,
 * no limit, judged to the end of YTILL (2023).  The candidates of every period 2018-07 .. YTILL+1-06 (2018 .. YTILL+1)
 * are computed here from weekday / day-of-month arithmetic, BYSETPOS picks from the ascending list (n-th, or n-th from
 * the end; a position that does not exist selects nothing).
 * Oracle, same shape as mstart/multi: every occurrence up to the end of YTILL lies on or after DTSTART and is an
 * acceptable image of a selected date; a selected date on or after DTSTART all of whose acceptable images lie in
 * DTSTART .. end of YTILL has one of them in the stream; strictly increasing.
 * Left open: (1) a selected date before DTSTART whose image lies inside may or may not show; (2) a period in which the
 * shift does not keep the candidates in strict order (a business-day shift with weekend candidates: Sat+1B and Sun+1B
 * and possibly Mon+1B coincide) - there "the n-th of the set" can be read before or after the shift with different
 * results, so EVERY candidate of such a period is accepted and none is demanded. */
struct spfam_s {
	const char *name;
	const char *parts;	/* RRULE parts between FREQ and BYSETPOS */
	int monthly;
	unsigned wdmask;	/* bit 1..7 = Mon..Sun, 0 = any */
	int nmd, md[4];		/* days of month, 0 = any */
	unsigned monmask;	/* bit 1..12, 0 = any */
};
static const struct spfam_s spfam[] = {
	{"m-weekdays", "BYDAY=MO,TU,WE,TH,FR", 1, 0x3e, 0, {0}, 0},
	{"m-1+2+3", "BYMONTHDAY=1,2,3", 1, 0, 3, {1, 2, 3}, 0},
	{"m-28..31", "BYMONTHDAY=28,29,30,31", 1, 0, 4, {28, 29, 30, 31}, 0},
	{"m-1+15+31", "BYMONTHDAY=1,15,31", 1, 0, 3, {1, 15, 31}, 0},
	{"m-weekend", "BYDAY=SA,SU", 1, 0xc0, 0, {0}, 0},
	{"y-weekdays", "BYDAY=MO,TU,WE,TH,FR", 0, 0x3e, 0, {0}, 0},
	{"y-jan-weekdays", "BYMONTH=1;BYDAY=MO,TU,WE,TH,FR", 0, 0x3e, 0, {0}, 1U << 1},
	{"y-dec-weekdays", "BYMONTH=12;BYDAY=MO,TU,WE,TH,FR", 0, 0x3e, 0, {0}, 1U << 12},
	{"y-year-ends", "BYMONTH=1,12;BYMONTHDAY=1,31", 0, 0, 2, {1, 31}, 1U << 1 | 1U << 12},
};
#define NSPFAM	((int)(sizeof(spfam) / sizeof(*spfam)))

struct sppos_s {
	const char *txt;
	int n, p[2];
};
static const struct sppos_s sppos[] = {
	{"1", 1, {1, 0}}, {"-1", 1, {-1, 0}}, {"2", 1, {2, 0}}, {"-2", 1, {-2, 0}}, {"1,-1", 2, {1, -1}},
};
#define NSPPOS	((int)(sizeof(sppos) / sizeof(*sppos)))

/* ascending candidates of the period starting on day ZA and ending on day ZB */
static int
sp_cands(long *c, int max, const struct spfam_s *F, long za, long zb)
{
	int n = 0;
	for (long z = za; z <= zb && n < max; z++) {
		const struct cvl_ymd_s d = cvl_civil(z);
		if (F->monmask && !(F->monmask >> d.m & 1U)) continue;
		if (F->wdmask && !(F->wdmask >> cvl_wday(z) & 1U)) continue;
		if (F->nmd) {
			int ok = 0;
			for (int i = 0; i < F->nmd; i++) ok |= F->md[i] == d.d;
			if (!ok) continue;
		}
		c[n++] = z;
	}
	return n;
}

static void
shift_setpos(const struct spec_s *sp, int f, int ip, int ytill)
{
	static long obs[900], cand[400];
	static struct src_s src[2400];
	const struct spfam_s *F = &spfam[f];
	const struct sppos_s *P = &sppos[ip];
	char lines[256], sig[200], b1[48], b2[32], b3[32];
	bool ended;
	const long z0 = cvl_days(2019, 1, 1), Z1 = cvl_days(ytill, 12, 31);
	int ns = 0, no;
	const char *ncl = nclass_m(sp);

	/* sources: .cls 1 = selected, 2 = accepted only (period where the shift does not keep the order) */
	for (int k = F->monthly ? 2018 * 12 + 6 : 2018 * 12; k < (ytill + 1) * 12 + (F->monthly ? 6 : 12); k += F->monthly ? 1 : 12) {
		const int y = k / 12, m = k % 12 + 1;
		const long za = F->monthly ? cvl_days(y, m, 1) : cvl_days(y, 1, 1);
		const long zb = F->monthly ? cvl_days(y, m, cvl_ndim(y, m)) : cvl_days(y, 12, 31);
		const int nc = sp_cands(cand, 400, F, za, zb);
		bool ambig = false;
		long prevmax = 0;

		for (int i = 0; i < nc; i++) {
			long img[2];
			const int ni = images(img, sp, cand[i]);
			const long lo = ni > 1 && img[1] < img[0] ? img[1] : img[0];
			const long hi = ni > 1 && img[1] > img[0] ? img[1] : img[0];
			if (i && lo <= prevmax) ambig = true;
			prevmax = i && prevmax > hi ? prevmax : hi;
		}
		if (ambig) {
			for (int i = 0; i < nc && ns < 2400; i++, ns++) {
				src[ns].valid = true, src[ns].cls = 2, src[ns].z = cand[i];
				src[ns].nimg = images(src[ns].img, sp, cand[i]);
			}
			continue;
		}
		for (int q = 0; q < P->n; q++) {
			const int p = P->p[q], i = p > 0 ? p - 1 : nc + p;
			bool dup = false;
			if (i < 0 || i >= nc || ns >= 2400) continue;
			for (int j = 0; j < ns; j++) dup |= src[j].z == cand[i];
			if (dup) continue;
			src[ns].valid = true, src[ns].cls = 1, src[ns].z = cand[i];
			src[ns].nimg = images(src[ns].img, sp, cand[i]);
			ns++;
		}
	}
	snprintf(lines, sizeof(lines), "DTSTART;VALUE=DATE:20190101\nRRULE:FREQ=%s;%s;BYSETPOS=%s;SHIFT=%s\n", F->monthly ? "MONTHLY" : "YEARLY", F->parts, P->txt, sp->txt);
	vd_desc("%s", lines);
	for (char *q = vd_sh->desc; *q; q++) if (*q == '\n') *q = ' ';
	no = run_stream(obs, 900, lines, Z1, &ended);
	vd_sh->evals++;
	if (no < 0) {
		snprintf(sig, sizeof(sig), "setpos-no-stream/%s/%s/%s", F->monthly ? "monthly" : "yearly", fgroup(sp), ncl);
		vd_viol(sig, "the parser gave no recurring task");
		return;
	}
	if (nbad) {
		snprintf(sig, sizeof(sig), "setpos-not-a-date/%s/%s/%s", F->monthly ? "monthly" : "yearly", fgroup(sp), ncl);
		vd_viol(sig, "%d occurrences are not all-day dates of the calendar, first: %s", nbad, badstr(b1, sizeof(b1)));
	}
	for (int j = 0; j < no; j++) {
		bool known = false;
		if (obs[j] > Z1) continue;
		if (obs[j] < z0) {
			snprintf(sig, sizeof(sig), "setpos-before-dtstart/%s/%s/%s", F->monthly ? "monthly" : "yearly", fgroup(sp), ncl);
			vd_viol(sig, "%s occurs before DTSTART", zstr(b1, sizeof(b1), obs[j]));
			break;
		}
		for (int k = 0; k < ns && !known; k++) known = img_has(&src[k], obs[j]);
		if (!known) {
			snprintf(sig, sizeof(sig), "setpos-extra/%s/%s/%s", F->monthly ? "monthly" : "yearly", fgroup(sp), ncl);
			vd_viol(sig, "%s occurs (occurrence %d) but is the image of no date selected by BYSETPOS=%s", zstr(b1, sizeof(b1), obs[j]), j + 1, P->txt);
			break;
		}
	}
	for (int k = 0; k < ns; k++) {
		bool inwin = true, hit = false;
		if (src[k].cls != 1 || src[k].z < z0) continue;
		for (int q = 0; q < src[k].nimg; q++) inwin &= src[k].img[q] >= z0 && src[k].img[q] <= Z1;
		if (!inwin) continue;
		for (int j = 0; j < no && !hit; j++) hit = img_has(&src[k], obs[j]);
		if (!hit) {
			snprintf(sig, sizeof(sig), "setpos-missing/%s/%s/%s", F->monthly ? "monthly" : "yearly", fgroup(sp), ncl);
			vd_viol(sig, "BYSETPOS=%s selects %s, which must become %s%s%s, which does not occur", P->txt, zstr(b1, sizeof(b1), src[k].z), zstr(b2, sizeof(b2), src[k].img[0]),
				src[k].nimg > 1 ? " or " : "", src[k].nimg > 1 ? zstr(b3, sizeof(b3), src[k].img[1]) : "");
			break;
		}
	}
	for (int j = 1; j < no; j++) {
		if (obs[j] <= obs[j - 1]) {
			snprintf(sig, sizeof(sig), "setpos-order/%s/%s/%s", F->monthly ? "monthly" : "yearly", fgroup(sp), ncl);
			vd_viol(sig, "occurrence %d (%s) is not after occurrence %d (%s)", j, zstr(b1, sizeof(b1), obs[j]), j - 1, zstr(b2, sizeof(b2), obs[j - 1]));
			break;
		}
	}
}

/* family timed: a rule with a TIME of day and a list of times (BYHOUR / BYMINUTE / BYSECOND).  SHIFT moves dates, the
 * lists give every date its times of day, so the stream of the timed rule must be the days of the same rule read as an
 * all-day rule (DTSTART;VALUE=DATE, no time lists -- that stream is what the other families judge), each day exactly
 * once with each listed time, strictly increasing.  In particular a business-day shift that puts the dates of adjacent
 * periods on one day (Sat 2020-02-29 and Sun 2020-03-01 -> Mon 03-02) still delivers that day once.  With COUNT=c the
 * stream is exactly the first c instants of the unlimited one.
 * DTSTART 2020-01-01 (T09:00:00Z, the earliest listed time), judged to the end of 2030; shifts of at most 5 days. */
struct tfam_s {
	const char *name;
	const char *parts;
	int monthly;
};
static const struct tfam_s tfam[] = {
	{"m-1+last", "BYMONTHDAY=1,-1", 1},
	{"m-1+31", "BYMONTHDAY=1,31", 1},
	{"m-weekend-first+last", "BYDAY=SA,SU;BYSETPOS=1,-1", 1},
	{"m-1+2+last", "BYMONTHDAY=1,2,-1", 1},
	{"y-year-ends", "BYMONTH=1,12;BYMONTHDAY=1,31", 0},
	{"y-dec31+jan1+jan2", "BYMONTH=1,12;BYMONTHDAY=1,2,31", 0},
};
#define NTFAM	((int)(sizeof(tfam) / sizeof(*tfam)))

struct tlist_s {
	const char *name;
	const char *parts;
	int n;
	int sod[4];	/* seconds of the day, ascending */
};
static const struct tlist_s tlist[] = {
	{"h2", ";BYHOUR=9,17", 2, {9 * 3600, 17 * 3600}},
	{"h2m2", ";BYHOUR=9,17;BYMINUTE=0,30", 4, {9 * 3600, 9 * 3600 + 1800, 17 * 3600, 17 * 3600 + 1800}},
	{"m2", ";BYMINUTE=0,30", 2, {9 * 3600, 9 * 3600 + 1800}},
	{"s2", ";BYSECOND=0,30", 2, {9 * 3600, 9 * 3600 + 30}},
	{"h1", ";BYHOUR=9", 1, {9 * 3600}},
	{"none", "", 1, {9 * 3600}},
};
#define NTLIST	((int)(sizeof(tlist) / sizeof(*tlist)))

#define TMAX	12000
/* occurrences of a timed rule as (day number, second of the day); -1 no task, -2 an occurrence that is no time of the calendar */
static int
run_timed(long *zd, int *sod, int nmax, const char *lines, long zstop, bool *ended)
{
	char text[1024];
	echs_task_t t;
	int n = 0;

	ical_wrap(text, sizeof(text), "c17@verif", lines);
	*ended = false;
	if ((t = ical_task1(text)) == NULL) {
		return -1;
	} else if (t->strm == NULL) {
		free_echs_task(t);
		return -1;
	}
	while (n < nmax) {
		const echs_event_t e = echs_evstrm_pop(t->strm);
		const echs_instant_t i = e.from;

		if (echs_nul_instant_p(i)) {
			*ended = true;
			break;
		}
		if (echs_instant_scale(i) != SCALE_GREGORIAN || echs_instant_all_day_p(i) || i.H > 23 || i.M > 59 || i.S > 59 ||
		    i.m < 1 || i.m > 12 || i.d < 1 || (int)i.d > cvl_ndim((int)i.y, (int)i.m)) {
			bad_inst = i;
			n = -2;
			break;
		}
		zd[n] = zof(i);
		sod[n] = (int)i.H * 3600 + (int)i.M * 60 + (int)i.S;
		if (zd[n] > zstop) {
			break;
		}
		n++;
	}
	free_echs_task(t);
	return n;
}

static const char*
tstr(char *buf, size_t bsz, long z, int sod)
{
	const struct cvl_ymd_s c = cvl_civil(z);
	static const char *wd[] = {"", "Mo", "Tu", "We", "Th", "Fr", "Sa", "Su"};
	snprintf(buf, bsz, "%04d-%02d-%02d(%s)T%02d:%02d:%02d", c.y, c.m, c.d, wd[cvl_wday(z)], sod / 3600, sod / 60 % 60, sod % 60);
	return buf;
}

static void
shift_timed(const struct spec_s *sp, int f, int il, int cmax)
{
	static long days[2000], zd[TMAX], czd[80];
	static int sod[TMAX], csod[80];
	const struct tfam_s *F = &tfam[f];
	const struct tlist_s *L = &tlist[il];
	const long Z1 = cvl_days(2030, 12, 31);
	char lines[320], sig[200], tail[100], b1[64], b2[64];
	bool ended;
	int nd, no;
	/* where in the stream a difference sits: a batch of the cache delivers 63 occurrences, the 64th is kept back as
	 * the anchor of the next batch, so occurrence 63k (counted from 0) is the first of a batch */
#define TPOS(j)	((j) > 0 && (j) % 63 == 0 ? "at-refill" : "mid-cache")

	snprintf(tail, sizeof(tail), "%s/%s/%s/%s", F->monthly ? "monthly" : "yearly", fgroup(sp), nclass(sp), L->name);
	/* the days: the rule without time lists on an all-day DTSTART */
	snprintf(lines, sizeof(lines), "DTSTART;VALUE=DATE:20200101\nRRULE:FREQ=%s;%s;SHIFT=%s\n", F->monthly ? "MONTHLY" : "YEARLY", F->parts, sp->txt);
	nd = run_stream(days, 2000, lines, Z1, &ended);
	/* the timed rule */
	snprintf(lines, sizeof(lines), "DTSTART:20200101T090000Z\nRRULE:FREQ=%s;%s%s;SHIFT=%s\n", F->monthly ? "MONTHLY" : "YEARLY", F->parts, L->parts, sp->txt);
	vd_desc("%s (days from the same rule on DTSTART;VALUE=DATE:20200101 without the time lists), to 2030-12-31; then with COUNT=1..%d", lines, cmax);
	for (char *q = vd_sh->desc; *q; q++) if (*q == '\n') *q = ' ';
	no = run_timed(zd, sod, TMAX, lines, Z1, &ended);
	vd_sh->evals++;
	if (nd < 0 || no == -1) {
		snprintf(sig, sizeof(sig), "timed-no-stream/%s", tail);
		vd_viol(sig, "the parser gave no recurring task for the %s rule", nd < 0 ? "all-day" : "timed");
		return;
	}
	if (no == -2) {
		snprintf(sig, sizeof(sig), "timed-not-a-time/%s", tail);
		vd_viol(sig, "an occurrence is not a time of day on a date of the calendar: %u-%02u-%02u H=%u M=%u S=%u", bad_inst.y, bad_inst.m, bad_inst.d, bad_inst.H, bad_inst.M, bad_inst.S);
		return;
	}
	{
		bool bad = false;
		/* strictly increasing */
		for (int j = 1; j < no; j++) {
			if (zd[j] < zd[j - 1] || (zd[j] == zd[j - 1] && sod[j] <= sod[j - 1])) {
				snprintf(sig, sizeof(sig), "timed-%s/%s/%s", zd[j] == zd[j - 1] && sod[j] == sod[j - 1] ? "twice" : "order", tail, TPOS(j));
				vd_viol(sig, "occurrence %d (%s) is not after occurrence %d (%s)", j + 1, tstr(b1, sizeof(b1), zd[j], sod[j]), j, tstr(b2, sizeof(b2), zd[j - 1], sod[j - 1]));
				bad = true;
				break;
			}
		}
		/* day by day: the days of the all-day rule, each with exactly the listed times */
		for (int i = 0, j = 0; !bad && (i < nd || j < no);) {
			if (i < nd && (j >= no || days[i] < zd[j])) {
				snprintf(sig, sizeof(sig), "timed-day-missing/%s/%s", tail, TPOS(j));
				vd_viol(sig, "the all-day rule has %s, the timed rule has no occurrence on that day (its occurrence %d is %s)", zstr(b1, sizeof(b1), days[i]), j + 1,
					j < no ? tstr(b2, sizeof(b2), zd[j], sod[j]) : "the end of the stream");
				bad = true;
				break;
			} else if (i >= nd || zd[j] < days[i]) {
				snprintf(sig, sizeof(sig), "timed-day-extra/%s/%s", tail, TPOS(j));
				vd_viol(sig, "occurrence %d of the timed rule is %s, the all-day rule does not have that day", j + 1, tstr(b1, sizeof(b1), zd[j], sod[j]));
				bad = true;
				break;
			}
			for (int q = 0; q < L->n; q++, j++) {
				if (j >= no || zd[j] != days[i] || sod[j] != L->sod[q]) {
					snprintf(sig, sizeof(sig), "timed-times-of-day/%s/%s", tail, TPOS(j));
					vd_viol(sig, "%s must occur (time %d of %d of that day) as occurrence %d, which is %s", tstr(b1, sizeof(b1), days[i], L->sod[q]), q + 1, L->n, j + 1,
						j < no ? tstr(b2, sizeof(b2), zd[j], sod[j]) : "the end of the stream");
					bad = true;
					break;
				}
			}
			if (!bad && j < no && zd[j] == days[i]) {
				snprintf(sig, sizeof(sig), "timed-times-of-day/%s/%s", tail, TPOS(j));
				vd_viol(sig, "%s occurs as occurrence %d, the day already has its %d time(s)", tstr(b1, sizeof(b1), zd[j], sod[j]), j + 1, L->n);
				bad = true;
			}
			i++;
		}
		if (bad) {
			/* the unlimited stream is the reference of the COUNT clause */
			return;
		}
	}
	/* COUNT=c: the first c of the unlimited stream, then the end */
	for (int c = 1; c <= cmax && c + 1 < no; c++) {
		int nc;
		snprintf(lines, sizeof(lines), "DTSTART:20200101T090000Z\nRRULE:FREQ=%s;%s%s;SHIFT=%s;COUNT=%d\n", F->monthly ? "MONTHLY" : "YEARLY", F->parts, L->parts, sp->txt, c);
		nc = run_timed(czd, csod, 80, lines, cvl_days(2200, 1, 1), &ended);
		vd_sh->evals++;
		if (nc < 0) {
			snprintf(sig, sizeof(sig), "timed-count-%s/%s", nc == -1 ? "no-stream" : "not-a-time", tail);
			vd_viol(sig, "COUNT=%d: %s", c, nc == -1 ? "the parser gave no recurring task" : "an occurrence is not a time of day on a date of the calendar");
			break;
		}
		if (nc != c || !ended) {
			snprintf(sig, sizeof(sig), "timed-count-%s/%s", nc < c ? "short" : "exceeded", tail);
			vd_viol(sig, "COUNT=%d: the stream has %d%s occurrences", c, nc, ended ? "" : " or more");
			break;
		}
		{
			int j = 0;
			while (j < c && czd[j] == zd[j] && csod[j] == sod[j]) j++;
			if (j < c) {
				snprintf(sig, sizeof(sig), "timed-count-differs/%s", tail);
				vd_viol(sig, "COUNT=%d: occurrence %d is %s, without COUNT it is %s", c, j + 1, tstr(b1, sizeof(b1), czd[j], csod[j]), tstr(b2, sizeof(b2), zd[j], sod[j]));
				break;
			}
		}
	}
}

/* ---------- BYEASTER with INTERVAL, and state carried from one expansion to the next (mode=carry) ---------- */

/* DTSTART y0-01-01, FREQ=YEARLY[;INTERVAL=inter];BYEASTER=N[;SHIFT=cshift[sh]][;COUNT=count] */
struct crule_s {
	int y0, inter, N, sh, count;
};
static const struct spec_s cshift[] = {{F_DAY, 0, false, ""}, {F_B, 1, false, "1B"}, {F_B, -1, false, "-1B"}};
#define NCSHIFT	((int)(sizeof(cshift) / sizeof(*cshift)))
#define CARRY_MAX	40
/* the images of Easter 2100 (from 2099-12 on for N = -102) are left out as in mode=easter: 2100 is outside the property's range */
#define CARRY_ZSTOP	cvl_days(2098, 12, 31)

static void
crule_lines(char *buf, size_t bsz, const struct crule_s *r)
{
	size_t o = (size_t)snprintf(buf, bsz, "DTSTART;VALUE=DATE:%04d0101\nRRULE:FREQ=YEARLY", r->y0);
	if (r->inter > 1) o += (size_t)snprintf(buf + o, bsz - o, ";INTERVAL=%d", r->inter);
	o += (size_t)snprintf(buf + o, bsz - o, ";BYEASTER=%d", r->N);
	if (r->sh) o += (size_t)snprintf(buf + o, bsz - o, ";SHIFT=%s", cshift[r->sh].txt);
	if (r->count) o += (size_t)snprintf(buf + o, bsz - o, ";COUNT=%d", r->count);
	snprintf(buf + o, bsz - o, "\n");
}

static const char*
crule_str(char *buf, size_t bsz, const struct crule_s *r)
{
	crule_lines(buf, bsz, r);
	for (char *q = buf; *q; q++) if (*q == '\n') *q = ' ';
	return buf;
}

static int
crule_run(long *obs, int nmax, const struct crule_s *r, bool *ended)
{
	char lines[256];
	crule_lines(lines, sizeof(lines), r);
	return run_stream(obs, nmax, lines, CARRY_ZSTOP, ended);
}

/* the same in a process in which nothing has been expanded before.  A child made by fork() inherits whatever the
 * expansions so far left behind in this process, so a server process is forked off before the first expansion of the
 * mode; for every request it forks a child of its own (a copy of its untouched state) which expands the rule and
 * answers on the pipe. */
struct cres_s {
	int n, ended;
	long z[CARRY_MAX];
};
struct creq_s {
	struct crule_s r;
	int nmax;
};
static int carry_req = -1, carry_rsp = -1;

static bool
rd_full(int fd, void *buf, size_t n)
{
	for (size_t got = 0; got < n;) {
		const ssize_t k = read(fd, (char*)buf + got, n - got);
		if (k < 0 && errno == EINTR) continue;
		if (k <= 0) return false;
		got += (size_t)k;
	}
	return true;
}

static void
carry_server_start(void)
{
	int rq[2], rs[2];
	pid_t p;

	if (pipe(rq) < 0 || pipe(rs) < 0 || (p = fork()) < 0) {
		fprintf(stderr, "c17: carry: cannot start the server process\n");
		_exit(3);
	} else if (p == 0) {
		struct creq_s q;
		close(rq[1]), close(rs[0]);
		while (rd_full(rq[0], &q, sizeof(q))) {
			struct cres_s res;
			int st = 0;
			pid_t g = fork();
			if (g == 0) {
				bool e = false;
				memset(&res, 0, sizeof(res));
				res.n = crule_run(res.z, q.nmax, &q.r, &e);
				res.ended = e;
				_exit(write(rs[1], &res, sizeof(res)) != (ssize_t)sizeof(res));
			}
			while (g > 0 && waitpid(g, &st, 0) < 0 && errno == EINTR);
			if (g < 0 || !WIFEXITED(st) || WEXITSTATUS(st)) {
				memset(&res, 0, sizeof(res));
				res.n = -2;
				if (write(rs[1], &res, sizeof(res)) < 0) _exit(1);
			}
		}
		_exit(0);
	}
	close(rq[0]), close(rs[1]);
	carry_req = rq[1], carry_rsp = rs[0];
}

static void
carry_server_stop(void)
{
	if (carry_req >= 0) {
		close(carry_req), close(carry_rsp);
		carry_req = carry_rsp = -1;
		while (wait(NULL) < 0 && errno == EINTR);
	}
}

static int
crule_run_alone(long *obs, int nmax, const struct crule_s *r, bool *ended)
{
	struct creq_s q;
	struct cres_s res;

	memset(&q, 0, sizeof(q));
	q.r = *r;
	q.nmax = nmax > CARRY_MAX ? CARRY_MAX : nmax;
	if (carry_req < 0 || write(carry_req, &q, sizeof(q)) != (ssize_t)sizeof(q) || !rd_full(carry_rsp, &res, sizeof(res))) {
		return -2;
	}
	*ended = res.ended;
	for (int i = 0; i < res.n && i < q.nmax; i++) obs[i] = res.z[i];
	return res.n;
}

/* judge what was read of rule R (NO occurrences, reading stopped after NMAX, at the end of the stream or behind 2099)
 * against the reference: the sources are Easter(y)+N; y is a period year when (y - y0) is a multiple of INTERVAL.
 * A source of a period year that lands, with all its images, in that same year on or after DTSTART must occur;
 * a source that only lands in a period year, or leaves its period year (N = -102, a shifted 31 December) may or may not
 * (the README does not say to which year's period such a day belongs); nothing else may occur, in strictly increasing
 * order.  Returns NULL when fine, else the kind of the violation and the text in MSG. */
static const char*
crule_judge(const struct crule_s *r, const long *obs, int no, bool ended, int nmax, char *msg, size_t msz)
{
	const struct spec_s *sp = &cshift[r->sh];
	const long z0 = cvl_days(r->y0, 1, 1), zstop = CARRY_ZSTOP;
	char b1[48], b2[48], b3[48], rs[256];
	int j = 0;

	crule_str(rs, sizeof(rs), r);
	if (no < 0) {
		snprintf(msg, msz, "%s: the parser gave no recurring task", rs);
		return "no-stream";
	} else if (nbad) {
		snprintf(msg, msz, "%s: %d occurrences are not all-day dates of the calendar, first: %s", rs, nbad, badstr(b1, sizeof(b1)));
		return "not-a-date";
	} else if (r->count && no > r->count) {
		snprintf(msg, msz, "%s: %d occurrences", rs, no);
		return "count-exceeded";
	}
	for (int y = r->y0 - 2; y <= 2101; y++) {
		const struct cmp_md_s e = cmp_easter(y);
		const long z = cvl_days(y, e.m, e.d) + r->N;
		const int ly = year_of(z);
		const bool py = y >= r->y0 && (y - r->y0) % r->inter == 0;
		const bool pl = ly >= r->y0 && (ly - r->y0) % r->inter == 0;
		bool def = py && ly == y, allin = true, allout = true, pimg = false;
		struct src_s s;

		s.valid = true;
		s.z = z;
		s.nimg = images(s.img, sp, z);
		for (int q = 0; q < s.nimg; q++) {
			const bool in = s.img[q] >= z0 && s.img[q] <= zstop;
			const int iy = year_of(s.img[q]);
			allin &= in;
			allout &= !in;
			def &= iy == y;
			pimg |= iy >= r->y0 && (iy - r->y0) % r->inter == 0;
		}
		if (allout || (!py && !pl && !pimg)) continue;
		def &= allin && z >= z0;
		if (j < no && img_has(&s, obs[j])) {
			j++;
			continue;
		} else if (!def) {
			continue;
		} else if (j >= no) {
			if (no >= nmax || (r->count && no >= r->count)) {
				/* the reader, or COUNT, stopped it */
				return NULL;
			}
			snprintf(msg, msz, "%s: Easter %d is %s, so %s%s%s is expected as occurrence %d but the stream %s after %d", rs, y, zstr(b1, sizeof(b1), z - r->N),
				 zstr(b2, sizeof(b2), s.img[0]), s.nimg > 1 ? " or " : "", s.nimg > 1 ? zstr(b3, sizeof(b3), s.img[1]) : "", j + 1,
				 ended ? "has ended" : "is behind 2098", no);
			return "missing";
		}
		snprintf(msg, msz, "%s: occurrence %d is %s; Easter %d is %s, so %s%s%s is expected there", rs, j + 1, zstr(b1, sizeof(b1), obs[j]), y,
			 zstr(b2, sizeof(b2), z - r->N), zstr(b3, sizeof(b3), s.img[0]), s.nimg > 1 ? " or the business day after" : "", "");
		return obs[j] < s.img[0] ? "extra" : "wrong-date";
	}
	if (j < no) {
		snprintf(msg, msz, "%s: occurrence %d is %s, the image of no Easter", rs, j + 1, zstr(b1, sizeof(b1), obs[j]));
		return "extra";
	}
	return NULL;
}

static const char*
crule_class(char *buf, size_t bsz, const struct crule_s *r)
{
	snprintf(buf, bsz, "%s/%s/%s", r->inter > 1 ? "interval-ge2" : "interval-1", r->N == 0 ? "N=0" : r->N > 0 ? "N-pos" : "N-neg",
		 r->sh ? cshift[r->sh].txt : "no-shift");
	return buf;
}

/* (a) one rule, 30 occurrences (or to the end of 2098) */
static void
carry_single(const struct crule_s *r)
{
	long obs[CARRY_MAX];
	char msg[600], sig[160], cl[64];
	bool ended = false;
	const int no = crule_run(obs, 30, r, &ended);
	const char *kind = crule_judge(r, obs, no, ended, 30, msg, sizeof(msg));

	vd_sh->evals++;
	if (kind != NULL) {
		snprintf(sig, sizeof(sig), "carry-single-%s/%s", kind, crule_class(cl, sizeof(cl), r));
		vd_viol(sig, "%s", msg);
	}
}

/* (b) A, then B, then A again in one process; B alone in a process of its own */
static void
carry_seq(const struct crule_s *A, const struct crule_s *B, int gap, bool alone)
{
	long oa[CARRY_MAX], ob[CARRY_MAX], oa2[CARRY_MAX], ox[CARRY_MAX];
	char msg[600], sig[200], cl[64], ra[256];
	bool ea = false, eb = false, ea2 = false, ex = false;
	const char *gcl = gap < 0 ? "starts-earlier" : gap <= 1 ? "starts-adjacent" : "starts-2-or-more-years-later";
	const int nma = A->count + 2, nmb = B->count + 2;
	const char *kind;
	int na, nb, na2, nx;

	crule_str(ra, sizeof(ra), A);
	na = crule_run(oa, nma, A, &ea);
	if ((kind = crule_judge(A, oa, na, ea, nma, msg, sizeof(msg))) != NULL) {
		snprintf(sig, sizeof(sig), "carry-first-%s/%s", kind, crule_class(cl, sizeof(cl), A));
		vd_viol(sig, "%s", msg);
	}
	nb = crule_run(ob, nmb, B, &eb);
	if ((kind = crule_judge(B, ob, nb, eb, nmb, msg, sizeof(msg))) != NULL) {
		snprintf(sig, sizeof(sig), "carry-second-%s/%s/%s", kind, gcl, crule_class(cl, sizeof(cl), B));
		vd_viol(sig, "after the expansion of %s: %s", ra, msg);
	}
	na2 = crule_run(oa2, nma, A, &ea2);
	if ((kind = crule_judge(A, oa2, na2, ea2, nma, msg, sizeof(msg))) != NULL) {
		snprintf(sig, sizeof(sig), "carry-third-%s/%s/%s", kind, gcl, crule_class(cl, sizeof(cl), A));
		vd_viol(sig, "expanded a second time, after %s: %s", crule_str(ra, sizeof(ra), B), msg);
	}
	if (na != na2 || ea != ea2 || (na > 0 && memcmp(oa, oa2, sizeof(*oa) * (size_t)na))) {
		char b1[48], b2[48];
		int i = 0;
		while (i < na && i < na2 && oa[i] == oa2[i]) i++;
		snprintf(sig, sizeof(sig), "carry-repeat-differs/%s/%s", gcl, crule_class(cl, sizeof(cl), A));
		vd_viol(sig, "%s gives %s as occurrence %d (%d in all), and %s (%d in all) when it is expanded again after %s", crule_str(ra, sizeof(ra), A),
			i < na ? zstr(b1, sizeof(b1), oa[i]) : "nothing", i + 1, na, i < na2 ? zstr(b2, sizeof(b2), oa2[i]) : "nothing", na2, crule_str(msg, sizeof(msg), B));
	}
	vd_sh->evals += 3;
	if (alone) {
		nx = crule_run_alone(ox, nmb, B, &ex);
		vd_sh->evals++;
		if (nx == -2) {
			fprintf(stderr, "c17: carry: child process failed\n");
			_exit(3);
		}
		if (nx != nb || ex != eb || (nb > 0 && memcmp(ob, ox, sizeof(*ob) * (size_t)nb))) {
			char b1[48], b2[48], rb[256];
			int i = 0;
			while (i < nb && i < nx && ob[i] == ox[i]) i++;
			snprintf(sig, sizeof(sig), "carry-differs-from-alone/%s/%s", gcl, crule_class(cl, sizeof(cl), B));
			vd_viol(sig, "%s gives %s as occurrence %d (%d in all) after the expansion of %s, and %s (%d in all) in a process of its own", crule_str(rb, sizeof(rb), B),
				i < nb ? zstr(b1, sizeof(b1), ob[i]) : "nothing", i + 1, nb, crule_str(ra, sizeof(ra), A), i < nx ? zstr(b2, sizeof(b2), ox[i]) : "nothing", nx);
		}
	}
}

static void
enumerate(void)
{
	const char *mode = vd_opt("mode", "easter");

	vd_count_cases = 0;
	nocount = (int)vd_opt_l("nocount", 0);
	strict_limits = (int)vd_opt_l("strict", 1);
	if (cvl_selftest() < 0 || cmp_selftest() < 0) {
		fprintf(stderr, "c17: reference self test failed\n");
		_exit(3);
	}
	if (!strcmp(mode, "easter")) {
		/* lists first: 12 values, 13 and 14 values with 0 at the front, in the middle, at the end */
		static const int L[][16] = {
			{12, -46, -3, -2, 0, 1, 7, 10, 20, 30, 39, 40, 49},
			{13, 0, -46, -3, -2, 1, 7, 10, 20, 30, 39, 40, 49, 50},
			{14, -3, -2, 0, 1, 7, 10, 20, 30, 39, 40, 49, 50, 60, 100},
			{13, -46, -3, -2, 1, 7, 10, 20, 30, 39, 40, 49, 50, 0},
			{14, -100, -60, -46, -7, -3, -2, -1, 1, 2, 39, 49, 50, 60, 0},
			{2, -2, 0},
		};
		for (size_t q = 0; q < sizeof(L) / sizeof(*L); q++) {
			if (!vd_next()) continue;
			vd_shape("easter-list/n=%d", L[q][0]);
			easter_list_case(&L[q][1], L[q][0]);
		}
		for (int a = 0; a <= 366; a++) {
			for (int sgn = 1; sgn >= (a ? -1 : 1); sgn -= 2) {
				if (!vd_next()) continue;
				vd_shape("easter/%s", a == 0 ? "N=0" : sgn > 0 ? "N-pos" : "N-neg");
				easter_case(sgn * a);
			}
		}
	} else if (!strcmp(mode, "shift")) {
		static struct spec_s sp[3000];
		const int nsp = mkspecs(sp, 3000, vd_opt("nlist", "quick"));
		const char *fam = vd_opt("fam", "plain");
		const int f = !strcmp(fam, "plain") ? 0 : !strcmp(fam, "count") ? 1 : 2;

		for (int k = 0; k < nsp; k++) {
			for (int m = 1; m <= 12; m++) {
				if (!vd_next()) continue;
				vd_desc("shift fam=%s RRULE:FREQ=YEARLY;BYMONTH=%d;BYMONTHDAY=1..%d;SHIFT=%s", fam, m, cvl_ndim(2024, m), sp[k].txt);
				vd_shape("shift-%s/%s/%s", fam, fgroup(&sp[k]), nclass(&sp[k]));
				for (int d = 1; d <= cvl_ndim(2024, m); d++) {
					vd_beat();
					switch (f) {
					case 0: shift_plain(&sp[k], m, d); break;
					case 1: shift_limited(&sp[k], m, d, false); break;
					default: shift_limited(&sp[k], m, d, true); break;
					}
				}
				/* non-trivial: the shift moves something */
				if (sp[k].n != 0 || sp[k].form != F_DAY) {
					NONTRIVIAL();
				}
			}
		}
	} else if (!strcmp(mode, "long")) {
		static struct spec_s sp[3000];
		const int nsp = mkspecs(sp, 3000, vd_opt("nlist", "quick"));
		static const int md[][2] = {{12, 31}, {12, 30}, {1, 1}, {1, 2}, {2, 28}, {2, 29}, {6, 15}, {3, 1}};
		const int ymax = (int)vd_opt_l("ymax", 1945);

		for (int k = 0; k < nsp; k++) {
			const int a = sp[k].n < 0 ? -sp[k].n : sp[k].n;
			/* shifts that stay well inside a year: the two-year-ends finding is judged elsewhere */
			if (a > 40) continue;
			for (size_t q = 0; q < sizeof(md) / sizeof(*md); q++) {
				if (!vd_next()) continue;
				vd_desc("shift long RRULE:FREQ=YEARLY;BYMONTH=%d;BYMONTHDAY=%d;SHIFT=%s, DTSTART June 1 of 1930..%d, followed to 2099", md[q][0], md[q][1], sp[k].txt, ymax);
				vd_shape("shift-long/%s/%s", fgroup(&sp[k]), nclass(&sp[k]));
				for (int y0 = 1930; y0 <= ymax; y0++) {
					vd_beat();
					shift_long(&sp[k], md[q][0], md[q][1], y0);
				}
				NONTRIVIAL();
				vd_sample("shift long: BYMONTH=%d;BYMONTHDAY=%d;SHIFT=%s from June 1 of each of 1930..%d to 2099", md[q][0], md[q][1], sp[k].txt, ymax);
			}
		}
	} else if (!strcmp(mode, "mstart")) {
		static struct spec_s sp[3000];
		const int nsp = mkspecs(sp, 3000, "all");
		static const int ds[] = {1, 2, 15, 28, 29, 30, 31};
		static const int dds[] = {1, 2, 15, 31};

		for (int k = 0; k < nsp; k++) {
			if (sp[k].n > 70 || sp[k].n < -70) continue;
			if (sp[k].n && (sp[k].form == F_BPLUS || sp[k].form == F_BMINUS)) continue;
			if (!vd_next()) continue;
			vd_shape("shift-mstart/%s/%s", fgroup(&sp[k]), sp[k].n < 0 ? "N-neg" : sp[k].n ? "N-pos" : "N=0");
			for (size_t i = 0; i < sizeof(ds) / sizeof(*ds); i++) {
				for (size_t j = 0; j < sizeof(dds) / sizeof(*dds); j++) {
					shift_mstart(&sp[k], ds[i], dds[j]);
				}
			}
			if (sp[k].n != 0 || sp[k].form != F_DAY) {
				NONTRIVIAL();
			}
			if (vd_want_sample()) vd_sample("monthly from the start: BYMONTHDAY=1,2,15,28..31;SHIFT=%s from 2020-01-01/02/15/31, judged to 2021-06-30", sp[k].txt);
		}
	} else if (!strcmp(mode, "setpos")) {
		static struct spec_s sp[3000];
		const int nsp = mkspecs(sp, 3000, "all");
		const int nmax = (int)vd_opt_l("nmax", 10);
		const int ytill = (int)vd_opt_l("ytill", 2023);

		for (int k = 0; k < nsp; k++) {
			if (sp[k].n > nmax || sp[k].n < -nmax) continue;
			/* the B+/B- suffixes are not given a meaning for N != 0, B covers them */
			if (sp[k].n && (sp[k].form == F_BPLUS || sp[k].form == F_BMINUS)) continue;
			for (int f = 0; f < NSPFAM; f++) {
				if (!vd_next()) continue;
				vd_shape("shift-setpos/%s/%s/%s", spfam[f].name, fgroup(&sp[k]), nclass_m(&sp[k]));
				for (int ip = 0; ip < NSPPOS; ip++) {
					shift_setpos(&sp[k], f, ip, ytill);
				}
				if (sp[k].n != 0 || sp[k].form != F_DAY) {
					NONTRIVIAL();
				}
				if (vd_want_sample()) vd_sample("setpos: %s;BYSETPOS=1|-1|2|-2|1,-1;SHIFT=%s from 2019-01-01, judged to %d-12-31", spfam[f].parts, sp[k].txt, ytill);
			}
		}
	} else if (!strcmp(mode, "timed")) {
		static const char *specs[] = {"0B", "0B+", "-0B", "0B-", "1B", "-1B", "2B", "-2B", "3B", "-3B", "5B", "-5B", "0", "1", "-1", "2", "-2"};
		const int cmax = (int)vd_opt_l("cmax", 24);

		for (size_t k = 0; k < sizeof(specs) / sizeof(*specs); k++) {
			struct spec_s sp = {F_DAY, 0, false, ""};
			const char *x = specs[k];
			const size_t xl = strlen(x);
			snprintf(sp.txt, sizeof(sp.txt), "%s", x);
			sp.n = atoi(x);
			sp.negzero = sp.n == 0 && x[0] == '-';
			sp.form = x[xl - 1] == 'B' ? F_B : x[xl - 1] == '+' ? F_BPLUS : x[xl - 1] == '-' ? F_BMINUS : F_DAY;
			for (int f = 0; f < NTFAM; f++) {
				for (int il = 0; il < NTLIST; il++) {
					if (!vd_next()) continue;
					vd_shape("shift-timed/%s/%s/%s", tfam[f].monthly ? "monthly" : "yearly", fgroup(&sp), tlist[il].name);
					shift_timed(&sp, f, il, cmax);
					/* non-trivial: more than one time of day, and the shift moves something */
					if (tlist[il].n > 1 && (sp.n != 0 || sp.form != F_DAY)) {
						NONTRIVIAL();
					}
					if (vd_want_sample()) vd_sample("timed: DTSTART:20200101T090000Z FREQ=%s;%s%s;SHIFT=%s to 2030 against its all-day days x listed times; COUNT=1..%d", tfam[f].monthly ? "MONTHLY" : "YEARLY", tfam[f].parts, tlist[il].parts, sp.txt, cmax);
				}
			}
		}
	} else if (!strcmp(mode, "multi")) {
		static struct spec_s sp[3000];
		const int nsp = mkspecs(sp, 3000, vd_opt("nlist", "quick"));

		for (int k = 0; k < nsp; k++) {
			/* the B+/B- suffixes are not given a meaning for N != 0, B covers them */
			if (sp[k].n && (sp[k].form == F_BPLUS || sp[k].form == F_BMINUS)) continue;
			for (int f = 0; f < NMFAM; f++) {
				for (int inter = 1; inter <= 2; inter++) {
					if (!vd_next()) continue;
					vd_shape("shift-multi/%s/%s", fgroup(&sp[k]), mfam[f].monthly ? nclass_m(&sp[k]) : nclass(&sp[k]));
					shift_multi(&sp[k], f, inter);
					if (sp[k].n != 0 || sp[k].form != F_DAY) {
						NONTRIVIAL();
					}
					if (vd_want_sample()) vd_sample("shift multi: %s;SHIFT=%s INTERVAL=%d from 2020-01-01, judged 2023..2030", mfam[f].parts, sp[k].txt, inter);
				}
			}
		}
	} else if (!strcmp(mode, "carry")) {
		/* BYEASTER with INTERVAL, and what one expansion leaves behind for the next one in the same process */
		static const int inters[] = {1, 2, 3, 4, 5, 7};
		static const int offs[] = {0, -2, 1, 39, 49, -46, -102, 250};
		static const int y0s[] = {1999, 2000, 2001, 2010, 2024};
		static const int gaps[] = {-8, -1, 0, 1, 2, 3, 5, 10};
		static const int ayears[] = {2000, 2003}, aoffs[] = {0, 39}, boffs[] = {0, -2, 1, 49, -46};
		const bool alone = vd_opt_l("alone", 1) != 0;

		if (alone) carry_server_start();
		for (size_t ii = 0; ii < sizeof(inters) / sizeof(*inters); ii++) {
			for (size_t in = 0; in < sizeof(offs) / sizeof(*offs); in++) {
				if (!vd_next()) continue;
				vd_desc("carry single: DTSTART;VALUE=DATE:1999|2000|2001|2010|20240101 RRULE:FREQ=YEARLY;INTERVAL=%d;BYEASTER=%d with SHIFT none|1B|-1B, 30 occurrences (to 2098)", inters[ii], offs[in]);
				vd_shape("carry-single/%s/%s", inters[ii] > 1 ? "interval-ge2" : "interval-1", offs[in] == 0 ? "N=0" : offs[in] > 0 ? "N-pos" : "N-neg");
				for (int sh = 0; sh < NCSHIFT; sh++) {
					for (size_t iy = 0; iy < sizeof(y0s) / sizeof(*y0s); iy++) {
						const struct crule_s r = {y0s[iy], inters[ii], offs[in], sh, 0};
						carry_single(&r);
					}
				}
				NONTRIVIAL();
				if (vd_want_sample()) vd_sample("carry single: FREQ=YEARLY;INTERVAL=%d;BYEASTER=%d x SHIFT none|1B|-1B x 5 DTSTART years, 30 occurrences each against the computus", inters[ii], offs[in]);
			}
		}
		for (size_t ay = 0; ay < 2; ay++) for (int ai = 1; ai <= 2; ai++) for (size_t an = 0; an < 2; an++) for (int ac = 1; ac <= 3; ac++) {
			const struct crule_s A = {ayears[ay], ai, aoffs[an], 0, ac};
			const int last = A.y0 + (ac - 1) * ai;
			for (size_t ig = 0; ig < sizeof(gaps) / sizeof(*gaps); ig++) {
				for (int bi = 1; bi <= 3; bi++) {
					char ra[256];
					if (!vd_next()) continue;
					vd_desc("carry sequence: %s, then DTSTART;VALUE=DATE:%04d0101 RRULE:FREQ=YEARLY;INTERVAL=%d;BYEASTER=0|-2|1|49|-46 with SHIFT none|1B|-1B;COUNT=6, then the first again", crule_str(ra, sizeof(ra), &A), last + gaps[ig], bi);
					vd_shape("carry-seq/%s/%s", gaps[ig] < 0 ? "starts-earlier" : gaps[ig] <= 1 ? "starts-adjacent" : "starts-2-or-more-years-later", bi > 1 ? "interval-ge2" : "interval-1");
					for (size_t bn = 0; bn < sizeof(boffs) / sizeof(*boffs); bn++) {
						for (int sh = 0; sh < NCSHIFT; sh++) {
							const struct crule_s B = {last + gaps[ig], bi, boffs[bn], sh, 6};
							carry_seq(&A, &B, gaps[ig], alone);
						}
					}
					NONTRIVIAL();
					if (vd_want_sample()) vd_sample("carry sequence: %s, then 15 rules from %d (INTERVAL=%d), then the first again; each against the computus, the second also against a process of its own", ra, last + gaps[ig], bi);
				}
			}
		}
		carry_server_stop();
	} else {
		fprintf(stderr, "unknown mode %s\n", mode);
		_exit(3);
	}
}

int
main(int argc, char *argv[])
{
	return vd_main(argc, argv, enumerate);
}
