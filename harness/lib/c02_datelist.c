/* C02 -- date-valued exception and RDATE lists on a date-time event in a zone with DST.
 *
 * Base event: DTSTART;TZID=<zone>:2015-01-05 at a fixed local time, RRULE:FREQ=MONTHLY;COUNT=12
 * (the 5th of every month of 2015, seven of them on the other side of a DST switch).  A VALUE=DATE
 * entry in EXDATE names "the occurrence on that day", in RDATE it adds an occurrence at the event's
 * local time on that day.  EVERY ORDERED sequence (list order matters to a parser that carries
 * state from one entry to the next) of 1..maxlist days out of a universe of the 12 occurrence days
 * plus 2 days without occurrence is written, as one comma list or as one line per day.
 *
 * Oracle (differential, no zone table in the harness):
 *   base  = what the same event without the list delivers (12 instants; checked: one per month,
 *           on the 5th, offsets as given per zone in the table below)
 *   daily = what DTSTART + FREQ=DAILY;COUNT=365 delivers (the local time on every day of 2015)
 *   exdate: delivered == base minus the instants whose day is listed
 *   rdate : delivered == base united with daily[day] for each listed day
 * The configurations are chosen so that DTSTART's local day equals its UTC day (what a date entry means when
 * they differ - Europe/Berlin 01:30 in summer is 23:30Z of the day before - is not settled by the property: the
 * code pastes DTSTART's UTC time of day onto the date).
 * form=zoned (option): the same days written as date-times at the event's local time with the event's TZID, the
 * line's parameters in every order (TZID only, VALUE=DATE-TIME;TZID=, TZID=;VALUE=DATE-TIME); same oracle.
 */
#include "vdrv.h"
#include "ref/icalio.h"
#include "ref/rfc5545.h"

struct zone_s {
	const char *tzid;
	const char *hms;	/* local time of day */
	int std_offs, dst_offs;	/* seconds east */
	int dst_from, dst_till;	/* months (5th of) in DST: from <= m <= till */
	int south;
	/* near-switch configurations: DTSTART on SM-SD of 2015, FREQ=DAILY;COUNT=12, the first occurrence within
	 * hours of a DST switch (its wall clock read as UTC lies on the other side of the switch than its true
	 * UTC instant); no absolute expectation, the event's own instants are the reference */
	int sm, sd;
};
static const struct zone_s zones[] = {
	{"Europe/Berlin", "170000", 3600, 7200, 4, 10, 0, 0, 0},
	{"America/New_York", "093000", -18000, -14400, 4, 10, 0, 0, 0},
	{"America/Sao_Paulo", "120000", -10800, -7200, 3, 10, 1, 0, 0},	/* DST Oct 18 .. Feb 22: 5 Mar..5 Oct standard */
	{"Europe/Berlin", "013000", 3600, 7200, 4, 10, 0, 3, 29},	/* 00:30Z, the switch is at 01:00Z */
	{"America/New_York", "030000", -18000, -14400, 4, 10, 0, 11, 1},	/* 08:00Z, the switch was at 06:00Z */
};
#define NZONES ((int)(sizeof(zones) / sizeof(*zones)))

/* days from civil and back (proleptic Gregorian), for the day universe */
static long
cvl2_days(int y, int m, int d)
{
	y -= m <= 2;
	const long era = (y >= 0 ? y : y - 399) / 400;
	const unsigned yoe = (unsigned)(y - era * 400);
	const unsigned doy = (153U * (unsigned)(m + (m > 2 ? -3 : 9)) + 2U) / 5U + (unsigned)d - 1U;
	const unsigned doe = yoe * 365U + yoe / 4U - yoe / 100U + doy;
	return era * 146097L + (long)doe - 719468L;
}

static void
cvl2_civil(long z, int *y, int *m, int *d)
{
	z += 719468;
	const long era = (z >= 0 ? z : z - 146096) / 146097;
	const unsigned doe = (unsigned)(z - era * 146097);
	const unsigned yoe = (doe - doe / 1460U + doe / 36524U - doe / 146096U) / 365U;
	const unsigned doy = doe - (365U * yoe + yoe / 4U - yoe / 100U);
	const unsigned mp = (5U * doy + 2U) / 153U;
	*d = (int)(doy - (153U * mp + 2U) / 5U + 1U);
	*m = (int)(mp < 10U ? mp + 3U : mp - 9U);
	*y = (int)((long)yoe + era * 400 + (*m <= 2));
}

static int64_t
inst_secs(echs_instant_t i)
{
	rf_dt t = {i.y, i.m, i.d, i.H, i.M, i.S, 0};
	return rf_secs(t);
}

static int
pop_all(const char *text, int64_t *out, int max)
{
	echs_task_t t = ical_task1(text);
	int n = 0;
	if (t == NULL || t->strm == NULL) {
		if (t) free_echs_task(t);
		return -1;
	}
	for (; n < max; n++) {
		echs_event_t e = echs_evstrm_pop(t->strm);
		if (echs_nul_event_p(e)) break;
		out[n] = inst_secs(e.from);
	}
	free_echs_task(t);
	return n;
}

static int
cmp64(const void *a, const void *b)
{
	int64_t x = *(const int64_t*)a, y = *(const int64_t*)b;
	return (x > y) - (x < y);
}

/* the universe of days: day-of-2015 (0-based from Jan 1) */
static int uni_m[14], uni_d[14];

static void
enumerate(void)
{
	const int rdate = !strcmp(vd_opt("mode", "exdate"), "rdate");
	const int maxlist = (int)vd_opt_l("maxlist", 3);
	const int nz = (int)vd_opt_l("zones", NZONES);
	/* form=zoned: the days are written as date-times at the event's local time in the event's zone (TZID parameter),
	 * the line's parameters in every order: TZID only | VALUE=DATE-TIME;TZID= | TZID=;VALUE=DATE-TIME (one comma
	 * list in each spelling; one line per day with every assignment of a spelling to each line).  They name the
	 * same occurrences / add the same instants as the date form. */
	const int zoned = !strcmp(vd_opt("form", "date"), "zoned");
	static const char *const spname[] = {"tzid-only", "value-then-tzid", "tzid-then-value"};
	static const int mdays[] = {31, 28, 31, 30, 31, 30, 31, 31, 30, 31, 30, 31};

	vd_count_cases = 0;

	for (int z = 0; z < nz && z < NZONES; z++) {
		const struct zone_s *Z = &zones[z];
		char body[2048], text[2560], head[160];
		int64_t base[16], daily[400];
		int nb, nd;

		if (Z->sm == 0) {
			for (int i = 0; i < 12; i++) uni_m[i] = i + 1, uni_d[i] = 5;
			uni_m[12] = 4, uni_d[12] = 6;	/* no occurrence, DST side */
			uni_m[13] = 12, uni_d[13] = 24;	/* no occurrence, standard side */
			snprintf(head, sizeof(head), "DTSTART;TZID=%s:20150105T%s\nRRULE:FREQ=MONTHLY;COUNT=12\n", Z->tzid, Z->hms);
		} else {
			/* 12 consecutive days from the start, and two days behind them */
			const long z0 = cvl2_days(2015, Z->sm, Z->sd);
			for (int i = 0; i < 14; i++) {
				int y, m, d;
				cvl2_civil(z0 + (i < 12 ? i : i == 12 ? 15 : 40), &y, &m, &d);
				uni_m[i] = m, uni_d[i] = d;
			}
			snprintf(head, sizeof(head), "DTSTART;TZID=%s:2015%02d%02dT%s\nRRULE:FREQ=DAILY;COUNT=12\n", Z->tzid, Z->sm, Z->sd, Z->hms);
		}
		snprintf(body, sizeof(body), "%s", head);
		ical_wrap(text, sizeof(text), "datelist@verif", body);
		nb = pop_all(text, base, 16);
		snprintf(body, sizeof(body), "DTSTART;TZID=%s:20150101T%s\nRRULE:FREQ=DAILY;COUNT=365\n", Z->tzid, Z->hms);
		ical_wrap(text, sizeof(text), "datelist@verif", body);
		nd = pop_all(text, daily, 400);
		/* preconditions, from the zone's published offsets */
		{
			int ok = nb == 12 && nd == 365;
			for (int i = 1; ok && i < 12; i++) ok = base[i] > base[i - 1];
			for (int i = 0; ok && i < 12 && Z->sm == 0; i++) {
				rf_dt w = {2015, i + 1, 5, (Z->hms[0] - '0') * 10 + Z->hms[1] - '0', (Z->hms[2] - '0') * 10 + Z->hms[3] - '0', 0, 0};
				int dst = (i + 1 >= Z->dst_from && i + 1 <= Z->dst_till) ^ Z->south;
				int64_t want = rf_secs(w) - (dst ? Z->dst_offs : Z->std_offs);
				int doy = 4;
				for (int k = 0; k < i; k++) doy += mdays[k];
				ok = base[i] == want && daily[doy] == want;
			}
			if (!ok) {
				if (vd_next()) {
					vd_shape("datelist/%s/base", Z->tzid);
					vd_desc("base event in %s", Z->tzid);
					vd_viol("precond/base", "the event without a list does not deliver the 12 (365) expected instants (%d, %d)", nb, nd);
				}
				continue;
			}
		}

		for (int k = 1; k <= maxlist; k++) {
			int idx[4] = {0, 0, 0, 0};
			long nseq = 1;
			for (int i = 0; i < k; i++) nseq *= 14;
			for (long s = 0; s < nseq; s++) {
				long ss = s;
				int dup = 0, crossing = 0;
				for (int i = 0; i < k; i++, ss /= 14) idx[i] = (int)(ss % 14);
				for (int i = 0; i < k; i++) for (int j = 0; j < i; j++) dup |= idx[i] == idx[j];
				if (dup) continue;
				int nlay = k > 1 ? 2 : 1;
				if (zoned) {
					/* 0..2: one list in spelling 0..2; 3..: one line per day, assignment (layout - 3) in base 3 */
					nlay = 3;
					if (k > 1) for (int i = 0, p = 1; i <= k; i++, p *= 3) if (i == k) nlay += p;
				}
				for (int layout = 0; layout < nlay; layout++) {
					size_t o = 0;
					int spcls = 0;
					char sig[96];
					int64_t want[32], got[40];
					int nw = 0, ng;
					const char *prop = rdate ? "RDATE" : "EXDATE";

					if (!vd_next()) continue;
					vd_sh->evals++;
					o += (size_t)snprintf(body + o, sizeof(body) - o, "%s", head);
					for (int i = 0, as = layout - 3; i < k && zoned; i++) {
						/* spelling of this line (of the whole list) */
						const int sp = layout < 3 ? layout : as % 3;
						char hd[96];
						if (layout >= 3) as /= 3;
						spcls = sp == 1 || spcls == 1 ? 1 : sp > spcls ? sp : spcls;
						snprintf(hd, sizeof(hd), sp == 0 ? "%s;TZID=%s:" : sp == 1 ? "%s;VALUE=DATE-TIME;TZID=%s:" : "%s;TZID=%s;VALUE=DATE-TIME:", prop, Z->tzid);
						if (layout < 3) {
							o += (size_t)snprintf(body + o, sizeof(body) - o, "%s2015%02d%02dT%s%s", i ? "," : hd, uni_m[idx[i]], uni_d[idx[i]], Z->hms, i + 1 == k ? "\n" : "");
						} else {
							o += (size_t)snprintf(body + o, sizeof(body) - o, "%s2015%02d%02dT%s\n", hd, uni_m[idx[i]], uni_d[idx[i]], Z->hms);
						}
					}
					for (int i = 0; i < k && !zoned; i++) {
						if (layout == 0) {
							o += (size_t)snprintf(body + o, sizeof(body) - o, "%s2015%02d%02d%s", i ? "," : (rdate ? "RDATE;VALUE=DATE:" : "EXDATE;VALUE=DATE:"), uni_m[idx[i]], uni_d[idx[i]], i + 1 == k ? "\n" : "");
						} else {
							o += (size_t)snprintf(body + o, sizeof(body) - o, "%s;VALUE=DATE:2015%02d%02d\n", prop, uni_m[idx[i]], uni_d[idx[i]]);
						}
					}
					ical_wrap(text, sizeof(text), "datelist@verif", body);
					vd_desc("%s", body);
					/* does an entry on the other side of a DST switch come before another entry? */
					for (int i = 0; i + 1 < k; i++) {
						int m = uni_m[idx[i]];
						int dm = (m >= Z->dst_from && m <= Z->dst_till) ^ Z->south;
						int d1 = (1 >= Z->dst_from && 1 <= Z->dst_till) ^ Z->south;
						crossing |= dm != d1;
					}
					if (zoned) {
						vd_shape("datelist-zoned/%s/%s/n=%d/%s%s", rdate ? "rdate" : "exdate", layout >= 3 ? "lines" : "list", k, spname[spcls], Z->sm ? "/start-near-switch" : "");
						if (spcls) vd_nontrivial();
					} else {
						vd_shape("datelist/%s/%s/n=%d/%s%s", rdate ? "rdate" : "exdate", layout ? "lines" : "list", k, crossing ? "after-switch" : "plain", Z->sm ? "/start-near-switch" : "");
						if (crossing) vd_nontrivial();
					}
#define SIG(cl)	(zoned ? (snprintf(sig, sizeof(sig), "%s/zoned/%s", cl, spname[spcls]), sig) : cl)

					if (rdate) {
						memcpy(want, base, 12 * sizeof(*want));
						nw = 12;
						for (int i = 0; i < k; i++) {
							int doy = uni_d[idx[i]] - 1;
							for (int q = 0; q < uni_m[idx[i]] - 1; q++) doy += mdays[q];
							int have = 0;
							for (int j = 0; j < nw; j++) have |= want[j] == daily[doy];
							if (!have) want[nw++] = daily[doy];
						}
						qsort(want, (size_t)nw, sizeof(*want), cmp64);
					} else {
						for (int i = 0; i < 12; i++) {
							int ex = 0;
							for (int j = 0; j < k; j++) ex |= idx[j] == i;
							if (!ex) want[nw++] = base[i];
						}
					}
					ng = pop_all(text, got, 40);
					if (ng < 0) {
						vd_viol(SIG("rejected"), "no task/stream for a well-formed event");
						continue;
					}
					if (vd_want_sample() && (zoned ? spcls : crossing)) vd_sample("%s %s n=%d in %s -> %d occurrences%s%s", prop, (zoned ? layout >= 3 : layout) ? "lines" : "list", k, Z->tzid, ng, zoned ? ", zoned date-times, " : "", zoned ? spname[spcls] : "");
					for (int i = 1; i < ng; i++) {
						if (got[i] < got[i - 1]) {
							vd_viol(SIG("order"), "occurrence %d lies before occurrence %d", i, i - 1);
							break;
						}
					}
					for (int i = 0; i < nw; i++) {
						int f = 0;
						for (int j = 0; j < ng; j++) f |= got[j] == want[i];
						if (!f) {
							rf_dt d = rf_from_secs(want[i], 0);
							vd_viol(SIG(rdate ? "rdate-missing" : "wrongly-dropped"), "expected occurrence %04d-%02d-%02dT%02d:%02d:%02dZ is not delivered (%d delivered, %d expected)", d.y, d.m, d.d, d.H, d.M, d.S, ng, nw);
							break;
						}
					}
					for (int j = 0; j < ng; j++) {
						int f = 0;
						for (int i = 0; i < nw; i++) f |= got[j] == want[i];
						if (!f) {
							rf_dt d = rf_from_secs(got[j], 0);
							vd_viol(SIG(rdate ? "spurious" : "not-excluded"), "occurrence %04d-%02d-%02dT%02d:%02d:%02dZ is delivered but %s", d.y, d.m, d.d, d.H, d.M, d.S, rdate ? "was never listed" : "its day is named by an EXDATE");
							break;
						}
					}
					/* a duplicate delivery */
					for (int j = 1; j < ng; j++) {
						if (got[j] == got[j - 1]) {
							vd_viol(SIG("dup"), "an occurrence is delivered twice");
							break;
						}
					}
				}
			}
		}
	}
}

int
main(int argc, char *argv[])
{
	return vd_main(argc, argv, enumerate);
}
