/* C05 -- "the same remaining occurrences with the same durations": the time limit of a task given as DTEND.
 *
 * README: DTEND = "if the job is still running by then kill it"; the parser turns DTSTART + DTEND into the
 * duration of every occurrence, the writer prints it as DURATION.  Here the span between DTSTART and DTEND runs
 * through every whole number of days 0..120 and 150, 200, 366, 400 plus 0 s, 1 s, 1 h 15 min 21 s, 86399 s
 * (at least 1 s in all), from three starts (one before a leap day, one right before a year end, one on 1 March),
 * written as
 *   utc     DTSTART:yyyymmddThhmmssZ / DTEND:...Z
 *   date    DTSTART;VALUE=DATE:yyyymmdd / DTEND;VALUE=DATE:yyyymmdd   (whole days only)
 *   tokyo   DTSTART;TZID=Asia/Tokyo:... / DTEND;TZID=Asia/Tokyo:...   (a zone without offset changes)
 *   berlin  DTSTART;TZID=Europe/Berlin:... / DTEND;TZID=Europe/Berlin:... (offset changes inside the span)
 * as a one-off event and as the first of a yearly series (RRULE:FREQ=YEARLY;COUNT=3).
 *
 * Oracle (reference: day numbers of ref/civil_c15.h, the EU summer-time rule for Berlin):
 *   read       every occurrence read from the text lasts exactly the span between the two stamps
 *   vs-dur     the same event with DURATION:PnDTnHnMnS instead of DTEND reads to the same durations
 *   written    after k = 0 (and k = 1 for the series) consumed occurrences the task is written in both forms
 *              (echsq, echsd checkpoint), read again: same remaining occurrences, same durations, same attributes
 *
 * options: maxdays=N (largest member of the dense part, default 120)
 */
#include "vdrv.h"
#include "ref/icalio.h"
#include "ref/c05_common.h"
#include "ref/civil_c15.h"
#include <inttypes.h>

enum {FM_UTC, FM_DATE, FM_TOKYO, FM_BERLIN, NFM};
static const char *const fmname[NFM] = {"utc", "date", "tokyo", "berlin"};

struct stamp {
	long z;		/* day number */
	long sod;	/* second of the day */
};

static const struct {
	int y, m, d;
	long sod;
} starts[] = {
	{2024, 1, 10, 6 * 3600},		/* the span crosses 29 February */
	{2023, 12, 31, 86399},			/* ... the year end one second later (400 days: two year ends) */
	{2023, 3, 1, 0},			/* ... 29 February 2024 from the other side for 366 and 400 days */
};
#define NSTARTS	((int)(sizeof(starts) / sizeof(*starts)))
static const long oddsecs[] = {0, 1, 4521, 86399};
#define NODD	((int)(sizeof(oddsecs) / sizeof(*oddsecs)))

/* last Sunday of month M of year Y */
static long
last_sunday(int y, int m)
{
	long z = cvl_days(y, m, cvl_ndim(y, m));
	return z - cvl_wday(z) % 7;
}

/* Europe/Berlin since 1996: UTC+2 from the last Sunday of March 01:00 UTC to the last Sunday of October 01:00 UTC,
 * UTC+1 otherwise; -1 if the wall-clock stamp lies on one of the two days of change (not judged) */
static int
berlin_off(struct stamp s)
{
	struct cvl_ymd_s c = cvl_civil(s.z);
	const long zb = last_sunday(c.y, 3), ze = last_sunday(c.y, 10);
	if (s.z == zb || s.z == ze) {
		return -1;
	}
	return s.z > zb && s.z < ze ? 7200 : 3600;
}

static const char*
mcls(int64_t ms)
{
	return ms < (INT64_C(1) << 31) ? "lt2e31ms" : ms < (INT64_C(1) << 32) ? "lt2e32ms" : "ge2e32ms";
}

static size_t
stamp_str(char *buf, size_t bsz, const char *prop, int fm, struct stamp s)
{
	struct cvl_ymd_s c = cvl_civil(s.z);
	switch (fm) {
	case FM_DATE:
		return (size_t)snprintf(buf, bsz, "%s;VALUE=DATE:%04d%02d%02d\n", prop, c.y, c.m, c.d);
	case FM_UTC:
		return (size_t)snprintf(buf, bsz, "%s:%04d%02d%02dT%02ld%02ld%02ldZ\n", prop, c.y, c.m, c.d, s.sod / 3600, s.sod / 60 % 60, s.sod % 60);
	default:
		return (size_t)snprintf(buf, bsz, "%s;TZID=%s:%04d%02d%02dT%02ld%02ld%02ld\n", prop, fm == FM_TOKYO ? "Asia/Tokyo" : "Europe/Berlin",
					c.y, c.m, c.d, s.sod / 3600, s.sod / 60 % 60, s.sod % 60);
	}
}

struct ctx {
	int fm;
	int rec;
	const char *cls;
};

static void
attr_cb(int fld, const char *how, const char *want, const char *got, void *clo)
{
	const struct ctx *x = clo;
	char sig[160];
	snprintf(sig, sizeof(sig), "spans/attr/%s/%s/%s", c05_fname[fld], how, fmname[x->fm]);
	vd_viol(sig, "attribute %s %s on the way through the written text: was %s, re-read %s", c05_fname[fld], how, want, got);
}

/* durations of the first occurrences of TEXT, -1 if it does not read */
static int
read_durs(const char *text, struct c05_occ *o, int max)
{
	echs_task_t t = ical_task1(text);
	int n, more;
	if (t == NULL) {
		return -1;
	}
	n = c05_drain(t->strm, o, max, &more);
	free_echs_task(t);
	return n;
}

static void
one(int fm, int rec, int si, long days, long odd)
{
	static char text[2048], dtext[2048], sched[512], dsched[512];
	static struct c05_rt_s rt;
	struct stamp beg = {cvl_days(starts[si].y, starts[si].m, starts[si].d), fm == FM_DATE ? 0 : starts[si].sod};
	struct stamp end;
	struct c05_occ oc[4], od[4];
	int64_t span;
	struct ctx x = {fm, rec, NULL};
	const char *const rs = rec ? "yearly" : "single";
	const int nexp = rec ? 3 : 1;
	char sig[160], b1[32];
	size_t o;
	int n, nd;

	end.z = beg.z + days + (beg.sod + odd) / 86400;
	end.sod = (beg.sod + odd) % 86400;
	span = ((int64_t)days * 86400 + odd) * 1000;
	if (fm == FM_BERLIN) {
		const int ob = berlin_off(beg), oe = berlin_off(end);
		if (ob < 0 || oe < 0) {
			vd_count("on_a_day_of_offset_change_not_judged", 1);
			return;
		}
		/* the instants are wall clock minus offset */
		span -= (int64_t)(oe - ob) * 1000;
	}
	x.cls = mcls(span);

	o = stamp_str(sched, sizeof(sched), "DTSTART", fm, beg);
	memcpy(dsched, sched, o + 1);
	o += stamp_str(sched + o, sizeof(sched) - o, "DTEND", fm, end);
	snprintf(sched + o, sizeof(sched) - o, "%s", rec ? "RRULE:FREQ=YEARLY;COUNT=3\n" : "");
	snprintf(dsched + strlen(dsched), sizeof(dsched) - strlen(dsched), "DURATION:P%" PRId64 "DT%" PRId64 "H%" PRId64 "M%" PRId64 "S\n%s",
		 span / 86400000, span / 3600000 % 24, span / 60000 % 60, span / 1000 % 60, rec ? "RRULE:FREQ=YEARLY;COUNT=3\n" : "");
	c05_fields_text(text, sizeof(text), "c05-span", C05_POS_ATTRS, 0, 0, 0, sched);
	c05_fields_text(dtext, sizeof(dtext), "c05-span", C05_POS_ATTRS, 0, 0, 0, dsched);
	vd_desc("%s", sched);
	vd_sh->evals++;
	vd_beat();

	/* read */
	n = read_durs(text, oc, 4);
	if (n != nexp) {
		snprintf(sig, sizeof(sig), "spans/read/%s/%s/%s/%s", fmname[fm], rs, x.cls, n < 0 ? "rejected" : "count");
		vd_viol(sig, "the event reads to %d occurrences, %d written", n, nexp);
		return;
	}
	for (int i = 0; i < n; i++) {
		echs_instant_t f;
		int64_t want = span;
		f.u = oc[i].from;
		if (fm == FM_BERLIN && i > 0) {
			/* later occurrences of the series lie a year on, offsets of their ends may differ: not judged */
			break;
		}
		if (oc[i].dur != want) {
			snprintf(sig, sizeof(sig), "spans/read/%s/%s/%s/%s", fmname[fm], rs, x.cls,
				 oc[i].dur == (int64_t)(uint32_t)want ? "wrap32" : oc[i].dur == 0 ? "zero" : "other");
			vd_viol(sig, "occurrence #%d (%s) lasts %" PRId64 " ms, DTEND lies %" PRId64 " ms (%ld d %ld s on the clock) behind DTSTART",
				i, inst_str(b1, sizeof(b1), f), oc[i].dur, want, days, odd);
			return;
		}
	}
	/* the same limit as DURATION */
	nd = read_durs(dtext, od, 4);
	if (nd != n) {
		snprintf(sig, sizeof(sig), "spans/vs-dur/%s/%s/%s/count", fmname[fm], rs, x.cls);
		vd_viol(sig, "with %s the event reads to %d occurrences, with DTEND to %d", strstr(dsched, "DURATION"), nd, n);
	} else {
		for (int i = 0; i < n; i++) {
			if (fm == FM_BERLIN && i > 0) {
				break;
			}
			if (oc[i].from != od[i].from || oc[i].dur != od[i].dur) {
				snprintf(sig, sizeof(sig), "spans/vs-dur/%s/%s/%s/%s", fmname[fm], rs, x.cls, oc[i].from != od[i].from ? "start" : "duration");
				vd_viol(sig, "occurrence #%d: with DTEND %" PRId64 " ms, with %.*s %" PRId64 " ms", i, oc[i].dur,
					(int)strcspn(strstr(dsched, "DURATION"), "\n"), strstr(dsched, "DURATION"), od[i].dur);
				break;
			}
		}
	}
	/* written and read again, at every position */
	for (int k = 0; k < (rec ? 2 : 1); k++) {
		for (int form = 0; form < 2; form++) {
			const char *const fn = form == C05_FORM_ECHSD ? "echsd" : "echsq";
			const int rc = c05_roundtrip(&rt, text, sched, k, form, attr_cb, &x);
			if (rc != 0) {
				snprintf(sig, sizeof(sig), "spans/written/%s/%s/%s/%s/unreadable", fmname[fm], rs, x.cls, fn);
				vd_viol(sig, "k=%d: round trip not possible (rc %d)", k, rc);
			} else if (rt.rejected || rt.ghost || rt.differ || rt.durdiffer) {
				snprintf(sig, sizeof(sig), "spans/written/%s/%s/%s/%s/%s", fmname[fm], rs, x.cls, fn,
					 rt.rejected ? "rejected" : rt.ghost ? "ghost" : rt.differ ? "occurrences" : "duration");
				vd_viol(sig, "k=%d, %s form: %s; written: %.600s", k, fn, rt.detail, rt.written);
			} else if (rt.nremain != nexp - k) {
				snprintf(sig, sizeof(sig), "spans/written/%s/%s/%s/%s/remaining", fmname[fm], rs, x.cls, fn);
				vd_viol(sig, "k=%d: %d occurrences left, expected %d", k, rt.nremain, nexp - k);
			}
		}
	}
}

static void
enumerate(void)
{
	const long maxdays = vd_opt_l("maxdays", 120);
	static const long far[] = {150, 200, 366, 400};
	const long ndays = maxdays + 1 + 4;

	vd_count_cases = 0;
	for (int fm = 0; fm < NFM; fm++) {
		for (int rec = 0; rec < 2; rec++) {
			for (int si = 0; si < NSTARTS; si++) {
				for (long di = 0; di < ndays; di++) {
					const long days = di <= maxdays ? di : far[di - maxdays - 1];
					if (!vd_next()) continue;
					vd_shape("spans/%s/%s", fmname[fm], rec ? "yearly" : "single");
					vd_desc("%s, %s, start %04d-%02d-%02d, DTEND %ld days (+0, 1, 4521, 86399 s) later", fmname[fm], rec ? "yearly series" : "single event",
						starts[si].y, starts[si].m, starts[si].d, days);
					for (int oi = 0; oi < NODD; oi++) {
						if (fm == FM_DATE && oddsecs[oi]) continue;
						if (days == 0 && oddsecs[oi] == 0) continue;
						one(fm, rec, si, days, oddsecs[oi]);
					}
					if (days >= 1) vd_nontrivial();
					vd_sample("%s %s from %04d-%02d-%02d: DTEND %ld days later", fmname[fm], rec ? "yearly series" : "single event",
						  starts[si].y, starts[si].m, starts[si].d, days);
				}
			}
		}
	}
}

int
main(int argc, char *argv[])
{
	if (cvl_selftest() < 0 || last_sunday(2024, 3) != cvl_days(2024, 3, 31) || last_sunday(2024, 10) != cvl_days(2024, 10, 27) ||
	    last_sunday(2023, 10) != cvl_days(2023, 10, 29) || last_sunday(2025, 3) != cvl_days(2025, 3, 30)) {
		fprintf(stderr, "c05_spans: reference calendar failed its self test\n");
		return 3;
	}
	return vd_main(argc, argv, enumerate);
}
