/* C05 -- the UID of a task survives serialisation when many UIDs are known to the process.
 *
 * UIDs are interned in a multi-level hash table; a daemon or `echse merge' with hundreds of tasks fills
 * the first level.  case = (N, UID pattern): N events with distinct UIDs are parsed in ONE process, every
 * task is written with echs_task_icalify() and read back; the UID printed and the UID re-read must be the
 * one submitted, for every task.
 */
#include "vdrv.h"
#include <sys/wait.h>
#include "ref/icalio.h"
#include "intern.h"

static const char *const pats[] = {"task-%04d@verif", "%d", "u%05d", "echse/autouid-0x%08x@echse", "a-rather-long-uid-%d-abcdefghijklmnopqrstuvwxyz-0123456789"};
#define NPATS 5

static int
run_one(int N, int pat)
{
	/* returns number of violations reported */
	char *text = malloc((size_t)N * 160 + 256);
	size_t o = 0;
	echs_task_t *t = calloc((size_t)N, sizeof(*t));
	int bad = 0;
	char uid[128], sig[96];

	o += (size_t)sprintf(text + o, "BEGIN:VCALENDAR\nVERSION:2.0\n");
	for (int i = 0; i < N; i++) {
		snprintf(uid, sizeof(uid), pats[pat], i);
		o += (size_t)sprintf(text + o, "BEGIN:VEVENT\nUID:%s\nSUMMARY:job %d\nDTSTART:20300101T%02d%02d00Z\nEND:VEVENT\n", uid, i, i / 60 % 24, i % 60);
	}
	o += (size_t)sprintf(text + o, "END:VCALENDAR\n");
	size_t n = ical_tasks(t, (size_t)N, text, o);
	if ((int)n != N) {
		snprintf(sig, sizeof(sig), "count/N=%s", N <= 200 ? "le200" : "gt200");
		vd_viol(sig, "%d events submitted, %zu tasks read", N, n);
		bad++;
	}
	for (size_t i = 0; i < n && bad < 3; i++) {
		const char *nm = obint_name(t[i]->oid);
		snprintf(uid, sizeof(uid), pats[pat], (int)i);
		if (nm == NULL || strcmp(nm, uid)) {
			snprintf(sig, sizeof(sig), "uid-name/N=%s/pat%d", N <= 200 ? "le200" : "gt200", pat);
			vd_viol(sig, "task %zu of %d: submitted UID %s, the task's UID reads %s", i, N, uid, nm ? nm : "(null)");
			bad++;
			continue;
		}
		/* write and read back */
		int fd[2];
		if (pipe(fd) < 0) break;
		echs_task_icalify(fd[1], t[i]);
		close(fd[1]);
		char buf[4096];
		ssize_t r = read(fd[0], buf, sizeof(buf) - 1);
		close(fd[0]);
		if (r <= 0) continue;
		buf[r] = '\0';
		char want[160];
		snprintf(want, sizeof(want), "UID:%s\n", uid);
		if (strstr(buf, want) == NULL) {
			char *u = strstr(buf, "UID:");
			snprintf(sig, sizeof(sig), "uid-written/N=%s/pat%d", N <= 200 ? "le200" : "gt200", pat);
			vd_viol(sig, "task %zu of %d: submitted UID %s, written as %.60s", i, N, uid, u ? u : "(no UID line)");
			bad++;
		}
	}
	return bad;
}

static void
enumerate(void)
{
	static const int Ns[] = {1, 10, 100, 200, 204, 250, 300, 400, 600, 1000, 2000, 5000};
	const int maxn = (int)vd_opt_l("maxn", 1000);
	vd_count_cases = 0;
	for (size_t k = 0; k < sizeof(Ns) / sizeof(*Ns); k++) {
		for (int p = 0; p < NPATS; p++) {
			if (Ns[k] > maxn) continue;
			if (!vd_next()) continue;
			vd_shape("manyuids/N=%d/pat%d", Ns[k], p);
			vd_desc("%d events with UIDs of pattern \"%s\" in one process", Ns[k], pats[p]);
			vd_sh->evals += Ns[k];
			/* a fresh process per case so that the intern table starts empty */
			fflush(stdout);
			pid_t c = fork();
			if (c == 0) {
				run_one(Ns[k], p);
				fflush(stdout);
				_exit(0);
			}
			int st;
			while (waitpid(c, &st, 0) < 0 && errno == EINTR);
			if (!(WIFEXITED(st) && WEXITSTATUS(st) == 0)) {
				char sig[64];
				snprintf(sig, sizeof(sig), "crash/manyuids/N=%s", Ns[k] <= 200 ? "le200" : "gt200");
				vd_viol(sig, "process died (status %#x)", st);
			}
			if (Ns[k] >= 2) vd_sh->nontriv += Ns[k];
			vd_sample("%d events, UID pattern \"%s\": every UID read, written and re-read", Ns[k], pats[p]);
		}
	}
}

int
main(int argc, char *argv[])
{
	return vd_main(argc, argv, enumerate);
}
