/* C16 -- occurrence streams are ordered and bounded for every rule, extensions included.
 *
 * unit  = (rule of the C01 grammar, one extension of ref/rrgram_ext.h, DTSTART anchor)
 * case  = unit x termination (none | COUNT k | UNTIL on / just before the 4th resp. 100th occurrence)
 * Every case is rendered as a one-event calendar, pushed through the real parser and popped
 * POPS times (or to its end).  Oracle, no reference evaluator involved:
 *   order           starts strictly increasing
 *   before-dtstart  no start before DTSTART
 *   until           no start after UNTIL
 *   count           never more than COUNT starts
 *   resurrect       after the nul event the stream stays ended (3 further pops and peeks)
 *   malformed       every start is a calendar date/time (else the order is not defined)
 * Everything is compared as seconds in the frame the stream delivers (UTC, Gregorian).  DTSTART
 * in that frame is what the same DTSTART line yields as an event without RRULE (one occurrence);
 * for plain Gregorian floating anchors it is also computed here and the two must agree.
 * UNTIL is derived from the unterminated stream's own k-th occurrence, written the way the
 * event needs it (UTC with Z for TZID events, digits of the rule's scale for SCALE rules).
 *
 * options: maxparts=1|2|3 date3=0|1 intervals=.. anchors=N menucap=N terms=quick|full
 *          pops=N pairs=0|1 freqlo= freqhi= exts=all|none
 */
#include "vdrv.h"
#include "ref/icalio.h"
#include "ref/rfc5545.h"
#include "ref/rrgram.h"
#include "ref/rrgram_ext.h"
#include "scale.h"

#define KEEP	128

static int nanchors = 8;
static int terms_full = 0;
static long maxpops = 3000;
static int pairs = 0;
static int exts_on = 1;

struct unit_s {
	const struct rg_rule_s *g;
	const struct rx_ext_s *x;
	char dtline[96];	/* DTSTART...:digits */
	char rrule[384];	/* without termination */
	int allday;
	int64_t ts0;		/* DTSTART in the stream's frame */
	char shape[224];
};

static const char*
secs_str(char *buf, size_t bsz, int64_t s, int allday)
{
	rf_dt t = rf_from_secs(s, allday);
	if (allday) {
		snprintf(buf, bsz, "%04d-%02d-%02d", t.y, t.m, t.d);
	} else {
		snprintf(buf, bsz, "%04d-%02d-%02dT%02d:%02d:%02d", t.y, t.m, t.d, t.H, t.M, t.S);
	}
	return buf;
}

/* an instant as delivered by a stream -> seconds; 0 and *BAD set when it is no calendar time */
static int64_t
inst_secs(echs_instant_t i, int *bad)
{
	const int ad = echs_instant_all_day_p(i);
	rf_dt t = {(int)i.y, (int)i.m, (int)i.d, ad ? 0 : (int)i.H, ad ? 0 : (int)i.M, ad ? 0 : (int)i.S, ad};

	if (i.y < 1U || i.y > 4095U || i.m < 1U || i.m > 12U || i.d < 1U || (int)i.d > rf_mlen(t.y, t.m) ||
	    (!ad && (i.H > 23U || i.M > 59U || i.S > 59U))) {
		*bad = 1;
		return 0;
	}
	return rf_secs(t);
}

static echs_task_t
mktask(const char *dtline, const char *rrule, const char *term)
{
	char body[1024], text[1536];

	if (rrule != NULL) {
		snprintf(body, sizeof(body), "%s\nRRULE:%s%s\n", dtline, rrule, term);
	} else {
		snprintf(body, sizeof(body), "%s\n", dtline);
	}
	ical_wrap(text, sizeof(text), "c16@verif", body);
	return ical_task1(text);
}

/* first occurrence of the event that has only this DTSTART line: DTSTART in the stream frame */
static int
dtstart_frame(const char *dtline, int64_t *ts0, int *allday)
{
	echs_task_t t = mktask(dtline, NULL, "");
	int ok = 0, bad = 0;

	if (t != NULL && t->strm != NULL) {
		echs_event_t e = echs_evstrm_pop(t->strm);
		if (!echs_nul_event_p(e)) {
			*ts0 = inst_secs(e.from, &bad);
			*allday = echs_instant_all_day_p(e.from);
			ok = !bad;
		}
	}
	if (t) {
		free_echs_task(t);
	}
	return ok;
}

struct term_s {
	const char *name;
	int count;
	int until;	/* 1: on the k-th occurrence, 2: one second (day) before it */
	int k;		/* 0-based index of that occurrence */
};
static const struct term_s terms_quick[] = {
	{"none", 0, 0, 0}, {"COUNT", 2, 0, 0}, {"COUNT", 65, 0, 0}, {"UNTIL-on", 0, 1, 3}, {"UNTIL-before", 0, 2, 99},
};
static const struct term_s terms_all[] = {
	{"none", 0, 0, 0}, {"COUNT", 1, 0, 0}, {"COUNT", 2, 0, 0}, {"COUNT", 63, 0, 0}, {"COUNT", 64, 0, 0}, {"COUNT", 65, 0, 0},
	{"COUNT", 130, 0, 0}, {"UNTIL-on", 0, 1, 3}, {"UNTIL-before", 0, 2, 3}, {"UNTIL-on", 0, 1, 99}, {"UNTIL-before", 0, 2, 99},
};

/* follow one stream; returns the number of occurrences seen, first KEEP of them in OUT */
static long
follow(const struct unit_s *u, const struct term_s *tm, const char *term, int has_until, int64_t until,
       long pops, int64_t *out, int *ended)
{
	char sig[320], b1[32], b2[32];
	echs_task_t t;
	long n = 0;
	int64_t prev = INT64_MIN;
	int prev_ad = 0;
	int r_order = 0, r_before = 0, r_until = 0, r_count = 0, r_malf = 0;

	vd_sh->evals++;
	vd_desc("%s RRULE:%s%s", u->dtline, u->rrule, term);
	vd_shape("%s/%s/%s", u->g->shape, tm->name, u->x->tag);
	*ended = 0;
	if ((t = mktask(u->dtline, u->rrule, term)) == NULL || t->strm == NULL) {
		/* not an event echse accepts */
		vd_count("not_accepted", 1);
		if (t) {
			free_echs_task(t);
		}
		return -1;
	}
	while (n < pops) {
		echs_event_t e = echs_evstrm_pop(t->strm);
		int bad = 0;
		int64_t s;

		if (echs_nul_event_p(e)) {
			*ended = 1;
			break;
		}
		if (!(n & 0x3ff)) {
			vd_beat();
		}
		s = inst_secs(e.from, &bad);
		if (bad) {
			if (!r_malf++) {
				snprintf(sig, sizeof(sig), "malformed/%s/%s/%s", u->g->shape, tm->name, u->x->tag);
				vd_viol(sig, "occurrence %ld is no calendar time: y=%u m=%u d=%u H=%u M=%u S=%u (%#lx)", n,
					e.from.y, e.from.m, e.from.d, e.from.H, e.from.M, e.from.S, (unsigned long)e.from.u);
			}
			n++;
			continue;
		}
		if (n < KEEP && out != NULL) {
			out[n] = s;
		}
		if (prev != INT64_MIN && s <= prev && !r_order++) {
			snprintf(sig, sizeof(sig), "order/%s/%s/%s", u->g->shape, tm->name, u->x->tag);
			vd_viol(sig, "occurrence %ld (%s) is not after occurrence %ld (%s)", n,
				secs_str(b1, sizeof(b1), s, echs_instant_all_day_p(e.from)), n - 1, secs_str(b2, sizeof(b2), prev, prev_ad));
		}
		if (s < u->ts0 && !r_before++) {
			snprintf(sig, sizeof(sig), "before-dtstart/%s/%s/%s", u->g->shape, tm->name, u->x->tag);
			vd_viol(sig, "occurrence %ld (%s) lies before DTSTART (%s)", n,
				secs_str(b1, sizeof(b1), s, echs_instant_all_day_p(e.from)), secs_str(b2, sizeof(b2), u->ts0, u->allday));
		}
		if (has_until && s > until && !r_until++) {
			snprintf(sig, sizeof(sig), "until/%s/%s/%s", u->g->shape, tm->name, u->x->tag);
			vd_viol(sig, "occurrence %ld (%s) lies after UNTIL (%s)", n,
				secs_str(b1, sizeof(b1), s, echs_instant_all_day_p(e.from)), secs_str(b2, sizeof(b2), until, u->allday));
		}
		prev = s;
		prev_ad = echs_instant_all_day_p(e.from);
		n++;
		if (tm->count && n > tm->count && !r_count++) {
			snprintf(sig, sizeof(sig), "count/%s/%s/%s", u->g->shape, tm->name, u->x->tag);
			vd_viol(sig, "occurrence number %ld (%s) of a rule with COUNT=%d", n,
				secs_str(b1, sizeof(b1), s, prev_ad), tm->count);
			/* no point in listing the rest */
			break;
		}
	}
	if (*ended) {
		for (int i = 0; i < 3; i++) {
			echs_event_t p = echs_evstrm_next(t->strm);
			echs_event_t e = echs_evstrm_pop(t->strm);
			if (!echs_nul_event_p(p) || !echs_nul_event_p(e)) {
				int bad = 0;
				int64_t s = inst_secs(echs_nul_event_p(e) ? p.from : e.from, &bad);
				snprintf(sig, sizeof(sig), "resurrect/%s/%s/%s", u->g->shape, tm->name, u->x->tag);
				vd_viol(sig, "after the end of the stream (%ld occurrences) call %d yields %s again", n, i + 1,
					bad ? "(malformed)" : secs_str(b1, sizeof(b1), s, 0));
				break;
			}
		}
	}
	free_echs_task(t);
	return n;
}

/* Would the TZID stream of this unit look up its zone's last 32-bit transition?  Its frame
 * instants are those of the floating stream starting at DTSTART's UTC image. */
static int
tz_poison(const struct unit_s *u, int64_t dt_utc)
{
	const struct rx_zone_s *z = &rx_zone[u->x->zone];
	rf_dt f = rf_from_secs(dt_utc, 0);
	char dtline[64], dig[32];
	echs_task_t t;
	int hit = 0;

	if (!rx_can_reach_tod(u->g, f.H, f.M, f.S, z->lastH, z->lastM, z->lastS)) {
		return 0;
	}
	rx_dtdigits(dig, sizeof(dig), f, 0);
	snprintf(dtline, sizeof(dtline), "DTSTART:%s", dig);
	if ((t = mktask(dtline, u->rrule, "")) == NULL || t->strm == NULL) {
		if (t) free_echs_task(t);
		return 1;
	}
	for (long n = 0; n < maxpops + 130; n++) {
		echs_event_t e = echs_evstrm_pop(t->strm);
		if (echs_nul_event_p(e) || e.from.y > 2038U) {
			break;
		}
		if (e.from.y >= 2036U && e.from.H == (unsigned)z->lastH && e.from.M == (unsigned)z->lastM && e.from.S == (unsigned)z->lastS) {
			/* same time of day in the zone's last years: leave the case to C07 */
			hit = 1;
			break;
		}
	}
	free_echs_task(t);
	return hit;
}

static void
run_unit(struct unit_s *u)
{
	static int64_t occ[KEEP + 8];
	const struct term_s *tms = terms_full ? terms_all : terms_quick;
	const int ntms = terms_full ? (int)(sizeof(terms_all) / sizeof(*terms_all)) : (int)(sizeof(terms_quick) / sizeof(*terms_quick));
	long nocc = 0;
	int ended = 0;

	for (int k = 0; k < ntms; k++) {
		const struct term_s *tm = &tms[k];
		char term[96];
		int64_t until = 0;
		long n;

		if (tm->count) {
			snprintf(term, sizeof(term), ";COUNT=%d", tm->count);
		} else if (tm->until) {
			char dig[40];
			rf_dt ut;

			if (nocc <= tm->k) {
				continue;
			}
			until = occ[tm->k] - (tm->until == 2 ? (u->allday ? 86400 : 1) : 0);
			ut = rf_from_secs(until, u->allday);
			if (u->x->scale) {
				/* the rule counts in its own scale: write UNTIL in that scale's digits */
				echs_instant_t gi = {.y = (unsigned)ut.y, .m = (unsigned)ut.m, .d = (unsigned)ut.d,
						     .H = u->allday ? ECHS_ALL_DAY : (unsigned)ut.H, .M = (unsigned)ut.M, .S = (unsigned)ut.S,
						     .ms = u->allday ? 0 : ECHS_ALL_SEC};
				echs_instant_t hi = echs_instant_detach_scale(
					echs_instant_rescale(gi, (echs_scale_t)(u->x->scale == 1 ? SCALE_HIJRI_UMMULQURA : u->x->scale == 2 ? SCALE_HIJRI_IA : SCALE_HIJRI_DIYANET)));
				if (echs_nul_instant_p(hi)) {
					vd_count("skipped_until_outside_scale", 1);
					continue;
				}
				ut.y = (int)hi.y, ut.m = (int)hi.m, ut.d = (int)hi.d;
			}
			rx_dtdigits(dig, sizeof(dig), ut, u->x->zone >= 0);
			snprintf(term, sizeof(term), ";UNTIL=%s", dig);
		} else {
			term[0] = '\0';
		}
		n = follow(u, tm, term, tm->until != 0, until, tm->count || tm->until ? (tm->count > 200 ? tm->count + 8 : 208) : maxpops,
			   k == 0 ? occ : NULL, &ended);
		if (k == 0) {
			if (n < 0) {
				return;
			}
			nocc = n > KEEP ? KEEP : n;
			if (n >= 2) {
				vd_nontrivial();
			}
			vd_count("occurrences_followed", n);
			if (ended) {
				vd_count("streams_ended_by_themselves", 1);
			}
			if (vd_want_sample()) {
				char b1[32], b2[32];
				vd_sample("%s RRULE:%s -> %ld occurrences%s, first %s, %ld-th %s", u->dtline, u->rrule, n,
					  ended ? " (stream ended)" : "", n ? secs_str(b1, sizeof(b1), occ[0], u->allday) : "-",
					  nocc, nocc ? secs_str(b2, sizeof(b2), occ[nocc - 1], u->allday) : "-");
			}
		}
	}
}

static int
has_timepart(const struct rg_rule_s *g)
{
	return g->ref.nH || g->ref.nM || g->ref.nS;
}

static void
try_unit(const struct rg_rule_s *g, const struct rx_ext_s *x, rf_dt an, int hijri_digits)
{
	struct unit_s u;
	char dig[32];
	int ad = 0;

	if (an.allday && (g->freq >= RF_HOURLY || has_timepart(g))) {
		/* DATE valued DTSTART with time parts: left undefined by the RFC */
		return;
	}
	if (x->zone >= 0 && (an.allday || an.y < 1970 || an.y >= 2037)) {
		return;
	}
	if (!vd_next()) {
		return;
	}
	u.g = g;
	u.x = x;
	rx_dtdigits(dig, sizeof(dig), an, 0);
	snprintf(u.dtline, sizeof(u.dtline), "DTSTART%s%s:%s", an.allday ? ";VALUE=DATE" : "",
		 x->scale && !hijri_digits ? "" : x->dtpar, dig);
	snprintf(u.rrule, sizeof(u.rrule), "%s%s", g->text, x->rpart);
	snprintf(u.shape, sizeof(u.shape), "%s/%s", g->shape, x->tag);
	vd_desc("%s RRULE:%s", u.dtline, u.rrule);
	vd_shape("%s/none/%s", g->shape, x->tag);
	if (!dtstart_frame(u.dtline, &u.ts0, &ad)) {
		/* DTSTART itself is not accepted (e.g. outside a table calendar) */
		vd_count("skipped_dtstart_not_accepted", 1);
		return;
	}
	u.allday = ad;
	if (!x->scale && x->zone < 0 && (u.ts0 != rf_secs(an) || ad != an.allday)) {
		/* the driver's own arithmetic and the parser disagree on a plain DTSTART: harness bug */
		fprintf(stderr, "c16: DTSTART frame mismatch for %s\n", u.dtline);
		abort();
	}
	if (x->zone >= 0 && tz_poison(&u, u.ts0)) {
		vd_count("skipped_tz_last_transition", 1);
		return;
	}
	run_unit(&u);
}

static void
per_rule(const struct rg_rule_s *g, void *clo)
{
	(void)clo;
	if (vd_stop()) {
		return;
	}
	for (int xi = 0; xi < RX_NEXT; xi++) {
		const struct rx_ext_s *x = &rx_ext[xi];

		if (xi && !exts_on) {
			break;
		}
		if (!rx_applies(g->freq, x, pairs)) {
			continue;
		}
		for (int a = 0; a < nanchors && a < RG_NANCHOR; a++) {
			try_unit(g, x, rg_anchor[a], 0);
		}
		if (x->scale) {
			for (int a = 0; a < RX_NHIJRI && a < (nanchors + 1) / 2; a++) {
				try_unit(g, x, rx_hijri_anchor[a], 1);
			}
		}
		if (x->zone >= 0) {
			for (int a = 0; a < RX_NTZANCHOR; a++) {
				if (rx_tz_anchor[a].zone == x->zone) {
					try_unit(g, x, rx_tz_anchor[a].t, 0);
				}
			}
		}
	}
}

static void
enumerate(void)
{
	static int ivals[16];
	struct rg_cfg_s c = {0};
	const char *iv = vd_opt("intervals", "1,2");

	vd_count_cases = 0;
	c.freq_lo = (int)vd_opt_l("freqlo", RF_YEARLY);
	c.freq_hi = (int)vd_opt_l("freqhi", RF_SECONDLY);
	c.maxparts = (int)vd_opt_l("maxparts", 1);
	c.maxdateparts3 = (int)vd_opt_l("date3", 0);
	c.menucap = (int)vd_opt_l("menucap", 0);
	c.nintervals = rg_list(ivals, 16, iv);
	c.intervals = ivals;
	nanchors = (int)vd_opt_l("anchors", 8);
	terms_full = !strcmp(vd_opt("terms", "quick"), "full");
	maxpops = vd_opt_l("pops", 3000);
	pairs = (int)vd_opt_l("pairs", 0);
	exts_on = strcmp(vd_opt("exts", "all"), "none");
	rg_enumerate(&c, per_rule, NULL);
}

int
main(int argc, char *argv[])
{
	return vd_main(argc, argv, enumerate);
}
