/* C16 -- occurrence streams are ordered and bounded for every rule, extensions included.
 *
 * unit  = (rule of the C01 grammar, one extension of ref/rrgram_ext.h, DTSTART anchor)
 * case  = unit x termination (none | COUNT k | UNTIL on / just before the 4th resp. 100th occurrence)
 * Every case is rendered as a one-event calendar, pushed through the real parser and popped
 * POPS times (or to its end).  Oracle, no reference evaluator involved:
 *   order           starts strictly increasing
 *   before-dtstart  no start before DTSTART
 *   until           no start after UNTIL
 *   count           never more than COUNT starts
 *   resurrect       after the nul event the stream stays ended (3 further pops and peeks)
 *   malformed       every start is a calendar date/time (else the order is not defined)
 * Everything is compared as seconds in the frame the stream delivers (UTC, Gregorian).  DTSTART
 * in that frame is what the same DTSTART line yields as an event without RRULE (one occurrence);
 * for plain Gregorian floating anchors it is also computed here and the two must agree.
 * UNTIL is derived from the unterminated stream's own k-th occurrence, written the way the
 * event needs it (UTC with Z for TZID events, digits of the rule's scale for SCALE rules).
 *
 * options: maxparts=1|2|3 date3=0|1 intervals=.. anchors=N menucap=N terms=quick|full
 *          pops=N pairs=0|1 freqlo= freqhi= exts=all|none
 */
#include "vdrv.h"
#include "ref/icalio.h"
#include "ref/rfc5545.h"
#include "ref/rrgram.h"
#include "ref/rrgram_ext.h"
#include "ref/strmfollow.h"
#include "scale.h"

#define KEEP	128

static int nanchors = 8;
static int terms_full = 0;
static long maxpops = 3000;
static int pairs = 0;
static int exts_on = 1;
static double pop_budget = 0.2;

static const echs_scale_t scale_of[] = {SCALE_GREGORIAN, SCALE_HIJRI_UMMULQURA, SCALE_HIJRI_IA, SCALE_HIJRI_DIYANET, SCALE_HIJRI_IVC};

struct unit_s {
	const struct rg_rule_s *g;
	const struct rx_ext_s *x;
	char dtline[96];	/* DTSTART...:digits */
	char rrule[384];	/* without termination */
	int allday;
	int64_t ts0;		/* DTSTART in the stream's frame */
	int last_year;		/* the stream is followed up to this Gregorian year */
	char shape[224];	/* signature shape, see rx_shape() */
};

struct term_s {
	const char *name;
	int count;
	int until;	/* 1: on the k-th occurrence, 2: one second (day) before it */
	int k;		/* 0-based index of that occurrence */
};
static const struct term_s terms_quick[] = {
	{"none", 0, 0, 0}, {"COUNT", 2, 0, 0}, {"COUNT", 65, 0, 0}, {"UNTIL-on", 0, 1, 3}, {"UNTIL-before", 0, 2, 99},
};
static const struct term_s terms_all[] = {
	{"none", 0, 0, 0}, {"COUNT", 1, 0, 0}, {"COUNT", 2, 0, 0}, {"COUNT", 63, 0, 0}, {"COUNT", 64, 0, 0}, {"COUNT", 65, 0, 0},
	{"COUNT", 130, 0, 0}, {"UNTIL-on", 0, 1, 3}, {"UNTIL-before", 0, 2, 3}, {"UNTIL-on", 0, 1, 99}, {"UNTIL-before", 0, 2, 99},
};

/* follow one stream; returns the number of occurrences seen, first KEEP of them in OUT.
 * *ENDED: 1 the stream ended by itself, 2 left at year 2100, 3 a pop did not answer within
 * the budget (termination is C09's subject; the stream is abandoned and counted). */
static long
follow(const struct unit_s *u, const struct term_s *tm, const char *term, int has_until, int64_t until,
       long pops, int64_t *out, int *ended)
{
	char sig[320], b1[32], b2[32];
	static echs_task_t t;
	static volatile long n;
	int64_t prev = INT64_MIN;
	int prev_ad = 0;
	int r_order = 0, r_before = 0, r_until = 0, r_count = 0, r_malf = 0;

	vd_sh->evals++;
	vd_desc("%s RRULE:%s%s", u->dtline, u->rrule, term);
	vd_shape("%s/%s/%s", u->shape, tm->name, u->x->tag);
	*ended = 0;
	n = 0;
	if ((t = sf_mktask(u->dtline, u->rrule, term, NULL)) == NULL || t->strm == NULL) {
		/* not an event echse accepts */
		vd_count("not_accepted", 1);
		if (t) {
			free_echs_task(t);
		}
		return -1;
	}
	if (sigsetjmp(sf_jmp, 0)) {
		/* no answer: leave the stream alone (its state is unknown), C09 judges termination */
		vd_count("abandoned_no_answer_within_budget", 1);
		if (getenv("C16_DEBUG")) {
			fprintf(stderr, "ABANDON %s\n", vd_sh->desc);
		}
		*ended = 3;
		return n;
	}
	sf_arm(pop_budget);
	while (n < pops) {
		echs_event_t e = echs_evstrm_pop(t->strm);
		int bad = 0;
		int64_t s;

		sf_progress++;
		if (echs_nul_event_p(e)) {
			*ended = 1;
			break;
		}
		if (e.from.y > (unsigned)u->last_year && e.from.y < 4096U) {
			/* beyond the calendar range the code supports (leap years as y % 4; end of a table calendar): stop following */
			*ended = 2;
			break;
		}
		s = sf_inst_secs(e.from, &bad);
		if (bad) {
			if (!r_malf++) {
				snprintf(sig, sizeof(sig), "malformed/%s/%s", u->shape, u->x->tag);
				vd_viol(sig, "occurrence %ld is no calendar time: y=%u m=%u d=%u H=%u M=%u S=%u (%#lx)", (long)n,
					e.from.y, e.from.m, e.from.d, e.from.H, e.from.M, e.from.S, (unsigned long)e.from.u);
			}
			n++;
			continue;
		}
		if (n < KEEP && out != NULL) {
			out[n] = s;
		}
		if (prev != INT64_MIN && s <= prev && !r_order++) {
			/* equal or earlier; at a refill boundary (63 delivered per refill) or inside a batch */
			snprintf(sig, sizeof(sig), "order-%s/%s/%s/%s", s == prev ? "dup" : "inv", u->shape,
				 n % 63 ? "inner" : "refill", u->x->tag);
			vd_viol(sig, "occurrence %ld (%s) is not after occurrence %ld (%s)", (long)n,
				sf_secs_str(b1, sizeof(b1), s, echs_instant_all_day_p(e.from)), (long)n - 1, sf_secs_str(b2, sizeof(b2), prev, prev_ad));
		}
		if (s < u->ts0 && !r_before++) {
			snprintf(sig, sizeof(sig), "before-dtstart/%s/%s", u->shape, u->x->tag);
			vd_viol(sig, "occurrence %ld (%s) lies before DTSTART (%s)", (long)n,
				sf_secs_str(b1, sizeof(b1), s, echs_instant_all_day_p(e.from)), sf_secs_str(b2, sizeof(b2), u->ts0, u->allday));
		}
		if (has_until && s > until && !r_until++) {
			snprintf(sig, sizeof(sig), "until/%s/%s", u->shape, u->x->tag);
			vd_viol(sig, "occurrence %ld (%s) lies after UNTIL (%s)", (long)n,
				sf_secs_str(b1, sizeof(b1), s, echs_instant_all_day_p(e.from)), sf_secs_str(b2, sizeof(b2), until, u->allday));
		}
		prev = s;
		prev_ad = echs_instant_all_day_p(e.from);
		n++;
		if (tm->count && n > tm->count && !r_count++) {
			snprintf(sig, sizeof(sig), "count/%s/%s", u->shape, u->x->tag);
			vd_viol(sig, "occurrence number %ld (%s) of a rule with COUNT=%d", (long)n,
				sf_secs_str(b1, sizeof(b1), s, prev_ad), tm->count);
			/* no point in listing the rest */
			break;
		}
	}
	if (*ended == 1) {
		for (int i = 0; i < 3; i++) {
			echs_event_t p = echs_evstrm_next(t->strm);
			echs_event_t e = echs_evstrm_pop(t->strm);
			sf_progress++;
			if (!echs_nul_event_p(p) || !echs_nul_event_p(e)) {
				int bad = 0;
				int64_t s = sf_inst_secs(echs_nul_event_p(e) ? p.from : e.from, &bad);
				snprintf(sig, sizeof(sig), "resurrect/%s/%s/%s", u->shape, tm->name, u->x->tag);
				vd_viol(sig, "after the end of the stream (%ld occurrences) call %d yields %s again", (long)n, i + 1,
					bad ? "(malformed)" : sf_secs_str(b1, sizeof(b1), s, 0));
				break;
			}
		}
	}
	sf_disarm();
	free_echs_task(t);
	return n;
}

/* Would the TZID stream of this unit look up its zone's last 32-bit transition?  Its frame
 * instants are those of the floating stream starting at DTSTART's UTC image. */
static int
tz_poison(const struct unit_s *u, int64_t dt_utc)
{
	const struct rx_zone_s *z = &rx_zone[u->x->zone];
	rf_dt f = rf_from_secs(dt_utc, 0);
	char dtline[64], dig[32];
	echs_task_t t;
	int hit = 0;

	if (!rx_can_reach_tod(u->g, f.H, f.M, f.S, z->lastH, z->lastM, z->lastS)) {
		return 0;
	}
	rx_dtdigits(dig, sizeof(dig), f, 0);
	snprintf(dtline, sizeof(dtline), "DTSTART:%s", dig);
	if ((t = sf_mktask(dtline, u->rrule, "", NULL)) == NULL || t->strm == NULL) {
		if (t) free_echs_task(t);
		return 1;
	}
	if (sigsetjmp(sf_jmp, 0)) {
		/* the floating twin does not answer either: the case is C09's */
		return 1;
	}
	sf_arm(pop_budget);
	for (long n = 0; n < maxpops + 130; n++) {
		echs_event_t e = echs_evstrm_pop(t->strm);
		sf_progress++;
		if (echs_nul_event_p(e) || e.from.y > 2038U) {
			break;
		}
		if (e.from.y >= 2036U && e.from.H == (unsigned)z->lastH && e.from.M == (unsigned)z->lastM && e.from.S == (unsigned)z->lastS) {
			/* same time of day in the zone's last years: leave the case to C07 */
			hit = 1;
			break;
		}
	}
	sf_disarm();
	free_echs_task(t);
	return hit;
}

static void
run_unit(struct unit_s *u)
{
	static int64_t occ[KEEP + 8];
	const struct term_s *tms = terms_full ? terms_all : terms_quick;
	const int ntms = terms_full ? (int)(sizeof(terms_all) / sizeof(*terms_all)) : (int)(sizeof(terms_quick) / sizeof(*terms_quick));
	long nocc = 0;
	int ended = 0;

	for (int k = 0; k < ntms; k++) {
		const struct term_s *tm = &tms[k];
		char term[96];
		int64_t until = 0;
		long n;

		if (tm->count) {
			snprintf(term, sizeof(term), ";COUNT=%d", tm->count);
		} else if (tm->until) {
			char dig[40];
			rf_dt ut;

			if (nocc <= tm->k) {
				continue;
			}
			until = occ[tm->k] - (tm->until == 2 ? (u->allday ? 86400 : 1) : 0);
			ut = rf_from_secs(until, u->allday);
			if (u->x->scale) {
				/* the rule counts in its own scale: write UNTIL in that scale's digits */
				echs_instant_t gi = {.y = (unsigned)ut.y, .m = (unsigned)ut.m, .d = (unsigned)ut.d,
						     .H = u->allday ? ECHS_ALL_DAY : (unsigned)ut.H, .M = (unsigned)ut.M, .S = (unsigned)ut.S,
						     .ms = u->allday ? 0 : ECHS_ALL_SEC};
				echs_instant_t hi = echs_instant_detach_scale(
					echs_instant_rescale(gi, scale_of[u->x->scale]));
				if (echs_nul_instant_p(hi)) {
					vd_count("skipped_until_outside_scale", 1);
					continue;
				}
				ut.y = (int)hi.y, ut.m = (int)hi.m, ut.d = (int)hi.d;
			}
			rx_dtdigits(dig, sizeof(dig), ut, u->x->zone >= 0);
			snprintf(term, sizeof(term), ";UNTIL=%s", dig);
		} else {
			term[0] = '\0';
		}
		n = follow(u, tm, term, tm->until != 0, until, tm->count || tm->until ? (tm->count > 200 ? tm->count + 8 : 208) : maxpops,
			   k == 0 ? occ : NULL, &ended);
		if (k == 0) {
			if (n < 0 || ended == 3) {
				return;
			}
			nocc = n > KEEP ? KEEP : n;
			if (n >= 2) {
				vd_nontrivial();
			}
			vd_count("occurrences_followed", n);
			if (ended) {
				vd_count(ended == 1 ? "streams_ended_by_themselves" : "streams_left_at_year_2100", 1);
			}
			if (vd_want_sample()) {
				char b1[32], b2[32];
				vd_sample("%s RRULE:%s -> %ld occurrences%s, first %s, %ld-th %s", u->dtline, u->rrule, n,
					  ended == 1 ? " (stream ended)" : ended ? " (up to 2099)" : "", n ? sf_secs_str(b1, sizeof(b1), occ[0], u->allday) : "-",
					  nocc, nocc ? sf_secs_str(b2, sizeof(b2), occ[nocc - 1], u->allday) : "-");
			}
		}
	}
}

static int
has_timepart(const struct rg_rule_s *g)
{
	return g->ref.nH || g->ref.nM || g->ref.nS;
}

static void
try_unit(const struct rg_rule_s *g, const struct rx_ext_s *x, rf_dt an, int hijri_digits)
{
	struct unit_s u;
	char dig[32];
	int ad = 0;

	if (an.allday && (g->freq >= RF_HOURLY || has_timepart(g))) {
		/* DATE valued DTSTART with time parts: left undefined by the RFC */
		return;
	}
	if (x->zone >= 0 && (an.allday || an.y < 1970 || an.y >= 2037)) {
		return;
	}
	if (!vd_next()) {
		return;
	}
	u.g = g;
	u.x = x;
	rx_dtdigits(dig, sizeof(dig), an, 0);
	snprintf(u.dtline, sizeof(u.dtline), "DTSTART%s%s:%s", an.allday ? ";VALUE=DATE" : "",
		 x->scale && !hijri_digits ? "" : x->dtpar, dig);
	snprintf(u.rrule, sizeof(u.rrule), "%s%s", g->text, x->rpart);
	rx_shape(u.shape, sizeof(u.shape), g, x);
	vd_desc("%s RRULE:%s", u.dtline, u.rrule);
	vd_shape("%s/none/%s", u.shape, x->tag);
	if (!sf_dtstart_frame(u.dtline, &u.ts0, &ad, NULL)) {
		/* DTSTART itself is not accepted (e.g. outside a table calendar) */
		vd_count("skipped_dtstart_not_accepted", 1);
		return;
	}
	u.allday = ad;
	u.last_year = x->zone >= 0 ? 2036 : 2099;	/* zone files end in 2037 (32-bit data); beyond is C07's */
	if (rx_scale[x->scale].last_year) {
		const int y0 = rf_from_secs(u.ts0, 0).y;
		if (y0 < rx_scale[x->scale].first_year || y0 >= rx_scale[x->scale].last_year) {
			vd_count("skipped_dtstart_outside_table_calendar", 1);
			return;
		}
		u.last_year = rx_scale[x->scale].last_year;
	}
	if (!x->scale && x->zone < 0 && (u.ts0 != rf_secs(an) || ad != an.allday)) {
		/* the driver's own arithmetic and the parser disagree on a plain DTSTART: harness bug */
		fprintf(stderr, "c16: DTSTART frame mismatch for %s\n", u.dtline);
		abort();
	}
	if (g->freq >= RF_HOURLY || (g->freq == RF_DAILY && !x->scale)) {
		/* A rule whose set is empty (FREQ=HOURLY;INTERVAL=2;BYHOUR=9 from 10:30) is C09's subject:
		 * the sub-daily and daily expansions do not return for it.  Predicted with the reference
		 * evaluator on the stream's own frame; whatever slips through meets the watchdog. */
		static int64_t one[2];
		int ambig = 0, trunc = 0;
		rf_dt t0 = rf_from_secs(u.ts0, ad);
		if (!rf_eval(&g->ref, t0, u.ts0 + rg_window(g->freq), one, 1, &ambig, &trunc)) {
			vd_count("skipped_empty_in_window", 1);
			return;
		}
	}
	if (x->zone >= 0 && tz_poison(&u, u.ts0)) {
		vd_count("skipped_tz_last_transition", 1);
		return;
	}
	run_unit(&u);
}

static void
per_rule(const struct rg_rule_s *g, void *clo)
{
	(void)clo;
	if (vd_stop()) {
		return;
	}
	for (int xi = 0; xi < RX_NEXT; xi++) {
		const struct rx_ext_s *x = &rx_ext[xi];

		if (xi && !exts_on) {
			break;
		}
		if (!rx_applies(g->freq, x, pairs)) {
			continue;
		}
		for (int a = 0; a < nanchors && a < RG_NANCHOR; a++) {
			try_unit(g, x, rg_anchor[a], 0);
		}
		if (x->scale) {
			for (int a = 0; a < RX_NHIJRI && a < (nanchors + 1) / 2; a++) {
				try_unit(g, x, rx_hijri_anchor[a], 1);
			}
		}
		if (x->zone >= 0) {
			for (int a = 0; a < RX_NTZANCHOR; a++) {
				if (rx_tz_anchor[a].zone == x->zone) {
					try_unit(g, x, rx_tz_anchor[a].t, 0);
				}
			}
		}
	}
}

static void
enumerate(void)
{
	static int ivals[16];
	struct rg_cfg_s c = {0};
	const char *iv = vd_opt("intervals", "1,2");

	vd_count_cases = 0;
	c.freq_lo = (int)vd_opt_l("freqlo", RF_YEARLY);
	c.freq_hi = (int)vd_opt_l("freqhi", RF_SECONDLY);
	c.maxparts = (int)vd_opt_l("maxparts", 1);
	c.maxdateparts3 = (int)vd_opt_l("date3", 0);
	c.menucap = (int)vd_opt_l("menucap", 0);
	c.nintervals = rg_list(ivals, 16, iv);
	c.intervals = ivals;
	nanchors = (int)vd_opt_l("anchors", 8);
	terms_full = !strcmp(vd_opt("terms", "quick"), "full");
	maxpops = vd_opt_l("pops", 3000);
	pairs = (int)vd_opt_l("pairs", 0);
	exts_on = strcmp(vd_opt("exts", "all"), "none");
	pop_budget = strtod(vd_opt("budget", "0.2"), NULL);
	sf_init();
	rg_enumerate(&c, per_rule, NULL);
}

int
main(int argc, char *argv[])
{
	return vd_main(argc, argv, enumerate);
}
