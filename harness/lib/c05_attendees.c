/* C05 -- the mail addresses of a task are read as written, whatever their lengths add up to.
 *
 * One event with 1..maxn ATTENDEE lines whose address lengths run through EVERY tuple of lengths out of 1..maxlen
 * (the list keeps its strings in a pool that grows by powers of two; sums of lengths that land exactly on a power
 * of two are where the book-keeping is delicate), written with and without the mailto: prefix.  The task read by
 * the real parser must hold exactly those addresses in order; it is then written by echs_task_icalify() and read
 * again, the addresses must survive.  Run plain and under ASan+bounds (a write behind the pool is the failure the
 * plain run cannot see).
 */
#include "vdrv.h"
#include "ref/icalio.h"
#include "ref/c05_common.h"
#include "strlst.h"

static void
mkaddr(char *buf, int len, int salt)
{
	/* len characters, an @ where there is room for one */
	for (int i = 0; i < len; i++) buf[i] = (char)('a' + (i * 7 + salt) % 26);
	if (len >= 3) buf[len / 2] = '@';
	buf[len] = '\0';
}

static int
check(echs_task_t t, char addr[][64], int n, const char *when, int *lens)
{
	char sig[96];
	int got = 0;
	if (t == NULL) {
		vd_viol("attendees/rejected", "%s: no task", when);
		return 0;
	}
	if (t->att != NULL) {
		for (; t->att->l[got] != NULL && got < 64; got++);
	}
	if (got != n) {
		snprintf(sig, sizeof(sig), "attendees/count/%s", when);
		vd_viol(sig, "%s: %d addresses in the task, %d written (lengths %d %d %d %d)", when, got, n, lens[0], lens[1], lens[2], lens[3]);
		return 0;
	}
	for (int i = 0; i < n; i++) {
		if (strcmp(t->att->l[i], addr[i])) {
			snprintf(sig, sizeof(sig), "attendees/value/%s", when);
			vd_viol(sig, "%s: address %d reads %s, written %s", when, i + 1, t->att->l[i], addr[i]);
			return 0;
		}
	}
	return 1;
}

static void
enumerate(void)
{
	const int maxn = (int)vd_opt_l("maxn", 3);
	const int maxlen = (int)vd_opt_l("maxlen", 36);

	vd_count_cases = 0;
	for (int n = 1; n <= maxn && n <= 4; n++) {
		long ntup = 1;
		for (int i = 0; i < n; i++) ntup *= maxlen;
		/* one case per leading length */
		for (int l0 = 1; l0 <= maxlen; l0++) {
			if (!vd_next()) continue;
			vd_shape("attendees/n=%d", n);
			vd_desc("%d ATTENDEE lines, the first address %d characters long, the others every length 1..%d", n, l0, maxlen);
			for (long tup = 0; tup < ntup / maxlen; tup++) {
				for (int pfx = 0; pfx < 2; pfx++) {
					static char text[4096], back[8192];
					char addr[4][64];
					int lens[4] = {0, 0, 0, 0};
					long x = tup;
					size_t o;
					echs_task_t t, t2;
					ssize_t bn;

					lens[0] = l0;
					for (int i = 1; i < n; i++, x /= maxlen) lens[i] = 1 + (int)(x % maxlen);
					o = (size_t)snprintf(text, sizeof(text), "BEGIN:VCALENDAR\nVERSION:2.0\nBEGIN:VEVENT\nUID:att\nSUMMARY:true\nDTSTART:20300101T000000Z\nORGANIZER:mailto:boss@example.com\n");
					for (int i = 0; i < n; i++) {
						mkaddr(addr[i], lens[i], i);
						o += (size_t)snprintf(text + o, sizeof(text) - o, "ATTENDEE:%s%s\n", pfx ? "mailto:" : "", addr[i]);
					}
					o += (size_t)snprintf(text + o, sizeof(text) - o, "END:VEVENT\nEND:VCALENDAR\n");
					vd_sh->evals++;
					vd_beat();
					t = ical_task1(text);
					if (!check(t, addr, n, "read", lens)) {
						if (t) free_echs_task(t);
						continue;
					}
					bn = c05_seria(back, sizeof(back), &t, 1, C05_FORM_ECHSD);
					t2 = bn > 0 ? ical_task1(back) : NULL;
					(void)check(t2, addr, n, "written-and-read", lens);
					if (t2) free_echs_task(t2);
					free_echs_task(t);
				}
			}
			if (n > 1) vd_nontrivial();
			if (vd_want_sample()) vd_sample("%d attendees, first length %d, all other lengths 1..%d, with and without mailto:", n, l0, maxlen);
		}
	}
}

int
main(int argc, char *argv[])
{
	return vd_main(argc, argv, enumerate);
}
