/* C08 -- the daemon's wake-up timestamp: echsd.c's static instant_to_tstamp()
 * against the reference calendar (ref/civil.h), and against the library's
 * echs_instant_to_epoch().
 *
 * The function is reached by including the unmodified echsd.c (and logger.c,
 * which it needs at link time) into this translation unit with main renamed.
 * The generic harness rule does not link libev, so the thirteen libev entry
 * points echsd.c references are defined below as stubs that abort; none of
 * them is reachable from instant_to_tstamp(), which is a pure function of its
 * argument.  (_GNU_SOURCE must not be defined here: glibc would then declare
 * struct ucred, which echsd.c declares itself.)
 *
 * options: secs=5|all  (seconds of each day examined; all-day always)
 */
#define main	echsd_main
#include "echsd.c"
#undef main
#include "logger.c"

#include "vdrv.h"
#include "ref/lviol.h"
#include "ref/civil.h"
#include <inttypes.h>

#define STUB(name)	fprintf(stderr, "c08_tstamp: libev stub %s called\n", name), abort()
struct ev_loop *ev_default_loop(unsigned int flags) { STUB("ev_default_loop"); return NULL; }
void ev_loop_destroy(struct ev_loop *l) { STUB("ev_loop_destroy"); }
void ev_loop_fork(struct ev_loop *l) { STUB("ev_loop_fork"); }
int ev_run(struct ev_loop *l, int flags) { STUB("ev_run"); return 0; }
void ev_break(struct ev_loop *l, int how) { STUB("ev_break"); }
void ev_io_start(struct ev_loop *l, ev_io *w) { STUB("ev_io_start"); }
void ev_io_stop(struct ev_loop *l, ev_io *w) { STUB("ev_io_stop"); }
void ev_timer_start(struct ev_loop *l, ev_timer *w) { STUB("ev_timer_start"); }
void ev_periodic_start(struct ev_loop *l, ev_periodic *w) { STUB("ev_periodic_start"); }
void ev_periodic_stop(struct ev_loop *l, ev_periodic *w) { STUB("ev_periodic_stop"); }
void ev_signal_start(struct ev_loop *l, ev_signal *w) { STUB("ev_signal_start"); }
void ev_child_start(struct ev_loop *l, ev_child *w) { STUB("ev_child_start"); }
void ev_child_stop(struct ev_loop *l, ev_child *w) { STUB("ev_child_stop"); }

#define Y0	1901
#define Y1	2099

static const char*
era_of(int64_t t)
{
	return t < 0 ? "pre-1970" : t < INT64_C(978307200) ? "1970-2000"
		: t < (INT64_C(1) << 31) ? "2001-2038" : "post-2038";
}

static int
era_no(int64_t t)
{
	return t < 0 ? 0 : t < INT64_C(978307200) ? 1 : t < (INT64_C(1) << 31) ? 2 : 3;
}

static void
one(echs_instant_t I, int kind, int64_t want)
{
	double got = instant_to_tstamp(I);

	if (got != (double)want) {
		double dl = got - (double)want;
		int err = (dl > 1e12 || dl < -1e12) ? 0 : (dl == (double)(int64_t)dl && (int64_t)dl % 86400 == 0) ? 1 : 2;
		static const char *en[] = {"astronomically-off", "off-by-whole-days", "other"};
		int id = era_no(want) << 3 | err;
		if (lv_hit(id)) {
			char sig[120], what[80];
			if (kind == 0) {
				snprintf(what, sizeof(what), "%04u-%02u-%02u(all-day)", (unsigned)I.y, (unsigned)I.m, (unsigned)I.d);
			} else if (kind == 1) {
				snprintf(what, sizeof(what), "%04u-%02u-%02uT%02u:%02u:%02u", (unsigned)I.y, (unsigned)I.m, (unsigned)I.d, (unsigned)I.H, (unsigned)I.M, (unsigned)I.S);
			} else {
				snprintf(what, sizeof(what), "%04u-%02u-%02uT%02u:%02u:%02u.%03u", (unsigned)I.y, (unsigned)I.m, (unsigned)I.d, (unsigned)I.H, (unsigned)I.M, (unsigned)I.S, (unsigned)I.ms);
			}
			snprintf(sig, sizeof(sig), "tstamp/%s/%s", era_of(want), en[err]);
			lv_set(id, sig, "instant_to_tstamp(%s) = %.0f, calendar says %" PRId64 " (off by %.0f s)", what, got, want, dl);
		}
	}
}

static void
enumerate(void)
{
	const char *secs = vd_opt("secs", "5");
	const int all = !strcmp(secs, "all");
	static const int s5[] = {0, 1, 43199, 43200, 86399};
	const int64_t z0 = cv_days_from_civil(Y0, 1, 1), z1 = cv_days_from_civil(Y1, 12, 31);

	vd_count_cases = 0;
	for (int64_t day = z0; day <= z1; day++) {
		struct cv_ymd_s c;
		long n = 0, disagree = 0;

		if (!vd_next()) continue;
		c = cv_civil_from_days(day);
		vd_shape("tstamp/%s", era_of(day * 86400));
		vd_desc("daemon wake-up timestamp on %04d-%02d-%02d: all-day, and %s", c.y, c.m, c.d,
			all ? "every second of the day" : "seconds 0, 1, 43199, 43200, 86399 (whole-second and .000/.999 ms instants)");
		{
			echs_instant_t I = {.u = 0U};
			I.y = c.y, I.m = c.m, I.d = c.d, I.H = ECHS_ALL_DAY;
			/* an all-day instant is armed for the start of its day (UTC) */
			one(I, 0, day * 86400);
			n++;
		}
		for (int k = 0; k < (all ? 86400 : 5); k++) {
			int s = all ? k : s5[k];
			echs_instant_t I = {.u = 0U};
			I.y = c.y, I.m = c.m, I.d = c.d, I.H = s / 3600, I.M = s / 60 % 60, I.S = s % 60, I.ms = ECHS_ALL_SEC;
			one(I, 1, day * 86400 + s);
			n++;
			if (instant_to_tstamp(I) != (double)echs_instant_to_epoch(I)) {
				disagree++;
			}
			if (!all) {
				/* millisecond instants belong to their second */
				I.ms = 0;
				one(I, 2, day * 86400 + s);
				I.ms = 999;
				one(I, 2, day * 86400 + s);
				n += 2;
			}
			if (all && !(k & 0xfff)) vd_beat();
		}
		lv_flush();
		if (disagree) vd_count("tstamp!=echs_instant_to_epoch", disagree);
		vd_sh->evals += n;
		vd_sh->nontriv += n;
		vd_sample("tstamp: %04d-%02d-%02d, %ld instants (all-day, whole seconds%s)", c.y, c.m, c.d, n, all ? "" : ", .000 and .999 ms");
	}
}

int
main(int argc, char *argv[])
{
	if (cv_selftest(Y0 - 1, Y1 + 1) < 0) {
		fprintf(stderr, "c08_tstamp: reference calendar failed its self test\n");
		return 3;
	}
	return vd_main(argc, argv, enumerate);
}
