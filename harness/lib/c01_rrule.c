/* C01 -- RRULE expansion equals the RFC 5545 recurrence set.
 *
 * case = (rule of the bounded grammar, termination, synchronised DTSTART derived from an anchor).
 * The event is rendered as a one-event calendar, pushed through the real parser,
 * popped; compared with ref/rfc5545.h.  A second copy is consumed the way echsd does
 * (peek, peek, pop) and must give the same sequence.
 *
 * options: maxparts=1|2|3 date3=0|1 intervals=1,2,.. anchors=N menucap=N terms=quick|full freqlo= freqhi=
 *
 * mode=grammar (default) is the above.  Two further families with their own enumerations (own case indices):
 * mode=setposmix  YEARLY/MONTHLY rules whose candidate sets differ in size from period to period, with BYSETPOS
 *                 lists that mix positive and negative positions such that a positive position exists in some
 *                 periods only (or in none); synchronised DTSTARTs derived like in the grammar.
 * mode=unsync     FREQ=MONTHLY;INTERVAL=n;BYMONTH=... (optionally with BYMONTHDAY/BYDAY) with the DTSTART GIVEN
 *                 (the anchor itself), so DTSTART's month need not be a listed one and INTERVAL counts from
 *                 DTSTART's month.  Only the members after such a DTSTART are judged (a leading DTSTART that is
 *                 no member is tolerated either way); options: intervals=, anchors=, terms=quick|full.
 * mode=bigstep    sub-daily FREQs whose single step is longer than a day / a week / a month / a year (HOURLY;INTERVAL=25
 *                 ... 8761, MINUTELY;INTERVAL=1441 ... 44641, SECONDLY;INTERVAL=86401, 604801), alone and with one
 *                 BYDAY / BYMONTH / BYMONTHDAY part; the window is 400 steps (not after 2095), DTSTART derived.
 *                 options: anchors=, terms=quick|full.
 * mode=mdayedge   FREQ=YEARLY and FREQ=MONTHLY with BYMONTHDAY values at the edge of what a month has (-31, -30, -29,
 *                 -28, 31, 30, 29 and mixtures: a negative day that is the 1st of some months only), without BYMONTH,
 *                 with BYMONTH=2 and BYMONTH=1,3,4; options: intervals=, anchors=, terms=quick|full.
 * mode=longlist   FREQ=MONTHLY / FREQ=YEARLY (with and without BYMONTH) with ONE long value list: BYDAY lists of 11..21
 *                 distinct ordinal entries (selections of {1..5,-1..-5} x {MO..SU}: positive, negative, mixed, strided,
 *                 written ascending and descending), BYMONTHDAY / BYYEARDAY / BYWEEKNO(+BYDAY=MO) / BYSETPOS lists of
 *                 11..16 entries.  The reference lists hold 8 values, so the expected set is put together from the
 *                 reference's answers for the list cut into pieces of <= 8 values (a day / a position is selected by the
 *                 list iff it is selected by one of its pieces), COUNT / UNTIL applied to the union afterwards.
 *                 options: intervals=, anchors=, terms=quick|full.
 */
#include "vdrv.h"
#include "ref/icalio.h"
#include "ref/rfc5545.h"
#include "ref/rrgram.h"
#include "ref/c05_common.h"

#define MAXOCC	200

static int nanchors = 8;
static int terms_full = 0;
static int ckpt_pass = 1;	/* --opt ckpt=0 switches the write-out / read-again pass off */
static int unsync = 0;		/* mode=unsync: DTSTART is given, not derived */
static int bigstep = 0;		/* mode=bigstep: the window is counted in steps of the rule */

/* mode=longlist: the rule's one long list cut into pieces of <= 8 values, each piece a complete rule without termination */
#define LL_CAP	8192
static struct {
	int n;
	rf_rule part[4];
} ll;

static int ll_cmp(const void *a, const void *b)
{
	const int64_t x = *(const int64_t*)a, y = *(const int64_t*)b;
	return x < y ? -1 : x > y;
}

/* rf_eval(), or for a long-list rule the union of the pieces' sets with R's COUNT / UNTIL applied to the union */
static int
c01_eval(const rf_rule *r, rf_dt t0, int64_t tend, int64_t *out, int max, int *ambig, int *trunc)
{
	static int64_t u[4 * LL_CAP], tmp[LL_CAP];
	int64_t horizon = INT64_MAX;
	int nu = 0, n = 0, amb = 0, cut = 0;
	/* the first CAP members of the union lie among the first CAP members of the pieces: a piece whose listing is
	 * cut at CAP has CAP members up to its last one, and up to the earliest such point the union is complete */
	int cap = r->count >= 0 && r->count < max ? r->count : max;

	if (!ll.n) {
		return rf_eval(r, t0, tend, out, max, ambig, trunc);
	}
	if (cap < 1) cap = 1;
	if (cap > LL_CAP) cap = LL_CAP;
	if (r->has_until && r->until < tend) tend = r->until;
	for (int c = 0; c < ll.n; c++) {
		rf_rule q = ll.part[c];
		int a = 0, tr = 0, k;

		q.count = -1, q.has_until = 0;
		k = rf_eval(&q, t0, tend, tmp, cap, &a, &tr);
		amb |= a;
		if (tr && k && tmp[k - 1] < horizon) {
			/* this piece's listing was cut: the union is complete up to there only */
			horizon = tmp[k - 1];
		}
		memcpy(u + nu, tmp, sizeof(*tmp) * (size_t)k);
		nu += k;
	}
	qsort(u, (size_t)nu, sizeof(*u), ll_cmp);
	for (int i = 0; i < nu; i++) {
		if (i && u[i] == u[i - 1]) continue;
		if (r->has_until && u[i] > r->until) break;
		if (r->count >= 0 && n >= r->count) break;
		if (n >= max) break;
		if (u[i] > horizon) { cut = 1; break; }
		out[n++] = u[i];
	}
	if (ambig) *ambig = amb;
	if (trunc) *trunc = n >= max || cut;
	return n;
}

/* mode=bigstep: 400 steps of the rule, but not past 2095-01-01 */
static int64_t
bigstep_tend(const struct rg_rule_s *g, int64_t from)
{
	const int64_t unit = g->freq == RF_HOURLY ? 3600 : g->freq == RF_MINUTELY ? 60 : 1;
	const int64_t lim = rf_days(2095, 1, 1) * 86400;
	const int64_t e = from + 400 * unit * g->interval;
	return e < lim ? e : lim;
}

/* observation window of a case */
static int64_t
case_window(const struct rg_rule_s *g)
{
	if (unsync) {
		/* months that are both listed and on the INTERVAL grid may be as far as 12 * INTERVAL months apart */
		return (int64_t)40 * 366 * 86400;
	}
	return rg_window(g->freq);
}

/* end of the observation window of a case that starts at FROM */
static int64_t
case_tend(const struct rg_rule_s *g, int64_t from)
{
	return bigstep ? bigstep_tend(g, from) : from + case_window(g);
}

static int64_t
inst_secs(echs_instant_t i)
{
	rf_dt t = {i.y, i.m, i.d, i.H, i.M, i.S, echs_instant_all_day_p(i)};
	return rf_secs(t);
}

static const char*
secs_str(char *buf, size_t bsz, int64_t s, int allday)
{
	rf_dt t = rf_from_secs(s, allday);
	if (allday) {
		snprintf(buf, bsz, "%04d-%02d-%02d", t.y, t.m, t.d);
	} else {
		snprintf(buf, bsz, "%04d-%02d-%02dT%02d:%02d:%02d", t.y, t.m, t.d, t.H, t.M, t.S);
	}
	return buf;
}

static int
has_timepart(const struct rg_rule_s *g)
{
	return g->ref.nH || g->ref.nM || g->ref.nS;
}

/* pop up to MAXOCC occurrences not after TEND; *BEYOND = 1 if the stream went on past TEND / MAXOCC */
static int
drain(echs_evstrm_t s, int64_t *out, int64_t tend, int daemonlike, int *beyond, int *allday_mismatch, int allday)
{
	int n = 0;
	*beyond = 0;
	for (;;) {
		echs_event_t e;
		if (daemonlike) {
			(void)echs_evstrm_next(s);
			e = echs_evstrm_next(s);
			echs_event_t p = echs_evstrm_pop(s);
			if (!echs_instant_eq_p(e.from, p.from)) {
				/* peek and pop disagree: make the sequences differ */
				out[n < MAXOCC ? n++ : MAXOCC - 1] = INT64_MIN;
				return n;
			}
		} else {
			e = echs_evstrm_pop(s);
		}
		if (echs_nul_event_p(e)) {
			break;
		}
		if (echs_instant_all_day_p(e.from) != !!allday) {
			*allday_mismatch = 1;
		}
		int64_t t = inst_secs(e.from);
		if (t > tend || n >= MAXOCC) {
			*beyond = 1;
			break;
		}
		out[n++] = t;
	}
	return n;
}

static const char*
idxclass(int i)
{
	return i < 63 ? "lt64" : i <= 65 ? "at64" : i < 127 ? "lt128" : i <= 129 ? "at128" : "gt128";
}

struct term_s {
	const char *name;
	int count;	/* > 0: COUNT */
	int until;	/* 1: on the 4th occurrence, 2: one second (day) before it */
};

static const struct term_s terms_quick[] = {
	{"none", 0, 0}, {"COUNT", 2, 0}, {"COUNT", 65, 0}, {"UNTIL-on", 0, 1},
};
static const struct term_s terms_all[] = {
	{"none", 0, 0}, {"COUNT", 1, 0}, {"COUNT", 2, 0}, {"COUNT", 63, 0}, {"COUNT", 64, 0}, {"COUNT", 65, 0},
	{"COUNT", 130, 0}, {"UNTIL-on", 0, 1}, {"UNTIL-before", 0, 2},
};

static void
run_case(const struct rg_rule_s *g, const struct term_s *tm, rf_dt t0, const int64_t *unb, int nunb)
{
	rf_rule r = g->ref;
	char dts[32], unts[32], text[1024], lines[512];
	static int64_t ref[MAXOCC + 8], imp[MAXOCC + 8], imp2[MAXOCC + 8];
	int nref, nimp, nimp2, ambig = 0, trunc = 0, beyond = 0, beyond2 = 0, adm = 0;
	const int64_t ts0 = rf_secs(t0);
	const int64_t tend = case_tend(g, ts0);
	char sig[256], b1[32], b2[32];
	int lead = 0;

	/* termination */
	if (tm->count) {
		r.count = tm->count;
		snprintf(lines, sizeof(lines), ";COUNT=%d", tm->count);
	} else if (tm->until) {
		if (nunb < 5) {
			return;
		}
		r.has_until = 1;
		r.until = unb[3] - (tm->until == 2 ? (t0.allday ? 86400 : 1) : 0);
		rg_dtstr(unts, sizeof(unts), rf_from_secs(r.until, t0.allday));
		snprintf(lines, sizeof(lines), ";UNTIL=%s", unts);
	} else {
		lines[0] = '\0';
	}
	rg_dtstr(dts, sizeof(dts), t0);
	{
		char body[768];
		snprintf(body, sizeof(body), "DTSTART%s:%s\nRRULE:%s%s\n",
			 t0.allday ? ";VALUE=DATE" : "", dts, g->text, lines);
		ical_wrap(text, sizeof(text), "c01@verif", body);
		vd_sh->evals++;
		vd_desc("DTSTART%s:%s RRULE:%s%s", t0.allday ? ";VALUE=DATE" : "", dts, g->text, lines);
	}
	vd_shape("%s/%s/%s", g->shape, tm->name, t0.allday ? "date" : "datetime");

	nref = c01_eval(&r, t0, tend, ref, MAXOCC, &ambig, &trunc);
	if (ambig) {
		vd_count("skipped_bysetpos_ambiguous", 1);
		return;
	}
	if (unsync && !nref) {
		/* nothing after DTSTART inside the window: C09's business */
		vd_count("skipped_empty", 1);
		return;
	}
	if (!unsync && (!nref || ref[0] != ts0)) {
		/* cannot happen for derived DTSTARTs; be safe */
		vd_count("skipped_unsynchronised", 1);
		return;
	}
	echs_task_t t = ical_task1(text);
	if (t == NULL || t->strm == NULL) {
		snprintf(sig, sizeof(sig), "rejected/%s/%s", g->shape, tm->name);
		vd_viol(sig, "parser yields no task/stream for a well-formed event");
		if (t) free_echs_task(t);
		return;
	}
	nimp = drain(t->strm, imp, tend, 0, &beyond, &adm, t0.allday);
	free_echs_task(t);
	if (unsync && ref[0] != ts0) {
		vd_count("dtstart_not_a_member", 1);
		if (nimp && imp[0] == ts0) {
			/* a DTSTART that is no member of its rule: RFC 5545 3.8.5.3 leaves open whether it is
			 * an instance, tolerate it either way and judge what comes after it */
			lead = 1;
			memmove(imp, imp + 1, sizeof(*imp) * (size_t)--nimp);
			vd_count("dtstart_not_a_member_delivered", 1);
		}
	}
	if (nref >= 2) {
		vd_nontrivial();
	}
	if (vd_want_sample()) {
		vd_sample("DTSTART:%s RRULE:%s%s -> %d occurrences, first %s last %s", dts, g->text, lines, nref,
			  secs_str(b1, sizeof(b1), ref[0], t0.allday), secs_str(b2, sizeof(b2), ref[nref - 1], t0.allday));
	}

	/* compare */
	int bad = 0;
	for (int i = 1; i < nimp; i++) {
		if (imp[i] <= imp[i - 1]) {
			snprintf(sig, sizeof(sig), "order/%s/%s", g->shape, tm->name);
			vd_viol(sig, "occurrence %d (%s) not after occurrence %d (%s)", i, secs_str(b1, sizeof(b1), imp[i], t0.allday),
				i - 1, secs_str(b2, sizeof(b2), imp[i - 1], t0.allday));
			bad = 1;
			break;
		}
	}
	if (adm) {
		snprintf(sig, sizeof(sig), "valuetype/%s/%s", g->shape, t0.allday ? "date" : "datetime");
		vd_viol(sig, "occurrences do not have DTSTART's value type");
		bad = 1;
	}
	if (!bad) {
		int i;
		const int nmin = nimp < nref ? nimp : nref;
		for (i = 0; i < nmin && imp[i] == ref[i]; i++);
		if (i < nmin || nimp != nref) {
			const char *cl;
			if (i < nimp && imp[i] < ts0) {
				cl = "before-dtstart";
			} else if (tm->count && nimp > tm->count) {
				cl = "count", i = tm->count;
			} else if (r.has_until && i < nimp && imp[i] > r.until && (i >= nref || imp[i] < ref[i])) {
				cl = "until";
			} else if (i >= nimp) {
				cl = beyond ? "missing" : "early-end";
			} else if (i >= nref || imp[i] < ref[i]) {
				cl = "extra";
			} else {
				cl = "missing";
			}
			snprintf(sig, sizeof(sig), "%s/%s/%s/%s/%s%s", cl, g->shape, tm->name, t0.allday ? "date" : "datetime", idxclass(i),
				 !unsync ? "" : ref[0] != ts0 ? "/dtstart-off-rule" : "/dtstart-on-rule");
			vd_viol(sig, "at index %d: echse %s, RFC %s (echse gives %d, RFC %d occurrences in window)", i,
				i < nimp ? secs_str(b1, sizeof(b1), imp[i], t0.allday) : beyond ? "(beyond window)" : "(end of stream)",
				i < nref ? secs_str(b2, sizeof(b2), ref[i], t0.allday) : "(none)", nimp, nref);
			bad = 1;
		} else if (!trunc && (tm->count || r.has_until) && beyond && nref < MAXOCC) {
			/* the reference ended by COUNT/UNTIL inside the window but the stream goes on */
			int ended_by_term = (tm->count && nref == tm->count) || r.has_until;
			if (ended_by_term) {
				snprintf(sig, sizeof(sig), "%s/%s/%s/%s/tail", tm->count ? "count" : "until", g->shape, tm->name,
					 t0.allday ? "date" : "datetime");
				vd_viol(sig, "stream continues after the %d occurrences the rule allows", nref);
				bad = 1;
			}
		}
	}
	/* the daemon's consumption pattern */
	t = ical_task1(text);
	if (t != NULL && t->strm != NULL) {
		int adm2 = 0;
		nimp2 = drain(t->strm, imp2, tend, 1, &beyond2, &adm2, t0.allday);
		if (lead && nimp2 && imp2[0] == ts0) {
			memmove(imp2, imp2 + 1, sizeof(*imp2) * (size_t)--nimp2);
		}
		if (nimp2 != nimp || memcmp(imp, imp2, sizeof(*imp) * (size_t)nimp) || beyond != beyond2) {
			int i;
			for (i = 0; i < nimp && i < nimp2 && imp[i] == imp2[i]; i++);
			snprintf(sig, sizeof(sig), "mode/%s/%s/%s", g->shape, tm->name, idxclass(i));
			vd_viol(sig, "peek,peek,pop consumption differs from straight pops at index %d (%d vs %d occurrences)", i, nimp2, nimp);
		}
	}
	if (t) free_echs_task(t);
	/* the daemon also checkpoints: after k occurrences the task is written out, later read again and goes on.
	 * What it goes on with must be what the uninterrupted stream delivers from k on (only judged when the
	 * uninterrupted stream agreed with the reference, so that findings of the rule itself are not repeated) */
	if (!bad && ckpt_pass && !unsync && !adm && nimp >= 2) {
		static const int ks[] = {1, 3, 70};
		for (size_t q = 0; q < sizeof(ks) / sizeof(*ks); q++) {
			const int k = ks[q];
			static char back[8192];
			echs_task_t t2;
			ssize_t bn;
			if (k >= nimp) break;
			if ((t = ical_task1(text)) == NULL || t->strm == NULL) break;
			for (int i = 0; i < k; i++) (void)echs_evstrm_pop(t->strm);
			bn = c05_seria(back, sizeof(back), &t, 1, C05_FORM_ECHSD);
			free_echs_task(t);
			t = NULL;
			t2 = bn > 0 ? ical_task1(back) : NULL;
			if (t2 == NULL || t2->strm == NULL) {
				snprintf(sig, sizeof(sig), "checkpointed/lost/%s/%s", g->shape, tm->name);
				vd_viol(sig, "after %d of %d occurrences the task is written out and cannot be read again", k, nimp);
				if (t2) free_echs_task(t2);
				break;
			} else {
				int adm3 = 0, beyond3 = 0;
				const int n3 = drain(t2->strm, imp2, tend, 0, &beyond3, &adm3, t0.allday);
				free_echs_task(t2);
				/* a stream that was cut by the window or the occurrence cap is compared as far as both go */
				const int open_end = beyond || nimp >= MAXOCC;
				const int m = n3 < nimp - k ? n3 : nimp - k;
				if ((open_end ? n3 < nimp - k : n3 != nimp - k) || memcmp(imp + k, imp2, sizeof(*imp) * (size_t)m)) {
					int i;
					for (i = 0; i < n3 && k + i < nimp && imp[k + i] == imp2[i]; i++);
					snprintf(sig, sizeof(sig), "checkpointed/%s/%s/%s/k=%d", n3 > nimp - k ? "more" : n3 < nimp - k ? "fewer" : "other", g->shape, tm->name, k);
					vd_viol(sig, "written out after %d occurrences and read again the task delivers %d more, the uninterrupted stream %d more (first difference at its occurrence %d)", k, n3, nimp - k, i + 1);
					break;
				}
			}
		}
	}
}

static void
per_rule(const struct rg_rule_s *g, void *clo)
{
	rf_dt seen[RG_NANCHOR];
	int nseen = 0;
	const struct term_s *tms = terms_full ? terms_all : terms_quick;
	const int ntms = terms_full ? (int)(sizeof(terms_all) / sizeof(*terms_all)) : (int)(sizeof(terms_quick) / sizeof(*terms_quick));

	(void)clo;
	if (vd_stop()) {
		return;
	}
	for (int a = 0; a < nanchors && a < RG_NANCHOR; a++) {
		rf_dt an = rg_anchor[a];
		int64_t first[1];
		int ambig = 0, trunc = 0, n, dup = 0;

		if (an.allday && (g->freq >= RF_HOURLY || has_timepart(g))) {
			continue;
		}
		vd_beat();
		/* derive a synchronised DTSTART: the first member at or after the anchor */
		n = unsync ? 1 : c01_eval(&g->ref, an, bigstep ? bigstep_tend(g, rf_secs(an)) : rf_secs(an) + rg_window(g->freq), first, 1, &ambig, &trunc);
		if (!n) {
			/* empty inside the window: C09's business */
			continue;
		}
		rf_dt t0 = unsync ? an : rf_from_secs(first[0], an.allday);
		if (t0.y > 2058) {
			continue;
		}
		for (int i = 0; i < nseen; i++) {
			dup |= !memcmp(&seen[i], &t0, sizeof(t0));
		}
		if (dup) {
			continue;
		}
		seen[nseen++] = t0;
		/* one supervised unit = this (rule, DTSTART) with all its terminations */
		if (!vd_next()) {
			continue;
		}
		static int64_t unb[MAXOCC + 8];
		/* the unbounded listing, for UNTIL placement; re-anchored at the derived DTSTART */
		n = c01_eval(&g->ref, t0, case_tend(g, rf_secs(t0)), unb, 8, &ambig, &trunc);
		for (int k = 0; k < ntms; k++) {
			if (unsync && tms[k].count) {
				/* whether a DTSTART that is no member counts towards COUNT is open as well */
				continue;
			}
			run_case(g, &tms[k], t0, unb, n);
		}
	}
}

/* ---- rules outside the menus of rrgram.h (own value texts), same text/shape/reference conventions ---- */
struct pv_s {
	int part;
	const char *val;
};

static void
mk_rule(struct rg_rule_s *g, int freq, int interval, const char *ishape, const struct pv_s *pv, int npv, const char *poskind)
{
	size_t o = 0, so = 0;

	memset(g, 0, sizeof(*g));
	g->freq = freq, g->interval = interval, g->nparts = npv;
	g->ref.freq = freq, g->ref.interval = interval, g->ref.count = -1;
	o += (size_t)snprintf(g->text + o, sizeof(g->text) - o, "FREQ=%s", rg_freqname[freq]);
	if (interval != 1) {
		o += (size_t)snprintf(g->text + o, sizeof(g->text) - o, ";INTERVAL=%d", interval);
	}
	so += (size_t)snprintf(g->shape + so, sizeof(g->shape) - so, "%s/i%s", rg_freqname[freq], ishape);
	for (int i = 0; i < npv; i++) {
		const char *kind = pv[i].part == P_POS && poskind ? poskind : rg_kind(pv[i].part, pv[i].val);
		g->part[i] = pv[i].part;
		o += (size_t)snprintf(g->text + o, sizeof(g->text) - o, ";%s=%s", rg_key[pv[i].part], pv[i].val);
		so += (size_t)snprintf(g->shape + so, sizeof(g->shape) - so, "/%s:%s", rg_key[pv[i].part] + 2, kind);
		rg_apply(&g->ref, pv[i].part, pv[i].val);
	}
}

/* mode=setposmix */
static void
enumerate_setposmix(const int *ivals, int nivals)
{
	/* candidate sets whose size differs from period to period (sizes in the comments) */
	static const struct {
		int freq;
		int n;
		struct pv_s pv[2];
	} base[] = {
		{RF_MONTHLY, 1, {{P_DAY, "FR"}}},				/* 4..5 */
		{RF_MONTHLY, 1, {{P_DAY, "MO"}}},				/* 4..5 */
		{RF_MONTHLY, 1, {{P_DAY, "SA,SU"}}},				/* 8..10 */
		{RF_MONTHLY, 1, {{P_DAY, "MO,WE,FR"}}},				/* 12..14 */
		{RF_MONTHLY, 1, {{P_MDAY, "29,30,31"}}},			/* 0..3 */
		{RF_MONTHLY, 1, {{P_MDAY, "1,15,31"}}},				/* 2..3 */
		{RF_MONTHLY, 2, {{P_MON, "2"}, {P_MDAY, "27,28,29"}}},		/* 2..3 */
		{RF_MONTHLY, 1, {{P_DAY, "MO,TU,WE,TH,FR,SA,SU"}}},		/* 28..31 */
		{RF_YEARLY, 2, {{P_MON, "2"}, {P_MDAY, "27,28,29"}}},		/* 2..3 */
		{RF_YEARLY, 2, {{P_MON, "2"}, {P_DAY, "FR"}}},			/* 4..5 */
		{RF_YEARLY, 2, {{P_MON, "1,2"}, {P_MDAY, "29,30,31"}}},		/* 3..4 */
		{RF_YEARLY, 1, {{P_YDAY, "1,365,366"}}},			/* 2..3 */
		{RF_YEARLY, 1, {{P_DAY, "MO"}}},				/* 52..53 */
	};
	/* a positive position that some (or all) periods lack, next to negative ones */
	static const char *const pos[] = {
		"5,-2", "3,-1,-2", "6,-1", "5,-1,-5", "2,-1", "1,5,-1", "4,-4", "30,-1", "53,-1,-53",
	};

	for (size_t b = 0; b < sizeof(base) / sizeof(*base); b++) {
		for (size_t p = 0; p < sizeof(pos) / sizeof(*pos); p++) {
			for (int k = 0; k < nivals; k++) {
				struct rg_rule_s g;
				struct pv_s pv[3];
				int n = base[b].n;

				memcpy(pv, base[b].pv, sizeof(*pv) * (size_t)n);
				pv[n].part = P_POS, pv[n].val = pos[p], n++;
				mk_rule(&g, base[b].freq, ivals[k], ivals[k] == 1 ? "1" : "N", pv, n, "mixed-some-lack");
				per_rule(&g, NULL);
			}
		}
	}
}

/* mode=unsync */
static void
enumerate_unsync(const int *ivals, int nivals)
{
	static const char *const mon[] = {"3", "6", "1", "2", "6,12", "4,9", "1,3,5,7,8,10,12"};
	static const struct pv_s second[] = {
		{-1, NULL}, {P_MDAY, "15"}, {P_MDAY, "-1"}, {P_MDAY, "29,30,31"}, {P_DAY, "MO"}, {P_DAYORD, "-1FR"},
	};

	unsync = 1;
	for (size_t s = 0; s < sizeof(second) / sizeof(*second); s++) {
		for (size_t m = 0; m < sizeof(mon) / sizeof(*mon); m++) {
			for (int k = 0; k < nivals; k++) {
				struct rg_rule_s g;
				struct pv_s pv[2] = {{P_MON, mon[m]}, second[s]};
				const int iv = ivals[k];

				mk_rule(&g, RF_MONTHLY, iv, iv == 1 ? "1" : iv < 12 ? "N" : iv % 12 ? "N-gt12" : "N-years",
					pv, second[s].val ? 2 : 1, NULL);
				per_rule(&g, NULL);
			}
		}
	}
}

/* mode=bigstep */
static void
enumerate_bigstep(void)
{
	static const struct {
		int freq;
		int iv;
		const char *ishape;
	} step[] = {
		{RF_HOURLY, 25, "N-gtday"}, {RF_HOURLY, 49, "N-gtday"}, {RF_HOURLY, 167, "N-gtday"}, {RF_HOURLY, 168, "N-week"},
		{RF_HOURLY, 169, "N-gtweek"}, {RF_HOURLY, 200, "N-gtweek"}, {RF_HOURLY, 240, "N-gtweek"},
		{RF_HOURLY, 745, "N-gtmonth"}, {RF_HOURLY, 8761, "N-gtyear"},
		{RF_MINUTELY, 1441, "N-gtday"}, {RF_MINUTELY, 10081, "N-gtweek"}, {RF_MINUTELY, 10090, "N-gtweek"},
		{RF_MINUTELY, 44641, "N-gtmonth"},
		{RF_SECONDLY, 86401, "N-gtday"}, {RF_SECONDLY, 604801, "N-gtweek"},
	};
	static const struct pv_s second[] = {
		{-1, NULL}, {P_DAY, "MO,WE,FR"}, {P_DAY, "SA,SU"}, {P_DAY, "TU"}, {P_MON, "1,3,5,7,8,10,12"}, {P_MON, "2"},
		{P_MDAY, "1"}, {P_MDAY, "29,30,31"}, {P_MDAY, "-1"}, {P_MDAY, "1,-1"},
	};

	bigstep = 1;
	for (size_t s = 0; s < sizeof(second) / sizeof(*second); s++) {
		for (size_t k = 0; k < sizeof(step) / sizeof(*step); k++) {
			struct rg_rule_s g;

			mk_rule(&g, step[k].freq, step[k].iv, step[k].ishape, &second[s], second[s].val ? 1 : 0, NULL);
			per_rule(&g, NULL);
		}
	}
}

/* mode=mdayedge */
static void
enumerate_mdayedge(const int *ivals, int nivals)
{
	static const char *const mday[] = {
		"-31", "-30", "-29", "-28", "-31,-1", "-29,-1", "-30,1", "31", "30", "29", "29,-29", "-31,-30,-29,-28",
	};
	static const char *const mon[] = {NULL, "2", "1,3,4"};

	for (int f = RF_YEARLY; f <= RF_MONTHLY; f++) {
		for (size_t m = 0; m < sizeof(mon) / sizeof(*mon); m++) {
			for (size_t d = 0; d < sizeof(mday) / sizeof(*mday); d++) {
				for (int k = 0; k < nivals; k++) {
					struct rg_rule_s g;
					struct pv_s pv[2];
					int n = 0;

					if (mon[m]) {
						pv[n].part = P_MON, pv[n].val = mon[m], n++;
					}
					pv[n].part = P_MDAY, pv[n].val = mday[d], n++;
					mk_rule(&g, f, ivals[k], ivals[k] == 1 ? "1" : "N", pv, n, NULL);
					per_rule(&g, NULL);
				}
			}
		}
	}
}

/* mode=longlist */
static void
ll_rule(int freq, int iv, const struct pv_s *pv, int npv, int li, const char *sel)
{
	struct rg_rule_s g;
	const char *v = pv[li].val;
	int n = 1;
	size_t so;

	for (const char *q = v; *q; q++) n += *q == ',';
	mk_rule(&g, freq, iv, iv == 1 ? "1" : "N", pv, npv, NULL);
	so = strlen(g.shape);
	snprintf(g.shape + so, sizeof(g.shape) - so, "/long-%s:%s:%s", rg_key[pv[li].part] + 2, sel,
		 n <= 12 ? "n-le12" : n <= 14 ? "n-13-14" : "n-ge15");
	ll.n = 0;
	while (*v && ll.n < 4) {
		char piece[96];
		size_t o = 0;
		int k = 0;

		while (*v && k < 8 && o + 1 < sizeof(piece)) {
			if (*v == ',' && ++k == 8) break;
			piece[o++] = *v++;
		}
		piece[o] = '\0';
		if (*v == ',') v++;
		ll.part[ll.n] = g.ref;
		rg_apply(&ll.part[ll.n], pv[li].part, piece);
		ll.n++;
	}
	per_rule(&g, NULL);
	ll.n = 0;
}

/* write the N values IDX[0..N) (ascending or descending order of writing) */
static void
ll_join(char *buf, size_t bsz, char (*item)[8], const int *idx, int n, int desc)
{
	size_t o = 0;
	for (int i = 0; i < n; i++) {
		o += (size_t)snprintf(buf + o, bsz - o, "%s%s", i ? "," : "", item[idx[desc ? n - 1 - i : i]]);
	}
}

static void
enumerate_longlist(const int *ivals, int nivals)
{
	static const char *const wd[] = {"MO", "TU", "WE", "TH", "FR", "SA", "SU"};
	static const char *const mon[] = {NULL, "2", "1,3,5,7,8,10,12"};
	static const char *const selname[] = {"pos", "pos-wkdays", "neg", "mixed", "strided", "tail"};
	static char menu[70][8];
	char val[160];
	int idx[32];

	/* the BYDAY menu, ordinal-major: 1MO..1SU, 2MO.., 5SU, -1MO.., -5SU */
	for (int o = 0; o < 10; o++) {
		for (int w = 0; w < 7; w++) {
			snprintf(menu[o * 7 + w], sizeof(*menu), "%d%s", o < 5 ? o + 1 : -(o - 4), wd[w]);
		}
	}
	for (int f = RF_YEARLY; f <= RF_MONTHLY; f++) {
		for (size_t m = 0; m < sizeof(mon) / sizeof(*mon); m++) {
			for (int sel = 0; sel < 6; sel++) {
				for (int n = 11; n <= 21; n++) {
					for (int desc = 0; desc < 2; desc++) {
						for (int i = 0; i < n; i++) {
							switch (sel) {
							case 0: idx[i] = i; break;			/* 1MO,1TU,..,1SU,2MO,.. */
							case 1: idx[i] = i / 5 * 7 + i % 5; break;	/* 1MO..1FR,2MO..2FR,.. */
							case 2: idx[i] = 35 + i; break;			/* -1MO,-1TU,.. */
							case 3: idx[i] = i % 2 ? 35 + i / 2 : i / 2; break;	/* 1MO,-1MO,1TU,-1TU,.. */
							case 4: idx[i] = i * 3 % 70; break;		/* 1MO,1TH,1SU,2WE,.. */
							default: idx[i] = 70 - n + i; break;		/* ..,-5SA,-5SU */
							}
						}
						ll_join(val, sizeof(val), menu, idx, n, desc);
						for (int k = 0; k < nivals; k++) {
							struct pv_s pv[2];
							int np = 0;
							if (mon[m]) pv[np].part = P_MON, pv[np].val = mon[m], np++;
							pv[np].part = P_DAYORD, pv[np].val = val, np++;
							ll_rule(f, ivals[k], pv, np, np - 1, selname[sel]);
						}
					}
				}
			}
		}
	}
	/* numeric lists of 11..16 values: the values are A + B * i, signs per selection */
	static const struct {
		int freq;
		int part;
		int a, b;
		const char *with_mon;
		struct pv_s base;	/* a part that goes with it (-1: none) */
	} num[] = {
		{RF_MONTHLY, P_MDAY, 1, 1, NULL, {-1, NULL}},
		{RF_MONTHLY, P_MDAY, 1, 2, NULL, {-1, NULL}},			/* 1,3,..,31 */
		{RF_YEARLY, P_MDAY, 1, 1, NULL, {-1, NULL}},
		{RF_YEARLY, P_MDAY, 1, 2, "1,3,5,7,8,10,12", {-1, NULL}},
		{RF_YEARLY, P_YDAY, 1, 23, NULL, {-1, NULL}},			/* 1,24,..,346 */
		{RF_YEARLY, P_YDAY, 50, 1, NULL, {-1, NULL}},			/* 50..65: around the end of February */
		{RF_YEARLY, P_WK, 2, 1, NULL, {P_DAY, "MO"}},			/* weeks 2..17 */
		{RF_YEARLY, P_WK, 3, 3, NULL, {P_DAY, "TU,TH"}},		/* weeks 3,6,..,48 */
		{RF_MONTHLY, P_POS, 1, 1, NULL, {P_DAY, "MO,TU,WE,TH,FR,SA,SU"}},
		{RF_MONTHLY, P_POS, 1, 2, NULL, {P_DAY, "MO,TU,WE,TH,FR,SA,SU"}},
		{RF_YEARLY, P_POS, 1, 3, NULL, {P_DAY, "MO"}},			/* 1,4,..,46 of 52/53 Mondays */
		{RF_YEARLY, P_POS, 1, 1, "1,3,5,7,8,10,12", {P_MDAY, "1,15,31"}},
	};
	static const char *const nsel[] = {"pos", "neg", "mixed"};
	for (size_t q = 0; q < sizeof(num) / sizeof(*num); q++) {
		for (int sel = 0; sel < 3; sel++) {
			for (int n = 11; n <= 16; n++) {
				for (int desc = 0; desc < 2; desc++) {
					static char item[16][8];
					for (int i = 0; i < n; i++) {
						/* mixed: +v0, -v0, +v1, -v1, .. */
						const int j = sel == 2 ? i / 2 : i;
						const int v = num[q].a + num[q].b * j;
						snprintf(item[i], sizeof(*item), "%d", sel == 1 || (sel == 2 && i % 2) ? -v : v);
						idx[i] = i;
					}
					ll_join(val, sizeof(val), item, idx, n, desc);
					for (int k = 0; k < nivals; k++) {
						struct pv_s pv[3];
						int np = 0, li;
						/* parts in the grammar's order: MONTH, WEEKNO, YEARDAY, MONTHDAY, DAY, SETPOS */
						if (num[q].with_mon) pv[np].part = P_MON, pv[np].val = num[q].with_mon, np++;
						if (num[q].part != P_POS) {
							li = np, pv[np].part = num[q].part, pv[np].val = val, np++;
							if (num[q].base.val) pv[np++] = num[q].base;
						} else {
							pv[np++] = num[q].base;
							li = np, pv[np].part = P_POS, pv[np].val = val, np++;
						}
						ll_rule(num[q].freq, ivals[k], pv, np, li, nsel[sel]);
					}
				}
			}
		}
	}
}

static void
enumerate(void)
{
	static int ivals[16];
	struct rg_cfg_s c = {0};
	const char *iv = vd_opt("intervals", "1,2");

	vd_count_cases = 0;
	c.freq_lo = (int)vd_opt_l("freqlo", RF_YEARLY);
	c.freq_hi = (int)vd_opt_l("freqhi", RF_SECONDLY);
	c.maxparts = (int)vd_opt_l("maxparts", 1);
	c.maxdateparts3 = (int)vd_opt_l("date3", 0);
	c.menucap = (int)vd_opt_l("menucap", 0);
	c.nintervals = rg_list(ivals, 16, iv);
	c.intervals = ivals;
	nanchors = (int)vd_opt_l("anchors", 8);
	terms_full = !strcmp(vd_opt("terms", "quick"), "full");
	ckpt_pass = (int)vd_opt_l("ckpt", 1);
	if (!strcmp(vd_opt("mode", "grammar"), "setposmix")) {
		enumerate_setposmix(ivals, c.nintervals);
		return;
	} else if (!strcmp(vd_opt("mode", "grammar"), "unsync")) {
		enumerate_unsync(ivals, c.nintervals);
		return;
	} else if (!strcmp(vd_opt("mode", "grammar"), "bigstep")) {
		enumerate_bigstep();
		return;
	} else if (!strcmp(vd_opt("mode", "grammar"), "mdayedge")) {
		enumerate_mdayedge(ivals, c.nintervals);
		return;
	} else if (!strcmp(vd_opt("mode", "grammar"), "longlist")) {
		enumerate_longlist(ivals, c.nintervals);
		return;
	}
	rg_enumerate(&c, per_rule, NULL);
}

int
main(int argc, char *argv[])
{
	return vd_main(argc, argv, enumerate);
}
