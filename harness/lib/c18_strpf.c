/* C18 -- date-time and duration text forms round-trip (dt-strpf.c).
 *
 * Code under test: dt_strf, dt_strf_ical, dt_strp, range_strf, range_strp,
 * idiff_strf, idiff_strp.  Reference: the text forms themselves (ISO 8601
 * extended form / RFC 5545 DATE, DATE-TIME form 2, dur-value), rendered and
 * evaluated by a few lines of independent code below; day enumeration from
 * ref/civil.h.
 *
 * Whether a duration was read at all is decided the way the only caller
 * (evical.c snarf_fld, FLD_DURA) decides it: the value counts iff the end
 * pointer handed back is >= the end of the text.
 *
 * options: mode=dt       case = (year, month): every day x 6 instants x all forms
 *          mode=dt-times case = (one of 8 days, hour): every second x 9 ms values
 *                        days=monthly: the first of every month 1901-2099 instead, whole seconds only (thorough)
 *          mode=dt-cut   case = (year, month): every day x 6 instants x all forms x complete prefixes, parsed with the
 *                        exact length while something else stands behind;  skipfol=name,... leaves followers out
 *          mode=range    case = (year, month) of the start
 *          mode=dur-secs case = block of 1000 s;  max=N
 *          mode=dur-days case = block of 10 d;    max=N
 *          mode=dur-combo case = (w,d,h): every m,s <= 61 and every way to leave out zero parts
 */
#include "vdrv.h"
#include "ref/lviol.h"
#include "ref/civil.h"
#include <stdbool.h>
#include <inttypes.h>
#include "instant.h"
#include "range.h"
#include "dt-strpf.h"

#define Y0	1901
#define Y1	2099

static long n_eval, n_nontriv;

static echs_instant_t
mk(unsigned y, unsigned m, unsigned d, unsigned H, unsigned M, unsigned S, unsigned ms)
{
	echs_instant_t i = {.u = 0U};
	i.y = y, i.m = m, i.d = d, i.H = H, i.M = M, i.S = S, i.ms = ms;
	return i;
}

static const char*
raw(echs_instant_t i)
{
	static char buf[8][80];
	static int k;
	char *b = buf[k++ & 7];
	snprintf(b, 80, "{y=%u m=%u d=%u H=%u M=%u S=%u ms=%u}", (unsigned)i.y, (unsigned)i.m, (unsigned)i.d,
		 (unsigned)i.H, (unsigned)i.M, (unsigned)i.S, (unsigned)i.ms);
	return b;
}

static const char*
ikind(echs_instant_t i)
{
	return i.H == ECHS_ALL_DAY ? "allday" : i.ms == ECHS_ALL_SEC ? "allsec" : "ms";
}

/* the text is handed to the parsers in a heap cell of exactly its size so
 * that the sanitizer build sees any read behind the terminator */
static char*
cell(const char *s, size_t extra)
{
	size_t n = strlen(s);
	char *p = malloc(n + 1 + extra);
	memcpy(p, s, n + 1);
	return p;
}

/* ---- instants ------------------------------------------------------ */
enum {F_ISO, F_ISO_Z, F_ISO_SPACE, F_ICAL, F_ICAL_NOZ, F_BASICDATE_EXTTIME, F_EXTDATE_BASICTIME, F_BASIC_FRAC, NFORMS};
static const char *fname[] = {"iso", "iso+Z", "iso-space", "ical", "ical-noZ", "basic-date+ext-time", "ext-date+basic-time", "basic+fraction"};

/* reference rendering of instant I in form F; returns false if the form cannot carry I exactly
 * (*SECRES is set when the form drops the millisecond part) */
static bool
render(char *buf, size_t bsz, echs_instant_t i, int f, bool *secres)
{
	const bool allday = i.H == ECHS_ALL_DAY, allsec = i.ms == ECHS_ALL_SEC;
	char date_e[16], date_b[16], time_e[16], time_b[16], frac[8] = "";

	*secres = false;
	snprintf(date_e, sizeof(date_e), "%04u-%02u-%02u", (unsigned)i.y, (unsigned)i.m, (unsigned)i.d);
	snprintf(date_b, sizeof(date_b), "%04u%02u%02u", (unsigned)i.y, (unsigned)i.m, (unsigned)i.d);
	if (allday) {
		switch (f) {
		case F_ISO: snprintf(buf, bsz, "%s", date_e); return true;
		case F_ICAL: snprintf(buf, bsz, "%s", date_b); return true;
		default: return false;
		}
	}
	snprintf(time_e, sizeof(time_e), "%02u:%02u:%02u", (unsigned)i.H, (unsigned)i.M, (unsigned)i.S);
	snprintf(time_b, sizeof(time_b), "%02u%02u%02u", (unsigned)i.H, (unsigned)i.M, (unsigned)i.S);
	if (!allsec) {
		snprintf(frac, sizeof(frac), ".%03u", (unsigned)i.ms);
	}
	switch (f) {
	case F_ISO: snprintf(buf, bsz, "%sT%s%s", date_e, time_e, frac); break;
	case F_ISO_Z: snprintf(buf, bsz, "%sT%s%sZ", date_e, time_e, frac); break;
	case F_ISO_SPACE: snprintf(buf, bsz, "%s %s%s", date_e, time_e, frac); break;
	case F_ICAL: snprintf(buf, bsz, "%sT%sZ", date_b, time_b); *secres = !allsec; break;
	case F_ICAL_NOZ: snprintf(buf, bsz, "%sT%s", date_b, time_b); *secres = !allsec; break;
	case F_BASICDATE_EXTTIME: snprintf(buf, bsz, "%sT%s%s", date_b, time_e, frac); break;
	case F_EXTDATE_BASICTIME: snprintf(buf, bsz, "%sT%s%s", date_e, time_b, frac); break;
	case F_BASIC_FRAC: if (allsec) return false; snprintf(buf, bsz, "%sT%s%s", date_b, time_b, frac); break;
	default: return false;
	}
	return true;
}

static void
dt_viol(int clause, int f, echs_instant_t x, echs_instant_t got, echs_instant_t want, const char *text, const char *how)
{
	static const char *cn[] = {"dt-print", "dt-parse", "dt-reprint", "dt-end"};
	int err = got.u == 0U ? 0 : got.dpart != want.dpart ? 1 : (got.H != want.H || got.M != want.M || got.S != want.S) ? 2 : 3;
	static const char *en[] = {"nul", "date-wrong", "time-wrong", "ms-wrong"};
	int kind = x.H == ECHS_ALL_DAY ? 0 : x.ms == ECHS_ALL_SEC ? 1 : 2;
	int id = clause << 9 | f << 5 | kind << 3 | err;

	if (lv_hit(id)) {
		char sig[120];
		if (clause == 0) {
			snprintf(sig, sizeof(sig), "%s/%s/%s", cn[clause], fname[f], ikind(x));
		} else {
			snprintf(sig, sizeof(sig), "%s/%s/%s/%s", cn[clause], fname[f], ikind(x), en[err]);
		}
		lv_set(id, sig, "instant %s, text \"%s\": %s gives %s, want %s", raw(x), text, how, raw(got), raw(want));
	}
}

/* forms whose text dt_strp must consume completely (bit f), --opt endforms= */
static unsigned endforms;

/* every form of one instant */
static void
chk_instant(echs_instant_t x)
{
	char ref[48], out[48];
	bool secres;

	n_eval++;
	n_nontriv++;
	/* the printers write the reference rendering */
	render(ref, sizeof(ref), x, F_ISO, &secres);
	memset(out, 0x55, sizeof(out));
	if (dt_strf(out, 32, x) != strlen(ref) || strcmp(out, ref)) {
		out[47] = '\0';
		int id = 0 << 9 | F_ISO << 5 | 7;
		if (lv_hit(id)) {
			char sig[120];
			snprintf(sig, sizeof(sig), "dt-print/iso/%s", ikind(x));
			lv_set(id, sig, "dt_strf(%s) writes \"%s\", ISO 8601 form is \"%s\"", raw(x), out, ref);
		}
	}
	render(ref, sizeof(ref), x, F_ICAL, &secres);
	memset(out, 0x55, sizeof(out));
	if (dt_strf_ical(out, 32, x) != strlen(ref) || strcmp(out, ref)) {
		out[47] = '\0';
		int id = 0 << 9 | F_ICAL << 5 | 7;
		if (lv_hit(id)) {
			char sig[120];
			snprintf(sig, sizeof(sig), "dt-print/ical/%s", ikind(x));
			lv_set(id, sig, "dt_strf_ical(%s) writes \"%s\", RFC 5545 form is \"%s\"", raw(x), out, ref);
		}
	}
	/* what the library printed, and every other spelling, parses back */
	for (int f = 0; f < NFORMS; f++) {
		echs_instant_t want = x, got;
		char *s, *on;
		size_t len;

		if (f == F_ISO) {
			dt_strf(ref, 32, x);
		} else if (f == F_ICAL) {
			dt_strf_ical(ref, 32, x);
		} else if (!render(ref, sizeof(ref), x, f, &secres)) {
			continue;
		}
		if ((f == F_ICAL || f == F_ICAL_NOZ) && x.H != ECHS_ALL_DAY) {
			/* second resolution */
			want.ms = ECHS_ALL_SEC;
		}
		len = strlen(ref);
		s = cell(ref, 0);
		for (int withlen = 0; withlen < 2; withlen++) {
			on = NULL;
			got = dt_strp(s, &on, withlen ? len : 0U);
			if (got.u != want.u) {
				dt_viol(1, f, x, got, want, ref, withlen ? "dt_strp(text, len)" : "dt_strp(text, 0)");
			} else {
				/* the whole text was the instant: the end handed back is the end of the text (a trailing Z
				 * included), which is what a caller needs who finds the text inside a line */
				if (endforms & (1 << f) && on != s + len) {
					int id = 3 << 9 | f << 5 | (x.H == ECHS_ALL_DAY ? 0 : x.ms == ECHS_ALL_SEC ? 1 : 2) << 3 | withlen;
					if (lv_hit(id)) {
						char sig[120];
						snprintf(sig, sizeof(sig), "dt-end/%s/%s/%s", fname[f], ikind(x),
							 on == NULL ? "no-end" : on < s + len ? "short" : "beyond");
						lv_set(id, sig, "instant %s, text \"%s\" (%zu characters): %s reads the instant but hands back the end at offset %td",
						       raw(x), ref, len, withlen ? "dt_strp(text, &end, len)" : "dt_strp(text, &end, 0)", on ? on - s : -1);
					}
				}
				/* print(parse(s)) parses to the same value again */
				char again[48];
				echs_instant_t g2;
				char *s2;
				dt_strf(again, 32, got);
				s2 = cell(again, 0);
				g2 = dt_strp(s2, NULL, 0U);
				if (g2.u != got.u) {
					dt_viol(2, f, x, g2, got, again, "dt_strp(dt_strf(dt_strp(text)))");
				}
				free(s2);
			}
		}
		free(s);
	}
}

static void
mode_dt(void)
{
	vd_shape("dt");
	for (int y = Y0; y <= Y1; y++) {
		for (int m = 1; m <= 12; m++) {
			if (!vd_next()) continue;
			vd_desc("every day of %04d-%02d as all-day, 00:00:00, 23:59:59, 12:34:56.789, 00:00:00.000, 23:59:59.999 in %d text forms", y, m, NFORMS);
			n_eval = n_nontriv = 0;
			for (int d = 1; d <= cv_mdays(y, m); d++) {
				vd_beat();
				chk_instant(mk(y, m, d, ECHS_ALL_DAY, 0, 0, 0));
				chk_instant(mk(y, m, d, 0, 0, 0, ECHS_ALL_SEC));
				chk_instant(mk(y, m, d, 23, 59, 59, ECHS_ALL_SEC));
				chk_instant(mk(y, m, d, 12, 34, 56, 789));
				chk_instant(mk(y, m, d, 0, 0, 0, 0));
				chk_instant(mk(y, m, d, 23, 59, 59, 999));
			}
			lv_flush();
			vd_sh->evals += n_eval;
			vd_sh->nontriv += n_nontriv;
			vd_sample("dt: %04d-%02d, %ld instants each printed by dt_strf/dt_strf_ical and parsed from %d spellings with and without length", y, m, n_eval, NFORMS);
		}
	}
}

static void
mode_dt_times(void)
{
	static const struct cv_ymd_s days[] = {{1901, 1, 1}, {1969, 12, 31}, {1970, 1, 1}, {1999, 9, 9}, {2000, 2, 29}, {2019, 10, 10}, {2038, 1, 19}, {2099, 12, 31}};
	static const unsigned mss[] = {ECHS_ALL_SEC, 0, 1, 9, 10, 99, 100, 789, 999};
	/* days=monthly: the first day of every month 1901-2099, whole-second instants only */
	const bool alldays = !strcmp(vd_opt("days", "8"), "monthly");
	const long nd = alldays ? (Y1 - Y0 + 1) * 12 : 8;

	vd_shape("dt-times");
	for (long k = 0; k < nd; k++) {
		struct cv_ymd_s c = alldays ? (struct cv_ymd_s){Y0 + (int)(k / 12), (int)(k % 12) + 1, 1} : days[k];
		for (unsigned H = 0; H < 24; H++) {
			if (!vd_next()) continue;
			vd_desc("%04d-%02d-%02d hour %02u: every minute and second%s", c.y, c.m, c.d, H,
				alldays ? " as whole-second instants" : " x ms in {whole-second, 0,1,9,10,99,100,789,999}");
			n_eval = n_nontriv = 0;
			for (unsigned M = 0; M < 60; M++) {
				vd_beat();
				for (unsigned S = 0; S < 60; S++) {
					for (int j = 0; j < (alldays ? 1 : 9); j++) {
						chk_instant(mk(c.y, c.m, c.d, H, M, S, mss[j]));
					}
				}
			}
			lv_flush();
			vd_sh->evals += n_eval;
			vd_sh->nontriv += n_nontriv;
			vd_sample("dt-times: %04d-%02d-%02dT%02u:MM:SS, %ld instants", c.y, c.m, c.d, H, n_eval);
		}
	}
}

/* ---- instants cut out of a longer text (explicit length) ------------- */
/* dt_strp(str, &end, len) with len != 0 is how a caller takes a stamp out of
 * a longer text (evical.c: a value inside a line or a comma list; echse.c: an
 * argument).  The LEN characters are the text; what stands behind them is not
 * part of it.  So: every printed form, and every proper prefix of it that is
 * itself a complete form (the date out of a date-time, the date-time without
 * its fraction, the date-time without its Z), parsed with exactly that length
 * while something else stands at str[len], is the instant the LEN characters
 * spell. */
/* name = --opt skipfol handle, cls = what the signature says (the character right behind the text) */
static const struct {
	const char *name;
	const char *cls;
	const char *txt;
} fol[] = {
	{"nul", "nul", ""}, {"T", "T", "T"}, {"blank", "blank", " "}, {"comma", "comma", ","}, {"slash", "slash", "/"}, {"Z", "Z", "Z"},
	{"digit", "digit", "7"}, {"dot", "dot", "."}, {"colon", "colon", ":"}, {"dash", "dash", "-"}, {"plus", "plus", "+"},
	{"tab", "tab", "\t"}, {"crlf", "cr", "\r\n"}, {"zero", "digit", "0"},
	{"T-time-basic", "T", "T123015Z"}, {"T-time-ext", "T", "T12:30:15.789"}, {"blank-time", "blank", " 12:30:15"}, {"blank-word", "blank", " summary"},
	{"fraction", "dot", ".789"}, {"comma-date", "comma", ",20240301"}, {"slash-date", "slash", "/2024-03-01"}, {"Z-comma", "Z", "Z,20240301T000000Z"},
};
#define NFOL	((int)(sizeof(fol) / sizeof(*fol)))
enum {PK_WHOLE, PK_DATE, PK_NOFRAC, PK_NOZ, NPK};
static const char *pkname[] = {"whole", "date-of-date-time", "without-fraction", "without-Z"};
/* followers left out of the judgement, --opt skipfol=name,name */
static const char *skipfol;

static bool
fol_skipped(const char *name)
{
	size_t n = strlen(name);
	for (const char *p = skipfol; p && *p;) {
		const char *e = strchr(p, ',');
		size_t l = e ? (size_t)(e - p) : strlen(p);
		if (l == n && !memcmp(p, name, n)) return true;
		p = e ? e + 1 : NULL;
	}
	return false;
}

/* TEXT[0..LEN) spells WANT; BEHIND stands behind it */
static void
chk_cut1(int f, int pk, int fi, echs_instant_t x, echs_instant_t want, const char *text, size_t len, const char *behind, const char *bname)
{
	char buf[96];
	char *s, *on = NULL;
	echs_instant_t got;
	const int kind = x.H == ECHS_ALL_DAY ? 0 : x.ms == ECHS_ALL_SEC ? 1 : 2;
	const int id = ((f * 3 + kind) * NPK + pk) * 32 + fi;

	snprintf(buf, sizeof(buf), "%.*s%s", (int)len, text, behind);
	s = cell(buf, 0);
	n_eval++;
	n_nontriv++;
	got = dt_strp(s, &on, len);
	if (got.u != want.u) {
		if (lv_hit(id)) {
			int err = got.u == 0U ? 0 : got.dpart != want.dpart ? 1 : (got.H != want.H || got.M != want.M || got.S != want.S) ? 2 : 3;
			static const char *en[] = {"nul", "date-wrong", "time-wrong", "ms-wrong"};
			char sig[160];
			snprintf(sig, sizeof(sig), "dt-cut/%s/%s/%s/behind=%s/%s", fname[f], ikind(x), pkname[pk], bname, en[err]);
			lv_set(id, sig, "instant %s: the first %zu characters of \"%s\" spell %s, but dt_strp(text, &end, %zu) gives %s",
			       raw(x), len, buf, raw(want), len, raw(got));
		}
	} else if (on != s + len && !(s[len] == 'Z' && on == s + len + 1)) {
		/* the end handed back is the end of the LEN characters (a Z right behind them may be taken along, as documented in the code) */
		if (lv_hit(4096 + id)) {
			char sig[160];
			snprintf(sig, sizeof(sig), "dt-cut-end/%s/%s/%s/behind=%s/%s", fname[f], ikind(x), pkname[pk], bname,
				 on == NULL ? "no-end" : on < s + len ? "short" : "beyond");
			lv_set(4096 + id, sig, "instant %s: dt_strp(\"%s\", &end, %zu) reads %s but hands back the end at offset %td",
			       raw(x), buf, len, raw(got), on ? on - s : -1);
		}
	}
	free(s);
}

static void
chk_cut(echs_instant_t x)
{
	char ref[48];
	bool secres;

	for (int f = 0; f < NFORMS; f++) {
		echs_instant_t want = x, wd, wf;
		size_t len, dlen, flen;
		const char *dot;

		if (f == F_ISO) {
			dt_strf(ref, 32, x);
		} else if (f == F_ICAL) {
			dt_strf_ical(ref, 32, x);
		} else if (!render(ref, sizeof(ref), x, f, &secres)) {
			continue;
		}
		if ((f == F_ICAL || f == F_ICAL_NOZ) && x.H != ECHS_ALL_DAY) {
			want.ms = ECHS_ALL_SEC;
		}
		len = strlen(ref);
		/* the whole text with everything behind it */
		for (int fi = 0; fi < NFOL; fi++) {
			if (fol_skipped(fol[fi].name)) continue;
			chk_cut1(f, PK_WHOLE, fi, x, want, ref, len, fol[fi].txt, fol[fi].cls);
		}
		if (x.H == ECHS_ALL_DAY) {
			continue;
		}
		/* the date out of the date-time: behind it its own time, then everything else */
		dlen = ref[4] == '-' ? 10U : 8U;
		wd = mk(x.y, x.m, x.d, ECHS_ALL_DAY, 0, 0, 0);
		chk_cut1(f, PK_DATE, 31, x, wd, ref, dlen, ref + dlen, ref[dlen] == 'T' ? "T" : "blank");
		for (int fi = 0; fi < NFOL; fi++) {
			if (fol_skipped(fol[fi].name)) continue;
			chk_cut1(f, PK_DATE, fi, x, wd, ref, dlen, fol[fi].txt, fol[fi].cls);
		}
		/* the date-time without its Z */
		if (ref[len - 1] == 'Z') {
			chk_cut1(f, PK_NOZ, 31, x, want, ref, len - 1, "Z", "Z");
		}
		/* the date-time without its fraction */
		if ((dot = strchr(ref, '.')) != NULL) {
			flen = (size_t)(dot - ref);
			wf = x;
			wf.ms = ECHS_ALL_SEC;
			chk_cut1(f, PK_NOFRAC, 31, x, wf, ref, flen, ref + flen, "dot");
			for (int fi = 0; fi < NFOL; fi++) {
				if (fol_skipped(fol[fi].name)) continue;
				chk_cut1(f, PK_NOFRAC, fi, x, wf, ref, flen, fol[fi].txt, fol[fi].cls);
			}
		}
	}
}

static void
mode_dt_cut(void)
{
	skipfol = vd_opt("skipfol", "");
	vd_shape("dt-cut");
	for (int y = Y0; y <= Y1; y++) {
		for (int m = 1; m <= 12; m++) {
			if (!vd_next()) continue;
			vd_desc("every day of %04d-%02d as all-day, 00:00:00, 23:59:59, 12:34:56.789, 00:00:00.000, 23:59:59.999 in %d text forms, "
				"the text and each complete prefix of it parsed with its exact length while one of %d other texts stands behind it", y, m, NFORMS, NFOL);
			n_eval = n_nontriv = 0;
			for (int d = 1; d <= cv_mdays(y, m); d++) {
				vd_beat();
				chk_cut(mk(y, m, d, ECHS_ALL_DAY, 0, 0, 0));
				chk_cut(mk(y, m, d, 0, 0, 0, ECHS_ALL_SEC));
				chk_cut(mk(y, m, d, 23, 59, 59, ECHS_ALL_SEC));
				chk_cut(mk(y, m, d, 12, 34, 56, 789));
				chk_cut(mk(y, m, d, 0, 0, 0, 0));
				chk_cut(mk(y, m, d, 23, 59, 59, 999));
			}
			lv_flush();
			vd_sh->evals += n_eval;
			vd_sh->nontriv += n_nontriv;
			vd_sample("dt-cut: %04d-%02d, %ld (text, length, what stands behind) parsed with dt_strp(text, &end, length)", y, m, n_eval);
		}
	}
}

/* ---- ranges -------------------------------------------------------- */
static int
variants(echs_instant_t v[static 6], int y, int m, int d)
{
	v[0] = mk(y, m, d, ECHS_ALL_DAY, 0, 0, 0);
	v[1] = mk(y, m, d, 0, 0, 0, ECHS_ALL_SEC);
	v[2] = mk(y, m, d, 23, 59, 59, ECHS_ALL_SEC);
	v[3] = mk(y, m, d, 12, 34, 56, 789);
	v[4] = mk(y, m, d, 0, 0, 0, 0);
	v[5] = mk(y, m, d, 23, 59, 59, 999);
	return 6;
}

static void
chk_range(echs_range_t r, bool open_end)
{
	char txt[80], ref[80], b1[40], b2[40];
	bool dummy;
	echs_range_t got;
	char *s, *on = NULL;
	size_t n;

	n_eval++;
	n_nontriv += r.beg.u != r.end.u;
	render(b1, sizeof(b1), r.beg, F_ISO, &dummy);
	if (open_end) {
		snprintf(ref, sizeof(ref), "%s+", b1);
	} else {
		render(b2, sizeof(b2), r.end, F_ISO, &dummy);
		snprintf(ref, sizeof(ref), "%s/%s", b1, b2);
	}
	memset(txt, 0x55, sizeof(txt));
	n = range_strf(txt, 64, r);
	txt[79] = '\0';
	if (n != strlen(ref) || strcmp(txt, ref)) {
		int id = 3 << 9 | open_end;
		if (lv_hit(id)) {
			char sig[120];
			snprintf(sig, sizeof(sig), "range-print/%s", open_end ? "open-end" : "closed");
			lv_set(id, sig, "range_strf(%s .. %s) writes \"%s\", expected \"%s\"", raw(r.beg), open_end ? "max" : raw(r.end), txt, ref);
		}
		return;
	}
	s = cell(txt, 0);
	got = range_strp(s, &on, strlen(s));
	if (got.beg.u != r.beg.u || got.end.u != r.end.u) {
		int which = got.beg.u != r.beg.u ? 0 : 1;
		int kb = r.beg.H == ECHS_ALL_DAY ? 0 : r.beg.ms == ECHS_ALL_SEC ? 1 : 2;
		int ke = open_end ? 3 : r.end.H == ECHS_ALL_DAY ? 0 : r.end.ms == ECHS_ALL_SEC ? 1 : 2;
		int id = 4 << 9 | which << 4 | kb << 2 | ke;
		if (lv_hit(id)) {
			char sig[120];
			snprintf(sig, sizeof(sig), "range-parse/%s-wrong/beg=%s/end=%s", which ? "end" : "beg", ikind(r.beg), open_end ? "open" : ikind(r.end));
			lv_set(id, sig, "range_strp(\"%s\") = %s .. %s, want %s .. %s", txt, raw(got.beg), raw(got.end), raw(r.beg), raw(r.end));
		}
	}
	free(s);
}

static void
mode_range(void)
{
	static const int off[] = {0, 1, 31, 366};
	const int64_t z1 = cv_days_from_civil(Y1, 12, 31);

	vd_shape("range");
	for (int y = Y0; y <= Y1; y++) {
		for (int m = 1; m <= 12; m++) {
			if (!vd_next()) continue;
			vd_desc("ranges starting on every day of %04d-%02d (6 instants) and ending the same day, +1, +31, +366 days, on 2099-12-31 (6 instants each) or open", y, m);
			n_eval = n_nontriv = 0;
			for (int d = 1; d <= cv_mdays(y, m); d++) {
				echs_instant_t vb[6], ve[6];
				int64_t zb = cv_days_from_civil(y, m, d);
				vd_beat();
				variants(vb, y, m, d);
				for (int k = 0; k < 5; k++) {
					int64_t ze = k < 4 ? zb + off[k] : z1;
					struct cv_ymd_s c;
					if (ze > z1) continue;
					c = cv_civil_from_days(ze);
					variants(ve, c.y, c.m, c.d);
					for (int i = 0; i < 6; i++) {
						for (int j = 0; j < 6; j++) {
							chk_range((echs_range_t){vb[i], ve[j]}, false);
						}
					}
				}
				for (int i = 0; i < 6; i++) {
					chk_range((echs_range_t){vb[i], echs_max_instant()}, true);
				}
			}
			lv_flush();
			vd_sh->evals += n_eval;
			vd_sh->nontriv += n_nontriv;
			vd_sample("range: starts in %04d-%02d, %ld ranges through range_strf -> range_strp", y, m, n_eval);
		}
	}
}

/* ---- durations ----------------------------------------------------- */
/* ISO 8601 / RFC 5545 duration text: P [nW] [nD] [T [nH] [nM] [nS]], at least
 * one part, T iff a time part follows; returns the value in ms or -1 */
static int64_t
ref_dur_value(const char *s)
{
	int64_t v = 0, n;
	int parts = 0, tparts = 0;
	static const char dord[] = "WD", tord[] = "HMS";
	static const int64_t dmul[] = {7 * 86400, 86400}, tmul[] = {3600, 60, 1};
	int pos = 0;

	if (*s == '+') s++;
	if (*s++ != 'P') return -1;
	while (*s >= '0' && *s <= '9') {
		const char *p;
		for (n = 0; *s >= '0' && *s <= '9'; s++) n = n * 10 + (*s - '0');
		if (!*s || (p = strchr(dord + pos, *s)) == NULL) return -1;
		v += n * dmul[p - dord];
		pos = (int)(p - dord) + 1;
		parts++, s++;
	}
	if (*s == 'T') {
		s++;
		pos = 0;
		while (*s >= '0' && *s <= '9') {
			const char *p;
			for (n = 0; *s >= '0' && *s <= '9'; s++) n = n * 10 + (*s - '0');
			if (!*s || (p = strchr(tord + pos, *s)) == NULL) return -1;
			v += n * tmul[p - tord];
			pos = (int)(p - tord) + 1;
			tparts++, s++;
		}
		if (!tparts) return -1;
	}
	if (*s || !(parts + tparts)) return -1;
	return v * 1000;
}

struct dres_s {
	bool accepted;
	int64_t v;
	long consumed;
};

static struct dres_s
dparse(const char *txt, bool newline_behind)
{
	size_t len = strlen(txt);
	char *s = cell(txt, newline_behind ? 2 : 0);
	char *on = NULL;
	echs_idiff_t r;
	struct dres_s res;

	if (newline_behind) {
		/* the way a content line sits in the parser's buffer */
		s[len] = '\r', s[len + 1] = '\n';
	}
	r = idiff_strp(s, &on, len);
	res.v = r.d;
	res.accepted = on != NULL && on >= s + len;
	res.consumed = on ? (long)(on - s) : -1;
	free(s);
	return res;
}

static int
mcls(int64_t a)
{
	return a < (INT64_C(1) << 31) ? 0 : a < (INT64_C(1) << 32) ? 1 : 2;
}
static const char *mname[] = {"lt2e31ms", "lt2e32ms", "ge2e32ms"};

/* TXT is a spelling of WANT ms */
static bool
chk_dur_text(const char *txt, int64_t want, int clause, bool newline_behind)
{
	static const char *cn[] = {"dur-print-parse", "dur-spelling", "dur-reprint"};
	struct dres_s r = dparse(txt, newline_behind);
	const int plus = txt[0] == '+';
	bool has_w = strchr(txt, 'W') != NULL, has_d = strchr(txt, 'D') != NULL, has_t = strchr(txt, 'T') != NULL;
	int units = has_w << 2 | has_d << 1 | has_t;

	if (r.accepted && r.v == want) {
		return true;
	}
	if (!r.accepted) {
		int cc = r.consumed <= 0 ? 0 : r.consumed <= 1 + plus ? 1 : 2;
		static const char *ccn[] = {"nothing", "up-to-P", "partial"};
		int id = 8 << 9 | clause << 6 | plus << 5 | cc << 3 | newline_behind;
		if (lv_hit(id)) {
			char sig[120];
			snprintf(sig, sizeof(sig), "%s/rejected/sign=%s/consumed=%s%s", cn[clause], plus ? "plus" : "none", ccn[cc], newline_behind ? "/crlf-behind" : "");
			lv_set(id, sig, "idiff_strp(\"%s\", len=%zu) stops after %ld characters (caller drops the value; returned %" PRId64 " ms), want %" PRId64 " ms",
			       txt, strlen(txt), r.consumed, r.v, want);
		}
	} else {
		int err = r.v == (int64_t)(uint32_t)want ? 0 : r.v == 0 ? 1 : 2;
		static const char *en[] = {"wrap32", "zero", "other"};
		static const char *un[] = {"-", "T", "D", "DT", "W", "WT", "WD", "WDT"};
		int id = 9 << 9 | clause << 7 | plus << 6 | mcls(want) << 4 | err << 2 | newline_behind;
		if (err == 2) id = 10 << 9 | clause << 7 | plus << 6 | units << 3 | mcls(want);
		if (lv_hit(id)) {
			char sig[120];
			if (err == 2) {
				snprintf(sig, sizeof(sig), "%s/value/sign=%s/%s/other/parts=%s", cn[clause], plus ? "plus" : "none", mname[mcls(want)], un[units]);
			} else {
				snprintf(sig, sizeof(sig), "%s/value/sign=%s/%s/%s", cn[clause], plus ? "plus" : "none", mname[mcls(want)], en[err]);
			}
			lv_set(id, sig, "idiff_strp(\"%s\") = %" PRId64 " ms, want %" PRId64 " ms", txt, r.v, want);
		}
	}
	return false;
}

/* print(parse(TXT)) parses to the value parse(TXT) gave */
static void
chk_reprint(const char *txt)
{
	struct dres_s r = dparse(txt, false), r2;
	char again[40];

	/* the printer writes whole seconds only (see assumptions) */
	if (!r.accepted || r.v < 0 || r.v % 1000) {
		return;
	}
	memset(again, 0x55, sizeof(again));
	idiff_strf(again, 32, (echs_idiff_t){r.v});
	again[39] = '\0';
	r2 = dparse(again, false);
	if (!r2.accepted || r2.v != r.v) {
		int id = 11 << 9 | mcls(r.v) << 1 | !r2.accepted;
		if (lv_hit(id)) {
			char sig[120];
			snprintf(sig, sizeof(sig), "dur-reprint/%s/%s", mname[mcls(r.v)], r2.accepted ? "value" : "rejected");
			lv_set(id, sig, "idiff_strp(\"%s\") = %" PRId64 " ms, printed as \"%s\", which reads as %" PRId64 " ms%s",
			       txt, r.v, again, r2.v, r2.accepted ? "" : " (not read to the end)");
		}
	}
}

/* the printer's text for V ms (a whole number of seconds) is an ISO duration worth V and parses back */
static void
chk_dur_print(int64_t v)
{
	char out[40];
	size_t n;
	int64_t rv;

	memset(out, 0x55, sizeof(out));
	n = idiff_strf(out, 32, (echs_idiff_t){v});
	out[39] = '\0';
	rv = n == strlen(out) ? ref_dur_value(out) : -1;
	if (rv != v) {
		int id = 12 << 9 | mcls(v) << 1 | (rv < 0);
		if (lv_hit(id)) {
			char sig[120];
			snprintf(sig, sizeof(sig), "dur-print/%s/%s", mname[mcls(v)], rv < 0 ? "not-iso" : "other-value");
			lv_set(id, sig, "idiff_strf(%" PRId64 " ms) writes \"%s\" (returns %zu), which %s", v, out, n,
			       rv < 0 ? "is not an ISO 8601 duration" : "is a different duration");
		}
		return;
	}
	chk_dur_text(out, v, 0, false);
	chk_dur_text(out, v, 0, true);
}

static void
spell(const char *txt, int64_t want)
{
	char plus[64];

	if (ref_dur_value(txt) != want) {
		fprintf(stderr, "c18: driver bug, spelling %s is not %" PRId64 "\n", txt, want);
		_exit(3);
	}
	n_eval += 2;
	n_nontriv += 2 * (want != 0);
	chk_dur_text(txt, want, 1, false);
	chk_reprint(txt);
	snprintf(plus, sizeof(plus), "+%s", txt);
	chk_dur_text(plus, want, 1, false);
	chk_reprint(plus);
}

static void
mode_dur_secs(void)
{
	const long max = vd_opt_l("max", 200000);

	vd_shape("dur-secs");
	for (long blk = 0; blk <= max; blk += 1000) {
		if (!vd_next()) continue;
		vd_desc("durations of %ld..%ld whole seconds: printed form and 5 spellings, with and without +", blk, blk + 999 <= max ? blk + 999 : max);
		n_eval = n_nontriv = 0;
		for (long T = blk; T < blk + 1000 && T <= max; T++) {
			char s[64];
			if (!(T & 63)) vd_beat();
			int64_t v = (int64_t)T * 1000;
			n_eval++;
			n_nontriv += T != 0;
			chk_dur_print(v);
			snprintf(s, sizeof(s), "PT%ldS", T);
			spell(s, v);
			snprintf(s, sizeof(s), "PT%ldM%ldS", T / 60, T % 60);
			spell(s, v);
			snprintf(s, sizeof(s), "PT%ldH%ldM%ldS", T / 3600, T / 60 % 60, T % 60);
			spell(s, v);
			snprintf(s, sizeof(s), "P%ldDT%ldH%ldM%ldS", T / 86400, T / 3600 % 24, T / 60 % 60, T % 60);
			spell(s, v);
			if (T % 60 == 0) {
				snprintf(s, sizeof(s), "PT%ldM", T / 60);
				spell(s, v);
			}
		}
		lv_flush();
		vd_sh->evals += n_eval;
		vd_sh->nontriv += n_nontriv;
		vd_sample("dur-secs: %ld..%ld s, %ld texts (idiff_strf output, PTnS, PTnMnS, PTnHnMnS, PnDTnHnMnS, each also with +)", blk, blk + 999, n_eval);
	}
}

static void
mode_dur_days(void)
{
	const long max = vd_opt_l("max", 4000);
	static const long res[] = {0, 1, 3599, 3600, 86399};

	vd_shape("dur-days");
	for (long blk = 0; blk <= max; blk += 10) {
		if (!vd_next()) continue;
		vd_desc("durations of %ld..%ld whole days plus 0, 1, 3599, 3600, 86399 s: printed form and spellings, with and without +", blk, blk + 9 <= max ? blk + 9 : max);
		n_eval = n_nontriv = 0;
		for (long N = blk; N < blk + 10 && N <= max; N++) {
			for (int j = 0; j < 5; j++) {
				char s[64];
				long r = res[j];
				int64_t v = ((int64_t)N * 86400 + r) * 1000;
				n_eval++;
				n_nontriv += v != 0;
				chk_dur_print(v);
				if (r == 0) {
					snprintf(s, sizeof(s), "P%ldD", N);
					spell(s, v);
					snprintf(s, sizeof(s), "PT%ldH", N * 24);
					spell(s, v);
					if (N % 7 == 0) {
						snprintf(s, sizeof(s), "P%ldW", N / 7);
						spell(s, v);
					}
				} else {
					snprintf(s, sizeof(s), "P%ldDT%ldS", N, r);
					spell(s, v);
					snprintf(s, sizeof(s), "P%ldDT%ldH%ldM%ldS", N, r / 3600, r / 60 % 60, r % 60);
					spell(s, v);
				}
			}
		}
		lv_flush();
		vd_sh->evals += n_eval;
		vd_sh->nontriv += n_nontriv;
		vd_sample("dur-days: %ld..%ld d (+0/1/3599/3600/86399 s), %ld texts (idiff_strf output, PnD, PTnH, PnW, PnDTnS, PnDTnHnMnS, each also with +)", blk, blk + 9, n_eval);
	}
}

static void
mode_dur_combo(void)
{
	vd_shape("dur-combo");
	for (int w = 0; w <= 3; w++) {
		for (int d = 0; d <= 9; d++) {
			for (int h = 0; h <= 25; h++) {
				if (!vd_next()) continue;
				vd_desc("spellings P[%dW][%dD][T[%dH][mM][sS]] for every m,s in 0..61, zero parts written or left out, with and without +", w, d, h);
				n_eval = n_nontriv = 0;
				for (int m = 0; m <= 61; m++) {
					vd_beat();
					for (int s = 0; s <= 61; s++) {
						const int val[5] = {w, d, h, m, s};
						const int64_t v = ((((int64_t)w * 7 + d) * 24 + h) * 3600 + m * 60 + s) * 1000;
						/* bit i of mask: part i is written */
						for (int mask = 1; mask < 32; mask++) {
							char txt[64];
							size_t o = 0;
							bool ok = true;
							for (int i = 0; i < 5; i++) {
								if (val[i] && !(mask >> i & 1)) ok = false;
							}
							if (!ok) continue;
							o += snprintf(txt + o, sizeof(txt) - o, "P");
							if (mask & 1) o += snprintf(txt + o, sizeof(txt) - o, "%dW", w);
							if (mask & 2) o += snprintf(txt + o, sizeof(txt) - o, "%dD", d);
							if (mask & 28) o += snprintf(txt + o, sizeof(txt) - o, "T");
							if (mask & 4) o += snprintf(txt + o, sizeof(txt) - o, "%dH", h);
							if (mask & 8) o += snprintf(txt + o, sizeof(txt) - o, "%dM", m);
							if (mask & 16) o += snprintf(txt + o, sizeof(txt) - o, "%dS", s);
							spell(txt, v);
						}
					}
				}
				lv_flush();
				vd_sh->evals += n_eval;
				vd_sh->nontriv += n_nontriv;
				vd_sample("dur-combo: w=%d d=%d h=%d, m,s<=61: %ld spellings", w, d, h, n_eval);
			}
		}
	}
}

static void
enumerate(void)
{
	const char *mode = vd_opt("mode", "dt");
	endforms = (unsigned)vd_opt_l("endforms", (1 << NFORMS) - 1);

	vd_count_cases = 0;
	if (!strcmp(mode, "dt")) {
		mode_dt();
	} else if (!strcmp(mode, "dt-times")) {
		mode_dt_times();
	} else if (!strcmp(mode, "dt-cut")) {
		mode_dt_cut();
	} else if (!strcmp(mode, "range")) {
		mode_range();
	} else if (!strcmp(mode, "dur-secs")) {
		mode_dur_secs();
	} else if (!strcmp(mode, "dur-days")) {
		mode_dur_days();
	} else if (!strcmp(mode, "dur-combo")) {
		mode_dur_combo();
	} else {
		fprintf(stderr, "unknown mode %s\n", mode);
		_exit(3);
	}
}

int
main(int argc, char *argv[])
{
	if (cv_selftest(Y0 - 1, Y1 + 1) < 0) {
		fprintf(stderr, "c18: reference calendar failed its self test\n");
		return 3;
	}
	if (ref_dur_value("P1W") != 604800000 || ref_dur_value("PT") != -1 || ref_dur_value("P") != -1 ||
	    ref_dur_value("+P1DT2H3M4S") != 93784000 || ref_dur_value("PT1H5S") != 3605000 || ref_dur_value("PT5S1H") != -1 ||
	    ref_dur_value("P0D") != 0 || ref_dur_value("P1D2W") != -1 || ref_dur_value("P1DT") != -1) {
		fprintf(stderr, "c18: reference duration reader failed its self test\n");
		return 3;
	}
	return vd_main(argc, argv, enumerate);
}
