/* C07 -- TZID events occur at the stated local wall-clock time.
 *
 * The expected values come from harness/ref/tzif_oracle.py (Python zoneinfo
 * on the installed files), run as a coprocess at check time; nothing is
 * stored.  Civil <-> epoch arithmetic on this side is days-from-civil, not
 * echse's.
 *
 * --opt mode=conv   case = (zone, order): every probe of the zone's table
 *                   (3 UTC + 6 local seconds around every transition inside
 *                   1902..2037, interval midpoints, the 15th 12:00 local of
 *                   every month) through echs_instant_loc / echs_instant_utc /
 *                   echs_tzob_offs, visited descending / ascending / zigzag
 *                   (the per-zone range cache makes the order matter)
 * --opt mode=rule   case = zone: real TZID events (text -> parser -> stream)
 *                   DAILY / WEEKLY / MONTHLY around the transitions of 6 years
 * --opt mode=rewrite case = zone: the events of mode=rule written out with the project's own writer (the form echsq
 *                   sends and the form of echsd's checkpoint file), parsed again and read back against zoneinfo
 * --opt mode=cache  case = one access sequence over the 16-slot zone cache
 *                   (cyclic orders and hot-zone orders of 15..18 zones) or one
 *                   process that touches 63 / 64 / 65 distinct TZIDs
 * --opt mode=byhour case = (zone, year) with offset 0 on January 1st: FREQ=DAILY;BYHOUR=h1,h2 events
 *                   (all pairs of 0..6 and six later ones) through the whole year (y0= y1= ystep=)
 * --opt mode=transient case = (zone B, zone A in use before or none, first operation): B is used for the first
 *                   time while open(2) answers EMFILE, then again with descriptors available
 * --opt tier=quick|thorough   zone list (quick: the ~45 zones named in the oracle)
 * --opt guard_ms=N  CPU budget of one library call before it counts as a hang
 *
 * Every case runs in its own forked process so that the zone caches start
 * empty: the same case gives the same result alone (--only) and in a run.
 */
#include "config.h"
#include "vdrv.h"
#include <sys/resource.h>
#include <setjmp.h>
#include <sys/prctl.h>
#include <sys/syscall.h>
#include "tzob.h"
#include "dt-strpf.h"
#include "intern.h"
#include "ref/icalio.h"
#include "ref/c05_common.h"

#if !defined TZDIR
# define TZDIR	"/usr/share/zoneinfo"
#endif

/* ---------------------------------------------------------------- civil */
static long
days_from_civil(long y, unsigned m, unsigned d)
{
	y -= m <= 2;
	long era = (y >= 0 ? y : y - 399) / 400;
	unsigned yoe = (unsigned)(y - era * 400);
	unsigned doy = (153 * (m + (m > 2 ? -3 : 9)) + 2) / 5 + d - 1;
	unsigned doe = yoe * 365 + yoe / 4 - yoe / 100 + doy;
	return era * 146097 + (long)doe - 719468;
}

static void
civil_from_days(long z, int *y, unsigned *m, unsigned *d)
{
	z += 719468;
	long era = (z >= 0 ? z : z - 146096) / 146097;
	unsigned doe = (unsigned)(z - era * 146097);
	unsigned yoe = (doe - doe / 1460 + doe / 36524 - doe / 146096) / 365;
	long yy = (long)yoe + era * 400;
	unsigned doy = doe - (365 * yoe + yoe / 4 - yoe / 100);
	unsigned mp = (5 * doy + 2) / 153;
	*d = doy - (153 * mp + 2) / 5 + 1;
	*m = mp < 10 ? mp + 3 : mp - 9;
	*y = (int)(yy + (*m <= 2));
}

static long
floordiv(long a, long b)
{
	return a / b - (a % b < 0);
}

struct civ_s {
	int y;
	unsigned m, d, H, M, S;
};

static struct civ_s
civil(long t)
{
	struct civ_s c;
	long days = floordiv(t, 86400), s = t - days * 86400;
	civil_from_days(days, &c.y, &c.m, &c.d);
	c.H = (unsigned)(s / 3600), c.M = (unsigned)(s / 60 % 60), c.S = (unsigned)(s % 60);
	return c;
}

static const char*
tstr(char *buf, long t)
{
	struct civ_s c = civil(t);
	snprintf(buf, 24, "%04d%02u%02uT%02u%02u%02u", c.y, c.m, c.d, c.H, c.M, c.S);
	return buf;
}

/* instants are made the way the parser makes them: dt_strp of the compact form */
static echs_instant_t
mkinst(long t)
{
	char b[24], *on = NULL;
	tstr(b, t);
	return dt_strp(b, &on, strlen(b));
}

static long
inst_epoch(echs_instant_t i)
{
	return days_from_civil(i.y, i.m, i.d) * 86400L + i.H * 3600L + i.M * 60L + i.S;
}

static int
inst_is(echs_instant_t i, long t)
{
	struct civ_s c = civil(t);
	return !echs_instant_all_day_p(i) && (int)i.y == c.y && i.m == c.m && i.d == c.d && i.H == c.H && i.M == c.M && i.S == c.S;
}

/* jan-feb also for the day before and after: offsets move an instant by less than a day,
 * so every instant derived from T inside one conversion stays in the same class */
static const char*
monclass(long t)
{
	return civil(t).m <= 2 || civil(t - 86400).m <= 2 || civil(t + 86400).m <= 2 ? "jan-feb" : "mar-dec";
}

/* ----------------------------------------------------------- hang guard */
static sigjmp_buf hg_env;
static volatile sig_atomic_t hg_armed;
static long guard_us = 100000;

static void
hg_alarm(int sig)
{
	(void)sig;
	if (hg_armed) {
		hg_armed = 0;
		siglongjmp(hg_env, 1);
	}
}

static void
hg_timer(long us)
{
	struct itimerval it = {{0, 0}, {us / 1000000, us % 1000000}};
	setitimer(ITIMER_VIRTUAL, &it, NULL);
}

/* run F(ARG); 1 if it did not come back within the CPU budget */
static int
guarded(void (*f)(void*), void *arg)
{
	if (sigsetjmp(hg_env, 1) == 0) {
		hg_armed = 1;
		hg_timer(guard_us);
		f(arg);
		hg_armed = 0;
		hg_timer(0);
		return 0;
	}
	hg_timer(0);
	vd_beat();
	vd_count("calls_abandoned_as_hung", 1);
	return 1;
}

struct call_s {
	echs_instant_t i, r;
	echs_tzob_t z;
	int x, ri;
};

static void c_loc(void *p) { struct call_s *c = p; c->r = echs_instant_loc(c->i, c->z); }
static void c_utc(void *p) { struct call_s *c = p; c->r = echs_instant_utc(c->i, c->z); }
static void c_offs(void *p) { struct call_s *c = p; c->ri = echs_tzob_offs(c->z, c->i, c->x); }

/* ------------------------------------------------------------ coprocess */
static FILE *py_w, *py_r;

static void
oracle_fail(const char *what, const char *arg)
{
	/* the machinery failed, not the property: take the whole driver down
	 * so that vcheck reports a driver failure (exit 2) */
	fprintf(stderr, "c07_tz: oracle failure: %s %s\n", what, arg ? arg : "");
	fflush(stderr);
	kill(getppid(), SIGTERM);
	_exit(3);
}

static void
py_start(void)
{
	int a[2], b[2];
	const char *script = vd_opt("oracle", NULL);
	pid_t p;

	if (py_w != NULL) {
		return;
	}
	if (script == NULL) {
		script = access("harness/ref/tzif_oracle.py", R_OK) == 0
			? "harness/ref/tzif_oracle.py" : "/verif/harness/ref/tzif_oracle.py";
	}
	if (pipe(a) < 0 || pipe(b) < 0 || (p = fork()) < 0) {
		oracle_fail("cannot start", script);
	}
	if (p == 0) {
		dup2(a[0], 0), dup2(b[1], 1);
		close(a[0]), close(a[1]), close(b[0]), close(b[1]);
		prctl(PR_SET_PDEATHSIG, SIGKILL);
		execlp("python3", "python3", script, "--tzdir", TZDIR, "--serve", (char*)NULL);
		_exit(127);
	}
	close(a[0]), close(b[1]);
	py_w = fdopen(a[1], "w");
	py_r = fdopen(b[0], "r");
}

struct lines_s {
	char **l;
	size_t n;
};

static void
free_lines(struct lines_s *x)
{
	for (size_t i = 0; i < x->n; i++) {
		free(x->l[i]);
	}
	free(x->l);
	x->l = NULL, x->n = 0;
}

static struct lines_s
py_req(const char *req)
{
	struct lines_s res = {NULL, 0};
	size_t cap = 0;
	char *ln = NULL;
	size_t lz = 0;
	ssize_t nrd;

	py_start();
	fprintf(py_w, "%s\n", req);
	fflush(py_w);
	while ((nrd = getline(&ln, &lz, py_r)) > 0) {
		ln[--nrd] = '\0';
		if (!strcmp(ln, "end")) {
			free(ln);
			return res;
		} else if (!strncmp(ln, "error", 5)) {
			oracle_fail(ln, NULL);
		}
		if (res.n >= cap) {
			res.l = realloc(res.l, (cap = cap ? 2 * cap : 1024) * sizeof(*res.l));
		}
		res.l[res.n++] = strdup(ln);
	}
	oracle_fail("no answer to", req);
	return res;
}

/* vd_next() looks at the deadline only on every 256th beat; cases are few and long here */
static int
c07_next(void)
{
	if (vd_deadline > 0 && vd_only < 0 && vd_now() > vd_deadline) {
		vd_sh->capped = 1;
	}
	return vd_next();
}

/* --------------------------------------------------------------- zones */
static char **znames;
static size_t nzones;

static void
load_zones(void)
{
	char req[64];
	struct lines_s ls;

	snprintf(req, sizeof(req), "zones %s", vd_opt("tier", "quick"));
	ls = py_req(req);
	znames = calloc(ls.n + 1, sizeof(*znames));
	nzones = 0;
	for (size_t i = 0; i < ls.n; i++) {
		char nm[256];
		if (sscanf(ls.l[i], "Z %255s", nm) == 1) {
			znames[nzones++] = strdup(nm);
		}
	}
	free_lines(&ls);
	if (!nzones) {
		oracle_fail("empty zone list", NULL);
	}
}

/* per-case fork: fresh tzob tables and zone caches for every case */
static void
run_forked(void (*fn)(void*), void *arg)
{
	pid_t p;
	int st;

	fflush(stdout);
	fflush(stderr);
	if ((p = fork()) < 0) {
		perror("fork");
		_exit(4);
	} else if (p == 0) {
		prctl(PR_SET_PDEATHSIG, SIGKILL);
		signal(SIGVTALRM, hg_alarm);
		fn(arg);
		fflush(stdout);
		_exit(0);
	}
	while (waitpid(p, &st, 0) < 0 && errno == EINTR);
	if (WIFSIGNALED(st)) {
		signal(WTERMSIG(st), SIG_DFL);
		raise(WTERMSIG(st));
		_exit(98);
	} else if (WEXITSTATUS(st)) {
		_exit(WEXITSTATUS(st));
	}
}

/* ================================================================ conv */
struct probe_s {
	char t;		/* 'U' or 'L' */
	char cls;	/* o(k) g(ap) f(old) */
	long a;		/* the probe second (utc for U, wall clock for L) */
	long u;		/* L: its utc when unambiguous */
	int off;	/* U: expected offset */
	int k;		/* index of the governing 32-bit transition */
	char kind[6];
};

static struct probe_s *pr;
static size_t npr;
static long z_ntr, z_first, z_last;
static const char *zname;
static int order;
enum {ORD_ISO, ORD_DESC, ORD_ASC, ORD_ZIGZAG, NORD};
static const char *const ordname[] = {"iso", "desc", "asc", "zigzag"};
static int hist_early;

static void
load_conv(const char *zn)
{
	char req[300];
	struct lines_s ls;

	snprintf(req, sizeof(req), "conv %s", zn);
	ls = py_req(req);
	free(pr);
	pr = calloc(ls.n + 1, sizeof(*pr));
	npr = 0;
	z_ntr = 0, z_first = z_last = 0;
	for (size_t i = 0; i < ls.n; i++) {
		struct probe_s *p = pr + npr;
		char c1[24], c2[24];
		const char *l = ls.l[i];

		if (l[0] == 'H') {
			long nb;
			if (sscanf(l, "H %ld %23s %23s %ld", &z_ntr, c1, c2, &nb) != 4) {
				oracle_fail("bad line", l);
			}
			z_first = z_ntr ? atol(c1) : 0;
			z_last = z_ntr ? atol(c2) : 0;
		} else if (l[0] == 'U') {
			if (sscanf(l, "U %ld %d %d %5s %23s", &p->a, &p->off, &p->k, p->kind, c1) != 5) {
				oracle_fail("bad line", l);
			}
			p->t = 'U', p->cls = c1[0], npr++;
		} else if (l[0] == 'L') {
			if (sscanf(l, "L %ld %23s %23s %d %5s", &p->a, c1, c2, &p->k, p->kind) != 5) {
				oracle_fail("bad line", l);
			}
			p->t = 'L', p->cls = c1[0], p->u = c1[0] == 'o' ? atol(c2) : 0, npr++;
		} else {
			oracle_fail("bad line", l);
		}
	}
	free_lines(&ls);
}

static int
bound_p(const struct probe_s *p)
{
	return strcmp(p->kind, "mid") && strcmp(p->kind, "mon") && strcmp(p->kind, "fix");
}

static const char*
posclass(const struct probe_s *p, char *buf)
{
	const char *s;
	if (bound_p(p)) {
		/* h. = the head of the table: everything that touches the time before
		 * the second transition */
		s = p->k == -2 ? "only64"
			: z_ntr == 1 ? "h.only"
			: p->k == 0 ? "h.first"
			: p->k == 1 ? "h.second"
			: p->k == z_ntr - 1 ? "last" : "inner";
	} else {
		s = !z_ntr ? "notrans"
			: p->k < 0 ? "h.before-first"
			: p->k == 0 ? "h.first-interval"
			: p->k == z_ntr - 1 ? "after-last" : "inner";
	}
	snprintf(buf, 24, "%s%s", s, p->k >= 256 ? "256" : "");
	return buf;
}

static const char*
sideclass(const struct probe_s *p, char *buf)
{
	if (!bound_p(p)) {
		snprintf(buf, 24, "%s-free", p->t == 'U' ? "utc" : "loc");
	} else {
		const char *d = p->kind + 1;
		snprintf(buf, 24, "%s%s", p->t == 'U' ? "utc" : p->kind[0] == 'b' ? "loc-before" : "loc-after",
			 d[0] == '0' ? "@t" : "");
	}
	return buf;
}

static const char*
eraclass(long t)
{
	return t < 0 ? "pre1970" : "post1970";
}

static const char*
mksig(char *sig, const char *clause, const struct probe_s *p, long input)
{
	char b1[24], b2[24];
	snprintf(sig, VD_SIGLEN, "%s/%s/%s/%s/%s/%s", clause, posclass(p, b1), sideclass(p, b2),
		 monclass(input), eraclass(input), order == ORD_ISO ? "iso" : hist_early ? "seq-dirty" : "seq-clean");
	return sig;
}

static void
probe_desc(const struct probe_s *p)
{
	char b[24];
	vd_desc("zone %s (%ld transitions in the 32-bit table) order %s: probe %c %s (%ld) kind %s, transition #%d",
		zname, z_ntr, ordname[order], p->t, tstr(b, p->a), p->a, p->kind, p->k);
}

static void
do_probe(echs_tzob_t z, const struct probe_s *p)
{
	char sig[VD_SIGLEN], b1[24], b2[24], b3[24];
	struct call_s c = {.z = z};

	if (p->t == 'U') {
		const long u = p->a;
		int loc_ok = 0;

		/* UTC -> local, always */
		c.i = mkinst(u);
		vd_sh->evals++;
		if (guarded(c_loc, &c)) {
			probe_desc(p);
			vd_viol(mksig(sig, "hang-loc", p, u), "%s: echs_instant_loc(%sZ) does not return", zname, tstr(b1, u));
		} else if (!inst_is(c.r, u + p->off)) {
			probe_desc(p);
			vd_viol(mksig(sig, "loc", p, u), "%s: echs_instant_loc(%sZ) = %s, zoneinfo says %s (offset %d)",
				zname, tstr(b1, u), inst_str(b2, sizeof(b2), c.r), tstr(b3, u + p->off), p->off);
		} else {
			loc_ok = 1;
		}
		/* offset at I + X */
		for (int x = -1; x <= 1; x++) {
			c.i = mkinst(u - x);
			c.x = x;
			vd_sh->evals++;
			if (guarded(c_offs, &c)) {
				probe_desc(p);
				vd_viol(mksig(sig, x ? "hang-offs-x" : "hang-offs", p, u),
					"%s: echs_tzob_offs(%sZ, %+d) does not return", zname, tstr(b1, u - x), x);
			} else if (c.ri != p->off) {
				probe_desc(p);
				vd_viol(mksig(sig, x ? "offs-x" : "offs", p, u), "%s: echs_tzob_offs(%sZ, %+d) = %d, zoneinfo says %d",
					zname, tstr(b1, u - x), x, c.ri, p->off);
			}
		}
		/* and back, where the local image is unambiguous */
		if (loc_ok && p->cls == 'o') {
			c.i = mkinst(u + p->off);
			vd_sh->evals++;
			if (guarded(c_utc, &c)) {
				probe_desc(p);
				vd_viol(mksig(sig, "hang-roundtrip", p, u), "%s: echs_instant_utc(loc(%sZ) = %s) does not return",
					zname, tstr(b1, u), tstr(b2, u + p->off));
			} else if (!inst_is(c.r, u)) {
				probe_desc(p);
				vd_viol(mksig(sig, "roundtrip", p, u), "%s: utc(loc(%sZ) = %s) = %s",
					zname, tstr(b1, u), tstr(b2, u + p->off), inst_str(b3, sizeof(b3), c.r));
			}
		}
	} else {
		const long l = p->a;
		echs_instant_t y;

		c.i = mkinst(l);
		vd_sh->evals++;
		if (guarded(c_utc, &c)) {
			probe_desc(p);
			vd_viol(mksig(sig, "hang-utc", p, l), "%s: echs_instant_utc(%s local, %s) does not return", zname, tstr(b1, l),
				p->cls == 'o' ? "unambiguous" : p->cls == 'g' ? "in a gap" : "in a fold");
			return;
		}
		y = c.r;
		if (p->cls == 'o') {
			if (!inst_is(y, p->u)) {
				probe_desc(p);
				vd_viol(mksig(sig, "utc", p, l), "%s: echs_instant_utc(%s local) = %sZ, zoneinfo says %sZ (offset %ld)",
					zname, tstr(b1, l), inst_str(b2, sizeof(b2), y), tstr(b3, p->u), l - p->u);
			}
			return;
		}
		/* gap or fold: not judged one way, but loc(utc(x)) must be a fixed point of loc.utc */
		{
			echs_instant_t pp;
			vd_sh->evals++;
			c.i = y;
			if (guarded(c_loc, &c)) {
				probe_desc(p);
				vd_viol(mksig(sig, "hang-fixpoint", p, l), "%s: loc(utc(%s local)) does not return", zname, tstr(b1, l));
				return;
			}
			pp = c.r;
			c.i = pp;
			if (guarded(c_utc, &c)) {
				probe_desc(p);
				vd_viol(mksig(sig, "hang-fixpoint", p, l), "%s: utc(loc(utc(%s local))) does not return", zname, tstr(b1, l));
				return;
			}
			c.i = c.r;
			if (guarded(c_loc, &c)) {
				probe_desc(p);
				vd_viol(mksig(sig, "hang-fixpoint", p, l), "%s: loc(utc(loc(utc(%s local)))) does not return", zname, tstr(b1, l));
				return;
			}
			if (inst_epoch(c.r) != inst_epoch(pp)) {
				probe_desc(p);
				vd_viol(mksig(sig, "fixpoint", p, l), "%s: x = %s local (%s): p = loc(utc(x)) = %s but loc(utc(p)) = %s",
					zname, tstr(b1, l), p->cls == 'g' ? "gap" : "fold", inst_str(b2, sizeof(b2), pp), inst_str(b3, sizeof(b3), c.r));
			}
		}
	}
}

struct iso_s {
	echs_tzob_t z;
	const struct probe_s *p;
};

static void
iso_probe(void *arg)
{
	struct iso_s *x = arg;
	do_probe(x->z, x->p);
}

/* input shapes after which the zone's range cache is known to be stuck on the pinned tree
 * (see triage/C07.md): a first lookup before 1970 or before the second transition, a lookup before
 * the first transition, a January/February lookup in the table's last year */
static int
dirties(const struct probe_s *p, int firstp, long early_lim)
{
	return (firstp && (p->a < 0 || p->k <= 1)) || p->a < early_lim || (p->a >= 2114380800L && p->a < 2119478400L + 86400);
}

static void
conv_case(void *unused)
{
	echs_tzob_t z = echs_tzob(zname, strlen(zname));
	size_t nearly = 0;
	const long early_lim = z_ntr ? z_first + 2 * 86400 : -0x7fffffffL - 1;

	(void)unused;
	hist_early = 0;
	/* probes are chronological; the leading ones that look before the first transition */
	while (nearly < npr && pr[nearly].a < early_lim) {
		nearly++;
	}
	for (size_t j = 0; j < npr; j++) {
		size_t i;
		switch (order) {
		case ORD_DESC:
			i = npr - 1 - j;
			break;
		case ORD_ISO:
		case ORD_ASC:
			i = j;
			break;
		default: {
			/* zigzag over everything at or after the first transition, then the early ones */
			size_t m = npr - nearly;
			if (j < m) {
				i = nearly + ((j & 1) ? m - 1 - j / 2 : j / 2);
			} else {
				i = j - m;
			}
			break;
		}
		}
		if (order == ORD_ISO) {
			/* every probe on a zone opened for it alone */
			struct iso_s x = {z, pr + i};
			run_forked(iso_probe, &x);
			if (bound_p(pr + i)) {
				vd_nontrivial();
			}
		} else {
			do_probe(z, pr + i);
			hist_early |= dirties(pr + i, j == 0, early_lim);
		}
		if (!(j & 0xff)) {
			vd_beat();
		}
	}
	{
		char nm[40];
		snprintf(nm, sizeof(nm), "probes_%s", ordname[order]);
		vd_count(nm, (long)npr);
	}
}

static void
enum_conv(void)
{
	size_t loaded = (size_t)-1;

	load_zones();
	for (size_t zi = 0; zi < nzones; zi++) {
		for (order = 0; order < NORD; order++) {
			if (!c07_next()) {
				continue;
			}
			if (order == ORD_ISO && !strcmp(vd_opt("orders", "all"), "seq")) {
				/* the isolated pass forks per probe: left out of the sanitizer variant */
				continue;
			}
			zname = znames[zi];
			vd_shape("conv/%s", ordname[order]);
			vd_desc("zone %s order %s", zname, ordname[order]);
			if (loaded != zi) {
				load_conv(zname);
				loaded = zi;
			}
			if (order == ORD_ISO) {
				vd_count("zones_conv", 1);
				vd_count("transitions_32bit", z_ntr);
			}
			if (zi % 7 == 0 && order == ORD_ISO) {
				vd_sample("zone %s: %ld transitions in the 32-bit table, %zu probes, each alone and in 3 visiting orders (first probe %c %ld %s)",
					  zname, z_ntr, npr, pr[0].t, pr[0].a, pr[0].kind);
			}
			run_forked(conv_case, NULL);
		}
	}
}

/* ================================================================ rule */
struct exp_s {
	char cls;
	long l;
	long u[4];
	int nu;
};

static struct lines_s rl;

/* class of the DTSTART: its wall-clock time exists once (plain), and then whether its UTC calendar
 * day is another one than its local calendar day (utcday-shifted), or it is in a fold or a gap */
static const char *dtclass, *sermon, *serera;

static const char*
rule_sig(char *sig, const char *what, const char *freq, int k, const char *kind, long l)
{
	struct probe_s p = {.t = 'L', .k = k};
	char b1[24], b2[24];
	snprintf(p.kind, sizeof(p.kind), "%s", kind);
	snprintf(sig, VD_SIGLEN, "rule-occurrence/%s/%s/%s/%s/%s/%s/dtstart=%s", what, freq, posclass(&p, b1), sideclass(&p, b2),
		 sermon, serera, dtclass);
	(void)l;
	return sig;
}

struct ev_s {
	const char *text;
	echs_task_t t;
	echs_evstrm_t s;
	echs_event_t e;
};

static void c_parse(void *p) { struct ev_s *x = p; x->t = ical_task1(x->text); }
static void c_pop(void *p) { struct ev_s *x = p; x->e = echs_evstrm_pop(x->s); }

struct rev_s {
	char freq[16], kind[8];
	int cnt, k, ti, nex;
	long l0;
	struct exp_s ex[16];
};

/* one event, in a process of its own (as `echse unroll' of a one-event file) */
static void
rule_event(void *arg)
{
	const struct rev_s *r = arg;
	char text[1024], lines[512], dts[24], sig[VD_SIGLEN], b1[24], b2[24], b3[24];
	struct ev_s ev = {0};
	long got[20];
	int ngot = 0;

	dtclass = r->ex[0].cls == 'g' ? "gap" : r->ex[0].cls == 'f' ? "fold"
		: floordiv(r->ex[0].l, 86400) != floordiv(r->ex[0].u[0], 86400) ? "utcday-shifted" : "plain";
	/* month and era class of the whole series: the stream computes its occurrences in batches */
	sermon = "mar-dec", serera = "post1970";
	for (int j = 0; j < r->nex; j++) {
		if (!strcmp(monclass(r->ex[j].l), "jan-feb")) {
			sermon = "jan-feb";
		}
		if (r->ex[j].l < 86400) {
			serera = "pre1970";
		}
	}
	snprintf(lines, sizeof(lines), "DTSTART;TZID=%s:%s\nRRULE:FREQ=%s;COUNT=%d\n", zname, tstr(dts, r->l0), r->freq, r->cnt);
	ical_wrap(text, sizeof(text), "c07@verif", lines);
	vd_desc("zone %s: DTSTART;TZID=%s:%s RRULE:FREQ=%s;COUNT=%d (occurrence #%d on the %s side of 32-bit transition #%d)",
		zname, zname, dts, r->freq, r->cnt, r->ti + 1, r->kind, r->k);
	ev.text = text;
	if (guarded(c_parse, &ev)) {
		vd_viol(rule_sig(sig, "hang-parse", r->freq, r->k, r->kind, r->l0), "parsing/instantiating the event does not return");
		return;
	} else if (ev.t == NULL || ev.t->strm == NULL) {
		vd_viol(rule_sig(sig, "no-task", r->freq, r->k, r->kind, r->l0), "parser produced no task/stream");
		return;
	}
	ev.s = ev.t->strm;
	while (ngot < r->cnt + 2) {
		if (guarded(c_pop, &ev)) {
			vd_viol(rule_sig(sig, "hang-pop", r->freq, r->k, r->kind, r->ex[ngot < r->nex ? ngot : r->nex - 1].l),
				"echs_evstrm_pop does not return after %d occurrences", ngot);
			return;
		} else if (echs_nul_instant_p(ev.e.from)) {
			break;
		}
		got[ngot++] = inst_epoch(ev.e.from);
	}
	if (r->ex[0].cls == 'g') {
		/* a DTSTART that does not exist: RFC 5545 moves that instance across the gap, and whether
		 * the series then keeps the stated or the moved wall-clock time is read both ways: only
		 * termination is judged */
		vd_count("events_gap_dtstart_unjudged", 1);
		return;
	}
	for (int j = 0, g = 0; j < r->nex; j++) {
		const struct exp_s *x = r->ex + j;
		if (x->cls == 'o') {
			const char *rel = j < r->ti ? "before" : j == r->ti ? "at" : "after";
			if (g < ngot && got[g] == x->u[0]) {
				g++;
				continue;
			}
			if (g < ngot) {
				vd_viol(rule_sig(sig, "wrong-utc", r->freq, r->k, r->kind, x->l),
					"occurrence #%d (%s local, %s the probed one): stream gives %sZ, zoneinfo says %sZ (offset %ld)",
					j + 1, tstr(b1, x->l), rel, tstr(b2, got[g]), tstr(b3, x->u[0]), x->l - x->u[0]);
			} else {
				vd_viol(rule_sig(sig, "missing", r->freq, r->k, r->kind, x->l),
					"occurrence #%d (%s local = %sZ, %s the probed one) missing: stream ended after %d",
					j + 1, tstr(b1, x->l), tstr(b2, x->u[0]), rel, ngot);
			}
			return;
		} else if (g < ngot) {
			/* gap/fold: either reading, any other rendering, or dropping it: not judged */
			int hit = 0, later = 0;
			for (int a = 0; a < x->nu; a++) {
				hit |= got[g] == x->u[a];
			}
			for (int jj = j + 1; jj < r->nex && !hit; jj++) {
				for (int a = 0; a < r->ex[jj].nu; a++) {
					later |= got[g] == r->ex[jj].u[a];
				}
			}
			if (hit || !later) {
				g++;
			}
		}
	}
}

static void
rule_case(void *unused)
{
	long nev = 0, nspan = 0;

	(void)unused;
	for (size_t i = 0; i < rl.n;) {
		struct rev_s r;
		int span = 0;
		char b1[24], b2[24];

		if (rl.l[i][0] != 'E') {
			i++;
			continue;
		}
		if (sscanf(rl.l[i], "E %15s %d %ld %d %7s %d", r.freq, &r.cnt, &r.l0, &r.k, r.kind, &r.ti) != 6) {
			oracle_fail("bad line", rl.l[i]);
		}
		r.nex = 0;
		for (i++; i < rl.n && rl.l[i][0] == 'O'; i++) {
			char cls[8];
			struct exp_s *x = r.ex + r.nex;
			int n = 0, m;
			const char *s = rl.l[i];
			if (r.nex >= 16 || sscanf(s, "O %7s %ld%n", cls, &x->l, &n) < 2) {
				oracle_fail("bad line", s);
			}
			x->cls = cls[0], x->nu = 0;
			for (s += n; x->nu < 4 && sscanf(s, "%ld%n", &x->u[x->nu], &m) == 1; s += m, x->nu++);
			r.nex++;
		}
		for (int j = 1; j < r.nex; j++) {
			if (r.ex[j].cls == 'o' && r.ex[0].cls == 'o' && r.ex[j].l - r.ex[j].u[0] != r.ex[0].l - r.ex[0].u[0]) {
				span = 1;
			}
		}
		vd_sh->evals++;
		nev++;
		nspan += span;
		if (span) {
			vd_nontrivial();
		}
		if (nev % 97 == 1) {
			vd_sample("zone %s DTSTART;TZID=%s:%s RRULE:FREQ=%s;COUNT=%d expecting %d occurrences, first %sZ%s",
				  zname, zname, tstr(b2, r.l0), r.freq, r.cnt, r.nex, r.ex[0].cls == 'o' ? tstr(b1, r.ex[0].u[0]) : "(gap/fold) ",
				  span ? ", UTC offset changes inside" : "");
		}
		run_forked(rule_event, &r);
		if (!(nev & 0xf)) {
			vd_beat();
		}
	}
	vd_count("events", nev);
	vd_count("events_spanning_offset_change", nspan);
}

static void
enum_rule(void)
{
	load_zones();
	for (size_t zi = 0; zi < nzones; zi++) {
		char req[300];
		if (!c07_next()) {
			continue;
		}
		zname = znames[zi];
		vd_shape("rule");
		vd_desc("zone %s", zname);
		snprintf(req, sizeof(req), "conv %s", zname);
		/* the H line gives the table size for the position classes */
		{
			struct lines_s h = py_req(req);
			z_ntr = 0;
			if (h.n) {
				sscanf(h.l[0], "H %ld", &z_ntr);
			}
			free_lines(&h);
		}
		snprintf(req, sizeof(req), "rule %s", zname);
		free_lines(&rl);
		rl = py_req(req);
		vd_count("zones_rule", 1);
		run_forked(rule_case, NULL);
	}
}

/* ============================================================= rewrite */
/* A zoned event keeps its instants when it goes through the project's own iCalendar writer and is parsed again: that is
 * what happens to every task on its way into the daemon (echsq add writes it with echs_task_icalify), in the daemon's
 * checkpoint file and in `echse merge'.  The events are those of mode=rule, the expected instants are zoneinfo's for the
 * stated wall-clock times (the same oracle lines); an event whose directly read stream already departs from them is
 * mode=rule's to report and is left out here (counted). */
static const char *const rwform[] = {"echsq", "echsd"};

/* compare GOT[0..NGOT) with the expected occurrences; -1 all right, else the index of the first expected one that fails */
static int
rw_judge(const struct rev_s *r, const long *got, int ngot, int *gpos)
{
	int g = 0;
	for (int j = 0; j < r->nex; j++) {
		const struct exp_s *x = r->ex + j;
		if (x->cls == 'o') {
			if (g < ngot && got[g] == x->u[0]) {
				g++;
				continue;
			}
			*gpos = g;
			return j;
		} else if (g < ngot) {
			int hit = 0, later = 0;
			for (int a = 0; a < x->nu; a++) {
				hit |= got[g] == x->u[a];
			}
			for (int jj = j + 1; jj < r->nex && !hit; jj++) {
				for (int a = 0; a < r->ex[jj].nu; a++) {
					later |= got[g] == r->ex[jj].u[a];
				}
			}
			if (hit || !later) {
				g++;
			}
		}
	}
	*gpos = g;
	return -1;
}

static int
rw_read(struct ev_s *ev, long *got, int max)
{
	int n = 0;
	while (n < max) {
		if (guarded(c_pop, ev)) {
			return -1;
		} else if (echs_nul_instant_p(ev->e.from)) {
			break;
		}
		got[n++] = inst_epoch(ev->e.from);
	}
	return n;
}

static void
rw_event(void *arg)
{
	const struct rev_s *r = arg;
	static char text[1024], back[2][8192];
	char lines[512], dts[24], sig[VD_SIGLEN], b1[24], b2[24], b3[24];
	struct ev_s ev = {0};
	long got[20];
	ssize_t bn[2];
	int ngot, g;

	if (r->ex[0].cls != 'o') {
		/* a DTSTART in a gap or fold: what the writer makes of it is not judged */
		vd_count("rewrite_gap_or_fold_dtstart_unjudged", 1);
		return;
	}
	snprintf(lines, sizeof(lines), "DTSTART;TZID=%s:%s\nRRULE:FREQ=%s;COUNT=%d\n", zname, tstr(dts, r->l0), r->freq, r->cnt);
	ical_wrap(text, sizeof(text), "c07@verif", lines);
	vd_desc("zone %s: DTSTART;TZID=%s:%s RRULE:FREQ=%s;COUNT=%d written with echs_task_icalify and parsed again", zname, zname, dts, r->freq, r->cnt);
	ev.text = text;
	if (guarded(c_parse, &ev) || ev.t == NULL || ev.t->strm == NULL) {
		/* mode=rule reports that */
		return;
	}
	for (int f = 0; f < 2; f++) {
		bn[f] = c05_seria(back[f], sizeof(back[f]), &ev.t, 1, f);
	}
	ev.s = ev.t->strm;
	ngot = rw_read(&ev, got, r->cnt + 2);
	if (ngot < 0 || rw_judge(r, got, ngot, &g) >= 0 || ngot > g) {
		vd_count("rewrite_direct_stream_already_off", 1);
		return;
	}
	for (int f = 0; f < 2; f++) {
		struct ev_s e2 = {0};
		char dtline[120] = "";
		int j;

		vd_sh->evals++;
		if (bn[f] <= 0) {
			snprintf(sig, sizeof(sig), "rewrite/nothing-written/%s/%s", r->freq, rwform[f]);
			vd_viol(sig, "the writer gave no text");
			continue;
		}
		{
			const char *q = strstr(back[f], "DTSTART");
			if (q != NULL) {
				snprintf(dtline, sizeof(dtline), "%.*s", (int)strcspn(q, "\r\n"), q);
			}
		}
		e2.text = back[f];
		if (guarded(c_parse, &e2)) {
			snprintf(sig, sizeof(sig), "rewrite/hang-parse/%s/%s", r->freq, rwform[f]);
			vd_viol(sig, "parsing the written text (%s) does not return", dtline);
			continue;
		} else if (e2.t == NULL || e2.t->strm == NULL) {
			snprintf(sig, sizeof(sig), "rewrite/no-task/%s/%s", r->freq, rwform[f]);
			vd_viol(sig, "the written text (%s) gives no task/stream", dtline);
			continue;
		}
		e2.s = e2.t->strm;
		ngot = rw_read(&e2, got, r->cnt + 2);
		if (ngot < 0) {
			snprintf(sig, sizeof(sig), "rewrite/hang-pop/%s/%s", r->freq, rwform[f]);
			vd_viol(sig, "echs_evstrm_pop on the re-read event (%s) does not return", dtline);
			continue;
		}
		if ((j = rw_judge(r, got, ngot, &g)) >= 0) {
			const struct exp_s *x = r->ex + j;
			const int span = x->l - x->u[0] != r->ex[0].l - r->ex[0].u[0];
			if (g < ngot) {
				snprintf(sig, sizeof(sig), "rewrite/wrong-utc/%s/%s/%s", r->freq, rwform[f],
					 j == 0 ? "first" : span ? "other-offset-than-dtstart" : "same-offset-as-dtstart");
				vd_viol(sig, "written as `%s' and parsed again: occurrence #%d (%s local): stream gives %sZ, zoneinfo says %sZ (offset %ld); read directly the event is right",
					dtline, j + 1, tstr(b1, x->l), tstr(b2, got[g]), tstr(b3, x->u[0]), x->l - x->u[0]);
			} else {
				snprintf(sig, sizeof(sig), "rewrite/missing/%s/%s", r->freq, rwform[f]);
				vd_viol(sig, "written as `%s' and parsed again: occurrence #%d (%s local = %sZ) missing: stream ended after %d; read directly the event is right",
					dtline, j + 1, tstr(b1, x->l), tstr(b2, x->u[0]), ngot);
			}
		} else if (ngot > g) {
			snprintf(sig, sizeof(sig), "rewrite/extra/%s/%s", r->freq, rwform[f]);
			vd_viol(sig, "written as `%s' and parsed again: %d occurrences, %d expected (the first beyond is %sZ)", dtline, ngot, g, tstr(b1, got[g]));
		}
	}
}

static void
rewrite_case(void *unused)
{
	long nev = 0;

	(void)unused;
	for (size_t i = 0; i < rl.n;) {
		struct rev_s r;
		int span = 0;
		char b1[24], b2[24];

		if (rl.l[i][0] != 'E') {
			i++;
			continue;
		}
		if (sscanf(rl.l[i], "E %15s %d %ld %d %7s %d", r.freq, &r.cnt, &r.l0, &r.k, r.kind, &r.ti) != 6) {
			oracle_fail("bad line", rl.l[i]);
		}
		r.nex = 0;
		for (i++; i < rl.n && rl.l[i][0] == 'O'; i++) {
			char cls[8];
			struct exp_s *x = r.ex + r.nex;
			int n = 0, m;
			const char *s = rl.l[i];
			if (r.nex >= 16 || sscanf(s, "O %7s %ld%n", cls, &x->l, &n) < 2) {
				oracle_fail("bad line", s);
			}
			x->cls = cls[0], x->nu = 0;
			for (s += n; x->nu < 4 && sscanf(s, "%ld%n", &x->u[x->nu], &m) == 1; s += m, x->nu++);
			r.nex++;
		}
		for (int j = 1; j < r.nex; j++) {
			if (r.ex[j].cls == 'o' && r.ex[0].cls == 'o' && r.ex[j].l - r.ex[j].u[0] != r.ex[0].l - r.ex[0].u[0]) {
				span = 1;
			}
		}
		nev++;
		/* non-trivial: the zone is off UTC at DTSTART (the written local time differs from the UTC one) or the offset changes inside */
		if (span || (r.ex[0].cls == 'o' && r.ex[0].l != r.ex[0].u[0])) {
			vd_nontrivial();
		}
		if (nev % 197 == 1) {
			vd_sample("zone %s DTSTART;TZID=%s:%s RRULE:FREQ=%s;COUNT=%d written in both forms, parsed again, expecting %d occurrences, first %sZ%s",
				  zname, zname, tstr(b2, r.l0), r.freq, r.cnt, r.nex, r.ex[0].cls == 'o' ? tstr(b1, r.ex[0].u[0]) : "(gap/fold) ",
				  span ? ", UTC offset changes inside" : "");
		}
		run_forked(rw_event, &r);
		if (!(nev & 0xf)) {
			vd_beat();
		}
	}
	vd_count("rewrite_events", nev);
}

static void
enum_rewrite(void)
{
	load_zones();
	for (size_t zi = 0; zi < nzones; zi++) {
		char req[300];
		if (!c07_next()) {
			continue;
		}
		zname = znames[zi];
		vd_shape("rewrite");
		vd_desc("zone %s", zname);
		snprintf(req, sizeof(req), "rule %s", zname);
		free_lines(&rl);
		rl = py_req(req);
		vd_count("zones_rewrite", 1);
		run_forked(rewrite_case, NULL);
	}
}

/* =============================================================== cache */
static const char *const cz_cand[] = {
	"Pacific/Honolulu", "America/Anchorage", "America/Los_Angeles", "America/Denver", "America/Chicago",
	"America/New_York", "America/Halifax", "America/St_Johns", "America/Noronha", "Atlantic/Azores",
	"Europe/London", "Europe/Berlin", "Europe/Helsinki", "Asia/Tehran", "Asia/Dubai", "Asia/Kabul",
	"Asia/Karachi", "Asia/Kolkata", "Asia/Kathmandu", "Asia/Dhaka", "Asia/Bangkok", "Asia/Shanghai",
	"Asia/Tokyo", "Australia/Adelaide", "Australia/Sydney", "Pacific/Auckland", "Pacific/Chatham",
};
/* 2024-07-15, 2023-11-15, 1999-04-15, all 12:00Z: away from Jan/Feb and from every transition */
static const long cu[3] = {1721044800L, 1700049600L, 924177600L};

struct cz_s {
	const char *name;
	int off[3];
	char cls[3];
};
static struct cz_s cz[80];
static int ncz;

static int
cz_fetch(struct cz_s *c, const char *name)
{
	char req[400];
	struct lines_s ls;
	int ok = 0;

	snprintf(req, sizeof(req), "fix %s %ld %ld %ld", name, cu[0], cu[1], cu[2]);
	ls = py_req(req);
	if (ls.n == 3) {
		c->name = name;
		for (int i = 0; i < 3; i++) {
			long u;
			int k;
			char kind[8], cl[8];
			ok += sscanf(ls.l[i], "U %ld %d %d %7s %7s", &u, &c->off[i], &k, kind, cl) == 5;
			c->cls[i] = cl[0];
		}
	}
	free_lines(&ls);
	return ok == 3;
}

/* one access: the op and the instant rotate with the access counter */
static int
cz_access(echs_tzob_t z, const struct cz_s *c, long cntr, char *why, size_t wz)
{
	int wi = (int)((cntr / 3) % 3), op = (int)(cntr % 3);
	long u = cu[wi];
	struct call_s cl = {.z = z};
	char b1[24], b2[24], b3[24];

	vd_sh->evals++;
	if (op == 1 && c->cls[wi] != 'o') {
		op = 0;
	}
	switch (op) {
	case 0:
		cl.i = mkinst(u);
		if (guarded(c_loc, &cl)) {
			snprintf(why, wz, "echs_instant_loc(%sZ, %s) does not return", tstr(b1, u), c->name);
			return -1;
		} else if (!inst_is(cl.r, u + c->off[wi])) {
			snprintf(why, wz, "echs_instant_loc(%sZ, %s) = %s, zoneinfo says %s", tstr(b1, u), c->name,
				 inst_str(b2, sizeof(b2), cl.r), tstr(b3, u + c->off[wi]));
			return 1;
		}
		break;
	case 1:
		cl.i = mkinst(u + c->off[wi]);
		if (guarded(c_utc, &cl)) {
			snprintf(why, wz, "echs_instant_utc(%s, %s) does not return", tstr(b1, u + c->off[wi]), c->name);
			return -1;
		} else if (!inst_is(cl.r, u)) {
			snprintf(why, wz, "echs_instant_utc(%s local, %s) = %sZ, zoneinfo says %sZ", tstr(b1, u + c->off[wi]), c->name,
				 inst_str(b2, sizeof(b2), cl.r), tstr(b3, u));
			return 1;
		}
		break;
	default:
		cl.i = mkinst(u);
		cl.x = 0;
		if (guarded(c_offs, &cl)) {
			snprintf(why, wz, "echs_tzob_offs(%sZ, %s) does not return", tstr(b1, u), c->name);
			return -1;
		} else if (cl.ri != c->off[wi]) {
			snprintf(why, wz, "echs_tzob_offs(%s, %sZ) = %d, zoneinfo says %d", c->name, tstr(b1, u), cl.ri, c->off[wi]);
			return 1;
		}
		break;
	}
	return 0;
}

static int seq[256], nseq;
static int cN;
static char ckind[16];
static char cdesc[128];

static void
cache_seq_case(void *unused)
{
	echs_tzob_t z[32] = {0};
	int seen[32] = {0}, rank[32], nseen = 0, told[2] = {0, 0};
	char why[400], sig[VD_SIGLEN];

	(void)unused;
	{
		/* a zone that falls out of the 16-slot cache is opened again on its next use; with few descriptors to
		 * spare a process that forgets to close them is soon refused (--opt nofile=N, 0 = leave the limit) */
		const long nofile = vd_opt_l("nofile", 24);
		if (nofile > 0) {
			struct rlimit rl = {(rlim_t)nofile, (rlim_t)nofile};
			(void)setrlimit(RLIMIT_NOFILE, &rl);
		}
	}
	for (int a = 0; a < nseq; a++) {
		int j = seq[a], late;
		if (!seen[j]) {
			/* interned at first use, as the parser does */
			z[j] = echs_tzob(cz[j].name, strlen(cz[j].name));
			seen[j] = 1;
			rank[j] = ++nseen;
		}
		late = rank[j] > 3;
		if (cz_access(z[j], cz + j, a, why, sizeof(why)) && !told[late]++) {
			/* the class says whether the zone was among the first three TZIDs of the process */
			snprintf(sig, sizeof(sig), "cache-order/zones=%d/%s/%s", cN, ckind, late ? "tzid>=4th" : "tzid<4th");
			vd_viol(sig, "%s: access #%d (zone index %d, the %d. TZID interned): %s", cdesc, a + 1, j, rank[j], why);
		}
	}
}

static int cK, cpath;

static void
cache_k_case(void *unused)
{
	static echs_tzob_t z[80];
	char why[400], sig[VD_SIGLEN], b1[24], b2[24];

	if (cpath < 2) {
		for (int i = 0; i < cK; i++) {
			z[i] = echs_tzob(cz[i].name, strlen(cz[i].name));
		}
		for (int a = 0; a < cK; a++) {
			int i = cpath == 0 ? a : cK - 1 - a;
			if (cz_access(z[i], cz + i, 0, why, sizeof(why))) {
				snprintf(sig, sizeof(sig), "cache-order/tzids=%d/api/%s", cK, i >= 63 ? "tzid>=64th" : i >= 3 ? "tzid>=4th" : "tzid<4th");
				vd_viol(sig, "%d distinct TZIDs interned, the %d-th (%s): %s", cK, i + 1, cz[i].name, why);
			}
		}
		return;
	}
	/* through the parser: K one-event calendars in one process */
	for (int i = 0; i < cK; i++) {
		char text[1024], lines[400];
		struct ev_s ev = {0};
		long l = cu[0] + cz[i].off[0];

		snprintf(lines, sizeof(lines), "DTSTART;TZID=%s:%s\nRRULE:FREQ=DAILY;COUNT=2\n", cz[i].name, tstr(b1, l));
		snprintf(why, sizeof(why), "c07-%d@verif", i);
		ical_wrap(text, sizeof(text), why, lines);
		ev.text = text;
		vd_sh->evals++;
		snprintf(sig, sizeof(sig), "cache-order/tzids=%d/ical/%s", cK, i >= 63 ? "tzid>=64th" : i >= 3 ? "tzid>=4th" : "tzid<4th");
		if (guarded(c_parse, &ev) || ev.t == NULL || ev.t->strm == NULL) {
			vd_viol(sig, "%d distinct TZIDs in one process, event %d (DTSTART;TZID=%s:%s): no task", cK, i + 1, cz[i].name, b1);
			continue;
		}
		ev.s = ev.t->strm;
		if (guarded(c_pop, &ev)) {
			vd_viol(sig, "%d distinct TZIDs in one process, event %d: pop does not return", cK, i + 1);
			continue;
		}
		if (inst_epoch(ev.e.from) != cu[0]) {
			vd_viol(sig, "%d distinct TZIDs in one process, event %d DTSTART;TZID=%s:%s occurs at %sZ, zoneinfo says %sZ",
				cK, i + 1, cz[i].name, b1, inst_str(why, 32, ev.e.from), tstr(b2, cu[0]));
		}
		free_echs_task(ev.t);
	}
}

static void
enum_cache(void)
{
	int n18 = 0;

	/* 18 zones with pairwise distinct offsets at each of the three instants */
	ncz = 0;
	for (size_t i = 0; i < sizeof(cz_cand) / sizeof(*cz_cand) && ncz < 18; i++) {
		struct cz_s c;
		int dup = 0;
		char path[400];
		snprintf(path, sizeof(path), "%s/%s", TZDIR, cz_cand[i]);
		if (access(path, R_OK) || !cz_fetch(&c, cz_cand[i])) {
			continue;
		}
		for (int j = 0; j < ncz; j++) {
			for (int w = 0; w < 3; w++) {
				dup |= cz[j].off[w] == c.off[w];
			}
		}
		if (!dup) {
			cz[ncz++] = c;
		}
	}
	n18 = ncz;
	if (n18 < 18) {
		oracle_fail("fewer than 18 installed zones with distinct offsets", NULL);
	}
	for (cN = 15; cN <= 18; cN++) {
		/* all cyclic orders: start r, stride s, three rounds */
		for (int r = 0; r < cN; r++) {
			for (int s = 1; s < cN; s++) {
				if (!c07_next()) {
					continue;
				}
				nseq = 0;
				for (int a = 0; a < 3 * cN; a++) {
					seq[nseq++] = (r + a * s) % cN;
				}
				snprintf(ckind, sizeof(ckind), "cyclic");
				snprintf(cdesc, sizeof(cdesc), "%d zones, cyclic order start %d stride %d, 3 rounds", cN, r, s);
				vd_shape("cache/cyclic/zones=%d", cN);
				vd_desc("%s; zones are the first %d of: %s ... %s", cdesc, cN, cz[0].name, cz[cN - 1].name);
				if (cN >= 16) {
					vd_nontrivial();
				}
				if (r == 1 && s == cN - 1) {
					vd_sample("%s", cdesc);
				}
				run_forked(cache_seq_case, NULL);
			}
		}
		/* hot zone: one round, zone j H times, one round (makes j overtake its neighbours) */
		for (int j = 0; j < cN; j++) {
			for (int h = 0; h < 2; h++) {
				int H = h ? cN + 3 : 2;
				if (!c07_next()) {
					continue;
				}
				nseq = 0;
				for (int a = 0; a < cN; a++) {
					seq[nseq++] = a;
				}
				for (int a = 0; a < H; a++) {
					seq[nseq++] = j;
				}
				for (int a = 0; a < cN; a++) {
					seq[nseq++] = a;
				}
				snprintf(ckind, sizeof(ckind), "hot");
				snprintf(cdesc, sizeof(cdesc), "%d zones: one round, zone %d (%s) %d times, one round", cN, j, cz[j].name, H);
				vd_shape("cache/hot/zones=%d", cN);
				vd_desc("%s", cdesc);
				vd_nontrivial();
				if (j == 5) {
					vd_sample("%s", cdesc);
				}
				run_forked(cache_seq_case, NULL);
			}
		}
	}
	/* 63 / 64 / 65 distinct TZIDs: the first 65 installed zones (by name) off UTC at 2024-07-15T12:00Z */
	load_zones();
	ncz = 0;
	for (size_t i = 0; i < nzones && ncz < 65; i++) {
		struct cz_s c;
		if (cz_fetch(&c, znames[i]) && c.off[0] != 0 && c.cls[0] == 'o') {
			cz[ncz++] = c;
		}
	}
	for (cK = 63; cK <= 65; cK++) {
		for (cpath = 0; cpath < 3; cpath++) {
			if (!c07_next()) {
				continue;
			}
			vd_shape("cache/tzids=%d", cK);
			vd_desc("one process uses %d distinct TZIDs (%s ... %s), %s", cK, cz[0].name, cz[cK - 1].name,
				cpath == 0 ? "library calls in interning order" : cpath == 1 ? "library calls in reverse order" : "one parsed event each");
			if (ncz < cK) {
				vd_count("tzid_cases_skipped_too_few_zones", 1);
				continue;
			}
			vd_nontrivial();
			vd_sample("%d distinct TZIDs in one process, %s", cK, cpath == 2 ? "one parsed event each" : "library calls");
			run_forked(cache_k_case, NULL);
		}
	}
}

/* =========================================================== transient */
/* A zone whose file cannot be opened at one moment (the process is out of file descriptors) must convert
 * correctly as soon as it can be opened again: sequence (1) zone A in use (or no zone yet), (2) RLIMIT_NOFILE
 * lowered to 0 so that every open(2) answers EMFILE, (3) ONE use of zone B -- result not judged --, (4) limit
 * restored, (5) zone B used 9 times (3 instants x loc / utc / offs): every result must be zoneinfo's; then A
 * again.  path api: library calls; path ical: steps 3 and 5 are one-event calendars read through the parser. */
static int tr_a, tr_b, tr_path, tr_op;

static void
tr_shortage(int on)
{
	static struct rlimit keep;
	if (on) {
		struct rlimit none;
		if (getrlimit(RLIMIT_NOFILE, &keep) < 0) {
			oracle_fail("getrlimit", NULL);
		}
		none = keep;
		none.rlim_cur = 0;
		if (setrlimit(RLIMIT_NOFILE, &none) < 0) {
			oracle_fail("setrlimit", NULL);
		}
	} else if (setrlimit(RLIMIT_NOFILE, &keep) < 0) {
		oracle_fail("setrlimit back", NULL);
	}
}

/* one parsed event DTSTART;TZID=zone:<local of cu[wi]> RRULE:FREQ=DAILY;COUNT=2; 0 ok, 1 wrong, -1 no task / no answer */
static int
tr_event(const struct cz_s *c, int wi, char *why, size_t wz)
{
	char text[1024], lines[400], uid[40], b1[24], b2[24], b3[24];
	struct ev_s ev = {0};
	long l = cu[wi] + c->off[wi];

	snprintf(lines, sizeof(lines), "DTSTART;TZID=%s:%s\nRRULE:FREQ=DAILY;COUNT=2\n", c->name, tstr(b1, l));
	snprintf(uid, sizeof(uid), "c07-tr%d@verif", wi);
	ical_wrap(text, sizeof(text), uid, lines);
	ev.text = text;
	if (guarded(c_parse, &ev) || ev.t == NULL || ev.t->strm == NULL) {
		snprintf(why, wz, "DTSTART;TZID=%s:%s RRULE:FREQ=DAILY;COUNT=2: no task", c->name, b1);
		return -1;
	}
	ev.s = ev.t->strm;
	if (guarded(c_pop, &ev)) {
		snprintf(why, wz, "DTSTART;TZID=%s:%s RRULE:FREQ=DAILY;COUNT=2: pop does not return", c->name, b1);
		return -1;
	}
	if (inst_epoch(ev.e.from) != cu[wi]) {
		snprintf(why, wz, "DTSTART;TZID=%s:%s RRULE:FREQ=DAILY;COUNT=2 occurs at %sZ, zoneinfo says %sZ", c->name, b1,
			 inst_str(b2, sizeof(b2), ev.e.from), tstr(b3, cu[wi]));
		free_echs_task(ev.t);
		return 1;
	}
	free_echs_task(ev.t);
	return 0;
}

static void
transient_case(void *unused)
{
	char why[400], sig[VD_SIGLEN];
	const struct cz_s *A = tr_a >= 0 ? cz + tr_a : NULL, *B = cz + tr_b;
	echs_tzob_t za = 0, zb;
	int nbad = 0;

	(void)unused;
	/* interned in the order of first use, as the parser does */
	if (A != NULL) {
		za = echs_tzob(A->name, strlen(A->name));
		if (cz_access(za, A, 0, why, sizeof(why))) {
			snprintf(sig, sizeof(sig), "transient-open/%s/before-the-shortage", tr_path ? "ical" : "api");
			vd_viol(sig, "zone A before anything happened: %s", why);
			return;
		}
	}
	zb = echs_tzob(B->name, strlen(B->name));
	tr_shortage(1);
	if (tr_path == 0) {
		(void)cz_access(zb, B, tr_op, why, sizeof(why));
		vd_sh->evals--;	/* not compared */
	} else {
		(void)tr_event(B, 0, why, sizeof(why));
	}
	tr_shortage(0);
	/* the shortage is over: everything is judged again */
	for (int a = 0; a < (tr_path ? 3 : 9); a++) {
		int r;
		vd_sh->evals += tr_path;	/* cz_access counts itself */
		r = tr_path ? tr_event(B, a, why, sizeof(why)) : cz_access(zb, B, a, why, sizeof(why));
		if (r && !nbad++) {
			snprintf(sig, sizeof(sig), "transient-open/%s/%s/zone-that-failed-to-open", tr_path ? "ical" : "api", A ? "after-another-zone" : "first-zone");
			vd_viol(sig, "zone %s was first used while open(2) answered EMFILE (RLIMIT_NOFILE 0, result not judged); with the limit restored, use #%d: %s",
				B->name, a + 1, why);
		}
	}
	if (A != NULL) {
		if (cz_access(za, A, 3, why, sizeof(why))) {
			snprintf(sig, sizeof(sig), "transient-open/%s/after-another-zone/zone-in-use-before", tr_path ? "ical" : "api");
			vd_viol(sig, "zone %s was in use before zone %s failed to open once; afterwards: %s", A->name, B->name, why);
		}
	}
}

static void
enum_transient(void)
{
	ncz = 0;
	for (size_t i = 0; i < sizeof(cz_cand) / sizeof(*cz_cand); i++) {
		struct cz_s c;
		char path[400];
		snprintf(path, sizeof(path), "%s/%s", TZDIR, cz_cand[i]);
		if (access(path, R_OK) || !cz_fetch(&c, cz_cand[i])) {
			continue;
		}
		/* off UTC and unambiguous at the three instants, so that "stays on UTC" shows in every operation */
		if (!c.off[0] || !c.off[1] || !c.off[2] || c.cls[0] != 'o' || c.cls[1] != 'o' || c.cls[2] != 'o') {
			continue;
		}
		cz[ncz++] = c;
	}
	if (ncz < 2) {
		oracle_fail("fewer than 2 installed zones off UTC", NULL);
	}
	for (tr_b = 0; tr_b < ncz; tr_b++) {
		for (int wa = 0; wa < 2; wa++) {
			for (int v = 0; v < 4; v++) {
				if (!c07_next()) {
					continue;
				}
				tr_a = wa ? (tr_b + 1) % ncz : -1;
				tr_path = v == 3;
				tr_op = v % 3;
				vd_shape("transient/%s", tr_path ? "ical" : "api");
				vd_desc("%s%s; RLIMIT_NOFILE 0 around the first use of zone %s (%s); limit restored; zone %s used again%s",
					wa ? "zone in use: " : "no zone in use", wa ? cz[tr_a].name : "", cz[tr_b].name,
					tr_path ? "a parsed event" : tr_op == 0 ? "echs_instant_loc" : tr_op == 1 ? "echs_instant_utc" : "echs_tzob_offs",
					cz[tr_b].name, wa ? ", then the first zone" : "");
				vd_nontrivial();
				if (tr_b == 5 && wa) {
					vd_sample("%s", vd_sh->desc);
				}
				vd_count("transient_cases", 1);
				run_forked(transient_case, NULL);
			}
		}
	}
}

/* ============================================================== byhour */
/* Several occurrences per local day: DTSTART;TZID=<zone>:<year>0101T<h1>0000 RRULE:FREQ=DAILY;BYHOUR=h1,h2
 * through one whole year.  Only (zone, year) whose offset at DTSTART is 0 are taken: there BYHOUR=h
 * unambiguously means h o'clock on the zone's wall clock (see propdef, assumptions).  Expected instants:
 * every day of the year x {h1, h2} classified by the oracle (ok / gap / fold), judged as in mode=rule. */
static const int bh_hours[] = {0, 1, 2, 3, 4, 5, 6, 12, 13, 22, 23};
#define BH_NH	((int)(sizeof(bh_hours) / sizeof(*bh_hours)))
/* indices into bh_hours: all pairs of 0..6, then a few later ones */
static int bh_pair[40][2], bh_npair;
static struct exp_s (*bh_ex)[BH_NH];	/* [day][hour index] */
static int bh_ndays, bh_year;

struct bhev_s {
	int a, b;
};

/* NEAR0: one of the expected offsets around the occurrence is 0, the offset at DTSTART (-1: no occurrence involved) */
static const char*
bh_sig(char *sig, const char *what, int second, int dayclass, int near0)
{
	snprintf(sig, VD_SIGLEN, "byhour/%s/%s-of-day/%s%s", what, second ? "second" : "first",
		 dayclass == 2 ? "offset-changes-between" : dayclass == 1 ? "offset-changed-since-yesterday" : "plain-day",
		 near0 < 0 ? "" : near0 ? "/near-offset-0" : "/away-from-offset-0");
	return sig;
}

/* 2: the two times of the day have different offsets, 1: the first differs from yesterday's second, 0: neither
 * (gap/fold times have no offset of their own: a day with one of them is a change day as well) */
static int
bh_dayclass(int d, int a, int b)
{
	const struct exp_s *x = &bh_ex[d][a], *y = &bh_ex[d][b];
	if (x->cls != 'o' || y->cls != 'o' || x->l - x->u[0] != y->l - y->u[0]) {
		return 2;
	} else if (d > 0) {
		const struct exp_s *p = &bh_ex[d - 1][b];
		if (p->cls != 'o' || p->l - p->u[0] != x->l - x->u[0]) {
			return 1;
		}
	}
	return 0;
}

/* does one of the two expected occurrences before, the two after or occurrence J itself (times that exist once
 * only) have offset 0, the offset DTSTART has? */
static int
bh_near0(int j, int a, int b)
{
	for (int jj = j > 2 ? j - 2 : 0; jj <= j + 2 && jj < 2 * bh_ndays; jj++) {
		const struct exp_s *x = &bh_ex[jj / 2][(jj & 1) ? b : a];
		if (x->cls == 'o' && x->l == x->u[0]) {
			return 1;
		}
	}
	return 0;
}

static void
bh_event(void *arg)
{
	const struct bhev_s *r = arg;
	const int h1 = bh_hours[r->a], h2 = bh_hours[r->b], nex = 2 * bh_ndays;
	char text[1024], lines[512], sig[VD_SIGLEN], b1[24], b2[24], b3[24];
	struct ev_s ev = {0};
	long *got = calloc((size_t)nex + 4, sizeof(*got));
	int ngot = 0;

	snprintf(lines, sizeof(lines), "DTSTART;TZID=%s:%04d0101T%02d0000\nRRULE:FREQ=DAILY;BYHOUR=%d,%d;COUNT=%d\n",
		 zname, bh_year, h1, h1, h2, nex);
	ical_wrap(text, sizeof(text), "c07@verif", lines);
	vd_desc("zone %s: DTSTART;TZID=%s:%04d0101T%02d0000 RRULE:FREQ=DAILY;BYHOUR=%d,%d;COUNT=%d (offset at DTSTART is 0)",
		zname, zname, bh_year, h1, h1, h2, nex);
	ev.text = text;
	if (guarded(c_parse, &ev)) {
		vd_viol(bh_sig(sig, "hang-parse", 0, 0, -1), "parsing/instantiating the event does not return");
		return;
	} else if (ev.t == NULL || ev.t->strm == NULL) {
		vd_viol(bh_sig(sig, "no-task", 0, 0, -1), "parser produced no task/stream");
		return;
	}
	ev.s = ev.t->strm;
	while (ngot < nex + 2) {
		if (guarded(c_pop, &ev)) {
			vd_viol(bh_sig(sig, "hang-pop", ngot & 1, 0, -1), "echs_evstrm_pop does not return after %d occurrences", ngot);
			return;
		} else if (echs_nul_instant_p(ev.e.from)) {
			break;
		}
		got[ngot++] = inst_epoch(ev.e.from);
	}
	/* every expected occurrence whose wall-clock time exists once must come, in order, at its instant.
	 * Times inside a gap or fold are not judged: each of them absorbs one occurrence of the stream that
	 * lies within a day of it, whatever its rendering and wherever the stream sorts it (or none, if dropped) */
	{
		char *used = calloc((size_t)nex + 1, 1);
		int j = 0;
#define BH_EX(jj)	(&bh_ex[(jj) / 2][((jj) & 1) ? r->b : r->a])
		for (int g = 0; g < ngot; g++) {
			int absorbed = 0;
			while (j < nex && BH_EX(j)->cls != 'o') {
				j++;
			}
			if (j < nex && got[g] == BH_EX(j)->u[0]) {
				j++;
				continue;
			}
			for (int jj = j > 4 ? j - 4 : 0; jj < nex && jj <= j + 4 && !absorbed; jj++) {
				const struct exp_s *y = BH_EX(jj);
				if (y->cls != 'o' && !used[jj] && labs(got[g] - y->l) <= 86400) {
					used[jj] = absorbed = 1;
				}
			}
			if (absorbed) {
				continue;
			} else if (j >= nex) {
				/* behind the year (the stream makes up for dropped gap times): not looked at */
				break;
			}
			vd_viol(bh_sig(sig, "wrong-utc", j & 1, bh_dayclass(j / 2, r->a, r->b), bh_near0(j, r->a, r->b)),
				"occurrence #%d (%s local): stream gives %sZ, zoneinfo says %sZ (offset %ld)",
				j + 1, tstr(b1, BH_EX(j)->l), tstr(b2, got[g]), tstr(b3, BH_EX(j)->u[0]), BH_EX(j)->l - BH_EX(j)->u[0]);
			return;
		}
		while (j < nex && BH_EX(j)->cls != 'o') {
			j++;
		}
		if (j < nex) {
			vd_viol(bh_sig(sig, "missing", j & 1, bh_dayclass(j / 2, r->a, r->b), bh_near0(j, r->a, r->b)),
				"occurrence #%d (%s local = %sZ) missing: stream ended after %d",
				j + 1, tstr(b1, BH_EX(j)->l), tstr(b2, BH_EX(j)->u[0]), ngot);
		}
		free(used);
	}
	free(got);
}

static void
bh_case(void *unused)
{
	(void)unused;
	for (int i = 0; i < bh_npair; i++) {
		struct bhev_s r = {bh_pair[i][0], bh_pair[i][1]};
		vd_sh->evals += 2 * bh_ndays;
		run_forked(bh_event, &r);
		vd_beat();
	}
	vd_count("byhour_events", bh_npair);
}

static void
enum_byhour(void)
{
	const int y0 = (int)vd_opt_l("y0", 1972), y1 = (int)vd_opt_l("y1", 2036), ystep = (int)vd_opt_l("ystep", 1);
	static const int later[][2] = {{0, 12}, {3, 13}, {12, 13}, {1, 23}, {22, 23}, {0, 23}};

	bh_npair = 0;
	for (int a = 0; a <= 6; a++) {
		for (int b = a + 1; b <= 6; b++) {
			bh_pair[bh_npair][0] = a, bh_pair[bh_npair++][1] = b;
		}
	}
	for (size_t i = 0; i < sizeof(later) / sizeof(*later); i++) {
		for (int k = 0; k < 2; k++) {
			int j = 0;
			while (bh_hours[j] != later[i][k]) {
				j++;
			}
			bh_pair[bh_npair][k] = j;
		}
		bh_npair++;
	}
	load_zones();
	for (size_t zi = 0; zi < nzones; zi++) {
		for (int y = y0; y <= y1; y += ystep) {
			const long l0 = days_from_civil(y, 1, 1) * 86400L;
			char *req, *q;
			struct lines_s ls;
			int ok = 1, changes = 0;

			if (!c07_next()) {
				continue;
			}
			zname = znames[zi];
			bh_year = y;
			bh_ndays = (int)(days_from_civil(y + 1, 1, 1) - days_from_civil(y, 1, 1));
			vd_shape("byhour");
			vd_desc("zone %s year %d: FREQ=DAILY;BYHOUR=h1,h2 from January 1st through the year", zname, y);
			/* every DTSTART used (January 1st, h o'clock) must exist once and at offset 0 */
			q = req = malloc(64 + strlen(zname) + (size_t)bh_ndays * BH_NH * 14);
			q += sprintf(q, "occ %s", zname);
			for (int d = 0; d < bh_ndays; d++) {
				for (int h = 0; h < BH_NH; h++) {
					q += sprintf(q, " %ld", l0 + d * 86400L + bh_hours[h] * 3600L);
				}
				if (d == 0) {
					/* ask for the first day alone first: most zones are not eligible */
					ls = py_req(req);
					for (size_t i = 0; i < ls.n; i++) {
						long l, u;
						char cls[8];
						if (sscanf(ls.l[i], "O %7s %ld %ld", cls, &l, &u) != 3 || cls[0] != 'o' || l != u) {
							ok = 0;
						}
					}
					free_lines(&ls);
					if (!ok) {
						break;
					}
				}
			}
			if (!ok) {
				vd_count("byhour_left_out_dtstart_offset_not_0", 1);
				free(req);
				continue;
			}
			ls = py_req(req);
			free(req);
			if (ls.n != (size_t)bh_ndays * BH_NH) {
				oracle_fail("short answer to occ", zname);
			}
			free(bh_ex);
			bh_ex = calloc((size_t)bh_ndays, sizeof(*bh_ex));
			for (size_t i = 0; i < ls.n; i++) {
				struct exp_s *x = &bh_ex[i / BH_NH][i % BH_NH];
				char cls[8];
				int n = 0, m;
				const char *s = ls.l[i];
				if (sscanf(s, "O %7s %ld%n", cls, &x->l, &n) < 2) {
					oracle_fail("bad line", s);
				}
				x->cls = cls[0], x->nu = 0;
				for (s += n; x->nu < 4 && sscanf(s, "%ld%n", &x->u[x->nu], &m) == 1; s += m, x->nu++);
				changes |= x->cls != 'o' || x->l != x->u[0];
			}
			free_lines(&ls);
			vd_count("byhour_zone_years", 1);
			if (changes) {
				vd_nontrivial();
				vd_count("byhour_zone_years_offset_changes", 1);
			}
			if (changes) {
				vd_sample("zone %s year %d: %d events DTSTART;TZID=%s:%04d0101T<h1>0000 RRULE:FREQ=DAILY;BYHOUR=h1,h2;COUNT=%d, %s",
					  zname, y, bh_npair, zname, y, 2 * bh_ndays, changes ? "UTC offset changes inside" : "offset 0 all year");
			}
			run_forked(bh_case, NULL);
		}
	}
}

/* forks are several times cheaper when parent and child share a CPU (no cross-CPU wake-up) */
static void
pin_cpu(void)
{
	unsigned cpu = 0;
	unsigned long mask[16] = {0};

	if (vd_opt_l("pin", 1) && syscall(SYS_getcpu, &cpu, NULL, NULL) == 0 && cpu < 8 * sizeof(mask)) {
		mask[cpu / (8 * sizeof(*mask))] = 1UL << (cpu % (8 * sizeof(*mask)));
		syscall(SYS_sched_setaffinity, 0, sizeof(mask), mask);
	}
}

static void
enumerate(void)
{
	const char *mode = vd_opt("mode", "conv");

	if (strcmp(mode, "byhour") || vd_opt_l("pin", 0)) {
		/* byhour forks once per event of 730 occurrences: nothing to gain from sharing a CPU */
		pin_cpu();
	}
	vd_count_cases = 0;
	guard_us = vd_opt_l("guard_ms", 100) * 1000;
	py_w = py_r = NULL;
	if (!strcmp(mode, "conv")) {
		enum_conv();
	} else if (!strcmp(mode, "rule")) {
		enum_rule();
	} else if (!strcmp(mode, "rewrite")) {
		enum_rewrite();
	} else if (!strcmp(mode, "cache")) {
		enum_cache();
	} else if (!strcmp(mode, "byhour")) {
		enum_byhour();
	} else if (!strcmp(mode, "transient")) {
		enum_transient();
	} else {
		fprintf(stderr, "c07_tz: unknown mode %s\n", mode);
		_exit(2);
	}
}

int
main(int argc, char *argv[])
{
	return vd_main(argc, argv, enumerate);
}
