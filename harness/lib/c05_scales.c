/* C05 -- every calendar scale the parser knows survives writing and re-reading.
 *
 * case = (scale name, rule shape, anchor, written form); inside the case every consumption prefix k of KS:
 *   text -> parser -> task A; pop k; write A (echs_task_icalify, echsq form or echsd checkpoint form);
 *   parse the written text -> B; drain both: the same remaining occurrences (<= 200), durations, attributes;
 *   then B is written once more (nothing consumed): the DTSTART and RRULE lines of the second text are
 *   octet for octet those of the first one (what was written names a scale that reads back to itself).
 * Both streams come from the code under test: which days a scale's months begin on is not judged (C01),
 * only that the written task is the task in hand.
 *
 * scale names: GREGORIAN, HIJRI, HIJRI.{IA,IC,IIA,IIC,IIIA,IIIC,IVA,IVC}, HIJRI.UMMULQURA, HIJRI.DIYANET
 * (the whole table of scale.h / the README's SCALE values).  In every rule SCALE is followed by a BY part.
 * anchors: a DATE in the rule's own scale (1 Muharram 1420) and a Gregorian DATE (2000-02-09).
 *
 * options: names=1  additionally demand that the scale NAME written is the name in the source text
 *                   (off by default: reports HIJRI.IC / HIJRI.IIC on the unchanged tree, which are READ as IA / IIA)
 *          tail=1   additionally rules in which SCALE is the last part / is followed by COUNT
 */
#include "vdrv.h"
#include "ref/icalio.h"
#include "ref/c05_sched.h"

static const char *const scales[] = {
	"GREGORIAN", "HIJRI", "HIJRI.IA", "HIJRI.IC", "HIJRI.IIA", "HIJRI.IIC", "HIJRI.IIIA", "HIJRI.IIIC",
	"HIJRI.IVA", "HIJRI.IVC", "HIJRI.UMMULQURA", "HIJRI.DIYANET",
};
#define NSCALES	((int)(sizeof(scales) / sizeof(*scales)))

/* rule shapes, %s = scale name; occurrences stay inside 1420..1441 AH (1999..2020), inside both table calendars */
static const struct {
	const char *tag;
	const char *fmt;
	int tail;
} rules[] = {
	{"monthly-md1", "FREQ=MONTHLY;SCALE=%s;BYMONTHDAY=1;COUNT=40", 0},
	{"yearly-m10-md1", "FREQ=YEARLY;SCALE=%s;BYMONTH=10;BYMONTHDAY=1;COUNT=20", 0},
	{"monthly-mdlast", "FREQ=MONTHLY;SCALE=%s;BYMONTHDAY=-1;COUNT=40", 0},
	{"yearly-m12-mdlast", "FREQ=YEARLY;SCALE=%s;BYMONTH=12;BYMONTHDAY=-1;COUNT=20", 0},
	{"monthly-i2-md15", "FREQ=MONTHLY;INTERVAL=2;SCALE=%s;BYMONTHDAY=15;COUNT=40", 0},
	{"yearly-m9-until", "FREQ=YEARLY;SCALE=%s;BYMONTH=9;BYMONTHDAY=1,27;UNTIL=20191231", 0},
	{"monthly-count-scale", "FREQ=MONTHLY;BYMONTHDAY=1;COUNT=40;SCALE=%s", 1},
	{"monthly-scale-count", "FREQ=MONTHLY;SCALE=%s;COUNT=40", 1},
};
#define NRULES	((int)(sizeof(rules) / sizeof(*rules)))

static const int ks[] = {0, 1, 2, 7, 19};
#define NKS	((int)(sizeof(ks) / sizeof(*ks)))

struct attr_clo_s {
	const char *sc;
};

static void
attr_diff(int fld, const char *how, const char *want, const char *got, void *clo)
{
	const struct attr_clo_s *c = clo;
	char sig[VD_SIGLEN];
	snprintf(sig, sizeof(sig), "scales/attr/%s-%s/%s", c05_fname[fld], how, c->sc);
	vd_viol(sig, "%s: task has %s, written and re-read task has %s", c05_fname[fld], want, got);
}

/* the lines of TEXT that begin with DTSTART or RRULE, in order, into OUT */
static void
sched_lines(char *out, size_t osz, const char *text)
{
	size_t o = 0;
	out[0] = '\0';
	for (const char *p = text; p && *p;) {
		const char *nl = strchr(p, '\n');
		const size_t ll = nl ? (size_t)(nl - p) : strlen(p);
		if ((!strncmp(p, "DTSTART", 7) || !strncmp(p, "RRULE", 5)) && o + ll + 2 < osz) {
			memcpy(out + o, p, ll);
			o += ll;
			if (o && out[o - 1] == '\r') o--;
			out[o++] = '|';
			out[o] = '\0';
		}
		p = nl ? nl + 1 : NULL;
	}
}

static void
enumerate(void)
{
	static char text[4096], gen2[8192];
	static struct c05_rt_s r;
	const int names = (int)vd_opt_l("names", 0), tail = (int)vd_opt_l("tail", 0);

	vd_count_cases = 0;
	for (int ri = 0; ri < NRULES && !vd_stop(); ri++) {
		if (rules[ri].tail && !tail) {
			continue;
		}
		for (int si = 0; si < NSCALES; si++) {
			for (int an = 0; an < 2; an++) {
				for (int form = 0; form < 2; form++) {
					const int fm = form ? C05_FORM_ECHSQ : C05_FORM_ECHSD;
					struct attr_clo_s ac = {scales[si]};
					char lines[512], rule[256], flat[640], sig[VD_SIGLEN];
					size_t o = 0;

					if (!vd_next()) {
						continue;
					}
					vd_shape("scales/%s/%s", scales[si], rules[ri].tag);
					snprintf(rule, sizeof(rule), rules[ri].fmt, scales[si]);
					if (an == 0 && si > 0) {
						o += (size_t)snprintf(lines + o, sizeof(lines) - o, "DTSTART;VALUE=DATE;SCALE=%s:14200101\n", scales[si]);
					} else if (an == 0) {
						o += (size_t)snprintf(lines + o, sizeof(lines) - o, "DTSTART;VALUE=DATE:19990417\n");
					} else {
						o += (size_t)snprintf(lines + o, sizeof(lines) - o, "DTSTART;VALUE=DATE:20000209\n");
					}
					o += (size_t)snprintf(lines + o, sizeof(lines) - o, "DURATION:P1D\nRRULE:%s\n", rule);
					c05_flat(flat, sizeof(flat), lines);
					c05_fields_text(text, sizeof(text), "c05-scales@verif", C05_POS_ATTRS, 0, 0, 1, lines);
					for (int j = 0; j < NKS; j++) {
						const int k = ks[j];
						char l1[1024], l2[1024];
						echs_task_t b[2];
						size_t nb;

						vd_desc("%s | %s form | after k=%d pops", flat, form ? "echsq" : "echsd", k);
						if (c05_roundtrip(&r, text, lines, k, fm, attr_diff, &ac) != 0) {
							if (k == 0) {
								snprintf(sig, sizeof(sig), "scales/unreadable/%s/%s", scales[si], rules[ri].tag);
								vd_viol(sig, "the parser yields no task for the schedule");
							}
							continue;
						}
						vd_sh->evals++;
						if (r.nremain >= 2) {
							vd_nontrivial();
						}
						if (vd_want_sample() && k >= 1 && r.nremain >= 2) {
							sched_lines(l1, sizeof(l1), r.written);
							vd_sample("%s | k=%d: %d left, re-read %d, written: %s", flat, k, r.nremain, r.nreread, l1);
						}
						if (r.ntasks > 1) {
							snprintf(sig, sizeof(sig), "scales/split/%s/%s", scales[si], rules[ri].tag);
							vd_viol(sig, "one task was written, %d were read back", r.ntasks);
						}
						if (r.ghost) {
							snprintf(sig, sizeof(sig), "scales/ghost/%s/%s", scales[si], rules[ri].tag);
							vd_viol(sig, "%s", r.detail);
						} else if (r.rejected) {
							snprintf(sig, sizeof(sig), "scales/rejected/%s/%s", scales[si], rules[ri].tag);
							vd_viol(sig, "%s", r.detail);
						} else if (r.differ) {
							snprintf(sig, sizeof(sig), "scales/remaining/%s/%s", scales[si], rules[ri].tag);
							vd_viol(sig, "%s", r.detail);
						} else if (r.durdiffer) {
							snprintf(sig, sizeof(sig), "scales/duration/%s/%s", scales[si], rules[ri].tag);
							vd_viol(sig, "%s", r.detail);
						}
						if (r.nremain == 0 || r.ntasks != 1) {
							continue;
						}
						/* second generation: what was written, read and written again, is the same schedule text */
						sched_lines(l1, sizeof(l1), r.written);
						nb = ical_tasks(b, 2U, r.written, strlen(r.written));
						if (nb == 1U) {
							const echs_task_t one[1] = {b[0]};
							ssize_t wl = c05_seria(gen2, sizeof(gen2), one, 1U, fm);
							sched_lines(l2, sizeof(l2), wl > 0 ? gen2 : "");
							if (strcmp(l1, l2)) {
								snprintf(sig, sizeof(sig), "scales/rewritten/%s/%s", scales[si], rules[ri].tag);
								vd_viol(sig, "written: %s -- read and written again: %s", l1, l2);
							}
						}
						for (size_t i = 0; i < nb; i++) {
							free_echs_task(b[i]);
						}
						if (names && si > 0) {
							/* the rule written names the scale of the source (HIJRI = HIJRI.UMMULQURA, README) */
							char want[64];
							const char *p = strstr(l1, "RRULE:"), *q = p ? strstr(p, ";SCALE=") : NULL;
							size_t wl;
							snprintf(want, sizeof(want), ";SCALE=%s", si == 1 ? "HIJRI.UMMULQURA" : scales[si]);
							wl = strlen(want);
							if (q == NULL || strncmp(q, want, wl) || (q[wl] != ';' && q[wl] != '|')) {
								snprintf(sig, sizeof(sig), "scales/name/%s/%s", scales[si], rules[ri].tag);
								vd_viol(sig, "source rule %s, written %s", rule, p ? p : "(no RRULE)");
							}
						}
					}
				}
			}
		}
	}
}

int
main(int argc, char *argv[])
{
	return vd_main(argc, argv, enumerate);
}
