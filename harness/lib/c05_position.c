/* C05 sweep 2 -- serialise -> parse is the identity at every stream position.
 *
 * case = one schedule of the extension table, or one (rule, anchor) of the grammar slice with all its
 * terminations (ref/c05_sched.h), carried by a task with a fixed set of attributes; inside the case every consumption prefix k of c05_klist() is run:
 *   text -> parser -> task A; pop k; write A the way echsd/echsq do; parse the written text -> B;
 *   drain A and B (<= 200): instants equal, durations equal, attributes equal; if A has nothing
 *   left nothing may come back.
 * Both streams are produced by the code under test, so the RRULE expansion itself is not judged
 * here (C01); only that the written task describes exactly the occurrences not yet consumed.
 *
 * options: ext=0|1 gram=0|1 maxparts= date3= menucap= intervals= anchors= terms=quick|full ks=quick|full form=echsd|echsq
 */
#include "vdrv.h"
#include "ref/icalio.h"
#include "ref/c05_sched.h"

struct attr_clo_s {
	const char *kcl;
	const char *kind;
};

static void
attr_diff(int fld, const char *how, const char *want, const char *got, void *clo)
{
	const struct attr_clo_s *c = clo;
	char sig[VD_SIGLEN];
	/* attributes do not depend on the rule: one class for all grammar schedules */
	snprintf(sig, sizeof(sig), "attr/%s-%s/%s/%s", c05_fname[fld], how, c->kcl, !strncmp(c->kind, "gram-", 5) ? "gram" : c->kind);
	vd_viol(sig, "%s: task has %s, written and re-read task has %s", c05_fname[fld], want, got);
}

struct pos_s {
	int full_k;
	int form;
};

static void
per_schedule(const char *kind, const char *lines, void *clo)
{
	const struct pos_s *o = clo;
	static char text[4096];
	static struct c05_rt_s r;
	char flat[640];
	int ks[48], nk, n;

	c05_flat(flat, sizeof(flat), lines);
	vd_desc("%s", flat);
	c05_fields_text(text, sizeof(text), "c05-pos@verif", C05_POS_ATTRS, 0, 0, 1, lines);
	n = c05_total(text, 400);
	if (n == -2) {
		char sig[VD_SIGLEN];
		snprintf(sig, sizeof(sig), "unreadable/task/0/%s", kind);
		vd_sh->evals++;
		vd_viol(sig, "the parser yields no task for the schedule");
		return;
	}
	nk = c05_klist(ks, 48, n, o->full_k);
	for (int j = 0; j < nk; j++) {
		const int k = ks[j];
		const char *kcl = c05_kclass(k, n);
		struct attr_clo_s ac = {kcl, kind};
		char sig[VD_SIGLEN];

		vd_beat();
		vd_desc("%s | after k=%d pops (stream has %d%s)", flat, k, n < 0 ? 400 : n, n < 0 ? "+" : "");
		switch (c05_roundtrip(&r, text, lines, k, o->form, attr_diff, &ac)) {
		case 0:
			vd_sh->evals++;
			break;
		case 1:
			vd_count("skipped_consumed_beyond_2099", 1);
			/*@fallthrough@*/
		default:
			continue;
		}
		if (r.nremain >= 2 && k >= 1) {
			vd_nontrivial();
		}
		if (vd_want_sample() && k >= 1 && r.nremain >= 2) {
			char wf[200];
			const char *w = strstr(r.written, "DTSTART");
			vd_sample("%s | k=%d: %d left, re-read %d, written: %s", flat, k, r.nremain, r.nreread,
				  w ? c05_flat(wf, sizeof(wf), w) : "(nothing)");
		}
		if (r.ntasks > 1) {
			snprintf(sig, sizeof(sig), "split/task/%s/%s", kcl, kind);
			vd_viol(sig, "one task was written, %d were read back", r.ntasks);
		}
		if (r.ghost) {
			snprintf(sig, sizeof(sig), "ghost/task/%s/%s", kcl, kind);
			vd_viol(sig, "%s", r.detail);
		} else if (r.rejected) {
			snprintf(sig, sizeof(sig), "rejected/task/%s/%s", kcl, kind);
			vd_viol(sig, "%s", r.detail);
		} else if (r.differ) {
			snprintf(sig, sizeof(sig), "remaining/%s/%s/%s", r.what, kcl, kind);
			vd_viol(sig, "%s", r.detail);
		} else if (r.durdiffer) {
			snprintf(sig, sizeof(sig), "duration/DURATION/%s/%s", kcl, kind);
			vd_viol(sig, "%s", r.detail);
		}
	}
}

static void
enumerate(void)
{
	struct pos_s o = {
		!strcmp(vd_opt("ks", "full"), "full"),
		!strcmp(vd_opt("form", "echsd"), "echsq") ? C05_FORM_ECHSQ : C05_FORM_ECHSD,
	};

	vd_count_cases = 0;
	c05_for_schedules((int)vd_opt_l("ext", 1), (int)vd_opt_l("gram", 1), (int)vd_opt_l("maxparts", 1),
			  (int)vd_opt_l("menucap", 1), vd_opt("intervals", "1"), (int)vd_opt_l("anchors", 1),
			  !strcmp(vd_opt("terms", "quick"), "full"), (int)vd_opt_l("date3", 0), per_schedule, &o);
}

int
main(int argc, char *argv[])
{
	return vd_main(argc, argv, enumerate);
}
