/* C10 -- the parser when one allocation is refused: no overrun, no crash, no loop, nothing invented.
 *
 * While a VEVENT is read the parser keeps its RRULE, EXRULE and X-GA-MRULE lines and its RDATE / EXDATE dates in
 * lists that start with 16 rules resp. 64 dates and are doubled by realloc() when they are full; the strings of
 * a task are duplicated, the task and its streams are allocated when END:VEVENT is met.  Every one of these
 * calls can be answered with NULL by the C library.  The property says that no byte sequence makes the parser
 * crash, overrun a buffer or loop; whether it does must not depend on the allocator being in a good mood.
 *
 * malloc / calloc / realloc / strdup / strndup of this program -- hence of the library, which is linked
 * statically, and of the C library's own callers -- are defined here.  During a parse (echs_evical_push of the
 * whole text, echs_evical_pull until it says INSVERB_UNK, echs_evical_last_pull) the calls are counted, and a
 * script says
 *     once@k     the k-th call (of whatever family) answers NULL, every other call is served
 *     from@k     the k-th call and every later one of the parse answer NULL (memory stays exhausted)
 * for EVERY k = 1..N, N the number of calls the undisturbed parse of the document makes.  As each call belongs
 * to one family this is the k-th call of realloc, and separately of malloc, calloc, strdup, for every k.
 *
 * Documents (one VEVENT with the lists below, followed by a small second VEVENT):
 *     rrule    n RRULE lines                                       n = 17..40 (quick: a menu)
 *     exrule   a DAILY rule of 120 and n EXRULE lines
 *     mrule    a DAILY rule and n X-GA-MRULE lines
 *     rdate    1..3 RDATE lines of DATE values, every tuple of line sizes of a menu (60..111 dates per line, which
 *              is what fits into 1 KiB; 60..333 dates per event)
 *     exdate   a DAILY rule of 400 and 1..3 EXDATE lines, the same sizes
 *     both     RDATE and EXDATE lines alternating, the same sizes
 *     mixed    20 + 20 rules, 17 X-GA-MRULE lines, 100 + 100 dates
 *
 * Oracle (an allocation failure may cost items, attributes, a whole task -- nothing of that is judged):
 *   crash/...              the worker died: sanitizer report in the asan variant (write behind a block, use of a
 *                          released one), fault or failed assertion in either
 *   allocfail/heap-damage  (plain variant) every block obtained during the script has SLACK spare octets of a
 *                          pattern behind it; the pattern has changed when the block is released, grown or the
 *                          script is over: a write behind the end of the block
 *   allocfail/runaway      more instructions than the document has components
 *   allocfail/no-end       a delivered stream has not ended after MAXOCC occurrences (every document is finite)
 *   allocfail/invented     a delivered occurrence that no RRULE / RDATE line of the document gives: what comes out
 *                          must be a subset of what the undisturbed parse of the document WITHOUT its exception
 *                          lines (EXRULE, EXDATE) yields -- a lost exception may let an occurrence through, a lost
 *                          rule or date may take one away, nothing may add one
 *   hang/...               from the supervisor
 *   harness/...            the undisturbed parse is not usable as a reference
 *
 * A case = (document, script, k).   options: docs=menu|full  mode=once|from|both
 */
#include "vdrv.h"
#include <stddef.h>
#include "evical.h"
#include "task.h"
#include "instant.h"
#include "evstrm.h"

#define MAXOCC	4000
#define MAXCALLS	8192
#define SLACK	8192U
#define GPAT	0x5a

enum {FAM_MALLOC, FAM_CALLOC, FAM_REALLOC, FAM_STRDUP, NFAM};
static const char *const famname[NFAM] = {"malloc", "calloc", "realloc", "strdup"};

static struct {
	volatile int on;
	long calls;
	long fail_at;
	int sticky;
	long nfailed;
	int first_fam;
	size_t first_sz;
	unsigned char fam[MAXCALLS];
} af;

/* true if the call at hand is to be refused */
static int
af_refuse(int fam, size_t z)
{
	long c;

	if (!af.on) {
		return 0;
	}
	c = ++af.calls;
	if (c < MAXCALLS) {
		af.fam[c] = (unsigned char)fam;
	}
	if (af.fail_at && (c == af.fail_at || (af.sticky && c > af.fail_at))) {
		if (!af.nfailed++) {
			af.first_fam = fam;
			af.first_sz = z;
		}
		return 1;
	}
	return 0;
}

#if defined __SANITIZE_ADDRESS__
/* the sanitizer's allocator is the oracle */
extern void *__interceptor_malloc(size_t);
extern void *__interceptor_calloc(size_t, size_t);
extern void *__interceptor_realloc(void*, size_t);

static inline void *raw_malloc(size_t z) { return __interceptor_malloc(z); }
static inline void *raw_calloc(size_t n, size_t m) { return __interceptor_calloc(n, m); }
static inline void *raw_realloc(void *p, size_t z) { return __interceptor_realloc(p, z); }
static void g_begin(void) {}
static int g_end(void) { return 0; }
static const char g_what[] = "";

#else  /* plain: spare octets behind every block of a script */
extern void *__libc_malloc(size_t);
extern void __libc_free(void*);
extern void *__libc_realloc(void*, size_t);
extern void *__libc_calloc(size_t, size_t);

#define TABZ	(1U << 14)
static struct ent_s {
	uint8_t *p;	/* NULL: never used, TOMB: released */
	size_t z;
} tab[TABZ];
#define TOMB	((uint8_t*)1)
static size_t tab_live, tab_used;
static volatile int g_track;
static int g_bad;
static char g_what[200];

static inline size_t
tab_hash(const void *p)
{
	return (size_t)(((uintptr_t)p >> 4) * 0x9e3779b97f4a7c15ULL >> 40) & (TABZ - 1U);
}

static struct ent_s*
tab_find(const void *p)
{
	for (size_t i = tab_hash(p), n = 0; n < TABZ && tab[i].p != NULL; i = (i + 1U) & (TABZ - 1U), n++) {
		if (tab[i].p == (const uint8_t*)p) {
			return tab + i;
		}
	}
	return NULL;
}

static void
tab_rehash(void)
{
	static struct ent_s old[TABZ];

	memcpy(old, tab, sizeof(tab));
	memset(tab, 0, sizeof(tab));
	tab_used = 0U;
	for (size_t j = 0; j < TABZ; j++) {
		if (old[j].p != NULL && old[j].p != TOMB) {
			size_t i = tab_hash(old[j].p);
			while (tab[i].p != NULL) i = (i + 1U) & (TABZ - 1U);
			tab[i] = old[j];
			tab_used++;
		}
	}
}

static int
tab_put(void *p, size_t z)
{
	size_t i;

	if (tab_used >= TABZ / 2U) {
		tab_rehash();
		if (tab_used >= TABZ / 2U) {
			return -1;
		}
	}
	for (i = tab_hash(p); tab[i].p != NULL && tab[i].p != TOMB; i = (i + 1U) & (TABZ - 1U));
	if (tab[i].p == NULL) {
		tab_used++;
	}
	tab[i] = (struct ent_s){p, z};
	tab_live++;
	return 0;
}

static void
tab_del(struct ent_s *e)
{
	e->p = TOMB;
	tab_live--;
}

static void
g_check(const struct ent_s *e, const char *when)
{
	size_t first = SLACK, last = 0U;

	for (size_t j = 0U; j < SLACK; j++) {
		if (e->p[e->z + j] != GPAT) {
			if (first == SLACK) first = j;
			last = j;
		}
	}
	if (first < SLACK && !g_bad++) {
		snprintf(g_what, sizeof(g_what), "octets %zu..%zu behind the end of a block of %zu octets were written (seen at %s)", first, last, e->z, when);
	}
}

static void*
g_new(size_t z, int zero)
{
	uint8_t *p;

	if (!g_track || z > (size_t)1 << 30) {
		return zero ? __libc_calloc(1U, z) : __libc_malloc(z);
	}
	if ((p = __libc_malloc(z + SLACK)) == NULL) {
		return NULL;
	}
	if (zero) {
		memset(p, 0, z);
	}
	memset(p + z, GPAT, SLACK);
	if (tab_put(p, z) < 0) {
		/* untracked, the slack is just slack */
		;
	}
	return p;
}

static inline void *raw_malloc(size_t z) { return g_new(z, 0); }

static inline void*
raw_calloc(size_t n, size_t m)
{
	if (m && n > (size_t)-1 / m) {
		return NULL;
	}
	return g_new(n * m, 1);
}

static void*
raw_realloc(void *p, size_t z)
{
	struct ent_s *e;
	uint8_t *q;

	if (p == NULL) {
		return g_new(z, 0);
	} else if ((e = tab_find(p)) == NULL) {
		return __libc_realloc(p, z);
	}
	g_check(e, "realloc");
	if ((q = __libc_realloc(p, z + SLACK)) == NULL) {
		return NULL;
	}
	tab_del(e);
	memset(q + z, GPAT, SLACK);
	(void)tab_put(q, z);
	return q;
}

void
free(void *p)
{
	struct ent_s *e;

	if (p == NULL) {
		return;
	} else if ((e = tab_find(p)) != NULL) {
		g_check(e, "free");
		tab_del(e);
	}
	__libc_free(p);
}

static void
g_begin(void)
{
	g_bad = 0;
	g_what[0] = '\0';
	g_track = 1;
}

static int
g_end(void)
{
	g_track = 0;
	/* what is still alive (the library keeps some things for good) is looked at once and then no longer watched */
	for (size_t i = 0; tab_live && i < TABZ; i++) {
		if (tab[i].p != NULL && tab[i].p != TOMB) {
			g_check(tab + i, "the end of the script");
		}
	}
	if (tab_used) {
		memset(tab, 0, sizeof(tab));
		tab_used = tab_live = 0U;
	}
	return g_bad;
}
#endif	/* __SANITIZE_ADDRESS__ */

void*
malloc(size_t z)
{
	return af_refuse(FAM_MALLOC, z) ? NULL : raw_malloc(z);
}

void*
calloc(size_t n, size_t m)
{
	return af_refuse(FAM_CALLOC, n * m) ? NULL : raw_calloc(n, m);
}

void*
realloc(void *p, size_t z)
{
	return af_refuse(FAM_REALLOC, z) ? NULL : raw_realloc(p, z);
}

char*
strdup(const char *s)
{
	const size_t n = strlen(s) + 1U;
	char *p;

	if (af_refuse(FAM_STRDUP, n) || (p = raw_malloc(n)) == NULL) {
		return NULL;
	}
	return memcpy(p, s, n);
}

char*
strndup(const char *s, size_t n)
{
	const size_t l = strnlen(s, n);
	char *p;

	if (af_refuse(FAM_STRDUP, l + 1U) || (p = raw_malloc(l + 1U)) == NULL) {
		return NULL;
	}
	memcpy(p, s, l);
	p[l] = '\0';
	return p;
}

/* ---------- documents ---------- */
enum {K_RRULE, K_EXRULE, K_MRULE, K_RDATE, K_EXDATE, K_BOTH, K_MIXED, NKIND};
static const char *const kindname[NKIND] = {"rrule", "exrule", "mrule", "rdate", "exdate", "both", "mixed"};

#define DOCMAX	32768
struct doc_s {
	int kind;
	int nl;		/* rule lines, or date lines */
	int sz[3];	/* dates per line */
	char name[64];
	size_t n, ninc;
	char text[DOCMAX];	/* the document */
	char inc[DOCMAX];	/* the document without its exception lines */
};

static void
put(struct doc_s *d, int exc, const char *fmt, ...)
{
	char line[1100];
	va_list ap;
	int l;

	va_start(ap, fmt);
	l = vsnprintf(line, sizeof(line), fmt, ap);
	va_end(ap);
	if (l < 0 || (size_t)l >= sizeof(line) || d->n + (size_t)l >= DOCMAX) {
		fprintf(stderr, "c10_allocfail: document too long\n");
		exit(2);
	}
	memcpy(d->text + d->n, line, (size_t)l + 1U);
	d->n += (size_t)l;
	if (!exc) {
		memcpy(d->inc + d->ninc, line, (size_t)l + 1U);
		d->ninc += (size_t)l;
	}
}

static void
put_dates(struct doc_s *d, int exc, int from, int n)
{
	char line[1100];
	size_t o = 0;

	/* 111 dates are what fits into a line of 1 KiB with the VALUE parameter */
	for (int i = 0; i < n; i++) {
		const int j = from + i;
		o += (size_t)snprintf(line + o, sizeof(line) - o, "%s%04d%02d%02d", i ? "," : "", 2031 + j / 336, j / 28 % 12 + 1, j % 28 + 1);
	}
	put(d, exc, "%s;VALUE=DATE:%s\n", exc ? "EXDATE" : "RDATE", line);
}

static void
put_rules(struct doc_s *d, int exc, int n)
{
	for (int i = 0; i < n; i++) {
		if (!exc) {
			put(d, 0, "RRULE:FREQ=YEARLY;BYMONTH=%d;BYMONTHDAY=%d;COUNT=3\n", i % 12 + 1, i % 28 + 1);
		} else {
			put(d, 1, "EXRULE:FREQ=DAILY;INTERVAL=%d;COUNT=6\n", i + 2);
		}
	}
}

static const int dsz_menu[] = {60, 65, 66, 100, 111};
static const int dsz_full[] = {60, 63, 64, 65, 66, 80, 100, 111};
static const int rn_menu[] = {17, 18, 20, 33, 40};

/* the IDX-th document; 0 when there is none */
static int
nth_doc(struct doc_s *d, long idx, int full)
{
	const int *const dsz = full ? dsz_full : dsz_menu;
	const int ndsz = full ? (int)(sizeof(dsz_full) / sizeof(*dsz_full)) : (int)(sizeof(dsz_menu) / sizeof(*dsz_menu));
	const int nrn = full ? 24 : (int)(sizeof(rn_menu) / sizeof(*rn_menu));
	int kind = -1, n = 0;

	d->n = d->ninc = 0U;
	d->nl = 0;
	d->sz[0] = d->sz[1] = d->sz[2] = 0;
	/* rule families */
	for (int k = K_RRULE; k <= K_MRULE && kind < 0; k++) {
		if (idx < nrn) {
			kind = k;
			n = full ? 17 + (int)idx : rn_menu[idx];
		} else {
			idx -= nrn;
		}
	}
	/* date families */
	for (int k = K_RDATE; k <= K_BOTH && kind < 0; k++) {
		for (int nl = 1, cnt = ndsz; nl <= 3 && kind < 0; nl++, cnt *= ndsz) {
			if (idx < cnt) {
				kind = k;
				d->nl = nl;
				for (int i = nl - 1; i >= 0; i--, idx /= ndsz) {
					d->sz[i] = dsz[idx % ndsz];
				}
			} else {
				idx -= cnt;
			}
		}
	}
	if (kind < 0) {
		if (idx > 0) {
			return 0;
		}
		kind = K_MIXED;
	}
	d->kind = kind;
	put(d, 0, "BEGIN:VCALENDAR\nVERSION:2.0\nBEGIN:VEVENT\nUID:af1@verif\nSUMMARY:/bin/true allocfail\nLOCATION:/tmp\n");
	switch (kind) {
	case K_RRULE:
		put(d, 0, "DTSTART:20310101T000000Z\n");
		put_rules(d, 0, n);
		d->nl = n;
		snprintf(d->name, sizeof(d->name), "%d RRULE lines", n);
		break;
	case K_EXRULE:
		put(d, 0, "DTSTART:20310101T000000Z\nRRULE:FREQ=DAILY;COUNT=120\n");
		put_rules(d, 1, n);
		d->nl = n;
		snprintf(d->name, sizeof(d->name), "a DAILY rule and %d EXRULE lines", n);
		break;
	case K_MRULE:
		put(d, 0, "DTSTART:20310101T000000Z\nRRULE:FREQ=DAILY;COUNT=20\n");
		for (int i = 0; i < n; i++) {
			put(d, 0, "X-GA-MRULE:DIR=%s;MOVEFROM=NOTRADE\n", i & 1 ? "PAST" : "FUTURE");
		}
		d->nl = n;
		snprintf(d->name, sizeof(d->name), "a DAILY rule and %d X-GA-MRULE lines", n);
		break;
	case K_RDATE:
	case K_EXDATE:
	case K_BOTH:
		put(d, 0, "DTSTART;VALUE=DATE:20310101\n");
		if (kind == K_EXDATE) {
			put(d, 0, "RRULE:FREQ=DAILY;COUNT=400\n");
		}
		for (int i = 0, at = 0, xat = 30; i < d->nl; i++) {
			if (kind != K_EXDATE) {
				put_dates(d, 0, at, d->sz[i]);
				at += d->sz[i];
			}
			if (kind != K_RDATE) {
				put_dates(d, 1, xat, d->sz[i]);
				xat += d->sz[i];
			}
		}
		snprintf(d->name, sizeof(d->name), "%s lines of %d%s%.0d%s%.0d dates", kind == K_RDATE ? "RDATE" : kind == K_EXDATE ? "a DAILY rule and EXDATE" : "alternating RDATE and EXDATE",
			 d->sz[0], d->nl > 1 ? "," : "", d->sz[1], d->nl > 2 ? "," : "", d->sz[2]);
		break;
	default:
		put(d, 0, "DTSTART:20310101T000000Z\n");
		put_rules(d, 0, 20);
		put_rules(d, 1, 20);
		for (int i = 0; i < 17; i++) {
			put(d, 0, "X-GA-MRULE:DIR=PAST;MOVEFROM=NOTRADE\n");
		}
		put_dates(d, 0, 0, 100);
		put_dates(d, 1, 50, 100);
		snprintf(d->name, sizeof(d->name), "20 RRULE, 20 EXRULE, 17 X-GA-MRULE lines, RDATE and EXDATE lines of 100 dates");
		break;
	}
	put(d, 0, "END:VEVENT\nBEGIN:VEVENT\nUID:af2@verif\nSUMMARY:/bin/true second\nDTSTART:20400101T000000Z\nRRULE:FREQ=DAILY;COUNT=3\nEND:VEVENT\nEND:VCALENDAR\n");
	return 1;
}

/* ---------- running ---------- */
struct res_s {
	int ntask, nins;
	int runaway, noend;
	int nocc;
	uint64_t occ[MAXOCC];
};

static int
cmpu64(const void *a, const void *b)
{
	const uint64_t x = *(const uint64_t*)a, y = *(const uint64_t*)b;
	return (x > y) - (x < y);
}

/* parse TEXT under the script (FAIL_AT 0: undisturbed), drain and release what comes out */
static void
run(struct res_s *r, const char *text, size_t len, long fail_at, int sticky)
{
	ical_parser_t pp = NULL;
	echs_task_t t[8];
	echs_instruc_t ins;

	memset(r, 0, offsetof(struct res_s, occ));
	af.calls = 0;
	af.fail_at = fail_at;
	af.sticky = sticky;
	af.nfailed = 0;
	g_begin();
	af.on = 1;
	if (echs_evical_push(&pp, text, len) >= 0) {
		while ((ins = echs_evical_pull(&pp)).v != INSVERB_UNK) {
			if (++r->nins > 8) {
				r->runaway = 1;
				break;
			}
			if (ins.v == INSVERB_SCHE && ins.t != NULL && r->ntask < 8) {
				t[r->ntask++] = ins.t;
			}
		}
	}
	ins = echs_evical_last_pull(&pp);
	if (ins.v == INSVERB_SCHE && ins.t != NULL) {
		free_echs_task(ins.t);
	}
	af.on = 0;
	vd_beat();
	for (int i = 0; i < r->ntask; i++) {
		echs_evstrm_t s = t[i]->strm;
		for (int n = 0; s != NULL; n++) {
			echs_event_t e = echs_evstrm_pop(s);
			if (echs_nul_event_p(e)) {
				break;
			} else if (n >= MAXOCC || r->nocc >= MAXOCC) {
				r->noend = 1;
				break;
			}
			r->occ[r->nocc++] = e.from.u;
		}
		free_echs_task(t[i]);
	}
	qsort(r->occ, (size_t)r->nocc, sizeof(*r->occ), cmpu64);
}

static const char*
ustr(char *buf, size_t bsz, uint64_t u)
{
	echs_instant_t i;
	i.u = u;
	if (echs_instant_all_day_p(i)) {
		snprintf(buf, bsz, "%04u-%02u-%02u", i.y, i.m, i.d);
	} else {
		snprintf(buf, bsz, "%04u-%02u-%02uT%02u:%02u:%02u", i.y, i.m, i.d, i.H, i.M, i.S);
	}
	return buf;
}

static struct doc_s D;
static struct res_s REF, INC, GOT;
#define MAXDOCS	2048
static struct {
	int n;			/* calls of the undisturbed parse */
	unsigned char fam[MAXCALLS];
} *warm;

static void
one_case(const struct doc_s *d, long di, int sticky, long k, int refok)
{
	const int fam = k < MAXCALLS ? warm[di].fam[k] : 0;
	const char *const mode = sticky ? "from" : "once";
	char sig[160];

	vd_desc("%s (document %ld, %zu octets), allocation call %ld of the parse (%s)%s answer%s NULL", d->name, di, d->n, k, famname[fam],
		sticky ? " and every later one" : "", sticky ? "" : "s");
	vd_shape("allocfail/%s/%s/%s", kindname[d->kind], famname[fam], mode);
	if (!refok) {
		vd_viol("harness/allocfail/reference", "the undisturbed parse of the document makes %d allocation calls where the first pass over the documents saw %d, or yields no task", (int)af.calls, warm[di].n);
		return;
	}
	run(&GOT, d->text, d->n, k, sticky);
	if (g_end()) {
		snprintf(sig, sizeof(sig), "allocfail/heap-damage/%s/%s/%s", kindname[d->kind], famname[af.first_fam], mode);
		vd_viol(sig, "refused: %s of %zu octets; %s", famname[af.first_fam], af.first_sz, g_what);
	}
	if (!af.nfailed) {
		vd_count("call_not_reached", 1);
		return;
	}
	vd_nontrivial();
	if (af.first_fam != fam) {
		vd_count("family_other_than_in_first_pass", 1);
	}
	vd_count(famname[af.first_fam], 1);
	if (GOT.runaway) {
		snprintf(sig, sizeof(sig), "allocfail/runaway/%s/%s/%s", kindname[d->kind], famname[af.first_fam], mode);
		vd_viol(sig, "more than 8 instructions from a document of 2 components");
	}
	if (GOT.noend) {
		snprintf(sig, sizeof(sig), "allocfail/no-end/%s/%s/%s", kindname[d->kind], famname[af.first_fam], mode);
		vd_viol(sig, "a delivered stream has not ended after %d occurrences; the rules and dates of the document give %d", MAXOCC, INC.nocc);
	}
	for (int i = 0, j = 0; i < GOT.nocc; i++) {
		while (j < INC.nocc && INC.occ[j] < GOT.occ[i]) j++;
		if (j >= INC.nocc || INC.occ[j] != GOT.occ[i]) {
			char b[32];
			snprintf(sig, sizeof(sig), "allocfail/invented/%s/%s/%s", kindname[d->kind], famname[af.first_fam], mode);
			vd_viol(sig, "refused: %s of %zu octets; %d task(s) with %d occurrences come out, %s is among them, which none of the RRULE / RDATE lines gives "
				"(undisturbed: %d occurrences, without the exception lines %d)", famname[af.first_fam], af.first_sz, GOT.ntask, GOT.nocc,
				ustr(b, sizeof(b), GOT.occ[i]), REF.nocc, INC.nocc);
			break;
		}
	}
	if (GOT.ntask < REF.ntask) vd_count("tasks_lost", REF.ntask - GOT.ntask);
	if (GOT.nocc < REF.nocc) vd_count("runs_with_fewer_occurrences", 1);
	if (GOT.nocc > REF.nocc) vd_count("runs_with_more_occurrences", 1);
	if (vd_want_sample() && af.first_fam == FAM_REALLOC) {
		vd_sample("%s -> %d task(s), %d occurrences (undisturbed %d)", vd_sh->desc, GOT.ntask, GOT.nocc, REF.nocc);
	}
}

/* On a tree where one kind of refusal keeps killing the worker every further case of the kind costs a sanitizer
 * report, a new worker and its two passes over the documents: after CRASHCAP deaths under one signature (in this
 * shard) the remaining cases of that signature are left out and counted.  Never happens on a tree without such a
 * report. */
#define CRASHCAP	3
static unsigned char kind_of[MAXDOCS];

static int
crashed_often(int kind, int fam, int sticky)
{
	char sig[VD_SIGLEN];

	snprintf(sig, sizeof(sig), "crash/allocfail/%s/%s/%s", kindname[kind], famname[fam], sticky ? "from" : "once");
	for (int i = 0; i < VD_NSIG && vd_sh->sig[i].sig[0]; i++) {
		if (!strcmp(vd_sh->sig[i].sig, sig)) {
			return vd_sh->sig[i].n >= CRASHCAP;
		}
	}
	return 0;
}

static void
enumerate(void)
{
	const int full = !strcmp(vd_opt("docs", "menu"), "full");
	const char *mode = vd_opt("mode", "both");
	const int m_lo = !strcmp(mode, "from") ? 1 : 0, m_hi = !strcmp(mode, "once") ? 0 : 1;
	long ndoc = 0;

	/* two passes over all documents, the same in every worker: the second one says how many calls the
	 * undisturbed parse makes once the process-wide tables (UIDs, states) hold what the documents mention */
	if (warm == NULL && (warm = calloc(MAXDOCS, sizeof(*warm))) == NULL) {
		fprintf(stderr, "c10_allocfail: no memory\n");
		exit(2);
	}
	for (int pass = 0; pass < 2; pass++) {
		for (ndoc = 0; ndoc < MAXDOCS && nth_doc(&D, ndoc, full); ndoc++) {
			run(&REF, D.text, D.n, 0, 0);
			(void)g_end();
			warm[ndoc].n = af.calls < MAXCALLS ? (int)af.calls : MAXCALLS - 1;
			memcpy(warm[ndoc].fam, af.fam, sizeof(af.fam));
			kind_of[ndoc] = (unsigned char)D.kind;
		}
	}
	for (long di = 0; di < ndoc; di++) {
		int have = 0, refok = 0;

		for (int sticky = m_lo; sticky <= m_hi; sticky++) {
			for (long k = 1; k <= warm[di].n; k++) {
				if (vd_stop()) {
					return;
				}
				if (!vd_next()) {
					continue;
				}
				if (vd_only < 0 && crashed_often(kind_of[di], k < MAXCALLS ? warm[di].fam[k] : 0, sticky)) {
					vd_count("left_out_after_repeated_crashes", 1);
					continue;
				}
				if (!have) {
					have = 1;
					nth_doc(&D, di, full);
					run(&INC, D.inc, D.ninc, 0, 0);
					(void)g_end();
					run(&REF, D.text, D.n, 0, 0);
					refok = !g_end() && af.calls == warm[di].n && REF.ntask == 2 && INC.ntask == 2 && !REF.noend && !INC.noend && REF.nocc >= 4;
				}
				if (k == 1 && sticky == m_lo) {
					vd_count("documents", 1);
					vd_count("calls_undisturbed", warm[di].n);
				}
				one_case(&D, di, sticky, k, refok);
			}
		}
	}
}

int
main(int argc, char *argv[])
{
	return vd_main(argc, argv, enumerate);
}
