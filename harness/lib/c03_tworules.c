/* C03 / C07 / C16 -- one event with several recurrence sources is the union of its sources.
 *
 * An event with two RRULE lines (or an RRULE and an RDATE list) is, by the property texts, the duplicate-free
 * union of what each source gives on its own, in strictly increasing order (C03, C16), and when DTSTART carries a
 * TZID every source is expanded at that zone's wall-clock time (C07).  The oracle is differential and needs no
 * zone table: the event with both sources is compared with the union of the two events that carry one source each.
 *
 *   mode=rules   zone x time of day x season x rule pair (the pairs meet on common instants, interleave, or are
 *                disjoint); every reading in a freshly forked image
 *   mode=rdates  an RRULE plus an RDATE list that repeats rule occurrences and adds others, and RDATE lists whose
 *                members are written in different notations (VALUE=DATE, UTC, TZID) on one event: the set must be
 *                the union of the one-member events, the order non-decreasing whatever the raw order
 */
#include "vdrv.h"
#include <sys/wait.h>
#include "ref/icalio.h"
#include "ref/rfc5545.h"
#include "evrrul.h"
#include "evstrm.h"

#define MAXOCC	64
struct shm_s {
	int n;
	int64_t t[MAXOCC];
};
static struct shm_s *shm;

static void
drain1(const char *body)
{
	static char text[4096];
	echs_task_t t;

	ical_wrap(text, sizeof(text), "two@verif", body);
	shm->n = -1;
	if ((t = ical_task1(text)) == NULL || t->strm == NULL) {
		return;
	}
	for (shm->n = 0; shm->n < MAXOCC; shm->n++) {
		echs_event_t e = echs_evstrm_pop(t->strm);
		if (echs_nul_event_p(e)) break;
		if (echs_instant_all_day_p(e.from)) {
			rf_dt d = {e.from.y, e.from.m, e.from.d, 0, 0, 0, 0};
			shm->t[shm->n] = rf_secs(d);
		} else {
			rf_dt d = {e.from.y, e.from.m, e.from.d, e.from.H, e.from.M, e.from.S, 0};
			shm->t[shm->n] = rf_secs(d);
		}
	}
}

/* the events of TEXT (a whole calendar) merged the way echse does it, then selected with FILT the way
 * `echse unroll --filter' does it */
static void
drain_filtered(const char *text, const char *filt, const int *orig)
{
	echs_task_t t[8];
	echs_evstrm_t s[8], m;
	const size_t nt = ical_tasks(t, 8, text, strlen(text));
	struct rrulsp_s f = echs_read_rrul(filt, strlen(filt));

	shm->n = -1;
	if (!nt) return;
	for (size_t i = 0; i < nt; i++) s[i] = t[i]->strm;
	m = nt == 1 ? s[0] : echs_evstrm_vmux(s, nt);
	if (m == NULL) return;
	for (shm->n = 0; shm->n < MAXOCC;) {
		echs_event_t e = echs_evstrm_pop(m);
		if (echs_nul_event_p(e)) break;
		if (!echs_instant_matches_p(&f, echs_instant_detach_scale(e.from))) continue;
		rf_dt d = {e.from.y, e.from.m, e.from.d, 0, 0, 0, 0};
		/* who it was is part of the key: two constituents may be selected on one day */
		{
			int who = 7;
			for (size_t i = 0; i < nt; i++) if (t[i]->oid == e.oid) who = orig[i];
			shm->t[shm->n++] = rf_secs(d) + who;
		}
	}
}

static int
in_child_filtered(const char *text, const char *filt, const int *orig, int64_t *out)
{
	pid_t c;
	int st;
	fflush(stdout);
	if ((c = fork()) == 0) {
		drain_filtered(text, filt, orig);
		_exit(0);
	}
	while (waitpid(c, &st, 0) < 0 && errno == EINTR);
	if (!(WIFEXITED(st) && WEXITSTATUS(st) == 0)) return -2;
	if (shm->n > 0) memcpy(out, shm->t, sizeof(*out) * (size_t)shm->n);
	return shm->n;
}

static int
in_child(const char *body, int64_t *out)
{
	pid_t c;
	int st;
	fflush(stdout);
	if ((c = fork()) == 0) {
		drain1(body);
		_exit(0);
	}
	while (waitpid(c, &st, 0) < 0 && errno == EINTR);
	if (!(WIFEXITED(st) && WEXITSTATUS(st) == 0)) return -2;
	if (shm->n > 0) memcpy(out, shm->t, sizeof(*out) * (size_t)shm->n);
	return shm->n;
}

static int
cmp64(const void *a, const void *b)
{
	const int64_t x = *(const int64_t*)a, y = *(const int64_t*)b;
	return (x > y) - (x < y);
}

/* compare GOT (as delivered) with the duplicate-free sorted union of A and B */
static void
judge(const char *clause, const int64_t *got, int ng, const int64_t *a, int na, const int64_t *b, int nb, int strict)
{
	int64_t want[2 * MAXOCC];
	int nw = 0;
	char sig[128];

	for (int i = 0; i < na; i++) want[nw++] = a[i];
	for (int i = 0; i < nb; i++) want[nw++] = b[i];
	qsort(want, (size_t)nw, sizeof(*want), cmp64);
	{
		int w = 0;
		for (int i = 0; i < nw; i++) if (!w || want[w - 1] != want[i]) want[w++] = want[i];
		nw = w;
	}
	if (nw > MAXOCC) nw = MAXOCC;
	for (int i = 1; i < ng; i++) {
		if (got[i] < got[i - 1] || (strict && got[i] == got[i - 1])) {
			rf_dt d = rf_from_secs(got[i], 0);
			snprintf(sig, sizeof(sig), "%s/%s", got[i] == got[i - 1] ? "twice" : "order", clause);
			vd_viol(sig, "occurrence %d (%04d-%02d-%02dT%02d:%02d:%02dZ) %s occurrence %d", i + 1, d.y, d.m, d.d, d.H, d.M, d.S, got[i] == got[i - 1] ? "repeats" : "lies before", i);
			return;
		}
	}
	for (int i = 0; i < nw || i < ng; i++) {
		if (i >= ng || i >= nw || got[i] != want[i]) {
			rf_dt w = rf_from_secs(i < nw ? want[i] : 0, 0), g = rf_from_secs(i < ng ? got[i] : 0, 0);
			snprintf(sig, sizeof(sig), "union/%s", clause);
			vd_viol(sig, "occurrence %d: the sources on their own give %04d-%02d-%02dT%02d:%02d:%02dZ%s, the event gives %04d-%02d-%02dT%02d:%02d:%02dZ%s (%d vs %d occurrences)", i + 1,
				w.y, w.m, w.d, w.H, w.M, w.S, i < nw ? "" : " (nothing)", g.y, g.m, g.d, g.H, g.M, g.S, i < ng ? "" : " (nothing)", nw, ng);
			return;
		}
	}
}

static void
enumerate(void)
{
	const char *mode = vd_opt("mode", "rules");
	static const char *const zones[] = {NULL, "Europe/Berlin", "America/New_York", "Asia/Tokyo", "Asia/Kolkata"};
	static const char *const tods[] = {"090000", "233000", "003000"};
	static const char *const days[] = {"20240105", "20240705", "20240329"};
	static const char *const pairs[][2] = {
		{"FREQ=MONTHLY;BYMONTHDAY=5;COUNT=6", "FREQ=WEEKLY;BYDAY=MO;COUNT=12"},		/* meet on 2024-02-05, 08-05 */
		{"FREQ=DAILY;COUNT=5", "FREQ=WEEKLY;BYDAY=MO,TH;COUNT=5"},				/* interleave and meet */
		{"FREQ=DAILY;COUNT=3", "FREQ=DAILY;INTERVAL=2;COUNT=4"},				/* every other one in common */
		{"FREQ=YEARLY;COUNT=3", "FREQ=MONTHLY;INTERVAL=6;COUNT=5"},				/* sparse, in common each year */
		{"FREQ=HOURLY;INTERVAL=5;COUNT=8", "FREQ=DAILY;COUNT=3"},				/* sub-daily with daily */
	};
	char body[1024];
	int64_t a[MAXOCC], b[MAXOCC], ab[MAXOCC];

	vd_count_cases = 0;
	shm = mmap(NULL, sizeof(*shm), PROT_READ | PROT_WRITE, MAP_SHARED | MAP_ANONYMOUS, -1, 0);
	if (!strcmp(mode, "rules")) {
		for (size_t z = 0; z < sizeof(zones) / sizeof(*zones); z++) {
			for (size_t td = 0; td < sizeof(tods) / sizeof(*tods); td++) {
				for (size_t d = 0; d < sizeof(days) / sizeof(*days); d++) {
					for (size_t p = 0; p < sizeof(pairs) / sizeof(*pairs); p++) {
						for (int order = 0; order < 2; order++) {
							char dt[96];
							int na, nb, nab;
							if (!vd_next()) continue;
							vd_sh->evals++;
							if (zones[z]) snprintf(dt, sizeof(dt), "DTSTART;TZID=%s:%sT%s", zones[z], days[d], tods[td]);
							else snprintf(dt, sizeof(dt), "DTSTART:%sT%sZ", days[d], tods[td]);
							vd_desc("%s RRULE:%s RRULE:%s", dt, pairs[p][order], pairs[p][!order]);
							vd_shape("tworules/%s/pair%zu", zones[z] ? "zoned" : "utc", p);
							snprintf(body, sizeof(body), "%s\nRRULE:%s\n", dt, pairs[p][0]);
							na = in_child(body, a);
							snprintf(body, sizeof(body), "%s\nRRULE:%s\n", dt, pairs[p][1]);
							nb = in_child(body, b);
							snprintf(body, sizeof(body), "%s\nRRULE:%s\nRRULE:%s\n", dt, pairs[p][order], pairs[p][!order]);
							nab = in_child(body, ab);
							if (na <= 0 || nb <= 0 || nab < 0) {
								vd_viol(nab == -2 || na == -2 || nb == -2 ? "crash/tworules" : "rejected/tworules", "an event is not accepted or the image died (%d, %d, %d)", na, nb, nab);
								continue;
							}
							if (zones[z]) vd_nontrivial();
							judge(zones[z] ? "tworules/zoned" : "tworules/utc", ab, nab, a, na, b, nb, 1);
							if (vd_want_sample() && zones[z]) vd_sample("%s with %s and %s: %d + %d -> %d occurrences", dt, pairs[p][0], pairs[p][1], na, nb, nab);
						}
					}
				}
			}
		}
	} else if (!strcmp(mode, "filter")) {
		/* selection from a merged stream == union of the selections from its constituents */
		static const char *const evs[] = {
			"BEGIN:VEVENT\nUID:f-alpha\nSUMMARY:true\nDTSTART;VALUE=DATE:20240101\nRRULE:FREQ=DAILY;COUNT=21\nEND:VEVENT\n",
			"BEGIN:VEVENT\nUID:f-beta\nSUMMARY:true\nDTSTART;VALUE=DATE:20240101\nRRULE:FREQ=DAILY;INTERVAL=2;COUNT=11\nEND:VEVENT\n",
			"BEGIN:VEVENT\nUID:f-gamma\nSUMMARY:true\nDTSTART;VALUE=DATE:20240102\nRRULE:FREQ=WEEKLY;BYDAY=TU,SA;COUNT=6\nEND:VEVENT\n",
		};
		static const char *const filts[] = {"BYDAY=MO,TU", "BYMONTHDAY=1,2,9,16", "BYDAY=SA"};
		for (unsigned m = 1; m < 8; m++) {
			for (size_t fi = 0; fi < sizeof(filts) / sizeof(*filts); fi++) {
				static char text[2048];
				int64_t un[2 * MAXOCC], got[MAXOCC], one[MAXOCC];
				int nu = 0, ng, k = 0, orig[3];
				size_t o;
				if (!vd_next()) continue;
				vd_sh->evals++;
				vd_shape("filter/n=%d", __builtin_popcount(m));
				o = (size_t)snprintf(text, sizeof(text), "BEGIN:VCALENDAR\nVERSION:2.0\n");
				for (int i = 0; i < 3; i++) {
					if (!(m >> i & 1U)) continue;
					orig[k++] = i;
					o += (size_t)snprintf(text + o, sizeof(text) - o, "%s", evs[i]);
					{
						static char t1[1024];
						int n1;
						snprintf(t1, sizeof(t1), "BEGIN:VCALENDAR\nVERSION:2.0\n%sEND:VCALENDAR\n", evs[i]);
						n1 = in_child_filtered(t1, filts[fi], &i, one);
						for (int j = 0; j < n1 && nu < 2 * MAXOCC; j++) un[nu++] = one[j];
					}
				}
				o += (size_t)snprintf(text + o, sizeof(text) - o, "END:VCALENDAR\n");
				vd_desc("events of mask %#x merged, selected with --filter %s", m, filts[fi]);
				ng = in_child_filtered(text, filts[fi], orig, got);
				if (ng < 0) {
					vd_viol("crash/filter", "not accepted or the image died");
					continue;
				}
				if (k > 1) vd_nontrivial();
				/* order within a day is by constituent, compare as sorted sets */
				qsort(got, (size_t)ng, sizeof(*got), cmp64);
				judge("filter", got, ng, un, nu, NULL, 0, 0);
			}
		}
	} else {
		/* RRULE + RDATE list that repeats rule occurrences, and mixed-notation RDATE lists */
		static const struct { const char *name; const char *dt; const char *rule; const char *m[4]; } R[] = {
			{"rule+repeats", "DTSTART:20240105T090000Z", "RRULE:FREQ=WEEKLY;COUNT=6\n",
			 {"RDATE:20240112T090000Z", "RDATE:20240119T090000Z", "RDATE:20240120T090000Z", "RDATE:20240301T090000Z"}},
			{"rule+repeats-zoned", "DTSTART;TZID=Europe/Berlin:20240105T090000", "RRULE:FREQ=WEEKLY;COUNT=6\n",
			 {"RDATE;TZID=Europe/Berlin:20240112T090000", "RDATE:20240119T080000Z", "RDATE;TZID=Europe/Berlin:20240120T090000", "RDATE:20240301T080000Z"}},
			{"date-and-datetime", "DTSTART:20240105T120000Z", "",
			 {"RDATE;VALUE=DATE:20240301", "RDATE:20240301T010000Z", "RDATE:20240229T230000Z", "RDATE;VALUE=DATE:20240405"}},
			{"date-datetime-same-day", "DTSTART:20240105T120000Z", "",
			 {"RDATE;VALUE=DATE:20240405", "RDATE:20240405T060000Z", "RDATE:20240405T120000Z", "RDATE:20240406T000000Z"}},
			{"tzid-and-utc", "DTSTART:20240105T120000Z", "",
			 {"RDATE;TZID=Asia/Tokyo:20240302T050000", "RDATE:20240301T210000Z", "RDATE;TZID=America/New_York:20240301T150000", "RDATE:20240301T190000Z"}},
		};
		for (size_t r = 0; r < sizeof(R) / sizeof(*R); r++) {
			/* every non-empty subset of the four members in every order of writing them */
			for (unsigned m = 1; m < 16; m++) {
				int idx[4], k = 0;
				for (int i = 0; i < 4; i++) if (m >> i & 1U) idx[k++] = i;
				int perm[4] = {0, 1, 2, 3};
				int nperm = k == 1 ? 1 : k == 2 ? 2 : k == 3 ? 6 : 24;
				for (int pi = 0; pi < nperm; pi++) {
					int64_t base[MAXOCC], un[2 * MAXOCC], got[MAXOCC];
					int nbse, nu = 0, ng;
					size_t o;
					if (!vd_next()) {
						/* next permutation anyway */
						goto nextperm;
					}
					vd_sh->evals++;
					vd_shape("rdates/%s/n=%d", R[r].name, k);
					/* the event without any RDATE */
					snprintf(body, sizeof(body), "%s\n%s", R[r].dt, R[r].rule);
					nbse = R[r].rule[0] ? in_child(body, base) : 0;
					for (int i = 0; i < nbse && nu < 2 * MAXOCC; i++) un[nu++] = base[i];
					for (int i = 0; i < k; i++) {
						int64_t one[MAXOCC];
						int n1;
						snprintf(body, sizeof(body), "%s\n%s\n", R[r].dt, R[r].m[idx[perm[i] % k]]);
						n1 = in_child(body, one);
						/* an event with DTSTART and one RDATE, no rule: the RDATE (DTSTART is no occurrence of an RDATE-only event) */
						for (int j = 0; j < n1 && nu < 2 * MAXOCC; j++) un[nu++] = one[j];
					}
					o = (size_t)snprintf(body, sizeof(body), "%s\n%s", R[r].dt, R[r].rule);
					for (int i = 0; i < k; i++) o += (size_t)snprintf(body + o, sizeof(body) - o, "%s\n", R[r].m[idx[perm[i] % k]]);
					vd_desc("%s", body);
					for (char *q = vd_sh->desc; *q; q++) if (*q == '\n') *q = ' ';
					ng = in_child(body, got);
					if (ng < 0) {
						vd_viol(ng == -2 ? "crash/rdates" : "rejected/rdates", "the event is not accepted or the image died");
					} else {
						char cl[64];
						snprintf(cl, sizeof(cl), "rdates/%s", R[r].name);
						if (k > 1) vd_nontrivial();
						judge(cl, got, ng, un, nu, NULL, 0, 1);
					}
				nextperm:
					/* lexicographic next permutation of perm[0..k) */
					{
						int i = k - 2;
						while (i >= 0 && perm[i] > perm[i + 1]) i--;
						if (i >= 0) {
							int j = k - 1;
							while (perm[j] < perm[i]) j--;
							int x = perm[i]; perm[i] = perm[j]; perm[j] = x;
							for (int lo = i + 1, hi = k - 1; lo < hi; lo++, hi--) { x = perm[lo]; perm[lo] = perm[hi]; perm[hi] = x; }
						}
					}
				}
			}
		}
	}
}

int
main(int argc, char *argv[])
{
	return vd_main(argc, argv, enumerate);
}
