/* C16 (folded bounds) -- the bound of a rule holds however its RRULE line is folded and however the bytes arrive.
 *
 * A one-event calendar DTSTART:20240101T120000Z + RRULE:<rule> whose rule carries COUNT and/or UNTIL is written with
 * the RRULE line folded once (RFC 5545 3.1: line break followed by SPACE or HTAB) at EVERY position of the line,
 * with LF and with CRLF line ends, and handed to the real push parser the way the callers do it (one buffer that is
 * reused for every chunk, after every push pull until the parser has nothing more, at the end of input either pull +
 * last_pull (echse, echsq, echsx) or push(buf, 0) + pull + last_pull (echsd)) in
 *   cuts=1   two pieces, the cut at every byte position of the text
 *   cuts=2   three pieces, the middle one a single byte, at every byte position
 * The stream of the event is followed to its end (cap 200).  Oracle, from the text alone:
 *   count    never more than COUNT occurrences
 *   until    no occurrence after UNTIL
 *   endless  a bounded rule ends within the cap
 *   differs  the occurrences are those of the same event written unfolded and pushed in one piece
 *            (number of events, number of occurrences, every start)
 *   crash/hang by the supervisor
 *
 * case = (rule, fold blank, line end, fold position); every partition of it is one evaluation.
 * options: cuts=1|2|12 (default 12), final=E|D|ED (default ED), nocount=1
 */
#include "vdrv.h"
#include <stdbool.h>
#include "evical.h"
#include "task.h"
#include "instruc.h"
#include "instant.h"
#include "evstrm.h"

/* a second pass over the same cases (sanitizer build) does not count them again: nocount=1 */
static int nocount;

#define CAP	200

static const struct {
	const char *kind;	/* signature part */
	const char *rule;
	int count;		/* 0: none */
	int until_day;		/* UNTIL=202401ddT120000Z, 0: none */
} rules[] = {
	{"COUNT", "FREQ=DAILY;COUNT=7", 7, 0},
	{"UNTIL", "FREQ=DAILY;UNTIL=20240110T120000Z", 0, 10},
	{"COUNT+UNTIL", "FREQ=DAILY;COUNT=40;UNTIL=20240110T120000Z", 40, 10},
	{"UNTIL+COUNT", "FREQ=DAILY;UNTIL=20240125T120000Z;COUNT=4", 4, 25},
	{"COUNT", "FREQ=WEEKLY;BYDAY=MO,WE;COUNT=5", 5, 0},
	{"COUNT", "COUNT=70;FREQ=DAILY;INTERVAL=2", 70, 0},
	{"UNTIL", "UNTIL=20240131T120000Z;FREQ=DAILY;BYHOUR=6,12", 0, 31},
};
#define NRULES	((int)(sizeof(rules) / sizeof(*rules)))

static const char *const eolname[] = {"LF", "CRLF"};
static const char *const wsname[] = {"SPACE", "HTAB"};

struct res_s {
	int ntask;
	int n;		/* occurrences of the first task */
	int more;	/* cap reached */
	uint64_t occ[CAP];
};

/* the callers' buffer; bytes behind the chunk are stale */
static unsigned char iobuf[4096];

static void
take(struct res_s *r, echs_instruc_t ins)
{
	if (ins.v != INSVERB_SCHE || ins.t == NULL) {
		return;
	}
	if (r->ntask++ == 0 && ins.t->strm != NULL) {
		for (;;) {
			echs_event_t e = echs_evstrm_pop(ins.t->strm);
			if (echs_nul_event_p(e)) {
				break;
			} else if (r->n >= CAP) {
				r->more = 1;
				break;
			}
			r->occ[r->n++] = e.from.u;
		}
	}
	free_echs_task(ins.t);
}

static void
pull_loop(ical_parser_t *pp, struct res_s *r)
{
	for (int g = 0; g < 64; g++) {
		echs_instruc_t ins = echs_evical_pull(pp);
		if (ins.v == INSVERB_UNK) {
			break;
		}
		take(r, ins);
	}
}

/* push TEXT in pieces ending at CUT[0..NCUT) and at LEN */
static void
run(struct res_s *r, const char *text, size_t len, const size_t *cut, int ncut, int final_d)
{
	ical_parser_t pp = NULL;
	size_t off = 0;

	memset(r, 0, sizeof(*r));
	memset(iobuf, 'Z', sizeof(iobuf));
	for (int k = 0; off < len; k++) {
		const size_t end = k < ncut ? cut[k] : len;
		memcpy(iobuf, text + off, end - off);
		if (echs_evical_push(&pp, (const char*)iobuf, end - off) < 0) {
			r->ntask = -1;
			return;
		}
		pull_loop(&pp, r);
		off = end;
	}
	if (final_d && echs_evical_push(&pp, (const char*)iobuf, 0U) < 0) {
		return;
	}
	pull_loop(&pp, r);
	take(r, echs_evical_last_pull(&pp));
}

static size_t
mktext(char *buf, size_t bsz, const char *rrline, const char *eol, size_t *rr_off)
{
	size_t n = 0;
	n += (size_t)snprintf(buf + n, bsz - n, "BEGIN:VCALENDAR%sVERSION:2.0%sBEGIN:VEVENT%sUID:c16f@verif%sSUMMARY:true%sDTSTART:20240101T120000Z%s",
			      eol, eol, eol, eol, eol, eol);
	*rr_off = n;
	n += (size_t)snprintf(buf + n, bsz - n, "%s%sEND:VEVENT%sEND:VCALENDAR%s", rrline, eol, eol, eol);
	return n;
}

static const char*
istr(char *buf, size_t bsz, uint64_t u)
{
	echs_instant_t i;
	i.u = u;
	snprintf(buf, bsz, "%04u-%02u-%02uT%02u:%02u:%02uZ", i.y, i.m, i.d, i.H, i.M, i.S);
	return buf;
}

static void
show_cuts(char *buf, size_t bsz, const char *text, const size_t *cut, int ncut)
{
	/* the bytes around the first cut, made printable */
	size_t n = 0;
	const size_t c = cut[0];
	n += (size_t)snprintf(buf + n, bsz - n, "%d pieces, first cut at byte %zu (", ncut + 1, c);
	for (size_t i = c >= 6 ? c - 6 : 0; i < c + 6 && text[i] && n + 8 < bsz; i++) {
		if (i == c) {
			buf[n++] = '|';
		}
		switch (text[i]) {
		case '\n': n += (size_t)snprintf(buf + n, bsz - n, "\\n"); break;
		case '\r': n += (size_t)snprintf(buf + n, bsz - n, "\\r"); break;
		case '\t': n += (size_t)snprintf(buf + n, bsz - n, "\\t"); break;
		default: buf[n++] = text[i]; break;
		}
	}
	snprintf(buf + n, bsz - n, ")");
}

static void
fold_case(int ri, int ws, int eo, int fp, int cutmask, int finmask)
{
	const char *const eol = eo ? "\r\n" : "\n";
	char line[160], fline[176], plain[640], text[704];
	size_t ll, plen, tlen, rr0, rr0p;
	static struct res_s ref, got;
	/* fold: bytes [fold_lf] = LF, [fold_lf + 1] = blank, relative to the text */
	size_t fold_lf;
	char sig[200], b1[40], b2[40], cs[96];
	bool r_count = false, r_until = false, r_endless = false, r_differs = false;
	uint64_t until_u = 0;

	ll = (size_t)snprintf(line, sizeof(line), "RRULE:%s", rules[ri].rule);
	if (fp < 1 || (size_t)fp >= ll) {
		return;
	}
	snprintf(fline, sizeof(fline), "%.*s%s%c%s", fp, line, eol, ws ? '\t' : ' ', line + fp);
	plen = mktext(plain, sizeof(plain), line, eol, &rr0p);
	tlen = mktext(text, sizeof(text), fline, eol, &rr0);
	fold_lf = rr0 + (size_t)fp + (eo ? 1U : 0U);
	(void)rr0p;

	if (rules[ri].until_day) {
		echs_instant_t u = {.y = 2024, .m = 1, .d = (unsigned)rules[ri].until_day, .H = 12, .M = 0, .S = 0, .ms = ECHS_ALL_SEC};
		until_u = u.u;
	}
	/* the reference: unfolded, one piece */
	run(&ref, plain, plen, NULL, 0, 0);
	if (ref.ntask != 1 || ref.n < 2 || ref.more) {
		snprintf(sig, sizeof(sig), "folded/reference/%s", rules[ri].kind);
		vd_viol(sig, "the unfolded event pushed in one piece gives %d events, %d occurrences%s", ref.ntask, ref.n, ref.more ? " and more" : "");
		return;
	}
	if (!nocount) vd_nontrivial();
	for (int nc = 0; nc <= 2; nc++) {
		if (nc && !(cutmask >> (nc - 1) & 1)) {
			continue;
		}
		for (size_t c = nc ? 1 : 0; c < (nc ? tlen - (size_t)(nc - 1) : 1); c++) {
			const size_t cut[2] = {c, c + 1};
			for (int fin = 0; fin < 2; fin++) {
				const char *cls;
				int nafter = 0;

				if (!(finmask >> fin & 1)) {
					continue;
				}
				vd_sh->evals++;
				vd_beat();
				run(&got, text, tlen, cut, nc, fin);
				/* where the (first) cut sits */
				if (!nc) {
					cls = "uncut";
				} else if (c == fold_lf + 1 || (nc == 2 && c + 1 == fold_lf + 1)) {
					cls = "cut-between-break-and-blank";
				} else if (c == fold_lf + 2 || (nc == 2 && c + 1 == fold_lf + 2)) {
					cls = "cut-behind-blank";
				} else if (c == fold_lf || (nc == 2 && c + 1 == fold_lf) || (eo && (c == fold_lf - 1 || (nc == 2 && c + 1 == fold_lf - 1)))) {
					cls = "cut-in-front-of-or-inside-break";
				} else if (c > rr0 && c < rr0 + strlen(fline)) {
					cls = "cut-elsewhere-in-rrule";
				} else {
					cls = "cut-in-another-line";
				}
				if (nc) {
					show_cuts(cs, sizeof(cs), text, cut, nc);
				} else {
					snprintf(cs, sizeof(cs), "one piece");
				}
				if (rules[ri].count && got.n > rules[ri].count && !r_count) {
					r_count = true;
					snprintf(sig, sizeof(sig), "folded/count/%s/%s/%s/%s", rules[ri].kind, wsname[ws], eolname[eo], cls);
					vd_viol(sig, "%s, %s: %d%s occurrences of a rule with COUNT=%d (last seen %s)", cs, fin ? "final empty push" : "final pull",
						got.n, got.more ? "+" : "", rules[ri].count, istr(b1, sizeof(b1), got.occ[got.n - 1]));
				}
				for (int i = 0; i < got.n && until_u; i++) {
					nafter += got.occ[i] > until_u;
				}
				if (nafter && !r_until) {
					r_until = true;
					snprintf(sig, sizeof(sig), "folded/until/%s/%s/%s/%s", rules[ri].kind, wsname[ws], eolname[eo], cls);
					vd_viol(sig, "%s, %s: %d of %d%s occurrences lie after UNTIL=%s (last seen %s)", cs, fin ? "final empty push" : "final pull",
						nafter, got.n, got.more ? "+" : "", istr(b2, sizeof(b2), until_u), istr(b1, sizeof(b1), got.occ[got.n - 1]));
				}
				if (got.more && !r_endless && !r_count && !nafter) {
					r_endless = true;
					snprintf(sig, sizeof(sig), "folded/endless/%s/%s/%s/%s", rules[ri].kind, wsname[ws], eolname[eo], cls);
					vd_viol(sig, "%s, %s: the stream of a bounded rule is still going after %d occurrences", cs, fin ? "final empty push" : "final pull", CAP);
				}
				if (!r_differs && (got.ntask != ref.ntask || got.n != ref.n || memcmp(got.occ, ref.occ, (size_t)ref.n * sizeof(*ref.occ)))) {
					int i;
					for (i = 0; i < got.n && i < ref.n && got.occ[i] == ref.occ[i]; i++);
					r_differs = true;
					snprintf(sig, sizeof(sig), "folded/differs/%s/%s/%s/%s", rules[ri].kind, wsname[ws], eolname[eo], cls);
					vd_viol(sig, "%s, %s: %d event(s) with %d%s occurrences, unfolded in one piece 1 event with %d; first difference at #%d: %s vs %s", cs,
						fin ? "final empty push" : "final pull", got.ntask, got.n, got.more ? "+" : "", ref.n, i + 1,
						i < got.n ? istr(b1, sizeof(b1), got.occ[i]) : "(end)", i < ref.n ? istr(b2, sizeof(b2), ref.occ[i]) : "(end)");
				}
			}
		}
	}
	if (vd_want_sample()) {
		char esc[400];
		size_t n = 0;
		for (const char *p = fline; *p && n + 4 < sizeof(esc); p++) {
			switch (*p) {
			case '\n': esc[n++] = '\\', esc[n++] = 'n'; break;
			case '\r': esc[n++] = '\\', esc[n++] = 'r'; break;
			case '\t': esc[n++] = '\\', esc[n++] = 't'; break;
			default: esc[n++] = *p; break;
			}
		}
		esc[n] = '\0';
		vd_sample("%s in a %zu-byte calendar, every cut: %d occurrences each time (last %s)", esc, tlen, ref.n, istr(b1, sizeof(b1), ref.occ[ref.n - 1]));
	}
}

static void
enumerate(void)
{
	const char *cuts = vd_opt("cuts", "12");
	const char *fin = vd_opt("final", "ED");
	const int cutmask = (strchr(cuts, '1') ? 1 : 0) | (strchr(cuts, '2') ? 2 : 0);
	const int finmask = (strchr(fin, 'E') ? 1 : 0) | (strchr(fin, 'D') ? 2 : 0);

	vd_count_cases = 0;
	nocount = (int)vd_opt_l("nocount", 0);
	for (int ri = 0; ri < NRULES; ri++) {
		const int ll = (int)strlen(rules[ri].rule) + 6;
		for (int fp = 1; fp < ll; fp++) {
			for (int eo = 0; eo < 2; eo++) {
				for (int ws = 0; ws < 2; ws++) {
					if (!vd_next()) continue;
					vd_desc("DTSTART:20240101T120000Z RRULE:%s, the RRULE line folded with %s + %s after its byte %d (in front of '%s')",
						rules[ri].rule, eolname[eo], wsname[ws], fp, rules[ri].rule + (fp > 6 ? fp - 6 : 0));
					vd_shape("folded/%s/%s/%s", rules[ri].kind, wsname[ws], eolname[eo]);
					fold_case(ri, ws, eo, fp, cutmask, finmask);
				}
			}
		}
	}
}

int
main(int argc, char *argv[])
{
	return vd_main(argc, argv, enumerate);
}
