/* C10 -- iCalendar parsing is independent of how the bytes arrive.
 *
 * Documents (byte strings) are fed to the real pull parser of /repo/src/evical.c
 * (echs_evical_push / _pull / _last_pull) under every partition inside a stated
 * bound, the way the callers do it: ONE fixed buffer that is reused for every
 * chunk (bytes behind the chunk are stale), after every push pull until the
 * parser says INSVERB_UNK (echsd.c cmd_ical()), at end of input either
 *   mode E  pull again without a push, then last_pull   (echse.c _inject_fd(),
 *           echsx.c, echsq.c: read() == 0 falls into the pull loop)
 *   mode D  push(buf, 0), pull, then last_pull           (echsd.c sock_data_cb():
 *           recv() == 0 is fed like any other chunk, then shut_cmd())
 * Every pulled instruction is dumped (verb, oid, all task fields, first 5
 * occurrences with durations and states, cancel range).
 *
 * Oracle clauses
 *   chunk-dep  dump(mode E, partition)          == dump(mode E, no cut)
 *   finalpush  dump(mode D, partition)          == dump(mode E, same partition)
 *   stale      dump(.., stale fill ' ')         == dump(.., stale fill 'Z')
 *   runaway    no pull loop yields more than 4096 instructions
 *   crash/hang by the supervisor of vdrv.h (ASan/bounds in the asan variant)
 *
 * Options (--opt k=v)
 *   docs=samples|crafted|tokR|tokC|datelists   document family (datelists: see enum_datelists(); maxlines=2|3 kinds=RXB)
 *   N=<n>            tok*: every string of 0..n tokens (minN=<m> to start at m)
 *   meth=0|1         tokC: wrapper without / with METHOD:CANCEL
 *   parts=c0,c1,c2,ones,reg   partition families to run
 *   c1max=<bytes>    documents longer than this get single cuts only near line
 *                    ends / the 1 KiB line limit (default: every position)
 *   c2max=<bytes>    same for pairs (default 400, as DESIGN says)
 *   dir=<path>       where the sample files are (default /repo/test)
 *   emit=<path>      write the document of every executed case there (use with --only)
 */
#include "vdrv.h"
#include <stdbool.h>
#include <dirent.h>
#include <fcntl.h>
#include "evical.h"
#include "task.h"
#include "instruc.h"
#include "intern.h"
#include "nummapstr.h"
#include "strlst.h"

#define DOCMAX		32768
#define DUMPMAX		(1 << 18)
#define MAXINS		4096
#define FILL_A		'Z'
#define FILL_B		' '
enum {MODE_E, MODE_D};

/* the callers' buffer: echse 64 KiB, echsq 32 KiB, echsd/echsx 4 KiB; one will do */
static unsigned char iobuf[65536 + 64];

/* cut classes: which construct sits at the cut */
enum {K_NONE, K_OVERLONG, K_NEARLONG, K_NUL, K_ESCAPE, K_FOLD, K_CRLF, K_EOL, K_PLAIN, NKLASS};
static const char *kname[] = {
	"nocut", "overlong-line", "nearlong-line", "nul", "escape", "fold", "crlf", "eol", "plain"
};

struct doc {
	char name[512];
	const char *fam;
	unsigned char b[DOCMAX];
	size_t n;
	/* own lexical analysis, nothing of it comes from the parser */
	unsigned char cls[DOCMAX + 1];
	bool blank;	/* holds an empty line */
	bool lng;	/* holds a logical line of >= 1024 bytes */
	/* restricted cut positions (near line ends and the 1 KiB limit) */
	unsigned char near[DOCMAX + 1];
	/* per single cut: -1 unknown, 0 same as reference, 1 differs (mode E) */
	signed char s1[DOCMAX + 1];
};

struct part {
	int ncuts;		/* 0, 1, 2 explicit cuts, or */
	size_t cut[2];
	size_t regsz;		/* > 0: regular chunks of that size */
	const char *fam;
};

#define F_EOP		1U	/* parser dismantled itself before the end of input */
#define F_IGN		2U	/* a pull said UNK but carried an oid (ignored instruction) */
#define F_TRUNC		4U
#define F_PUSHFAIL	8U
#define F_RUNAWAY	16U

struct obs {
	size_t n;
	int nins;
	unsigned fl;
	char s[DUMPMAX];
};

static struct doc D;
static struct obs REF, OA, OB, OE;
static const char *emit_path;
/* family datelists: dump every occurrence of a task, not only the first five */
#define OCCMAX		4000
static int occ_all;
static int last_nocc;


/* dumping, hand-rolled because this is the hot path */
#define SEP	'\037'

static inline void
ob_c(struct obs *o, char c)
{
	if (o->n < DUMPMAX - 1) {
		o->s[o->n++] = c;
	} else {
		o->fl |= F_TRUNC;
	}
}

static void
ob_s(struct obs *o, const char *s)
{
	while (*s) {
		ob_c(o, *s++);
	}
}

static void
ob_hex(struct obs *o, uint64_t x)
{
	char tmp[16];
	int i = 0;
	do {
		tmp[i++] = "0123456789abcdef"[x & 15U];
	} while ((x >>= 4U));
	while (i) {
		ob_c(o, tmp[--i]);
	}
}

static void
ob_key(struct obs *o, const char *k)
{
	ob_c(o, SEP);
	ob_s(o, k);
	ob_c(o, '=');
}

/* value text, control bytes and the separators made visible */
static void
ob_val(struct obs *o, const char *s)
{
	if (s == NULL) {
		ob_c(o, '~');
		return;
	}
	ob_c(o, '"');
	for (const unsigned char *p = (const unsigned char*)s; *p; p++) {
		if (*p < 0x20 || *p >= 0x7f || *p == '\\') {
			ob_c(o, '\\');
			ob_c(o, "0123456789abcdef"[*p >> 4]);
			ob_c(o, "0123456789abcdef"[*p & 15]);
		} else {
			ob_c(o, (char)*p);
		}
	}
	ob_c(o, '"');
}

static void
ob_nms(struct obs *o, const char *k, nummapstr_t x)
{
	ob_key(o, k);
	if (nummapstr_str(x) != NULL || x == 0) {
		ob_val(o, nummapstr_str(x));
	} else {
		ob_c(o, '#');
		ob_hex(o, nummapstr_num(x));
	}
}

static void
ob_lst(struct obs *o, const char *k, const struct strlst_s *l)
{
	ob_key(o, k);
	if (l == NULL) {
		ob_c(o, '~');
		return;
	}
	ob_c(o, '[');
	for (size_t i = 0; i < l->nl && l->l[i] != NULL; i++) {
		if (i) {
			ob_c(o, ',');
		}
		ob_val(o, l->l[i]);
	}
	ob_c(o, ']');
}

static const char*
verbname(echs_insverb_t v)
{
	switch (v) {
	case INSVERB_UNK: return "UNK";
	case INSVERB_LIST: return "LIST";
	case INSVERB_SCHE: return "SCHE";
	case INSVERB_RESC: return "RESC";
	case INSVERB_UNSC: return "UNSC";
	case INSVERB_NEXT: return "NEXT";
	case INSVERB_SKIP: return "SKIP";
	default: return "VERB?";
	}
}

/* one record per instruction; consumes (frees) the task */
static void
dump_ins(struct obs *o, echs_instruc_t ins, bool last)
{
	o->nins++;
	if (last) {
		ob_s(o, "L:");
	}
	ob_s(o, verbname(ins.v));
	if (ins.v != INSVERB_SCHE) {
		ob_key(o, "uid");
		ob_hex(o, ins.o);
		ob_key(o, "rng");
		ob_hex(o, ins.rng.beg.u);
		ob_c(o, '-');
		ob_hex(o, ins.rng.end.u);
	} else if (ins.t == NULL) {
		ob_key(o, "task");
		ob_c(o, '~');
	} else {
		echs_task_t t = ins.t;

		ob_key(o, "uid");
		ob_hex(o, t->oid);
		ob_key(o, "cmd"), ob_val(o, t->cmd);
		ob_lst(o, "env", t->env);
		ob_nms(o, "owner", t->owner);
		ob_nms(o, "suid", t->run_as.u);
		ob_nms(o, "sgid", t->run_as.g);
		ob_key(o, "wd"), ob_val(o, t->run_as.wd);
		ob_key(o, "sh"), ob_val(o, t->run_as.sh);
		ob_key(o, "desc"), ob_val(o, t->desc);
		ob_key(o, "org"), ob_val(o, t->org);
		ob_lst(o, "att", t->att);
		ob_key(o, "src"), ob_val(o, t->src);
		ob_key(o, "in"), ob_val(o, t->in);
		ob_key(o, "out"), ob_val(o, t->out);
		ob_key(o, "err"), ob_val(o, t->err);
		ob_key(o, "mail");
		ob_hex(o, t->mailout | t->moutset << 1 | t->mailerr << 2 |
		       t->merrset << 3 | t->mailrun << 4 | t->mrunset << 5);
		ob_key(o, "maxsimul"), ob_hex(o, t->max_simul);
		ob_key(o, "umask"), ob_hex(o, t->umsk);
		ob_key(o, "vtod"), ob_hex(o, t->vtod_typ), ob_c(o, ':'), ob_hex(o, t->due.u);
		ob_key(o, "occ");
		if (t->strm == NULL) {
			ob_c(o, '~');
		} else {
			int k;
			for (k = 0; k < 5; k++) {
				echs_event_t e = echs_evstrm_next(t->strm);
				if (echs_nul_event_p(e)) {
					ob_s(o, "end");
					break;
				}
				ob_hex(o, e.from.u);
				ob_c(o, '+');
				ob_hex(o, (uint64_t)e.dur.d);
				ob_c(o, '/');
				ob_hex(o, e.sts);
				ob_c(o, ',');
				(void)echs_evstrm_pop(t->strm);
			}
			if (occ_all) {
				/* family datelists: every occurrence counts, the ones behind the fifth as number and digest */
				uint64_t h = 0;
				int n = k;
				for (; k == 5 && n < OCCMAX; n++) {
					echs_event_t e = echs_evstrm_pop(t->strm);
					if (echs_nul_event_p(e)) {
						break;
					}
					h = ((h << 7U) | (h >> 57U)) ^ e.from.u ^ (uint64_t)e.dur.d ^ ((uint64_t)e.sts << 50U);
				}
				ob_key(o, "nocc"), ob_hex(o, (uint64_t)n), ob_c(o, ':'), ob_hex(o, h);
				last_nocc = n;
			}
		}
		free_echs_task(t);
	}
	ob_c(o, '\n');
}

static void
pull_loop(ical_parser_t *pp, struct obs *o, bool before_eof)
{
	int g;

	for (g = 0; g < MAXINS; g++) {
		echs_instruc_t ins = echs_evical_pull(pp);

		if (ins.v == INSVERB_UNK) {
			if (ins.o) {
				o->fl |= F_IGN;
			}
			break;
		}
		dump_ins(o, ins, false);
	}
	if (g >= MAXINS) {
		o->fl |= F_RUNAWAY;
	}
	if (before_eof && *pp == NULL) {
		o->fl |= F_EOP;
	}
}

/* the emulated caller */
static void
run(const struct doc *d, const struct part *p, int mode, int fill, struct obs *o)
{
	ical_parser_t pp = NULL;
	size_t off = 0;
	int k = 0;

	o->n = 0, o->nins = 0, o->fl = 0;
	/* what an earlier connection / file left in the buffer */
	memset(iobuf, fill, d->n + 64 < sizeof(iobuf) ? d->n + 64 : sizeof(iobuf));
	while (off < d->n) {
		size_t end;

		if (p->regsz) {
			end = off + p->regsz < d->n ? off + p->regsz : d->n;
		} else {
			end = k < p->ncuts ? p->cut[k++] : d->n;
		}
		memcpy(iobuf, d->b + off, end - off);
		if (echs_evical_push(&pp, (const char*)iobuf, end - off) < 0) {
			o->fl |= F_PUSHFAIL;
			ob_s(o, "PUSHFAIL\n");
			return;
		}
		pull_loop(&pp, o, true);
		off = end;
	}
	if (mode == MODE_D) {
		/* recv() == 0 is fed like data; with no parser left feed_cmd()
		 * says ECHS_CMD_UNK and shut_cmd() has nothing to shut */
		if (echs_evical_push(&pp, (const char*)iobuf, 0U) < 0) {
			o->s[o->n] = '\0';
			return;
		}
	}
	pull_loop(&pp, o, false);
	{
		echs_instruc_t ins = echs_evical_last_pull(&pp);

		/* PP dangles now */
		pp = NULL;
		if (ins.v != INSVERB_UNK) {
			dump_ins(o, ins, true);
		}
	}
	o->s[o->n] = '\0';
}

static inline bool
same(const struct obs *a, const struct obs *b)
{
	return a->n == b->n && !memcmp(a->s, b->s, a->n);
}


/* lexical analysis of a document (the driver's own, for classes and positions) */
static inline bool
ws_p(unsigned char c)
{
	return c == ' ' || c == '\t';
}

static void
mark_near(struct doc *d, size_t lo, size_t hi)
{
	/* positions lo..hi clipped to 1..n-1 */
	if (d->n < 2) {
		return;
	}
	if ((ssize_t)lo < 1) {
		lo = 1;
	}
	if (hi > d->n - 1) {
		hi = d->n - 1;
	}
	for (size_t c = lo; c <= hi; c++) {
		d->near[c] = 1;
	}
}

static void
analyse(struct doc *d)
{
	const size_t n = d->n;
	size_t s = 0;

	d->blank = d->lng = false;
	memset(d->near, 0, n + 1);
	memset(d->s1, -1, n + 1);
	for (size_t c = 0; c <= n; c++) {
		d->cls[c] = K_PLAIN;
	}
	for (size_t c = 1; c < n; c++) {
		if (d->b[c - 1] == '\0' || d->b[c] == '\0') {
			d->cls[c] = K_NUL;
		} else if (d->b[c - 1] == '\\') {
			d->cls[c] = K_ESCAPE;
		} else if (d->b[c - 1] == '\n' && ws_p(d->b[c])) {
			d->cls[c] = K_FOLD;
		} else if (d->b[c - 1] == '\r' && d->b[c] == '\n') {
			d->cls[c] = K_CRLF;
		} else if (d->b[c - 1] == '\n') {
			d->cls[c] = K_EOL;
		}
	}
	mark_near(d, 1, 8);
	mark_near(d, n > 8 ? n - 8 : 1, n);
	/* logical lines [s, t) */
	while (s < n) {
		size_t t = s, ulen = 0;
		bool term = false;

		for (;;) {
			/* one physical line */
			while (t < n && d->b[t] != '\n') {
				ulen += d->b[t] != '\r';
				t++;
			}
			if (t < n) {
				/* step over the newline */
				t++;
				term = true;
				mark_near(d, t > 8 ? t - 8 : 1, t + 8);
			} else {
				term = false;
			}
			if (t < n && term && ws_p(d->b[t])) {
				/* folded, the blank goes */
				t++;
				term = false;
				continue;
			}
			break;
		}
		if (term && ulen == 0) {
			d->blank = true;
		}
		if (ulen >= 1000) {
			const int k = ulen >= 1024 ? K_OVERLONG : K_NEARLONG;

			d->lng |= ulen >= 1024;
			/* inside the line or directly behind it */
			for (size_t c = s + 1; c <= t && c < n; c++) {
				if (k == K_NEARLONG && d->cls[c] == K_ESCAPE) {
					/* the line fits; a cut behind a backslash is the escape construct */
					continue;
				}
				d->cls[c] = (unsigned char)k;
			}
			/* the line limit of the anchors: 1024 bytes of line */
			mark_near(d, s + 1008, s + 1040);
		}
		s = t;
	}
}


/* comparison of two dumps: which record, which item */
struct diff {
	const char *eff;
	int rec;
	char key[24];
	char want[200];
	char got[200];
};

static size_t
reclen(const char *s)
{
	const char *e = strchr(s, '\n');
	return e ? (size_t)(e - s) : strlen(s);
}

static void
clip(char *tgt, size_t tz, const char *s, size_t n)
{
	size_t o = 0;

	for (size_t i = 0; i < n && o + 5 < tz; i++) {
		if (s[i] == SEP) {
			tgt[o++] = ' ';
		} else {
			tgt[o++] = s[i];
		}
	}
	if (n + 5 >= tz && o >= 3) {
		tgt[o - 1] = tgt[o - 2] = tgt[o - 3] = '.';
	}
	tgt[o] = '\0';
}

static void
diff_dumps(struct diff *df, const struct obs *want, const struct obs *got)
{
	const char *w = want->s, *g = got->s;

	memset(df, 0, sizeof(*df));
	df->eff = "same";
	for (int r = 0;; r++) {
		size_t wl, gl;

		if (!*w && !*g) {
			return;
		}
		df->rec = r;
		wl = reclen(w), gl = reclen(g);
		if (!*w || !*g) {
			df->eff = *g ? "count+" : "count-";
			clip(df->want, sizeof(df->want), *w ? w : "(none)", *w ? wl : 6);
			clip(df->got, sizeof(df->got), *g ? g : "(none)", *g ? gl : 6);
			return;
		}
		if (wl != gl || memcmp(w, g, wl)) {
			/* item by item */
			const char *wi = w, *gi = g;
			const char *const we = w + wl, *const ge = g + gl;

			for (int it = 0;; it++) {
				const char *wn = memchr(wi, SEP, we - wi) ?: we;
				const char *gn = memchr(gi, SEP, ge - gi) ?: ge;

				if (wn - wi != gn - gi || memcmp(wi, gi, wn - wi)) {
					const char *eq = memchr(wi, '=', wn - wi);
					size_t kl = eq ? (size_t)(eq - wi) : 0;

					if (it == 0) {
						/* the verb */
						bool wL = !strncmp(wi, "L:", 2), gL = !strncmp(gi, "L:", 2);
						if (wL != gL && (wn - wi) - 2 * wL == (gn - gi) - 2 * gL &&
						    !memcmp(wi + 2 * wL, gi + 2 * gL, (wn - wi) - 2 * wL)) {
							df->eff = "lastpull";
						} else {
							df->eff = "verb";
						}
						snprintf(df->key, sizeof(df->key), "verb");
					} else {
						if (kl >= sizeof(df->key)) {
							kl = sizeof(df->key) - 1;
						}
						memcpy(df->key, wi, kl);
						df->key[kl] = '\0';
						if (!strcmp(df->key, "uid")) {
							df->eff = "uid";
						} else if (!strcmp(df->key, "occ")) {
							df->eff = "occ";
						} else if (!strcmp(df->key, "rng")) {
							df->eff = "range";
						} else if (!strcmp(df->key, "task")) {
							df->eff = "verb";
						} else {
							df->eff = "field";
						}
					}
					clip(df->want, sizeof(df->want), wi, wn - wi);
					clip(df->got, sizeof(df->got), gi, gn - gi);
					return;
				}
				if (wn >= we || gn >= ge) {
					/* cannot be, the records differ */
					df->eff = "field";
					return;
				}
				wi = wn + 1, gi = gn + 1;
			}
		}
		w += wl + (w[wl] == '\n');
		g += gl + (g[gl] == '\n');
	}
}


/* description of the running partition, appended behind the document's */
static size_t desc_len;

static char*
put_num(char *p, size_t x)
{
	char tmp[24];
	int i = 0;
	do {
		tmp[i++] = (char)('0' + x % 10);
	} while ((x /= 10));
	while (i) {
		*p++ = tmp[--i];
	}
	return p;
}

static void
part_str(char *buf, const struct part *p, int mode, int fill)
{
	char *q = buf;

	q = stpcpy(q, " | part=");
	q = stpcpy(q, p->fam);
	if (p->regsz) {
		q = stpcpy(q, " chunksize=");
		q = put_num(q, p->regsz);
	} else {
		q = stpcpy(q, " cuts=[");
		for (int i = 0; i < p->ncuts; i++) {
			if (i) {
				*q++ = ',';
			}
			q = put_num(q, p->cut[i]);
		}
		*q++ = ']';
	}
	q = stpcpy(q, mode == MODE_E ? " eof=pull" : " eof=push0");
	q = stpcpy(q, fill == FILL_A ? " stale='Z'" : " stale=' '");
	*q = '\0';
}

static void
set_part_desc(const struct part *p, int mode, int fill)
{
	part_str(vd_sh->desc + desc_len, p, mode, fill);
	vd_sh->beat++;
}

static const char *hazards(const struct doc *d);

/* what a crash or hang inside this partition is filed under */
static void
set_part_shape(const struct doc *d, const struct part *p, const char *slug)
{
	char *q = vd_sh->shape;
	int k = K_NONE;

	if (p->regsz) {
		k = -1;
	} else if (p->ncuts) {
		k = d->cls[p->cut[0]];
	}
	q = stpcpy(q, d->fam);
	*q++ = '/';
	if (slug != NULL) {
		q = stpcpy(q, slug);
		*q++ = '/';
	}
	q = stpcpy(q, p->fam);
	*q++ = '/';
	q = stpcpy(q, k < 0 ? "regular" : kname[k]);
	if (p->ncuts == 2) {
		*q++ = '+';
		q = stpcpy(q, kname[d->cls[p->cut[1]]]);
	}
	*q++ = '/';
	q = stpcpy(q, hazards(d));
}

static const char *cur_slug;

static const char*
hazards(const struct doc *d)
{
	static char buf[64];
	char *q = buf;

	q = stpcpy(q, "h=");
	if (d->blank) {
		q = stpcpy(q, "blank+");
	}
	if (d->lng) {
		q = stpcpy(q, "long+");
	}
	if (REF.fl & F_EOP) {
		q = stpcpy(q, "eop+");
	}
	if (REF.fl & F_IGN) {
		q = stpcpy(q, "ign+");
	}
	if (q == buf + 2) {
		q = stpcpy(q, "none+");
	}
	q[-1] = '\0';
	return buf;
}

/* the most telling class among the cuts of a partition (the enum is in that order) */
static int
min_class(const struct doc *d, const struct part *p)
{
	int k = NKLASS;

	if (p->regsz) {
		for (size_t c = p->regsz; c < d->n; c += p->regsz) {
			if (d->cls[c] < k) {
				k = d->cls[c];
			}
		}
	} else {
		for (int i = 0; i < p->ncuts; i++) {
			if (d->cls[p->cut[i]] < k) {
				k = d->cls[p->cut[i]];
			}
		}
	}
	return k < NKLASS ? k : K_NONE;
}

/* does the single cut C alone change the result (mode E)? */
static int
single_differs(struct doc *d, size_t c)
{
	if (d->s1[c] < 0) {
		struct part p1 = {.ncuts = 1, .cut = {c}, .fam = "c1"};

		run(d, &p1, MODE_E, FILL_A, &OB);
		d->s1[c] = !same(&OB, &REF);
	}
	return d->s1[c];
}

/* an evaluation = one (document, partition, end-of-input mode) judged, under both stale fills */
#define COUNT_EVAL(nt_)	(vd_sh->evals++, vd_sh->nontriv += (nt_))

/* run one partition in both modes and both fills, judge, report */
static void
eval_part(struct doc *d, const struct part *p, bool skip_e)
{
	struct diff df;
	char sig[VD_SIGLEN], ps[128];
	const bool nontriv = REF.nins > 0;

	set_part_shape(d, p, cur_slug);
	/* mode E against the reference */
	if (!skip_e) {
		set_part_desc(p, MODE_E, FILL_A);
		run(d, p, MODE_E, FILL_A, &OE);
		COUNT_EVAL(nontriv);
		if (OE.fl & F_RUNAWAY) {
			snprintf(sig, sizeof(sig), "runaway/%s/%s", d->fam, p->fam);
			vd_viol(sig, "a pull loop yielded more than %d instructions", MAXINS);
		}
		if (!same(&OE, &REF)) {
			/* which cut is to blame */
			const char *kl = NULL;
			char klbuf[96];

			if (p->ncuts == 1 && !p->regsz) {
				d->s1[p->cut[0]] = 1;
				kl = kname[d->cls[p->cut[0]]];
			} else if (p->regsz) {
				for (size_t c = p->regsz; c < d->n; c += p->regsz) {
					if (single_differs(d, c)) {
						kl = kname[d->cls[c]];
						break;
					}
				}
				if (kl == NULL) {
					snprintf(klbuf, sizeof(klbuf), "multi-only(%s)", kname[min_class(d, p)]);
					kl = klbuf;
				}
			} else {
				for (int i = 0; i < p->ncuts; i++) {
					if (single_differs(d, p->cut[i])) {
						kl = kname[d->cls[p->cut[i]]];
						break;
					}
				}
				if (kl == NULL) {
					snprintf(klbuf, sizeof(klbuf), "pair-only(%s+%s)",
						 kname[d->cls[p->cut[0]]], kname[d->cls[p->cut[1]]]);
					kl = klbuf;
				}
			}
			diff_dumps(&df, &REF, &OE);
			part_str(ps, p, MODE_E, FILL_A);
			snprintf(sig, sizeof(sig), "chunk-dep/%s/%s/%s/%s", d->fam, kl, hazards(d), df.eff);
			vd_viol(sig, "%s: %d instruction(s) instead of %d; instruction #%d %s: uncut {%s} chunked {%s}",
				ps + 3, OE.nins, REF.nins, df.rec, df.key, df.want, df.got);
		} else if (p->ncuts == 1 && !p->regsz) {
			d->s1[p->cut[0]] = 0;
		}
		/* the other stale fill */
		set_part_desc(p, MODE_E, FILL_B);
		run(d, p, MODE_E, FILL_B, &OB);
		if (!same(&OB, &OE)) {
			diff_dumps(&df, &OE, &OB);
			part_str(ps, p, MODE_E, FILL_B);
			snprintf(sig, sizeof(sig), "stale/%s/eof=pull/%s/%s", d->fam,
				 p->regsz ? "regular" : kname[p->ncuts ? d->cls[p->cut[p->ncuts - 1]] : K_NONE], df.eff);
			vd_viol(sig, "%s: result depends on bytes behind the chunk; instruction #%d %s: stale='Z' {%s} stale=' ' {%s}",
				ps + 3, df.rec, df.key, df.want, df.got);
		}
	}
	/* mode D against mode E of the same partition */
	set_part_desc(p, MODE_D, FILL_A);
	run(d, p, MODE_D, FILL_A, &OA);
	COUNT_EVAL(nontriv);
	if (OA.fl & F_RUNAWAY) {
		snprintf(sig, sizeof(sig), "runaway/%s/%s", d->fam, p->fam);
		vd_viol(sig, "a pull loop yielded more than %d instructions", MAXINS);
	}
	if (!same(&OA, skip_e ? &REF : &OE)) {
		/* the byte the zero-length push exposes is the first of the last chunk */
		size_t lastc = 0;
		int kl = K_NONE;

		if (p->regsz) {
			lastc = d->n ? (d->n - 1) / p->regsz * p->regsz : 0;
		} else if (p->ncuts) {
			lastc = p->cut[p->ncuts - 1];
		}
		if (lastc) {
			kl = min_class(d, p);
		}
		diff_dumps(&df, skip_e ? &REF : &OE, &OA);
		part_str(ps, p, MODE_D, FILL_A);
		snprintf(sig, sizeof(sig), "finalpush/%s/%s/first=%s/%s/%s", d->fam, kname[kl],
			 d->n && ws_p(d->b[lastc]) ? "blank" : "other", hazards(d), df.eff);
		vd_viol(sig, "%s: differs from the same partition ended by a plain pull; instruction #%d %s: eof=pull {%s} eof=push0 {%s}",
			ps + 3, df.rec, df.key, df.want, df.got);
	}
	set_part_desc(p, MODE_D, FILL_B);
	run(d, p, MODE_D, FILL_B, &OB);
	if (!same(&OB, &OA)) {
		diff_dumps(&df, &OA, &OB);
		part_str(ps, p, MODE_D, FILL_B);
		snprintf(sig, sizeof(sig), "stale/%s/eof=push0/%s/%s", d->fam,
			 p->regsz ? "regular" : kname[p->ncuts ? d->cls[p->cut[p->ncuts - 1]] : K_NONE], df.eff);
		vd_viol(sig, "%s: result depends on bytes behind the chunk; instruction #%d %s: stale='Z' {%s} stale=' ' {%s}",
			ps + 3, df.rec, df.key, df.want, df.got);
	}
}


/* partition families */
#define P_C0	1U
#define P_C1	2U
#define P_C2	4U
#define P_ONES	8U
#define P_REG	16U
static unsigned parts_mask;
static size_t c1max, c2max;

static unsigned
parse_parts(const char *s)
{
	unsigned m = 0;

	if (strstr(s, "c0")) m |= P_C0;
	if (strstr(s, "c1")) m |= P_C1;
	if (strstr(s, "c2")) m |= P_C2;
	if (strstr(s, "ones")) m |= P_ONES;
	if (strstr(s, "reg")) m |= P_REG;
	return m;
}

/* reference run and everything that belongs to the document itself */
static void
open_doc(struct doc *d)
{
	analyse(d);
	desc_len = strlen(vd_sh->desc);
	if (desc_len > sizeof(vd_sh->desc) - 160) {
		desc_len = sizeof(vd_sh->desc) - 160;
	}
	if (emit_path != NULL) {
		FILE *f = fopen(emit_path, "wb");
		if (f != NULL) {
			fwrite(d->b, 1, d->n, f);
			fclose(f);
		}
	}
	{
		static const struct part p0 = {.ncuts = 0, .fam = "c0"};
		REF.fl = 0;
		set_part_shape(d, &p0, cur_slug);
		set_part_desc(&p0, MODE_E, FILL_A);
		run(d, &p0, MODE_E, FILL_A, &REF);
	}
}

static void
close_doc(void)
{
	/* UIDs are interned for good; one document's worth is enough */
	clear_interns();
}

static inline bool
pos1_p(const struct doc *d, size_t c)
{
	return d->n <= c1max || d->near[c];
}

static inline bool
pos2_p(const struct doc *d, size_t c)
{
	return d->n <= c2max || d->near[c];
}

static void
do_c0(struct doc *d)
{
	static const struct part p0 = {.ncuts = 0, .fam = "c0"};
	struct diff df;
	char ps[128], sig[VD_SIGLEN];

	/* the reference itself under the other fill */
	set_part_desc(&p0, MODE_E, FILL_B);
	run(d, &p0, MODE_E, FILL_B, &OB);
	COUNT_EVAL(REF.nins > 0);
	if (!same(&OB, &REF)) {
		diff_dumps(&df, &REF, &OB);
		part_str(ps, &p0, MODE_E, FILL_B);
		snprintf(sig, sizeof(sig), "stale/%s/eof=pull/nocut/%s", d->fam, df.eff);
		vd_viol(sig, "%s: result depends on bytes behind the chunk; instruction #%d %s: stale='Z' {%s} stale=' ' {%s}",
			ps + 3, df.rec, df.key, df.want, df.got);
	}
	if (REF.fl & F_RUNAWAY) {
		snprintf(sig, sizeof(sig), "runaway/%s/c0", d->fam);
		vd_viol(sig, "a pull loop yielded more than %d instructions", MAXINS);
	}
	eval_part(d, &p0, true);
}

static void
do_c1(struct doc *d)
{
	struct part p = {.ncuts = 1, .fam = "c1"};

	for (size_t c = 1; c < d->n; c++) {
		if (!pos1_p(d, c)) {
			continue;
		}
		p.cut[0] = c;
		eval_part(d, &p, false);
	}
}

static void
do_c2(struct doc *d, size_t a)
{
	struct part p = {.ncuts = 2, .fam = "c2"};

	if (!pos2_p(d, a)) {
		return;
	}
	p.cut[0] = a;
	for (size_t b = a + 1; b < d->n; b++) {
		if (!pos2_p(d, b)) {
			continue;
		}
		p.cut[1] = b;
		eval_part(d, &p, false);
	}
}

static const size_t regsizes[] = {
	2, 3, 4, 5, 6, 7, 8, 9, 10, 11, 12, 13, 14, 15, 16, 17, 18, 19, 20, 21, 22, 23, 24, 25,
	26, 27, 28, 29, 30, 31, 32, 33, 34, 35, 36, 37, 38, 39, 40, 41, 42, 43, 44, 45, 46, 47,
	48, 49, 50, 51, 52, 53, 54, 55, 56, 57, 58, 59, 60, 61, 62, 63, 64, 1023, 1024, 1025, 4096,
};

static void
do_reg(struct doc *d, bool ones, bool reg)
{
	struct part p = {.ncuts = 0};

	if (ones && d->n > 1) {
		p.regsz = 1;
		p.fam = "ones";
		eval_part(d, &p, false);
	}
	if (reg) {
		p.fam = "reg";
		for (size_t i = 0; i < sizeof(regsizes) / sizeof(*regsizes); i++) {
			if (regsizes[i] >= d->n) {
				break;
			}
			p.regsz = regsizes[i];
			eval_part(d, &p, false);
		}
	}
}

static void
do_doc_all(struct doc *d)
{
	open_doc(d);
	if (parts_mask & P_C0) {
		do_c0(d);
	}
	if (parts_mask & P_C1) {
		do_c1(d);
	}
	do_reg(d, parts_mask & P_ONES, parts_mask & P_REG);
	if (parts_mask & P_C2) {
		for (size_t a = 1; a + 1 < d->n; a++) {
			do_c2(d, a);
		}
	}
	if (vd_want_sample()) {
		vd_sh->desc[desc_len] = '\0';
		vd_sample("%s: %d instruction(s) uncut; partitions %s%s%s%s%s", vd_sh->desc, REF.nins,
			  parts_mask & P_C0 ? "c0 " : "", parts_mask & P_C1 ? "c1 " : "",
			  parts_mask & P_ONES ? "ones " : "", parts_mask & P_REG ? "reg " : "",
			  parts_mask & P_C2 ? "c2" : "");
	}
	close_doc();
}


/* documents */
static void
doc_put(struct doc *d, const void *s, size_t n)
{
	if (d->n + n > DOCMAX) {
		fprintf(stderr, "c10: document too long\n");
		_exit(3);
	}
	memcpy(d->b + d->n, s, n);
	d->n += n;
}

#define PUTLIT(d, lit)	doc_put(d, lit, sizeof(lit) - 1U)

static void
doc_puts(struct doc *d, const char *s)
{
	doc_put(d, s, strlen(s));
}

static void
doc_rep(struct doc *d, char c, size_t n)
{
	while (n--) {
		doc_put(d, &c, 1);
	}
}

/* token alphabets; long lines are filled in at start */
struct tok {
	const char *name;
	const char *text;
	size_t len;
};

static char L1023[1100], L1024[1100], L1100[1200];

static struct tok tokR[] = {
	{"BVC", "BEGIN:VCALENDAR\n"},
	{"EVC", "END:VCALENDAR\n"},
	{"BVE", "BEGIN:VEVENT\n"},
	{"EVE", "END:VEVENT\n"},
	{"BVA", "BEGIN:VALARM\n"},
	{"EVA", "END:VALARM\n"},
	{"MPUB", "METHOD:PUBLISH\n"},
	{"MCAN", "METHOD:CANCEL\n"},
	{"MREP", "METHOD:REPLY\n"},
	{"MREQ", "METHOD:REQUEST\n"},
	{"UIDcrlf", "UID:u1\r\n"},
	{"RSTAT", "REQUEST-STATUS:2.0;Success\n"},
	{"DTS", "DTSTART:20200301T100000Z\n"},
	{"BLANK", "\n"},
	{"NUL", "\0", 1},
	{"GARB", "}{ \x80garbage\n"},
};

static struct tok tokC[] = {
	{"UID1", "UID:u1\n"},
	{"UID2crlf", "UID:u2\r\n"},
	{"DTS", "DTSTART:20200301T100000Z\n"},
	{"DTStz", "DTSTART;TZID=Europe/Berlin:20200301T100000\n"},
	{"RRULE", "RRULE:FREQ=DAILY;COUNT=3\n"},
	{"DUR", "DURATION:PT1H\n"},
	{"SUMfold", "SUMMARY:echo\r\n  hello\r\n"},
	{"CONT", " cont\n"},
	{"CONTtab", "\tT\n"},
	{"ESC", "DESCRIPTION:a\\nb\\;c\\,d\\\\e\n"},
	{"EMPTY", "LOCATION:\n"},
	{"L1023", L1023},
	{"L1024", L1024},
	{"L1100", L1100},
	{"NUL", "\0", 1},
	{"GARB", "}{ \x80garbage\n"},
};
#define NTOKR	(sizeof(tokR) / sizeof(*tokR))
#define NTOKC	(sizeof(tokC) / sizeof(*tokC))

static void
longline(char *buf, const char *prop, char fill, size_t total)
{
	size_t pl = strlen(prop);

	memcpy(buf, prop, pl);
	memset(buf + pl, fill, total - pl);
	buf[total] = '\n';
	buf[total + 1] = '\0';
}

static void
init_toks(void)
{
	longline(L1023, "X-ECHS-IFILE:", 'i', 1023);
	longline(L1024, "X-ECHS-OFILE:", 'o', 1024);
	longline(L1100, "X-ECHS-EFILE:", 'e', 1100);
	for (size_t i = 0; i < NTOKR; i++) {
		if (!tokR[i].len) tokR[i].len = strlen(tokR[i].text);
	}
	for (size_t i = 0; i < NTOKC; i++) {
		if (!tokC[i].len) tokC[i].len = strlen(tokC[i].text);
	}
}

static void
enum_tok(const struct tok *al, size_t nal, const char *fam, bool wrapped)
{
	const int N = (int)vd_opt_l("N", 3), minN = (int)vd_opt_l("minN", 0);
	const int meth = (int)vd_opt_l("meth", 0);
	int w[16];

	if (N > 8) {
		fprintf(stderr, "c10: N too large\n");
		_exit(3);
	}
	vd_shape("%s/N<=%d", fam, N);
	cur_slug = NULL;
	for (int len = minN; len <= N; len++) {
		memset(w, 0, sizeof(w));
		for (;;) {
			if (vd_next()) {
				char nm[400];
				size_t o = 0;

				D.n = 0, D.fam = fam;
				if (wrapped) {
					doc_puts(&D, "BEGIN:VCALENDAR\n");
					if (meth) {
						doc_puts(&D, "METHOD:CANCEL\n");
					}
					doc_puts(&D, "BEGIN:VEVENT\n");
				}
				nm[0] = '\0';
				for (int i = 0; i < len; i++) {
					doc_put(&D, al[w[i]].text, al[w[i]].len);
					o += snprintf(nm + o, sizeof(nm) - o, "%s%s", i ? " " : "", al[w[i]].name);
				}
				if (wrapped) {
					doc_puts(&D, "END:VEVENT\nEND:VCALENDAR\n");
				}
				vd_desc("%s%s [%s] (%zu bytes)", fam, wrapped ? meth ? " in VCALENDAR/METHOD:CANCEL/VEVENT" :
					" in VCALENDAR/VEVENT" : "", nm, D.n);
				do_doc_all(&D);
			}
			/* odometer */
			int i = len - 1;
			for (; i >= 0; i--) {
				if (++w[i] < (int)nal) {
					break;
				}
				w[i] = 0;
			}
			if (i < 0) {
				break;
			}
		}
	}
}

/* crafted documents */
#define CAL_HEAD	"BEGIN:VCALENDAR\r\nVERSION:2.0\r\n"
static int
crafted(struct doc *d, int which)
{
	d->n = 0, d->fam = "crafted";
	switch (which) {
	case 0:
		snprintf(d->name, sizeof(d->name), "overlong line whose tail looks like a property: DESCRIPTION: + 1100 x X + UID:evil");
		doc_puts(d, "BEGIN:VCALENDAR\nBEGIN:VEVENT\nUID:good\nSUMMARY:true\nDTSTART:20200301T100000Z\nDESCRIPTION:");
		doc_rep(d, 'X', 1100);
		doc_puts(d, "UID:evil\nEND:VEVENT\nEND:VCALENDAR\n");
		break;
	case 1:
		snprintf(d->name, sizeof(d->name), "fold exactly at 1023: first physical line 1023 bytes, continuation makes 1027");
		doc_puts(d, "BEGIN:VCALENDAR\nBEGIN:VEVENT\nUID:f1023a\nSUMMARY:true\nDESCRIPTION:");
		doc_rep(d, 'X', 1023 - 12);
		doc_puts(d, "\n tail\nDTSTART:20200301T100000Z\nEND:VEVENT\nEND:VCALENDAR\n");
		break;
	case 2:
		snprintf(d->name, sizeof(d->name), "fold at 1019, unfolded line is exactly 1023 bytes");
		doc_puts(d, "BEGIN:VCALENDAR\nBEGIN:VEVENT\nUID:f1023b\nSUMMARY:true\nDESCRIPTION:");
		doc_rep(d, 'X', 1019 - 12);
		doc_puts(d, "\n tail\nDTSTART:20200301T100000Z\nEND:VEVENT\nEND:VCALENDAR\n");
		break;
	case 3:
		snprintf(d->name, sizeof(d->name), "fold at 1022 (CRLF), unfolded line is exactly 1023 bytes");
		doc_puts(d, "BEGIN:VCALENDAR\r\nBEGIN:VEVENT\r\nUID:f1023c\r\nSUMMARY:true\r\nDESCRIPTION:");
		doc_rep(d, 'X', 1022 - 12);
		doc_puts(d, "\r\n t\r\nDTSTART:20200301T100000Z\r\nEND:VEVENT\r\nEND:VCALENDAR\r\n");
		break;
	case 4:
		snprintf(d->name, sizeof(d->name), "folded SUMMARY 'hello\\r\\n  world' (CRLF)");
		doc_puts(d, CAL_HEAD "BEGIN:VEVENT\r\nUID:fold1\r\nDTSTART:20200301T100000Z\r\nSUMMARY:hello\r\n  world\r\nEND:VEVENT\r\nEND:VCALENDAR\r\n");
		break;
	case 5:
		snprintf(d->name, sizeof(d->name), "SUMMARY folded with a tab and three times in a row (LF)");
		doc_puts(d, "BEGIN:VCALENDAR\nBEGIN:VEVENT\nUID:fold2\nDTSTART:20200301T100000Z\nSUMMARY:he\n\tllo\n  wor\n ld\nEND:VEVENT\nEND:VCALENDAR\n");
		break;
	case 6:
		snprintf(d->name, sizeof(d->name), "escapes in SUMMARY and DESCRIPTION: \\, \\; \\\\ \\n \\N \\\"");
		doc_puts(d, "BEGIN:VCALENDAR\nBEGIN:VEVENT\nUID:esc1\nDTSTART:20200301T100000Z\n"
			 "SUMMARY:a\\, b\\; c\\\\ d\\n e\\N f\\\"g\nDESCRIPTION:\\\\\\\\x\\\nEND:VEVENT\nEND:VCALENDAR\n");
		break;
	case 7:
		snprintf(d->name, sizeof(d->name), "every task field, calendar-level defaults, three components (CRLF)");
		doc_puts(d, CAL_HEAD "METHOD:PUBLISH\r\nX-ECHS-OWNER:1000\r\nX-ECHS-UMASK:027\r\nX-ECHS-MAX-SIMUL:3\r\n"
			 "X-ECHS-SETUID:65534\r\nCALSCALE:GREGORIAN\r\n"
			 "BEGIN:VEVENT\r\nUID:all1@example.com\r\nDTSTAMP:20200101T000000Z\r\nSUMMARY:/bin/echo all\r\n"
			 "DESCRIPTION:does it all\r\nDTSTART;TZID=Europe/Berlin:20200301T100000\r\nDTEND;TZID=Europe/Berlin:20200301T113000\r\n"
			 "RRULE:FREQ=WEEKLY;BYDAY=MO,FR;COUNT=10\r\nEXDATE:20200306T090000Z\r\nRDATE:20200304T090000Z,20200305T090000Z\r\n"
			 "X-GA-STATE:busy,away\r\nLOCATION:/tmp\r\nX-ECHS-SHELL:/bin/sh\r\nX-ECHS-SETUID:daemon\r\nX-ECHS-SETGID:12\r\n"
			 "ORGANIZER:mailto:boss@example.com\r\nATTENDEE:mailto:one@example.com\r\nATTENDEE:mailto:two@example.com\r\n"
			 "X-ECHS-IFILE:/dev/null\r\nX-ECHS-OFILE:/tmp/out\r\nX-ECHS-EFILE:/tmp/err\r\n"
			 "X-ECHS-MAIL-OUT:true\r\nX-ECHS-MAIL-ERR:false\r\nX-ECHS-MAIL-RUN:1\r\nX-ECHS-MAX-SIMUL:2\r\nX-ECHS-UMASK:077\r\n"
			 "END:VEVENT\r\n"
			 "BEGIN:VTODO\r\nUID:all2@example.com\r\nSUMMARY:/bin/true\r\nDUE:20200401T000000Z\r\nX-ECHS-OWNER:alice\r\nEND:VTODO\r\n"
			 "BEGIN:VTODO\r\nUID:all3@example.com\r\nSUMMARY:/bin/false\r\nCOMPLETED:20200402T010203Z\r\nDURATION:PT90S\r\nEND:VTODO\r\n"
			 "BEGIN:VEVENT\r\nSUMMARY:no uid here\r\nDTSTART;VALUE=DATE:20200310\r\nDURATION:P1D\r\nEND:VEVENT\r\n"
			 "END:VCALENDAR\r\n");
		break;
	case 8:
		snprintf(d->name, sizeof(d->name), "METHOD:CANCEL with RECURRENCE-ID, two events");
		doc_puts(d, "BEGIN:VCALENDAR\nMETHOD:CANCEL\nBEGIN:VEVENT\nUID:can1\nRECURRENCE-ID;RANGE=THISANDFUTURE:20200301T100000Z+\nEND:VEVENT\n"
			 "BEGIN:VEVENT\nUID:can2\nDTSTART:20200301T100000Z\nDTEND:20200301T110000Z\nEND:VEVENT\nEND:VCALENDAR\n");
		break;
	case 9:
		snprintf(d->name, sizeof(d->name), "METHOD:REPLY as echsd writes it: success, failure, unknown status");
		doc_puts(d, "BEGIN:VCALENDAR\nVERSION:2.0\nMETHOD:REPLY\nBEGIN:VEVENT\nUID:rep1\nREQUEST-STATUS:2.0;Success\nEND:VEVENT\n"
			 "BEGIN:VEVENT\nUID:rep2\nREQUEST-STATUS:5.1;Service unavailable\nEND:VEVENT\n"
			 "BEGIN:VEVENT\nUID:rep3\nREQUEST-STATUS:3.1;Invalid\nEND:VEVENT\n"
			 "BEGIN:VEVENT\nUID:rep4\nREQUEST-STATUS:2.0;Success\nEND:VEVENT\nEND:VCALENDAR\n");
		break;
	case 10:
		snprintf(d->name, sizeof(d->name), "two calendars in one stream");
		doc_puts(d, "BEGIN:VCALENDAR\nBEGIN:VEVENT\nUID:two1\nSUMMARY:one\nDTSTART:20200301T100000Z\nEND:VEVENT\nEND:VCALENDAR\n"
			 "BEGIN:VCALENDAR\nBEGIN:VEVENT\nUID:two2\nSUMMARY:two\nDTSTART:20200302T100000Z\nEND:VEVENT\nEND:VCALENDAR\n");
		break;
	case 11:
		snprintf(d->name, sizeof(d->name), "VALARM nested in a VEVENT, another VEVENT behind");
		doc_puts(d, "BEGIN:VCALENDAR\nBEGIN:VEVENT\nUID:alarm1\nSUMMARY:one\nDTSTART:20200301T100000Z\nBEGIN:VALARM\nACTION:DISPLAY\nEND:VALARM\nEND:VEVENT\n"
			 "BEGIN:VEVENT\nUID:alarm2\nSUMMARY:two\nDTSTART:20200302T100000Z\nEND:VEVENT\nEND:VCALENDAR\n");
		break;
	case 12:
		snprintf(d->name, sizeof(d->name), "blank lines between components and at the end");
		doc_puts(d, "BEGIN:VCALENDAR\n\nBEGIN:VEVENT\nUID:blank1\nSUMMARY:one\nDTSTART:20200301T100000Z\nEND:VEVENT\n\r\n"
			 "BEGIN:VEVENT\nUID:blank2\nSUMMARY:two\nDTSTART:20200302T100000Z\nEND:VEVENT\nEND:VCALENDAR\n\n\n");
		break;
	case 13:
		snprintf(d->name, sizeof(d->name), "truncated: input ends inside the last line");
		doc_puts(d, "BEGIN:VCALENDAR\nBEGIN:VEVENT\nUID:trunc1\nSUMMARY:one\nDTSTART:20200301T100000Z\nEND:VEVENT\nBEGIN:VEVENT\nUID:trunc2\nSUMMARY:two\nEND:VEVE");
		break;
	case 14:
		snprintf(d->name, sizeof(d->name), "truncated: input ends behind END:VEVENT, no END:VCALENDAR, folded line before");
		doc_puts(d, "BEGIN:VCALENDAR\nBEGIN:VEVENT\nUID:trunc3\nDTSTART:20200301T100000Z\nSUMMARY:one\n two\nEND:VEVENT\n");
		break;
	case 15:
		snprintf(d->name, sizeof(d->name), "garbage, NUL bytes and high bytes around a valid calendar");
		PUTLIT(d, "\0\0\xff\xfe junk\n:;:;\nBEGIN\n");
		doc_puts(d, "BEGIN:VCALENDAR\n");
		PUTLIT(d, "X\0Y:1\n");
		doc_puts(d, "BEGIN:VEVENT\nUID:g1\nSUMMARY:one\n;;;\n:\nDTSTART:20200301T100000Z\n");
		PUTLIT(d, "UID\0:g2\n");
		doc_puts(d, "END:VEVENT\nEND:VCALENDAR\n\x01\x01\x01\n");
		break;
	case 16:
		snprintf(d->name, sizeof(d->name), "a line of 5000 bytes without colon and one of 2047 with, then an event");
		doc_puts(d, "BEGIN:VCALENDAR\n");
		doc_rep(d, 'g', 5000);
		doc_puts(d, "\nBEGIN:VEVENT\nUID:long1\nSUMMARY:");
		doc_rep(d, 's', 2047 - 8);
		doc_puts(d, "\nDTSTART:20200301T100000Z\nEND:VEVENT\nEND:VCALENDAR\n");
		break;
	case 17:
		snprintf(d->name, sizeof(d->name), "calendar-level X-ECHS-SETUID with a name, two events (both tasks are freed by the consumer)");
		doc_puts(d, "BEGIN:VCALENDAR\nX-ECHS-SETUID:nobody\nBEGIN:VEVENT\nUID:sh1\nSUMMARY:one\nDTSTART:20200301T100000Z\nEND:VEVENT\n"
			 "BEGIN:VEVENT\nUID:sh2\nSUMMARY:two\nDTSTART:20200302T100000Z\nEND:VEVENT\nEND:VCALENDAR\n");
		break;
	case 18:
		snprintf(d->name, sizeof(d->name), "two calendars in one stream, a comment line between them");
		doc_puts(d, "BEGIN:VCALENDAR\nBEGIN:VEVENT\nUID:sep1\nSUMMARY:one\nDTSTART:20200301T100000Z\nEND:VEVENT\nEND:VCALENDAR\n"
			 "## next\nBEGIN:VCALENDAR\nBEGIN:VEVENT\nUID:sep2\nSUMMARY:two\nDTSTART:20200302T100000Z\nEND:VEVENT\nEND:VCALENDAR\n");
		break;
	default:
		if (which >= 19 && which < 19 + 44) {
			/* a value that reaches the 1 KiB line limit by way of backslash escapes: the length of the line's
			 * plain part runs through every value around the limit, the escapes straddle it */
			const int pad = 985 + (which - 19);
			snprintf(d->name, sizeof(d->name), "DESCRIPTION: + %d x 'x' + twelve backslash escapes (the line limit falls inside the escapes)", pad);
			doc_puts(d, "BEGIN:VCALENDAR\nBEGIN:VEVENT\nUID:esc-long\nSUMMARY:true\nDTSTART:20200301T100000Z\nDESCRIPTION:");
			doc_rep(d, 'x', (size_t)pad);
			doc_puts(d, "\\,\\;\\\\\\n\\,\\;\\\\\\n\\,\\;\\\\\\n");
			doc_puts(d, "\nLOCATION:/tmp\nEND:VEVENT\nEND:VCALENDAR\n");
			break;
		}
		if (which == 19 + 44) {
			snprintf(d->name, sizeof(d->name), "carriage returns that are not part of a line break: inside values, doubled before the break, before a fold");
			doc_puts(d, "BEGIN:VCALENDAR\r\nBEGIN:VEVENT\r\nUID:cr\rid\r\nSUMMARY:echo foo\rbar\r\r\nDESCRIPTION:a\r b\r\r\n  c\r\n"
				 "LOCATION:/tmp\r/x\r\nDTSTART:20200301T100000Z\r\nX-ECHS-OFILE:/tmp/o\rut\r\nEND:VEVENT\r\nEND:VCALENDAR\r\n");
			break;
		}
		if (which == 19 + 46 || which == 19 + 47) {
			snprintf(d->name, sizeof(d->name), "input that stops inside an unknown component behind a finished event that has list-valued parts (%s)", which == 19 + 46 ? "VTIMEZONE" : "X-COMPONENT nested twice");
			doc_puts(d, "BEGIN:VCALENDAR\nBEGIN:VEVENT\nUID:trunc-u1\nSUMMARY:one\nDTSTART:20200301T100000Z\nRRULE:FREQ=DAILY;COUNT=3\nRDATE:20200310T100000Z\n"
				 "EXDATE:20200302T100000Z\nATTENDEE:mailto:a@example.com\nEND:VEVENT\n");
			if (which == 19 + 46) {
				doc_puts(d, "BEGIN:VTIMEZONE\nTZID:Europe/Berlin\nBEGIN:STANDARD\nDTSTART:19701025T030000\n");
			} else {
				doc_puts(d, "BEGIN:X-COMPONENT\nX-A:1\nBEGIN:X-INNER\nX-B:2\nEND:X-INNER\nX-C:3");
			}
			break;
		}
		if (which == 19 + 45) {
			snprintf(d->name, sizeof(d->name), "list-valued lines (BYDAY, RDATE, EXDATE, X-GA-STATE) behind longer lines that are full of commas and weekday names");
			doc_puts(d, "BEGIN:VCALENDAR\nBEGIN:VEVENT\nUID:stale1\n"
				 "SUMMARY:echo run the report on MO,TU,WE,TH,FR,SA,SU,MO,TU,WE,TH,FR,SA,SU,MO,TU,WE,TH,FR,SA,SU\n"
				 "DTSTART:20200106T100000Z\n"
				 "RRULE:FREQ=WEEKLY;COUNT=6;BYDAY=MO\n"
				 "DESCRIPTION:,20200107T100000Z,20200108T100000Z,20200109T100000Z,20200110T100000Z,20200111T100000Z\n"
				 "RDATE:20200107T100000Z\n"
				 "LOCATION:/tmp/,busy,away,20200120T100000Z,20200127T100000Z,20200203T100000Z\n"
				 "EXDATE:20200113T100000Z\n"
				 "X-ECHS-OFILE:/tmp/out,busy,away,idle,busy,away,idle\n"
				 "X-GA-STATE:busy\n"
				 "END:VEVENT\nEND:VCALENDAR\n");
			break;
		}
		return 0;
	}
	return 1;
}

static const char *crafted_slug[] = {
	"overlong-tail", "fold-at-1023", "fold-sum-1023", "fold-sum-1023-crlf", "folded-summary", "folded-tab",
	"escapes", "all-fields", "cancel", "reply", "two-calendars", "nested-valarm", "blank-lines",
	"truncated-in-line", "truncated-after-end", "garbage", "very-long-lines", "shared-default-string",
	"two-calendars-sep",
};

static int
load_sample(struct doc *d, const char *dir, const char *fn)
{
	char path[1024];
	FILE *f;

	snprintf(path, sizeof(path), "%s/%s", dir, fn);
	if ((f = fopen(path, "rb")) == NULL) {
		return 0;
	}
	d->n = fread(d->b, 1, DOCMAX, f);
	fclose(f);
	d->fam = "samples";
	snprintf(d->name, sizeof(d->name), "%s", path);
	return 1;
}

static int
cmpstr(const void *a, const void *b)
{
	return strcmp(*(char *const*)a, *(char *const*)b);
}

/* samples and crafted documents: the families are separate cases, pairs by first cut */
static void
enum_docs(bool samples)
{
	const char *dir = vd_opt("dir", "/repo/test");
	char *names[512];
	int nn = 0;

	if (samples) {
		DIR *dp = opendir(dir);
		struct dirent *de;

		if (dp == NULL) {
			fprintf(stderr, "c10: cannot read %s\n", dir);
			_exit(3);
		}
		while ((de = readdir(dp)) != NULL && nn < 512) {
			size_t l = strlen(de->d_name);
			if (l > 4 && !strcmp(de->d_name + l - 4, ".ics")) {
				names[nn++] = strdup(de->d_name);
			}
		}
		closedir(dp);
		qsort(names, nn, sizeof(*names), cmpstr);
		vd_count("sample_files", 0);
	}
	for (int i = 0;; i++) {
		size_t n;

		/* the length is needed for the case indices, so every worker loads every document */
		if (samples) {
			if (i >= nn) {
				break;
			}
			if (!load_sample(&D, dir, names[i])) {
				continue;
			}
		} else if (!crafted(&D, i)) {
			break;
		}
		n = D.n;
		cur_slug = samples ? NULL : i < (int)(sizeof(crafted_slug) / sizeof(*crafted_slug)) ? crafted_slug[i] : i == 19 + 44 ? "lone-cr" : i == 19 + 45 ? "stale-commas" : i >= 19 + 46 ? "truncated-in-unknown-component" : "long-line-escapes";
		vd_shape("%s/load", D.fam);
		if (vd_next()) {
			const unsigned sv = parts_mask;

			vd_desc("%s (%zu bytes)", D.name, D.n);
			if (samples) {
				vd_count("sample_files", 1);
			}
			parts_mask &= ~P_C2;
			if (parts_mask) {
				do_doc_all(&D);
			}
			parts_mask = sv;
		}
		if (parts_mask & P_C2) {
			analyse(&D);
			for (size_t a = 1; a + 1 < n; a++) {
				if (!pos2_p(&D, a)) {
					continue;
				}
				if (!vd_next()) {
					continue;
				}
				vd_desc("%s (%zu bytes)", D.name, D.n);
				open_doc(&D);
				do_c2(&D, a);
				if (vd_want_sample()) {
					vd_sh->desc[desc_len] = '\0';
					vd_sample("%s: first cut at %zu with every second cut behind it", vd_sh->desc, a);
				}
				close_doc();
			}
		}
	}
}


/* family datelists: one VEVENT whose recurrence dates and exception dates arrive in 2..3 RDATE (EXDATE) lines of
 * DATE values, with every combination of line sizes from {1, 40, 63, 64, 65, 100, 113} (113 is what fits into a
 * line of 1022 bytes; the sizes straddle the 64 slots a date list starts with and its doublings).  Dates are the
 * days 1..28 of consecutive months from 2031-01 on; each further line repeats the last date of the line before.
 *   kind R  RDATE lines only (DTSTART is the first date)
 *   kind X  one RDATE line of 113 dates, EXDATE lines that begin with the 51st of them
 *   kind B  RDATE lines and EXDATE lines of the same sizes, alternating, the exceptions begin with the 31st date
 * Partitions: whole, all-ones, regular sizes, one cut within 8 bytes of every line end (c1max=0 in the propdef).
 * Besides the clauses of every family (with EVERY occurrence in the dump, see dump_ins()):
 *   datelist-count   the uncut run yields one task whose number of occurrences is the number of distinct dates
 *                    listed and not excepted */
static const int dl_sizes[] = {1, 40, 63, 64, 65, 100, 113};
#define NDLSZ	((int)(sizeof(dl_sizes) / sizeof(*dl_sizes)))

static void
dl_date(char *buf, int i)
{
	snprintf(buf, 16, "%04d%02d%02d", 2031 + i / 336, i / 28 % 12 + 1, i % 28 + 1);
}

/* one line of N dates from index FROM on; 112 and more only fit without the VALUE parameter */
static void
dl_line(struct doc *d, const char *prop, int from, int n)
{
	char b[16];

	doc_puts(d, prop);
	doc_puts(d, n <= 111 ? ";VALUE=DATE:" : ":");
	for (int i = 0; i < n; i++) {
		dl_date(b, from + i);
		if (i) {
			PUTLIT(d, ",");
		}
		doc_puts(d, b);
	}
	PUTLIT(d, "\n");
}

static void
enum_datelists(void)
{
	static const char knm[] = "RXB";
	const int maxl = (int)vd_opt_l("maxlines", 3);
	const char *kinds = vd_opt("kinds", "RXB");

	occ_all = 1;
	for (int nl = 2; nl <= maxl && nl <= 3; nl++) {
		int ncomb = 1;

		for (int i = 0; i < nl; i++) {
			ncomb *= NDLSZ;
		}
		for (int kd = 0; kd < 3; kd++) {
			if (strchr(kinds, knm[kd]) == NULL) {
				continue;
			}
			for (int c = 0; c < ncomb; c++) {
				int sz[3], tot = 0, expect, at;
				char tmp[64];

				if (vd_stop()) {
					return;
				}
				for (int i = 0, q = c; i < nl; i++, q /= NDLSZ) {
					/* the first line varies slowest */
					sz[nl - 1 - i] = dl_sizes[q % NDLSZ];
				}
				for (int i = 0; i < nl; i++) {
					tot += sz[i];
				}
				/* distinct dates of the lines together */
				tot -= nl - 1;
				snprintf(tmp, sizeof(tmp), "datelists/%c", knm[kd]);
				vd_shape("%s/load", tmp);
				if (!vd_next()) {
					continue;
				}
				D.n = 0, D.fam = "datelists";
				doc_puts(&D, "BEGIN:VCALENDAR\nVERSION:2.0\nBEGIN:VEVENT\nUID:datelists\nSUMMARY:true\nDTSTART;VALUE=DATE:20310101\n");
				switch (kd) {
				case 0:
					at = 0;
					for (int i = 0; i < nl; i++) {
						dl_line(&D, "RDATE", at, sz[i]);
						at += sz[i] - 1;
					}
					expect = tot;
					break;
				case 1:
					dl_line(&D, "RDATE", 0, 113);
					at = 50;
					for (int i = 0; i < nl; i++) {
						dl_line(&D, "EXDATE", at, sz[i]);
						at += sz[i] - 1;
					}
					expect = 113 - ((50 + tot < 113 ? 50 + tot : 113) - 50);
					break;
				default:
					at = 0;
					for (int i = 0, xat = 30; i < nl; i++) {
						dl_line(&D, "RDATE", at, sz[i]);
						dl_line(&D, "EXDATE", xat, sz[i]);
						at += sz[i] - 1;
						xat += sz[i] - 1;
					}
					expect = tot <= 30 ? tot : 30;
					break;
				}
				doc_puts(&D, "END:VEVENT\nEND:VCALENDAR\n");
				snprintf(D.name, sizeof(D.name), "kind %c, %d lines of %d %d %d dates", knm[kd], nl, sz[0], sz[1], nl > 2 ? sz[2] : 0);
				cur_slug = kd == 0 ? "rdate-lines" : kd == 1 ? "exdate-lines" : "rdate+exdate-lines";
				vd_desc("%s (%zu bytes)", D.name, D.n);
				last_nocc = -1;
				do_doc_all(&D);
				/* do_doc_all() has left REF as the uncut run */
				if (REF.nins != 1 || strncmp(REF.s, "SCHE", 4)) {
					char sig[VD_SIGLEN];
					vd_sh->desc[desc_len] = '\0';
					snprintf(sig, sizeof(sig), "datelist-count/%c/instructions", knm[kd]);
					vd_viol(sig, "the uncut run yields %d instructions, expected one scheduled task", REF.nins);
				} else {
					const char *q = strstr(REF.s, "\037nocc=");
					const long got = q ? strtol(q + 6, NULL, 16) : -1;
					if (got != expect) {
						char sig[VD_SIGLEN];
						vd_sh->desc[desc_len] = '\0';
						snprintf(sig, sizeof(sig), "datelist-count/%c/%s", knm[kd], got < expect ? "fewer" : "more");
						vd_viol(sig, "the task has %ld occurrences, %d distinct dates are listed and not excepted", got, expect);
					}
				}
			}
		}
	}
}

static void
enumerate(void)
{
	const char *docs = vd_opt("docs", "samples");

	vd_count_cases = 0;
	parts_mask = parse_parts(vd_opt("parts", "c0,c1,ones,reg"));
	c1max = (size_t)vd_opt_l("c1max", DOCMAX);
	c2max = (size_t)vd_opt_l("c2max", 400);
	emit_path = vd_opt("emit", NULL);
	memset(iobuf, FILL_A, sizeof(iobuf));
	init_toks();
	if (!strcmp(docs, "samples")) {
		enum_docs(true);
	} else if (!strcmp(docs, "crafted")) {
		enum_docs(false);
	} else if (!strcmp(docs, "tokR")) {
		enum_tok(tokR, NTOKR, "tokR", false);
	} else if (!strcmp(docs, "tokC")) {
		enum_tok(tokC, NTOKC, "tokC", true);
	} else if (!strcmp(docs, "datelists")) {
		enum_datelists();
	} else {
		fprintf(stderr, "c10: unknown docs=%s\n", docs);
		_exit(3);
	}
}

int
main(int argc, char *argv[])
{
	return vd_main(argc, argv, enumerate);
}
