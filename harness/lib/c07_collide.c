/* C07 -- a zone's rules must not depend on which other zones were named before it, also when the zone table
 * has to fall back to its overflow region.
 *
 * echs_tzob() interns zone names in an open-addressed table: nine probes derived from the 32-bit hash (public
 * hash() of hash.h) in a 256-slot bottom region, then nine probes in each of the larger regions above it.  For a
 * target zone T the driver searches the installed zone tree for nine other zones whose FIRST probe occupies the nine
 * bottom probe slots of T, writes one calendar with an event in each of them followed by an event in T, and
 * compares T's occurrences (a winter and a summer DAILY rule) with those T delivers alone.  Every run is a freshly
 * forked image.  Targets: every installed zone for which such a set exists (bounded by --opt maxtargets).
 */
#include "vdrv.h"
#include <sys/wait.h>
#include <dirent.h>
#include <sys/stat.h>
#include "ref/icalio.h"
#include "ref/rfc5545.h"
#include "hash.h"

#define MAXZ	2048
static char *zname[MAXZ];
static uint32_t zhash[MAXZ];
static int nz;

static void
walk(const char *base, const char *rel, int depth)
{
	char path[1024];
	DIR *d;
	struct dirent *e;

	snprintf(path, sizeof(path), "%s%s%s", base, *rel ? "/" : "", rel);
	if ((d = opendir(path)) == NULL) return;
	while ((e = readdir(d)) != NULL && nz < MAXZ) {
		char sub[512], full[1536];
		struct stat st;
		if (e->d_name[0] == '.' || !(e->d_name[0] >= 'A' && e->d_name[0] <= 'Z')) continue;
		snprintf(sub, sizeof(sub), "%s%s%s", rel, *rel ? "/" : "", e->d_name);
		snprintf(full, sizeof(full), "%s/%s", base, sub);
		if (stat(full, &st) < 0) continue;
		if (S_ISDIR(st.st_mode)) {
			if (depth < 2 && strcmp(e->d_name, "posix") && strcmp(e->d_name, "right")) walk(base, sub, depth + 1);
		} else if (S_ISREG(st.st_mode) && st.st_size > 44) {
			/* a TZif file? */
			char magic[4] = "";
			FILE *f = fopen(full, "rb");
			if (f && fread(magic, 1, 4, f) == 4 && !memcmp(magic, "TZif", 4) && strchr(sub, '/')) {
				zname[nz] = strdup(sub);
				zhash[nz] = (uint32_t)hash(sub, strlen(sub));
				nz++;
			}
			if (f) fclose(f);
		}
	}
	closedir(d);
}

static int
cmpz(const void *a, const void *b)
{
	return strcmp(*(char *const*)a, *(char *const*)b);
}

struct shm_s {
	int n;
	int64_t t[16];
};
static struct shm_s *shm;

static void
drain_target(const char *text, const char *uid)
{
	echs_task_t t[24];
	size_t nt = ical_tasks(t, 24, text, strlen(text));
	/* the target's two events are the last two of the file, winter first */
	const size_t want = nt >= 2 ? nt - (uid[strlen(uid) - 1] == 'w' ? 2U : 1U) : 99U;

	shm->n = -1;
	for (size_t i = 0; i < nt; i++) {
		if (i == want && t[i]->strm != NULL) {
			shm->n = 0;
			for (; shm->n < 16; shm->n++) {
				echs_event_t e = echs_evstrm_pop(t[i]->strm);
				if (echs_nul_event_p(e)) break;
				rf_dt d = {e.from.y, e.from.m, e.from.d, e.from.H, e.from.M, e.from.S, 0};
				shm->t[shm->n] = rf_secs(d);
			}
		}
	}
}

static int
in_child(const char *text, const char *uid)
{
	pid_t c;
	int st;
	fflush(stdout);
	if ((c = fork()) == 0) {
		drain_target(text, uid);
		_exit(0);
	}
	while (waitpid(c, &st, 0) < 0 && errno == EINTR);
	return WIFEXITED(st) && WEXITSTATUS(st) == 0;
}

static size_t
event(char *buf, size_t bsz, const char *uid, const char *zone)
{
	return (size_t)snprintf(buf, bsz,
		"BEGIN:VEVENT\nUID:%s-w\nSUMMARY:true\nDTSTART;TZID=%s:20200115T170000\nRRULE:FREQ=DAILY;COUNT=3\nEND:VEVENT\n"
		"BEGIN:VEVENT\nUID:%s-s\nSUMMARY:true\nDTSTART;TZID=%s:20200715T170000\nRRULE:FREQ=DAILY;COUNT=3\nEND:VEVENT\n", uid, zone, uid, zone);
}

static void
enumerate(void)
{
	const long maxt = vd_opt_l("maxtargets", 40);
	const char *dir = vd_opt("zoneinfo", "/usr/share/zoneinfo");
	long ntarget = 0;
	char **sorted;

	vd_count_cases = 0;
	shm = mmap(NULL, sizeof(*shm), PROT_READ | PROT_WRITE, MAP_SHARED | MAP_ANONYMOUS, -1, 0);
	walk(dir, "", 0);
	/* deterministic order whatever the directory order */
	sorted = malloc(sizeof(*sorted) * (size_t)nz);
	memcpy(sorted, zname, sizeof(*sorted) * (size_t)nz);
	qsort(sorted, (size_t)nz, sizeof(*sorted), cmpz);
	for (int i = 0; i < nz; i++) {
		zname[i] = sorted[i];
		zhash[i] = (uint32_t)hash(zname[i], strlen(zname[i]));
	}
	vd_count("zones_installed", nz);
	for (int t = 0; t < nz && ntarget < maxt; t++) {
		int fill[9], ok = 1;
		uint32_t k = zhash[t];
		for (int j = 0; j < 9 && ok; j++, k >>= 3U) {
			const uint32_t slot = k & 0xffU;
			fill[j] = -1;
			for (int c = 0; c < nz; c++) {
				int used = c == t;
				for (int q = 0; q < j; q++) used |= fill[q] == c;
				if (!used && (zhash[c] & 0xffU) == slot) { fill[j] = c; break; }
			}
			/* a slot that an earlier filler already holds needs no second one */
			if (fill[j] < 0) {
				int held = 0;
				for (int q = 0; q < j; q++) held |= fill[q] >= 0 && (zhash[fill[q]] & 0xffU) == slot;
				ok = held;
			}
		}
		if (!ok) continue;
		ntarget++;
		if (!vd_next()) continue;
		{
			static char text[16384], alone[2048];
			int64_t ref[2][16];
			int nref[2];
			size_t o;
			char uid[16];
			const char *sfx[2] = {"-w", "-s"};

			vd_sh->evals++;
			vd_shape("collide/nine-bottom-slots-taken");
			o = (size_t)snprintf(alone, sizeof(alone), "BEGIN:VCALENDAR\nVERSION:2.0\n");
			o += event(alone + o, sizeof(alone) - o, "target", zname[t]);
			snprintf(alone + o, sizeof(alone) - o, "END:VCALENDAR\n");
			o = (size_t)snprintf(text, sizeof(text), "BEGIN:VCALENDAR\nVERSION:2.0\n");
			{
				char names[700] = "";
				for (int j = 0; j < 9; j++) {
					char fu[16];
					if (fill[j] < 0) continue;
					snprintf(fu, sizeof(fu), "fill%d", j);
					o += event(text + o, sizeof(text) - o, fu, zname[fill[j]]);
					snprintf(names + strlen(names), sizeof(names) - strlen(names), "%s%s", names[0] ? ", " : "", zname[fill[j]]);
				}
				vd_desc("events in %s, then a daily 17:00 event in %s (winter and summer start)", names, zname[t]);
			}
			o += event(text + o, sizeof(text) - o, "target", zname[t]);
			snprintf(text + o, sizeof(text) - o, "END:VCALENDAR\n");
			for (int w = 0; w < 2; w++) {
				snprintf(uid, sizeof(uid), "target%s", sfx[w]);
				if (!in_child(alone, uid) || shm->n != 3) {
					vd_viol("precond/alone", "%s alone: %d occurrences", zname[t], shm->n);
					nref[w] = -1;
					continue;
				}
				nref[w] = shm->n;
				memcpy(ref[w], shm->t, sizeof(ref[w]));
			}
			for (int w = 0; w < 2; w++) {
				if (nref[w] < 0) continue;
				snprintf(uid, sizeof(uid), "target%s", sfx[w]);
				if (!in_child(text, uid)) {
					vd_viol("crash/collide", "the image died reading the calendar");
					continue;
				}
				if (shm->n != nref[w] || memcmp(shm->t, ref[w], sizeof(int64_t) * (size_t)nref[w])) {
					rf_dt a = rf_from_secs(ref[w][0], 0), b = rf_from_secs(shm->n > 0 ? shm->t[0] : 0, 0);
					vd_viol("zone-differs/collide", "%s %s event: alone it starts %04d-%02d-%02dT%02d:%02d:%02dZ, behind the nine other zones %04d-%02d-%02dT%02d:%02d:%02dZ (%d occurrences)",
						zname[t], w ? "summer" : "winter", a.y, a.m, a.d, a.H, a.M, a.S, b.y, b.m, b.d, b.H, b.M, b.S, shm->n);
				}
			}
			vd_nontrivial();
			if (vd_want_sample()) vd_sample("target %s behind nine zones holding its bottom probe slots", zname[t]);
		}
	}
	vd_count("targets_with_a_collision_set", ntarget);
}

int
main(int argc, char *argv[])
{
	return vd_main(argc, argv, enumerate);
}
